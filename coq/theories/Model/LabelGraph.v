(* C15 — executable models of cpmorphology.relabel, find_neighbors (with adjacent),
   color_labels, euler_number and all_connected_components (+ the kernel
   _cpmorphology2._all_connected_components).  Definitions only; the proofs are in
   Proofs/*C15.v.  Label images are lists of rows of Z; graph vertices are N. *)
From Coq Require Import ZArith NArith List Bool.
From Centro Require Import Base.Sx Base.GraphC15.
Import ListNotations.
Open Scope Z_scope.

(* ================================================================ images *)
Definition image := list (list Z).
Definition img_h (img : image) : nat := length img.
Definition img_w (img : image) : nat := length (hd [] img).
(* total accessor with a border value *)
Definition get2d (img : image) (d : Z) (y x : Z) : Z :=
  if (y <? 0) || (x <? 0) then d
  else match nth_error img (Z.to_nat y) with
       | None => d
       | Some row => match nth_error row (Z.to_nat x) with None => d | Some v => v end
       end.
Definition get2 (img : image) (y x : Z) : Z := get2d img 0 y x.
(* np.max over an array of non-negative labels *)
Definition img_max (img : image) : Z := fold_right Z.max 0 (concat img).
(* raster-order positions of an h x w array *)
Definition positions (h w : nat) : list (Z * Z) :=
  flat_map (fun y => map (fun x => (y, x)) (zrange 0 w)) (zrange 0 h).

(* ================================================================ relabel *)
(* label_table = zeros(max+1); label_table[unique_labels] = arange(len)+1; read at x *)
Fixpoint table_get (uniq : list Z) (k : Z) (x : Z) : Z :=
  match uniq with
  | [] => 0
  | u :: r => if x =? u then k else table_get r (k + 1) x
  end.
Definition relabel (img : image) : image * Z :=
  let unique_labels := zunique (filter (fun x => negb (x =? 0)) (concat img)) in
  match unique_labels with
  | [] => (img, 0)
  | _ => (map (map (table_get unique_labels 1)) img, Z.of_nat (length unique_labels))
  end.

(* ================================================================ adjacent / find_neighbors *)
Definition offs9 : list (Z * Z) :=
  [(-1,-1); (-1,0); (-1,1); (0,-1); (0,0); (0,1); (1,-1); (1,0); (1,1)].
Definition dirs8 : list (Z * Z) :=
  [(-1,-1); (-1,0); (-1,1); (0,-1); (0,1); (1,-1); (1,0); (1,1)].

(* new_labels = zeros(shape+2); new_labels[1:-1,1:-1] = labels *)
Definition pad (img : image) : image :=
  let w := img_w img in
  let z := repeat 0 (w + 2) in
  z :: map (fun r => 0 :: r ++ [0]) img ++ [z].

(* adjacent(labels): minimum filter of the labels with background raised to high (cval high)
   differs from the maximum filter (cval 0), on foreground pixels *)
Definition adjacent_at (P : image) (high : Z) (y x : Z) : bool :=
  let hb := fun yy xx => let v := get2d P high yy xx in if v =? 0 then high else v in
  let mn := fold_right Z.min high (map (fun o => hb (y + fst o) (x + snd o)) offs9) in
  let mx := fold_right Z.max 0 (map (fun o => get2d P 0 (y + fst o) (x + snd o)) offs9) in
  negb (mn =? mx) && (0 <? get2 P y x).

Definition count_label (l : Z) (ls : list Z) : Z :=
  Z.of_nat (length (filter (fun a => a =? l) ls)).
(* v_index = cumsum(v_count) shifted right, first entry 0 *)
Fixpoint excl_cumsum (start : Z) (counts : list Z) : list Z :=
  match counts with [] => [] | c :: cs => start :: excl_cumsum (start + c) cs end.

(* first_occurrence: keep an element that differs from its predecessor *)
Fixpoint first_occ (prev : option (Z * Z)) (l : list (Z * Z)) : list (Z * Z) :=
  match l with
  | [] => []
  | p :: r =>
      let keep := match prev with
                  | None => true
                  | Some q => negb (fst p =? fst q) || negb (snd p =? snd q)
                  end in
      if keep then p :: first_occ (Some p) r else first_occ (Some p) r
  end.

(* the (v_label, v_neighbor) pairs after sorting, de-duplication and removal *)
Definition neighbor_pairs (img : image) : list (Z * Z) :=
  let P := pad img in
  let high := img_max P + 1 in
  let adj := filter (fun p => adjacent_at P high (fst p) (snd p))
                    (positions (img_h P) (img_w P)) in
  let gathered := flat_map (fun d => map (fun p => (get2 P (fst p) (snd p),
                                                     get2 P (fst p + fst d) (snd p + snd d))) adj)
                           dirs8 in
  let sorted := ZPairSort.sort gathered in
  let firsts := first_occ None sorted in
  filter (fun p => negb ((fst p =? snd p) || (snd p =? 0))) firsts.

Definition find_neighbors (img : image) : list Z * list Z * list Z :=
  let max_label := img_max img in
  let pairs := neighbor_pairs img in
  let v_count := map (fun l => count_label l (map fst pairs)) (zrange 1 (Z.to_nat max_label)) in
  (v_count, excl_cumsum 0 v_count, map snd pairs).

(* ================================================================ color_labels *)
Definition slice {A} (start len : Z) (l : list A) : list A :=
  firstn (Z.to_nat len) (skipn (Z.to_nat start) l).
Fixpoint set_nth (k : nat) (x : Z) (l : list Z) : list Z :=
  match l with
  | [] => []
  | y :: r => match k with O => x :: r | S k' => y :: set_nth k' x r end
  end.
Definition getl (l : list Z) (k : Z) : Z := nth (Z.to_nat k) l 0.

(* crange = np.arange(1, len(colors) + 1); misses = crange[colors != crange];
   color = misses[0] if len(misses) else len(colors) + 1 *)
Definition pick_from (colors : list Z) : Z :=
  let crange := zrange 1 (length colors) in
  let misses := map snd (filter (fun p => negb (fst p =? snd p)) (combine colors crange)) in
  match misses with
  | m :: _ => m
  | [] => Z.of_nat (length colors) + 1
  end.
(* the same rule as a recursion (Proofs/ColorC15.v: pick_from_first_free) *)
Fixpoint first_free (k : Z) (colors : list Z) : Z :=
  match colors with
  | [] => k
  | c :: r => if c =? k then first_free (k + 1) r else k
  end.

(* colour chosen for one label given colors = np.unique(v_color[neighbors]):
   if colors[0] == 0: (if len(colors) == 1: 1 else: colors = colors[1:]); then the misses rule *)
Definition pick_color (colors : list Z) : Z :=
  match colors with
  | [] => 1                                     (* cannot happen: neighbours is non-empty *)
  | c0 :: rest =>
      if c0 =? 0 then
        match rest with
        | [] => 1
        | _ => pick_from rest
        end
      else pick_from colors
  end.

(* rows are (count, index, label) *)
Definition color_step (v_neighbor : list Z) (v_color : list Z) (row : Z * Z * Z) : list Z :=
  let '(cnt, idx, lab) := row in
  let neighbors := slice idx cnt v_neighbor in
  let colors := zunique (map (getl v_color) neighbors) in
  set_nth (Z.to_nat lab) (pick_color colors) v_color.

Definition color_table (img : image) : option (list Z) :=
  let '(v_count, v_index, v_neighbor) := find_neighbors img in
  if forallb (fun c => c =? 0) v_count then None      (* the shortcut: (labels != 0).astype(int) *)
  else
    let v_color0 := 0 :: map (fun c => if c =? 0 then 1 else 0) v_count in
    let rows := filter (fun r => negb (fst (fst r) =? 0))
                       (combine (combine v_count v_index) (zrange 1 (length v_count))) in
    let rows := sort_by (fun r => - fst (fst r)) rows in          (* lexsort([-v_count]), stable *)
    Some (fold_left (color_step v_neighbor) rows v_color0).

Definition color_labels (img : image) : image :=
  match color_table img with
  | None => map (map (fun v => if v =? 0 then 0 else 1)) img
  | Some v_color => map (map (getl v_color)) img
  end.

(* ================================================================ euler_number *)
Definition b2z (b : bool) : Z := if b then 1 else 0.

Section Euler.
Variable img : image.
Let h := Z.of_nat (img_h img).
Let w := Z.of_nat (img_w img).
(* the four shifted planes, (h+3) x (w+3), zero outside the pasted block *)
Definition I00 (y x : Z) : Z := get2 img (y - 1) (x - 1).
Definition I01 (y x : Z) : Z := get2 img (y - 1) x.
Definition I10 (y x : Z) : Z := get2 img y (x - 1).
Definition I11 (y x : Z) : Z := get2 img y x.
Definition in_plane (y x : Z) : bool := (0 <=? y) && (y <? h + 3) && (0 <=? x) && (x <? w + 3).
(* a plane-sized boolean array read outside the plane does not exist; slices never do that *)
Definition in_slice00 (y x : Z) : bool := (1 <=? y) && (y <=? h) && (1 <=? x) && (x <=? w).

Definition EQ (A B : Z -> Z -> Z) (y x : Z) : bool := A y x =? B y x.
Definition NE (A B : Z -> Z -> Z) (y x : Z) : bool := negb (A y x =? B y x).

(* A[slice_00] += B[slice_01]   (slice_01 = rows 1..h, cols 0..w-1):  A[y,x] += B[y, x-1]
   A[slice_00] += B[slice_10]   (slice_10 = rows 0..h-1, cols 1..w):  A[y,x] += B[y-1, x]
   A[slice_00] += B[slice_11]   (slice_11 = rows 0..h-1, cols 0..w-1): A[y,x] += B[y-1, x-1] *)
Definition shifted (B : Z -> Z -> bool) (dy dx : Z) (y x : Z) : Z :=
  if in_slice00 y x then b2z (B (y - dy) (x - dx)) else 0.

Definition Q1_condition (y x : Z) : Z :=
  b2z (NE I00 I01 y x && NE I00 I10 y x && NE I00 I11 y x)
  + shifted (fun y x => NE I01 I00 y x && NE I01 I10 y x && NE I01 I11 y x) 0 1 y x
  + shifted (fun y x => NE I10 I00 y x && NE I10 I01 y x && NE I10 I11 y x) 1 0 y x
  + shifted (fun y x => NE I11 I00 y x && NE I11 I01 y x && NE I11 I10 y x) 1 1 y x.
Definition Q3_condition (y x : Z) : Z :=
  b2z (EQ I00 I10 y x && EQ I00 I01 y x && NE I00 I11 y x)
  + shifted (fun y x => NE I11 I00 y x && EQ I11 I10 y x && EQ I11 I01 y x) 1 1 y x
  + b2z (NE I00 I01 y x && EQ I00 I10 y x && EQ I00 I11 y x)
  + b2z (NE I00 I10 y x && EQ I00 I01 y x && EQ I00 I11 y x).
Definition QD_condition (y x : Z) : Z :=
  b2z (NE I00 I01 y x && NE I00 I10 y x && EQ I00 I11 y x)
  + shifted (fun y x => NE I01 I00 y x && NE I01 I11 y x && EQ I01 I10 y x) 0 1 y x.

(* scind.sum(cond, I00, index) *)
Definition plane_sum (cond : Z -> Z -> Z) (index : Z) : Z :=
  fold_right Z.add 0
    (map (fun p => if I00 (fst p) (snd p) =? index then cond (fst p) (snd p) else 0)
         (positions (img_h img + 3) (img_w img + 3))).

(* 4 W = Q1 - Q3 - 2 QD *)
Definition euler4 (index : Z) : Z :=
  plane_sum Q1_condition index - plane_sum Q3_condition index - 2 * plane_sum QD_condition index.
End Euler.

Definition euler_number4 (img : image) (indexes : list Z) : list Z := map (euler4 img) indexes.

(* ================================================================ all_connected_components *)
Open Scope N_scope.

Fixpoint list_maxN (l : list N) : N := match l with [] => 0 | x :: r => N.max x (list_maxN r) end.

(* np.bincount(i): max+1 entries *)
Definition bincountN (l : list N) : list N :=
  let m := fold_left (fun m a => mset m a (mgetd m a + 1)) l mempty in
  map (mgetd m) (nseq 0 (N.to_nat (N.succ (list_maxN l)))).
(* np.cumsum(counts) - counts *)
Fixpoint excl_cumsumN (start : N) (counts : list N) : list N :=
  match counts with [] => [] | c :: cs => start :: excl_cumsumN (start + c) cs end.

(* state of the kernel: label[], v_idx[] (None = UNDEFINED) and stack_v[0..stack_ptr) with
   the top of the stack at the head *)
Record dstate : Type := mkD { d_label : pmap; d_vidx : pmap; d_stack : list N }.

(* one iteration of `while(stack_ptr > 0)`; cnt v = counts[v], nbr v k = j[indexes[v] + k] *)
Definition dfs_step (cnt : N -> N) (nbr : N -> N -> N) (c : N) (s : dstate) : dstate :=
  match d_stack s with
  | [] => s
  | vv :: rest =>
      let lab1 := match mget (d_vidx s) vv with None => mset (d_label s) vv c | Some _ => d_label s end in
      let idx1 := match mget (d_vidx s) vv with None => mset (d_vidx s) vv 0 | Some _ => d_vidx s end in
      if mgetd idx1 vv <? cnt vv then
        let v1 := nbr vv (mgetd idx1 vv) in
        let idx2 := mset idx1 vv (mgetd idx1 vv + 1) in
        match mget lab1 v1 with
        | None => mkD lab1 idx2 (v1 :: vv :: rest)
        | Some _ => mkD lab1 idx2 (vv :: rest)
        end
      else mkD lab1 idx1 rest
  end.

(* at most [fuel] iterations, stopping as soon as the stack is empty; binary fuel *)
Fixpoint dfs_run (cnt : N -> N) (nbr : N -> N -> N) (c : N) (fuel : positive) (s : dstate) : dstate :=
  match d_stack s with
  | [] => s
  | _ :: _ =>
      match fuel with
      | xH => dfs_step cnt nbr c s
      | xO q => dfs_run cnt nbr c q (dfs_run cnt nbr c q s)
      | xI q => dfs_run cnt nbr c q (dfs_run cnt nbr c q (dfs_step cnt nbr c s))
      end
  end.

(* `for v in range(n): if label[v] == UNDEFINED: ...; cur_index += 1` *)
Definition dfs_outer_step (cnt : N -> N) (nbr : N -> N -> N) (fuel : positive)
    (acc : option (pmap * pmap * N)) (v : N) : option (pmap * pmap * N) :=
  match acc with
  | None => None
  | Some (lb, vi, c) =>
      match mget lb v with
      | Some _ => Some (lb, vi, c)
      | None =>
          let s' := dfs_run cnt nbr c fuel (mkD lb vi [v]) in
          match d_stack s' with
          | [] => Some (d_label s', d_vidx s', N.succ c)
          | _ :: _ => None                      (* out of fuel: excluded by the theorems *)
          end
      end
  end.

Definition dfs_all (cnt : N -> N) (nbr : N -> N -> N) (fuel : positive) (n : nat)
  : option (pmap * pmap * N) :=
  fold_left (dfs_outer_step cnt nbr fuel) (nseq 0 n) (Some (mempty, mempty, 0)).

(* i1 = hstack((i, j)); j1 = hstack((j, i)); order = lexsort((j1, i1)) *)
Definition acc_edges (i j : list N) : list (N * N) := NPairSort.sort (combine (i ++ j) (j ++ i)).

Fixpoint opt_all (l : list (option N)) : option (list N) :=
  match l with
  | [] => Some []
  | None :: _ => None
  | Some x :: r => match opt_all r with Some r' => Some (x :: r') | None => None end
  end.

Definition all_connected_components (i j : list N) : option (list N) :=
  match i with
  | [] => Some []                                                    (* if len(i) == 0: return i *)
  | _ =>
      let e := acc_edges i j in
      let counts := bincountN (map fst e) in
      let indexes := excl_cumsumN 0 counts in
      let cm := mof_list 0 counts mempty in
      let im := mof_list 0 indexes mempty in
      let jm := mof_list 0 (map snd e) mempty in
      let cnt := mgetd cm in
      let nbr := fun v k => mgetd jm (mgetd im v + k) in
      (* 2 * (number of directed edges) + n + 1 iterations always suffice (Proofs/DfsC15.v) *)
      let fuel := N.succ_pos (2 * fold_right N.add 0 counts + N.of_nat (length counts)) in
      match dfs_all cnt nbr fuel (length counts) with
      | None => None
      | Some (lb, _, _) => opt_all (map (mget lb) (nseq 0 (length counts)))
      end
  end.

(* ================================================================ wire entries *)
Open Scope Z_scope.
(* (img) -> (img n) *)
Definition entry_relabel (x : sx) : sx :=
  let r := relabel (as_Zss (arg 0 x)) in L [of_Zss (fst r); I (snd r)].
(* (img) -> (count index neighbor) *)
Definition entry_neighbors (x : sx) : sx :=
  let '(c, i, n) := find_neighbors (as_Zss (arg 0 x)) in L [of_Zs c; of_Zs i; of_Zs n].
(* (img) -> img *)
Definition entry_colors (x : sx) : sx := of_Zss (color_labels (as_Zss (arg 0 x))).
(* (img indexes) -> (4W ...) *)
Definition entry_euler (x : sx) : sx := of_Zs (euler_number4 (as_Zss (arg 0 x)) (as_Zs (arg 1 x))).
(* (i j) -> (labels) | () *)
Definition entry_acc (x : sx) : sx :=
  match all_connected_components (map Z.to_N (as_Zs (arg 0 x))) (map Z.to_N (as_Zs (arg 1 x))) with
  | Some l => L [of_Zs (map Z.of_N l)]
  | None => L []
  end.
