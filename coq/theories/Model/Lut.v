(* C06 — executable model of cpmorphology.table_lookup and of the kernels it dispatches to
   (_cpmorphology2.pyx: table_lookup_index, prepare_for_index_lookup, index_lookup,
   extract_from_image_lookup), statement by statement.  Definitions only.

   Mutable 2-D arrays are modelled by their contents [Z -> Z -> Z] (shape carried separately);
   a NumPy slice statement / a C store is one pointwise definition.  Images hold binary
   contents (the property's domain); [isbool] says whether the dtype is np.bool_ or an integer
   type, which is all the dispatch looks at.                                                  *)
From Coq Require Import ZArith List Bool.
From Centro Require Import Base.Sx Base.LutBits Spec.LutRule.
Import ListNotations.
Open Scope Z_scope.

Definition arr : Type := Z -> Z -> Z.
Definition zeros : arr := fun _ _ => 0.

(* a[i,j] += w *)
Definition upd (f : arr) (i j w : Z) : arr :=
  fun p q => if (p =? i) && (q =? j) then f p q + w else f p q.

Definition hit : Type := (Z * Z) * Z.
Definition apply_hits (f : arr) (hs : list hit) : arr :=
  fold_left (fun f h => upd f (fst (fst h)) (snd (fst h)) (snd h)) hs f.

(* ------------------------------------------------------------ table_lookup_index (dense) *)

(* interior pixel (i,j): p_indexer[offset + i_stride + 1] += 1 ... *)
Definition hit_interior (i j : Z) : list hit :=
  [ ((i + 1, j + 1), 1); ((i + 1, j), 2); ((i + 1, j - 1), 4);
    ((i, j + 1), 8);     ((i, j), 16);    ((i, j - 1), 32);
    ((i - 1, j + 1), 64); ((i - 1, j), 128); ((i - 1, j - 1), 256) ].
(* the four corners *)
Definition hit_c00 : list hit := [ ((0, 0), 16); ((0, 1), 8); ((1, 0), 2); ((1, 1), 1) ].
Definition hit_c0W (W : Z) : list hit :=
  [ ((0, W - 2), 32); ((0, W - 1), 16); ((1, W - 2), 4); ((1, W - 1), 2) ].
Definition hit_cH0 (H : Z) : list hit :=
  [ ((H - 2, 0), 128); ((H - 2, 1), 64); ((H - 1, 0), 16); ((H - 1, 1), 8) ].
Definition hit_cHW (H W : Z) : list hit :=
  [ ((H - 2, W - 2), 256); ((H - 2, W - 1), 128); ((H - 1, W - 2), 32); ((H - 1, W - 1), 16) ].
(* the edges *)
Definition hit_top (j : Z) : list hit :=
  [ ((0, j - 1), 32); ((0, j), 16); ((0, j + 1), 8); ((1, j - 1), 4); ((1, j), 2); ((1, j + 1), 1) ].
Definition hit_bot (H j : Z) : list hit :=
  [ ((H - 2, j - 1), 256); ((H - 2, j), 128); ((H - 2, j + 1), 64);
    ((H - 1, j - 1), 32); ((H - 1, j), 16); ((H - 1, j + 1), 8) ].
Definition hit_left (i : Z) : list hit :=
  [ ((i - 1, 0), 128); ((i, 0), 16); ((i + 1, 0), 2); ((i - 1, 1), 64); ((i, 1), 8); ((i + 1, 1), 1) ].
Definition hit_right (W i : Z) : list hit :=
  [ ((i - 1, W - 2), 256); ((i, W - 2), 32); ((i + 1, W - 2), 4);
    ((i - 1, W - 1), 128); ((i, W - 1), 16); ((i + 1, W - 1), 2) ].

(* if image[i,j]: <hits> *)
Definition when (X : Z -> Z -> bool) (i j : Z) (hs : list hit) (f : arr) : arr :=
  if X i j then apply_hits f hs else f.

Definition tli (H W : Z) (X : Z -> Z -> bool) : arr :=
  let nI := Z.to_nat (H - 2) in
  let nJ := Z.to_nat (W - 2) in
  (* for i in range(1,i_shape-1): for j in range(1,j_shape-1): *)
  let f := for_ nI 1 (fun i f => for_ nJ 1 (fun j f => when X i j (hit_interior i j) f) f) zeros in
  (* corners *)
  let f := when X 0 0 hit_c00 f in
  let f := when X 0 (W - 1) (hit_c0W W) f in
  let f := when X (H - 1) 0 (hit_cH0 H) f in
  let f := when X (H - 1) (W - 1) (hit_cHW H W) f in
  (* for j in range(1,j_shape-1): top and bottom row *)
  let f := for_ nJ 1 (fun j f => when X (H - 1) j (hit_bot H j) (when X 0 j (hit_top j) f)) f in
  (* for i in range(1,i_shape-1): left and right column *)
  let f := for_ nI 1 (fun i f => when X i (W - 1) (hit_right W i) (when X i 0 (hit_left i) f)) f in
  f.

(* ------------------------------------------------------------ the slicing path (a side < 3) *)

(* target range of a slice shifted by d in {-1,0,1}:  d=1: [1:]   d=0: [:]   d=-1: [:-1] *)
Definition trange (d n p : Z) : bool := (Z.max 0 d <=? p) && (p <? n + Z.min 0 d).

(* indexer[<rows dr>, <cols dc>] += image[<rows -dr>, <cols -dc>] * w *)
Definition sladd (H W : Z) (X : Z -> Z -> bool) (dr dc w : Z) (f : arr) : arr :=
  fun p q => if trange dr H p && trange dc W q then f p q + Z.b2z (X (p - dr) (q - dc)) * w else f p q.

Definition small_index (H W : Z) (X : Z -> Z -> bool) : arr :=
  let f := zeros in
  let f := sladd H W X 1 1 1 f in         (* indexer[1:, 1:]   += image[:-1, :-1] * 2**0 *)
  let f := sladd H W X 1 0 2 f in         (* indexer[1:, :]    += image[:-1, :]   * 2**1 *)
  let f := sladd H W X 1 (-1) 4 f in      (* indexer[1:, :-1]  += image[:-1, 1:]  * 2**2 *)
  let f := sladd H W X 0 1 8 f in         (* indexer[:, 1:]    += image[:, :-1]   * 2**3 *)
  let f := sladd H W X 0 0 16 f in        (* indexer[:, :]     += image[:, :]     * 2**4 *)
  let f := sladd H W X 0 (-1) 32 f in     (* indexer[:, :-1]   += image[:, 1:]    * 2**5 *)
  let f := sladd H W X (-1) 1 64 f in     (* indexer[:-1, 1:]  += image[1:, :-1]  * 2**6 *)
  let f := sladd H W X (-1) 0 128 f in    (* indexer[:-1, :]   += image[1:, :]    * 2**7 *)
  let f := sladd H W X (-1) (-1) 256 f in (* indexer[:-1, :-1] += image[1:, 1:]   * 2**8 *)
  f.

(* ------------------------------------------------------------ border_value masks *)
Definition border_or (H W : Z) (f : arr) : arr :=
  let f1 : arr := fun p q => if p =? 0 then Z.lor (f p q) 7 else f p q in          (* indexer[0, :]  |= 1+2+4 *)
  let f2 : arr := fun p q => if p =? H - 1 then Z.lor (f1 p q) 448 else f1 p q in  (* indexer[-1, :] |= 64+128+256 *)
  let f3 : arr := fun p q => if q =? 0 then Z.lor (f2 p q) 73 else f2 p q in       (* indexer[:, 0]  |= 1+8+64 *)
  let f4 : arr := fun p q => if q =? W - 1 then Z.lor (f3 p q) 292 else f3 p q in  (* indexer[:, -1] |= 4+32+256 *)
  f4.

(* ------------------------------------------------------------ the plain loop *)
Definition plain_index (b : bool) (X : grid bool) : arr :=
  let H := gH X in
  let W := gW X in
  let ix := if (H <? 3) || (W <? 3) then small_index H W (rd false X) else tli H W (rd false X) in
  if b then border_or H W ix else ix.

Definition plain_step (T : list bool) (b : bool) (X : grid bool) : grid bool :=
  let ix := plain_index b X in
  tab (length X) (length (hd [] X)) (fun p q => tbl T (ix p q)).      (* new_image = table[indexer] *)

(* while counter != iterations: counter += 1; ...; if all(new_image == image): break; image = new_image *)
Fixpoint plain_k (k : nat) (T : list bool) (b : bool) (X : grid bool) : grid bool :=
  match k with
  | O => X
  | S k' => let Y := plain_step T b X in if grid_eqb Y X then X else plain_k k' T b Y
  end.
(* iterations=None: the same loop without a counter bound; fuel only for totality *)
Fixpoint plain_none (fuel : nat) (T : list bool) (b : bool) (X : grid bool) : option (grid bool) :=
  match fuel with
  | O => None
  | S f => let Y := plain_step T b X in if grid_eqb Y X then Some X else plain_none f T b Y
  end.

(* ------------------------------------------------------------ the sparse index path *)
Definition zrange (a : Z) (n : nat) : list Z := map (fun k => a + Z.of_nat k) (seq 0 n).

(* np.argwhere(image.astype(bool)).transpose() + 1  (raster order) *)
Definition argwhere1 (X : grid bool) : list (Z * Z) :=
  flat_map (fun p => flat_map (fun q => if rd false X p q then [(p + 1, q + 1)] else [])
                              (zrange 0 (length (hd [] X)))) (zrange 0 (length X)).

(* output_image = ones/zeros(shape+2); output_image[1:H+1, 1:W+1] = image *)
Definition padded (b : bool) (X : grid bool) : arr :=
  fun p q => if (1 <=? p) && (p <=? gH X) && (1 <=? q) && (q <=? gW X)
             then Z.b2z (rd false X (p - 1) (q - 1)) else Z.b2z b.

Definition il_indexer (P : arr) (i j : Z) : Z :=
  let c := P i j in
  Z.b2z (P (i - 1) (j - 1) =? c) * 1 + Z.b2z (P (i - 1) j =? c) * 2 + Z.b2z (P (i - 1) (j + 1) =? c) * 4 +
  Z.b2z (P i (j - 1) =? c) * 8 + 16 + Z.b2z (P i (j + 1) =? c) * 32 +
  Z.b2z (P (i + 1) (j - 1) =? c) * 64 + Z.b2z (P (i + 1) j =? c) * 128 + Z.b2z (P (i + 1) (j + 1) =? c) * 256.

(* if table[indexer] == 0: index_i[idx] = -index_i[idx] *)
Definition il_mark (T : list bool) (P : arr) (ij : Z * Z) : Z * Z :=
  if tbl T (il_indexer P (fst ij) (snd ij)) then ij else (- fst ij, snd ij).

(* if idxi < 0: image[-idxi, idxj] = 0 *)
Definition il_clear (P : arr) (m : list (Z * Z)) : arr :=
  fold_left (fun (P : arr) ij => if fst ij <? 0
                                 then (fun p q => if (p =? - fst ij) && (q =? snd ij) then 0 else P p q)
                                 else P) m P.

(* the array is re-materialised after every pass (it is the same array in the code) *)
Definition remat (H W : nat) (P : arr) : arr := rd 0 (tab H W P).

Definition il_pass (H2 W2 : nat) (T : list bool) (st : list (Z * Z) * arr) : list (Z * Z) * arr :=
  let m := map (il_mark T (snd st)) (fst st) in
  (filter (fun ij => 0 <=? fst ij) m, remat H2 W2 (il_clear (snd st) m)).

(* for i in range(iterations): ...; if len(index_i) == hit_count: break *)
Fixpoint il_loop (n : nat) (H2 W2 : nat) (T : list bool) (st : list (Z * Z) * arr) : list (Z * Z) * arr :=
  match n with
  | O => st
  | S n' => let st' := il_pass H2 W2 T st in
            if Nat.eqb (length (fst st')) (length (fst st)) then st' else il_loop n' H2 W2 T st'
  end.

Definition index_lookup (H2 W2 : nat) (T : list bool) (iters : option nat) (st : list (Z * Z) * arr) :=
  il_loop (match iters with None => length (fst st) | Some k => k end) H2 W2 T st.

(* output = zeros(shape); output[index_i-1, index_j-1] = orig_image[index_i-1, index_j-1] *)
Definition extract (X : grid bool) (idx : list (Z * Z)) : grid bool :=
  tab (length X) (length (hd [] X))
      (fun p q => if existsb (fun ij => (fst ij - 1 =? p) && (snd ij - 1 =? q)) idx then rd false X p q else false).

Definition sparse (T : list bool) (b : bool) (iters : option nat) (X : grid bool) : grid bool :=
  let H2 := (length X + 2)%nat in
  let W2 := (length (hd [] X) + 2)%nat in
  let st := (argwhere1 X, remat H2 W2 (padded b X)) in
  extract X (fst (index_lookup H2 W2 T iters st)).

(* ------------------------------------------------------------ dispatch *)
Definition center_is_zero (k : Z) : bool := Z.land k 16 =? 0.
Definition idx512 : list Z := zrange 0 512.
(* not np.any(table[center_is_zero]) *)
Definition erosive_tb (T : list bool) : bool := negb (existsb (fun k => center_is_zero k && tbl T k) idx512).
(* np.all(table[~center_is_zero]) *)
Definition extensive_tb (T : list bool) : bool := forallb (fun k => center_is_zero k || tbl T k) idx512.
(* ~table[511 - np.arange(512)] *)
Definition inv_table (T : list bool) : list bool := map (fun k => negb (tbl T (511 - k))) idx512.
Definition gnot (X : grid bool) : grid bool := map (map negb) X.

(* dt: 0 = np.bool_, 1 = an integer dtype, 2 = anything else (floating) *)
Definition table_lookup (dt : Z) (X : grid bool) (T : list bool) (b : bool) (iters : option nat)
  : option (grid bool) :=
  if erosive_tb T && ((dt =? 0) || (dt =? 1)) then Some (sparse T b iters X)
  else if extensive_tb T && (dt =? 0) then Some (gnot (sparse (inv_table T) (negb b) iters (gnot X)))
  else match iters with
       | Some k => Some (plain_k k T b X)
       | None => plain_none FUEL T b X
       end.

(* ------------------------------------------------------------ wire entries *)
Definition as_iters (x : sx) : option nat := if as_Z x <? 0 then None else Some (Z.to_nat (as_Z x)).

(* [img; table; border; iters; dtype code] *)
Definition entry_tl (x : sx) : sx :=
  of_ogrid (table_lookup (as_Z (arg 4 x)) (as_boolss (arg 0 x)) (as_bools (arg 1 x)) (as_bool (arg 2 x))
                         (as_iters (arg 3 x))).

(* [img] -> table_lookup_index(img) (shape >= 3x3), or [] *)
Definition entry_tli (x : sx) : sx :=
  let X := as_boolss (arg 0 x) in
  if (gH X <? 3) || (gW X <? 3) then L []
  else L [of_Zss (tab (length X) (length (hd [] X)) (tli (gH X) (gW X) (rd false X)))].

(* [img; table; border; iters] -> index lists after prepare_for_index_lookup + index_lookup, and
   the padded image *)
Definition entry_idx (x : sx) : sx :=
  let X := as_boolss (arg 0 x) in
  let H2 := (length X + 2)%nat in
  let W2 := (length (hd [] X) + 2)%nat in
  let st := index_lookup H2 W2 (as_bools (arg 1 x)) (as_iters (arg 3 x))
                         (argwhere1 X, remat H2 W2 (padded (as_bool (arg 2 x)) X)) in
  L [of_Zs (map fst (fst st)); of_Zs (map snd (fst st)); of_Zss (tab H2 W2 (snd st))].
