(* C04 — executable model of centrosome.cpmorphology.grey_reconstruction (2-D, offset=None) and
   of _cpmorphology2.pyx:grey_reconstruction_loop, line by line, transcribed from
   design/prototypes/reconstruction_reference.py (which was validated against the binary).
   Values are Z: the code only compares and copies pixel values, so any order-preserving
   integer coding of the float data gives the same control flow (the harness sends codes).
   Arrays are finite maps with CHECKED access: reading or writing outside the allocated index
   range yields [Oob] (this is how index safety is stated and how an out-of-range access of the
   C loop would show in the model).  Definitions only; lemmas are in Proofs/. *)
From Coq Require Import ZArith List Bool FMapPositive.
From Centro Require Import Base.Sx Base.ReconSort Model.RankC18.
Import ListNotations.
Open Scope Z_scope.

(* ------------------------------------------------------------------ results *)
Inductive res (A : Type) : Type := Ok (a : A) | Oob | OutOfFuel | Rejected.
Arguments Ok {A} a.
Arguments Oob {A}.
Arguments OutOfFuel {A}.
Arguments Rejected {A}.

Definition bind {A B} (x : res A) (f : A -> res B) : res B :=
  match x with Ok a => f a | Oob => Oob | OutOfFuel => OutOfFuel | Rejected => Rejected end.
Notation "'do' x <- e ; f" := (bind e (fun x => f))
  (at level 200, x name, e at level 100, f at level 200).

Fixpoint fold_res {A B} (f : A -> B -> res A) (l : list B) (a : A) : res A :=
  match l with [] => Ok a | b :: l' => do a' <- f a b; fold_res f l' a' end.

Fixpoint map_res {A B} (f : A -> res B) (l : list A) : res (list B) :=
  match l with [] => Ok [] | a :: l' => do b <- f a; do bs <- map_res f l'; Ok (b :: bs) end.

(* ------------------------------------------------------------------ arrays *)
Definition arr := PositiveMap.t Z.
Definition key (i : Z) : positive := Z.to_pos (i + 1).
Definition get (a : arr) (i : Z) : option Z :=
  if i <? 0 then None else PositiveMap.find (key i) a.
Definition put (a : arr) (i v : Z) : arr := PositiveMap.add (key i) v a.
Definition rd (a : arr) (i : Z) : res Z := match get a i with Some v => Ok v | None => Oob end.
Definition wr (a : arr) (i v : Z) : res arr :=
  match get a i with Some _ => Ok (put a i v) | None => Oob end.
Fixpoint of_list_from (i : Z) (l : list Z) (a : arr) : arr :=
  match l with [] => a | v :: l' => of_list_from (i + 1) l' (put a i v) end.
Definition of_list (l : list Z) : arr := of_list_from 0 l (PositiveMap.empty Z).

Definition zlen {A} (l : list A) : Z := Z.of_nat (length l).
Fixpoint zseq (start : Z) (n : nat) : list Z :=
  match n with O => [] | S k => start :: zseq (start + 1) k end.
Definition zrange (n : Z) : list Z := zseq 0 (Z.to_nat n).

(* images are lists of rows; total accessor (0 outside, never relied upon) *)
Definition img_get (g : list (list Z)) (r c : Z) : Z :=
  if (r <? 0) || (c <? 0) then 0 else nth (Z.to_nat c) (nth (Z.to_nat r) g []) 0.
Definition fp_get (fp : list (list bool)) (a b : Z) : bool :=
  if (a <? 0) || (b <? 0) then false else nth (Z.to_nat b) (nth (Z.to_nat a) fp []) false.

Definition rect {A} (g : list (list A)) (w : Z) : bool := forallb (fun row => zlen row =? w) g.
Definition width {A} (g : list (list A)) : Z := zlen (hd [] g).

(* footprint offsets, centre crossed out, in the row-major order of
   footprint_mgrid[:, footprint].transpose() *)
Definition fp_offsets_at (fp : list (list bool)) (o0 o1 : Z) : list (Z * Z) :=
  let fh := zlen fp in
  let fw := width fp in
  flat_map (fun a =>
    flat_map (fun b =>
      if fp_get fp a b && negb ((a =? o0) && (b =? o1)) then [(a - o0, b - o1)] else [])
      (zrange fw)) (zrange fh).
(* the wrapper line `footprint = np.array(footprint, dtype=bool)` (fix F18) is the wire decoder
   as_boolss: any non-zero entry is a member.  offset=None: offset = footprint.shape // 2 *)
Definition fp_offsets (fp : list (list bool)) : list (Z * Z) :=
  fp_offsets_at fp (zlen fp / 2) (width fp / 2).

(* ------------------------------------------------------------------ the C loop *)
Record st : Type := mkst { vals : arr; prv : arr; nxt : arr; drops : Z }.
(* [drops] is ghost instrumentation: it counts executions of the relink with next[link] < 0, where
   the code as written leaves the neighbour out of the list.  It influences nothing else. *)

(* body of `for i in range(nstrides)`, _cpmorphology2.pyx lines 224-251 *)
Definition relax (S cur cv : Z) (s : st) (stride : Z) : res st :=
  let nb := cur + stride in                                   (* neighbor = current + strides[i] *)
  do nv <- rd (vals s) nb;                                    (* neighbor_value = values[neighbor] *)
  if nv <? cv then                                            (* if neighbor_value < current_value *)
    do mv <- rd (vals s) (nb + S);                            (* mask_value = values[neighbor + image_stride] *)
    if nv <? mv then                                          (* if neighbor_value < mask_value *)
      let link := if mv <? cv then nb + S else cur in
      let newv := if mv <? cv then mv else cv in
      do vals1 <- wr (vals s) nb newv;                        (* values[neighbor] = ... *)
      do nprev <- rd (prv s) nb;                              (* nprev = prev[neighbor] *)
      do nnext <- rd (nxt s) nb;                              (* nnext = next[neighbor] *)
      do nxt1 <- wr (nxt s) nprev nnext;                      (* next[nprev] = nnext *)
      do prv1 <- (if nnext =? -1 then Ok (prv s)              (* if nnext != -1: *)
                  else wr (prv s) nnext nprev);               (*     prev[nnext] = nprev *)
      do nnext2 <- rd nxt1 link;                              (* nnext = next[link] *)
      do nxt2 <- wr nxt1 nb nnext2;                           (* next[neighbor] = nnext *)
      do prv2 <- wr prv1 nb link;                             (* prev[neighbor] = link *)
      if 0 <=? nnext2 then                                    (* if nnext >= 0: *)
        do prv3 <- wr prv2 nnext2 nb;                         (*     prev[nnext] = neighbor *)
        do nxt3 <- wr nxt2 link nb;                           (*     next[link] = neighbor *)
        Ok (mkst vals1 prv3 nxt3 (drops s))
      else Ok (mkst vals1 prv2 nxt2 (drops s + 1))
    else Ok s
  else Ok s.

(* `while current != -1:` ; fuel counts iterations of the while loop *)
Fixpoint loop (fuel : nat) (S : Z) (strides : list Z) (cur : Z) (s : st) : res st :=
  match fuel with
  | O => OutOfFuel
  | Datatypes.S f =>
      if cur =? -1 then Ok s
      else if cur <? S then                                   (* if current < image_stride *)
        do cv <- rd (vals s) cur;                             (* current_value = values[current] *)
        if cv =? 0 then Ok s                                  (* if current_value == 0: break *)
        else
          do s' <- fold_res (relax S cur cv) strides s;
          do c' <- rd (nxt s') cur;                           (* current = next[current] *)
          loop f S strides c' s'
      else
        do c' <- rd (nxt s) cur;
        loop f S strides c' s
  end.

(* ------------------------------------------------------------------ the Python wrapper *)
Definition img_min (g : list (list Z)) : Z :=
  match concat g with [] => 0 | x :: l => fold_left Z.min l x end.

(* one plane of `values`: np.ones(dims) * np.min(image), inside slices overwritten *)
Definition padded_plane (H W p0 p1 fill : Z) (g : list (list Z)) : list Z :=
  flat_map (fun r =>
    map (fun c =>
      if (p0 <=? r) && (r <? p0 + H) && (p1 <=? c) && (c <? p1 + W)
      then img_get g (r - p0) (c - p1) else fill) (zrange (W + 2 * p1)))
    (zrange (H + 2 * p0)).

(* prev[value_sort[1:]] = value_sort[:-1]; next[value_sort[:-1]] = value_sort[1:] *)
Fixpoint link_pairs (l : list Z) (pn : arr * arr) : arr * arr :=
  match l with
  | a :: (b :: _) as t => link_pairs t (put (fst pn) b a, put (snd pn) a b)
  | _ => pn
  end.

(* rankorder.rank_order (nbins=None) is the C18 model Model.RankC18.rank_order (line-level, proved
   an order isomorphism in Proofs.RankC18Proofs); here only its result is packed into arrays:
   returns (int_image, original_values) *)
Definition rank_order (values : list Z) : arr * list Z :=
  let rk := RankC18.rank_order values in
  (of_list (map Z.of_nat (fst rk)), snd rk).

Record prep : Type := mkprep {
  p_H : Z; p_W : Z; p_p0 : Z; p_p1 : Z; p_PW : Z; p_S : Z;
  p_strides : list Z; p_cur : Z; p_st : st; p_vmap : arr; p_K : Z }.

Definition all_le (a b : list (list Z)) : bool :=
  forallb (fun rr => forallb (fun xy => fst xy <=? snd xy) (combine (fst rr) (snd rr))) (combine a b).

(* the asserts at the top of grey_reconstruction (and the non-empty image np.min needs) *)
Definition accepted_common (image mask : list (list Z)) (fp : list (list bool)) : bool :=
  let H := zlen image in
  let W := width image in
  (1 <=? H) && (1 <=? W) && rect image W &&
  (zlen mask =? H) && rect mask W &&                     (* image.shape == mask.shape *)
  all_le image mask &&                                   (* np.all(image <= mask) *)
  rect fp (width fp).
Definition accepted (image mask : list (list Z)) (fp : list (list bool)) : bool :=
  accepted_common image mask fp && Z.odd (zlen fp) && Z.odd (width fp).   (* footprint dimensions odd *)

Definition prepare_offs (image mask : list (list Z)) (fp : list (list bool)) (offs : list (Z * Z)) : prep :=
  let H := zlen image in
  let W := width image in
  let p0 := zlen fp / 2 in                                (* padding = footprint.shape // 2 *)
  let p1 := width fp / 2 in
  let PH := H + 2 * p0 in
  let PW := W + 2 * p1 in
  let S := PH * PW in                                     (* image_stride *)
  let mn := img_min image in
  let values := padded_plane H W p0 p1 mn image ++ padded_plane H W p0 p1 mn mask in
  let strides := map (fun o => fst o * PW + snd o) offs in
  let order := map snd (DescSort.sort (combine values (zrange (2 * S)))) in  (* np.lexsort([-values]) *)
  let minus1 := of_list (repeat (-1) (Z.to_nat (2 * S))) in
  let pn := link_pairs order (minus1, minus1) in
  let rk := rank_order values in
  mkprep H W p0 p1 PW S strides (hd (-1) order)
         (mkst (fst rk) (fst pn) (snd pn) 0) (of_list (snd rk)) (zlen (snd rk)).

Definition prepare (image mask : list (list Z)) (fp : list (list bool)) : prep :=
  prepare_offs image mask fp (fp_offsets fp).

(* value_map[values[:image_stride]] reshaped, inside slices *)
Definition finish (p : prep) (s : st) : res (list (list Z)) :=
  map_res (fun r =>
    map_res (fun c =>
      do k <- rd (vals s) ((r + p_p0 p) * p_PW p + (c + p_p1 p));
      rd (p_vmap p) k) (zrange (p_W p))) (zrange (p_H p)).

Definition run_prep (p : prep) : res (list (list Z) * Z) :=
  do s <- loop (Datatypes.S (Z.to_nat (2 * p_S p))) (p_S p) (p_strides p) (p_cur p) (p_st p);
  do out <- finish p s;
  Ok (out, drops s).

(* offset=None *)
Definition grey_reconstruction (image mask : list (list Z)) (fp : list (list bool))
  : res (list (list Z) * Z) :=
  if negb (accepted image mask fp) then Rejected else run_prep (prepare image mask fp).

(* explicit offset=(o0, o1): no oddness assert; the footprint origin is the given cell, the padding
   is still footprint.shape // 2 (so an origin away from the centre can reach beyond the padding:
   the model then reads the neighbouring row / the other plane exactly like the C code, or reports
   Oob where the C code would read outside its arrays) *)
Definition grey_reconstruction_off (image mask : list (list Z)) (fp : list (list bool)) (o0 o1 : Z)
  : res (list (list Z) * Z) :=
  if negb (accepted_common image mask fp) then Rejected
  else run_prep (prepare_offs image mask fp (fp_offsets_at fp o0 o1)).

(* ------------------------------------------------------------------ wire entry *)
(* (image mask footprint offset) -> (grid drops) | (code): 1 out-of-bounds access, 2 out of fuel,
   3 rejected by the asserts; offset = () for None or (o0 o1) *)
Definition res_sx (r : res (list (list Z) * Z)) : sx :=
  match r with
  | Ok (g, d) => L [of_Zss g; I d]
  | Oob => L [I 1]
  | OutOfFuel => L [I 2]
  | Rejected => L [I 3]
  end.
Definition entry_recon (x : sx) : sx :=
  let image := as_Zss (arg 0 x) in
  let mask := as_Zss (arg 1 x) in
  let fp := as_boolss (arg 2 x) in
  match as_Zs (arg 3 x) with
  | [o0; o1] => res_sx (grey_reconstruction_off image mask fp o0 o1)
  | _ => res_sx (grey_reconstruction image mask fp)
  end.
