(* C19 round 2 — preconditions of the kernels that round 1 only counted: convex_hull_ijv,
   _filter.median_filter, emd_hat_int32.  Hull: the call is accepted by the two asserts and the index list
   is repeat-free (C02's domain: a repeated label equal to max_label makes the kernel evaluate
   labels_ijv[pixidx, 2] one row past the buffer).  Definitions only. *)
From Coq Require Import ZArith List Bool.
From Centro Require Model.Hull.
Import ListNotations.
Open Scope Z_scope.

Fixpoint nodupb (l : list Z) : bool :=
  match l with [] => true | a :: t => negb (existsb (fun x => x =? a) t) && nodupb t end.

(* round 3: the kernel's two asserts, a non-empty buffer and a repeat-free index list; the write bound
   now follows for ALL such inputs from C02_hull_no_overflow (Proofs.HullC19Safe) *)
Definition kernel_pre_hull (ijv : list Hull.row) (indexes : list Z) : bool :=
  match ijv with [] => false | _ => true end &&
  Hull.kernel_accepts ijv indexes && nodupb indexes.

(* _filter.median_filter(data, mask, output, radius, percent): three uint8 arrays (Cython buffer
   mode 'c'); the kernel addresses ALL THREE with data's strides.  sh = (rows cols) and st =
   (row_stride col_stride) in elements, for data / mask / output. *)
Definition kernel_pre_median (rows cols rs cs mrows mcols mrs mcs orows ocols ors ocs radius percent : Z) : bool :=
  (0 <=? rows) && (0 <=? cols) &&
  (mrows =? rows) && (mcols =? cols) && (orows =? rows) && (ocols =? cols) &&
  (cs =? 1) && (mcs =? 1) && (ocs =? 1) &&
  ((rows <=? 1) || ((rs =? cols) && (mrs =? cols) && (ors =? cols))) &&
  (1 <=? radius) && ((2 * (radius + 1) + 1) * (2 * (radius + 1) + 1) <? 65536) &&
  (0 <=? percent) && (percent <=? 100).

(* emd_hat_int32: what np1D_to_vector / np2D_to_vector are handed after np.ascontiguousarray(.., int32):
   element counts, and the number of int32 elements between each data pointer (each row start for c)
   and the end of the owning allocation *)
Definition kernel_pre_emd (plen qlen pn pext qn qext crows ccols crowext : Z) : bool :=
  (1 <=? plen) && (1 <=? qlen) && (pn =? plen) && (qn =? qlen) && (crows =? plen) && (ccols =? qlen) &&
  (pn <=? pext) && (qn <=? qext) && (ccols <=? crowext).
