(* C18 — line-level models of centrosome/rankorder.py (rank_order with and without nbins) and
   centrosome/mode.py.  Definitions only. *)
From Coq Require Import ZArith List Bool Arith.
From Centro Require Import Base.SortC18 Model.VecC18.
Import ListNotations.
Local Open Scope nat_scope.

(* ------------------------------------------------------------------ rank_order, nbins=None
   [sort_order] is flat_image.argsort(): NumPy's default sort is not stable, so the model takes
   ANY index permutation that sorts the image as a parameter; [rank_order] instantiates it with
   a stable sort.  The result does not depend on the choice (Proofs: rank_order_with_char). *)
Definition rank_order_with (sort_order : list nat) (image : list Z) : list nat * list Z :=
  let flat_image := map (getz image) sort_order in             (* flat_image[sort_order] *)
  let is_different := adj_diff flat_image in                   (* flat[:-1] != flat[1:] *)
  let sort_rank := 0 :: ncumsum (map b2n is_different) in      (* zeros; cumsum(out=sort_rank[1:]) *)
  let original_values :=                                       (* [0]=flat[0]; [1:]=flat[1:][is_different] *)
    hd 0%Z flat_image :: compress is_different (tl flat_image) in
  let int_image := scatter sort_order sort_rank (repeat 0 (length sort_order)) in
  (int_image, original_values).

Definition rank_order (image : list Z) : list nat * list Z :=
  rank_order_with (argsort image) image.

(* ------------------------------------------------------------------ the nbins loop
   state = (int_image, original_values, max_ranked_data) *)
Definition bstate : Type := (list nat * list Z * nat)%type.

Definition mem_nat (i : nat) (l : list nat) : bool := existsb (Nat.eqb i) l.

Definition td_mask_of (mrd nbins : nat) (order : list nat) : list bool :=
  let candidates := firstn (mrd + 2 - nbins) order in
  (* to_delete = zeros(mrd+2, bool); to_delete[candidates] = True *)
  let to_delete := map (fun i => mem_nat i candidates) (seq 0 (mrd + 2)) in
  (* to_delete[:-1] & (((arange(mrd+1) & 2) == 0) | ~to_delete[1:]) *)
  let td0 := map (fun i => nth i to_delete false &&
                           ((Nat.land i 2 =? 0) || negb (nth (S i) to_delete false)))
                 (seq 0 (mrd + 1)) in
  (* if td_mask[0]: td_mask[0] = False *)
  match td0 with [] => [] | _ :: r => false :: r end.

Definition bin_step (nbins : nat) (order : list nat) (st : bstate) : bstate :=
  let '(int_image, original_values, mrd) := st in
  let td_mask := td_mask_of mrd nbins order in
  let keep := map negb td_mask in
  let rd_translation := map (fun c => c - 1) (ncumsum (map b2n keep)) in   (* cumsum(~td_mask) - 1 *)
  let int_image' := map (getn rd_translation) int_image in
  let original_values' := compress keep original_values in
  (int_image', original_values', length original_values' - 1).

Fixpoint nodupb (l : list nat) : bool :=
  match l with [] => true | x :: r => negb (mem_nat x r) && nodupb r end.
Fixpoint nsortedb (l : list nat) : bool :=
  match l with x :: ((y :: _) as r) => (x <=? y) && nsortedb r | _ => true end.

(* what any argsort of hist returns: a permutation of 0..mrd that sorts hist *)
Definition admissible (mrd : nat) (hist order : list nat) : bool :=
  (length order =? S mrd) && forallb (fun k => k <? S mrd) order && nodupb order
  && nsortedb (map (getn hist) order).

(* [oracle k hist] is the result of np.argsort(hist) in iteration k: tie order is free. *)
Fixpoint bins_loop (fuel k : nat) (oracle : nat -> list nat -> list nat) (nbins : nat)
         (st : bstate) : option (list nat * list Z) :=
  let '(int_image, original_values, mrd) := st in
  if mrd <? nbins then Some (int_image, original_values) else
  match fuel with
  | O => None
  | S f =>
      let hist := bincount int_image 0 in
      let order := oracle k hist in
      if admissible mrd hist order
      then bins_loop f (S k) oracle nbins (bin_step nbins order st)
      else None
  end.

Definition rank_order_bins_with (oracle : nat -> list nat -> list nat) (sort_order : list nat)
           (image : list Z) (nbins : nat) : option (list nat * list Z) :=
  let '(int_image, original_values) := rank_order_with sort_order image in
  bins_loop (length original_values) 0 oracle nbins (int_image, original_values, list_max int_image).

(* a stable argsort of the histogram, as one admissible oracle *)
Definition stable_oracle (_ : nat) (hist : list nat) : list nat := argsort (map Z.of_nat hist).
(* the oracle that replays the orders recorded from the implementation *)
Definition replay_oracle (orders : list (list nat)) (k : nat) (_ : list nat) : list nat := nth k orders [].

(* ------------------------------------------------------------------ mode *)
Definition mode (a : list Z) : list Z :=
  match a with
  | [] => []
  | _ =>
      let aa := zsort a in
      let indices := 0 :: map S (where_true (adj_diff aa)) ++ [length aa] in
      let counts := map2 Nat.sub (tl indices) (removelast indices) in
      let best_indices := compress (map (Nat.eqb (list_max counts)) counts) (removelast indices) in
      map (getz aa) best_indices
  end.
