(* C14 — executable model of the VECTORISED bookkeeping of cpmorphology.minimum_enclosing_circle:
   all objects of one call are processed together on the global arrays of the code —
     hull rows (label, i, j) concatenated in the order of `indexes`,
     point_count, point_index = [0] ++ cumsum(point_count[:-1])            (VecC13.offsets),
     anti_indexes[indexes] = arange(n), anti_indexes_per_point = anti_indexes[hull[:, 0]] (VecC13.anti_index),
     within_label_indexes = arange(N) - point_index[anti_indexes_per_point],
     s0_idx, s1_idx (GLOBAL row numbers), keep_me, centers/radii (here: exact results) —
   and per iteration every active object reads S0, S1 through its global row numbers, selects its
   candidate vertices as the rows g with anti_indexes_per_point[g] = k and
   within_label_indexes[g] >= 2 (keep_me_vertices), takes the first vertex of smallest angle
   (scind.minimum_position per label), and either finishes (cases 1, 1a, 2) or rewrites
   s0_idx/s1_idx and within_label_indexes at global positions.  The geometric decisions are those
   of Model/Circle.v.  Definitions only. *)
From Coq Require Import ZArith List Bool.
From Centro Require Import Base.Sx Base.VecC13 Model.Circle.
Import ListNotations.
Open Scope Z_scope.

Definition zlenv {A} (l : list A) : Z := Z.of_nat (length l).
Definition nthz {A} (a : list A) (g : Z) (d : A) : A := nth (Z.to_nat g) a d.

(* the hull array of the code: one row (label, point) per vertex, objects in `indexes` order *)
Definition hull_rows (indexes : list Z) (blocks : list (list cpt)) : list (Z * cpt) :=
  concat (map (fun lb => map (pair (fst lb)) (snd lb)) (combine indexes blocks)).

Record vstate : Type := mkV
  { v_s0 : list Z; v_s1 : list Z; v_keep : list bool; v_w : list Z; v_res : list cres }.

Inductive action : Type := Idle | Finish (r : cres) | MoveS0 (g : Z) | MoveS1 (g : Z).

Section Vec.
  Variable rows : list (Z * cpt).
  Variable app : list Z.               (* anti_indexes_per_point *)
  Definition ptg (g : Z) : cpt := snd (nthz rows g (0, (0, 0))).

  (* keep_me_vertices restricted to object k, as global row numbers in increasing order *)
  Definition cands (w : list Z) (k : Z) : list Z :=
    filter (fun g => (nthz app g (-1) =? k) && (2 <=? nthz w g 0)) (zrange 0 (length rows)).

  (* first candidate with the largest cosine (smallest angle S0-V-S1) *)
  Fixpoint best_over (gs : list Z) (P0 P1 : cpt) (best : option (Z * Z * Z)) : option (Z * Z * Z) :=
    match gs with
    | [] => best
    | g :: t =>
        let v := ptg g in
        let d := dot3 P0 P1 v in
        let A := dist2 P0 v * dist2 P1 v in
        best_over t P0 P1
          (match best with
           | None => Some (g, d, A)
           | Some (_, bd, bA) => if cos_gt d A bd bA then Some (g, d, A) else best
           end)
    end.

  (* what the iteration does for object k, reading the state of the beginning of the iteration *)
  Definition decide (st : vstate) (k : Z) : action :=
    if negb (nthz (v_keep st) k false) then Idle else
    let P0 := ptg (nthz (v_s0 st) k 0) in
    let P1 := ptg (nthz (v_s1 st) k 0) in
    match best_over (cands (v_w st) k) P0 P1 None with
    | None => Finish (diam P0 P1)
    | Some (g, d, _) =>
        if d <=? 0 then Finish (diam P0 P1) else
        let V := ptg g in
        let a0 := dot3 P1 V P0 in
        let a1 := dot3 P0 V P1 in
        if (0 <=? a0) && (0 <=? a1) then Finish (circum P0 P1 V)
        else if a0 <? 0 then MoveS0 g else MoveS1 g
    end.

  Definition setz {A} (a : list A) (g : Z) (v : A) : list A := upd_set (Z.to_nat g) v a.

  (* the writes of one object: centers/radii/keep_me, or s0_idx / s1_idx and within_label_indexes *)
  Definition apply_action (st : vstate) (k : Z) (a : action) : vstate :=
    match a with
    | Idle => st
    | Finish r => mkV (v_s0 st) (v_s1 st) (setz (v_keep st) k false) (v_w st) (setz (v_res st) k r)
    | MoveS0 g =>
        let old := nthz (v_s0 st) k 0 in
        mkV (setz (v_s0 st) k g) (v_s1 st) (v_keep st)
            (setz (setz (v_w st) old (nthz (v_w st) g 0)) g 0) (v_res st)
    | MoveS1 g =>
        let old := nthz (v_s1 st) k 0 in
        mkV (v_s0 st) (setz (v_s1 st) k g) (v_keep st)
            (setz (setz (v_w st) old (nthz (v_w st) g 0)) g 1) (v_res st)
    end.

  (* one pass of the while loop: all decisions are taken on the state at the start of the pass
     (vectorised reads), then the writes are applied *)
  Definition vstep (n : nat) (st : vstate) : vstate :=
    let ks := zrange 0 n in
    fold_left (fun s ka => apply_action s (fst ka) (snd ka)) (combine ks (map (decide st) ks)) st.

  Fixpoint vloop (fuel : nat) (n : nat) (st : vstate) : vstate :=
    match fuel with
    | O => st
    | S f => if existsb (fun b => b) (v_keep st) then vloop f n (vstep n st) else st
    end.
End Vec.

Definition vec_init (indexes : list Z) (blocks : list (list cpt)) : list (Z * cpt) * list Z * vstate :=
  let rows := hull_rows indexes blocks in
  let counts := map zlenv blocks in
  let pidx := offsets counts in
  let anti := anti_index indexes in
  let app := map (fun r => nthz anti (fst r) 0) rows in
  let w0 := map (fun ga => fst ga - nthz pidx (snd ga) 0) (combine (zrange 0 (length rows)) app) in
  let res0 := map (fun pb =>
                     match snd pb with
                     | [] => CEmpty
                     | [p] => CCircle (fst p) (snd p) 1 0
                     | [p; q] => diam p q
                     | _ => CFuel
                     end) (combine pidx blocks) in
  (rows, app, mkV pidx (map (Z.add 1) pidx) (map (fun c => 2 <? c) counts) w0 res0).

Definition max_fuel (blocks : list (list cpt)) : nat :=
  fold_right (fun b m => Nat.max (length b * length b + 10) m) O blocks.

(* the per-object results of one vectorised call *)
Definition chrystal_vec (indexes : list Z) (blocks : list (list cpt)) : list cres :=
  let '(rows, app, st0) := vec_init indexes blocks in
  v_res (vloop rows app (max_fuel blocks) (length blocks) st0).

(* ((indexes) (blocks)) -> list of tagged results *)
Definition entry_chrystal_vec (x : sx) : sx :=
  L (map of_cres (chrystal_vec (as_Zs (arg 0 x)) (map as_pairs (as_list (arg 1 x))))).
