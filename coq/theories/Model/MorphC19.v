(* C19 — bounds-checked models of three kernels of _cpmorphology2.pyx (index arithmetic only, every
   raw access through the checked accessors of Base.ArrC19) and their boolean preconditions
   [kernel_pre_*], which the harness evaluates on the ACTUAL arguments of every recorded call.
   Definitions only.  Pixel/table values are Z; the kernels only test them against 0 / each other. *)
From Coq Require Import ZArith List Bool.
From Centro Require Import Base.ArrC19.
Import ListNotations.
Open Scope Z_scope.

(* ================================================================== table_lookup_index
   _cpmorphology2.pyx:75-186.  The interior is walked with raw pointers p_image / p_indexer and
   the flat offset  i_stride*i + j ; corners and edges use 2-D buffer indexing. *)
Inductive acc : Type := Flat (k : Z) | At (i j : Z).
Definition resolve (H W : Z) (a : acc) : option Z :=
  match a with
  | Flat k => if inb k (H * W) then Some k else None
  | At i j => if inb i H && inb j W then Some (i * W + j) else None
  end.
Definition rdA (H W : Z) (arr : list Z) (a : acc) : option Z := do k <- resolve H W a; rd arr k.
(* indexer[a] += w *)
Definition addA (H W : Z) (idx : list Z) (aw : acc * Z) : option (list Z) :=
  do k <- resolve H W (fst aw); do x <- rd idx k; wr idx k (x + snd aw).
(* `if image[test]: indexer[..] += ..; ...` *)
Definition item : Type := (acc * list (acc * Z))%type.
Definition run_item (H W : Z) (image : list Z) (idx : list Z) (it : item) : option (list Z) :=
  do v <- rdA H W image (fst it);
  if v =? 0 then Some idx else foldM (addA H W) (snd it) idx.

Definition tli_interior (H W s : Z) : list item :=
  flat_map (fun i =>
    map (fun j =>
      let off := s * i + j in        (* offset = i_stride*i+1, then += 1 per column *)
      (Flat off,
       [(Flat (off + s + 1), 1); (Flat (off + s), 2); (Flat (off + s - 1), 4);
        (Flat (off + 1), 8); (Flat off, 16); (Flat (off - 1), 32);
        (Flat (off - s + 1), 64); (Flat (off - s), 128); (Flat (off - s - 1), 256)]))
      (zrange 1 (W - 1))) (zrange 1 (H - 1)).
Definition tli_corners (H W : Z) : list item :=
  [ (At 0 0, [(At 0 0, 16); (At 0 1, 8); (At 1 0, 2); (At 1 1, 1)]);
    (At 0 (W - 1), [(At 0 (W - 2), 32); (At 0 (W - 1), 16); (At 1 (W - 2), 4); (At 1 (W - 1), 2)]);
    (At (H - 1) 0, [(At (H - 2) 0, 128); (At (H - 2) 1, 64); (At (H - 1) 0, 16); (At (H - 1) 1, 8)]);
    (At (H - 1) (W - 1), [(At (H - 2) (W - 2), 256); (At (H - 2) (W - 1), 128);
                          (At (H - 1) (W - 2), 32); (At (H - 1) (W - 1), 16)]) ].
Definition tli_rows (H W : Z) : list item :=
  flat_map (fun j =>
    [ (At 0 j, [(At 0 (j - 1), 32); (At 0 j, 16); (At 0 (j + 1), 8);
                (At 1 (j - 1), 4); (At 1 j, 2); (At 1 (j + 1), 1)]);
      (At (H - 1) j, [(At (H - 2) (j - 1), 256); (At (H - 2) j, 128); (At (H - 2) (j + 1), 64);
                      (At (H - 1) (j - 1), 32); (At (H - 1) j, 16); (At (H - 1) (j + 1), 8)]) ])
    (zrange 1 (W - 1)).
Definition tli_cols (H W : Z) : list item :=
  flat_map (fun i =>
    [ (At i 0, [(At (i - 1) 0, 128); (At i 0, 16); (At (i + 1) 0, 2);
                (At (i - 1) 1, 64); (At i 1, 8); (At (i + 1) 1, 1)]);
      (At i (W - 1), [(At (i - 1) (W - 2), 256); (At i (W - 2), 32); (At (i + 1) (W - 2), 4);
                      (At (i - 1) (W - 1), 128); (At i (W - 1), 16); (At (i + 1) (W - 1), 2)]) ])
    (zrange 1 (H - 1)).
Definition tli_items (H W s : Z) : list item :=
  tli_interior H W s ++ tli_corners H W ++ tli_rows H W ++ tli_cols H W.

(* s = image.strides[0] (uint8: bytes = elements).  The assert `i_shape >= 3 and j_shape >= 3`
   raises before any raw access: modelled as the (safe) result [Some []]. *)
Definition table_lookup_index (H W s : Z) (image : list Z) : option (list Z) :=
  if (3 <=? H) && (3 <=? W)
  then foldM (run_item H W image) (tli_items H W s) (repeat 0 (Z.to_nat (H * W)))
  else Some [].

Definition kernel_pre_tli (H W s imglen : Z) : bool :=
  (3 <=? H) && (3 <=? W) && (s =? W) && (imglen =? H * W).

(* ================================================================== skeletonize_loop
   _cpmorphology2.pyx:20-72 *)
Definition bit (v : Z) : Z := if v =? 0 then 0 else 1.
(* `cond and result[i, j]`: the read happens only when the guard holds *)
Definition grd (c : bool) (res : list Z) (H W i j : Z) : option Z :=
  if c then rd2 res H W i j else Some 0.

Definition skel_step (H W : Z) (table iarr jarr : list Z) (res : list Z) (oi : Z) : option (list Z) :=
  do ii <- rd iarr oi;                              (* ii = i[order_index] *)
  do jj <- rd jarr oi;                              (* jj = j[order_index] *)
  if 0 <? ii then
    do a1 <- grd (0 <? jj) res H W (ii - 1) (jj - 1);
    do a2 <- rd2 res H W (ii - 1) jj;
    do a3 <- grd (jj <? W - 1) res H W (ii - 1) (jj + 1);
    do a4 <- grd (0 <? jj) res H W ii (jj - 1);
    do a6 <- grd (jj <? W - 1) res H W ii (jj + 1);
    do a7 <- grd ((ii <? H - 1) && (0 <? jj)) res H W (ii + 1) (jj - 1);
    do a8 <- grd (ii <? H - 1) res H W (ii + 1) jj;
    do a9 <- grd ((ii <? H - 1) && (jj <? W - 1)) res H W (ii + 1) (jj + 1);
    let accu := 16 + bit a1 + 2 * bit a2 + 4 * bit a3 + 8 * bit a4 + 32 * bit a6
                + 64 * bit a7 + 128 * bit a8 + 256 * bit a9 in
    do t <- rd table accu;                          (* table[accumulator] *)
    wr2 res H W ii jj t                             (* result[ii,jj] = ... *)
  else Some res.

Definition skeletonize_loop (H W : Z) (res iarr jarr order table : list Z) : option (list Z) :=
  foldM (skel_step H W table iarr jarr) order res.   (* order_index = order[index] for every index *)

Definition kernel_pre_skel (H W reslen : Z) (iarr jarr order : list Z) (tablelen : Z) : bool :=
  (reslen =? H * W) && forallb (fun i => inb i H) iarr && forallb (fun j => inb j W) jarr &&
  forallb (fun o => inb o (zlen iarr) && inb o (zlen jarr)) order && (512 <=? tablelen).

(* ================================================================== index_lookup
   _cpmorphology2.pyx:397-470.  image is the copy padded by one pixel on every side
   (prepare_for_index_lookup); points are (row, col) in padded coordinates. *)
Definition eqw (a b w : Z) : Z := if a =? b then w else 0.
Definition il_index (H W : Z) (img : list Z) (i j : Z) : option Z :=
  do c <- rd2 img H W i j;
  do a1 <- rd2 img H W (i - 1) (j - 1);
  do a2 <- rd2 img H W (i - 1) j;
  do a3 <- rd2 img H W (i - 1) (j + 1);
  do a4 <- rd2 img H W i (j - 1);
  do a6 <- rd2 img H W i (j + 1);
  do a7 <- rd2 img H W (i + 1) (j - 1);
  do a8 <- rd2 img H W (i + 1) j;
  do a9 <- rd2 img H W (i + 1) (j + 1);
  Some (eqw a1 c 1 + eqw a2 c 2 + eqw a3 c 4 + eqw a4 c 8 + 16 + eqw a6 c 32
        + eqw a7 c 64 + eqw a8 c 128 + eqw a9 c 256).

(* first inner loop: mark for deletion by negating the row index *)
Fixpoint il_mark (H W : Z) (table img : list Z) (pts : list (Z * Z)) : option (list (Z * Z)) :=
  match pts with
  | [] => Some []
  | (i, j) :: t =>
      do k <- il_index H W img i j;
      do tv <- rd table k;
      do r <- il_mark H W table img t;
      Some ((if tv =? 0 then (- i, j) else (i, j)) :: r)
  end.
(* second inner loop: `if idxi < 0: image[-idxi, idxj] = 0` *)
Definition il_clear1 (H W : Z) (img : list Z) (p : Z * Z) : option (list Z) :=
  if fst p <? 0 then wr2 img H W (- fst p) (snd p) 0 else Some img.
Definition il_pass (H W : Z) (table img : list Z) (pts : list (Z * Z))
  : option (list Z * list (Z * Z)) :=
  do m <- il_mark H W table img pts;
  do img' <- foldM (il_clear1 H W) m img;
  Some (img', filter (fun p => 0 <=? fst p) m).       (* index_i[index_i >= 0] *)

(* `for i in range(iterations)` with the early break when nothing was removed *)
Fixpoint index_lookup (iters : nat) (H W : Z) (table img : list Z) (pts : list (Z * Z))
  : option (list Z * list (Z * Z)) :=
  match iters with
  | O => Some (img, pts)
  | S n =>
      do r <- il_pass H W table img pts;
      if (length (snd r) =? length pts)%nat then Some r
      else index_lookup n H W table (fst r) (snd r)
  end.

(* every point strictly inside the padded image, table of 512 entries *)
Definition kernel_pre_il (H W imglen tablelen : Z) (pts : list (Z * Z)) : bool :=
  (imglen =? H * W) && (512 <=? tablelen) &&
  forallb (fun p => (1 <=? fst p) && (fst p <=? H - 2) && (1 <=? snd p) && (snd p <=? W - 2)) pts.
