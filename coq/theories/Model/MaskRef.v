(* C12 — executable reference models of the SciPy symbols whose LOCALITY the translator's table trusts
   (scipy.ndimage correlate/convolve with a finite kernel, binary erosion/dilation, grey erosion/dilation with a finite
   footprint), on finite integer arrays with SciPy's `constant` and `reflect` border modes.  They are run against SciPy
   in the correspondence (entry_ref) and their locality is proved in Proofs/MaskRefLocal.v.  Definitions only. *)
From Coq Require Import ZArith List Bool.
From Centro Require Import Base.Sx Model.MaskFlow.
Import ListNotations.
Open Scope Z_scope.

(* ---- operations on total images (the level at which Model/MaskFlow.v declares locality) *)
Definition zsumf (l : list Z) : Z := fold_right Z.add 0 l.
(* correlate: sum over the kernel's offsets d (with weight w) of w * a(p + d) *)
Definition ref_correlate (k : list (px * Z)) (a : px -> Z) (p : px) : Z :=
  zsumf (map (fun dw => snd dw * a (padd p (fst dw))) k).
Definition ref_binary_erosion (fp : list px) (a : px -> Z) (p : px) : Z :=
  if forallb (fun d => negb (a (padd p d) =? 0)) fp then 1 else 0.
Definition ref_binary_dilation (fp : list px) (a : px -> Z) (p : px) : Z :=
  if existsb (fun d => negb (a (padd p d) =? 0)) fp then 1 else 0.
(* minimum / maximum over a non-empty footprint (first offset d0 given separately) *)
Definition ref_grey_erosion (d0 : px) (fp : list px) (a : px -> Z) (p : px) : Z :=
  fold_right (fun d acc => Z.min (a (padd p d)) acc) (a (padd p d0)) fp.
Definition ref_grey_dilation (d0 : px) (fp : list px) (a : px -> Z) (p : px) : Z :=
  fold_right (fun d acc => Z.max (a (padd p d)) acc) (a (padd p d0)) fp.

(* Chebyshev extent of a list of offsets *)
Definition extent (ds : list px) : Z := fold_right (fun d acc => Z.max (dist (0, 0) d) acc) 0 ds.

(* ---- finite arrays and SciPy's border modes *)
Definition grid := list (list Z).
Definition gget (g : grid) (p : px) : Z := nth (Z.to_nat (snd p)) (nth (Z.to_nat (fst p)) g []) 0.
Definition inside (H W : Z) (p : px) : bool := (0 <=? fst p) && (fst p <? H) && (0 <=? snd p) && (snd p <? W).
(* mode='constant', cval=c *)
Definition ext_const (c H W : Z) (f : px -> Z) (p : px) : Z := if inside H W p then f p else c.
(* mode='reflect' (d c b a | a b c d | d c b a): one reflection written out, the general case by the period 2n *)
Definition refl (n i : Z) : Z :=
  if (0 <=? i) && (i <? n) then i
  else if (- n <=? i) && (i <? 0) then - i - 1
  else if (n <=? i) && (i <? 2 * n) then 2 * n - 1 - i
  else let m := i mod (2 * n) in if m <? n then m else 2 * n - 1 - m.
Definition ext_reflect (H W : Z) (f : px -> Z) (p : px) : Z := f (refl H (fst p), refl W (snd p)).

Definition gH (g : grid) : Z := Z.of_nat (length g).
Definition gW (g : grid) : Z := Z.of_nat (length (hd [] g)).
Definition extend (mode cval : Z) (g : grid) : px -> Z :=
  if mode =? 0 then ext_const cval (gH g) (gW g) (gget g) else ext_reflect (gH g) (gW g) (gget g).
Definition tabulate (g : grid) (f : px -> Z) : grid :=
  map (fun i => map (fun j => f (Z.of_nat i, Z.of_nat j)) (seq 0 (length (hd [] g)))) (seq 0 (length g)).

(* wire format: (op grid offsets weights mode cval); offsets as pairs, first offset = d0 for the grey operations *)
Definition entry_ref (x : sx) : sx :=
  let op := as_Z (arg 0 x) in
  let g := as_Zss (arg 1 x) in
  let ds := as_pairs (arg 2 x) in
  let ws := as_Zs (arg 3 x) in
  let a := extend (as_Z (arg 4 x)) (as_Z (arg 5 x)) g in
  let f :=
    if op =? 0 then ref_correlate (combine ds ws) a
    else if op =? 1 then ref_binary_erosion ds a
    else if op =? 2 then ref_binary_dilation ds a
    else if op =? 3 then ref_grey_erosion (hd (0, 0) ds) (tl ds) a
    else ref_grey_dilation (hd (0, 0) ds) (tl ds) a in
  of_Zss (tabulate g f).
