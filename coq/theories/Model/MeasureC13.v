(* C13 — executable models of the integer/rational-exact per-object measurements of
   cpmorphology.py, composed from the idioms of Base/VecC13.v as the code composes them.
   Definitions only; the theorems are in Proofs/MeasureC13Proofs.v.

   areas (scind.sum of ones), calculate_extents, calculate_perimeters (scoring table regenerated
   into Gen/TablesC13.v, in thousandths), euler_number (4W from the bit-quad counts),
   median_of_labels (values are dyadic numbers scaled to integers; the result is 2*median),
   ellipse_from_second_moments_ijv up to the central moments a, b, c (over Q),
   skeleton_length (float32 table scaled by 2^24, exact). *)
From Coq Require Import ZArith QArith List Bool.
From Centro Require Import Base.Sx Base.VecC13 Gen.TablesC13.
Import ListNotations.
Open Scope Z_scope.

Definition img := list (list Z).

(* (label, value) pairs in raster order: labels.ravel() next to some per-pixel array *)
Definition lab_pairs {A} (val : Z * Z * Z -> A) (im : img) : list (Z * A) :=
  map (fun p => (p_v p, val p)) (pixels im).

(* ------------------------------------------------------------------ areas, extents *)

(* scind.sum(np.ones(labels.shape), labels, indexes) *)
Definition areas (im : img) (idxs : list Z) : list Z :=
  nd_fold 0 Z.add (lab_pairs (fun _ => 1) im) idxs.

(* calculate_extents: (area, bounding-box area); the code returns their float quotient *)
Definition extents (im : img) (idxs : list Z) : list (Z * Z) :=
  let ar := areas im idxs in
  let xmin := nd_min (lab_pairs p_x im) idxs in
  let xmax := nd_max (lab_pairs p_x im) idxs in
  let ymin := nd_min (lab_pairs p_y im) idxs in
  let ymax := nd_max (lab_pairs p_y im) idxs in
  map (fun t => match t with (a, (x0, (x1, (y0, y1)))) => (a, (x1 - x0 + 1) * (y1 - y0 + 1)) end)
      (combine ar (combine xmin (combine xmax (combine ymin ymax)))).

(* ------------------------------------------------------------------ perimeters *)

Definition perim_score (im : img) (p : Z * Z * Z) : Z :=
  nth (Z.to_nat (table_idx_at im (p_y p) (p_x p))) perim_table 0.

(* scind.sum(__perimeter_scoring[table_idx_from_labels(labels)], labels, indexes), thousandths *)
Definition perimeters (im : img) (idxs : list Z) : list Z :=
  nd_fold 0 Z.add (lab_pairs (perim_score im) im) idxs.

(* ------------------------------------------------------------------ skeleton_length *)

Definition skel_score (im : img) (p : Z * Z * Z) : Z :=
  nth (Z.to_nat (table_idx_at im (p_y p) (p_x p))) skel_table 0.

(* np.bincount(labels.ravel(), weights=score.ravel(), minlength=np.max(indices)+1)[indices];
   the float32 table entries are scaled by 2^24 (exact); None = IndexError *)
Definition skeleton_length (im : img) (idxs : list Z) : option (list Z) :=
  gather (bincount 0 Z.add (maxl idxs + 1) (lab_pairs (skel_score im) im)) idxs.

(* ------------------------------------------------------------------ euler_number *)

(* zero outside the image: the I00..I11 arrays are zero-initialised *)
Definition g (im : img) (y x : Z) : Z := match get im y x with Some v => v | None => 0 end.
Definition b2z (b : bool) : Z := if b then 1 else 0.
Definition ne (a b : Z) : bool := negb (a =? b).
Definition eq (a b : Z) : bool := a =? b.

(* The four work arrays I00, I01, I10, I11 are zero-padded shifted copies of the label image:
   I00 = pad 1 2 1 2 labels, and at a position (y, x) of the (H+3) x (W+3) arrays
   I00 = labels(y-1, x-1) (the pixel the position is keyed by), I01 = labels(y-1, x),
   I10 = labels(y, x-1), I11 = labels(y, x).  [nb di dj] is the label at the key pixel + (di, dj). *)
Definition nbf (im : img) (y x : Z) (di dj : Z) : Z := g im (y - 1 + di) (x - 1 + dj).

(* slice_00 = [1 : H+1, 1 : W+1] *)
Definition in00 (h w y x : Z) : bool := (1 <=? y) && (y <=? h) && (1 <=? x) && (x <=? w).

Definition q1k (nb : Z -> Z -> Z) (inb : bool) : Z :=
  b2z (ne (nb 0 0) (nb 0 1) && ne (nb 0 0) (nb 1 0) && ne (nb 0 0) (nb 1 1))
  + (if inb then
       (* (NE01_00 & NE01_10 & NE01_11)[slice_01] : the quad one column to the left *)
       b2z (ne (nb 0 (-1)) (nb 0 0) && ne (nb 0 0) (nb 1 (-1)) && ne (nb 0 0) (nb 1 0))
       (* (NE10_00 & NE10_01 & NE10_11)[slice_10] : the quad one row up *)
       + b2z (ne (nb (-1) 0) (nb 0 0) && ne (nb (-1) 1) (nb 0 0) && ne (nb 0 0) (nb 0 1))
       (* (NE11_00 & NE11_01 & NE11_10)[slice_11] : the quad up and left *)
       + b2z (ne (nb (-1) (-1)) (nb 0 0) && ne (nb (-1) 0) (nb 0 0) && ne (nb 0 (-1)) (nb 0 0))
     else 0).

Definition q3k (nb : Z -> Z -> Z) (inb : bool) : Z :=
  b2z (eq (nb 0 0) (nb 1 0) && eq (nb 0 0) (nb 0 1) && ne (nb 0 0) (nb 1 1))
  + (if inb then
       (* (NE11_00 & EQ11_10 & EQ11_01)[slice_11] *)
       b2z (ne (nb (-1) (-1)) (nb 0 0) && eq (nb 0 (-1)) (nb 0 0) && eq (nb (-1) 0) (nb 0 0))
     else 0)
  + b2z (ne (nb 0 0) (nb 0 1) && eq (nb 0 0) (nb 1 0) && eq (nb 0 0) (nb 1 1))
  + b2z (ne (nb 0 0) (nb 1 0) && eq (nb 0 0) (nb 0 1) && eq (nb 0 0) (nb 1 1)).

Definition qdk (nb : Z -> Z -> Z) (inb : bool) : Z :=
  b2z (ne (nb 0 0) (nb 0 1) && ne (nb 0 0) (nb 1 0) && eq (nb 0 0) (nb 1 1))
  + (if inb then
       (* (NE01_00 & NE01_11 & EQ01_10)[slice_01] *)
       b2z (ne (nb 0 (-1)) (nb 0 0) && ne (nb 0 0) (nb 1 0) && eq (nb 0 0) (nb 1 (-1)))
     else 0).

(* scind.sum(Qx_condition, I00, indexes) for one of the three condition arrays *)
Definition euler_pairs (qk : (Z -> Z -> Z) -> bool -> Z) (im : img) : list (Z * Z) :=
  let hz := Z.of_nat (length im) in
  let wz := Z.of_nat (width im) in
  lab_pairs (fun p => qk (nbf im (p_y p) (p_x p)) (in00 hz wz (p_y p) (p_x p))) (pad 1 2 1 2 im).

(* 4 * W per requested label: (Q1 - Q3 - 2 QD), every sum keyed by I00 *)
Definition euler4 (im : img) (idxs : list Z) : list Z :=
  let q1 := nd_fold 0 Z.add (euler_pairs q1k im) idxs in
  let q3 := nd_fold 0 Z.add (euler_pairs q3k im) idxs in
  let qd := nd_fold 0 Z.add (euler_pairs qdk im) idxs in
  map (fun t => match t with (a, (b, c)) => a - b - 2 * c end) (combine q1 (combine q3 qd)).

(* ------------------------------------------------------------------ median_of_labels *)

(* np.lexsort((image, labels)): by label, then by value — a stable insertion sort *)
Definition le2 (a b : Z * Z) : bool :=
  (fst a <? fst b) || ((fst a =? fst b) && (snd a <=? snd b)).
Fixpoint insert_s (a : Z * Z) (l : list (Z * Z)) : list (Z * Z) :=
  match l with
  | [] => [a]
  | b :: r => if le2 a b then a :: l else b :: insert_s a r
  end.
Definition lexsort (l : list (Z * Z)) : list (Z * Z) := fold_right insert_s [] l.

(* median[k] from counts[k], first[k]: twice the median, None = nan *)
Definition median_entry (image : list Z) (cf : Z * Z) : option Z :=
  let c := fst cf in
  let lo := Z.to_nat (snd cf + (c - 1) / 2) in
  if 0 <? c then
    if Z.odd c then Some (2 * nth lo image 0) else Some (nth lo image 0 + nth (S lo) image 0)
  else None.

Definition median_of_labels (im vals : img) (idxs : list Z) : list (option Z) :=
  match idxs with
  | [] => []
  | _ =>
      let labs := map p_v (pixels im) in
      let vs := map p_v (pixels vals) in
      let n := Z.max (maxl labs) (maxl idxs) + 1 in
      let include := include_table n idxs in
      let anti := anti_table n idxs in
      let sel := filter (fun lv => nth (Z.to_nat (fst lv)) include false) (combine labs vs) in
      let lv := map (fun lv => (nth (Z.to_nat (fst lv)) anti 0, snd lv)) sel in
      match lv with
      | [] => map (fun _ => None) idxs
      | _ =>
          let sorted := lexsort lv in
          let image := map snd sorted in
          let counts := bincount 0 Z.add (Z.of_nat (length idxs)) (map (fun p => (fst p, 1)) sorted) in
          let last := cumsum counts in
          let first := 0 :: removelast last in
          map (median_entry image) (combine counts first)
      end
  end.

(* ------------------------------------------------------------------ ellipse moments over Q *)

Definition qadd (a b : Q) : Q := Qred (a + b).
Definition qdiv (a b : Q) : option Q := if Qeq_bool b 0 then None else Some (Qred (a / b)).
Definition qget (a : list (option Q)) (l : Z) : Q :=
  match nth (Z.to_nat l) a None with Some q => q | None => 0%Q end.
Definition omap2 (f : Q -> Q -> option Q) (a b : list Q) : list (option Q) :=
  map (fun ab => f (fst ab) (snd ab)) (combine a b).

Record ell : Type := mkEll { e_m00 : Q; e_ic : Q; e_jc : Q; e_a : Q; e_b : Q; e_c : Q }.

Inductive ell_result : Type :=
| EllIndexError                         (* a negative requested label (the tables cover max(indexes) + 1) *)
| EllNoPixels                           (* len(i) == 0 branch *)
| EllRows (rows : list (option ell)).   (* None = nan (0/0) *)

Definition ellipse_moments (im : img) (idxs : list Z) : ell_result :=
  match idxs with
  | [] => EllRows []
  | _ =>
      (* i, j = np.argwhere(labels != 0).transpose(); labels[i, j] *)
      let nz := filter (fun p => negb (p_v p =? 0)) (pixels im) in
      match nz with
      | [] => EllNoPixels
      | _ =>
          (* nlabels = np.max(indexes) + 1; every np.bincount(labels, ..., minlength=nlabels) *)
          let nlabels := maxl idxs + 1 in
          let bc := fun (val : Z * Z * Z -> Q) => bincount 0%Q qadd nlabels (map (fun p => (p_v p, val p)) nz) in
          let m00 := bc (fun _ => 1%Q) in
          let ic := omap2 qdiv (bc (fun p => inject_Z (p_y p))) m00 in
          let jc := omap2 qdiv (bc (fun p => inject_Z (p_x p))) m00 in
          let ci := fun p : Z * Z * Z => (inject_Z (p_y p) - qget ic (p_v p))%Q in
          let cj := fun p : Z * Z * Z => (inject_Z (p_x p) - qget jc (p_v p))%Q in
          let m11 := bc (fun p => (ci p * cj p)%Q) in
          let m20 := bc (fun p => (ci p * ci p)%Q) in
          let m02 := bc (fun p => (cj p * cj p)%Q) in
          let a := omap2 qdiv m20 m00 in
          let b := omap2 (fun x y => qdiv (2 * x) y) m11 m00 in
          let c := omap2 qdiv m02 m00 in
          let rows := map (fun t => match t with
                                    | (n, (Some i_, (Some j_, (Some a_, (Some b_, Some c_))))) =>
                                        Some (mkEll n i_ j_ a_ b_ c_)
                                    | _ => None
                                    end)
                          (combine m00 (combine ic (combine jc (combine a (combine b c))))) in
          match gather rows idxs with
          | Some r => EllRows r
          | None => EllIndexError
          end
      end
  end.

(* ------------------------------------------------------------------ wire entries *)

Definition of_Q (q : Q) : sx := L [I (Qnum q); I (Zpos (Qden q))].
Definition of_ell (e : option ell) : sx :=
  match e with
  | None => L []
  | Some e => L [of_Q (e_m00 e); of_Q (e_ic e); of_Q (e_jc e); of_Q (e_a e); of_Q (e_b e); of_Q (e_c e)]
  end.
Definition of_optZ (o : option Z) : sx := match o with Some v => L [I v] | None => L [] end.

(* (labels values16 idxs skeleton) -> (areas extents perimeters euler4 median ellipse skeleton) *)
Definition entry_measure (x : sx) : sx :=
  let im := as_Zss (arg 0 x) in
  let vals := as_Zss (arg 1 x) in
  let idxs := as_Zs (arg 2 x) in
  let sk := as_Zss (arg 3 x) in
  L [ of_Zs (areas im idxs);
      of_pairs (extents im idxs);
      of_Zs (perimeters im idxs);
      of_Zs (euler4 im idxs);
      L (map of_optZ (median_of_labels im vals idxs));
      match ellipse_moments im idxs with
      | EllIndexError => I 0
      | EllNoPixels => I 1
      | EllRows r => L (map of_ell r)
      end;
      match skeleton_length sk idxs with
      | Some r => L [of_Zs r]
      | None => L []
      end ].

(* idioms against NumPy / centrosome.index.Indexes / table_idx_from_labels:
   (labels weights minlength idxs counts image) ->
   (bincount anti_index offsets rev_idx idx table_idx_image) *)
Definition entry_idioms (x : sx) : sx :=
  let labs := as_Zs (arg 0 x) in
  let ws := as_Zs (arg 1 x) in
  let m := as_Z (arg 2 x) in
  let idxs := as_Zs (arg 3 x) in
  let counts := as_Zs (arg 4 x) in
  let im := as_Zss (arg 5 x) in
  L [ of_Zs (bincount 0 Z.add m (combine labs ws));
      of_Zs (anti_index idxs);
      of_Zs (offsets counts);
      of_Zs (indexes_rev counts);
      of_Zs (indexes_idx counts);
      of_Zss (table_idx_image im) ].
