(* C11 — exact-arithmetic model of the Ridler-Calvard iteration (definitions only).  The code's
   pre-processing (clip to max/256, log, stretch to [0,1]) and post-processing (exp) use log/exp, which have
   no rational model: the harness applies them with NumPy and hands the STRETCHED data (exact rationals of
   the doubles, scaled to integers by a common power of two) to [rc_model]; the model does the two phases the
   bracket depends on — the initial value otsu(im) (Model.OtsuQ) and the fixed-point loop — and is compared
   with get_ridler_calvard_threshold through the (monotone) exp transfer.
   Ridler-Calvard: the fixed-point iteration  new = mean(mean(im[im < t]), mean(im[im >= t]))  on the
   log-stretched data, as written (None = NaN: an empty class; out of fuel = None).
   MCT: the final formula  min + my_bin * (max - min) / (bins - 1). *)
From Coq Require Import ZArith QArith Qabs List Bool.
From Centro Require Import Base.Sx Base.ThresholdNum Model.OtsuQ.
Import ListNotations.
Open Scope Q_scope.

Definition qsum (l : list Q) : Q := fold_right Qplus 0 l.
Definition qmean (l : list Q) : Q := qsum l / inject_Z (Z.of_nat (length l)).
Definition below (t : Q) (l : list Q) : list Q := filter (fun x => negb (Qle_bool t x)) l.   (* im[im < t] *)
Definition atleast (t : Q) (l : list Q) : list Q := filter (fun x => Qle_bool t x) l.         (* im[im >= t] *)
Definition rc_step (im : list Q) (t : Q) : option Q :=
  match below t im, atleast t im with
  | _ :: _, _ :: _ => Some ((qmean (below t im) + qmean (atleast t im)) / 2)
  | _, _ => None
  end.
(* while abs(pre - new) > delta: pre = new; new = step *)
Fixpoint rc_iter (fuel : nat) (delta : Q) (im : list Q) (pre new : Q) : option Q :=
  if Qle_bool (Qabs (pre - new)) delta then Some new else
  match fuel with
  | O => None
  | S f => match rc_step im new with
           | Some t => rc_iter f delta im new t
           | None => None
           end
  end.

Definition mct_value (vmin vmax : Q) (bins my_bin : Z) : Q :=
  vmin + inject_Z my_bin * (vmax - vmin) / inject_Z (bins - 1).

(* the iterates, for the harness (conditioning: distance of every iterate to the nearest data value) *)
Fixpoint rc_iterates (fuel : nat) (delta : Q) (im : list Q) (pre new : Q) : list Q :=
  new :: (if Qle_bool (Qabs (pre - new)) delta then [] else
          match fuel with
          | O => []
          | S f => match rc_step im new with
                   | Some t => rc_iterates f delta im new t
                   | None => []
                   end
          end).
(* pre_thresh = 0; new_thresh = otsu(im); while abs(pre_thresh - new_thresh) > delta: … ; data = the stretched
   image as integers (common scale); [fuel] bounds the number of passes of the unbounded while-loop (None = not
   converged within fuel, or an empty class = NaN in the code) *)
Definition rc_model (fuel : nat) (delta : Q) (data : list Z) : option Q :=
  rc_iter fuel delta (map inject_Z data) 0 (otsu (map Some data)).
(* arg: (data (delta_num delta_den) fuel) -> (result? iterates) *)
Definition entry_rc (x : sx) : sx :=
  let data := as_Zs (arg 0 x) in
  let delta := as_Q (arg 1 x) in
  let fuel := as_nat (arg 2 x) in
  L [match rc_model fuel delta data with Some t => L [of_Q (Qred t)] | None => L [] end;
     of_Qs (map Qred (rc_iterates fuel delta (map inject_Z data) 0 (otsu (map Some data))))].
