(* C11 — exact-arithmetic skeletons of the two other bracket methods (definitions only; NOT tied by a
   correspondence: log/exp and sqrt have no rational model — the bracket clause S5 is evaluated on the
   implementation by the checker; these models support the _partial theorems only).
   Ridler-Calvard: the fixed-point iteration  new = mean(mean(im[im < t]), mean(im[im >= t]))  on the
   log-stretched data, as written (None = NaN: an empty class; out of fuel = None).
   MCT: the final formula  min + my_bin * (max - min) / (bins - 1). *)
From Coq Require Import ZArith QArith Qabs List Bool.
Import ListNotations.
Open Scope Q_scope.

Definition qsum (l : list Q) : Q := fold_right Qplus 0 l.
Definition qmean (l : list Q) : Q := qsum l / inject_Z (Z.of_nat (length l)).
Definition below (t : Q) (l : list Q) : list Q := filter (fun x => negb (Qle_bool t x)) l.   (* im[im < t] *)
Definition atleast (t : Q) (l : list Q) : list Q := filter (fun x => Qle_bool t x) l.         (* im[im >= t] *)
Definition rc_step (im : list Q) (t : Q) : option Q :=
  match below t im, atleast t im with
  | _ :: _, _ :: _ => Some ((qmean (below t im) + qmean (atleast t im)) / 2)
  | _, _ => None
  end.
(* while abs(pre - new) > delta: pre = new; new = step *)
Fixpoint rc_iter (fuel : nat) (delta : Q) (im : list Q) (pre new : Q) : option Q :=
  if Qle_bool (Qabs (pre - new)) delta then Some new else
  match fuel with
  | O => None
  | S f => match rc_step im new with
           | Some t => rc_iter f delta im new t
           | None => None
           end
  end.

Definition mct_value (vmin vmax : Q) (bins my_bin : Z) : Q :=
  vmin + inject_Z my_bin * (vmax - vmin) / inject_Z (bins - 1).
