(* C05 - executable grid models of the table-driven thinning code (definitions only).

   Anchors: centrosome/cpmorphology.py  thin (3894-3949), binary_shrink (318-421),
            skeletonize (4130-4210);  centrosome/_cpmorphology2.pyx  skeletonize_loop (19-72),
            index_lookup (397-470).

   Images are [grid] = list of rows of booleans (Base/TopoGrid.v), read through the total accessor
   [img_of] (False outside the frame = the zero border prepare_for_index_lookup adds / the
   [jj > 0], [jj < shape[1]-1], [ii < shape[0]-1] guards of skeletonize_loop).  The seven tables
   are the regenerated constants of Gen/TablesC05.v, read with [keepN] (N.testbit at the
   table_lookup index of the nine neighbourhood bits). *)
From Coq Require Import ZArith NArith List Bool.
From Centro Require Import Base.Sx Base.Topo Base.Skel Base.TopoPar Base.TopoSweep Base.TopoGrid Gen.TablesC05.
Import ListNotations.
Open Scope Z_scope.

(* ---- number of foreground pixels = len(index_i) ---- *)
Definition count (g : grid) : nat := length (filter (fun b : bool => b) (concat g)).

(* ---- index_lookup(index_i, index_j, image, table, 1): one synchronous pass = [pass_grid] ----
   every foreground pixel looks its 3x3 pattern up in the image as it was BEFORE the pass (marks
   are collected first, removals applied afterwards). *)

(* the common driver of thin / binary_shrink / index_lookup:
     for i in range(iterations):
         pixel_count = len(index_i)
         for table in tables: index_i, index_j = index_lookup(index_i, index_j, image, table, 1)
         if len(index_i) == pixel_count: break                                                   *)
Fixpoint cycle_loop (H W : nat) (ks : list (list bool -> bool)) (n : nat) (g : grid) : grid :=
  match n with
  | O => g
  | S n' => let g' := run_passes H W ks g in
            if Nat.eqb (count g') (count g) then g' else cycle_loop H W ks n' g'
  end.

Definition thin_tables : list (list bool -> bool) := [keepN thin_tab0; keepN thin_tab1].
Definition shrink_tables : list (list bool -> bool) :=
  [keepN shrink_ulr; keepN shrink_urb; keepN shrink_lrl; keepN shrink_llt].

(* thin(image, iterations=k) ; iterations=None -> len(index_i) *)
Definition thin_model (H W : nat) (iters : option Z) (g : grid) : grid :=
  cycle_loop H W thin_tables (match iters with Some k => Z.to_nat k | None => count g end) g.

(* binary_shrink(image, iterations=k) ; iterations=-1 -> len(index_i) *)
Definition shrink_model (H W : nat) (k : Z) (g : grid) : grid :=
  cycle_loop H W shrink_tables (if k =? -1 then count g else Z.to_nat k) g.

(* index_lookup(index_i, index_j, image, table, iterations) with its own loop (same table) *)
Definition table_of (t : Z) : list bool -> bool :=
  keepN (if t =? 0 then skel_tab else if t =? 1 then thin_tab0 else if t =? 2 then thin_tab1
         else if t =? 3 then shrink_ulr else if t =? 4 then shrink_urb
         else if t =? 5 then shrink_lrl else shrink_llt).
Definition lookup_model (H W : nat) (t : Z) (iters : option Z) (g : grid) : grid :=
  cycle_loop H W [table_of t] (match iters with Some k => Z.to_nat k | None => count g end) g.

(* ---- skeletonize_loop(result, i, j, order, table): sequential, in place ----
     for index in range(len(order)):
         accumulator = 16                      (the centre bit is set unconditionally)
         ii, jj = i[order[index]], j[order[index]]
         if ii > 0:                            (row 0 is never processed)
             ... add the weights of the set neighbours inside the frame ...
             result[ii,jj] = table[accumulator]                                                  *)
Definition upd (X : img) (p : px) (v : bool) : img := fun q => if px_eqb q p then v else X q.
Definition force4 (bits : list bool) : list bool :=
  match bits with
  | [b0; b1; b2; b3; _; b5; b6; b7; b8] => [b0; b1; b2; b3; true; b5; b6; b7; b8]
  | _ => bits
  end.
Definition row_guard (p : px) : bool := 0 <? fst p.
Definition loop_step (keep : list bool -> bool) (X : img) (p : px) : img :=
  if row_guard p then upd X p (keep (force4 (pat X p))) else X.
Definition skel_loop (keep : list bool -> bool) (order : list px) (X : img) : img :=
  fold_left (loop_step keep) order X.
Definition skel_loop_grid (H W : nat) (order : list px) (g : grid) : grid :=
  tabulate H W (skel_loop (keepN skel_tab) order (img_of g)).

(* ---- skeletonize(image, ordering=M) with pairwise distinct integers in M ----
   i, j = coordinates of the foreground pixels in raster order; order = lexsort((tiebreaker,
   corner_score, M[image])): a stable ascending sort on M (with distinct keys the two minor keys
   never decide). *)
Definition zget (m : list (list Z)) (p : px) : Z :=
  nth (Z.to_nat (snd p)) (nth (Z.to_nat (fst p)) m []) 0.
Fixpoint insert_by (key : px -> Z) (p : px) (l : list px) : list px :=
  match l with
  | [] => [p]
  | q :: r => if key p <=? key q then p :: l else q :: insert_by key p r
  end.
Definition sort_by (key : px -> Z) (l : list px) : list px := fold_right (insert_by key) [] l.
Definition fg_list (H W : nat) (g : grid) : list px := filter (img_of g) (raster H W).
Definition skeletonize_ord (H W : nat) (ordering : list (list Z)) (g : grid) : grid :=
  skel_loop_grid H W (sort_by (zget ordering) (fg_list H W g)) g.

(* ---- well-formedness as a boolean (entries refuse malformed grids) ---- *)
Definition wfb (H W : nat) (g : grid) : bool :=
  Nat.eqb (length g) H && forallb (fun r => Nat.eqb (length r) W) g.

(* ---- wire entries ---- *)
Definition opt_iters (flag k : sx) : option Z := if as_bool flag then Some (as_Z k) else None.

Definition entry_thin (x : sx) : sx :=
  let H := as_nat (arg 0 x) in let W := as_nat (arg 1 x) in let g := as_boolss (arg 2 x) in
  if wfb H W g then L [of_boolss (thin_model H W (opt_iters (arg 3 x) (arg 4 x)) g)] else L [].
Definition entry_shrink (x : sx) : sx :=
  let H := as_nat (arg 0 x) in let W := as_nat (arg 1 x) in let g := as_boolss (arg 2 x) in
  if wfb H W g then L [of_boolss (shrink_model H W (as_Z (arg 3 x)) g)] else L [].
Definition entry_lookup (x : sx) : sx :=
  let H := as_nat (arg 0 x) in let W := as_nat (arg 1 x) in let g := as_boolss (arg 2 x) in
  if wfb H W g then L [of_boolss (lookup_model H W (as_Z (arg 3 x)) (opt_iters (arg 4 x) (arg 5 x)) g)] else L [].
Definition entry_loop (x : sx) : sx :=
  let H := as_nat (arg 0 x) in let W := as_nat (arg 1 x) in let g := as_boolss (arg 2 x) in
  if wfb H W g then L [of_boolss (skel_loop_grid H W (as_pairs (arg 3 x)) g)] else L [].
Definition entry_skel_ord (x : sx) : sx :=
  let H := as_nat (arg 0 x) in let W := as_nat (arg 1 x) in let g := as_boolss (arg 2 x) in
  if wfb H W g then L [of_boolss (skeletonize_ord H W (as_Zss (arg 3 x)) g)] else L [].
(* the processing order the model derives from an ordering matrix (compared with numpy's lexsort) *)
Definition entry_order (x : sx) : sx :=
  let H := as_nat (arg 0 x) in let W := as_nat (arg 1 x) in let g := as_boolss (arg 2 x) in
  of_pairs (sort_by (zget (as_Zss (arg 3 x))) (fg_list H W g)).
