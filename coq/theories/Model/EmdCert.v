(* C10 — the certifying layer of the model.  [emd_certified] computes exactly what
   [emd_hat_int32] (the transcription of the code) computes, and additionally
   * derives a dual point from the model's own full flow by Bellman-Ford on the residual graph of
     the transportation problem (no claim is made about this search),
   * runs the verified checker [emd_cert_ok] on (distance, flow, dual point),
   * for the no-flow / partial-flow variants requires the same distance (and [partial_ok]),
   and answers None when any of this fails.  Hence every answer of the model is correct by
   [emd_cert_sound]; that it always answers is what the differential runs observe.
   Definitions only. *)
From Coq Require Import ZArith List Bool.
From Centro Require Import Base.Sx Base.EmdBase Spec.Emd Model.Emd.
Import ListNotations.
Open Scope Z_scope.

Record dstate := { d_s : Z; d_t : Z; d_r : list Z; d_c : list Z }.

(* one Bellman-Ford sweep over the residual graph  s -> rows -> columns -> t  of flow F, all
   potentials starting at 0 (virtual root) *)
Definition dual_round (P Q : list Z) (C F : list (list Z)) (rs cs : list Z) (st : dstate) : dstate :=
  let n := length P in
  let m := length Q in
  let rows := seq 0 n in
  let cols := seq 0 m in
  let dr1 := map (fun i => if nz rs i <? nz P i then Z.min (nz (d_r st) i) (d_s st) else nz (d_r st) i) rows in
  let ds1 := fold_left (fun a i => if 0 <? nz rs i then Z.min a (nz dr1 i) else a) rows (d_s st) in
  let dc1 := map (fun j => fold_left (fun a i => Z.min a (nz dr1 i + mz C i j)) rows (nz (d_c st) j)) cols in
  let dr2 := map (fun i => fold_left (fun a j => if 0 <? mz F i j then Z.min a (nz dc1 j - mz C i j) else a)
                                     cols (nz dr1 i)) rows in
  let dt1 := fold_left (fun a j => if nz cs j <? nz Q j then Z.min a (nz dc1 j) else a) cols (d_t st) in
  let dc2 := map (fun j => if 0 <? nz cs j then Z.min (nz dc1 j) dt1 else nz dc1 j) cols in
  {| d_s := ds1; d_t := dt1; d_r := dr2; d_c := dc2 |}.

Fixpoint dual_iter (k : nat) (f : dstate -> dstate) (st : dstate) : dstate :=
  match k with O => st | S k' => dual_iter k' f (f st) end.

Definition find_dual (P Q : list Z) (C F : list (list Z)) : list Z * list Z * Z :=
  let n := length P in
  let m := length Q in
  let rs := map (fun i => rowsum m (mz F) i) (seq 0 n) in
  let cs := map (fun j => colsum n (mz F) j) (seq 0 m) in
  let st := dual_iter (n + m + 4) (dual_round P Q C F rs cs)
                      {| d_s := 0; d_t := 0; d_r := repeat 0 n; d_c := repeat 0 m |} in
  (map (fun x => Z.max 0 (x - d_s st)) (d_r st), map (fun x => Z.max 0 (d_t st - x)) (d_c st), d_t st - d_s st).

(* the property's penalty: the explicit one, by default the largest ground distance *)
Definition penalty_of (c : list (list Z)) (pen : option Z) : Z :=
  match pen with Some v => v | None => max_entry c end.

Definition emd_certified (p q : list Z) (c : list (list Z)) (pen : option Z) (ft : Z) (gd : bool)
  : option (Z * list (list Z)) :=
  match emd_hat_int32 p q c pen 2 gd with
  | None => None
  | Some (d2, F2) =>
      let '(al, be, ga) := find_dual p q c F2 in
      if emd_cert_ok p q c (penalty_of c pen) d2 F2 al be ga then
        if ft =? 2 then Some (d2, F2) else
        match emd_hat_int32 p q c pen ft gd with
        | None => None
        | Some (d, F) =>
            if (d =? d2) && ((ft =? 0) || partial_ok p q c (penalty_of c pen) d F)
            then Some (d, F) else None
        end
      else None
  end.

(* wire: (p q c pen? flow_type gd_metric) -> (dist F) | ()   with pen? = () or (pen) *)
Definition entry_emdc (x : sx) : sx :=
  let pen := match as_list (arg 3 x) with [] => None | v :: _ => Some (as_Z v) end in
  match emd_certified (as_Zs (arg 0 x)) (as_Zs (arg 1 x)) (as_Zss (arg 2 x)) pen
                      (as_Z (arg 4 x)) (as_bool (arg 5 x)) with
  | Some (d, F) => L [I d; of_Zss F]
  | None => L []
  end.
