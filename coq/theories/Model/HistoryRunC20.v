(* C20 - executable instance of the history state machine on the GENERATED table (definitions only):
   arguments, table values and generator states are integers; the body reports what it is allowed
   to see.  Exposed through the sx wire format for the correspondence with the implementation's
   observed module state. *)
From Coq Require Import ZArith List Bool.
From Centro Require Import Base.Sx Model.HistoryC20 Spec.HistoryC20 Gen.EffectsC20.
Import ListNotations.
Open Scope Z_scope.

Definition x_const (g : Z) : Z := g.
Definition x_argval (f a g : Z) : Z := 1000000 + a.
Definition x_accval (f a g : Z) (old : option Z) : Z := match old with Some v => v + 1 | None => 2000000 end.
Definition x_mval (g a : Z) : Z := 3000000 + a.
Definition x_src (s : @rsrc Z) : sx :=
  match s with
  | NoDraw => L [I 0]
  | Seeded z => L [I 1; I z]
  | Ambient r => L [I 2; I r]
  | Entropy t => L [I 3; I (Z.of_nat t)]
  end.
Definition x_body (f a : Z) (v : list (option Z)) (s : @rsrc Z) : sx :=
  L [L (map (of_option I) v); x_src s].
(* state the generator is left in: a function of the seed and the arguments when seeded, of the
   incoming state otherwise *)
Definition x_next (f a : Z) (s : @rsrc Z) (r : Z) : Z :=
  match s with Seeded z => 10000 * (z + 1) + a | _ => 2 * r + 1 end.

Definition x_step := step Z Z sx Z sigs x_const x_argval x_accval x_mval Z.eqb x_body x_next.

Definition x_filled (w : world Z Z Z) : list Z :=
  filter (fun g => match cache w g with Some _ => true | None => false end)
         (map Z.of_nat (seq 0 (Z.to_nat n_globals))).

Fixpoint x_trace (w : world Z Z Z) (h : list (Z * Z)) : list sx :=
  match h with
  | [] => []
  | c :: r =>
      let rw := x_step w c in
      L [fst rw;                                               (* what the body saw *)
         of_Zs (x_filled (snd rw));                            (* tables filled after the call *)
         of_bool (s_draws (lookup sigs (fst c)));             (* may touch the global generator *)
         I (rng (snd rw))] :: x_trace (snd rw) r
  end.

(* (r0 ((f a) ...)) -> per call: (seen filled may_touch_rng rng_state) *)
Definition entry_run (x : sx) : sx :=
  L (x_trace (init Z Z Z (as_Z (arg 0 x))) (as_pairs (arg 1 x))).

(* (r0 r0' history (f a)) -> is the result of the call after the history the result in a fresh world? *)
Definition entry_hi (x : sx) : sx :=
  let h := as_pairs (arg 2 x) in
  let c := as_pair (arg 3 x) in
  of_bool (sx_eqb (result_after Z Z sx Z sigs x_const x_argval x_accval x_mval Z.eqb x_body x_next (as_Z (arg 0 x)) h c)
                  (result_after Z Z sx Z sigs x_const x_argval x_accval x_mval Z.eqb x_body x_next (as_Z (arg 1 x)) [] c)).

Definition kind_code (k : kind) : Z := match k with KConst => 0 | KArg => 1 | KAccum => 2 | KMemo => 3 end.

Definition sig_sx (s : sig) : sx :=
  L [I (s_id s); of_bool (s_public s); of_pairs (map (fun gk => (fst gk, kind_code (snd gk))) (s_fills s));
     of_Zs (s_reads s); of_Zs (s_unguarded s); of_bool (s_draws s); of_bool (s_seed_dom s);
     of_option I (s_seed_lit s); of_bool (s_entropy s); of_pairs (s_inplace s); of_bool (s_exempt s)].

(* f -> the row of the generated table the proofs are about *)
Definition entry_sig (x : sx) : sx := sig_sx (lookup sigs (as_Z x)).

(* () -> (sigs_okb inplace_okb ids_okb length per-row-ok per-row-inplace-ok) on the generated table *)
Definition entry_check (x : sx) : sx :=
  L [of_bool (sigs_okb sigs); of_bool (inplace_okb sigs); of_bool (ids_okb sigs); I (Z.of_nat (length sigs));
     of_bools (map sig_okb sigs); of_bools (map (fun s => is_nil (s_inplace s) || s_exempt s) sigs)].
