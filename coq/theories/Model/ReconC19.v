(* C19 — precondition of grey_reconstruction_loop on the RAW arguments of a call (flattened values /
   prev / next of length 2*image_stride, the stride table, the start node, image_stride) plus the
   padding geometry the Python wrapper used.  It is C04's verified per-instance check
   (Spec.ReconInv.prep_check: padding >= 1, every stride within the padding, links inside
   [-1, 2S), next = -1 only at the last cell, padding cells of rank 0 in both planes, image plane
   below mask plane) evaluated on a set-up record built from the raw arguments: the model and the
   loop theorem are C04's (imported, not copied). *)
From Coq Require Import ZArith List Bool.
From Centro Require Import Model.Recon Spec.ReconInv.
Import ListNotations.
Open Scope Z_scope.

Definition recon_K (values : list Z) : Z := 1 + fold_right Z.max 0 values.
Definition recon_state (values prv nxt : list Z) : st :=
  mkst (of_list values) (of_list prv) (of_list nxt) 0.
Definition recon_prep (H W p0 p1 : Z) (values prv nxt strides : list Z) (cur S : Z) : prep :=
  let K := recon_K values in
  mkprep H W p0 p1 (W + 2 * p1) S strides cur (recon_state values prv nxt)
         (of_list (repeat 0 (Z.to_nat K))) K.
Definition kernel_pre_recon (H W p0 p1 : Z) (values prv nxt strides : list Z) (cur S : Z) : bool :=
  (zlen values =? 2 * S) && (zlen prv =? 2 * S) && (zlen nxt =? 2 * S) &&
  prep_check (recon_prep H W p0 p1 values prv nxt strides cur S).
