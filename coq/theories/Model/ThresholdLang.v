(* C11 — the term language into which the translator (tools/gen_threshold_c11.py) renders the
   body of threshold.get_threshold by symbolic evaluation, and its interpreter.  The generated program
   [Gen.ThresholdC11.get_threshold_prog] is a [program]; every theorem about the clamp logic
   is stated about [run … get_threshold_prog], so it is re-proved whenever threshold.py changes.
   Also: the access classes of the crop-first analysis.  Definitions only. *)
From Coq Require Import ZArith QArith List Bool String.
From Centro Require Import Base.Sx Base.ThresholdNum.
Import ListNotations.

(* ---------------------------------------------------------------- access classes *)
(* how a function that receives (image, mask) reads the parameter [image] *)
Inductive access : Type :=
| Meta            (* image.shape / image.dtype                                   *)
| CropMask        (* image[mask]                                                 *)
| CropSubMask     (* image[x & mask]                                             *)
| WholeIfNoMask   (* the whole image, on a path where mask is None               *)
| PassDown        (* passed, together with mask, to a function of the same list  *)
| SliceDown       (* image[s] passed down together with (a subset of) mask[s]    *)
| Other (src : string).
Definition access_ok (a : access) : bool :=
  match a with Other _ => false | _ => true end.

(* how otsu.py picks the minimising split: positions where the score EQUALS its minimum (scale invariant), or not *)
Inductive selection : Type := ExactMin | OtherSel (src : string).
Definition selection_ok (s : selection) : bool := match s with ExactMin => true | OtherSel _ => false end.

(* how a random stream is used (determinism of repeated calls) *)
Inductive rand_use : Type :=
| SeededGlobal            (* np.random.<draw> directly after np.random.seed(<literal>) *)
| SeededLocal             (* RandomState() seeded by the next statement from a literal or from the data *)
| Unseeded (src : string).
Definition rand_ok (u : rand_use) : bool :=
  match u with Unseeded _ => false | _ => true end.

(* ---------------------------------------------------------------- language *)
(* The translator evaluates the body of get_threshold SYMBOLICALLY (an environment from local names to
   terms; assignments to parameters or to fresh locals just update it; if-statements merge the two
   environments variable by variable) and emits the terms of the two returned values plus the condition
   under which the call raises.  Any source with the same dataflow yields the same terms. *)
Inductive modifier : Type := MGlobal | MAdaptive | MPerObject.
Inductive term : Type :=
| TRawG                                 (* get_global_threshold(method, image, mask, **kw) *)
| TRawAd                                (* get_adaptive_threshold(method, image, _, mask, window, **kw) *)
| TRawPo                                (* get_per_object_threshold(method, image, _, mask, labels, _, _, **kw) *)
| TCf                                   (* threshold_correction_factor *)
| TLo | THi                             (* threshold_range_min / max as passed by the caller *)
| TConst (v : Q)                        (* float literal: exact value of the double (source text: Gen, get_threshold_consts) *)
| TMul (a b : term)
| TMax (a b : term)                     (* Python max(a, b) *)
| TMin (a b : term)
| TClampLow (a b : term)                (* a[a < b] = b *)
| TClampHigh (a b : term)               (* a[a > b] = b *)
| TSentinel (a c : term)                (* a[labels == 0] = c *)
| TIf (c : cond) (a b : term)
with cond : Type :=
| CNotNone (t : term)                   (* t is not None *)
| CIsArray (t : term)                   (* isinstance(t, np.ndarray) *)
| CMod (k : modifier)                   (* threshold_modifier == TM_k *)
| CLabels.                              (* labels is not None *)
Inductive rterm : Type := RNever | RAlways | RIf (c : cond) (a b : rterm).    (* does the call raise (explicitly)? *)
Record program : Type := mkProg { p_local : term; p_global : term; p_raises : rterm }.

(* the float literals of a term, left to right *)
Fixpoint term_consts (t : term) : list Q :=
  match t with
  | TConst v => [v]
  | TMul a b | TMax a b | TMin a b | TClampLow a b | TClampHigh a b | TSentinel a b => term_consts a ++ term_consts b
  | TIf c a b => cond_consts c ++ term_consts a ++ term_consts b
  | _ => []
  end
with cond_consts (c : cond) : list Q :=
  match c with
  | CNotNone t | CIsArray t => term_consts t
  | _ => []
  end.
Definition qsame (a b : Q) : bool := (Qnum a =? Qnum b)%Z && (Qden a =? Qden b)%positive.
Fixpoint dedup (l : list Q) : list Q :=
  match l with
  | [] => []
  | x :: r => x :: filter (fun y => negb (qsame x y)) (dedup r)
  end.
(* the distinct literals of a program in order of first appearance (local value, then global value) *)
Definition prog_consts (p : program) : list Q := dedup (term_consts (p_local p) ++ term_consts (p_global p)).

Inductive val : Type := VNone | VNum (q : Q) | VArr (a : list Q).
(* what the interpreter is given: the modifier, the correction factor, the raw results of the
   three callees (obtained by the harness from the staged functions), labels == 0 when labels
   were passed *)
Record inputs : Type := mkIn
  { in_mod : modifier; in_cf : Q; in_raw_g : Q; in_raw_l : list Q; in_lab0 : option (list bool) }.

Section Interp.
  Variable mul : Q -> Q -> Q.             (* scalar product: [fmul] (binary64) when run, any function in the theorems *)
  (* the local-threshold ARRAY has the image's dtype in per-object mode (np.ones(image.shape, image.dtype)):
     NumPy (1.x value-based casting) converts a scalar operand to the array's dtype before an array
     operation, and a masked store converts the stored scalar.  [cast] is that conversion (identity for a
     float64 array, rounding to binary32 for a float32 array), [amul] the array's own product. *)
  Variable amul : Q -> Q -> Q.
  Variable cast : Q -> Q.
  Variable inp : inputs.
  Variables lo hi : option Q.

  Definition of_opt (o : option Q) : val := match o with Some q => VNum q | None => VNone end.
  Definition sentinel (c : Q) (a : list Q) (lab0 : list bool) : list Q :=
    map (fun p : Q * bool => if snd p then c else fst p) (combine a lab0).
  Definition mod_eqb (a b : modifier) : bool :=
    match a, b with MGlobal, MGlobal | MAdaptive, MAdaptive | MPerObject, MPerObject => true | _, _ => false end.

  (* None = the Python expression raises (an operand is None, max/min of an array, …) *)
  Fixpoint eval (t : term) : option val :=
    match t with
    | TRawG => Some (VNum (in_raw_g inp))
    | TRawAd | TRawPo => Some (VArr (in_raw_l inp))
    | TCf => Some (VNum (in_cf inp))
    | TLo => Some (of_opt lo)
    | THi => Some (of_opt hi)
    | TConst v => Some (VNum v)
    | TMul a b =>
        match eval a, eval b with
        | Some (VNum x), Some (VNum y) => Some (VNum (mul x y))
        | Some (VArr xs), Some (VNum y) => Some (VArr (map (fun x => amul x (cast y)) xs))
        | _, _ => None
        end
    | TMax a b =>
        match eval a, eval b with
        | Some (VNum x), Some (VNum y) => Some (VNum (qmax x y))
        | _, _ => None
        end
    | TMin a b =>
        match eval a, eval b with
        | Some (VNum x), Some (VNum y) => Some (VNum (qmin x y))
        | _, _ => None
        end
    | TClampLow a b =>
        match eval a, eval b with
        | Some (VArr xs), Some (VNum y) => Some (VArr (map (clamp_lo (cast y)) xs))
        | _, _ => None
        end
    | TClampHigh a b =>
        match eval a, eval b with
        | Some (VArr xs), Some (VNum y) => Some (VArr (map (clamp_hi (cast y)) xs))
        | _, _ => None
        end
    | TSentinel a c =>
        match eval a, eval c, in_lab0 inp with
        | Some (VArr xs), Some (VNum y), Some lab0 => Some (VArr (sentinel (cast y) xs lab0))
        | _, _, _ => None
        end
    | TIf c a b =>
        match evalc c with
        | Some true => eval a
        | Some false => eval b
        | None => None
        end
    end
  with evalc (c : cond) : option bool :=
    match c with
    | CNotNone t => match eval t with Some VNone => Some false | Some _ => Some true | None => None end
    | CIsArray t => match eval t with Some (VArr _) => Some true | Some _ => Some false | None => None end
    | CMod k => Some (mod_eqb (in_mod inp) k)
    | CLabels => Some (match in_lab0 inp with Some _ => true | None => false end)
    end.
  Fixpoint evalr (r : rterm) : option bool :=
    match r with
    | RNever => Some false
    | RAlways => Some true
    | RIf c a b => match evalc c with Some true => evalr a | Some false => evalr b | None => None end
    end.

  (* the whole call: returns (local_threshold, global_threshold), None when it raises *)
  Definition run_prog (p : program) : option (val * val) :=
    match evalr (p_raises p) with
    | Some false =>
        match eval (p_local p), eval (p_global p) with
        | Some l, Some g => Some (l, g)
        | _, _ => None
        end
    | _ => None
    end.
End Interp.
Definition run (mul amul : Q -> Q -> Q) (cast : Q -> Q) (inp : inputs) (p : program) (lo hi : option Q) : option (val * val) :=
  run_prog mul amul cast inp lo hi p.

(* ---------------------------------------------------------------- wire *)
Definition as_modifier (x : sx) : modifier :=
  match as_Z x with 0%Z => MGlobal | 1%Z => MAdaptive | _ => MPerObject end.
Definition as_lab0 (x : sx) : option (list bool) :=
  match as_list x with [] => None | y :: _ => Some (as_bools y) end.
Definition of_val (v : val) : sx :=
  match v with
  | VNone => L []
  | VNum q => L [I 0; of_Q q]
  | VArr a => L [I 1; of_Qs a]
  end.
