(* C11 — the statement language into which the translator (tools/gen_threshold_c11.py) renders the
   body of threshold.get_threshold, and its interpreter.  The generated program
   [Gen.ThresholdC11.get_threshold_prog] is a term of [stmt]; every theorem about the clamp logic
   is stated about [run … get_threshold_prog], so it is re-proved whenever threshold.py changes.
   Also: the access classes of the crop-first analysis.  Definitions only. *)
From Coq Require Import ZArith QArith List Bool String.
From Centro Require Import Base.Sx Base.ThresholdNum.
Import ListNotations.

(* ---------------------------------------------------------------- access classes *)
(* how a function that receives (image, mask) reads the parameter [image] *)
Inductive access : Type :=
| Meta            (* image.shape / image.dtype                                   *)
| CropMask        (* image[mask]                                                 *)
| CropSubMask     (* image[x & mask]                                             *)
| WholeIfNoMask   (* the whole image, on a path where mask is None               *)
| PassDown        (* passed, together with mask, to a function of the same list  *)
| SliceDown       (* image[s] passed down together with (a subset of) mask[s]    *)
| Other (src : string).
Definition access_ok (a : access) : bool :=
  match a with Other _ => false | _ => true end.

(* how a random stream is used (determinism of repeated calls) *)
Inductive rand_use : Type :=
| SeededGlobal            (* np.random.<draw> directly after np.random.seed(<literal>) *)
| SeededLocal             (* RandomState() seeded by the next statement from a literal or from the data *)
| Unseeded (src : string).
Definition rand_ok (u : rand_use) : bool :=
  match u with Unseeded _ => false | _ => true end.

(* ---------------------------------------------------------------- language *)
Inductive reg : Type := RG | RLo | RHi | RL.
  (* global_threshold, threshold_range_min, threshold_range_max, local_threshold *)
Inductive expr : Type :=
| EReg (r : reg)
| ECf                                   (* threshold_correction_factor *)
| EConst (v : Q)                        (* float literal: exact value of the double (source text: Gen, get_threshold_consts) *)
| EMul (a b : expr)
| EMax (a b : expr)
| EMin (a b : expr).
Inductive stmt : Type :=
| SSkip
| SSeq (a b : stmt)
| SCallGlobal (r : reg)                 (* r = get_global_threshold(method, image, mask, **kw) *)
| SCallAdaptive (r : reg)               (* r = get_adaptive_threshold(method, image, RG, mask, window, **kw) *)
| SCallPerObject (r : reg)              (* r = get_per_object_threshold(method, image, RG, mask, labels, RLo, RHi, **kw) *)
| SSet (r : reg) (e : expr)
| SIfNotNone (r : reg) (body : stmt)    (* if not r is None: body *)
| SIfArray (r : reg) (thn els : stmt)   (* if isinstance(r, np.ndarray): thn else: els *)
| SDispatch (g a p : stmt)              (* if modifier == GLOBAL: g elif ADAPTIVE: a elif PER_OBJECT: p else: raise *)
| SClampLow (r b : reg)                 (* r[r < b] = b *)
| SClampHigh (r b : reg)                (* r[r > b] = b *)
| SSentinel (r : reg) (c : expr).       (* if modifier == PER_OBJECT and labels is not None: r[labels == 0] = c *)

(* the float literals of a program, in source order *)
Fixpoint expr_consts (e : expr) : list Q :=
  match e with
  | EReg _ | ECf => []
  | EConst v => [v]
  | EMul a b | EMax a b | EMin a b => expr_consts a ++ expr_consts b
  end.
Fixpoint stmt_consts (p : stmt) : list Q :=
  match p with
  | SSkip | SCallGlobal _ | SCallAdaptive _ | SCallPerObject _ | SClampLow _ _ | SClampHigh _ _ => []
  | SSeq a b => stmt_consts a ++ stmt_consts b
  | SSet _ e => expr_consts e
  | SIfNotNone _ b => stmt_consts b
  | SIfArray _ a b => stmt_consts a ++ stmt_consts b
  | SDispatch a b c => stmt_consts a ++ stmt_consts b ++ stmt_consts c
  | SSentinel _ e => expr_consts e
  end.

Inductive val : Type := VNone | VNum (q : Q) | VArr (a : list Q).
Record env : Type := mkEnv { e_g : val; e_lo : val; e_hi : val; e_l : val }.
Inductive modifier : Type := MGlobal | MAdaptive | MPerObject.
(* what the interpreter is given: the modifier, the correction factor, the raw results of the
   three callees (obtained by the harness from the staged functions), labels == 0 when labels
   were passed *)
Record inputs : Type := mkIn
  { in_mod : modifier; in_cf : Q; in_raw_g : Q; in_raw_l : list Q; in_lab0 : option (list bool) }.

Definition get (r : reg) (s : env) : val :=
  match r with RG => e_g s | RLo => e_lo s | RHi => e_hi s | RL => e_l s end.
Definition set (r : reg) (v : val) (s : env) : env :=
  match r with
  | RG => mkEnv v (e_lo s) (e_hi s) (e_l s)
  | RLo => mkEnv (e_g s) v (e_hi s) (e_l s)
  | RHi => mkEnv (e_g s) (e_lo s) v (e_l s)
  | RL => mkEnv (e_g s) (e_lo s) (e_hi s) v
  end.

Section Interp.
  Variable mul : Q -> Q -> Q.             (* scalar product: [fmul] (binary64) when run, any function in the theorems *)
  (* the local-threshold ARRAY has the image's dtype in per-object mode (np.ones(image.shape, image.dtype)):
     NumPy (1.x value-based casting) converts a scalar operand to the array's dtype before an array
     operation, and a masked store converts the stored scalar.  [cast] is that conversion (identity for a
     float64 array, rounding to binary32 for a float32 array), [amul] the array's own product. *)
  Variable amul : Q -> Q -> Q.
  Variable cast : Q -> Q.
  Variable inp : inputs.

  (* None = the Python expression raises (an operand is None, or max/min of an array) *)
  Fixpoint eval (e : expr) (s : env) : option val :=
    match e with
    | EReg r => Some (get r s)
    | ECf => Some (VNum (in_cf inp))
    | EConst v => Some (VNum v)
    | EMul a b =>
        match eval a s, eval b s with
        | Some (VNum x), Some (VNum y) => Some (VNum (mul x y))
        | Some (VArr xs), Some (VNum y) => Some (VArr (map (fun x => amul x (cast y)) xs))
        | _, _ => None
        end
    | EMax a b =>
        match eval a s, eval b s with
        | Some (VNum x), Some (VNum y) => Some (VNum (qmax x y))
        | _, _ => None
        end
    | EMin a b =>
        match eval a s, eval b s with
        | Some (VNum x), Some (VNum y) => Some (VNum (qmin x y))
        | _, _ => None
        end
    end.

  Definition sentinel (c : Q) (a : list Q) (lab0 : list bool) : list Q :=
    map (fun p : Q * bool => if snd p then c else fst p) (combine a lab0).

  Fixpoint exec (p : stmt) (s : env) : option env :=
    match p with
    | SSkip => Some s
    | SSeq a b => match exec a s with Some s1 => exec b s1 | None => None end
    | SCallGlobal r => Some (set r (VNum (in_raw_g inp)) s)
    | SCallAdaptive r => Some (set r (VArr (in_raw_l inp)) s)
    | SCallPerObject r => Some (set r (VArr (in_raw_l inp)) s)
    | SSet r e => match eval e s with Some v => Some (set r v s) | None => None end
    | SIfNotNone r body => match get r s with VNone => Some s | _ => exec body s end
    | SIfArray r thn els => match get r s with VArr _ => exec thn s | _ => exec els s end
    | SDispatch g a q =>
        match in_mod inp with MGlobal => exec g s | MAdaptive => exec a s | MPerObject => exec q s end
    | SClampLow r b =>
        match get r s, get b s with
        | VArr a, VNum x => Some (set r (VArr (map (clamp_lo (cast x)) a)) s)
        | _, _ => None
        end
    | SClampHigh r b =>
        match get r s, get b s with
        | VArr a, VNum x => Some (set r (VArr (map (clamp_hi (cast x)) a)) s)
        | _, _ => None
        end
    | SSentinel r c =>
        match in_mod inp, in_lab0 inp with
        | MPerObject, Some lab0 =>
            match get r s, eval c s with
            | VArr a, Some (VNum x) => Some (set r (VArr (sentinel (cast x) a lab0)) s)
            | _, _ => None
            end
        | _, _ => Some s
        end
    end.

  Definition of_opt (o : option Q) : val := match o with Some q => VNum q | None => VNone end.
  (* the whole call: returns (local_threshold, global_threshold) *)
  Definition run (p : stmt) (lo hi : option Q) : option (val * val) :=
    match exec p (mkEnv VNone (of_opt lo) (of_opt hi) VNone) with
    | Some s => Some (e_l s, e_g s)
    | None => None
    end.
End Interp.

(* ---------------------------------------------------------------- wire *)
Definition as_modifier (x : sx) : modifier :=
  match as_Z x with 0%Z => MGlobal | 1%Z => MAdaptive | _ => MPerObject end.
Definition as_lab0 (x : sx) : option (list bool) :=
  match as_list x with [] => None | y :: _ => Some (as_bools y) end.
Definition of_val (v : val) : sx :=
  match v with
  | VNone => L []
  | VNum q => L [I 0; of_Q q]
  | VArr a => L [I 1; of_Qs a]
  end.
