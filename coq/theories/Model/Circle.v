(* C14 — executable model of cpmorphology.minimum_enclosing_circle for ONE object, on the list
   of its convex-hull vertices in storage order (the vectorisation across objects is
   bookkeeping: every per-object quantity of the code — s0_idx, s1_idx, within_label_indexes,
   min_position — only ever reads rows of its own object).  Chrystal's iteration as written:
   S0, S1 start as hull points 0 and 1; the candidate vertices are all other hull points
   (within_label_indexes >= 2: the code's relabelling keeps exactly S0 -> 0, S1 -> 1); the vertex V
   with the smallest angle S0-V-S1 (first one in storage order on ties) is selected;
   case 1 / 1a: no vertex, or that angle >= pi/2  -> S0 S1 is the diameter;
   case 2: no angle of the triangle S0 S1 V exceeds pi/2 -> circumcircle (Cartesian formula of
           the code, D = 2 * cross product);
   otherwise the obtuse one of S0, S1 is replaced by V (S0 if the angle at S0 is obtuse, else S1).
   The code decides by arccos of float cosines; the model decides by the exact predicates that
   those floats approximate: sign of the dot product for acute/right/obtuse, cross-multiplied
   signed squares for comparing cosines.  Modelled, not verified: arccos, float rounding.
   Results are exact rationals: centre (ny/d, nx/d), squared radius rn/(d*d).  Definitions only. *)
From Coq Require Import ZArith List Bool.
From Centro Require Import Base.Sx.
Import ListNotations.
Open Scope Z_scope.

Definition cpt : Type := (Z * Z)%type.            (* (i, j) = (Y, X) *)

(* (a - c) . (b - c) : sign = acute / right / obtuse angle a-c-b *)
Definition dot3 (a b c : cpt) : Z :=
  (fst a - fst c) * (fst b - fst c) + (snd a - snd c) * (snd b - snd c).
Definition dist2 (a b : cpt) : Z :=
  (fst a - fst b) * (fst a - fst b) + (snd a - snd b) * (snd a - snd b).

(* sign(d) d^2 A' : comparing d/sqrt(A) with d'/sqrt(A') for A, A' > 0 *)
Definition sgnsq (d A : Z) : Z := Z.sgn d * (d * d) * A.
Definition cos_gt (d1 A1 d2 A2 : Z) : bool := sgnsq d2 A1 <? sgnsq d1 A2.

(* scan of the candidate vertices: (index, dot at V, |S0 V|^2 |S1 V|^2) of the first vertex with
   the largest cosine of the angle S0-V-S1, i.e. the smallest angle (scind.minimum_position) *)
Fixpoint best_vertex (h : list cpt) (k s0 s1 : nat) (S0 S1 : cpt) (best : option (nat * Z * Z))
  : option (nat * Z * Z) :=
  match h with
  | [] => best
  | v :: t =>
      let best' :=
        if (k =? s0)%nat || (k =? s1)%nat then best else
        let d := dot3 S0 S1 v in
        let A := dist2 S0 v * dist2 S1 v in
        match best with
        | None => Some (k, d, A)
        | Some (_, bd, bA) => if cos_gt d A bd bA then Some (k, d, A) else best
        end in
      best_vertex t (S k) s0 s1 S0 S1 best'
  end.

Inductive cres : Type :=
| CEmpty                       (* no hull point: the code reports centre NaN, radius 0 *)
| CFuel                        (* iteration bound exhausted (excluded by the correspondence) *)
| CDegenerate                  (* D = 0 in the circumcircle formula: the code divides by zero *)
| CCircle (ny nx d rn : Z).    (* centre (ny/d, nx/d), squared radius rn/(d*d) *)

Definition diam (S0 S1 : cpt) : cres :=
  CCircle (fst S0 + fst S1) (snd S0 + snd S1) 2 (dist2 S0 S1).

Definition sq (p : cpt) : Z := fst p * fst p + snd p * snd p.

(* Y = column 0 (fst), X = column 1 (snd), as in the code *)
Definition circ_D (S0 S1 V : cpt) : Z :=
  2 * (snd S0 * (fst S1 - fst V) + snd S1 * (fst V - fst S0) + snd V * (fst S0 - fst S1)).
Definition circ_Nx (S0 S1 V : cpt) : Z :=
  sq S0 * (fst S1 - fst V) + sq S1 * (fst V - fst S0) + sq V * (fst S0 - fst S1).
Definition circ_Ny (S0 S1 V : cpt) : Z :=
  sq S0 * (snd V - snd S1) + sq S1 * (snd S0 - snd V) + sq V * (snd S1 - snd S0).
Definition circ_Rn (S0 S1 V : cpt) : Z :=
  let D := circ_D S0 S1 V in
  (fst S0 * D - circ_Ny S0 S1 V) * (fst S0 * D - circ_Ny S0 S1 V) +
  (snd S0 * D - circ_Nx S0 S1 V) * (snd S0 * D - circ_Nx S0 S1 V).

Definition circum (S0 S1 V : cpt) : cres :=
  let D := circ_D S0 S1 V in
  if D =? 0 then CDegenerate
  else CCircle (circ_Ny S0 S1 V) (circ_Nx S0 S1 V) D (circ_Rn S0 S1 V).

Fixpoint chrystal_loop (fuel : nat) (h : list cpt) (s0 s1 : nat) : cres :=
  match fuel with
  | O => CFuel
  | S f =>
      let S0 := nth s0 h (0, 0) in
      let S1 := nth s1 h (0, 0) in
      match best_vertex h 0 s0 s1 S0 S1 None with
      | None => diam S0 S1                                  (* case 1a *)
      | Some (k, d, _) =>
          if d <=? 0 then diam S0 S1                         (* case 1: angle at V >= pi/2 *)
          else
            let V := nth k h (0, 0) in
            let a0 := dot3 S1 V S0 in                        (* angle at S0 (angle_vs0s1) *)
            let a1 := dot3 S0 V S1 in                        (* angle at S1 (angle_vs1s0) *)
            if (0 <=? a0) && (0 <=? a1) then circum S0 S1 V  (* case 2 *)
            else if a0 <? 0 then chrystal_loop f h k s1      (* s0_is_obtuse: V is the new S0 *)
            else chrystal_loop f h s0 k                      (* otherwise V is the new S1 *)
      end
  end.

Definition chrystal (h : list cpt) : cres :=
  match h with
  | [] => CEmpty
  | [p] => CCircle (fst p) (snd p) 1 0
  | [p; q] => diam p q
  | _ => chrystal_loop (length h * length h + 10) h 0 1
  end.

Definition of_cres (r : cres) : sx :=
  match r with
  | CEmpty => L [I 0]
  | CFuel => L [I 1]
  | CDegenerate => L [I 2]
  | CCircle ny nx d rn => L [I 3; I ny; I nx; I d; I rn]
  end.

(* ((i j) ...) hull vertices of one object -> tagged result *)
Definition entry_chrystal (x : sx) : sx := of_cres (chrystal (as_pairs x)).
(* list of objects -> list of results (one vectorised call) *)
Definition entry_chrystal_many (x : sx) : sx := L (map entry_chrystal (as_list x)).
