(* C08 — executable model of cpmorphology.fill_labeled_holes (mask=None, size_fn=None) and of
   _cpmorphology2.fill_labeled_holes_loop, phase by phase as written:
     background labelling (scipy.ndimage.label: supplied from outside or by the flood fill
     [label4] below), region numbering (objects keep their label, background component b becomes
     b + lcount + 1), border to-do list (np.unique, != 0), edge extraction from vertical and
     horizontal neighbour pairs, lexsort + de-duplication, symmetrisation, lexsort +
     de-duplication again, bincount / Indexes.fwd_idx ragged index, the two worklist walks with
     the array stack (pop from the end, push while scanning) and the first-touch
     adjacent_non_hole rule, and the relabel table.
   Arrays are finite maps with default 0 / false (Base/FillZMap.v).  Definitions only. *)
From Coq Require Import ZArith List Bool.
From Centro Require Import Base.Sx Base.FillZMap Base.FillSort.
Import ListNotations.
Open Scope Z_scope.

(* ------------------------------------------------------------------ the two graph walks *)

Section Walk.
Variable adj : Z -> list Z.     (* jj = p_j[p_idx[ii] + jidx], jidx = 0 .. p_i_count[ii]-1 *)
Variable lcount : Z.            (* ii <= lcount: object; above: background *)

(* State of the first while-loop at the granularity of one neighbour visit.
   [w_cur] = Some (ii, pre, rest): region ii has been popped, the for-loop over its neighbours
   has visited [rev pre] and still has [rest] to go.  [pre] and [w_proc] are ghost fields (never
   read by the transitions); they make the invariant of Proofs/FillWalk1.v statable. *)
Record wst : Type := mkW {
  w_nh : zmap bool;                               (* is_not_hole *)
  w_anh : zmap Z;                                 (* adjacent_non_hole, 0 = none *)
  w_todo : list Z;                                (* to_do[0 .. to_do_count-1], top of stack first *)
  w_cur : option (Z * list Z * list Z);
  w_proc : zmap bool
}.

Definition w_adv (s : wst) (c : option (Z * list Z * list Z)) : wst :=
  mkW (w_nh s) (w_anh s) (w_todo s) c (w_proc s).
Definition w_mark (s : wst) (jj : Z) (c : option (Z * list Z * list Z)) : wst :=
  mkW (zset (w_nh s) jj true) (w_anh s) (jj :: w_todo s) c (w_proc s).
Definition w_first (s : wst) (jj ii : Z) (c : option (Z * list Z * list Z)) : wst :=
  mkW (w_nh s) (zset (w_anh s) jj ii) (w_todo s) c (w_proc s).

Definition step1 (s : wst) : wst :=
  match w_cur s with
  | Some (ii, pre, jj :: rest) =>
      let c := Some (ii, jj :: pre, rest) in
      if getb (w_nh s) jj then w_adv s c                     (* p_is_not_hole[jj] != 0 *)
      else if ii <=? lcount then
        if getz (w_anh s) jj =? 0 then w_first s jj ii c       (* first unchanged object seen *)
        else if getz (w_anh s) jj =? ii then w_adv s c
        else w_mark s jj c                                     (* a second, different one *)
      else if lcount <? jj then w_adv s c                      (* background next to background *)
      else w_mark s jj c                                       (* object next to unchanged background *)
  | Some (ii, pre, []) => mkW (w_nh s) (w_anh s) (w_todo s) None (zset (w_proc s) ii true)
  | None =>
      match w_todo s with
      | ii :: t => mkW (w_nh s) (w_anh s) t (Some (ii, [], adj ii)) (w_proc s)
      | [] => s
      end
  end.

Definition finished1 (s : wst) : bool :=
  match w_cur s, w_todo s with None, [] => true | _, _ => false end.

Fixpoint run1 (fuel : nat) (s : wst) : wst :=
  if finished1 s then s else
  match fuel with O => s | S f => run1 f (step1 s) end.

Definition init1 (todo0 : list Z) : wst :=
  mkW (fold_left (fun m v => zset m v true) todo0 zempty) zempty (frev todo0) None zempty.

(* Second while-loop.  is_not_hole is read-only here. *)
Record vst : Type := mkV {
  v_anh : zmap Z;
  v_todo : list Z;
  v_cur : option (Z * list Z)
}.

Definition step2 (nh : zmap bool) (s : vst) : vst :=
  match v_cur s with
  | Some (ii, jj :: rest) =>
      if negb (getb nh jj) && (getz (v_anh s) jj =? 0)
      then mkV (zset (v_anh s) jj (getz (v_anh s) ii)) (jj :: v_todo s) (Some (ii, rest))
      else mkV (v_anh s) (v_todo s) (Some (ii, rest))
  | Some (ii, []) => mkV (v_anh s) (v_todo s) None
  | None =>
      match v_todo s with
      | ii :: t => mkV (v_anh s) t (Some (ii, adj ii))
      | [] => s
      end
  end.

Definition finished2 (s : vst) : bool :=
  match v_cur s, v_todo s with None, [] => true | _, _ => false end.

Fixpoint run2 (fuel : nat) (nh : zmap bool) (s : vst) : vst :=
  if finished2 s then s else
  match fuel with O => s | S f => run2 f nh (step2 nh s) end.

(* for jj from 0 <= jj < n: if is_not_hole[jj] == 0 and adjacent_non_hole[jj] != 0: push *)
Definition init2 (n : nat) (nh : zmap bool) (anh : zmap Z) : vst :=
  mkV anh (frev (filter (fun jj => negb (getb nh jj) && negb (getz anh jj =? 0)) (zseq 0 n))) None.

End Walk.

(* ------------------------------------------------------------------ background labelling *)

Definition nbrs4 (H W p : Z) : list Z :=
  let r := p / W in
  let c := p mod W in
  (if 0 <? r then [p - W] else []) ++ (if r + 1 <? H then [p + W] else []) ++
  (if 0 <? c then [p - 1] else []) ++ (if c + 1 <? W then [p + 1] else []).

Definition flood_visit (pix : zmap Z) (lbl : Z) (acc : list Z * zmap Z) (q : Z) : list Z * zmap Z :=
  if (getz pix q =? 0) && (getz (snd acc) q =? 0) then (q :: fst acc, zset (snd acc) q lbl) else acc.

Fixpoint flood (fuel : nat) (H W : Z) (pix : zmap Z) (lbl : Z) (stack : list Z) (bl : zmap Z) : zmap Z :=
  match fuel with
  | O => bl
  | S f =>
      match stack with
      | [] => bl
      | p :: t =>
          let r := fold_left (flood_visit pix lbl) (nbrs4 H W p) (t, bl) in
          flood f H W pix lbl (fst r) (snd r)
      end
  end.

(* components of {pix = 0} numbered 1, 2, ... in raster order of their first pixel *)
Definition label4 (H W : Z) (pix : zmap Z) (npix : nat) : zmap Z * Z :=
  let fuel := S npix in
  fold_left (fun (a : zmap Z * Z) p =>
               if (getz pix p =? 0) && (getz (fst a) p =? 0)
               then (flood fuel H W pix (snd a + 1) [p] (zset (fst a) p (snd a + 1)), snd a + 1)
               else a)
            (zseq 0 npix) (zempty, 0).

(* ------------------------------------------------------------------ edge list *)

Definition pair_eqb (p q : Z * Z) : bool := (fst p =? fst q) && (snd p =? snd q).
Definition swap (p : Z * Z) : Z * Z := (snd p, fst p).

(* first = [True] + (i[:-1] != i[1:] | j[:-1] != j[1:]) *)
Fixpoint dedup_pairs (l : list (Z * Z)) : list (Z * Z) :=
  match l with
  | [] => []
  | a :: t =>
      match t with
      | [] => [a]
      | b :: _ => if pair_eqb a b then dedup_pairs t else a :: dedup_pairs t
      end
  end.

Fixpoint dedup_Z (l : list Z) : list Z :=
  match l with
  | [] => []
  | a :: t =>
      match t with
      | [] => [a]
      | b :: _ => if a =? b then dedup_Z t else a :: dedup_Z t
      end
  end.

Definition sort_dedup (l : list (Z * Z)) : list (Z * Z) := dedup_pairs (FillPairSort.sort l).

(* the (i, j) arrays handed to fill_labeled_holes_loop *)
Definition sym_edges (raw : list (Z * Z)) : list (Z * Z) :=
  let e1 := sort_dedup raw in
  sort_dedup (e1 ++ map swap e1).

(* i = hstack(labels[:-1,:].flatten(), labels[:,:-1].flatten()), j = hstack(labels[1:,:]..., labels[:,1:]...) *)
Definition raw_pairs (H W : nat) (lab : zmap Z) : list (Z * Z) :=
  let Wz := Z.of_nat W in
  flat_map (fun r => map (fun c => (getz lab (r * Wz + c), getz lab ((r + 1) * Wz + c))) (zseq 0 W)) (zseq 0 (pred H))
  ++ flat_map (fun r => map (fun c => (getz lab (r * Wz + c), getz lab (r * Wz + c + 1))) (zseq 0 (pred W))) (zseq 0 H).

Definition border_vals (H W : nat) (lab : zmap Z) : list Z :=
  let Wz := Z.of_nat W in
  let Hz := Z.of_nat H in
  map (fun c => getz lab c) (zseq 0 W) ++ map (fun r => getz lab (r * Wz)) (zseq 0 H) ++
  map (fun c => getz lab ((Hz - 1) * Wz + c)) (zseq 0 W) ++ map (fun r => getz lab (r * Wz + Wz - 1)) (zseq 0 H).

(* np.unique(...) then to_do[to_do != 0] *)
Definition todo_of (vals : list Z) : list Z :=
  filter (fun v => negb (v =? 0)) (dedup_Z (FillZSort.sort vals)).

(* ------------------------------------------------------------------ ragged index *)

Definition bincount (l : list Z) : zmap Z := fold_left (fun m k => zset m k (getz m k + 1)) l zempty.

(* fwd_idx = hstack(([0], cumsum(counts)[:-1])) over 0 .. n-1 *)
Definition fwd_idx (cnt : zmap Z) (n : nat) : zmap Z :=
  fst (fold_left (fun (a : zmap Z * Z) k => (zset (fst a) k (snd a), snd a + getz cnt k)) (zseq 0 n) (zempty, 0)).

Definition adj_of (jarr idx cnt : zmap Z) (ii : Z) : list Z :=
  map (fun t => getz jarr (getz idx ii + t)) (zseq 0 (Z.to_nat (getz cnt ii))).

(* ------------------------------------------------------------------ the whole function *)

Record fres : Type := mkF {
  f_out : list (list Z);          (* the returned image *)
  f_bl : list (list Z);           (* blabels *)
  f_count : Z;
  f_called : bool;                (* was fill_labeled_holes_loop called (len(i) > 0) *)
  f_i : list Z; f_j : list Z; f_idx : list Z; f_cnt : list Z;
  f_nh : list bool; f_anh : list Z;
  f_lcount : Z;
  f_ok : bool                     (* both walks ran to completion within the fuel *)
}.

Definition lmax_of (lcount count : Z) : Z := lcount + count + 1.

Definition grid_of (H W : nat) (f : Z -> Z) : list (list Z) :=
  map (fun r => map (fun c => f (r * Z.of_nat W + c)) (zseq 0 W)) (zseq 0 H).

Definition new_index (lcount : Z) (nh : zmap bool) (anh : zmap Z) (k : Z) : Z :=
  if getb nh k then (if k <=? lcount then k else 0) else getz anh k.

Definition fill_core (rows : list (list Z)) (bl : zmap Z) (count : Z) : fres :=
  let H := length rows in
  let W := length (hd [] rows) in
  let vals := concat rows in
  let pix := zload vals 0 zempty in
  let npix := length vals in
  let lcount := fold_left Z.max vals 0 in
  (* labels[blabels != 0] = blabels[blabels != 0] + lcount + 1 *)
  let lab := fold_left (fun m p => if getz bl p =? 0 then m else zset m p (getz bl p + lcount + 1)) (zseq 0 npix) pix in
  let lmax := lmax_of lcount count in
  let n := Z.to_nat (lmax + 1) in
  let todo0 := todo_of (border_vals H W lab) in
  let raw := filter (fun p => negb (fst p =? snd p)) (raw_pairs H W lab) in
  let blrows := grid_of H W (getz bl) in
  match raw with
  | [] =>
      let s0 := init1 todo0 in
      mkF (grid_of H W (fun p => new_index lcount (w_nh s0) zempty (getz lab p))) blrows count false
          [] [] [] [] [] [] lcount true
  | _ :: _ =>
      let e := sym_edges raw in
      let iarr := map fst e in
      let jl := map snd e in
      let jarr := zload jl 0 zempty in
      let cnt := bincount iarr in
      let idx := fwd_idx cnt n in
      let adj := adj_of jarr idx cnt in
      let fuel := (length e + 2 * n + 2)%nat in
      let s1 := run1 adj lcount fuel (init1 todo0) in
      let s2 := run2 adj fuel (w_nh s1) (init2 n (w_nh s1) (w_anh s1)) in
      mkF (grid_of H W (fun p => new_index lcount (w_nh s1) (v_anh s2) (getz lab p))) blrows count true
          iarr jl (map (getz idx) (zseq 0 n)) (map (getz cnt) (zseq 0 n))
          (map (getb (w_nh s1)) (zseq 0 n)) (map (getz (v_anh s2)) (zseq 0 n)) lcount
          (finished1 s1 && finished2 s2)
  end.

Definition fill_self (rows : list (list Z)) : fres :=
  let H := Z.of_nat (length rows) in
  let W := Z.of_nat (length (hd [] rows)) in
  let vals := concat rows in
  let r := label4 H W (zload vals 0 zempty) (length vals) in
  fill_core rows (fst r) (snd r).

Definition fres_sx (r : fres) : sx :=
  L [of_Zss (f_out r); of_Zss (f_bl r); I (f_count r); of_bool (f_called r);
     of_Zs (f_i r); of_Zs (f_j r); of_Zs (f_idx r); of_Zs (f_cnt r);
     of_bools (f_nh r); of_Zs (f_anh r); I (f_lcount r); of_bool (f_ok r)].

(* arg 0: the label image (rows) *)
Definition entry_fill (x : sx) : sx := fres_sx (fill_self (as_Zss (arg 0 x))).

(* arg 0: the label image, arg 1: blabels, arg 2: count, arg 3: the values observed in the
   implementation (same layout as fres_sx).  Result: (equal with the supplied labelling, equal
   with the model's own flood-fill labelling). *)
Definition entry_fill_eq (x : sx) : sx :=
  let rows := as_Zss (arg 0 x) in
  let r1 := fill_core rows (zload (concat (as_Zss (arg 1 x))) 0 zempty) (as_Z (arg 2 x)) in
  L [of_bool (sx_eqb (fres_sx r1) (arg 3 x)); of_bool (sx_eqb (fres_sx (fill_self rows)) (arg 3 x))].

(* arg 0: the label image, arg 1: blabels as returned by scipy.ndimage.label, arg 2: count *)
Definition entry_fill_bl (x : sx) : sx :=
  fres_sx (fill_core (as_Zss (arg 0 x)) (zload (concat (as_Zss (arg 1 x))) 0 zempty) (as_Z (arg 2 x))).

(* ------------------------------------------------------------------ all parameters
   fill_labeled_holes(labels, mask, size_fn) with every argument driven.  [mask] = None or the flat
   boolean mask; [size] = None or (tf, tb) standing for
   size_fn = lambda area, is_foreground: area < (tf if is_foreground else tb).
   Array-level transcription only (with a mask, background pixels outside the mask keep region
   number 0, which the theorems about the unmasked call exclude). *)
Definition fill_gen (rows : list (list Z)) (mask : option (zmap bool)) (size : option (Z * Z))
                    (bl : zmap Z) (count : Z) : fres :=
  let H := length rows in
  let W := length (hd [] rows) in
  let vals := concat rows in
  let pix := zload vals 0 zempty in
  let npix := length vals in
  let lcount := fold_left Z.max vals 0 in
  let lab := fold_left (fun m p => if getz bl p =? 0 then m else zset m p (getz bl p + lcount + 1)) (zseq 0 npix) pix in
  let lmax := lmax_of lcount count in
  let n := Z.to_nat (lmax + 1) in
  let todo0 := todo_of (border_vals H W lab) in
  let raw := filter (fun p => negb (fst p =? snd p)) (raw_pairs H W lab) in
  let blrows := grid_of H W (getz bl) in
  let inmask := fun p => match mask with None => true | Some m => getb m p end in
  let paint := fun nh anh p => if inmask p then new_index lcount nh anh (getz lab p) else getz lab p in
  match raw with
  | [] =>
      let s0 := init1 todo0 in
      mkF (grid_of H W (paint (w_nh s0) zempty)) blrows count false [] [] [] [] [] [] lcount true
  | _ :: _ =>
      let e := sym_edges raw in
      let iarr := map fst e in
      let jl := map snd e in
      let jarr := zload jl 0 zempty in
      let cnt := bincount iarr in
      let idx := fwd_idx cnt n in
      let adj := adj_of jarr idx cnt in
      let nh0 := w_nh (init1 todo0) in
      let extra :=
        match size with
        | None => []
        | Some (tf, tb) =>
            let areas := bincount (map (getz lab) (zseq 0 npix)) in
            filter (fun ii => (0 <? ii) && (0 <? getz areas ii) && negb (getb nh0 ii) &&
                              negb (getz areas ii <? (if ii <=? lcount then tf else tb)))
                   (zseq 0 n)
        end in
      let fuel := (length e + 2 * n + 2)%nat in
      let s1 := run1 adj lcount fuel (init1 (todo0 ++ extra)) in
      let s2 := run2 adj fuel (w_nh s1) (init2 n (w_nh s1) (w_anh s1)) in
      mkF (grid_of H W (paint (w_nh s1) (v_anh s2))) blrows count true
          iarr jl (map (getz idx) (zseq 0 n)) (map (getz cnt) (zseq 0 n))
          (map (getb (w_nh s1)) (zseq 0 n)) (map (getz (v_anh s2)) (zseq 0 n)) lcount
          (finished1 s1 && finished2 s2)
  end.

Fixpoint zloadb (l : list bool) (k : Z) (m : zmap bool) : zmap bool :=
  match l with [] => m | x :: t => zloadb t (k + 1) (zset m k x) end.

(* arg 0: image, arg 1: () or (mask rows), arg 2: () or (tf tb), arg 3: blabels, arg 4: count,
   arg 5: the values observed in the implementation.  Result: equal? *)
Definition entry_gen_eq (x : sx) : sx :=
  let mask := match as_list (arg 1 x) with
              | [] => None
              | m :: _ => Some (zloadb (concat (as_boolss m)) 0 zempty)
              end in
  let size := match as_Zs (arg 2 x) with tf :: tb :: _ => Some (tf, tb) | _ => None end in
  let r := fill_gen (as_Zss (arg 0 x)) mask size (zload (concat (as_Zss (arg 3 x))) 0 zempty) (as_Z (arg 4 x)) in
  of_bool (sx_eqb (fres_sx r) (arg 5 x)).
