(* C17 — executable models of cpmorphology.is_local_maximum and cpmorphology.regional_maximum.
   Definitions only; proofs are in Proofs/LocalMax*.v.

   Intensities are only ever compared, so they are modelled as Z (the harness sends integer
   images; float images go through an order- and tie-preserving integer coding).
   NumPy primitives are modelled pointwise: an h x w array is a list of h rows of length w,
   [tab h w f] is "the array whose cell (y, x) is f y x", [get2 d a y x] reads a cell,
   [concat a] is [a.ravel()] of a C-contiguous array, and [zget] is a bounds-checked flat read
   (None outside [0, len) — NumPy would wrap [-len, 0) and raise IndexError beyond). *)
From Coq Require Import ZArith List Bool.
From Centro Require Import Base.Sx Base.LocalMaxGrid.
Import ListNotations.
Open Scope Z_scope.

Definition shape2 {A} (g : list (list A)) : nat * nat := (length g, length (hd [] g)).

(* ------------------------------------------------------------------ is_local_maximum *)

(* np.mgrid[-fe0:fe0+1, -fe1:fe1+1][:, footprint] : the (dy, dx) of the True cells, row-major *)
Definition fp_offsets (fp : list (list bool)) (fh fw : nat) (fe0 fe1 : Z) : list (Z * Z) :=
  flat_map (fun a => flat_map (fun b => if get2 false fp a b then [(a - fe0, b - fe1)] else [])
                              (zrange fw)) (zrange fh).

(* d = np.sum(footprint_offsets ** 2, 0) *)
Definition dist2 (o : Z * Z) : Z := fst o * fst o + snd o * snd o.

(* footprint_offsets[:, np.lexsort([d])] : stable sort by d *)
Fixpoint insert_by (key : Z * Z -> Z) (o : Z * Z) (l : list (Z * Z)) : list (Z * Z) :=
  match l with
  | [] => [o]
  | p :: r => if key o <=? key p then o :: p :: r else p :: insert_by key o r
  end.
Definition sort_by (key : Z * Z -> Z) (l : list (Z * Z)) : list (Z * Z) :=
  fold_right (insert_by key) [] l.

(* the three parallel index arrays: result_indexes, big_indexes, image_indexes *)
Record triple : Type := mkT { t_ri : Z; t_bi : Z; t_ii : Z }.

Fixpoint mapM {A B} (f : A -> option B) (l : list A) : option (list B) :=
  match l with
  | [] => Some []
  | a :: r => match f a, mapM f r with Some b, Some bs => Some (b :: bs) | _, _ => None end
  end.

(* a[mask] : boolean-mask compaction *)
Definition select {A} (m : list bool) (l : list A) : list A := map snd (filter fst (combine m l)).

(* one element of [mask] for one footprint offset:
     same_label = big_labels_raveled[big_indexes + fp_big_offset] == big_labels_raveled[big_indexes]
     less_than  = image_raveled[image_indexes[same_label]]
                  < image_raveled[image_indexes[same_label] + fp_image_offset]
     mask = ~same_label; mask[same_label] = ~less_than *)
Definition ok_chk (big img : list Z) (io bo : Z) (t : triple) : option bool :=
  match zget big (t_bi t + bo), zget big (t_bi t) with
  | Some a, Some b =>
      if a =? b then
        match zget img (t_ii t), zget img (t_ii t + io) with
        | Some u, Some v => Some (negb (u <? v))
        | _, _ => None
        end
      else Some true
  | _, _ => None
  end.

(* result_raveled[idx] = False : every listed cell is cleared; IndexError outside the array *)
Definition clear_at (idx : list Z) (r : list bool) : option (list bool) :=
  if forallb (fun k => (0 <=? k) && (k <? zlen r)) idx
  then Some (map (fun kb => snd kb && negb (existsb (Z.eqb (fst kb)) idx))
                 (combine (zrange (length r)) r))
  else None.

(* for fp_image_offset, fp_big_offset in zip(fp_image_offsets, fp_big_offsets): ... *)
Fixpoint ilm_loop (big img : list Z) (offs : list (Z * Z)) (st : list bool * list triple)
  : option (list bool * list triple) :=
  match offs with
  | [] => Some st
  | (io, bo) :: rest =>
      match mapM (ok_chk big img io bo) (snd st) with
      | None => None
      | Some mask =>
          match clear_at (map t_ri (select (map negb mask) (snd st))) (fst st) with
          | None => None
          | Some r' => ilm_loop big img rest (r', select mask (snd st))
          end
      end
  end.

(* indexes = np.mgrid[...][:, labels > 0] : labelled pixels in raster order *)
Definition labelled (labels : list (list Z)) (h w : nat) : list (Z * Z) :=
  flat_map (fun y => flat_map (fun x => if 0 <? get2 0 labels y x then [(y, x)] else [])
                              (zrange w)) (zrange h).

Definition is_local_maximum (image labels : list (list Z)) (fp : list (list bool))
  : option (list (list bool)) :=
  let '(h, w) := shape2 labels in
  let '(fh, fw) := shape2 fp in
  let H := Z.of_nat h in
  let W := Z.of_nat w in
  let fe0 := (Z.of_nat fh - 1) / 2 in                   (* footprint_extent *)
  let fe1 := (Z.of_nat fw - 1) / 2 in
  let result0 := map (map (fun l => 0 <? l)) labels in   (* labels > 0 *)
  if (fe0 =? 0) && (fe1 =? 0) then Some result0 else
  (* slice(fe, -fe) with fe = 0 is empty (ValueError); even sizes break the boolean index *)
  if (fe0 =? 0) || (fe1 =? 0) || Z.even (Z.of_nat fh) || Z.even (Z.of_nat fw) then None else
  (* image = np.ascontiguousarray(image): same values, C order, so image.strides = (W, 1) and
     image.ravel() is the row-major listing below whatever the caller's memory layout was *)
  let image := image in
  let BH := H + fe0 * 2 in
  let BW := W + fe1 * 2 in
  (* big_labels = zeros(shape + 2*fe); big_labels[fe0:-fe0, fe1:-fe1] = labels *)
  let big_labels := tab (Z.to_nat BH) (Z.to_nat BW) (fun y x =>
        if (fe0 <=? y) && (y <? BH - fe0) && (fe1 <=? x) && (x <? BW - fe1)
        then get2 0 labels (y - fe0) (x - fe1) else 0) in
  (* strides of the C-contiguous arrays, in elements *)
  let image_strides := (W, 1) in
  let big_strides := (BW, 1) in
  let result_strides := (W, 1) in
  (* offsets without the centre, ordered by distance *)
  let offs := sort_by dist2 (filter (fun o => 0 <? dist2 o) (fp_offsets fp fh fw fe0 fe1)) in
  let fp_image_offsets := map (fun o => fst image_strides * fst o + snd image_strides * snd o) offs in
  let fp_big_offsets := map (fun o => fst big_strides * fst o + snd big_strides * snd o) offs in
  let indexes := labelled labels h w in
  let triples := map (fun p =>
        mkT (fst result_strides * fst p + snd result_strides * snd p)
            (fst big_strides * (fst p + fe0) + snd big_strides * (snd p + fe1))
            (fst image_strides * fst p + snd image_strides * snd p)) indexes in
  match ilm_loop (concat big_labels) (concat image) (combine fp_image_offsets fp_big_offsets)
                 (concat result0, triples) with
  | None => None
  | Some (r, _) =>                                        (* result is the 2-D view of result_raveled *)
      Some (tab h w (fun y x => nth (Z.to_nat (W * y + x)) r false))
  end.

(* ------------------------------------------------------------------ regional_maximum, ties_are_ok *)

Definition mask_at (mask : option (list (list bool))) (y x : Z) : bool :=
  match mask with Some m => get2 false m y x | None => true end.

(* a[lo:hi] on an axis of length n, lo/hi as written in the code: a negative bound counts from
   the end, everything is clipped to [0, n]; returns (start, length) *)
Definition pynorm (v n : Z) : Z := if v <? 0 then Z.max 0 (v + n) else Z.min v n.
Definition pyslice (lo hi n : Z) : Z * Z :=
  let s := pynorm lo n in (s, Z.max 0 (pynorm hi n - s)).

(* NumPy broadcasting of one axis: lengths must agree or one of them is 1 *)
Definition bcompat (a b : Z) : bool := (a =? b) || (a =? 1) || (b =? 1).
Definition bdim (a b : Z) : Z := if a =? 1 then b else a.
Definition bidx (len k : Z) : Z := if len =? 1 then 0 else k.
(* a[boolean mask] : every axis of the mask must have the axis' length, or length 0 *)
Definition maskdim_ok (a m : Z) : bool := (m =? a) || (m =? 0).

(* one iteration of the double loop over the structure, for cell (i, j); None = the ValueError /
   IndexError NumPy raises when the two shifted slices do not have compatible shapes *)
Definition rm_step (image : list (list Z)) (big_mask : list (list bool)) (st : list (list bool))
           (h w : nat) (h0 h1 : Z) (result : list (list bool)) (ij : Z * Z) : option (list (list bool)) :=
  let '(i, j) := ij in
  let H := Z.of_nat h in
  let W := Z.of_nat w in
  if (i =? h0) && (j =? h1) then Some result else
  if get2 false st i j then
    let off_i := i - h0 in
    let off_j := j - h1 in
    (* result = logical_and(result, big_mask[i:i+H, j:j+W]) *)
    let result1 := tab h w (fun y x => get2 false result y x && get2 false big_mask (i + y) (j + x)) in
    let src_i_min := Z.max 0 (- off_i) in
    let src_i_max := Z.min H (H - off_i) in
    let off_i_min := Z.max 0 off_i in
    let off_i_max := Z.min H (H + off_i) in
    let src_j_min := Z.max 0 (- off_j) in
    let src_j_max := Z.min W (W - off_j) in
    let off_j_min := Z.max 0 off_j in
    let off_j_max := Z.min W (W + off_j) in
    let '(si, sa) := pyslice src_i_min src_i_max H in      (* image[src_i_min:src_i_max, ...] *)
    let '(sj, sb) := pyslice src_j_min src_j_max W in
    let '(oi, oa) := pyslice off_i_min off_i_max H in      (* image[off_i_min:off_i_max, ...] *)
    let '(oj, ob) := pyslice off_j_min off_j_max W in
    (* min_mask = image[src slices] < image[off slices]  (broadcast) *)
    if negb (bcompat sa oa && bcompat sb ob) then None else
    let ma := bdim sa oa in
    let mb := bdim sb ob in
    let min_mask := tab (Z.to_nat ma) (Z.to_nat mb)
          (fun y x => get2 0 image (si + bidx sa y) (sj + bidx sb x)
                      <? get2 0 image (oi + bidx oa y) (oj + bidx ob x)) in
    (* result[src slices][min_mask] = False *)
    if negb (maskdim_ok sa ma && maskdim_ok sb mb) then None else
    Some (tab h w (fun y x =>
      if (si <=? y) && (y <? si + sa) && (sj <=? x) && (x <? sj + sb)
         && get2 false min_mask (y - si) (x - sj)
      then false else get2 false result1 y x))
  else Some result.

Fixpoint rm_fold (step : list (list bool) -> Z * Z -> option (list (list bool)))
         (l : list (Z * Z)) (result : list (list bool)) : option (list (list bool)) :=
  match l with
  | [] => Some result
  | ij :: r => match step result ij with None => None | Some result' => rm_fold step r result' end
  end.

Definition regional_maximum_ties (image : list (list Z)) (mask : option (list (list bool)))
           (st : list (list bool)) : option (list (list bool)) :=
  let '(h, w) := shape2 image in
  let '(sh, sw) := shape2 st in
  let H := Z.of_nat h in
  let W := Z.of_nat w in
  let h0 := Z.of_nat sh / 2 in                           (* structure_half_shape *)
  let h1 := Z.of_nat sw / 2 in
  let big_mask := tab (h + sh) (w + sw) (fun y x =>
        if (h0 <=? y) && (y <? h0 + H) && (h1 <=? x) && (x <? h1 + W)
        then mask_at mask (y - h0) (x - h1) else false) in
  (* result = np.ones(image.shape, bool); if mask is not None: result[~mask] = False *)
  let result0 := tab h w (fun _ _ => true) in
  let result1 := match mask with
                 | None => result0
                 | Some m => tab h w (fun y x => if negb (get2 false m y x) then false
                                                 else get2 false result0 y x)
                 end in
  rm_fold (rm_step image big_mask st h w h0 h1)
          (flat_map (fun i => map (fun j => (i, j)) (zrange sw)) (zrange sh))
          result1.

(* ------------------------------------------------------------------ regional_maximum, ties not ok *)

(* result[positions[:, 0], positions[:, 1]] = True on zeros(image.shape) *)
Definition scatter_true (h w : nat) (ps : list (Z * Z)) : option (list (list bool)) :=
  if forallb (fun p => (0 <=? fst p) && (fst p <? Z.of_nat h) && (0 <=? snd p) && (snd p <? Z.of_nat w)) ps
  then Some (tab h w (fun y x => existsb (fun p => (fst p =? y) && (snd p =? x)) ps))
  else None.

Section NoTies.
  (* scind.label(result, eight_connect) : (labels, label_count) *)
  Variable label : list (list bool) -> list (list Z) * Z.
  (* rank_order(distance_transform_edt(result)) + random tie-break: only ever fed to
     maximum_position, so any values will do *)
  Variable ro_distance : list (list bool) -> list (list Z).
  (* scind.maximum_position(values, labels, index) : one (y, x) per listed label *)
  Variable maximum_position : list (list Z) -> list (list Z) -> list Z -> list (Z * Z).

  Definition regional_maximum (image : list (list Z)) (mask : option (list (list bool)))
             (st : list (list bool)) (ties_are_ok : bool) : option (list (list bool)) :=
    if ties_are_ok then regional_maximum_ties image mask st else
    match regional_maximum_ties image mask st with
    | None => None
    | Some result =>
        if negb (existsb (existsb (fun b => b)) result) then Some result else   (* not np.any(result) *)
        let '(labels, label_count) := label result in
        let positions := maximum_position (ro_distance result) labels
                           (map (fun k => k + 1) (zrange (Z.to_nat label_count))) in
        scatter_true (fst (shape2 image)) (snd (shape2 image)) positions
    end.
End NoTies.

(* executable instances of the library calls, proved correct in Proofs/LocalMaxFlood.v:
   labels by flooding minimum pixel numbers over the 8-neighbourhood until nothing changes
   (fuel = the sum of all numbers + 1, which always suffices), then renumbering the
   representatives 1..count; maximum_position = the first maximum of each label in raster order *)
Definition nb8 : list (Z * Z) := [(-1,-1); (-1,0); (-1,1); (0,-1); (0,1); (1,-1); (1,0); (1,1)].

Definition cells (h w : nat) : list (Z * Z) := flat_map (fun y => map (fun x => (y, x)) (zrange w)) (zrange h).

(* 1 + raster index *)
Definition pidx (w : nat) (p : Z * Z) : Z := Z.of_nat w * fst p + snd p + 1.

(* min of a pixel's number and the numbers of its neighbours inside the set *)
Definition nb_min (u : Z -> Z -> bool) (l : Z -> Z -> Z) (y x : Z) : Z :=
  fold_left (fun m d => if u (y + fst d) (x + snd d) && (l (y + fst d) (x + snd d) <? m)
                        then l (y + fst d) (x + snd d) else m) nb8 (l y x).

Definition flood_step (h w : nat) (s : list (list bool)) (g : list (list Z)) : list (list Z) :=
  tab h w (fun y x => if get2 false s y x then nb_min (get2 false s) (get2 0 g) y x else 0).

Fixpoint flood_iter (fuel : nat) (h w : nat) (s : list (list bool)) (g : list (list Z)) : list (list Z) :=
  match fuel with
  | O => g
  | S f => let g' := flood_step h w s g in
           if list_eq_dec (list_eq_dec Z.eq_dec) g' g then g else flood_iter f h w s g'
  end.

Definition gsum (h w : nat) (g : list (list Z)) : Z :=
  fold_right (fun p acc => get2 0 g (fst p) (snd p) + acc) 0 (cells h w).

Fixpoint index_of (v : Z) (l : list Z) : nat :=
  match l with [] => O | a :: r => if a =? v then O else S (index_of v r) end.

Definition label_inst (s : list (list bool)) : list (list Z) * Z :=
  let '(h, w) := shape2 s in
  let u := get2 false s in
  let g0 := tab h w (fun y x => if u y x then pidx w (y, x) else 0) in
  let f := flood_iter (S (Z.to_nat (gsum h w g0))) h w s g0 in
  (* representatives = pixels that kept their own number *)
  let vals := nodup Z.eq_dec
                (map (pidx w) (filter (fun p => u (fst p) (snd p) && (get2 0 f (fst p) (snd p) =? pidx w p))
                                      (cells h w))) in
  (tab h w (fun y x => if u y x then Z.of_nat (index_of (get2 0 f y x) vals) + 1 else 0), zlen vals).

Definition ro_distance_inst (s : list (list bool)) : list (list Z) :=
  tab (fst (shape2 s)) (snd (shape2 s)) (fun _ _ => 0).

Definition best_step (values labels : list (list Z)) (k : Z) (best : option (Z * Z)) (p : Z * Z) : option (Z * Z) :=
  if get2 0 labels (fst p) (snd p) =? k then
    match best with
    | None => Some p
    | Some q => if get2 0 values (fst q) (snd q) <? get2 0 values (fst p) (snd p) then Some p else best
    end
  else best.

Definition maximum_position_inst (values labels : list (list Z)) (index : list Z) : list (Z * Z) :=
  let '(h, w) := shape2 labels in
  map (fun k => match fold_left (best_step values labels k) (cells h w) None with
                | Some p => p
                | None => (0, 0)
                end) index.
