(* C12 — the mask-dataflow language.  An [expr] is an array program over ONE input image and ONE
   mask; the translator tools/gen_maskflow_c12.py turns every listed function of filter.py /
   cpmorphology.py / smooth.py (branch `mask is not None`) into such a term on every run
   (Gen/MaskProgC12.v).  Arrays are total functions on Z*Z (reads beyond the array border are part
   of each library symbol's declared locality).  Definitions only; proofs in Proofs/MaskFlowSound.v. *)
From Coq Require Import ZArith List Bool.
Import ListNotations.
Open Scope Z_scope.

Definition px := (Z * Z)%type.
Definition dist (p q : px) : Z := Z.max (Z.abs (fst p - fst q)) (Z.abs (snd p - snd q)).
Definition padd (p d : px) : px := (fst p + fst d, snd p + snd d).

(* offsets of the (2r+1)x(2r+1) window *)
Definition zrange (r : nat) : list Z := map (fun k => Z.of_nat k - Z.of_nat r) (seq 0 (2 * r + 1)).
Definition window (r : nat) : list px := list_prod (zrange r) (zrange r).

Inductive expr :=
| Img                                   (* the image argument *)
| MaskE                                 (* the mask argument *)
| FalseC                                (* a falsy constant (False / 0) *)
| Const (c : nat)                       (* any array or scalar that does not depend on the image *)
| Erode (r : nat) (m : expr)            (* binary_erosion(m, (2r+1)^2 ones, border_value=0) *)
| ErodeP (r : nat) (m : expr)           (* punctured erosion: every pixel within r EXCEPT the centre *)
| Pw (f : nat) (es : list expr)         (* pointwise library op / arithmetic / comparison *)
| Loc (r : nat) (f : nat) (e : expr)    (* library op whose value at p reads e within distance r of p *)
| Glob (f : nat) (es : list expr)       (* arbitrary pure library op (any dependence on its arguments) *)
| Select (e1 m e2 : expr)               (* e1 where m is truthy, else e2 *)
| MConv (k : nat) (e m : expr).         (* _filter.masked_convolution(e, m, kernel k), concrete semantics *)

(* An interpretation of the library symbols together with their DECLARED behaviour (the trusted
   interface): pointwise, local with a radius, or merely pure. *)
Record interp := {
  V : Type;
  truthy : V -> bool;
  falsev : V;
  maskv : bool -> V;
  constimg : nat -> px -> V;
  pw : nat -> list V -> V;
  loc : nat -> nat -> (px -> V) -> px -> V;
  glob : nat -> list (px -> V) -> px -> V;
  erode : nat -> (px -> V) -> px -> V;
  erodep : nat -> (px -> V) -> px -> V;
  mcrad : nat -> nat;
  mcfold : nat -> list (px * V) -> V;
  truthy_false : truthy falsev = false;
  truthy_mask : forall b, truthy (maskv b) = b;
  loc_local : forall r f a b p, (forall q, dist p q <= Z.of_nat r -> a q = b q) -> loc r f a p = loc r f b p;
  glob_ext : forall f xs ys, Forall2 (fun a b => forall q, a q = b q) xs ys -> forall p, glob f xs p = glob f ys p;
  erode_local : forall r a b p, (forall q, dist p q <= Z.of_nat r -> a q = b q) -> erode r a p = erode r b p;
  erode_guarantee : forall r a p, truthy (erode r a p) = true ->
                    forall q, dist p q <= Z.of_nat r -> truthy (a q) = true;
  erodep_local : forall r a b p, (forall q, dist p q <= Z.of_nat r -> a q = b q) -> erodep r a p = erodep r b p;
  erodep_guarantee : forall r a p, truthy (erodep r a p) = true ->
                    forall q, dist p q <= Z.of_nat r -> q <> p -> truthy (a q) = true }.

Section Sem.
Variable I : interp.
Variable mask : px -> bool.
Notation image := (px -> V I).

(* the inner loops of _filter.pyx masked_convolution: pixels of the window whose mask is set,
   with their kernel offset, folded by an arbitrary function (the float accumulation) *)
Definition mconv_terms (r : nat) (e m : image) (p : px) : list (px * V I) :=
  flat_map (fun d => if truthy I (m (padd p d)) then [(d, e (padd p d))] else []) (window r).

Fixpoint eval (e : expr) (img : image) : image :=
  match e with
  | Img => img
  | MaskE => fun p => maskv I (mask p)
  | FalseC => fun _ => falsev I
  | Const c => constimg I c
  | Erode r m => erode I r (eval m img)
  | ErodeP r m => erodep I r (eval m img)
  | Pw f es => fun p => pw I f (map (fun e' => eval e' img p) es)
  | Loc r f e => loc I r f (eval e img)
  | Glob f es => glob I f (map (fun e' => eval e' img) es)
  | Select e1 m e2 => fun p => if truthy I (eval m img p) then eval e1 img p else eval e2 img p
  | MConv k e m => fun p =>
      if truthy I (eval m img p)
      then mcfold I k (mconv_terms (mcrad I k) (eval e img) (eval m img) p)
      else falsev I
  end.
End Sem.

(* radius lattice: None = clean (no dependence at all on pixels outside the mask); Some r = the
   value at p is determined by the masked-in pixels together with the pixels within r of p *)
Definition rad := option nat.
Definition rmax (a b : rad) : rad :=
  match a, b with None, x | x, None => x | Some x, Some y => Some (Nat.max x y) end.
Definition rle (a : rad) (n : nat) : bool := match a with None => true | Some x => Nat.leb x n end.
Definition radd (a : rad) (r : nat) : rad := match a with None => None | Some k => Some (k + r)%nat end.

(* guarantee of a selector: (g, punctured) = "m truthy at p  =>  every pixel within g of p
   (except p itself when punctured) lies inside the mask" *)
Definition gjoin (a b : option (nat * bool)) : option (nat * bool) :=
  match a, b with
  | Some (g1, p1), Some (g2, p2) => Some (Nat.max g1 g2, p1 && p2)
  | Some x, None | None, Some x => Some x
  | None, None => None
  end.
Fixpoint guar (m : expr) : option (nat * bool) :=
  match m with
  | MaskE => Some (0%nat, false)
  | Erode r m' => match guar m' with Some (g, false) => Some ((g + r)%nat, false) | _ => None end
  | ErodeP r m' => match guar m' with Some (O, false) => Some (r, true) | _ => None end
  | Select m2 m1 FalseC => gjoin (guar m1) (guar m2)       (* logical_and(m1, m2) *)
  | _ => None
  end.

Definition is_clean (o : option rad) : bool := match o with Some None => true | _ => false end.

(* the checker: Some r = depends on img outside the mask only within radius r; None = REJECT *)
Fixpoint rb (e : expr) : option rad :=
  match e with
  | Img => Some (Some 0%nat)
  | MaskE | FalseC | Const _ => Some None
  | Erode r m | ErodeP r m | Loc r _ m => match rb m with Some a => Some (radd a r) | None => None end
  | Pw _ es =>
      fold_right (fun e' acc => match rb e', acc with Some a, Some b => Some (rmax a b) | _, _ => None end)
                 (Some None) es
  | Glob _ es => if forallb (fun e' => is_clean (rb e')) es then Some None else None
  | Select e1 m e2 =>
      match rb e1, rb m, rb e2 with
      | Some a, Some b, Some c =>
          let a' := match guar m with
                    | Some (g, punct) =>
                        if rle a g then (if punct then (match a with None => None | Some _ => Some 0%nat end) else None)
                        else a
                    | None => a end in
          Some (rmax a' (rmax b c))
      | _, _, _ => None
      end
  | MConv _ e m =>
      match rb e, rb m, guar m with
      | Some a, Some None, Some (g, false) => if rle a g then Some None else None
      | _, _, _ => None
      end
  end.

(* accepted = non-interfering inside the mask *)
Definition accepts (e : expr) : bool := match rb e with Some r => rle r 0 | None => false end.
(* the last write on every path is `result[~mask] = image[~mask]` (or the path returns the image itself);
   paths are joined by Select on a branch condition *)
Fixpoint restores_outside (e : expr) : bool :=
  match e with
  | Img => true
  | Select e1 m e2 =>
      (match m, e2 with MaskE, Img => true | _, _ => false end) || (restores_outside e1 && restores_outside e2)
  | _ => false
  end.

(* the two properties of C12, for EVERY admissible interpretation of the library symbols *)
Definition noninterfering (e : expr) : Prop :=
  forall (I : interp) (mask : px -> bool) (a b : px -> V I),
    (forall q, mask q = true -> a q = b q) ->
    forall p, mask p = true -> eval I mask e a p = eval I mask e b p.
Definition restoring (e : expr) : Prop :=
  forall (I : interp) (mask : px -> bool) (img : px -> V I) p, mask p = false -> eval I mask e img p = img p.
