(* C12 — the mask-dataflow language.  A program is a list of shared definitions plus a main term (a DAG:
   [Ref k] names the k-th definition); a term is an array expression over ONE input image and ONE mask.  The
   translator tools/gen_maskflow_c12.py turns every listed function of filter.py / cpmorphology.py / smooth.py
   (branch `mask is not None`) into such a program on every run (Gen/MaskProgC12.v).  Arrays are total functions
   on Z*Z (reads beyond the array border are part of each library symbol's declared locality).
   Definitions only; proofs in Proofs/MaskFlowSound.v. *)
From Coq Require Import ZArith List Bool.
Import ListNotations.
Open Scope Z_scope.

Definition px := (Z * Z)%type.
Definition dist (p q : px) : Z := Z.max (Z.abs (fst p - fst q)) (Z.abs (snd p - snd q)).
Definition padd (p d : px) : px := (fst p + fst d, snd p + snd d).

(* offsets of the (2r+1)x(2r+1) window *)
Definition zrange (r : nat) : list Z := map (fun k => Z.of_nat k - Z.of_nat r) (seq 0 (2 * r + 1)).
Definition window (r : nat) : list px := list_prod (zrange r) (zrange r).

Inductive expr :=
| Img                                   (* the image argument *)
| MaskE                                 (* the mask argument *)
| FalseC                                (* a falsy constant (False / 0) *)
| Const (c : nat)                       (* any array or scalar that does not depend on the image *)
| Ref (k : nat)                         (* the k-th shared definition of the program *)
| Erode (r : nat) (m : expr)            (* binary_erosion(m, (2r+1)^2 ones, border_value=0) *)
| ErodeP (r : nat) (m : expr)           (* punctured erosion: every pixel within r EXCEPT the centre *)
| ErodeS (s : nat) (m : expr)           (* punctured erosion by the abstract structure (offset set) s *)
| Pw (f : nat) (es : list expr)         (* pointwise library op / arithmetic / comparison *)
| Loc (r : nat) (f : nat) (e : expr)    (* library op whose value at p reads e within distance r of p *)
| LocS (s : nat) (f : nat) (e : expr)   (* library op whose value at p reads e at p and at p + d, d in structure s *)
| Glob (f : nat) (es : list expr)       (* arbitrary pure library op (any dependence on its arguments) *)
| Select (e1 m e2 : expr)               (* e1 where m is truthy, else e2 *)
| MConv (k : nat) (e m : expr).         (* _filter.masked_convolution(e, m, kernel k), concrete semantics *)

(* An interpretation of the library symbols together with their DECLARED behaviour (the trusted
   interface): pointwise, local with a radius, local with an abstract footprint, or merely pure. *)
Record interp := {
  V : Type;
  truthy : V -> bool;
  falsev : V;
  maskv : bool -> V;
  constimg : nat -> px -> V;
  pw : nat -> list V -> V;
  loc : nat -> nat -> (px -> V) -> px -> V;
  glob : nat -> list (px -> V) -> px -> V;
  erode : nat -> (px -> V) -> px -> V;
  erodep : nat -> (px -> V) -> px -> V;
  sset : nat -> px -> bool;                         (* membership of an offset in structure s: ANY set *)
  locs : nat -> nat -> (px -> V) -> px -> V;
  erodes : nat -> (px -> V) -> px -> V;
  mcrad : nat -> nat;
  mcfold : nat -> list (px * V) -> V;
  truthy_false : truthy falsev = false;
  truthy_mask : forall b, truthy (maskv b) = b;
  loc_local : forall r f a b p, (forall q, dist p q <= Z.of_nat r -> a q = b q) -> loc r f a p = loc r f b p;
  glob_ext : forall f xs ys, Forall2 (fun a b => forall q, a q = b q) xs ys -> forall p, glob f xs p = glob f ys p;
  erode_local : forall r a b p, (forall q, dist p q <= Z.of_nat r -> a q = b q) -> erode r a p = erode r b p;
  erode_guarantee : forall r a p, truthy (erode r a p) = true ->
                    forall q, dist p q <= Z.of_nat r -> truthy (a q) = true;
  erodep_local : forall r a b p, (forall q, dist p q <= Z.of_nat r -> a q = b q) -> erodep r a p = erodep r b p;
  erodep_guarantee : forall r a p, truthy (erodep r a p) = true ->
                    forall q, dist p q <= Z.of_nat r -> q <> p -> truthy (a q) = true;
  locs_local : forall s f a b p, a p = b p -> (forall d, sset s d = true -> a (padd p d) = b (padd p d)) ->
                    locs s f a p = locs s f b p;
  erodes_local : forall s a b p, a p = b p -> (forall d, sset s d = true -> a (padd p d) = b (padd p d)) ->
                    erodes s a p = erodes s b p;
  erodes_guarantee : forall s a p, truthy (erodes s a p) = true ->
                    forall d, sset s d = true -> padd p d <> p -> truthy (a (padd p d)) = true }.

Section Sem.
Variable I : interp.
Variable mask : px -> bool.
Notation image := (px -> V I).

(* the inner loops of _filter.pyx masked_convolution: pixels of the window whose mask is set,
   with their kernel offset, folded by an arbitrary function (the float accumulation) *)
Definition mconv_terms (r : nat) (e m : image) (p : px) : list (px * V I) :=
  flat_map (fun d => if truthy I (m (padd p d)) then [(d, e (padd p d))] else []) (window r).

(* rho: the values of the shared definitions evaluated so far *)
Fixpoint eval (rho : list image) (e : expr) (img : image) : image :=
  match e with
  | Img => img
  | MaskE => fun p => maskv I (mask p)
  | FalseC => fun _ => falsev I
  | Const c => constimg I c
  | Ref k => nth k rho (fun _ => falsev I)
  | Erode r m => erode I r (eval rho m img)
  | ErodeP r m => erodep I r (eval rho m img)
  | ErodeS s m => erodes I s (eval rho m img)
  | Pw f es => fun p => pw I f (map (fun e' => eval rho e' img p) es)
  | Loc r f e => loc I r f (eval rho e img)
  | LocS s f e => locs I s f (eval rho e img)
  | Glob f es => glob I f (map (fun e' => eval rho e' img) es)
  | Select e1 m e2 => fun p => if truthy I (eval rho m img p) then eval rho e1 img p else eval rho e2 img p
  | MConv k e m => fun p =>
      if truthy I (eval rho m img p)
      then mcfold I k (mconv_terms (mcrad I k) (eval rho e img) (eval rho m img) p)
      else falsev I
  end.

(* a program: definitions evaluated in order, each may refer to the earlier ones *)
Fixpoint evalp (rho : list image) (defs : list expr) (main : expr) (img : image) : image :=
  match defs with
  | [] => eval rho main img
  | d :: ds => evalp (rho ++ [eval rho d img]) ds main img
  end.
End Sem.

Definition prog := (list expr * expr)%type.
Definition run (I : interp) (mask : px -> bool) (P : prog) (img : px -> V I) : px -> V I :=
  evalp I mask [] (fst P) (snd P) img.

(* dependence lattice.  None = clean (no dependence at all on pixels outside the mask); R k = the value at p is
   determined by the masked-in pixels together with the pixels within k of p; S s = ... together with p itself and
   the pixels p + d for d in the abstract structure s *)
Inductive dep := R (k : nat) | S (s : nat).
Definition rad := option dep.
(* least upper bound where the lattice has one *)
Definition rmax (a b : rad) : option rad :=
  match a, b with
  | None, x => Some x
  | x, None => Some x
  | Some (R x), Some (R y) => Some (Some (R (Nat.max x y)))
  | Some (S s), Some (S t) => if Nat.eqb s t then Some a else None
  | Some (S _), Some (R k) => match k with O => Some a | _ => None end
  | Some (R k), Some (S _) => match k with O => Some b | _ => None end
  end.
Definition radd (a : rad) (r : nat) : option rad :=
  match a with None => Some None | Some (R k) => Some (Some (R (k + r)%nat)) | Some (S _) => None end.
Definition rstruct (a : rad) (s : nat) : option rad :=
  match a with None => Some None | Some (R O) => Some (Some (S s)) | _ => None end.
Definition rle0 (a : rad) : bool := match a with None => true | Some (R O) => true | _ => false end.

(* guarantee of a selector.  GR g pu: "m truthy at p => every pixel within g of p (except p itself when pu) lies
   inside the mask"; GS s pu: "... => every p + d, d in s, other than p lies inside the mask (and p itself unless pu)" *)
Inductive ginfo := GR (g : nat) (pu : bool) | GS (s : nat) (pu : bool).
Definition gjoin (a b : option ginfo) : option ginfo :=
  match a, b with
  | Some (GR g1 p1), Some (GR g2 p2) => Some (GR (Nat.max g1 g2) (p1 && p2))
  | Some (GS s p1), Some (GS _ p2) => Some (GS s (p1 && p2))
  | Some (GS s p1), Some (GR _ p2) | Some (GR _ p2), Some (GS s p1) => Some (GS s (p1 && p2))
  | Some x, None | None, Some x => Some x
  | None, None => None
  end.

(* what the checker knows about the shared definitions: their dependence and their guarantee *)
Definition cenv := list (rad * option ginfo).

Fixpoint guar (G : cenv) (m : expr) : option ginfo :=
  match m with
  | MaskE => Some (GR 0%nat false)
  | Ref k => match nth_error G k with Some (_, g) => g | None => None end
  | Erode r m' => match guar G m' with Some (GR g false) => Some (GR (g + r)%nat false) | _ => None end
  | ErodeP r m' => match guar G m' with Some (GR O false) => Some (GR r true) | _ => None end
  | ErodeS s m' => match guar G m' with Some (GR O false) => Some (GS s true) | _ => None end
  | Select m2 m1 FalseC => gjoin (guar G m1) (guar G m2)       (* logical_and(m1, m2) *)
  | _ => None
  end.

(* what remains of the dependence [a] of e1 in `e1 where m` when m carries the guarantee g *)
Definition discount (a : rad) (g : option ginfo) : rad :=
  match a with
  | None => None
  | Some (R k) =>
      match g with
      | Some (GR gg pu) => if Nat.leb k gg then (if pu then Some (R 0%nat) else None) else a
      | Some (GS _ pu) => match k with O => if pu then a else None | _ => a end
      | None => a
      end
  | Some (S s) =>
      match g with
      | Some (GS t pu) => if Nat.eqb s t then (if pu then Some (R 0%nat) else None) else a
      | _ => a
      end
  end.

Definition is_clean (o : option rad) : bool := match o with Some None => true | _ => false end.
Definition bind2 (a b : option rad) : option rad :=
  match a, b with Some x, Some y => rmax x y | _, _ => None end.

(* the checker: Some r = dependence r on img outside the mask; None = REJECT *)
Fixpoint rb (G : cenv) (e : expr) : option rad :=
  match e with
  | Img => Some (Some (R 0%nat))
  | MaskE | FalseC | Const _ => Some None
  | Ref k => match nth_error G k with Some (r, _) => Some r | None => None end
  | Erode r m | ErodeP r m | Loc r _ m => match rb G m with Some a => radd a r | None => None end
  | ErodeS s m | LocS s _ m => match rb G m with Some a => rstruct a s | None => None end
  | Pw _ es => fold_right (fun e' acc => bind2 (rb G e') acc) (Some None) es
  | Glob _ es => if forallb (fun e' => is_clean (rb G e')) es then Some None else None
  | Select e1 m e2 =>
      match rb G e1 with
      | Some a => bind2 (Some (discount a (guar G m))) (bind2 (rb G m) (rb G e2))
      | None => None
      end
  | MConv _ e m =>
      match rb G e, rb G m, guar G m with
      | Some None, Some None, Some (GR _ false) => Some None
      | Some (Some (R k)), Some None, Some (GR g false) => if Nat.leb k g then Some None else None
      | _, _, _ => None
      end
  end.

(* a program: every definition is checked in the environment of the earlier ones *)
Fixpoint rbp (G : cenv) (defs : list expr) (main : expr) : option rad :=
  match defs with
  | [] => rb G main
  | d :: ds => match rb G d with Some r => rbp (G ++ [(r, guar G d)]) ds main | None => None end
  end.

(* accepted = non-interfering inside the mask *)
Definition accepts (P : prog) : bool := match rbp [] (fst P) (snd P) with Some r => rle0 r | None => false end.

(* the last write on every path of the main term is `result[~mask] = image[~mask]` (or the path returns the image
   itself); paths are joined by Select on a branch condition *)
Fixpoint restores_main (e : expr) : bool :=
  match e with
  | Img => true
  | Select e1 m e2 =>
      (match m, e2 with MaskE, Img => true | _, _ => false end) || (restores_main e1 && restores_main e2)
  | _ => false
  end.
Definition restores_outside (P : prog) : bool := restores_main (snd P).

(* the two properties of C12, for EVERY admissible interpretation of the library symbols *)
Definition noninterfering (P : prog) : Prop :=
  forall (I : interp) (mask : px -> bool) (a b : px -> V I),
    (forall q, mask q = true -> a q = b q) ->
    forall p, mask p = true -> run I mask P a p = run I mask P b p.
Definition restoring (P : prog) : Prop :=
  forall (I : interp) (mask : px -> bool) (img : px -> V I) p, mask p = false -> run I mask P img p = img p.
