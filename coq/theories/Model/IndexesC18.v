(* C18 — line-level models of centrosome/index.py Indexes.__init__ and
   cpmorphology.pairwise_permutations.  Definitions only. *)
From Coq Require Import ZArith List Bool Arith.
From Centro Require Import Base.SortC18 Model.VecC18.
Import ListNotations.
Local Open Scope nat_scope.

(* np.prod(rows, 0) for an N x M array given as N rows of length M *)
Definition col_prods (m : nat) (rows : list (list nat)) : list nat :=
  fold_right (map2 Nat.mul) (repeat 1 m) rows.

(* the classic trick shared by Indexes.rev_idx and pairwise_permutations.d_r:
   zeros(len); a[start[ne[0]]] = ne[0]; a[start[ne[1:]]] = ne[1:] - ne[:-1]; cumsum *)
Definition diff_marks (starts ne : list nat) (len : nat) : list nat :=
  let a0 := repeat 0 len in
  let a1 := match ne with [] => a0 | f :: _ => set_nth (getn starts f) f a0 end in
  match ne with
  | _ :: ((_ :: _) as t) => scatter (map (getn starts) t) (map2 Nat.sub t (removelast ne)) a1
  | _ => a1
  end.

(* the loop  for i, count in enumerate(counts[:-1]): ...; idx.append(indexes) *)
Fixpoint idx_loop (m : nat) (rows : list (list nat)) (rev_idx indexes : list nat) : list (list nat) :=
  match rows with
  | [] => [indexes]
  | _ :: rest =>
      match rest with
      | [] => [indexes]
      | _ =>
          let modulos := col_prods m rest in                      (* prod(counts[i+1:], 0) *)
          let mr := map (getn modulos) rev_idx in                 (* modulos[rev_idx] *)
          map2 Nat.div indexes mr :: idx_loop m rest rev_idx (map2 Nat.modulo indexes mr)
      end
  end.

(* (length, fwd_idx, rev_idx, idx) *)
Definition indexes (counts : list (list nat)) : nat * list nat * list nat * list (list nat) :=
  let m := length (hd [] counts) in
  let prods := col_prods m counts in
  if nsum prods =? 0 then (0, repeat 0 m, [], map (fun _ => []) counts) else
  let cs := ncumsum prods in
  let len := last cs 0 in
  let fwd_idx := 0 :: removelast cs in
  let non_empty := compress (map (fun p => 0 <? p) prods) (seq 0 m) in
  let rev_idx := ncumsum (diff_marks fwd_idx non_empty len) in
  let indexes0 := map2 Nat.sub (seq 0 len) (map (getn fwd_idx) rev_idx) in
  (len, fwd_idx, rev_idx, idx_loop m counts rev_idx indexes0).

(* ------------------------------------------------------------------ pairwise_permutations *)
Fixpoint zunique_sorted (l : list Z) : list Z :=      (* np.unique on a sorted list *)
  match l with
  | x :: ((y :: _) as r) => if Z.eqb x y then zunique_sorted r else x :: zunique_sorted r
  | _ => l
  end.
Fixpoint nunique_sorted (l : list nat) : list nat :=
  match l with
  | x :: ((y :: _) as r) => if Nat.eqb x y then nunique_sorted r else x :: nunique_sorted r
  | _ => l
  end.

(* coo_matrix((v, (i, j))).tocsc()[a, b]: the sum of the entries stored at (a, b) *)
Fixpoint sparse_get (i j v : list nat) (a b : nat) : nat :=
  match i, j, v with
  | x :: i', y :: j', w :: v' => (if (x =? a) && (y =? b) then w else 0) + sparse_get i' j' v' a b
  | _, _, _ => 0
  end.

Definition tri (c : nat) : nat := c * (c - 1) / 2.

Definition pairwise_permutations (i j : list Z) : list Z * list Z * list Z :=
  match i with
  | [] => ([], [], [])
  | _ =>
      let index := lexsort j i in
      let i1 := map (getz i) index in
      let j1 := map (getz j) index in
      let r_to_i := zunique_sorted (zsort i1) in                       (* np.sort(np.unique(i)) *)
      (* i_to_r is computed by the code and never read: not modelled *)
      let r := ncumsum (0 :: map b2n (adj_diff i1)) in                 (* cumsum(hstack([False], i[:-1]!=i[1:])) *)
      let src_count := bincount r 0 in
      let src_idx := 0 :: ncumsum (removelast src_count) in
      let dest_count := map tri src_count in
      let dest_idx := 0 :: ncumsum dest_count in
      let dest_size := last dest_idx 0 in
      let not_empty := compress (nadj_diff dest_idx) (seq 0 (length dest_idx - 1)) in
      (* increments = ne - hstack([0], ne[:-1]); d_r[dest_idx[ne]] = increments; cumsum:
         the first increment is ne[0] itself, so this is diff_marks *)
      let d_r := ncumsum (diff_marks dest_idx not_empty dest_size) in
      let d_i := map (getz r_to_i) d_r in
      let d_r_idx := map2 Nat.sub (seq 0 (length d_r)) (map (getn dest_idx) d_r) in
      let unique_src_count := nunique_sorted (map Z.to_nat (zsort (map Z.of_nat src_count))) in
      let unique_dest_len := map tri unique_src_count in
      let i_sparse := concat (map2 (fun c dlen => repeat c dlen) unique_src_count unique_dest_len) in
      let j_sparse := concat (map (fun dlen => seq 0 dlen) unique_dest_len) in
      let v_j1_sparse := concat (map (fun n => concat (map (fun x => repeat x (n - x - 1)) (seq 0 n)))
                                     unique_src_count) in
      let v_j2_sparse := concat (map (fun n => concat (map (fun x => seq (x + 1) (n - (x + 1))) (seq 0 n)))
                                     unique_src_count) in
      let sc := map (getn src_count) d_r in
      let d_j1_idx := map2 (sparse_get i_sparse j_sparse v_j1_sparse) sc d_r_idx in
      let d_j2_idx := map2 (sparse_get i_sparse j_sparse v_j2_sparse) sc d_r_idx in
      let base := map (getn src_idx) d_r in
      (d_i, map (getz j1) (map2 Nat.add base d_j1_idx), map (getz j1) (map2 Nat.add base d_j2_idx))
  end.
