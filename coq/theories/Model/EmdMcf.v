(* C10 — line-level model of include/min_cost_flow.hpp (class min_cost_flow<int>):
   the x / r_cost_forward / r_cost_cap_backward arc lists in push_back order, the main loop
   (largest supply, compute_shortest_path, residual-capacity scan, augmentation), Dijkstra with
   the array binary heap Q (edge3 = node, dist), its position table _nodes_to_Q, heap_decrease_key,
   heap_remove_first, heapify, swap_heap and the LEFT / RIGHT / PARENT index arithmetic, the early
   exit at the first deficit node and the reduced-cost update of finalised nodes.
   Every access to Q and _nodes_to_Q goes through bounds-CHECKED accessors (None = the C++ code
   would index outside the vector); Proofs/EmdHeap.v shows the heap operations never produce
   None.  int is modelled by Z (no wrap-around; numeric_limits<int>::max() = 2^31-1).
   Definitions only. *)
From Coq Require Import ZArith List Bool.
From Centro Require Import Base.Sx Base.EmdBase Model.Emd.
Import ListNotations.
Open Scope Z_scope.

Definition INTMAX : Z := 2147483647.

(* ------------------------------------------------------------------ checked vectors *)
Definition oget {A} (l : list A) (i : nat) : option A := nth_error l i.
Fixpoint oset {A} (l : list A) (i : nat) (x : A) : option (list A) :=
  match l, i with
  | [], _ => None
  | _ :: r, O => Some (x :: r)
  | y :: r, S i' => match oset r i' x with Some r' => Some (y :: r') | None => None end
  end.
Definition bind {A B} (o : option A) (f : A -> option B) : option B :=
  match o with Some a => f a | None => None end.
Notation "x <- o ;; k" := (bind o (fun x => k)) (at level 61, o at next level, right associativity).

(* ------------------------------------------------------------------ the heap *)
Definition qent : Type := (nat * Z)%type.            (* edge3: _to, _dist *)
Definition heap : Type := (list qent * list nat)%type.   (* Q, _nodes_to_Q *)

Definition LEFT (i : nat) : nat := (2 * (i + 1) - 1)%nat.
Definition RIGHT (i : nat) : nat := (2 * (i + 1))%nat.
Definition PARENT (i : nat) : nat := ((i - 1) / 2)%nat.

Definition swap_heap (h : heap) (i j : nat) : option heap :=
  let '(Q, n2q) := h in
  qi <- oget Q i ;; qj <- oget Q j ;;
  Q1 <- oset Q i qj ;; Q2 <- oset Q1 j qi ;;
  n1 <- oset n2q (fst qi) j ;; n2 <- oset n1 (fst qj) i ;;
  Some (Q2, n2).

(* while (i>0 && Q[PARENT(i)]._dist > Q[i]._dist) { swap; i = PARENT(i) } *)
Fixpoint sift_up (fuel : nat) (h : heap) (i : nat) : option heap :=
  match fuel with
  | O => Some h
  | S f =>
      if (i =? 0)%nat then Some h else
      qp <- oget (fst h) (PARENT i) ;; qi <- oget (fst h) i ;;
      if snd qi <? snd qp then (h' <- swap_heap h i (PARENT i) ;; sift_up f h' (PARENT i)) else Some h
  end.

Definition heap_decrease_key (h : heap) (v : nat) (alt : Z) : option heap :=
  i <- oget (snd h) v ;; qi <- oget (fst h) i ;;
  Q1 <- oset (fst h) i (fst qi, alt) ;;
  sift_up (S i) (Q1, snd h) i.

Fixpoint heapify (fuel : nat) (h : heap) (i : nat) : option heap :=
  match fuel with
  | O => Some h
  | S f =>
      let Q := fst h in
      let size := length Q in
      let l := LEFT i in
      let r := RIGHT i in
      s1 <- (if (l <? size)%nat then (ql <- oget Q l ;; qi <- oget Q i ;; Some (if snd ql <? snd qi then l else i))
             else Some i) ;;
      s2 <- (if (r <? size)%nat then (qr <- oget Q r ;; qs <- oget Q s1 ;; Some (if snd qr <? snd qs then r else s1))
             else Some s1) ;;
      if (s2 =? i)%nat then Some h else (h' <- swap_heap h i s2 ;; heapify f h' s2)
  end.

Definition heap_remove_first (h : heap) : option heap :=
  h1 <- swap_heap h 0 (length (fst h) - 1) ;;
  let Q' := removelast (fst h1) in
  heapify (length Q') (Q', snd h1) 0.

(* Making heap: Q[0] = (from, 0); the others in index order with dist = max *)
Definition heap_init (nv from : nat) : heap :=
  let others := filter (fun i => negb (i =? from)%nat) (seq 0 nv) in
  ((from, 0) :: map (fun i => (i, INTMAX)) others,
   map (fun i => if (i =? from)%nat then O else if (i <? from)%nat then S i else i) (seq 0 nv)).

(* ------------------------------------------------------------------ compute_shortest_path *)
Record sp_state := { sp_h : heap; sp_d : list Z; sp_prev : list nat; sp_final : list bool }.

Definition relax (u : nat) (du : Z) (st : sp_state) (v : nat) (rc : Z) : option sp_state :=
  let alt := du + rc in
  pos <- oget (snd (sp_h st)) v ;;
  if (pos <? length (fst (sp_h st)))%nat then
    qv <- oget (fst (sp_h st)) pos ;;
    if alt <? snd qv then
      h' <- heap_decrease_key (sp_h st) v alt ;;
      Some {| sp_h := h'; sp_d := sp_d st; sp_prev := upd (sp_prev st) v (fun _ => u); sp_final := sp_final st |}
    else Some st
  else Some st.

Fixpoint relax_fwd (u : nat) (du : Z) (st : sp_state) (l : list (nat * Z)) : option sp_state :=
  match l with
  | [] => Some st
  | (v, rc) :: r => st' <- relax u du st v rc ;; relax_fwd u du st' r
  end.
Fixpoint relax_bwd (u : nat) (du : Z) (st : sp_state) (l : list (nat * Z * Z)) : option sp_state :=
  match l with
  | [] => Some st
  | (v, rc, cap) :: r => if 0 <? cap then (st' <- relax u du st v rc ;; relax_bwd u du st' r) else relax_bwd u du st r
  end.

(* do { ... } while (!Q.empty()); result: the state and the deficit node l *)
Fixpoint dijkstra (fuel : nat) (e : list Z) (rf : list (list (nat * Z))) (rb : list (list (nat * Z * Z)))
         (st : sp_state) : option (sp_state * nat) :=
  match fuel with
  | O => None
  | S f =>
      q0 <- oget (fst (sp_h st)) 0 ;;
      let u := fst q0 in
      let st1 := {| sp_h := sp_h st; sp_d := upd (sp_d st) u (fun _ => snd q0); sp_prev := sp_prev st;
                    sp_final := upd (sp_final st) u (fun _ => true) |} in
      if nz e u <? 0 then Some (st1, u) else
      h' <- heap_remove_first (sp_h st1) ;;
      let st2 := {| sp_h := h'; sp_d := sp_d st1; sp_prev := sp_prev st1; sp_final := sp_final st1 |} in
      st3 <- relax_fwd u (snd q0) st2 (nth u rf []) ;;
      st4 <- relax_bwd u (snd q0) st3 (nth u rb []) ;;
      match fst (sp_h st4) with
      | [] => None        (* the C++ loop would leave with l uninitialised *)
      | _ => dijkstra f e rf rb st4
      end
  end.

Definition fin (fl : list bool) (v : nat) : bool := nth v fl false.

(* the reduced-cost update of one arc fr -> to after a shortest-path computation that ended at a
   node of distance dl: finalised end points shift by (d - dl) *)
Definition rc_update (fl : list bool) (dd : list Z) (dl : Z) (fr to : nat) (rc : Z) : Z :=
  let rc1 := if fin fl fr then rc + (nz dd fr - dl) else rc in
  if fin fl to then rc1 - (nz dd to - dl) else rc1.

Definition compute_shortest_path (nv : nat) (d : list Z) (prev : list nat) (from : nat)
           (rf : list (list (nat * Z))) (rb : list (list (nat * Z * Z))) (e : list Z)
  : option (list Z * list nat * list (list (nat * Z)) * list (list (nat * Z * Z)) * nat) :=
  let st0 := {| sp_h := heap_init nv from; sp_d := d; sp_prev := prev; sp_final := repeat false nv |} in
  r <- dijkstra (S nv) e rf rb st0 ;;
  let '(st, l) := r in
  let dd := sp_d st in
  let fl := sp_final st in
  let dl := nz dd l in
  let adj := rc_update fl dd dl in
  let rf' := map (fun fx => map (fun en => (fst en, adj (fst fx) (fst en) (snd en))) (snd fx))
                 (combine (seq 0 nv) rf) in
  let rb' := map (fun fx => map (fun en => (fst (fst en), adj (fst fx) (fst (fst en)) (snd (fst en)), snd en)) (snd fx))
                 (combine (seq 0 nv) rb) in
  Some (dd, sp_prev st, rf', rb', l).

(* ------------------------------------------------------------------ the main loop *)
(* first entry of a list with the given target *)
Fixpoint find_bwd (l : list (nat * Z * Z)) (to : nat) : option (nat * Z * Z) :=
  match l with [] => None | en :: r => if (fst (fst en) =? to)%nat then Some en else find_bwd r to end.
Fixpoint upd_first_bwd (l : list (nat * Z * Z)) (to : nat) (g : Z -> Z) : list (nat * Z * Z) :=
  match l with
  | [] => []
  | en :: r => if (fst (fst en) =? to)%nat then (fst en, g (snd en)) :: r else en :: upd_first_bwd r to g
  end.
Fixpoint upd_first_x (l : list (nat * Z * Z)) (to : nat) (g : Z -> Z) : option (list (nat * Z * Z)) :=
  match l with
  | [] => None       (* while (itx->_to!=to) ++itx; would run off the list *)
  | en :: r => if (fst (fst en) =? to)%nat then Some ((fst en, g (snd en)) :: r)
               else match upd_first_x r to g with Some r' => Some (en :: r') | None => None end
  end.

(* find delta (minimum on the path from k to l) *)
Fixpoint scan_delta (fuel : nat) (prev : list nat) (rb : list (list (nat * Z * Z))) (k to : nat) (delta : Z) : option Z :=
  match fuel with
  | O => None
  | S f =>
      let from := nth to prev O in
      let delta' := match find_bwd (nth from rb []) to with
                    | Some en => if snd en <? delta then snd en else delta
                    | None => delta
                    end in
      if (from =? k)%nat then Some delta' else scan_delta f prev rb k from delta'
  end.

Record mcf_state := {
  m_e : list Z; m_x : list (list (nat * Z * Z));
  m_rf : list (list (nat * Z)); m_rb : list (list (nat * Z * Z));
  m_d : list Z; m_prev : list nat }.

Fixpoint augment (fuel : nat) (prev : list nat) (k to : nat) (delta : Z)
         (e : list Z) (x : list (list (nat * Z * Z))) (rb : list (list (nat * Z * Z)))
  : option (list Z * list (list (nat * Z * Z)) * list (list (nat * Z * Z))) :=
  match fuel with
  | O => None
  | S f =>
      let from := nth to prev O in
      xf <- upd_first_x (nth from x []) to (fun fl => fl + delta) ;;
      let x' := upd x from (fun _ => xf) in
      let rb1 := upd rb to (fun l => upd_first_bwd l from (fun c => c + delta)) in
      let rb2 := upd rb1 from (fun l => upd_first_bwd l to (fun c => c - delta)) in
      let e' := upd (upd e to (fun v => v + delta)) from (fun v => v - delta) in
      if (from =? k)%nat then Some (e', x', rb2) else augment f prev k from delta e' x' rb2
  end.

Inductive mstep := MDone (st : mcf_state) | MMore (st : mcf_state) | MFail.

Definition mcf_step (st : mcf_state) : mstep :=
  let e := m_e st in
  let nv := length e in
  let '(maxSupply, k) := pick_supply e O 0 O in
  if maxSupply =? 0 then MDone st else
  match compute_shortest_path nv (m_d st) (m_prev st) k (m_rf st) (m_rb st) e with
  | None => MFail
  | Some (d, prev, rf, rb, l) =>
      if (l =? k)%nat then MFail else
      match scan_delta nv prev rb k l maxSupply with
      | None => MFail
      | Some delta =>
          match augment nv prev k l delta e (m_x st) rb with
          | None => MFail
          | Some (e', x', rb') =>
              MMore {| m_e := e'; m_x := x'; m_rf := rf; m_rb := rb'; m_d := d; m_prev := prev |}
          end
      end
  end.

Fixpoint mcf_iter (k : nat) (st : mcf_state) : mstep :=
  match k with
  | O => mcf_step st
  | S k' => match mcf_iter k' st with MMore st' => mcf_iter k' st' | r => r end
  end.

Definition mcf_init (e : list Z) (c : list (list (nat * Z))) : mcf_state :=
  let nv := length e in
  let arcs := mk_arcs c in
  {| m_e := e; m_x := x_of nv arcs;
     m_rf := map (fun l => map (fun tc => (fst tc, snd tc)) l) c;
     m_rb := map (fun v => flat_map (fun a => if (a_to a =? v)%nat then [(a_from a, - a_cost a, 0)] else []) arcs) (seq 0 nv);
     m_d := repeat 0 nv; m_prev := repeat O nv |}.

Definition min_cost_flow_ll (e : list Z) (c : list (list (nat * Z))) : option (Z * list (list (nat * Z * Z))) :=
  match mcf_iter ssp_levels (mcf_init e c) with
  | MDone st => Some (x_dist (m_x st), m_x st)
  | _ => None
  end.

(* ------------------------------------------------------------------ the companion flag *)
(* scan_delta / augment address capacities by node pairs; that is exact only for a hop whose two
   nodes are joined by exactly one arc.  The flagged run records whether any hop of any augmenting
   path joined a pair with a different number of arcs (in the graphs of emd_hat_impl.hpp: a hop
   through the artificial node) or ended at a node of label "max" (unreachable), or left a negative capacity behind. *)
Definition pair_count (rf : list (list (nat * Z))) (u v : nat) : nat :=
  (length (filter (fun en => (fst en =? v)%nat) (nth u rf [])) +
   length (filter (fun en => (fst en =? u)%nat) (nth v rf [])))%nat.
Definition hop_flag (rf : list (list (nat * Z))) (dd : list Z) (from to : nat) : bool :=
  negb (pair_count rf from to =? 1)%nat || (INTMAX <=? nz dd to).
Fixpoint walk_flag (fuel : nat) (rf : list (list (nat * Z))) (dd : list Z) (prev : list nat) (k to : nat) : bool :=
  match fuel with
  | O => true
  | S f => let from := nth to prev O in
           hop_flag rf dd from to || (if (from =? k)%nat then false else walk_flag f rf dd prev k from)
  end.
(* no backward entry carries a negative capacity *)
Definition caps_ok (rb : list (list (nat * Z * Z))) : bool :=
  forallb (fun l => forallb (fun en => 0 <=? snd en) l) rb.
Definition step_flag (st : mcf_state) : bool :=
  let e := m_e st in
  let nv := length e in
  let '(maxSupply, k) := pick_supply e O 0 O in
  if maxSupply =? 0 then false else
  match compute_shortest_path nv (m_d st) (m_prev st) k (m_rf st) (m_rb st) e with
  | None => false
  | Some (d, prev, rf, rb, l) =>
      if (l =? k)%nat then false else
      walk_flag nv rf d prev k l ||
      match scan_delta nv prev rb k l maxSupply with
      | None => false
      | Some delta =>
          match augment nv prev k l delta e (m_x st) rb with
          | None => false
          | Some (_, _, rb') => negb (caps_ok rb')
          end
      end
  end.
Fixpoint mcf_iter_f (k : nat) (st : mcf_state) (fl : bool) : mstep * bool :=
  match k with
  | O => (mcf_step st, fl || step_flag st)
  | S k' => match mcf_iter_f k' st fl with
            | (MMore st', fl') => mcf_iter_f k' st' fl'
            | r => r
            end
  end.
Definition min_cost_flow_ll_f (e : list Z) (c : list (list (nat * Z)))
  : option (Z * list (list (nat * Z * Z)) * bool) :=
  match mcf_iter_f ssp_levels (mcf_init e c) false with
  | (MDone st, fl) => Some (x_dist (m_x st), m_x st, fl)
  | _ => None
  end.

(* ------------------------------------------------------------------ emd_hat_impl on top of it *)
Definition emd_impl_ll (ft : Z) (POrig QOrig Pc Qc : list Z) (Cc : list (list Z)) (emp : Z)
           (F0 : list (list Z)) : option (Z * list (list Z)) :=
  let r := reduce Pc Qc Cc emp in
  match min_cost_flow_ll (r_bb r) (r_cc r) with
  | None => None
  | Some (mcf_dist, x) =>
      let F1 := if ft =? 0 then F0 else read_back r x F0 in
      let my_dist := r_pre r + mcf_dist + r_diff r * r_pen r in
      if ft =? 2 then
        match transform_flow_to_regular F1 POrig QOrig with
        | None => None
        | Some F2 => Some (my_dist, F2)
        end
      else Some (my_dist, F1)
  end.

Definition emd_hat_ll (ft : Z) (gd : bool) (P Q : list Z) (C : list (list Z)) (emp : Z)
  : option (Z * list (list Z)) :=
  let N := length P in
  if gd then
    let pf := preflow P Q in
    emd_impl_ll ft P Q (map (fun t => fst (fst t)) pf) (map (fun t => snd (fst t)) pf) C emp
                (diag_mat (map snd pf))
  else emd_impl_ll ft P Q P Q C emp (zmat N).

Definition emd_hat_int32_ll (p q : list Z) (c : list (list Z)) (pen : option Z) (ft : Z) (gd : bool)
  : option (Z * list (list Z)) :=
  let plen := length p in
  let qlen := length q in
  let '(vp, vq, vc) :=
    if (qlen <? plen)%nat then (p, resize plen q, map (resize plen) c)
    else if (plen <? qlen)%nat then (resize qlen p, q, c ++ repeat (zeros qlen) (qlen - plen))
    else (p, q, c) in
  let emp := match pen with Some v => v | None => -1 end in
  match emd_hat_ll ft gd vp vq vc emp with
  | None => None
  | Some (d, F) =>
      if ft =? 0 then Some (d, [])
      else Some (d, map (firstn qlen) (firstn plen F))
  end.

(* ------------------------------------------------------------------ the same with the flag threaded through *)
Definition emd_impl_llf (ft : Z) (POrig QOrig Pc Qc : list Z) (Cc : list (list Z)) (emp : Z)
           (F0 : list (list Z)) : option (Z * list (list Z) * bool) :=
  let r := reduce Pc Qc Cc emp in
  match min_cost_flow_ll_f (r_bb r) (r_cc r) with
  | None => None
  | Some (mcf_dist, x, fl) =>
      let F1 := if ft =? 0 then F0 else read_back r x F0 in
      let my_dist := r_pre r + mcf_dist + r_diff r * r_pen r in
      if ft =? 2 then
        match transform_flow_to_regular F1 POrig QOrig with
        | None => None
        | Some F2 => Some (my_dist, F2, fl)
        end
      else Some (my_dist, F1, fl)
  end.

Definition emd_hat_llf (ft : Z) (gd : bool) (P Q : list Z) (C : list (list Z)) (emp : Z)
  : option (Z * list (list Z) * bool) :=
  let N := length P in
  if gd then
    let pf := preflow P Q in
    emd_impl_llf ft P Q (map (fun t => fst (fst t)) pf) (map (fun t => snd (fst t)) pf) C emp
                (diag_mat (map snd pf))
  else emd_impl_llf ft P Q P Q C emp (zmat N).

Definition emd_hat_int32_llf (p q : list Z) (c : list (list Z)) (pen : option Z) (ft : Z) (gd : bool)
  : option (Z * list (list Z) * bool) :=
  let plen := length p in
  let qlen := length q in
  let '(vp, vq, vc) :=
    if (qlen <? plen)%nat then (p, resize plen q, map (resize plen) c)
    else if (plen <? qlen)%nat then (resize qlen p, q, c ++ repeat (zeros qlen) (qlen - plen))
    else (p, q, c) in
  let emp := match pen with Some v => v | None => -1 end in
  match emd_hat_llf ft gd vp vq vc emp with
  | None => None
  | Some (d, F, fl) =>
      if ft =? 0 then Some (d, [], fl)
      else Some (d, map (firstn qlen) (firstn plen F), fl)
  end.

(* wire: (p q c pen? flow_type gd_metric) -> (dist F) | () *)
Definition entry_emdl (x : sx) : sx :=
  let pen := match as_list (arg 3 x) with [] => None | v :: _ => Some (as_Z v) end in
  match emd_hat_int32_ll (as_Zs (arg 0 x)) (as_Zs (arg 1 x)) (as_Zss (arg 2 x)) pen
                         (as_Z (arg 4 x)) (as_bool (arg 5 x)) with
  | Some (d, F) => L [I d; of_Zss F]
  | None => L []
  end.

(* wire: (p q c pen? flow_type gd_metric) -> (dist F flag) | () *)
Definition entry_emdlf (x : sx) : sx :=
  let pen := match as_list (arg 3 x) with [] => None | v :: _ => Some (as_Z v) end in
  match emd_hat_int32_llf (as_Zs (arg 0 x)) (as_Zs (arg 1 x)) (as_Zss (arg 2 x)) pen
                          (as_Z (arg 4 x)) (as_bool (arg 5 x)) with
  | Some (d, F, fl) => L [I d; of_Zss F; of_bool fl]
  | None => L []
  end.
