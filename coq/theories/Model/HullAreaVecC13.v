(* C13 — calculate_convex_hull_areas AS WRITTEN: the ragged bookkeeping on the global arrays of one call
   (hull rows of all requested labels concatenated, counts, index_of_label, cumulative offsets, the
   compaction to the non-degenerate labels, per-row gathers through index_of_label_nd / hull_index_nd,
   within_label_index, the modulo wrap of plus_one_idx, scind.sum by label).  Over Q; definitions only.
   Inputs: the request list and, per request, the hull vertex list convex_hull returned. *)
From Coq Require Import ZArith QArith Qabs List Bool.
From Centro Require Import Base.Sx Base.VecC13 Model.Circle Model.CircleVec Model.HullAreaC13.
Import ListNotations.
Open Scope Z_scope.

Definition hrow : Type := (Z * (Z * Z))%type.          (* (label, (i, j)) *)

(* hull_nd[hull_nd[:, 1] >= within_hull_per_pixel[:, 0], 1] += 1 ; same for column 2 *)
Definition adj_pt (wy wx : Q) (p : Z * Z) : Z * Z :=
  (if Qle_bool wy (inject_Z (fst p)) then fst p + 1 else fst p,
   if Qle_bool wx (inject_Z (snd p)) then snd p + 1 else snd p).

(* triangle_areas(p1, p2, within) *)
Definition tri_area (wy wx : Q) (p1 p2 : Z * Z) : Q :=
  let v1y := inject_Z (fst p2 - fst p1) in
  let v1x := inject_Z (snd p2 - snd p1) in
  let v2y := (wy - inject_Z (fst p1))%Q in
  let v2x := (wx - inject_Z (snd p1))%Q in
  (Qabs (v1x * v2y - v2x * v1y) / 2)%Q.

Definition qsum_list (l : list Q) : Q := fold_left Qplus l 0%Q.

Definition row_at (rows : list hrow) (g : nat) : hrow := nth g rows (0, (0, 0)).
Definition row_i (rows : list hrow) (g : nat) : Z := fst (snd (row_at rows g)).
Definition row_j (rows : list hrow) (g : nat) : Z := snd (snd (row_at rows g)).

(* scind.sum(values, hull_nd[:, 0], indexes_nd): library call modelled by its specification - per requested
   label the sum, in row order, over the rows carrying that label *)
Definition sum_by_label (rows : list hrow) (f : nat -> Q) (l : Z) : Q :=
  qsum_list (map f (filter (fun g => fst (row_at rows g) =? l) (seq 0 (length rows)))).

(* the same for the integer coordinate columns (the code sums them as floats; the sums are integers) *)
Definition sumz_by_label (rows : list hrow) (f : nat -> Z) (l : Z) : Z :=
  fold_left Z.add (map f (filter (fun g => fst (row_at rows g) =? l) (seq 0 (length rows)))) 0.

(* the non-degenerate stage on the compacted arrays; tsize = hull[:, 0].max() + 1 *)
Definition areas_nd (tsize : Z) (idx_nd : list Z) (blk_nd : list (list (Z * Z))) : list Q :=
  let rows := hull_rows idx_nd blk_nd in                            (* hull_nd *)
  let counts := map zlenv blk_nd in                                 (* counts_nd *)
  let tbl := anti_table tsize idx_nd in                             (* index_of_label_nd *)
  let offs := offsets counts in                                     (* hull_index_nd *)
  let lab := fun g : nat => fst (row_at rows g) in
  let kk := fun g : nat => nthz tbl (lab g) 0 in                    (* index_of_label_per_pixel_nd *)
  let hidx := fun g : nat => nthz offs (kk g) 0 in                  (* hull_index_per_pixel_nd *)
  let within := fun g : nat => Z.of_nat g - hidx g in               (* within_label_index *)
  let wy_l := map (fun lc => (inject_Z (sumz_by_label rows (row_i rows) (fst lc)) / inject_Z (snd lc))%Q) (combine idx_nd counts) in
  let wx_l := map (fun lc => (inject_Z (sumz_by_label rows (row_j rows) (fst lc)) / inject_Z (snd lc))%Q) (combine idx_nd counts) in
  let wy := fun g : nat => nthz wy_l (kk g) 0%Q in                  (* within_hull_per_pixel *)
  let wx := fun g : nat => nthz wx_l (kk g) 0%Q in
  let adj := map (fun g => adj_pt (wy g) (wx g) (snd (row_at rows g))) (seq 0 (length rows)) in
  let plus_one := fun g : nat =>                                    (* plus_one_idx with modulo_mask *)
    if within g + 1 =? nthz counts (kk g) 0 then hidx g else Z.of_nat g + 1 in
  let area := fun g : nat =>
    tri_area (wy g) (wx g) (nth g adj (0, 0)) (nthz adj (plus_one g) (0, 0)) in
  map (fun l => Qred (sum_by_label rows area l)) idx_nd.

(* the whole function: per requested label (kind, value) as in HullAreaC13.hull_area_obj;
   None = IndexError of index_of_label[indexes] = ... (cannot happen: the tables cover max(indexes)) *)
Fixpoint place (counts : list Z) (blocks : list (list (Z * Z))) (nd : list Q) : list (Z * Q) :=
  match counts, blocks with
  | c :: cs, b :: bs =>
      if 3 <=? c then
        match nd with
        | a :: nd' => (0, a) :: place cs bs nd'                      (* result[counts >= 3] = ..., in order *)
        | [] => (0, 0%Q) :: place cs bs []
        end
      else
        (match b with
         | [p; q] => (2, inject_Z ((fst p - fst q) * (fst p - fst q) + (snd p - snd q) * (snd p - snd q)))
         | [_] => (0, 1%Q)
         | _ => (0, 0%Q)
         end) :: place cs bs nd
  | _, _ => []
  end.

(* the size of index_of_label / counts_per_label: max(hull[:, 0].max(), indexes.max()) + 1 (round 6: the tables
   cover the request list, so that a requested label above every label with a hull row is just a label without points) *)
Definition tsize_of (indexes : list Z) (blocks : list (list (Z * Z))) : Z :=
  Z.max (maxl (map fst (hull_rows indexes blocks))) (maxl indexes) + 1.

Definition hull_areas_vec (indexes : list Z) (blocks : list (list (Z * Z))) : option (list (Z * Q)) :=
  let counts := map zlenv blocks in
  let tsize := tsize_of indexes blocks in
  if existsb (fun l => tsize <=? l) indexes then None else      (* never: see hull_areas_vec_defined *)
  let nd := filter (fun lb => 3 <=? zlenv (snd lb)) (combine indexes blocks) in
  (* hull_nd = hull[counts_per_label[hull[:, 0]] >= 3] is the concatenation of the non-degenerate blocks
     (HullAreaVecC13Proofs.compaction); counts_nd = counts[counts >= 3]; indexes_nd = indexes[counts >= 3] *)
  Some (place counts blocks (areas_nd tsize (map fst nd) (map snd nd))).

(* the compaction step itself, as written, for the correspondence of the two forms of hull_nd *)
Definition hull_nd_as_written (indexes : list Z) (blocks : list (list (Z * Z))) : list hrow :=
  let rows := hull_rows indexes blocks in
  let tsize := tsize_of indexes blocks in
  let cpl := scatter (combine indexes (map zlenv blocks)) (repeat 0 (Z.to_nat tsize)) in   (* counts_per_label *)
  filter (fun r => 3 <=? nthz cpl (fst r) 0) rows.

(* ((indexes) (blocks)) -> () on IndexError | ((kind num den) ...) *)
Definition entry_hull_areas_vec (x : sx) : sx :=
  match hull_areas_vec (as_Zs (arg 0 x)) (map as_pairs (as_list (arg 1 x))) with
  | None => L []
  | Some r => L [L (map (fun kv => L [I (fst kv); I (Qnum (snd kv)); I (Zpos (Qden (snd kv)))]) r)]
  end.
