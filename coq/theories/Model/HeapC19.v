(* C19 — pointer-level, bounds-checked model of heap.pxd (the priority queue of _propagate.pyx).
   heap.data is a flat buffer of space*width int32; heap.ptrs[k] is a POINTER into it, modelled as
   the slot number s with  ptrs[k] = data + s*width.  Every dereference goes through the checked
   accessors: ptrs[k] needs 0 <= k < |ptrs|, ptrs[k][c] needs 0 <= s*width + c < |data|.
   Growth (heappush, items == space): space doubles, both blocks are realloc'ed (old contents
   kept, tail undefined = 0 here), the first `items` pointers are rebased (same slot), the rest
   are set to their own slot.  [allocs] counts live malloc blocks (malloc +1, free -1, realloc 0).
   [smaller] reads both complete rows (the C code stops at the first differing column: a subset of
   these reads).  Definitions only. *)
From Coq Require Import ZArith List Bool.
From Centro Require Import Base.ArrC19.
Import ListNotations.
Open Scope Z_scope.

Record heap : Type := mkheap {
  items : Z; space : Z; width : Z; ptrs : list Z; data : list Z; allocs : Z }.

Definition set_ptrs (h : heap) (p : list Z) : heap :=
  mkheap (items h) (space h) (width h) p (data h) (allocs h).
Definition set_items (h : heap) (n : Z) : heap :=
  mkheap n (space h) (width h) (ptrs h) (data h) (allocs h).

Fixpoint mapM {A B} (f : A -> option B) (l : list A) : option (list B) :=
  match l with
  | [] => Some []
  | a :: t => do b <- f a; do r <- mapM f t; Some (b :: r)
  end.

(* heap_from_numpy2: malloc(Heap) + malloc(data) + malloc(ptrs); space = max(items, 1000);
   flat = np_heap.astype(int32).flatten() of n*w entries *)
Definition heap_from_numpy2 (n w : Z) (flat : list Z) : heap :=
  let sp := Z.max n 1000 in
  mkheap n sp w (zrange 0 sp) (flat ++ repeat 0 (Z.to_nat (sp * w - n * w))) 3.

(* heap_done: three frees *)
Definition heap_done (h : heap) : Z := allocs h - 3.

Definition rdrow (h : heap) (slot : Z) : option (list Z) :=
  mapM (fun c => rd (data h) (slot * width h + c)) (zrange 0 (width h)).

Fixpoint lexlt (a b : list Z) : bool :=
  match a, b with
  | x :: a', y :: b' => if x =? y then lexlt a' b' else x <? y
  | _, _ => false
  end.

Definition smaller (a b : Z) (h : heap) : option bool :=
  do pa <- rd (ptrs h) a; do pb <- rd (ptrs h) b;
  do ra <- rdrow h pa; do rb <- rdrow h pb; Some (lexlt ra rb).

Definition swap (a b : Z) (h : heap) : option heap :=
  do pa <- rd (ptrs h) a; do pb <- rd (ptrs h) b;
  do p1 <- wr (ptrs h) a pb; do p2 <- wr p1 b pa; Some (set_ptrs h p2).

(* the `while True` of heappop; fuel = iterations (out of fuel: stop, state still well formed) *)
Fixpoint sift_down (fuel : nat) (i : Z) (h : heap) : option heap :=
  match fuel with
  | O => Some h
  | S f =>
      let l := i * 2 + 1 in
      let r := i * 2 + 2 in
      if l <? items h then
        do sl <- smaller l i h;
        let sm := if sl then l else i in
        do sm2 <- (if r <? items h then do sr <- smaller r sm h; Some (if sr then r else sm) else Some sm);
        if sm2 =? i then Some h
        else do h' <- swap i sm2 h; sift_down f sm2 h'
      else Some h
  end.

(* heappop(heap, dest): dest has [destlen] entries; precondition of the caller: items > 0 *)
Definition heappop (fuel : nat) (destlen : Z) (h : heap) : option (list Z * heap) :=
  do p0 <- rd (ptrs h) 0;
  do row <- rdrow h p0;
  if destlen <? width h then None else                       (* dest[k] = ..., k < width *)
  let h1 := set_items h (items h - 1) in
  if items h1 =? 0 then Some (row, h1)
  else do h2 <- swap 0 (items h1) h1;
       do h3 <- sift_down fuel 0 h2; Some (row, h3).

Fixpoint sift_up (fuel : nat) (child : Z) (h : heap) : option heap :=
  match fuel with
  | O => Some h
  | S f =>
      if 0 <? child then
        let parent := (child + 1) / 2 - 1 in
        do s <- smaller child parent h;
        if s then do h' <- swap parent child h; sift_up f parent h' else Some h
      else Some h
  end.

Definition grow (h : heap) : heap :=
  let sp := space h * 2 in
  mkheap (items h) sp (width h)
         (firstn (Z.to_nat (items h)) (ptrs h) ++ zrange (items h) sp)
         (data h ++ repeat 0 (Z.to_nat ((sp - space h) * width h)))
         (allocs h).

Definition heappush (fuel : nat) (h : heap) (new_elem : list Z) : option heap :=
  let child := items h in
  let h1 := if items h =? space h then grow h else h in
  do pc <- rd (ptrs h1) child;                                (* heap.ptrs[child] *)
  do d2 <- foldM (fun d c => do v <- rd new_elem c; wr d (pc * width h1 + c) v)
                 (zrange 0 (width h1)) (data h1);             (* ...[k] = new_elem[k] *)
  let h2 := mkheap (items h1 + 1) (space h1) (width h1) (ptrs h1) d2 (allocs h1) in
  sift_up fuel child h2.

(* what propagate does with the queue: pops while items > 0, pushes 5-column rows *)
Inductive op : Type := Push (row : list Z) | Pop.
Fixpoint run_ops (fuel : nat) (ops : list op) (h : heap) : option heap :=
  match ops with
  | [] => Some h
  | Push r :: t => do h' <- heappush fuel h r; run_ops fuel t h'
  | Pop :: t => if 0 <? items h then do rh <- heappop fuel 5 h; run_ops fuel t (snd rh)
                else run_ops fuel t h                         (* `while hp.items > 0` *)
  end.

(* pq has n rows of w columns; elem / new_elem have 5 entries *)
Definition kernel_pre_heap (n w flatlen : Z) : bool :=
  (0 <=? n) && (0 <=? w) && (w <=? 5) && (flatlen =? n * w).

(* the whole call propagate(image, pq, mask, labels, distances, weight): pq is n x 5, the pixel
   coordinates in columns 3,4 of every initial row lie inside the m x nn image, and image / mask /
   labels / distances all have that shape (rows pushed later carry coordinates that passed the
   kernel's own `i2 < 0 or i2 >= m or ...` test) *)
Definition kernel_pre_propagate (n w flatlen m nn : Z) (ci cj : list Z) (shapes : list (Z * Z)) : bool :=
  kernel_pre_heap n w flatlen && (w =? 5) && (zlen ci =? n) && (zlen cj =? n) &&
  forallb (fun i => inb i m) ci && forallb (fun j => inb j nn) cj &&
  forallb (fun s => (fst s =? m) && (snd s =? nn)) shapes.
