(* C11 — get_maximum_correlation_threshold over exact INTEGER arithmetic (data = dyadic intensities scaled to
   integers).  Phases as in the code: min / max; binning ((x - min) * (bins-1) / (max-min)).astype(int);
   mean bin; for every level i the tail count n_i = #(bin >= i) and the tail sum of deviations
   numerator_i = sum_{bin >= i} (bin - mean) (the code gets both from the histogram by cumulative sums: in exact
   arithmetic the same numbers); mct_i = numerator_i / sqrt(sndiff2 (nm - n_i) n_i / nm), 0 where the denominator
   vanishes; first arg-max; my_bin = argmax - 1; threshold = min + my_bin (max - min) / (bins - 1).
   Everything is scaled by nm so that it stays in Z:  D x = x nm - S1 (= nm (x - mean)),  N_i = sum D,
   SS = sum D^2, and the squared score is the fraction N_i^2 nm / (SS (nm - n_i) n_i), compared by
   cross-multiplication (numerators are >= 0, so comparing squares is comparing the scores).  Definitions only. *)
From Coq Require Import ZArith QArith List Bool.
From Centro Require Import Base.Sx Base.ThresholdNum Model.OtsuQ Model.RidlerQ.
Import ListNotations.
Open Scope Z_scope.

Definition zmin_l (d : Z) (l : list Z) : Z := fold_left Z.min l d.
Definition zmax_l (d : Z) (l : list Z) : Z := fold_left Z.max l d.
Definition zsum (l : list Z) : Z := fold_right Z.add 0 l.
Definition mbin (mn mx bins x : Z) : Z := (x - mn) * (bins - 1) / (mx - mn).
Definition dev (nm S1 x : Z) : Z := x * nm - S1.
Definition tail (i : Z) (binned : list Z) : list Z := filter (fun x => i <=? x) binned.
Definition tailC (binned : list Z) (i : Z) : Z := Z.of_nat (length (tail i binned)).
Definition tailN (nm S1 : Z) (binned : list Z) (i : Z) : Z := zsum (map (dev nm S1) (tail i binned)).
Definition sumsq (nm S1 : Z) (binned : list Z) : Z := zsum (map (fun x => dev nm S1 x * dev nm S1 x) binned).
(* squared score as a fraction (numerator, denominator > 0) *)
Definition score (nm S1 SS : Z) (binned : list Z) (i : Z) : Z * Z :=
  let c := tailC binned i in
  let den := SS * (nm - c) * c in
  if den =? 0 then (0, 1) else (tailN nm S1 binned i * tailN nm S1 binned i * nm, den).
Definition score_lt (a b : Z * Z) : bool := fst a * snd b <? fst b * snd a.
(* np.argmax: first position of the maximum *)
Fixpoint argmax_first (best : Z * Z) (bi i : nat) (l : list (Z * Z)) : nat :=
  match l with
  | [] => bi
  | x :: r => if score_lt best x then argmax_first x i (S i) r else argmax_first best bi (S i) r
  end.
Definition mct_rows (mn mx bins : Z) (data : list Z) : list (Z * Z) :=
  let binned := map (mbin mn mx bins) data in
  let nb := zmax_l 0 binned + 1 in
  let nm := Z.of_nat (length data) in
  let S1 := zsum binned in
  map (score nm S1 (sumsq nm S1 binned) binned) (zseq 0 (Z.to_nat nb)).
Definition mct_argmax (mn mx bins : Z) (data : list Z) : nat :=
  match mct_rows mn mx bins data with
  | [] => O
  | s0 :: r => argmax_first s0 0 1 r
  end.
(* the threshold for non-constant data (the code returns min for constant data, 0 for empty data) *)
Definition mct_threshold (data : list Z) (bins : Z) : Q :=
  match data with
  | [] => Qmake 0 1
  | x0 :: _ =>
      let mn := zmin_l x0 data in let mx := zmax_l x0 data in
      if mn =? mx then inject_Z mn
      else mct_value (inject_Z mn) (inject_Z mx) bins (Z.of_nat (mct_argmax mn mx bins data) - 1)
  end.

(* arg: (data bins) -> (threshold best second?): [second] = the best score among the positions whose tail
   differs from the arg-max's tail (positions with the same tail — runs of empty bins — hold the very same
   floating-point value in the code, so that tie is broken identically, by the first index) *)
Definition of_frac (s : Z * Z) : sx := of_Q (Qred (Qmake (fst s) (Z.to_pos (snd s)))).
Definition entry_mct (x : sx) : sx :=
  let data := as_Zs (arg 0 x) in
  let bins := as_Z (arg 1 x) in
  match data with
  | [] => L []
  | x0 :: _ =>
      let mn := zmin_l x0 data in let mx := zmax_l x0 data in
      if mn =? mx then L [of_Q (inject_Z mn)] else
      let rows := mct_rows mn mx bins data in
      let binned := map (mbin mn mx bins) data in
      let k := mct_argmax mn mx bins data in
      let ck := tailC binned (Z.of_nat k) in
      let others := map snd (filter (fun p : Z * (Z * Z) => negb (tailC binned (fst p) =? ck))
                                    (combine (zseq 0 (length rows)) rows)) in
      L [of_Q (Qred (mct_threshold data bins)); of_frac (nth k rows (0, 1));
         match others with
         | [] => L []
         | o0 :: r => L [of_frac (nth (argmax_first o0 0 1 r) others (0, 1))]
         end]
  end.
