(* C14 — executable model of cpmorphology.feret_diameter for ONE object, on the list of its
   convex-hull vertices in storage order: the antipodal-pair sweep as written (initial antipode =
   first vertex among 1..n-2 with the largest distance to the line p_m p_1; advance the antipode
   when dc <= dn, otherwise the vertex; stop when the antipode index reaches n or meets the
   vertex), the maximum over the recorded pairs, and the minimum construction (symmetric closure
   of the pair list, the duplicate with index `count` for vertex 0, "second antipode is one less
   than its successor") which selects, for a vertex v having both a and a+1 (mod n) as antipodes,
   the distance from v to the line through hull points a and a+1.
   distance2_to_line = cross^2 / |l1 - l0|^2 is kept as an exact rational; inside the sweep both
   distances share the denominator, so the code's float comparison dc <= dn is the comparison of
   the integer numerators.  Modelled, not verified: float division and sqrt.  Definitions only. *)
From Coq Require Import ZArith List Bool.
From Centro Require Import Base.Sx.
Import ListNotations.
Open Scope Z_scope.

Definition fpt : Type := (Z * Z)%type.

Definition fdist2 (a b : fpt) : Z :=
  (fst a - fst b) * (fst a - fst b) + (snd a - snd b) * (snd a - snd b).
(* the numerator of distance2_to_line(pt, l0, l1), exactly as the code writes the cross product *)
Definition fcross (pt l0 l1 : fpt) : Z :=
  (fst l0 - fst l1) * (snd l0 - snd pt) - (fst l0 - fst pt) * (snd l0 - snd l1).
Definition cross2 (pt l0 l1 : fpt) : Z := fcross pt l0 l1 * fcross pt l0 l1.

Definition pnth (k : nat) (h : list fpt) : fpt := nth k h (0, 0).

(* first index (1-based vertex number idx+1) of the largest value *)
Fixpoint first_argmax (vs : list fpt) (pm p1 : fpt) (k : nat) (best : option (nat * Z)) : option (nat * Z) :=
  match vs with
  | [] => best
  | v :: t =>
      let c := cross2 v pm p1 in
      let best' := match best with
                   | None => Some (k, c)
                   | Some (_, bc) => if bc <? c then Some (k, c) else best
                   end in
      first_argmax t pm p1 (S k) best'
  end.

Fixpoint sweep_loop (fuel : nat) (h : list fpt) (n v a : nat) (acc : list (nat * nat))
  : option (list (nat * nat)) :=
  match fuel with
  | O => None
  | S f =>
      let acc' := (v, a) :: acc in
      let pv := pnth v h in
      let pv1 := pnth (S v) h in
      let dc := cross2 (pnth a h) pv pv1 in
      let nx := if (S a =? n)%nat then O else S a in
      let dn := cross2 (pnth nx h) pv pv1 in
      let adv := dc <=? dn in
      let v' := if adv then v else S v in
      let a' := if adv then S a else a in
      if (a' <? n)%nat && negb (v' =? a')%nat then sweep_loop f h n v' a' acc' else Some (rev acc')
  end.

(* the (vertex, antipode) index pairs recorded by the code for one object *)
Definition antipodal_pairs (h : list fpt) : option (list (nat * nat)) :=
  let n := length h in
  match n with
  | O => Some []
  | 1%nat => Some [(O, O)]
  | 2%nat => Some [(O, 1%nat)]
  | _ =>
      match first_argmax (firstn (n - 2) (skipn 1 h)) (pnth (n - 1) h) (pnth 0 h) 1 None with
      | None => None
      | Some (a, _) => sweep_loop (2 * n + 4) h n 0 a []
      end
  end.

Definition max_pair_d2 (h : list fpt) (ps : list (nat * nat)) : Z :=
  fold_left (fun m p => Z.max m (fdist2 (pnth (fst p) h) (pnth (snd p) h))) ps 0.

Definition pair_mem (p : nat * nat) (ps : list (nat * nat)) : bool :=
  existsb (fun q => (fst p =? fst q)%nat && (snd p =? snd q)%nat) ps.

(* rationals as (numerator, denominator > 0); "no value yet" = None *)
Definition qmin (best : option (Z * Z)) (n d : Z) : option (Z * Z) :=
  match best with
  | None => Some (n, d)
  | Some (bn, bd) => if n * bd <? bn * d then Some (n, d) else best
  end.

Definition min_candidates (h : list fpt) (ps : list (nat * nat)) : option (Z * Z) :=
  let n := length h in
  let nondeg := filter (fun p => negb (fst p =? snd p)%nat) ps in
  let sym := nondeg ++ map (fun p => (snd p, fst p)) nondeg in
  fold_left
    (fun best p =>
       let v := fst p in
       let a := snd p in
       let a1 := if (S a =? n)%nat then O else S a in
       if pair_mem (v, a1) sym
       then qmin best (cross2 (pnth v h) (pnth a h) (pnth a1 h)) (fdist2 (pnth a h) (pnth a1 h))
       else best)
    sym None.

(* (max squared Feret diameter, min squared Feret diameter as num/den); None = out of fuel *)
Definition sweep (h : list fpt) : option (Z * (Z * Z)) :=
  match antipodal_pairs h with
  | None => None
  | Some ps =>
      Some (max_pair_d2 h ps,
            match min_candidates h ps with Some q => q | None => (0, 1) end)
  end.

Definition entry_sweep (x : sx) : sx :=
  match sweep (as_pairs x) with
  | None => L []
  | Some (m, (n, d)) => L [I m; I n; I d]
  end.
Definition entry_sweep_many (x : sx) : sx := L (map entry_sweep (as_list x)).
