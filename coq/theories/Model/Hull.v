(* C02 — executable model of centrosome/_convex_hull.pyx (CONVEX, convex_hull_ijv) as written,
   and of cpmorphology.convex_hull (outline pre-filter, argwhere, then the kernel).
   Definitions only; proofs are in Proofs/Hull*.v.

   Phases mirrored: lexsort by (v, j, i); argsort of the request list; the walk over the sorted
   requests with pixidx / outidx; per label the column envelopes lower / upper with their
   sentinels (max_i + 1 and -1), need_last_upper_point, the three EMIT loops with CONVEX and its
   U-turn rule, the guard [pixidx > outidx + num_emitted] of the upper pass (the output is
   written into the sorted input buffer: the guard compares against the position where the
   label's own input ends, i.e. against [slack + number of pixels] with
   slack = start_idx - outidx left by earlier labels), final prune; reorder through
   argsort(argsort(indexes)). *)
From Coq Require Import ZArith List Bool.
From Centro Require Import Base.Sx.
Import ListNotations.
Open Scope Z_scope.

Definition pt : Type := (Z * Z)%type.          (* (i, j) *)

(* cross = ab_j * bc_i - bc_j * ab_i *)
Definition cross (a b c : pt) : Z :=
  (snd b - snd a) * (fst c - fst b) - (snd c - snd b) * (fst b - fst a).

(* cdef inline int CONVEX(a, b, c) *)
Definition CONVEX (a b c : pt) : bool :=
  let cr := cross a b c in
  if 0 <? cr then true
  else if cr <? 0 then false
  else (snd a <? snd b) && (snd c <? snd b).

(* the while loop of the EMIT macro on the output stack (top first): pop while the two top
   entries and the new point are not CONVEX *)
Fixpoint prune (st : list pt) (p : pt) : list pt :=
  match st with
  | b :: ((a :: _) as rest) => if CONVEX a b p then st else prune rest p
  | _ => st
  end.

(* per-column envelope arrays, initialised to their sentinel *)
Definition env : Type := Z -> Z.
Definition upd (e : env) (j v : Z) : env := fun k => if k =? j then v else e k.
(* if upper[cur_pix_j] < cur_pix_i: upper[cur_pix_j] = cur_pix_i *)
Definition upper_step (e : env) (p : pt) : env :=
  if e (snd p) <? fst p then upd e (snd p) (fst p) else e.
(* if lower[cur_pix_j] > cur_pix_i: lower[cur_pix_j] = cur_pix_i *)
Definition lower_step (e : env) (p : pt) : env :=
  if fst p <? e (snd p) then upd e (snd p) (fst p) else e.
Definition build_upper (pts : list pt) : env := fold_left upper_step pts (fun _ => -1).
Definition build_lower (max_i : Z) (pts : list pt) : env :=
  fold_left lower_step pts (fun _ => max_i + 1).

(* range(s, e + 1) *)
Definition cols_up (s e : Z) : list Z :=
  map (fun k => s + Z.of_nat k) (seq 0 (Z.to_nat (e - s + 1))).

Definition zlen {A} (l : list A) : Z := Z.of_nat (length l).

(* first EMIT loop: for envelope_j in range(start_j, end_j + 1) *)
Definition lower_emit (max_i : Z) (lower : env) (st : list pt) (j : Z) : list pt :=
  if lower j <? max_i + 1 then (lower j, j) :: prune st (lower j, j) else st.
(* second EMIT loop: for envelope_j in range(end_j, start_j, -1), with the buffer guard *)
Definition upper_emit (upper : env) (cap : Z) (st : list pt) (j : Z) : list pt :=
  if -1 <? upper j then
    let st' := prune st (upper j, j) in
    if zlen st' <? cap then (upper j, j) :: st' else st'
  else st.

(* One label.  [pts] = the label's pixels in buffer order (sorted by (j, i)), [slack] =
   start_idx - outidx >= 0.  Result = the rows written at outidx .. outidx + num_emitted - 1. *)
Definition hull_label (max_i : Z) (pts : list pt) (slack : Z) : list pt :=
  match pts with
  | [] => []
  | p0 :: _ =>
      let nv := zlen pts in
      let start_j := snd p0 in
      let end_j := snd (last pts p0) in
      let lower := build_lower max_i pts in
      let upper := build_upper pts in
      let cap := slack + nv in                       (* pixidx - outidx *)
      let need_last := negb (lower start_j =? upper start_j) in
      let st1 := fold_left (lower_emit max_i lower) (cols_up start_j end_j) [] in
      let st2 := fold_left (upper_emit upper cap) (rev (cols_up (start_j + 1) end_j)) st1 in
      let st3 := prune st2 (upper start_j, start_j) in
      rev (if need_last then (upper start_j, start_j) :: st3 else st3)
  end.

(* ------------------------------------------------------------------ the batch function *)

Definition row : Type := (Z * Z * Z)%type.     (* (i, j, v) *)
Definition r_i (r : row) : Z := fst (fst r).
Definition r_j (r : row) : Z := snd (fst r).
Definition r_v (r : row) : Z := snd r.
Definition r_pt (r : row) : pt := (r_i r, r_j r).

(* np.lexsort(ijv.T): last key first, i.e. by v, then j, then i.  Rows with equal keys are
   identical, so stability is immaterial. *)
Definition row_leb (a b : row) : bool :=
  if r_v a <? r_v b then true else if r_v b <? r_v a then false
  else if r_j a <? r_j b then true else if r_j b <? r_j a then false
  else r_i a <=? r_i b.
Fixpoint insert_row (r : row) (l : list row) : list row :=
  match l with
  | [] => [r]
  | x :: t => if row_leb r x then r :: l else x :: insert_row r t
  end.
Definition lexsort (l : list row) : list row := fold_right insert_row [] l.

(* np.argsort of a list of integers: positions ordered by value (stable insertion) *)
Fixpoint insert_key (kv : Z * nat) (l : list (Z * nat)) : list (Z * nat) :=
  match l with
  | [] => [kv]
  | x :: t => if fst kv <=? fst x then kv :: l else x :: insert_key kv t
  end.
Definition argsort (xs : list Z) : list nat :=
  map snd (fold_right insert_key [] (combine xs (seq 0 (length xs)))).

(* while labels_ijv[pixidx, 2] < cur_label: pixidx += 1 (stopping at the end of the buffer) *)
Fixpoint skip_lt (l : Z) (rest : list row) : list row :=
  match rest with
  | [] => []
  | r :: t => if r_v r <? l then skip_lt l t else rest
  end.
(* while pixidx < n and cur_label == labels_ijv[pixidx, 2]: pixidx += 1 *)
Fixpoint span_eq (l : Z) (rest : list row) : list row * list row :=
  match rest with
  | [] => ([], [])
  | r :: t => if r_v r =? l then let (a, b) := span_eq l t in (r :: a, b) else ([], rest)
  end.

(* The loop over cur_req.  [rest] = labels_ijv[pixidx:]; the result holds, per sorted request,
   (hull_offsets[cur_req], rows written, overflow flag).  The flag says that the label's output
   ran past its own input (outidx + num_emitted > pixidx), where the real code would overwrite
   the next label's first pixel or the end of the buffer; the correspondence and a finite sweep
   show it never happens. *)
Fixpoint walk (max_i max_label : Z) (reqs : list Z) (rest : list row) (pixidx outidx : Z)
  : list (Z * list pt * bool) :=
  match reqs with
  | [] => []
  | l :: reqs' =>
      let rest1 := if l <=? max_label then skip_lt l rest else rest in
      let pixidx1 := pixidx + (zlen rest - zlen rest1) in
      match rest1 with
      | [] => (outidx, [], false) :: walk max_i max_label reqs' rest1 pixidx1 outidx
      | r :: _ =>
          if negb (l =? r_v r) then (outidx, [], false) :: walk max_i max_label reqs' rest1 pixidx1 outidx
          else
            let (blk, rest2) := span_eq l rest1 in
            let nv := zlen blk in
            let h := hull_label max_i (map r_pt blk) (pixidx1 - outidx) in
            (outidx, h, (pixidx1 + nv - outidx) <? zlen h)
              :: walk max_i max_label reqs' rest2 (pixidx1 + nv) (outidx + zlen h)
      end
  end.

Definition zmax_list (l : list Z) : Z := fold_left Z.max l 0.

Definition nth_block (blocks : list (Z * list pt * bool)) (k : nat) : list pt :=
  snd (fst (nth k blocks (0, [], false))).

(* convex_hull_ijv(ijv, indexes): (per requested position: label and hull rows, overflow) *)
Definition convex_hull_ijv (ijv : list row) (indexes : list Z) : list (Z * list pt) * bool :=
  let sorted := lexsort ijv in
  let max_i := zmax_list (map r_i sorted) in
  let max_label := zmax_list (map r_v sorted) in
  let reorder := argsort indexes in
  let reqs := map (fun k => nth k indexes 0) reorder in
  let blocks := walk max_i max_label reqs sorted 0 0 in
  let unreorder := argsort (map Z.of_nat reorder) in
  (map (fun rk => (fst rk, nth_block blocks (snd rk))) (combine indexes unreorder),
   existsb (fun b => snd b) blocks).

(* ------------------------------------------------------------------ cpmorphology.convex_hull *)

Definition img : Type := list (list Z).
Definition pix (im : img) (i j : Z) : option Z :=
  if (i <? 0) || (j <? 0) then None
  else match nth_error im (Z.to_nat i) with
       | Some r => nth_error r (Z.to_nat j)
       | None => None
       end.
(* outline.outline: a pixel is kept when one of its 8 neighbours differs or it lies on the
   image border (a neighbour outside the image) *)
Definition nbr8 : list (Z * Z) :=
  [(-1, -1); (-1, 0); (-1, 1); (0, -1); (0, 1); (1, -1); (1, 0); (1, 1)].
Definition is_outline (im : img) (i j v : Z) : bool :=
  existsb (fun d => match pix im (i + fst d) (j + snd d) with
                    | Some w => negb (w =? v)
                    | None => true
                    end) nbr8.
Definition enum_rows (im : img) : list (Z * list (Z * Z)) :=
  map (fun ir => (Z.of_nat (fst ir),
                  combine (map Z.of_nat (seq 0 (length (snd ir)))) (snd ir)))
      (combine (seq 0 (length im)) im).
(* np.argwhere(outline(labels) > 0) with the label of each point, row-major *)
Definition outline_ijv (im : img) : list row :=
  flat_map (fun ir => flat_map (fun jv =>
      if (0 <? snd jv) && is_outline im (fst ir) (fst jv) (snd jv)
      then [((fst ir, fst jv), snd jv)] else []) (snd ir)) (enum_rows im).
(* every pixel with a positive label (the point sets the property speaks about) *)
Definition all_ijv (im : img) : list row :=
  flat_map (fun ir => flat_map (fun jv =>
      if 0 <? snd jv then [((fst ir, fst jv), snd jv)] else []) (snd ir)) (enum_rows im).

Inductive hull_result : Type :=
| HEmpty2                                    (* len(indexes) == 0: (0,2) array, no counts *)
| HBlank (n : nat)                           (* no outline pixel: (0,3) array, n zero counts *)
| HRows (r : list (Z * list pt) * bool).
Definition convex_hull (im : img) (indexes : list Z) : hull_result :=
  match indexes with
  | [] => HEmpty2
  | _ => match outline_ijv im with
         | [] => HBlank (length indexes)
         | ijv => HRows (convex_hull_ijv ijv indexes)
         end
  end.

(* ------------------------------------------------------------------ wire format *)

Definition as_row (x : sx) : row := ((as_Z (arg 0 x), as_Z (arg 1 x)), as_Z (arg 2 x)).
Definition as_rows (x : sx) : list row := map as_row (as_list x).
Definition of_blocks (r : list (Z * list pt) * bool) : sx :=
  L [ L (flat_map (fun b => map (fun p => L [I (fst b); I (fst p); I (snd p)]) (snd b)) (fst r));
      of_Zs (map (fun b => zlen (snd b)) (fst r));
      of_bool (snd r); I 3 ].

(* [ijv rows, indexes] -> [rows (label,i,j), counts, overflow, 3]; an empty ijv is rejected
   (labels_ijv.max(axis=0) raises): I (-1) *)
Definition entry_hull_ijv (x : sx) : sx :=
  match as_rows (arg 0 x) with
  | [] => I (-1)
  | ijv => of_blocks (convex_hull_ijv ijv (as_Zs (arg 1 x)))
  end.

(* [labels image, indexes] -> same shape; last component = number of columns of the array *)
Definition entry_hull_labels (x : sx) : sx :=
  match convex_hull (as_Zss (arg 0 x)) (as_Zs (arg 1 x)) with
  | HEmpty2 => L [L []; L []; I 0; I 2]
  | HBlank n => L [L []; of_Zs (repeat 0 n); I 0; I 3]
  | HRows r => of_blocks r
  end.

(* one label alone: [points sorted by (j,i), slack, max_i] -> vertices *)
Definition entry_hull_label (x : sx) : sx :=
  of_pairs (hull_label (as_Z (arg 2 x)) (as_pairs (arg 0 x)) (as_Z (arg 1 x))).
