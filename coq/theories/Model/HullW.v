(* C02 — the kernel AS WRITTEN in C int arithmetic (finding F22).  _convex_hull.pyx declares every
   coordinate and the cross product of CONVEX as C [int]; the binary is built with -fwrapv, so
   [cross = ab_j * bc_i - bc_j * ab_i] is the exact value reduced to the signed 32-bit range (each
   product and the difference are arithmetic mod 2^32; the differences ab_i .. bc_j of two
   non-negative int32 values do not wrap).  The sentinel [max_i + 1] is a C int expression too.
   The model below is Model/Hull.v with the turn test (and the sentinel) as parameters; instantiated
   with the wrapped test it is the correspondence model, with the exact test it is Model/Hull.v. *)
From Coq Require Import ZArith List Bool.
From Centro Require Import Base.Sx Model.Hull.
Import ListNotations.
Open Scope Z_scope.

Definition wrap32 (z : Z) : Z := (z + 2147483648) mod 4294967296 - 2147483648.

(* CONVEX with the cross product as the C code computes it *)
Definition CONVEXw (a b c : pt) : bool :=
  let cr := wrap32 (cross a b c) in
  if 0 <? cr then true
  else if cr <? 0 then false
  else (snd a <? snd b) && (snd c <? snd b).

Section Generic.
  Variable cx : pt -> pt -> pt -> bool.

  Fixpoint prune_g (st : list pt) (p : pt) : list pt :=
    match st with
    | b :: ((a :: _) as rest) => if cx a b p then st else prune_g rest p
    | _ => st
    end.
  Definition lower_emit_g (max_i : Z) (lower : env) (st : list pt) (j : Z) : list pt :=
    if lower j <? max_i + 1 then (lower j, j) :: prune_g st (lower j, j) else st.
  Definition upper_emit_g (upper : env) (cap : Z) (st : list pt) (j : Z) : list pt :=
    if -1 <? upper j then
      let st' := prune_g st (upper j, j) in
      if zlen st' <? cap then (upper j, j) :: st' else st'
    else st.
  Definition hull_label_g (max_i : Z) (pts : list pt) (slack : Z) : list pt :=
    match pts with
    | [] => []
    | p0 :: _ =>
        let nv := zlen pts in
        let start_j := snd p0 in
        let end_j := snd (last pts p0) in
        let lower := build_lower max_i pts in
        let upper := build_upper pts in
        let cap := slack + nv in
        let need_last := negb (lower start_j =? upper start_j) in
        let st1 := fold_left (lower_emit_g max_i lower) (cols_up start_j end_j) [] in
        let st2 := fold_left (upper_emit_g upper cap) (rev (cols_up (start_j + 1) end_j)) st1 in
        let st3 := prune_g st2 (upper start_j, start_j) in
        rev (if need_last then (upper start_j, start_j) :: st3 else st3)
    end.
  Fixpoint walk_g (max_i max_label : Z) (reqs : list Z) (rest : list row) (pixidx outidx : Z)
    : list (Z * list pt * bool) :=
    match reqs with
    | [] => []
    | l :: reqs' =>
        let rest1 := if l <=? max_label then skip_lt l rest else rest in
        let pixidx1 := pixidx + (zlen rest - zlen rest1) in
        match rest1 with
        | [] => (outidx, [], false) :: walk_g max_i max_label reqs' rest1 pixidx1 outidx
        | r :: _ =>
            if negb (l =? r_v r) then (outidx, [], false) :: walk_g max_i max_label reqs' rest1 pixidx1 outidx
            else
              let (blk, rest2) := span_eq l rest1 in
              let nv := zlen blk in
              let h := hull_label_g max_i (map r_pt blk) (pixidx1 - outidx) in
              let over := (pixidx1 + nv - outidx) <? zlen h in
              (* only the final, unguarded write can land past the label's rows, and by one row
                 (C02_no_overflow_partial holds for every turn test): it overwrites (i, j) of the next
                 label's first row in the shared buffer; at the end of the buffer it is a heap write *)
              let rest2' := if over then match rest2 with
                                         | r :: t => (last h (0, 0), r_v r) :: t
                                         | [] => []
                                         end else rest2 in
              (outidx, h, over)
                :: walk_g max_i max_label reqs' rest2' (pixidx1 + nv) (outidx + zlen h)
        end
    end.
  (* [sent] = the value of the C expression max_i + 1, minus one *)
  Definition convex_hull_ijv_g (sent : Z -> Z) (ijv : list row) (indexes : list Z) : list (Z * list pt) * bool :=
    let sorted := lexsort ijv in
    let max_i := sent (zmax_list (map r_i sorted)) in
    let max_label := zmax_list (map r_v sorted) in
    let reorder := argsort indexes in
    let reqs := map (fun k => nth k indexes 0) reorder in
    let blocks := walk_g max_i max_label reqs sorted 0 0 in
    let unreorder := argsort (map Z.of_nat reorder) in
    (map (fun rk => (fst rk, nth_block blocks (snd rk))) (combine indexes unreorder),
     existsb (fun b => snd b) blocks).
End Generic.

(* the kernel as written: wrapped turn test, wrapped sentinel *)
Definition convex_hull_ijv_w : list row -> list Z -> list (Z * list pt) * bool :=
  convex_hull_ijv_g CONVEXw (fun m => wrap32 (m + 1) - 1).
Definition hull_label_w : Z -> list pt -> Z -> list pt := hull_label_g CONVEXw.

(* int32 input: the kernel converts the array with astype(np.int32); the harness only sends values that
   fit, and both assertions (>= 0) are modelled as in Model/Hull.v *)
Definition entry_hull_ijv_w (x : sx) : sx :=
  match as_rows (arg 0 x) with
  | [] => I (-1)
  | ijv => if kernel_accepts ijv (as_Zs (arg 1 x))
           then of_blocks (convex_hull_ijv_w ijv (as_Zs (arg 1 x))) else I (-1)
  end.
