(* C13 — the ellipse moments of one object as a function of its coordinate list alone (the
   per-object view of ellipse_from_second_moments_ijv).  Executable; compared on every generated
   object with the as-written model of Model/MeasureC13.v (exact equality) and through it with
   the implementation.  Definitions only. *)
From Coq Require Import ZArith QArith List Bool.
From Centro Require Import Base.Sx Base.VecC13 Model.MeasureC13.
Import ListNotations.
Open Scope Z_scope.

Definition qsum (l : list Q) : Q := fold_left qadd l 0%Q.

Definition frow (t : Q * (option Q * (option Q * (option Q * (option Q * option Q))))) : option ell :=
  match t with
  | (n, (Some i_, (Some j_, (Some a_, (Some b_, Some c_))))) => Some (mkEll n i_ j_ a_ b_ c_)
  | _ => None
  end.

Definition oq (o : option Q) : Q := match o with Some q => q | None => 0%Q end.

Definition ell_c (cs : list (Z * Z)) : option ell :=
  let n := qsum (map (fun _ => 1%Q) cs) in
  let icl := qdiv (qsum (map (fun c => inject_Z (fst c)) cs)) n in
  let jcl := qdiv (qsum (map (fun c => inject_Z (snd c)) cs)) n in
  let ci := fun c : Z * Z => (inject_Z (fst c) - oq icl)%Q in
  let cj := fun c : Z * Z => (inject_Z (snd c) - oq jcl)%Q in
  frow (n, (icl, (jcl, (qdiv (qsum (map (fun c => ci c * ci c)%Q cs)) n,
                        (qdiv (2 * qsum (map (fun c => ci c * cj c)%Q cs)) n,
                         qdiv (qsum (map (fun c => cj c * cj c)%Q cs)) n))))).

Definition shiftc (dy dx : Z) (c : Z * Z) : Z * Z := (fst c + dy, snd c + dx).

Definition move (dy dx : Z) (e : ell) : ell :=
  mkEll (e_m00 e) (Qred (e_ic e + inject_Z dy)) (Qred (e_jc e + inject_Z dx)) (e_a e) (e_b e) (e_c e).


(* ((y x) ...) -> row as in entry_measure's ellipse rows *)
Definition entry_ell_coords (x : sx) : sx := of_ell (ell_c (as_pairs x)).
