(* C18 — wire entries of the executable models.  Definitions only. *)
From Coq Require Import ZArith List Bool Arith.
From Centro Require Import Base.Sx Base.SortC18 Model.VecC18 Model.RankC18 Model.MedianC18 Model.IndexesC18
  Spec.SpecC18.
Import ListNotations.
Local Open Scope nat_scope.

(* (image) -> (r v) *)
Definition entry_rank (x : sx) : sx :=
  let '(r, v) := rank_order (as_Zs (arg 0 x)) in L [of_nats r; of_Zs v].
(* (image nbins (order ...)) -> ((r v)) | () when an order is not admissible / fuel ran out *)
Definition entry_rank_bins (x : sx) : sx :=
  let image := as_Zs (arg 0 x) in
  match rank_order_bins_with (replay_oracle (map as_nats (as_list (arg 2 x)))) (argsort image) image
                             (as_nat (arg 1 x)) with
  | Some (r, v) => L [L [of_nats r; of_Zs v]]
  | None => L []
  end.
(* (image nbins) -> same with the stable oracle *)
Definition entry_rank_bins_stable (x : sx) : sx :=
  let image := as_Zs (arg 0 x) in
  match rank_order_bins_with stable_oracle (argsort image) image (as_nat (arg 1 x)) with
  | Some (r, v) => L [L [of_nats r; of_Zs v]]
  | None => L []
  end.
(* (image labels indices) -> (() | (m) ...) *)
Definition entry_median (x : sx) : sx :=
  L (map of_optz (median_of_labels (as_Zs (arg 0 x)) (as_nats (arg 1 x)) (as_nats (arg 2 x)))).
Definition entry_mode (x : sx) : sx := of_Zs (mode (as_Zs (arg 0 x))).
Definition entry_indexes (x : sx) : sx := of_indexes (indexes (map as_nats (as_list x))).
Definition entry_pairs (x : sx) : sx :=
  let '(di, d1, d2) := pairwise_permutations (as_Zs (arg 0 x)) (as_Zs (arg 1 x)) in
  L [of_Zs di; of_Zs d1; of_Zs d2].
