(* C10 — executable model of centrosome.fastemd.emd_hat_int32.
   * the Cython wrapper (_fastemd.pyx: resize to a square problem, -1 = default penalty, dispatch
     on flow type / gd_metric, crop of the flow) — as written;
   * include/emd_hat_impl.hpp (metric pre-flow of the diagonal; swap so that the supplier has more
     mass; maxC; default penalty; regular arcs only for C[i][j] != maxC between non-empty bins;
     threshold node with arcs i->T at 0 and T->j at maxC and deficit -|sum P - sum Q|; artificial
     node; removal of zero-mass nodes and of nodes connected only to the threshold node with
     pre_flow_cost; renaming; flow read-back with swap / reverse-edge handling; my_dist) and
     include/flow_utils.hpp (transform_flow_to_regular) — as written;
   * include/min_cost_flow.hpp at ALGORITHM level: successive shortest augmenting paths from the
     (first) node of largest supply to the nearest deficit node, augmenting by
     min(supply, residual capacities) with separate forward / reverse flow counters per arc as in
     the code's x lists; shortest paths by Bellman-Ford on the residual graph instead of the
     code's binary heap + reduced costs.  Recursion on explicit fuel; out of fuel = None.
   Definitions only. *)
From Coq Require Import ZArith List Bool.
From Centro Require Import Base.Sx Base.EmdBase.
Import ListNotations.
Open Scope Z_scope.

(* ------------------------------------------------------------------ small vocabulary *)
Definition resize (n : nat) (l : list Z) : list Z := firstn n l ++ repeat 0 (n - length l).
Definition zeros (n : nat) : list Z := repeat 0 n.
Definition zmat (n : nat) : list (list Z) := repeat (zeros n) n.
Fixpoint index_of (v : nat) (l : list nat) (k : nat) : option nat :=
  match l with [] => None | x :: r => if (x =? v)%nat then Some k else index_of v r (S k) end.
Definition nn (l : list nat) (i : nat) : nat := nth i l O.

(* ------------------------------------------------------------------ min_cost_flow (algorithm level) *)
(* an arc of the input graph with the two flow counters the code keeps in x[from] / x[to] *)
Record arc := { a_from : nat; a_to : nat; a_cost : Z; a_fp : Z; a_fm : Z }.

Definition dists := list (option Z).
Definition preds := list (option (nat * bool)).     (* arc index, traversed forward? *)
Fixpoint setnth {A} (l : list A) (i : nat) (x : A) : list A :=
  match l, i with
  | [], _ => []
  | _ :: r, O => x :: r
  | y :: r, S i' => y :: setnth r i' x
  end.
Definition getd (d : dists) (v : nat) : option Z := nth v d None.

Definition relax_to (d : dists) (p : preds) (ch : bool) (u v : nat) (c : Z) (tag : nat * bool)
  : dists * preds * bool :=
  match getd d u with
  | None => (d, p, ch)
  | Some du =>
      match getd d v with
      | Some dv => if du + c <? dv then (setnth d v (Some (du + c)), setnth p v (Some tag), true)
                   else (d, p, ch)
      | None => (setnth d v (Some (du + c)), setnth p v (Some tag), true)
      end
  end.

Definition relax_arc (st : dists * preds * bool * nat) (a : arc) : dists * preds * bool * nat :=
  let '(d, p, ch, k) := st in
  let '(d1, p1, ch1) := relax_to d p ch (a_from a) (a_to a) (a_cost a) (k, true) in
  let '(d2, p2, ch2) :=
    if 0 <? a_fp a - a_fm a
    then relax_to d1 p1 ch1 (a_to a) (a_from a) (- a_cost a) (k, false)
    else (d1, p1, ch1) in
  (d2, p2, ch2, S k).

Fixpoint bellman (fuel : nat) (arcs : list arc) (d : dists) (p : preds) : dists * preds :=
  match fuel with
  | O => (d, p)
  | S f =>
      let '(d', p', ch, _) := fold_left relax_arc arcs (d, p, false, O) in
      if ch then bellman f arcs d' p' else (d', p')
  end.

(* first node of largest positive supply (the code's strict "maxSupply<e[i]") *)
Fixpoint pick_supply (e : list Z) (i : nat) (best : Z) (k : nat) : Z * nat :=
  match e with
  | [] => (best, k)
  | x :: r => if best <? x then pick_supply r (S i) x i else pick_supply r (S i) best k
  end.

(* nearest deficit node (first among equals) *)
Fixpoint pick_deficit (e : list Z) (d : dists) (i : nat) (best : option (Z * nat)) : option (Z * nat) :=
  match e, d with
  | x :: r, dv :: dr =>
      let best' :=
        match dv with
        | Some di => if x <? 0 then
                       match best with
                       | Some (b, _) => if di <? b then Some (di, i) else best
                       | None => Some (di, i)
                       end
                     else best
        | None => best
        end in
      pick_deficit r dr (S i) best'
  | _, _ => best
  end.

Definition dummy_arc : arc := {| a_from := O; a_to := O; a_cost := 0; a_fp := 0; a_fm := 0 |}.

(* one step of an augmenting path: arc index and direction of traversal *)
Definition step_src (arcs : list arc) (st : nat * bool) : nat :=
  let a := nth (fst st) arcs dummy_arc in if snd st then a_from a else a_to a.
Definition step_dst (arcs : list arc) (st : nat * bool) : nat :=
  let a := nth (fst st) arcs dummy_arc in if snd st then a_to a else a_from a.

(* walk back from l to k along the predecessor arcs (a predecessor entry that does not point at
   the node it is stored for stops the walk: None) *)
Fixpoint trace (fuel : nat) (arcs : list arc) (p : preds) (k v : nat) (acc : list (nat * bool))
  : option (list (nat * bool)) :=
  if (v =? k)%nat then Some acc else
  match fuel with
  | O => None
  | S f =>
      match nth v p None with
      | None => None
      | Some st =>
          if (fst st <? length arcs)%nat && (step_dst arcs st =? v)%nat
          then trace f arcs p k (step_src arcs st) (st :: acc)
          else None
      end
  end.

Definition net (a : arc) : Z := a_fp a - a_fm a.

Definition path_delta (arcs : list arc) (path : list (nat * bool)) (d0 : Z) : Z :=
  fold_left (fun (dl : Z) (st : nat * bool) =>
               if snd st then dl else Z.min dl (net (nth (fst st) arcs dummy_arc))) path d0.

Definition add_flow (fwd : bool) (dl : Z) (a : arc) : arc :=
  if fwd
  then {| a_from := a_from a; a_to := a_to a; a_cost := a_cost a; a_fp := a_fp a + dl; a_fm := a_fm a |}
  else {| a_from := a_from a; a_to := a_to a; a_cost := a_cost a; a_fp := a_fp a; a_fm := a_fm a + dl |}.

Definition push (arcs : list arc) (path : list (nat * bool)) (dl : Z) : list arc :=
  fold_left (fun (ar : list arc) (st : nat * bool) => upd ar (fst st) (add_flow (snd st) dl)) path arcs.

(* one augmentation: Done = no positive supply left, More = continue, Fail = a sanity test of the
   step failed (never on the residual graphs that arise) *)
Inductive step_res := Done (arcs : list arc) | More (e : list Z) (arcs : list arc) | Fail.

Definition ssp_step (e : list Z) (arcs : list arc) : step_res :=
  let '(maxSupply, k) := pick_supply e O 0 O in
  if maxSupply =? 0 then Done arcs else
  let nv := length e in
  let d0 := setnth (repeat None nv) k (Some 0) in
  let '(d, p) := bellman nv arcs d0 (repeat None nv) in
  match pick_deficit e d O None with
  | None => Fail
  | Some (_, l) =>
      match trace (S nv) arcs p k l [] with
      | None => Fail
      | Some path =>
          let dl := path_delta arcs path maxSupply in
          let arcs' := push arcs path dl in
          (* positive amount, end points inside the graph, no arc driven below zero *)
          if (0 <? dl) && (k <? nv)%nat && (l <? nv)%nat && forallb (fun a => 0 <=? net a) arcs'
          then More (upd (upd e k (fun x => x - dl)) l (fun x => x + dl)) arcs'
          else Fail
      end
  end.

(* fuel in binary: level k allows 2^k augmentations, so the bound does not depend on the size of
   the masses *)
Fixpoint ssp_iter (k : nat) (e : list Z) (arcs : list arc) : step_res :=
  match k with
  | O => ssp_step e arcs
  | S k' => match ssp_iter k' e arcs with
            | More e' arcs' => ssp_iter k' e' arcs'
            | r => r
            end
  end.

Definition ssp_levels : nat := 48.
Definition ssp_at (k : nat) (e : list Z) (arcs : list arc) : option (list arc) :=
  match ssp_iter k e arcs with Done a => Some a | _ => None end.
Definition ssp (e : list Z) (arcs : list arc) : option (list arc) := ssp_at ssp_levels e arcs.

Definition mk_arcs (cc : list (list (nat * Z))) : list arc :=
  concat (map (fun fr => map (fun tc => {| a_from := fst fr; a_to := fst tc; a_cost := snd tc; a_fp := 0; a_fm := 0 |})
                             (snd fr))
              (combine (seq 0 (length cc)) cc)).

(* the code's x: per node, in global arc order, (to, cost, flow) of its forward entries and
   (from, -cost, flow) of the reverse entries *)
Definition x_of (nv : nat) (arcs : list arc) : list (list (nat * Z * Z)) :=
  map (fun v => flat_map (fun a =>
                  (if (a_from a =? v)%nat then [(a_to a, a_cost a, a_fp a)] else []) ++
                  (if (a_to a =? v)%nat then [(a_from a, - a_cost a, a_fm a)] else [])) arcs)
      (seq 0 nv).

Definition x_dist (x : list (list (nat * Z * Z))) : Z :=
  zsum (map (fun l => zsum (map (fun en => snd (fst en) * snd en) l)) x).


Definition min_cost_flow (bb : list Z) (cc : list (list (nat * Z))) : option (Z * list (list (nat * Z * Z))) :=
  match ssp bb (mk_arcs cc) with
  | None => None
  | Some arcs => let x := x_of (length bb) arcs in Some (x_dist x, x)
  end.

(* ------------------------------------------------------------------ flow_utils.hpp *)
Fixpoint skipz (fuel : nat) (N : nat) (l : list Z) (i : nat) : nat :=
  match fuel with
  | O => i
  | S f => if (i <? N)%nat && (nz l i =? 0) then skipz f N l (S i) else i
  end.

Fixpoint tf_loop (fuel : nat) (N : nat) (i j : nat) (fP fQ : list Z) (F : list (list Z)) : option (list (list Z)) :=
  let i' := skipz N N fP i in
  let j' := skipz N N fQ j in
  if (i' =? N)%nat || (j' =? N)%nat then Some F else
  match fuel with
  | O => None
  | S f =>
      let a := nz fP i' in let b := nz fQ j' in
      if a <? b
      then tf_loop f N i' j' (upd fP i' (fun _ => 0)) (upd fQ j' (fun y => y - a)) (upd2 F i' j' (fun y => y + a))
      else tf_loop f N i' j' (upd fP i' (fun y => y - b)) (upd fQ j' (fun _ => 0)) (upd2 F i' j' (fun y => y + b))
  end.

Definition transform_flow_to_regular (F : list (list Z)) (P Q : list Z) : option (list (list Z)) :=
  let N := length P in
  let idx := seq 0 N in
  let fP := map (fun i => nz P i - zsum (map (fun j => mz F i j) idx)) idx in
  let fQ := map (fun j => nz Q j - zsum (map (fun i => mz F i j) idx)) idx in
  tf_loop (S (2 * N)) N O O fP fQ F.

(* ------------------------------------------------------------------ emd_hat_impl.hpp *)
(* the reduced graph handed to min_cost_flow, with what the read-back needs *)
Record reduced := {
  r_N : nat; r_swap : bool; r_diff : Z; r_maxC : Z; r_pen : Z; r_pre : Z;
  r_old : list nat;                  (* nodes_old_names *)
  r_bb : list Z; r_cc : list (list (nat * Z)) }.

(* the adjacency lists c of emd_hat_impl.hpp in push_back order: sources 0..N-1, sinks N..2N-1,
   threshold node 2N, artificial node 2N+1 *)
Definition red_c (N : nat) (maxC : Z) (regular : nat -> nat -> bool) (C : nat -> nat -> Z) : list (list (nat * Z)) :=
  let idx := seq 0 N in
  let TH := (2 * N)%nat in
  let AR := (2 * N + 1)%nat in
  let c_src := fun i => map (fun j => ((j + N)%nat, C i j)) (filter (regular i) idx)
                        ++ [(TH, 0); (AR, maxC + 1)] in
  map c_src idx ++ map (fun _ => [(AR, maxC + 1)]) idx
  ++ [map (fun j => ((j + N)%nat, maxC)) idx ++ [(AR, maxC + 1)]]
  ++ [map (fun i => (i, maxC + 1)) (seq 0 AR)].

(* renaming of the arcs to the kept nodes *)
Definition rename_cc (old : list nat) (c : list (list (nat * Z))) : list (list (nat * Z)) :=
  map (fun v => flat_map (fun tc => match index_of (fst tc) old O with
                                    | Some t => [(t, snd tc)]
                                    | None => []
                                    end) (nth v c [])) old.

Definition reduce (Pc Qc : list Z) (Cc : list (list Z)) (emp : Z) : reduced :=
  let N := length Pc in
  let sumP := zsum Pc in
  let sumQ := zsum Qc in
  let swap := sumP <? sumQ in
  let P := if swap then Qc else Pc in
  let Q := if swap then Pc else Qc in
  let C := fun i j => if swap then mz Cc j i else mz Cc i j in
  let diff := if swap then sumQ - sumP else sumP - sumQ in
  let idx := seq 0 N in
  let TH := (2 * N)%nat in
  let AR := (2 * N + 1)%nat in
  let maxC := fold_left (fun a i => fold_left (fun a j => if a <? C i j then C i j else a) idx a) idx 0 in
  let pen := if emp =? -1 then maxC else emp in
  let regular := fun i j => negb (nz P i =? 0) && negb (nz Q j =? 0) && negb (C i j =? maxC) in
  (* c: adjacency lists in push_back order *)
  let c := red_c N maxC regular C in
  let b := P ++ map Z.opp Q ++ [- diff; 0] in
  let in_set := fun v => if (v <? N)%nat then existsb (regular v) idx
                         else existsb (fun i => regular i (v - N)%nat) idx in
  let keep := fun v => negb (nz b v =? 0) && in_set v in
  let gone := filter (fun v => negb (nz b v =? 0) && negb (in_set v)) (seq 0 (2 * N)) in
  let pre := zsum (map (fun v => if (N <=? v)%nat then - (nz b v * maxC) else 0) gone) in
  let bT := nz b TH + zsum (map (nz b) gone) in
  let kept := filter keep (seq 0 (2 * N)) in
  let old := kept ++ [TH; AR] in
  let bb := map (nz b) kept ++ [bT; 0] in
  let cc := rename_cc old c in
  {| r_N := N; r_swap := swap; r_diff := diff; r_maxC := maxC; r_pen := pen; r_pre := pre;
     r_old := old; r_bb := bb; r_cc := cc |}.

(* flow read-back, as written (entries touching the threshold node are skipped; an entry whose
   target has a smaller name is a reverse entry and is subtracted) *)
Definition read_back (r : reduced) (x : list (list (nat * Z * Z))) (F0 : list (list Z)) : list (list Z) :=
  let N := r_N r in
  let newT := (length (r_old r) - 2)%nat in
  fold_left (fun F fx =>
    let nf := fst fx in
    fold_left (fun F en =>
      let to := fst (fst en) in
      let flow := snd en in
      if (nf =? newT)%nat || (to =? newT)%nat then F else
      let rev := (to <? nf)%nat in
      let i := if rev then nn (r_old r) to else nn (r_old r) nf in
      let jn := if rev then nn (r_old r) nf else nn (r_old r) to in
      if flow =? 0 then F else
      if (jn <? N)%nat then F (* j = jn - N would be negative: never on a source->sink entry *) else
      let j := (jn - N)%nat in
      let '(i, j) := if r_swap r then (j, i) else (i, j) in
      if rev then upd2 F i j (fun y => y - flow) else upd2 F i j (fun y => y + flow))
      (snd fx) F)
    (combine (seq 0 (length x)) x) F0.

(* emd_hat_impl_integral_types::operator(); ft = 0 NO_FLOW, 1 WITHOUT_TRANSHIPMENT_FLOW,
   2 WITHOUT_EXTRA_MASS_FLOW; F0 = the flow matrix on entry (zeros or the metric pre-flow) *)
Definition emd_impl (ft : Z) (POrig QOrig Pc Qc : list Z) (Cc : list (list Z)) (emp : Z)
           (F0 : list (list Z)) : option (Z * list (list Z)) :=
  let r := reduce Pc Qc Cc emp in
  match min_cost_flow (r_bb r) (r_cc r) with
  | None => None
  | Some (mcf_dist, x) =>
      let F1 := if ft =? 0 then F0 else read_back r x F0 in
      let my_dist := r_pre r + mcf_dist + r_diff r * r_pen r in
      if ft =? 2 then
        match transform_flow_to_regular F1 POrig QOrig with
        | None => None
        | Some F2 => Some (my_dist, F2)
        end
      else Some (my_dist, F1)
  end.

(* emd_hat_gd_metric: pre-flow min(P_i,Q_i) on the diagonal *)
Definition preflow (P Q : list Z) : list (Z * Z * Z) :=
  map (fun pq => let p := fst pq in let q := snd pq in
                 if p <? q then (0, q - p, p) else (p - q, 0, q)) (combine P Q).
Definition diag_mat (dg : list Z) : list (list Z) :=
  let N := length dg in
  map (fun i => map (fun j => if (i =? j)%nat then nz dg i else 0) (seq 0 N)) (seq 0 N).

Definition emd_hat (ft : Z) (gd : bool) (P Q : list Z) (C : list (list Z)) (emp : Z)
  : option (Z * list (list Z)) :=
  let N := length P in
  if gd then
    let pf := preflow P Q in
    emd_impl ft P Q (map (fun t => fst (fst t)) pf) (map (fun t => snd (fst t)) pf) C emp
             (diag_mat (map snd pf))
  else emd_impl ft P Q P Q C emp (zmat N).

(* _fastemd.pyx: emd_hat_int32(p, q, c, extra_mass_penalty, flow_type, gd_metric) *)
Definition emd_hat_int32 (p q : list Z) (c : list (list Z)) (pen : option Z) (ft : Z) (gd : bool)
  : option (Z * list (list Z)) :=
  let plen := length p in
  let qlen := length q in
  let '(vp, vq, vc) :=
    if (qlen <? plen)%nat then (p, resize plen q, map (resize plen) c)
    else if (plen <? qlen)%nat then (resize qlen p, q, c ++ repeat (zeros qlen) (qlen - plen))
    else (p, q, c) in
  let emp := match pen with Some v => v | None => -1 end in
  match emd_hat ft gd vp vq vc emp with
  | None => None
  | Some (d, F) =>
      if ft =? 0 then Some (d, [])
      else Some (d, map (firstn qlen) (firstn plen F))
  end.

(* wire: (p q c pen? flow_type gd_metric) -> (dist F) | ()   with pen? = () or (pen) *)
Definition entry_emd (x : sx) : sx :=
  let pen := match as_list (arg 3 x) with [] => None | v :: _ => Some (as_Z v) end in
  match emd_hat_int32 (as_Zs (arg 0 x)) (as_Zs (arg 1 x)) (as_Zss (arg 2 x)) pen
                      (as_Z (arg 4 x)) (as_bool (arg 5 x)) with
  | Some (d, F) => L [I d; of_Zss F]
  | None => L []
  end.
