(* C03: centrosome/propagate.py + _propagate.pyx, operation for operation, over the kernel's
   primitive binary64 floats.  key = Dropped is the code as written (get_least_significant
   shifts the low word right by one); key = Full64 keeps all 64 bits (the repaired layout used
   only for attributing finding F7).  Definitions only. *)
From Coq Require Import ZArith List Bool.
From Coq Require Uint63 PrimFloat.
From Centro Require Import Base.Sx Base.PropFloat Model.PropHeap.
Import ListNotations.
Open Scope Z_scope.

Inductive keymode := Dropped | Full64.

(* _propagate.pyx:33-69 on the bit pattern b of the double *)
Definition most_sig (b : Z) : Z :=
  let hi := b / two32 in
  if hi >=? two31 then - (hi - two31) else hi.
Definition least_sig (k : keymode) (b : Z) : Z :=
  let hi := b / two32 in
  let lo := b mod two32 in
  let lo' := match k with Dropped => lo / 2 | Full64 => lo end in
  if hi >=? two31 then - lo' else lo'.

Definition get2 {A} (d : A) (l : list (list A)) (i j : Z) : A :=
  nth (Z.to_nat j) (nth (Z.to_nat i) l []) d.
Fixpoint upd {A} (l : list A) (k : nat) (v : A) : list A :=
  match l, k with
  | [], _ => []
  | _ :: t, O => v :: t
  | h :: t, S k' => h :: upd t k' v
  end.
Definition set2 {A} (l : list (list A)) (i j : Z) (v : A) : list (list A) :=
  upd l (Z.to_nat i) (upd (nth (Z.to_nat i) l []) (Z.to_nat j) v).

Definition clamp (i m : Z) : Z := if i <? 0 then 0 else if i >=? m then m - 1 else i.
Definition clamped_fetch (image : list (list float)) (i j m n : Z) : float :=
  get2 PrimFloat.zero image (clamp i m) (clamp j n).

Definition offsets9 : list (Z * Z) :=
  [(-1,-1); (-1,0); (-1,1); (0,-1); (0,0); (0,1); (1,-1); (1,0); (1,1)].
Definition offsets8 : list (Z * Z) :=
  [(-1,-1); (-1,0); (-1,1); (0,-1); (0,1); (1,-1); (1,0); (1,1)].

(* _propagate.pyx:112-143 *)
Definition pixel_diff (image : list (list float)) (i1 j1 i2 j2 m n : Z) : float :=
  fold_left (fun (acc : float) (o : Z * Z) =>
               let v1 := clamped_fetch image (i1 + fst o) (j1 + snd o) m n in
               let v2 := clamped_fetch image (i2 + fst o) (j2 + snd o) m n in
               if PrimFloat.ltb v2 v1 then PrimFloat.add acc (PrimFloat.sub v1 v2)
               else PrimFloat.add acc (PrimFloat.sub v2 v1))
            offsets9 PrimFloat.zero.
Definition step_cost (image : list (list float)) (i1 j1 i2 j2 m n : Z) (weight : float) : float :=
  let pd := pixel_diff image i1 j1 i2 j2 m n in
  let md := PrimFloat.add (float_of_Z (Z.abs (i1 - i2))) (float_of_Z (Z.abs (j1 - j2))) in
  PrimFloat.sqrt (PrimFloat.add (PrimFloat.mul pd pd) (PrimFloat.mul (PrimFloat.mul md weight) weight)).

Definition neg_one : float := PrimFloat.opp PrimFloat.one.

Record state := mkst { s_lab : list (list Z); s_dist : list (list float); s_hp : heap }.

Section Run.
Variable key : keymode.
Variable image : list (list float).
Variable mask : list (list bool).
Variable m n : Z.
Variable weight : float.

(* one neighbour of the inner loop, _propagate.pyx:201-219 *)
Definition relax (lab : list (list Z)) (label i1 j1 : Z) (d0 : float)
           (acc : list (list float) * heap) (o : Z * Z) : list (list float) * heap :=
  let i2 := i1 + fst o in
  let j2 := j1 + snd o in
  if (i2 <? 0) || (i2 >=? m) || (j2 <? 0) || (j2 >=? n) then acc
  else if 0 <? get2 0 lab i2 j2 then acc
  else if negb (get2 false mask i2 j2) then acc
  else
    let d := PrimFloat.add (step_cost image i1 j1 i2 j2 m n weight) d0 in
    let cur := get2 PrimFloat.zero (fst acc) i2 j2 in
    if PrimFloat.eqb cur neg_one || PrimFloat.ltb d cur then
      let b := bits_of_float d in
      (set2 (fst acc) i2 j2 d, heappush (snd acc) [most_sig b; least_sig key b; label; i2; j2])
    else acc.

(* the while loop, _propagate.pyx:186-219; false = fuel exhausted *)
Fixpoint loop (fuel : nat) (st : state) : state * bool :=
  match fuel with
  | O => (st, false)
  | S f =>
      match rows (s_hp st) with
      | [] => (st, true)
      | _ :: _ =>
          let (e, hp1) := heappop (s_hp st) in
          let i1 := nth 3 e 0 in
          let j1 := nth 4 e 0 in
          if get2 0 (s_lab st) i1 j1 =? 0 then
            let label := nth 2 e 0 in
            let lab1 := set2 (s_lab st) i1 j1 label in
            let d0 := get2 PrimFloat.zero (s_dist st) i1 j1 in
            let '(dist1, hp2) := fold_left (relax lab1 label i1 j1 d0) offsets8 (s_dist st, hp1) in
            loop f (mkst lab1 dist1 hp2)
          else loop f (mkst (s_lab st) (s_dist st) hp1)
      end
  end.
End Run.

(* propagate.py *)
Definition coords (m n : Z) : list (Z * Z) :=
  flat_map (fun i => map (fun j => (Z.of_nat i, Z.of_nat j)) (seq 0 (Z.to_nat n))) (seq 0 (Z.to_nat m)).

Definition propagate (key : keymode) (image : list (list float)) (labels : list (list Z))
           (mask : list (list bool)) (m n : Z) (weight : float)
  : option (list (list Z) * list (list float)) :=
  let labels_out := map (map (fun _ => 0)) labels in
  let distances := map (map (fun l => if 0 <? l then PrimFloat.zero else neg_one)) labels in
  let kb := bits_of_float PrimFloat.zero in
  let pq := flat_map (fun ij : Z * Z =>
                        let l := get2 0 labels (fst ij) (snd ij) in
                        if negb (l =? 0) && get2 false mask (fst ij) (snd ij)
                        then [[most_sig kb; least_sig key kb; l; fst ij; snd ij]] else [])
                     (coords m n) in
  let fuel := (length pq + 8 * Z.to_nat (m * n) + 1)%nat in
  let (st, ok) := loop key image mask m n weight fuel (mkst labels_out distances (heap_from_rows pq)) in
  if ok then
    let lo := map (fun rr => map (fun p => if 0 <? snd p then snd p else fst p) (combine (fst rr) (snd rr)))
                  (combine (s_lab st) labels) in
    Some (lo, s_dist st)
  else None.

(* wire: [m; n; image bits; labels; mask; weight bits; keymode(0 Dropped / 1 Full64)] ->
   [[labels_out; distance bits]] or [] (out of fuel) *)
Definition decode_key (z : Z) : keymode := if z =? 0 then Dropped else Full64.
Definition run_sx (x : sx) : option (list (list Z) * list (list Z)) :=
  let m := as_Z (arg 0 x) in
  let n := as_Z (arg 1 x) in
  let image := map (map float_of_bits) (as_Zss (arg 2 x)) in
  let labels := as_Zss (arg 3 x) in
  let mask := as_boolss (arg 4 x) in
  let weight := float_of_bits (as_Z (arg 5 x)) in
  match propagate (decode_key (as_Z (arg 6 x))) image labels mask m n weight with
  | Some (lo, d) => Some (lo, map (map bits_of_float) d)
  | None => None
  end.
Definition entry_propagate (x : sx) : sx :=
  match run_sx x with
  | Some (lo, d) => L [L [of_Zss lo; of_Zss d]]
  | None => L []
  end.

(* validation entries for the conversion and the primitive operations:
   [a; b] -> [bits(float a); a+b; a-b; a*b; sqrt a; a<b] *)
Definition entry_fops (x : sx) : sx :=
  let a := as_Z (arg 0 x) in
  let b := as_Z (arg 1 x) in
  L [I (bits_of_float (float_of_bits a)); I (badd a b); I (bsub a b); I (bmul a b); I (bsqrt a);
     of_bool (bltb a b)].
