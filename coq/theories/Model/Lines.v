(* C16 — executable models of cpmorphology.draw_line (scalar Bresenham) and
   cpmorphology.get_line_pts (lock-step vectorised Bresenham with per-iteration compaction of
   the parallel arrays).  Definitions only; proofs are in Proofs/Lines*.v. *)
From Coq Require Import ZArith List Bool.
From Centro Require Import Base.Sx.
Import ListNotations.
Open Scope Z_scope.

(* ---------------------------------------------------------------- draw_line *)

(* (a1 > a0 and 1) or -1 *)
Definition dstep (a0 a1 : Z) : Z := if a0 <? a1 then 1 else -1.

(* One of the two while-loops of draw_line.  [m] is the coordinate that varies fastest, [c]
   the other one; pixels are recorded as (m, c).  The loop condition is [m != m1]; [fuel]
   bounds the iteration count and [None] means "ran out of fuel" (excluded by the theorems:
   |m1 - m0| iterations always suffice). *)
Fixpoint dl_loop (fuel : nat) (m m1 sm c sc rem dM dm : Z) (acc : list (Z * Z))
  : option (list (Z * Z)) :=
  if m =? m1 then Some (rev acc) else
  match fuel with
  | O => None
  | S f =>
      let take := 0 <=? rem in
      let c' := if take then c + sc else c in
      let rem' := (if take then rem - dM * 2 else rem) + dm * 2 in
      let m' := m + sm in
      dl_loop f m' m1 sm c' sc rem' dM dm ((m', c') :: acc)
  end.

Definition swap (p : Z * Z) : Z * Z := (snd p, fst p).

(* the pixels written by draw_line(labels, (y0,x0), (y1,x1)), in order, as (y, x) *)
Definition draw_line_pts (y0 x0 y1 x1 : Z) : option (list (Z * Z)) :=
  let diff_y := Z.abs (y1 - y0) in
  let diff_x := Z.abs (x1 - x0) in
  let step_x := dstep x0 x1 in
  let step_y := dstep y0 y1 in
  if diff_x <? diff_y then
    (* Y varies fastest *)
    dl_loop (Z.to_nat diff_y) y0 y1 step_y x0 step_x (diff_x * 2 - diff_y) diff_y diff_x [(y0, x0)]
  else
    option_map (map swap)
      (dl_loop (Z.to_nat diff_x) x0 x1 step_x y0 step_y (diff_y * 2 - diff_x) diff_x diff_y [(x0, y0)]).

(* ---------------------------------------------------------------- get_line_pts *)

Definition line : Type := (Z * Z) * (Z * Z).      (* ((i0, j0), (i1, j1)) *)

(* one row of the nine parallel arrays of a pass *)
Record prec : Type := mkP
  { p_rem : Z; p_ci : Z; p_cj : Z; p_idx : Z; p_cnt : Z; p_di : Z; p_dj : Z; p_si : Z; p_sj : Z }.

Definition l_di (l : line) : Z := Z.abs (fst (fst l) - fst (snd l)).
Definition l_dj (l : line) : Z := Z.abs (snd (fst l) - snd (snd l)).
Definition l_count (l : line) : Z := Z.max (l_di l) (l_dj l) + 1.
(* (pt1 > pt0).astype(int) * 2 - 1 *)
Definition vstep (a0 a1 : Z) : Z := (if a0 <? a1 then 1 else 0) * 2 - 1.

(* index = cumsum(count) - count *)
Fixpoint indexes (start : Z) (counts : list Z) : list Z :=
  match counts with
  | [] => []
  | c :: cs => start :: indexes (start + c) cs
  end.

Definition mk_rec (imajor : bool) (l : line) (index : Z) : prec :=
  let di := l_di l in
  let dj := l_dj l in
  {| p_rem := if imajor then dj * 2 - di else di * 2 - dj;
     p_ci := fst (fst l); p_cj := snd (fst l); p_idx := index; p_cnt := l_count l;
     p_di := di; p_dj := dj;
     p_si := vstep (fst (fst l)) (fst (snd l)); p_sj := vstep (snd (fst l)) (snd (snd l)) |}.

(* body of the loop, after compaction, for one row; [imajor] = first pass (I varies most) *)
Definition pstep (imajor : bool) (r : prec) : prec :=
  let take := 0 <=? p_rem r in
  if imajor then
    {| p_rem := (if take then p_rem r - p_di r * 2 else p_rem r) + p_dj r * 2;
       p_ci := p_ci r + p_si r;
       p_cj := if take then p_cj r + p_sj r else p_cj r;
       p_idx := p_idx r; p_cnt := p_cnt r; p_di := p_di r; p_dj := p_dj r;
       p_si := p_si r; p_sj := p_sj r |}
  else
    {| p_rem := (if take then p_rem r - p_dj r * 2 else p_rem r) + p_di r * 2;
       p_ci := if take then p_ci r + p_si r else p_ci r;
       p_cj := p_cj r + p_sj r;
       p_idx := p_idx r; p_cnt := p_cnt r; p_di := p_di r; p_dj := p_dj r;
       p_si := p_si r; p_sj := p_sj r |}.

Definition write : Type := Z * (Z * Z).           (* position, (i, j) *)

(* for n in range(1, last_n + 1): compaction (count_t > n), step, scatter at index_t + n.
   [k] counts the remaining iterations, [n] is the loop variable. *)
Fixpoint pass_loop (imajor : bool) (k : nat) (n : Z) (recs : list prec) (acc : list write)
  : list write :=
  match k with
  | O => acc
  | S k' =>
      let recs1 := filter (fun r => n <? p_cnt r) recs in
      let recs2 := map (pstep imajor) recs1 in
      pass_loop imajor k' (n + 1) recs2
        (acc ++ map (fun r => (p_idx r + n, (p_ci r, p_cj r))) recs2)
  end.

Definition list_max (l : list Z) : Z := fold_right Z.max 0 l.

Definition run_pass (imajor : bool) (ls : list (line * Z)) : list write :=
  let sel := filter (fun li => if imajor then l_dj (fst li) <=? l_di (fst li)
                               else l_di (fst li) <? l_dj (fst li)) ls in
  match sel with
  | [] => []                                           (* if len(count_t) > 0 *)
  | _ =>
      let recs := map (fun li => mk_rec imajor (fst li) (snd li)) sel in
      let last_n := list_max (map p_cnt recs) in
      pass_loop imajor (Z.to_nat last_n) 1 recs []
  end.

(* value of an array cell after a chronological list of scatter writes onto zeros:
   the last write to that position wins *)
Fixpoint lookup_last (p : Z) (ws : list write) (cur : Z * Z) : Z * Z :=
  match ws with
  | [] => cur
  | (q, v) :: ws' => lookup_last p ws' (if q =? p then v else cur)
  end.

Fixpoint zrange (start : Z) (n : nat) : list Z :=
  match n with O => [] | S k => start :: zrange (start + 1) k end.

Definition all_writes (ls : list line) : list write :=
  let counts := map l_count ls in
  let index := indexes 0 counts in
  let li := combine ls index in
  map (fun x => (snd x, fst (fst x))) li ++ run_pass true li ++ run_pass false li.

(* returns (index, count, points) where points = zip(i, j) *)
Definition get_line_pts (ls : list line) : list Z * list Z * list (Z * Z) :=
  let counts := map l_count ls in
  let index := indexes 0 counts in
  let n_pts := fold_right Z.add 0 counts in
  let ws := all_writes ls in
  (index, counts, map (fun p => lookup_last p ws (0, 0)) (zrange 0 (Z.to_nat n_pts))).

(* ---------------------------------------------------------------- efficient executable forms *)

(* The definitions above mirror the code line by line (chronological scatter writes, last write
   wins), which makes get_line_pts quadratic to evaluate.  The forms below are linear; they are
   proved equal to the line-level ones for ALL inputs in Proofs/LinesFast.v
   (draw_line_fast_eq, get_line_pts_fast_eq) and are the ones that are extracted. *)

(* the loop of dl_loop emitting forwards: [fuel] = number of iterations *)
Fixpoint dl_fwd (fuel : nat) (m sm c sc rem dM dm : Z) : list (Z * Z) :=
  match fuel with
  | O => []
  | S f =>
      let take := 0 <=? rem in
      let c' := if take then c + sc else c in
      let rem' := (if take then rem - dM * 2 else rem) + dm * 2 in
      let m' := m + sm in
      (m', c') :: dl_fwd f m' sm c' sc rem' dM dm
  end.

Definition draw_line_fast (y0 x0 y1 x1 : Z) : list (Z * Z) :=
  let diff_y := Z.abs (y1 - y0) in
  let diff_x := Z.abs (x1 - x0) in
  let step_x := dstep x0 x1 in
  let step_y := dstep y0 y1 in
  if diff_x <? diff_y then
    (y0, x0) :: dl_fwd (Z.to_nat diff_y) y0 step_y x0 step_x (diff_x * 2 - diff_y) diff_y diff_x
  else
    map swap ((x0, y0) :: dl_fwd (Z.to_nat diff_x) x0 step_x y0 step_y (diff_y * 2 - diff_x) diff_x diff_y).

Definition line_fast (l : line) : list (Z * Z) :=
  draw_line_fast (fst (fst l)) (snd (fst l)) (fst (snd l)) (snd (snd l)).

Definition get_line_pts_fast (ls : list line) : list Z * list Z * list (Z * Z) :=
  let counts := map l_count ls in
  (indexes 0 counts, counts, flat_map line_fast ls).

(* ---------------------------------------------------------------- draw_line on an image *)

(* an image as a function of (y, x); labels[y, x] = value for the chronological write list *)
Definition image : Type := Z * Z -> Z.
Definition set_px (im : image) (q : Z * Z) (v : Z) : image :=
  fun p => if (fst p =? fst q) && (snd p =? snd q) then v else im p.
Definition paint (im : image) (pts : list (Z * Z)) (v : Z) : image :=
  fold_left (fun im' q => set_px im' q v) pts im.

(* ---------------------------------------------------------------- wire entries *)

Definition as_line (x : sx) : line :=
  ((as_Z (arg 0 x), as_Z (arg 1 x)), (as_Z (arg 2 x), as_Z (arg 3 x))).

(* draw_line: (y0 x0 y1 x1) -> ((y x) ...) or () when out of fuel *)
Definition entry_draw (x : sx) : sx :=
  match draw_line_pts (as_Z (arg 0 x)) (as_Z (arg 1 x)) (as_Z (arg 2 x)) (as_Z (arg 3 x)) with
  | Some pts => L [of_pairs pts]
  | None => L []
  end.

(* get_line_pts: ((i0 j0 i1 j1) ...) -> (index count i j) *)
Definition entry_lines (x : sx) : sx :=
  let '(index, counts, pts) := get_line_pts (map as_line (as_list x)) in
  L [of_Zs index; of_Zs counts; of_Zs (map fst pts); of_Zs (map snd pts)].

(* the same through the linear forms *)
Definition entry_draw_fast (x : sx) : sx :=
  L [of_pairs (draw_line_fast (as_Z (arg 0 x)) (as_Z (arg 1 x)) (as_Z (arg 2 x)) (as_Z (arg 3 x)))].

Definition entry_lines_fast (x : sx) : sx :=
  let '(index, counts, pts) := get_line_pts_fast (map as_line (as_list x)) in
  L [of_Zs index; of_Zs counts; of_Zs (map fst pts); of_Zs (map snd pts)].
