(* C18 — line-level model of centrosome/index.py all_pairs(n).  Definitions only. *)
From Coq Require Import ZArith List Bool Arith.
From Centro Require Import Base.Sx Base.Sort4C18 Model.VecC18.
Import ListNotations.
Local Open Scope nat_scope.

(* np.lexsort((k3, k2, k1)): primary k1, then k2, then k3, stable *)
Definition lexsort3 (k3 k2 k1 : list Z) : list nat :=
  map q_ix (qsort (combine (combine (combine k1 k2) k3) (seq 0 (length k1)))).

Definition all_pairs (n : nat) : list (nat * nat) :=
  (* i, j = [x.flatten() for x in np.mgrid[0:n, 0:n]] *)
  let i0 := flat_map (fun a => repeat a n) (seq 0 n) in
  let j0 := flat_map (fun _ => seq 0 n) (seq 0 n) in
  (* i, j = [x[i != j] for x in (i, j)] *)
  let ne := map2 (fun a b => negb (a =? b)) i0 j0 in
  let i1 := compress ne i0 in
  let j1 := compress ne j0 in
  (* order = np.lexsort((j, i, np.maximum(i, j))) *)
  let order := lexsort3 (map Z.of_nat j1) (map Z.of_nat i1) (map Z.of_nat (map2 Nat.max i1 j1)) in
  (* np.column_stack((i[order], j[order])) *)
  combine (map (getn i1) order) (map (getn j1) order).

Definition entry_all_pairs (x : sx) : sx :=
  L (map (fun p => L [I (Z.of_nat (fst p)); I (Z.of_nat (snd p))]) (all_pairs (as_nat x))).
