(* C09 — specification: the textbook Kalman predict/update (Welch & Bishop eqns 1.9-1.13) of ONE
   feature from its own previous tuple, its own correction history, and the abstraction from
   the batched state of the model to per-feature tuples.  No index arrays occur here. *)
From Coq Require Import ZArith List Bool QArith Qcanon.
From Centro Require Import Base.Sx Gen.ConstsC09 Model.Kalman.
Import ListNotations.
Open Scope Qc_scope.

(* a feature: state vector, covariance, noise-variance estimate, its own past corrections *)
Definition feat : Type := (vec * mat * vec * list vec)%type.
Definition f_x (f : feat) : vec := fst (fst (fst f)).
Definition f_P (f : feat) : mat := snd (fst (fst f)).
Definition f_nv (f : feat) : vec := snd (fst f).
Definition f_hist (f : feat) : list vec := snd f.
Definition feat0 : feat := ([], [], [], []).

(* eqns 1.9, 1.10 *)
Definition predict_x (A : mat) (x : vec) : vec := mvec A x.
Definition predict_P (A P q : mat) : mat := madd (mmul (mmul A P) (mtrans A)) q.
(* eqn 1.11: K = P H^T (H P H^T + r)^-1 *)
Definition innovation_cov (H Pp r : mat) : mat := madd (mmul (mmul H Pp) (mtrans H)) r.
Definition gain (H Pp r : mat) : mat := mmul (mmul Pp (mtrans H)) (inv1 (innovation_cov H Pp r)).
(* eqn 1.12: the correction K (z - H x^-) *)
Definition correction (H K : mat) (xp z : vec) : vec := mvec K (vsub z (mvec H xp)).
(* eqn 1.13, factored as in the code: P - K H P *)
Definition update_P (H K Pp : mat) : mat := msub Pp (mmul (mmul K H) Pp).

(* per-component population variance of a feature's own corrections *)
Definition var_cols (sl : nat) (hist : list vec) : vec :=
  map (fun i => var1 (map (fun row => nth i row 0) hist)) (seq 0 sl).

(* one step of a kept feature *)
Definition feat_step (A H : mat) (f : feat) (z : vec) (q r : mat) : feat :=
  let xp := predict_x A (f_x f) in
  let Pp := predict_P A (f_P f) q in
  let K := gain H Pp r in
  let c := correction H K xp z in
  let hist := f_hist f ++ [c] in
  (vadd xp c, update_P H K Pp, var_cols (ncols H) hist, hist).

(* a new feature: observed coordinates, SMALL variance where observed, LARGE where hidden,
   noise variance one, no history *)
Definition feat_new (H : mat) (z : vec) : feat :=
  (mvec (mtrans H) z, diag (init_cov_vec H), repeat 1 (ncols H), []).

(* the abstract frame step: every feature of the new frame from ITS OWN predecessor only *)
Definition map_step (A H : mat) (st : list feat) (f : frame) : list feat :=
  let '(old, coords, q, r) := f in
  map (fun k => match nth k old None with
                | Some o => feat_step A H (nth o st feat0) (nth k coords []) (nth k q []) (nth k r [])
                | None => feat_new H (nth k coords [])
                end) (seq 0 (length old)).
Definition spec_run (A H : mat) (st : list feat) (fs : list frame) : list feat :=
  fold_left (map_step A H) fs st.
Fixpoint spec_trace (A H : mat) (st : list feat) (fs : list frame) : list (list feat) :=
  match fs with [] => [] | f :: t => let st' := map_step A H st f in st' :: spec_trace A H st' t end.

(* ------------------------------------------------------------------ abstraction *)
Definition rows (s : kstate) : list (nat * vec) := combine (sidx s) (snoise s).
Definition history_of (k : nat) (rs : list (nat * vec)) : list vec :=
  map snd (filter (fun p => Nat.eqb (fst p) k) rs).
Definition feat_at (s : kstate) (k : nat) : feat :=
  (nth k (svec s) [], nth k (scov s) [], nth k (nvar s) [], history_of k (rows s)).
Definition abs (s : kstate) : list feat := map (feat_at s) (seq 0 (length (svec s))).

(* ------------------------------------------------------------------ validity of inputs *)
Definition wf (s : kstate) : Prop := length (snoise s) = length (sidx s).
Definition valid_frame (nold : nat) (f : frame) : Prop :=
  let '(o, c, q, r) := f in
  length c = length o /\ length q = length o /\ length r = length o /\
  (forall i, In i (somes o) -> (i < nold)%nat) /\ NoDup (somes o).
Fixpoint valid_frames (nold : nat) (fs : list frame) : Prop :=
  match fs with
  | [] => True
  | f :: t => valid_frame nold f /\ valid_frames (length (fst (fst (fst f)))) t
  end.

(* ------------------------------------------------------------------ wire *)
Definition of_feat (f : feat) : sx :=
  L [of_vec (f_x f); of_mat (f_P f); of_vec (f_nv f); L (map of_vec (f_hist f))].
(* entry_spec_run [H; A; frames]: per frame the list of per-feature tuples of the abstract
   specification, from the empty state; L [] on an invalid frame *)
Definition entry_spec_run (x : sx) : sx :=
  let H := as_mat (arg 0 x) in
  let A := as_mat (arg 1 x) in
  let fsx := as_list (arg 2 x) in
  let fs := map as_frame fsx in
  if existsb (fun f => old_has_bad (arg 0 f)) fsx || negb (valid_framesb 0 fs) then L []
  else L [L (map (fun st => L (map of_feat st)) (spec_trace A H [] fs))].
(* entry_abs_run: the abstraction of the batched model's trace (equal to entry_spec_run by
   kalman_refines; used for the in-kernel cross-check) *)
Definition entry_abs_run (x : sx) : sx :=
  let H := as_mat (arg 0 x) in
  let A := as_mat (arg 1 x) in
  let fsx := as_list (arg 2 x) in
  let fs := map as_frame fsx in
  if existsb (fun f => old_has_bad (arg 0 f)) fsx || negb (valid_framesb 0 fs) then L []
  else L [L (map (fun s => L (map of_feat (abs s))) (run_trace (fresh H A) fs))].

(* entry_run_abs [H; A; frames]: per frame the batched state of the model AND its per-feature
   abstraction.  By C09_fresh_refines_trace the second components are exactly the output of
   entry_spec_run, so one evaluation serves both the correspondence and the checker. *)
Definition entry_run_abs (x : sx) : sx :=
  let H := as_mat (arg 0 x) in
  let A := as_mat (arg 1 x) in
  let fsx := as_list (arg 2 x) in
  let fs := map as_frame fsx in
  if existsb (fun f => old_has_bad (arg 0 f)) fsx || negb (valid_framesb 0 fs) then L []
  else L [L (map (fun s => L [of_state s; L (map of_feat (abs s)); L (map of_vec (predicted_state_vec s));
                              L (map of_vec (predicted_obs_vec s))]) (run_trace (fresh H A) fs))].
