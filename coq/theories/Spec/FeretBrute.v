(* C14 — the brute-force minimum Feret diameter over a vertex cycle as an executable definition: the
   smallest, over the edges a -> a+1 (mod n), of (largest squared cross product of a vertex with the
   edge) / (squared edge length), as an exact rational (numerator, denominator). *)
From Coq Require Import ZArith List Bool.
From Centro Require Import Base.Sx Model.Feret Spec.CalipersHyp.
Import ListNotations.
Open Scope Z_scope.

Definition edge_num (h : list fpt) (a : nat) : Z :=
  let n := length h in
  fold_right (fun k m => Z.max (cross2 (pnth k h) (pnth a h) (pnth (nxt n a) h)) m) 0 (seq 0 n).
Definition edge_den (h : list fpt) (a : nat) : Z :=
  fdist2 (pnth a h) (pnth (nxt (length h) a) h).
Definition bf_min (h : list fpt) : option (Z * Z) :=
  fold_left (fun best a => qmin best (edge_num h a) (edge_den h a)) (seq 0 (length h)) None.

(* list of vertex lists -> per list (num den) of the brute-force minimum, () when there is no edge *)
Definition entry_bf_min_many (x : sx) : sx :=
  L (map (fun o => match bf_min (as_pairs o) with Some q => L [I (fst q); I (snd q)] | None => L [] end) (as_list x)).
