(* C15 — graph-theoretic definitions the label-graph utilities are measured against, as
   executable (flood-fill) specifications and boolean checkers that are evaluated on the
   implementation's own outputs.  Nothing here looks at the algorithms of the code: regions are
   grown pixel by pixel / vertex by vertex from the definition of adjacency. *)
From Coq Require Import ZArith NArith List Bool.
From Centro Require Import Base.Sx Base.GraphC15 Model.LabelGraph.
Import ListNotations.
Open Scope Z_scope.

Definition px := (Z * Z)%type.
Definition px_eqb (p q : px) : bool := (fst p =? fst q) && (snd p =? snd q).
(* 8-adjacency (distinct pixels at Chebyshev distance 1) and 4-adjacency (Manhattan distance 1) *)
Definition adj8 (p q : px) : bool :=
  (Z.abs (fst p - fst q) <=? 1) && (Z.abs (snd p - snd q) <=? 1) && negb (px_eqb p q).
Definition adj4 (p q : px) : bool := Z.abs (fst p - fst q) + Z.abs (snd p - snd q) =? 1.

(* grow the region reachable from [frontier] inside [rest]; returns what is left of [rest] *)
Fixpoint fill {A} (adj : A -> A -> bool) (fuel : nat) (frontier rest : list A) : list A :=
  match fuel with
  | O => rest
  | S f =>
      match frontier with
      | [] => rest
      | p :: fr =>
          let (nb, rest') := partition (adj p) rest in
          fill adj f (fr ++ nb) rest'
      end
  end.
(* number of connected components of the finite set [s] under [adj] *)
Fixpoint components {A} (adj : A -> A -> bool) (fuel : nat) (s : list A) : Z :=
  match fuel with
  | O => 0
  | S f =>
      match s with
      | [] => 0
      | p :: rest => 1 + components adj f (fill adj (S (length rest)) [p] rest)
      end
  end.
Definition n_components {A} (adj : A -> A -> bool) (s : list A) : Z := components adj (S (length s)) s.

(* ---------------------------------------------------------------- euler_number *)
Definition pixels_of (img : image) (l : Z) : list px :=
  filter (fun p => get2 img (fst p) (snd p) =? l) (positions (img_h img) (img_w img)).
(* the complement of label l inside the image grown by one pixel on every side *)
Definition complement_of (img : image) (l : Z) : list px :=
  filter (fun p => negb (get2 img (fst p) (snd p) =? l))
         (map (fun p => (fst p - 1, snd p - 1)) (positions (img_h img + 2) (img_w img + 2))).
(* 8-connected components minus holes (4-connected background components other than the outer one) *)
Definition euler_spec (img : image) (l : Z) : Z :=
  if l =? 0 then 0 else
  n_components adj8 (pixels_of img l) - (n_components adj4 (complement_of img l) - 1).
(* the code returns W as a float; the harness sends 4 W *)
Definition euler_ok (img : image) (indexes : list Z) (w4 : list Z) : bool :=
  (length indexes =? length w4)%nat &&
  forallb (fun p => snd p =? 4 * euler_spec img (fst p)) (combine indexes w4).

(* ---------------------------------------------------------------- find_neighbors *)
(* the labels m (not 0, not l) having a pixel 8-adjacent to a pixel of l, ascending *)
Definition neighbors_spec (img : image) (l : Z) : list Z :=
  zunique (filter (fun m => negb (m =? 0) && negb (m =? l))
            (flat_map (fun p => map (fun d => get2 img (fst p + fst d) (snd p + snd d)) dirs8)
                      (pixels_of img l))).
Fixpoint list_eqb (a b : list Z) : bool :=
  match a, b with
  | [], [] => true
  | x :: a', y :: b' => (x =? y) && list_eqb a' b'
  | _, _ => false
  end.
(* the same list computed from a table of (position, label) built once (cheap for sparse label
   numbers); equal to neighbors_spec: Proofs/SpecC15.v, neighbors_spec_tab_eq *)
Definition pixel_table (img : image) : list (px * Z) :=
  map (fun p => (p, get2 img (fst p) (snd p))) (positions (img_h img) (img_w img)).
Definition neighbors_spec_tab (tab : list (px * Z)) (img : image) (l : Z) : list Z :=
  zunique (filter (fun m => negb (m =? 0) && negb (m =? l))
            (flat_map (fun p => map (fun d => get2 img (fst p + fst d) (snd p + snd d)) dirs8)
                      (map fst (filter (fun q => snd q =? l) tab)))).
Definition neighbors_ok (img : image) (v_count v_index v_neighbor : list Z) : bool :=
  let mx := img_max img in
  let tab := pixel_table img in
  (Z.of_nat (length v_count) =? mx) && list_eqb v_index (excl_cumsum 0 v_count) &&
  (Z.of_nat (length v_neighbor) =? fold_right Z.add 0 v_count) &&
  forallb (fun r => list_eqb (slice (snd (fst r)) (fst (fst r)) v_neighbor) (neighbors_spec_tab tab img (snd r)))
          (combine (combine v_count v_index) (zrange 1 (Z.to_nat mx))).

(* ---------------------------------------------------------------- color_labels *)
Definition same_shape (a b : image) : bool :=
  (length a =? length b)%nat && forallb (fun r => (length (fst r) =? length (snd r))%nat) (combine a b).
Definition colors_ok (img col : image) : bool :=
  let ps := positions (img_h img) (img_w img) in
  let lab := fun p : px => get2 img (fst p) (snd p) in
  let c := fun p : px => get2 col (fst p) (snd p) in
  same_shape img col &&
  (* background 0, objects coloured *)
  forallb (fun p => if lab p =? 0 then c p =? 0 else 0 <? c p) ps &&
  (* one colour per label *)
  forallb (fun p => forallb (fun q => negb (lab p =? lab q) || (c p =? c q)) ps) ps &&
  (* 8-adjacent different labels have different colours *)
  forallb (fun p => forallb (fun d =>
     let q := (fst p + fst d, snd p + snd d) in
     (lab p =? 0) || (lab q =? 0) || (lab p =? lab q) || negb (c p =? c q)) dirs8) ps.

(* ---------------------------------------------------------------- relabel *)
Definition relabel_ok (img new : image) (n : Z) : bool :=
  let a := concat img in
  let b := concat new in
  let ab := combine a b in
  same_shape img new &&
  forallb (fun p => if fst p =? 0 then snd p =? 0 else (1 <=? snd p) && (snd p <=? n)) ab &&
  (* order (hence pixel sets) preserved *)
  forallb (fun p => forallb (fun q => (fst p =? 0) || (fst q =? 0) ||
                                       Bool.eqb (fst p <? fst q) (snd p <? snd q)) ab) ab &&
  (* every number 1..n is used *)
  forallb (fun k => existsb (fun v => v =? k) b) (zrange 1 (Z.to_nat n)).

(* ---------------------------------------------------------------- all_connected_components *)
(* Certificate checker (any size; arrays are maps).  The harness supplies a spanning forest of the
   undirected edge list: par[v] (= v for a root), for a non-root the index eidx[v] of an edge joining
   v and par[v], a depth dep[] that decreases towards the root, and rep[] giving for every label
   the root that carries it.  Checked here: every edge joins equal labels (connected => same label);
   every vertex hangs, through edges of the list, below a root (so it is connected to it and has its
   label); two roots never share a label (same label => connected).  Soundness:
   Proofs/AccCertC15.v, acc_cert_sound. *)
Definition acc_cert_ok (i j labels par eidx dep rep : list N) : bool :=
  match i with
  | [] => match labels with [] => true | _ => false end
  | _ =>
      let n := length labels in
      let lm := mof_list 0 labels mempty in
      let pm := mof_list 0 par mempty in
      let em := mof_list 0 eidx mempty in
      let dm := mof_list 0 dep mempty in
      let rm := mof_list 0 rep mempty in
      let im := mof_list 0 i mempty in
      let jm := mof_list 0 j mempty in
      let nN := N.of_nat n in
      let ne := N.of_nat (length i) in
      (length i =? length j)%nat && (n =? S (N.to_nat (list_maxN (i ++ j))))%nat &&
      forallb (fun e => N.eqb (mgetd lm (fst e)) (mgetd lm (snd e))) (combine i j) &&
      forallb (fun v =>
         let p := mgetd pm v in
         if N.eqb p v then N.eqb (mgetd rm (mgetd lm v)) v
         else N.ltb p nN && N.ltb (mgetd dm p) (mgetd dm v) &&
              (let k := mgetd em v in
               N.ltb k ne &&
               ((N.eqb (mgetd im k) v && N.eqb (mgetd jm k) p) || (N.eqb (mgetd im k) p && N.eqb (mgetd jm k) v))))
        (nseq 0 n)
  end.

(* ---------------------------------------------------------------- wire entries *)
(* (img indexes w4) -> bool *)
Definition entry_check_euler (x : sx) : sx :=
  of_bool (euler_ok (as_Zss (arg 0 x)) (as_Zs (arg 1 x)) (as_Zs (arg 2 x))).
(* (img count index neighbor) -> bool *)
Definition entry_check_neighbors (x : sx) : sx :=
  of_bool (neighbors_ok (as_Zss (arg 0 x)) (as_Zs (arg 1 x)) (as_Zs (arg 2 x)) (as_Zs (arg 3 x))).
(* (img colors) -> bool *)
Definition entry_check_colors (x : sx) : sx :=
  of_bool (colors_ok (as_Zss (arg 0 x)) (as_Zss (arg 1 x))).
(* (img new n) -> bool *)
Definition entry_check_relabel (x : sx) : sx :=
  of_bool (relabel_ok (as_Zss (arg 0 x)) (as_Zss (arg 1 x)) (as_Z (arg 2 x))).
(* (i j labels par eidx dep rep) -> bool *)
Definition entry_check_acc (x : sx) : sx :=
  let f := fun k => map Z.to_N (as_Zs (arg k x)) in
  of_bool (acc_cert_ok (f 0%nat) (f 1%nat) (f 2%nat) (f 3%nat) (f 4%nat) (f 5%nat) (f 6%nat)).
