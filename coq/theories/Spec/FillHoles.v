(* C08 — declarative statement of "labelled hole filling" on the region-adjacency graph of an
   image, and a boolean checker for a candidate output that does not use the worklist walks of
   the implementation: the unchanged set is computed by naive rounds of rule application and
   confirmed closed; the repainting is checked by reachability inside clusters of changed
   regions.  Soundness: Proofs/FillSpec.v. *)
From Coq Require Import ZArith List Bool.
From Centro Require Import Base.Sx Base.FillZMap Model.FillHoles.
Import ListNotations.
Open Scope Z_scope.

Section Graph.
Variable edges : list (Z * Z).     (* directed pairs (i, j): region j is 4-adjacent to region i *)
Variable border : list Z.          (* regions with a pixel on the image border *)
Variable lcount : Z.               (* v <= lcount: object; above: background component *)

Definition isobj (v : Z) : bool := v <=? lcount.

(* the least set closed under R1 (touches the border), R2 (object next to unchanged background),
   R3 (next to two different unchanged objects) *)
Inductive Unch : Z -> Prop :=
| Unch_border v : In v border -> Unch v
| Unch_obj_bg i j : Unch i -> isobj i = false -> In (i, j) edges -> isobj j = true -> Unch j
| Unch_two i1 i2 j : Unch i1 -> Unch i2 -> isobj i1 = true -> isobj i2 = true -> i1 <> i2 ->
                     In (i1, j) edges -> In (i2, j) edges -> Unch j.

(* w lies in the cluster of changed regions around v *)
Inductive Cluster (v : Z) : Z -> Prop :=
| Cl_refl : Cluster v v
| Cl_step w x : Cluster v w -> In (w, x) edges -> ~ Unch x -> Cluster v x.

(* k is an unchanged object adjacent to the cluster of v *)
Definition Parent (v k : Z) : Prop :=
  Unch k /\ isobj k = true /\ exists w, Cluster v w /\ In (k, w) edges.

(* what a correct repainting [paint : region -> new pixel value] is *)
Definition paint_ok (v : Z) (new : Z) : Prop :=
  (Unch v -> new = if isobj v then v else 0) /\ (~ Unch v -> Parent v new).

(* ---------------------------------------------------------------- executable side *)

Definition fires (U : zmap bool) (j : Z) : bool :=
  existsb (fun e => (snd e =? j) && getb U (fst e) && negb (isobj (fst e)) && isobj j) edges
  || match map fst (filter (fun e => (snd e =? j) && getb U (fst e) && isobj (fst e)) edges) with
     | [] => false
     | k :: t => existsb (fun x => negb (x =? k)) t
     end.

Definition round_add (nodes : list Z) (U : zmap bool) : zmap bool :=
  fold_left (fun Ua j => if getb Ua j then Ua else if fires Ua j then zset Ua j true else Ua) nodes U.

Definition closed_b (nodes : list Z) (U : zmap bool) : bool :=
  forallb (fun j => getb U j || negb (fires U j)) nodes.

Fixpoint rounds (fuel : nat) (nodes : list Z) (U : zmap bool) : zmap bool :=
  match fuel with
  | O => U
  | S f => if closed_b nodes U then U else rounds f nodes (round_add nodes U)
  end.

Definition unch_exec (fuel : nat) (nodes : list Z) : zmap bool :=
  rounds fuel nodes (fold_left (fun m v => zset m v true) border zempty).

(* changed regions from which the unchanged object k can be reached inside the cluster *)
Definition reach_round (U : zmap bool) (k : Z) (R : zmap bool) : zmap bool :=
  fold_left (fun Sa e => if negb (getb U (snd e)) && ((fst e =? k) || getb Sa (fst e)) && negb (getb Sa (snd e))
                         then zset Sa (snd e) true else Sa) edges R.

Definition reach_stable (U : zmap bool) (k : Z) (R : zmap bool) : bool :=
  forallb (fun e => negb (negb (getb U (snd e)) && ((fst e =? k) || getb R (fst e)) && negb (getb R (snd e)))) edges.

Fixpoint reach (fuel : nat) (U : zmap bool) (k : Z) (R : zmap bool) : zmap bool :=
  match fuel with
  | O => R
  | S f => if reach_stable U k R then R else reach f U k (reach_round U k R)
  end.

End Graph.

(* ---------------------------------------------------------------- on images *)

Record scene : Type := mkScene {
  sc_H : nat; sc_W : nat;
  sc_lab : zmap Z;           (* the input pixels *)
  sc_reg : zmap Z;           (* region id of every pixel *)
  sc_lcount : Z;
  sc_edges : list (Z * Z);
  sc_border : list Z;
  sc_nodes : list Z
}.

Definition scene_of (rows : list (list Z)) : scene :=
  let H := length rows in
  let W := length (hd [] rows) in
  let vals := concat rows in
  let pix := zload vals 0 zempty in
  let npix := length vals in
  let r := label4 (Z.of_nat H) (Z.of_nat W) pix npix in
  let lcount := fold_left Z.max vals 0 in
  let reg := fold_left (fun m p => if getz (fst r) p =? 0 then m else zset m p (getz (fst r) p + lcount + 1))
                       (zseq 0 npix) pix in
  let raw := filter (fun p => negb (fst p =? snd p)) (raw_pairs H W reg) in
  let edges := raw ++ map swap raw in
  let border := border_vals H W reg in
  mkScene H W pix reg lcount edges border (border ++ map snd edges).

(* [out] given as the flat list of output pixels *)
Definition fill_check (rows : list (list Z)) (outrows : list (list Z)) : bool :=
  let sc := scene_of rows in
  let npix := (sc_H sc * sc_W sc)%nat in
  let out := zload (concat outrows) 0 zempty in
  let fuel := S (length (sc_nodes sc)) in
  let U := unch_exec (sc_edges sc) (sc_border sc) (sc_lcount sc) fuel (sc_nodes sc) in
  (* shapes agree *)
  (length (concat outrows) =? npix)%nat && (length outrows =? sc_H sc)%nat &&
  (* the computed set is closed under the rules (so it is the least closed set, not a subset) *)
  closed_b (sc_edges sc) (sc_lcount sc) (sc_nodes sc) U &&
  (* per pixel *)
  forallb (fun p =>
             let v := getz (sc_reg sc) p in
             let o := getz out p in
             if getb U v then o =? getz (sc_lab sc) p
             else (o <=? sc_lcount sc) && getb U o && negb (o =? 0) &&
                  getb (reach (sc_edges sc) fuel U o zempty) v)
          (zseq 0 npix).

(* arg 0: the label image, arg 1: the image returned by the implementation *)
Definition entry_check (x : sx) : sx := of_bool (fill_check (as_Zss (arg 0 x)) (as_Zss (arg 1 x))).

(* is_not_hole of the specification for regions 0 .. n-1 (n = arg 1), for diagnostics and for
   comparing the first walk's array with the rule-closure directly *)
Definition entry_spec (x : sx) : sx :=
  let sc := scene_of (as_Zss (arg 0 x)) in
  let U := unch_exec (sc_edges sc) (sc_border sc) (sc_lcount sc) (S (length (sc_nodes sc))) (sc_nodes sc) in
  of_bools (map (getb U) (zseq 0 (Z.to_nat (as_Z (arg 1 x))))).

(* ---------------------------------------------------------------- the image-level statement *)

(* what the image-level theorem (Proofs/FillImage.v) talks about: the region image, the region
   graph and the border regions of a label image under a background labelling [bl] *)
Definition img_lcount (rows : list (list Z)) : Z := fold_left Z.max (concat rows) 0.
Definition img_regions (rows : list (list Z)) (bl : zmap Z) : zmap Z :=
  fold_left (fun m p => if getz bl p =? 0 then m else zset m p (getz bl p + img_lcount rows + 1))
            (zseq 0 (length (concat rows))) (zload (concat rows) 0 zempty).
Definition img_border (rows : list (list Z)) (bl : zmap Z) : list Z :=
  todo_of (border_vals (length rows) (length (hd [] rows)) (img_regions rows bl)).
Definition img_edges (rows : list (list Z)) (bl : zmap Z) : list (Z * Z) :=
  sym_edges (filter (fun p : Z * Z => negb (fst p =? snd p))
                    (raw_pairs (length rows) (length (hd [] rows)) (img_regions rows bl))).

(* "[bl], [count] number the 4-connected components of the background {pix = 0}" — the part of
   scipy.ndimage.label's contract that the theorem uses *)
Record valid_labelling (rows : list (list Z)) (bl : zmap Z) (count : Z) : Prop := {
  vl_bg : forall p, 0 <= p < Z.of_nat (length (concat rows)) ->
          (getz bl p <> 0 <-> getz (zload (concat rows) 0 zempty) p = 0);
  vl_range : forall p, 0 <= p < Z.of_nat (length (concat rows)) -> 0 <= getz bl p <= count;
  vl_vert : forall r c, 0 <= r < Z.of_nat (length rows) - 1 -> 0 <= c < Z.of_nat (length (hd [] rows)) ->
          let Wz := Z.of_nat (length (hd [] rows)) in
          getz (zload (concat rows) 0 zempty) (r * Wz + c) = 0 -> getz (zload (concat rows) 0 zempty) ((r + 1) * Wz + c) = 0 ->
          getz bl (r * Wz + c) = getz bl ((r + 1) * Wz + c);
  vl_horiz : forall r c, 0 <= r < Z.of_nat (length rows) -> 0 <= c < Z.of_nat (length (hd [] rows)) - 1 ->
          let Wz := Z.of_nat (length (hd [] rows)) in
          getz (zload (concat rows) 0 zempty) (r * Wz + c) = 0 -> getz (zload (concat rows) 0 zempty) (r * Wz + c + 1) = 0 ->
          getz bl (r * Wz + c) = getz bl (r * Wz + c + 1)
}.

(* the same as a boolean test (run on scipy's output for every case, and on label4's) *)
Definition labelling_ok_b (rows : list (list Z)) (bl : zmap Z) (count : Z) : bool :=
  let H := length rows in
  let W := length (hd [] rows) in
  let Wz := Z.of_nat W in
  let pix := zload (concat rows) 0 zempty in
  forallb (fun p => Bool.eqb (negb (getz bl p =? 0)) (getz pix p =? 0) && (0 <=? getz bl p) && (getz bl p <=? count))
          (zseq 0 (length (concat rows))) &&
  forallb (fun r => forallb (fun c => negb ((getz pix (r * Wz + c) =? 0) && (getz pix ((r + 1) * Wz + c) =? 0)) ||
                                       (getz bl (r * Wz + c) =? getz bl ((r + 1) * Wz + c))) (zseq 0 W)) (zseq 0 (pred H)) &&
  forallb (fun r => forallb (fun c => negb ((getz pix (r * Wz + c) =? 0) && (getz pix (r * Wz + c + 1) =? 0)) ||
                                       (getz bl (r * Wz + c) =? getz bl (r * Wz + c + 1))) (zseq 0 (pred W))) (zseq 0 H).

Definition rect_nonneg (rows : list (list Z)) : Prop :=
  Forall (fun r => length r = length (hd [] rows)) rows /\ Forall (fun v => 0 <= v) (concat rows) /\
  (0 < length (hd [] rows))%nat /\ (0 < length rows)%nat.

(* arg 0: image, arg 1: blabels, arg 2: count -> (hypothesis holds for the given labelling,
   hypothesis holds for the model's own flood fill) *)
Definition entry_label_ok (x : sx) : sx :=
  let rows := as_Zss (arg 0 x) in
  let own := label4 (Z.of_nat (length rows)) (Z.of_nat (length (hd [] rows))) (zload (concat rows) 0 zempty) (length (concat rows)) in
  L [of_bool (labelling_ok_b rows (zload (concat (as_Zss (arg 1 x))) 0 zempty) (as_Z (arg 2 x)));
     of_bool (labelling_ok_b rows (fst own) (snd own))].

(* ---------------------------------------------------------------- ordinary binary hole filling *)
Definition pixv (rows : list (list Z)) (p : Z) : Z := getz (zload (concat rows) 0 zempty) p.

(* p and q are 4-adjacent pixel indices of an H x W image *)
Definition adj4 (H W : Z) (p q : Z) : Prop :=
  exists r c,
    (0 <= r < H - 1 /\ 0 <= c < W /\ ((p = r * W + c /\ q = (r + 1) * W + c) \/ (q = r * W + c /\ p = (r + 1) * W + c))) \/
    (0 <= r < H /\ 0 <= c < W - 1 /\ ((p = r * W + c /\ q = r * W + c + 1) \/ (q = r * W + c /\ p = r * W + c + 1))).

Inductive BgPath (rows : list (list Z)) (p : Z) : Z -> Prop :=
| BgPath_refl : BgPath rows p p
| BgPath_step q s : BgPath rows p q ->
    adj4 (Z.of_nat (length rows)) (Z.of_nat (length (hd [] rows))) q s -> pixv rows s = 0 -> BgPath rows p s.

Definition on_border (H W : Z) (p : Z) : Prop :=
  exists r c, p = r * W + c /\ 0 <= r < H /\ 0 <= c < W /\ (r = 0 \/ r = H - 1 \/ c = 0 \/ c = W - 1).

(* the background pixel p is connected to the image border through background: not a hole *)
Definition Outside (rows : list (list Z)) (p : Z) : Prop :=
  exists q, on_border (Z.of_nat (length rows)) (Z.of_nat (length (hd [] rows))) q /\ pixv rows q = 0 /\ BgPath rows q p.

(* the other half of "numbers the components": equal numbers only within one component *)
Definition components_separate (rows : list (list Z)) (bl : zmap Z) : Prop :=
  forall p q, 0 <= p < Z.of_nat (length (concat rows)) -> 0 <= q < Z.of_nat (length (concat rows)) ->
    getz bl p = getz bl q -> getz bl p <> 0 -> BgPath rows p q.
