(* C06 — the documented rule of every built-in 3x3 operation, transcribed from the docstring /
   comment next to its table in cpmorphology.py, as a predicate on the nine neighbourhood bits
        b0 b1 b2
        b3 b4 b5        (b4 = the pixel itself)
        b6 b7 b8
   "Objects after labelling" is [ncomp]: number of 4- or 8-connected components of the set
   cells of the 3x3 pattern.                                                                  *)
From Coq Require Import ZArith List Bool Arith.
From Centro Require Import Base.Sx Base.LutBits Spec.LutRule.
Import ListNotations.
Open Scope nat_scope.

Definition bit (l : list bool) (k : nat) : bool := nth k l false.
Definition cnt (l : list bool) : nat := length (filter (fun x => x) l).
Definition absd (a b : nat) : nat := (a - b) + (b - a).
Definition adj (eight : bool) (k l : nat) : bool :=
  let dr := absd (k / 3) (l / 3) in
  let dc := absd (k mod 3) (l mod 3) in
  if eight then (dr <=? 1) && (dc <=? 1) && negb (k =? l) else (dr + dc =? 1).
Definition relax (eight : bool) (bits : list bool) (lab : list nat) : list nat :=
  map (fun k => if bit bits k
                then fold_left (fun m l => if bit bits l && adj eight k l then Nat.min m (nth l lab 9) else m)
                               (seq 0 9) (nth k lab 9)
                else 9) (seq 0 9).
Definition ncomp (eight : bool) (bits : list bool) : nat :=
  let lab := iter 9 (relax eight bits) (seq 0 9) in
  length (filter (fun k => bit bits k && (nth k lab 9 =? k)) (seq 0 9)).

Definition set_bit (k : nat) (v : bool) (l : list bool) : list bool :=
  map (fun i => if i =? k then v else bit l i) (seq 0 9).
Definition beq_bits (l m : list bool) : bool := list_eqb Bool.eqb l m.

Definition c_ (l : list bool) := bit l 4.
Definition nbrs (l : list bool) : nat := cnt (set_bit 4 false l).

(* "a pixel is 1 if the sum of it and its neighbors is > 4" *)
Definition doc_majority l := 4 <? cnt l.
(* "Remove isolated pixels" *)
Definition doc_clean l := c_ l && negb (nbrs l =? 0).
(* "keep all ones. Change a zero surrounded by ones to 1" *)
Definition doc_fill l := c_ l || (nbrs l =? 8).
(* "keep if 1. Change a zero with 1's at N-S-E-W to 1" *)
Definition doc_fill4 l := c_ l || (bit l 1 && bit l 3 && bit l 5 && bit l 7).
(* "keep all ones except for the hbreak case  111 / 010 / 111" *)
Definition doc_hbreak l := c_ l && negb (beq_bits l [true;true;true; false;true;false; true;true;true]).
(* "keep all ones except for the vbreak case  101 / 111 / 101" *)
Definition doc_vbreak l := c_ l && negb (beq_bits l [true;false;true; true;true;true; true;false;true]).
(* "Keep all pixels. ... 4-connect two pixels that are 8-connected": a clear pixel between two
   set edge neighbours that touch only diagonally (the corner between them is clear) is set *)
Definition doc_diag l :=
  c_ l || (bit l 1 && bit l 3 && negb (bit l 0)) || (bit l 1 && bit l 5 && negb (bit l 2))
       || (bit l 7 && bit l 5 && negb (bit l 8)) || (bit l 7 && bit l 3 && negb (bit l 6)).
(* "a pixel is changed from 1 to 0 if all of its 4-connected neighbors are 1" *)
Definition doc_remove l := c_ l && negb (bit l 1 && bit l 3 && bit l 5 && bit l 7).
(* "A spur pixel has only one neighbor"; table 1 "removes if the only neighbor is in the top row
   or left", table 2 "removes if the only neighbor is in the bottom row or right" *)
Definition doc_spur1 l := c_ l && negb ((nbrs l =? 1) && (bit l 0 || bit l 1 || bit l 2 || bit l 3)).
Definition doc_spur2 l := c_ l && negb ((nbrs l =? 1) && (bit l 5 || bit l 6 || bit l 7 || bit l 8)).
(* "Endpoints are on and have at most one neighbor" *)
Definition doc_endpoints l := c_ l && (nbrs l <=? 1).
(* "the middle pixel must always be on. Removing the middle pixel should create three objects
   after labeling using 4-connectivity" *)
Definition doc_branchpoints l := c_ l && (2 <? ncomp false (set_bit 4 false l)).
(* "Either the center is already true or, if you label the pattern, there are two unconnected
   objects in the pattern" (8-connected) *)
Definition doc_bridge l := c_ l || (1 <? ncomp true l).
(* "turns pixels on if they have a neighbor that's on and if adding the pixel does not connect
   any neighbors" (8-connected): the set neighbours form exactly one object *)
Definition doc_thicken l := c_ l || (ncomp true (set_bit 4 false l) =? 1).
(* Conway's rule: a live cell survives with 2 or 3 live neighbours, a dead cell with exactly 3
   becomes live *)
Definition doc_life l := if c_ l then (nbrs l =? 2) || (nbrs l =? 3) else (nbrs l =? 3).

(* the nine bits of a table index, and the 512-entry table of a predicate *)
Definition bits_of (k : nat) : list bool := map (fun i => Nat.odd (k / 2 ^ i)) (seq 0 9).
Definition doc_table (P : list bool -> bool) : list bool := map (fun k => P (bits_of k)) (seq 0 512).

(* the operation as a rule on images *)
Definition op_rule (P : list bool -> bool) (b : bool) (X : grid bool) : grid bool :=
  tab (length X) (length (hd [] X)) (fun p q => P (nbits b X p q)).

(* ------------------------------------------------------------------ the operations *)
(* per operation, in the order of the wire codes 0..12: documented predicate, border value read
   outside the image, value given to masked-out pixels before the operation (None: the
   operation takes no mask into account), iteration mode (-2: the caller's count, -1: until
   nothing changes, k: exactly k) *)
Definition doc_ops : list ((list bool -> bool) * (bool * option bool * Z)) :=
  [ (doc_branchpoints, (false, Some false, 1%Z));
    (doc_bridge,       (false, Some false, (-2)%Z));
    (doc_clean,        (false, Some false, (-2)%Z));
    (doc_diag,         (false, Some false, (-2)%Z));
    (doc_endpoints,    (false, Some false, 1%Z));
    (doc_fill,         (true,  Some true,  (-2)%Z));
    (doc_fill4,        (true,  Some true,  (-2)%Z));
    (doc_hbreak,       (false, Some false, (-1)%Z));
    (doc_vbreak,       (false, Some false, (-1)%Z));
    (doc_life,         (false, None,       (-2)%Z));
    (doc_majority,     (false, Some false, (-2)%Z));
    (doc_remove,       (false, Some false, (-1)%Z));
    (doc_thicken,      (false, Some false, (-2)%Z)) ].

Definition meta_code (m : bool * option bool * Z) : Z * Z * Z :=
  let '(b, f, mode) := m in
  (Z.b2z b, match f with None => (-1)%Z | Some v => Z.b2z v end, mode).

Definition spec_masked (X : grid bool) (M : option (grid bool)) (fillv : bool) : grid bool :=
  match M with
  | None => X
  | Some m => tab (length X) (length (hd [] X)) (fun p q => if rd false m p q then rd false X p q else fillv)
  end.
Definition spec_restore (X : grid bool) (M : option (grid bool)) (R : grid bool) : grid bool :=
  match M with
  | None => R
  | Some m => tab (length X) (length (hd [] X)) (fun p q => if rd false m p q then rd false R p q else rd false X p q)
  end.

Fixpoint rule_fix (fuel : nat) (step : grid bool -> grid bool) (X : grid bool) : option (grid bool) :=
  match fuel with
  | O => None
  | S f => let Y := step X in if grid_eqb Y X then Some X else rule_fix f step Y
  end.

Definition op_spec (code : Z) (X : grid bool) (M : option (grid bool)) (iters : option nat) : option (grid bool) :=
  if (code =? 13)%Z then
    (* spur: alternate the two half-rules, [iterations] times each; None = as many times as
       there are set pixels (enough to reach the point where nothing changes) *)
    let Xm := spec_masked X M false in
    let n := match iters with None => cnt (concat Xm) | Some k => k end in
    Some (spec_restore X M (iter n (fun Y => op_rule doc_spur2 false (op_rule doc_spur1 false Y)) Xm))
  else match nth_error doc_ops (Z.to_nat code) with
  | None => None
  | Some (P, (b, f, mode)) =>
      let M' := match f with None => None | Some _ => M end in
      let Xm := spec_masked X M' (match f with Some v => v | None => false end) in
      let it := if (mode =? -2)%Z then iters else if (mode <? 0)%Z then None else Some (Z.to_nat mode) in
      match it with
      | Some k => Some (spec_restore X M' (iter k (op_rule P b) Xm))
      | None => match rule_fix FUEL (op_rule P b) Xm with
                | Some R => Some (spec_restore X M' R)
                | None => None
                end
      end
  end.

(* [code; img; mask or []; iters] *)
Definition entry_opspec (x : sx) : sx :=
  let M := match as_list (arg 2 x) with [] => None | _ => Some (as_boolss (arg 2 x)) end in
  let it := if (as_Z (arg 3 x) <? 0)%Z then None else Some (Z.to_nat (as_Z (arg 3 x))) in
  of_ogrid (op_spec (as_Z (arg 0 x)) (as_boolss (arg 1 x)) M it).
