(* C14 — the hypothesis of the calipers theorems as a boolean evaluated on every run's hulls:
   the vertex cycle is strictly convex in one of the two orientations, i.e. every vertex other
   than an edge's two end points lies STRICTLY on one and the same side of that edge's line. *)
From Coq Require Import ZArith List Bool.
From Centro Require Import Base.Sx Model.Feret.
Import ListNotations.
Open Scope Z_scope.

Definition nxt (n k : nat) : nat := if (S k =? n)%nat then O else S k.

Definition strict_side (h : list fpt) (sg : Z) : bool :=
  let n := length h in
  forallb (fun i => forallb (fun k =>
      (k =? i)%nat || (k =? nxt n i)%nat ||
      (0 <? sg * fcross (pnth k h) (pnth i h) (pnth (nxt n i) h))) (seq 0 n)) (seq 0 n).

Definition strict_convex_ok (h : list fpt) : bool :=
  (3 <=? length h)%nat && (strict_side h 1 || strict_side h (-1)).

Definition entry_strict_convex_many (x : sx) : sx :=
  L (map (fun o => of_bool (strict_convex_ok (as_pairs o))) (as_list x)).
