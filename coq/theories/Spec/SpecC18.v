(* C18 — declarative specifications and boolean checkers.  Definitions only (soundness of the
   checkers is in Proofs/CheckC18.v). *)
From Coq Require Import ZArith List Bool Arith Sorted Permutation.
From Centro Require Import Base.Sx Base.SortC18 Model.VecC18.
Import ListNotations.
Local Open Scope nat_scope.

Definition memz (x : Z) (l : list Z) : bool := existsb (Z.eqb x) l.
Fixpoint zsorted_ltb (l : list Z) : bool :=
  match l with x :: ((y :: _) as r) => (x <? y)%Z && zsorted_ltb r | _ => true end.
Fixpoint forallb2 {A B} (f : A -> B -> bool) (l1 : list A) (l2 : list B) : bool :=
  match l1, l2 with
  | a :: r1, b :: r2 => f a b && forallb2 f r1 r2
  | [], [] => true
  | _, _ => false
  end.

(* ------------------------------------------------------------------ rank_order *)
(* ranks order-isomorphic to the values; values = the sorted distinct input values, inverting
   the ranks *)
Definition rank_iso_spec (image : list Z) (r : list nat) (v : list Z) : Prop :=
  length r = length image /\
  StronglySorted Z.lt v /\
  (forall i, i < length image -> getn r i < length v /\ getz v (getn r i) = getz image i) /\
  (forall i j, i < length image -> j < length image ->
               ((getz image i < getz image j)%Z <-> getn r i < getn r j)) /\
  (forall x, In x v <-> In x image).

Definition rank_iso_check (image : list Z) (r : list nat) (v : list Z) : bool :=
  zsorted_ltb v &&
  forallb2 (fun ri x => (ri <? length v) && (getz v ri =? x)%Z) r image &&
  forallb (fun x => memz x image) v.

(* with a bin limit: the complete characterisation proved of the model ... *)
Definition bins_spec (image : list Z) (nbins : nat) (r : list nat) (v : list Z) : Prop :=
  length r = length image /\
  v <> [] /\ length v <= nbins /\
  StronglySorted Z.lt v /\ incl v image /\
  (forall i, i < length image ->
     getn r i < length v /\ (getz v (getn r i) <= getz image i)%Z /\
     (S (getn r i) < length v -> (getz image i < getz v (S (getn r i)))%Z)) /\
  (forall i j, i < length image -> j < length image ->
     (getz image i <= getz image j)%Z -> getn r i <= getn r j).

(* ... and the clauses of the property text, checked on the implementation's output:
   at most nbins levels, monotone coarsening, representatives are input values *)
Definition bins_text_spec (image : list Z) (nbins : nat) (r : list nat) (v : list Z) : Prop :=
  length r = length image /\ length v <= nbins /\
  (forall i, i < length image -> getn r i < length v) /\
  (forall i j, i < length image -> j < length image ->
     (getz image i <= getz image j)%Z -> getn r i <= getn r j) /\
  incl v image.

Definition bins_check (image : list Z) (nbins : nat) (r : list nat) (v : list Z) : bool :=
  (length r =? length image) && (length v <=? nbins) &&
  forallb (fun ri => ri <? length v) r &&
  forallb (fun p => forallb (fun q => implb (fst p <=? fst q)%Z (snd p <=? snd q)) (combine image r))
          (combine image r) &&
  forallb (fun x => memz x image) v.

(* ------------------------------------------------------------------ median_of_labels *)
(* the pixel values carrying label l *)
Definition sel (image : list Z) (labels : list nat) (l : nat) : list Z :=
  map fst (filter (fun p => snd p =? l) (combine image labels)).
(* median of a multiset of integers whose even-count middle pairs have an even sum (the harness
   sends doubled values); None = NaN for the empty multiset *)
Definition median_of (s : list Z) : option Z :=
  match s with
  | [] => None
  | _ => let t := zsort s in
         let c := length t in
         if Nat.even c then Some ((getz t (c / 2 - 1) + getz t (c / 2)) / 2)%Z
         else Some (getz t (c / 2))
  end.
Definition median_ref (image : list Z) (labels indices : list nat) : list (option Z) :=
  map (fun l => median_of (sel image labels l)) indices.

(* ------------------------------------------------------------------ mode *)
Definition zcount (x : Z) (a : list Z) : nat := length (filter (Z.eqb x) a).
Definition mode_spec (a res : list Z) : Prop :=
  StronglySorted Z.lt res /\
  forall x, In x res <-> (In x a /\ forall y, zcount y a <= zcount x a).
Definition most_frequentb (a : list Z) (x : Z) : bool :=
  forallb (fun y => zcount y a <=? zcount x a) a.
Definition mode_check (a res : list Z) : bool :=
  zsorted_ltb res &&
  forallb (fun x => memz x a && most_frequentb a x) res &&
  forallb (fun x => implb (most_frequentb a x) (memz x res)) a.

(* ------------------------------------------------------------------ Indexes *)
(* row-major (C order) enumeration of the coordinates of an array of shape dims *)
Fixpoint enum (dims : list nat) : list (list nat) :=
  match dims with
  | [] => [[]]
  | c :: r => flat_map (fun i => map (cons i) (enum r)) (seq 0 c)
  end.
Definition column (o : nat) (counts : list (list nat)) : list nat := map (fun row => getn row o) counts.
(* every sub-array coordinate of every object: (object, coordinate tuple), objects in order *)
Definition rows_spec (counts : list (list nat)) : list (nat * list nat) :=
  flat_map (fun o => map (pair o) (enum (column o counts))) (seq 0 (length (hd [] counts))).
Definition indexes_ref (counts : list (list nat)) : nat * list nat * list nat * list (list nat) :=
  let rs := rows_spec counts in
  (length rs,
   map (fun o => length (filter (fun p => fst p <? o) rs)) (seq 0 (length (hd [] counts))),
   map fst rs,
   map (fun d => map (fun p => getn (snd p) d) rs) (seq 0 (length counts))).

(* ------------------------------------------------------------------ pairwise_permutations *)
(* every pair of positions a < b of the list whose group labels agree, in (a, b) order *)
Fixpoint all_pairs_from (l : list (Z * Z)) : list (Z * Z * Z) :=
  match l with
  | [] => []
  | p :: r => map (fun q => (fst p, snd p, snd q)) (filter (fun q => (fst q =? fst p)%Z) r)
              ++ all_pairs_from r
  end.
(* the (i, j) rows sorted by i then j *)
Definition sorted_rows (i j : list Z) : list (Z * Z) :=
  map fst (tsort (combine (combine i j) (seq 0 (length i)))).
Definition pairwise_ref (i j : list Z) : list (Z * Z * Z) := all_pairs_from (sorted_rows i j).
Definition canon (t : Z * Z * Z) : Z * Z * Z :=
  let '(g, a, b) := t in (g, Z.min a b, Z.max a b).

(* ------------------------------------------------------------------ wire entries *)
Definition as_nats (x : sx) : list nat := map Z.to_nat (as_Zs x).
Definition of_nats (l : list nat) : sx := of_Zs (map Z.of_nat l).
Definition of_triples (l : list (Z * Z * Z)) : sx :=
  L (map (fun t => L [I (fst (fst t)); I (snd (fst t)); I (snd t)]) l).
Definition of_optz (o : option Z) : sx := match o with Some z => L [I z] | None => L [] end.

(* (image r v) *)
Definition entry_check_rank (x : sx) : sx :=
  of_bool (rank_iso_check (as_Zs (arg 0 x)) (as_nats (arg 1 x)) (as_Zs (arg 2 x))).
(* (image nbins r v) *)
Definition entry_check_bins (x : sx) : sx :=
  of_bool (bins_check (as_Zs (arg 0 x)) (as_nat (arg 1 x)) (as_nats (arg 2 x)) (as_Zs (arg 3 x))).
(* (image labels indices) *)
Definition entry_median_ref (x : sx) : sx :=
  L (map of_optz (median_ref (as_Zs (arg 0 x)) (as_nats (arg 1 x)) (as_nats (arg 2 x)))).
(* (a res) *)
Definition entry_check_mode (x : sx) : sx := of_bool (mode_check (as_Zs (arg 0 x)) (as_Zs (arg 1 x))).
Definition of_indexes (o : nat * list nat * list nat * list (list nat)) : sx :=
  let '(len, fwd, rev, idx) := o in L [of_nat len; of_nats fwd; of_nats rev; L (map of_nats idx)].
(* (row row ...) *)
Definition entry_indexes_ref (x : sx) : sx := of_indexes (indexes_ref (map as_nats (as_list x))).
(* (i j) *)
Definition entry_pairs_ref (x : sx) : sx := of_triples (pairwise_ref (as_Zs (arg 0 x)) (as_Zs (arg 1 x))).
Definition entry_pairs_all (x : sx) : sx :=
  of_triples (map canon (all_pairs_from (combine (as_Zs (arg 0 x)) (as_Zs (arg 1 x))))).
