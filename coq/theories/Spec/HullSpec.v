(* C02 — declarative specification of "V is the convex hull polygon of the point set S" and
   the boolean checker that is run on the implementation's output.  [cross] is the kernel's own
   cross product (x = j, y = i). *)
From Coq Require Import ZArith List Bool.
From Centro Require Import Base.Sx Model.Hull.
Import ListNotations.
Open Scope Z_scope.

Definition pt_eqb (a b : pt) : bool := (fst a =? fst b) && (snd a =? snd b).
Definition mem_pt (a : pt) (l : list pt) : bool := existsb (pt_eqb a) l.
Fixpoint nodup_pt (l : list pt) : bool :=
  match l with
  | [] => true
  | a :: t => negb (mem_pt a t) && nodup_pt t
  end.

(* (a, b, c) are cyclically consecutive vertices of V *)
Definition cyc (V : list pt) : list pt := V ++ firstn 2 V.
Definition consecutive (V : list pt) (a b c : pt) : Prop :=
  exists l1 l2, cyc V = l1 ++ a :: b :: c :: l2.

Definition dot (a b s : pt) : Z :=            (* (s - a) . (b - a) *)
  (fst s - fst a) * (fst b - fst a) + (snd s - snd a) * (snd b - snd a).
Definition on_segment (a b s : pt) : Prop :=
  cross a b s = 0 /\ 0 <= dot a b s <= dot a b b.

(* (a) vertices are pixels; (b) no repeated vertex and, from three vertices on, every cyclically
   consecutive triple turns strictly in one and the same sense sg (so no collinear vertex);
   (c) every pixel is on the inner side of (or on) every edge; with one or two vertices: every
   pixel is that vertex / lies on the segment.  An empty polygon only for an empty set. *)
Record HullSpec (S V : list pt) : Prop := mkHullSpec {
  hs_subset : incl V S;
  hs_nodup : NoDup V;
  hs_empty : V = [] -> S = [];
  hs_one : forall a, V = [a] -> forall s, In s S -> s = a;
  hs_two : forall a b, V = [a; b] -> forall s, In s S -> on_segment a b s;
  hs_poly : (3 <= length V)%nat ->
            exists sg, (sg = 1 \/ sg = -1) /\
              forall a b c, consecutive V a b c ->
                0 < sg * cross a b c /\
                forall s, In s S -> 0 <= sg * cross a b s /\ 0 <= sg * cross b c s
}.

(* ---------------------------------------------------------------- checker *)

Fixpoint all_triples (f : pt -> pt -> pt -> bool) (l : list pt) : bool :=
  match l with
  | a :: ((b :: c :: _) as t) => f a b c && all_triples f t
  | _ => true
  end.

Definition poly_ok (sg : Z) (S V : list pt) : bool :=
  all_triples (fun a b c =>
      (0 <? sg * cross a b c) &&
      forallb (fun s => (0 <=? sg * cross a b s) && (0 <=? sg * cross b c s)) S) (cyc V).

Definition hull_ok (S V : list pt) : bool :=
  forallb (fun v => mem_pt v S) V && nodup_pt V &&
  match V with
  | [] => match S with [] => true | _ => false end
  | [a] => forallb (fun s => pt_eqb s a) S
  | [a; b] => forallb (fun s => (cross a b s =? 0) && (0 <=? dot a b s) && (dot a b s <=? dot a b b)) S
  | _ => poly_ok 1 S V || poly_ok (-1) S V
  end.

(* ---------------------------------------------------------------- the batch *)

(* rows = (label, i, j); counts per requested label.  Block r must carry the label indexes[r]
   in every row and be the hull polygon of the pixels (of [ijv]) with that label; an absent
   label therefore has count 0. *)
Definition pts_of (ijv : list row) (l : Z) : list pt :=
  map r_pt (filter (fun r => r_v r =? l) ijv).

Fixpoint batch_ok (ijv : list row) (indexes : list Z) (rows : list row) (counts : list Z) : bool :=
  match indexes, counts with
  | [], [] => match rows with [] => true | _ => false end
  | l :: ix, c :: cs =>
      (0 <=? c) && (c <=? zlen rows) &&
      let blk := firstn (Z.to_nat c) rows in
      forallb (fun r => fst (fst r) =? l) blk &&
      hull_ok (pts_of ijv l) (map (fun r => (snd (fst r), snd r)) blk) &&
      batch_ok ijv ix (skipn (Z.to_nat c) rows) cs
  | _, _ => false
  end.

(* declarative counterpart: the output splits into one block per request, in request order *)
Inductive BatchSpec (ijv : list row) : list Z -> list row -> list Z -> Prop :=
| BS_nil : BatchSpec ijv [] [] []
| BS_cons l ix blk rest cs :
    (forall r, In r blk -> fst (fst r) = l) ->
    HullSpec (pts_of ijv l) (map (fun r => (snd (fst r), snd r)) blk) ->
    BatchSpec ijv ix rest cs ->
    BatchSpec ijv (l :: ix) (blk ++ rest) (zlen blk :: cs).

Definition as_lij (x : sx) : list row := map (fun r => ((as_Z (arg 0 r), as_Z (arg 1 r)), as_Z (arg 2 r))) (as_list x).

(* [S, V] -> bool *)
Definition entry_hull_ok (x : sx) : sx := of_bool (hull_ok (as_pairs (arg 0 x)) (as_pairs (arg 1 x))).
(* [ijv, indexes, rows, counts] -> bool *)
Definition entry_batch_ok (x : sx) : sx :=
  of_bool (batch_ok (as_rows (arg 0 x)) (as_Zs (arg 1 x)) (as_lij (arg 2 x)) (as_Zs (arg 3 x))).
