(* C14 — minimum enclosing circle: declarative spec over Q (pixel centres are integer points,
   circles have rational centre and rational SQUARED radius) and the boolean certificate
   checker [mec_ok] that is (a) proved sound for all point sets (Proofs/MecProofs.v) and
   (b) extracted and run on the exact circle reconstructed from the implementation's output. *)
From Coq Require Import ZArith QArith List Bool.
From Centro Require Import Base.Sx.
Import ListNotations.
Open Scope Q_scope.

Definition pt : Type := (Z * Z)%type.

(* squared distance between rational points *)
Definition d2 (px py cx cy : Q) : Q := (px - cx) * (px - cx) + (py - cy) * (py - cy).
(* squared distance from an integer point to a rational centre *)
Definition d2q (p : pt) (cx cy : Q) : Q := d2 (inject_Z (fst p)) (inject_Z (snd p)) cx cy.

(* the closed disc of centre (cx,cy) and squared radius R contains every point of S *)
Definition Encloses (S : list pt) (cx cy R : Q) : Prop := forall p, In p S -> d2q p cx cy <= R.

(* (cx,cy,R) is a minimum enclosing circle of S: it encloses S and every enclosing circle —
   any rational centre, any squared radius — is at least as large. *)
Definition MEC (S : list pt) (cx cy R : Q) : Prop :=
  Encloses S cx cy R /\ forall ex ey rho, Encloses S ex ey rho -> R <= rho.

Definition pt_eqb (p q : pt) : bool := ((fst p =? fst q) && (snd p =? snd q))%Z.
Definition pt_mem (p : pt) (S : list pt) : bool := existsb (pt_eqb p) S.

(* Certificate: support points s1 s2 s3 of S with weights a1 a2 a3 >= 0, not all zero, whose
   weighted barycentre is the centre, each positively weighted support point exactly on the
   circle, and all of S inside or on it.  Two diametral points: a = (1,1,0).  Three points of a
   non-obtuse triangle: a = barycentric coordinates of the circumcentre.  One point: a = (1,0,0). *)
Definition mec_ok (S : list pt) (s1 s2 s3 : pt) (a1 a2 a3 cx cy R : Q) : bool :=
  forallb (fun p => Qle_bool (d2q p cx cy) R) S &&
  pt_mem s1 S && pt_mem s2 S && pt_mem s3 S &&
  Qle_bool 0 a1 && Qle_bool 0 a2 && Qle_bool 0 a3 && negb (Qle_bool (a1 + a2 + a3) 0) &&
  Qeq_bool (a1 * (inject_Z (fst s1) - cx) + a2 * (inject_Z (fst s2) - cx) + a3 * (inject_Z (fst s3) - cx)) 0 &&
  Qeq_bool (a1 * (inject_Z (snd s1) - cy) + a2 * (inject_Z (snd s2) - cy) + a3 * (inject_Z (snd s3) - cy)) 0 &&
  (Qle_bool a1 0 || Qeq_bool (d2q s1 cx cy) R) &&
  (Qle_bool a2 0 || Qeq_bool (d2q s2 cx cy) R) &&
  (Qle_bool a3 0 || Qeq_bool (d2q s3 cx cy) R).

(* wire: rationals travel as (numerator denominator) with denominator > 0 *)
Definition as_Q (x : sx) : Q :=
  let n := as_Z (arg 0 x) in let d := as_Z (arg 1 x) in
  match d with Zpos p => Qmake n p | _ => Qmake 0 1 end.
Definition den_pos (x : sx) : bool := (0 <? as_Z (arg 1 x))%Z.

(* ((pts) (s1 s2 s3) (a1 a2 a3) (cx cy R)) -> bool ; every rational is a (num den) pair *)
Definition entry_mec_ok (x : sx) : sx :=
  let S := as_pairs (arg 0 x) in
  let s := as_pairs (arg 1 x) in
  let a := as_list (arg 2 x) in
  let c := as_list (arg 3 x) in
  let q k l := as_Q (nth k l (I 0)) in
  of_bool (forallb den_pos a && forallb den_pos c &&
           (length s =? 3)%nat && (length a =? 3)%nat && (length c =? 3)%nat &&
           mec_ok S (nth 0 s (0, 0)%Z) (nth 1 s (0, 0)%Z) (nth 2 s (0, 0)%Z)
                  (q 0%nat a) (q 1%nat a) (q 2%nat a) (q 0%nat c) (q 1%nat c) (q 2%nat c)).
