(* C05 - specification and boolean checker.

   The declarative spec is [TopoEq X X'] of Base/Topo.v: X' is a subset of X; two pixels of X' are
   8-connected in X iff they are in X' and every pixel of X is 8-connected (in X) to X'
   (= exactly one component of X' inside every component of X); two background pixels of X are
   4-connected in the background of X iff they are in that of X', and every background pixel of X'
   is 4-connected to one of X (= the holes correspond one to one).  The background includes
   everything outside the frame.  [comp_reps]/[TopoCounts] below phrase "same number of
   components / holes" with lists of representatives.

   The checker [topo_check H W g g'] searches for a certificate: it tries to reach g' from g by
   deleting, one at a time, pixels outside g' that are (8,4)-simple in the current image
   (raster sweeps repeated until nothing changes) and accepts iff it arrives exactly at g'.
   Soundness (accept -> TopoEq) is Proofs/ThinSkelTopo.v [topo_check_sound]. *)
From Coq Require Import ZArith NArith List Bool.
From Centro Require Import Base.Sx Base.Topo Base.Skel Base.TopoPar Base.TopoSweep Base.TopoGrid.
Import ListNotations.
Open Scope Z_scope.

(* keep-table that deletes exactly the (8,4)-simple patterns (512-bit table of [simple_ok]) *)
Definition simple_keep (bits : list bool) : bool := negb (N.testbit simpleN (indexN bits)).

Fixpoint row_eqb (a b : list bool) : bool :=
  match a, b with
  | [], [] => true
  | x :: a', y :: b' => Bool.eqb x y && row_eqb a' b'
  | _, _ => false
  end.
Fixpoint grid_eqb (a b : grid) : bool :=
  match a, b with
  | [], [] => true
  | x :: a', y :: b' => row_eqb x y && grid_eqb a' b'
  | _, _ => false
  end.

(* one raster sweep of sequential deletions of simple pixels that are not in the target *)
Definition check_sweep (H W : nat) (target g : grid) : grid :=
  tabulate H W (skel simple_keep (fun p => negb (img_of target p)) (raster H W) (img_of g)).
Fixpoint check_loop (H W : nat) (fuel : nat) (target g : grid) : grid :=
  match fuel with
  | O => g
  | S f => let g1 := check_sweep H W target g in
           if grid_eqb g1 g then g else check_loop H W f target g1
  end.
Definition wfb' (H W : nat) (g : grid) : bool :=
  Nat.eqb (length g) H && forallb (fun r => Nat.eqb (length r) W) g.
Definition topo_check (H W : nat) (g g' : grid) : bool :=
  wfb' H W g && wfb' H W g' && grid_eqb (check_loop H W (S (H * W)) g' g) g'.

Definition entry_topo_check (x : sx) : sx :=
  of_bool (topo_check (as_nat (arg 0 x)) (as_nat (arg 1 x)) (as_boolss (arg 2 x)) (as_boolss (arg 3 x))).

(* ---- "the same number of components" without cardinalities of quotients ---- *)
Fixpoint pairwise {A} (R : A -> A -> Prop) (l : list A) : Prop :=
  match l with [] => True | a :: r => Forall (R a) r /\ pairwise R r end.
(* l lists exactly one representative of every R-component of P *)
Definition comp_reps (R : px -> px -> Prop) (P : px -> Prop) (l : list px) : Prop :=
  Forall P l /\ pairwise (fun a b => ~ path R P a b) l /\ forall a, P a -> exists r, In r l /\ path R P a r.
