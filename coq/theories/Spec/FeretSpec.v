(* C14 — Feret diameters: executable brute-force specification over Z.
   max: the largest squared distance between two pixels of the object (all pairs).
   min: an enclosing strip is given by a non-zero integer normal vector u and bounds lo <= <p,u> <= hi
   for every pixel p; its squared width is (hi-lo)^2/|u|^2.  The brute-force minimum ranges over the
   strips that rest on an edge of the polygon H (u = normal of the edge, lo or hi = the edge's line);
   [feret_min_ok] checks a claimed minimum W = wn/wd against the object's whole pixel set S. *)
From Coq Require Import ZArith List Bool.
From Centro Require Import Base.Sx.
Import ListNotations.
Open Scope Z_scope.

Definition spt : Type := (Z * Z)%type.

Definition sdist2 (a b : spt) : Z :=
  (fst a - fst b) * (fst a - fst b) + (snd a - snd b) * (snd a - snd b).

(* ------------------------------------------------------------------ maximum *)
Definition max_from (p : spt) (S : list spt) : Z := fold_right (fun q m => Z.max (sdist2 p q) m) 0 S.
Definition max_d2 (S : list spt) : Z := fold_right (fun p m => Z.max (max_from p S) m) 0 S.

(* ------------------------------------------------------------------ minimum *)
(* <p - a, u> for the normal u = (-(b-a)_j, (b-a)_i) of the edge a -> b: a cross product *)
Definition side (p a b : spt) : Z :=
  (fst b - fst a) * (snd p - snd a) - (snd b - snd a) * (fst p - fst a).

(* every point of S on the closed non-negative (sg = 1) / non-positive (sg = -1) side of line ab *)
Definition supports (S : list spt) (a b : spt) (sg : Z) : bool :=
  forallb (fun p => 0 <=? sg * side p a b) S.
Definition edge_sign (S : list spt) (a b : spt) : option Z :=
  if supports S a b 1 then Some 1 else if supports S a b (-1) then Some (-1) else None.

(* largest |<p - a, u>| over S: the strip resting on ab has squared width (that)^2 / |b-a|^2 *)
Definition reach (S : list spt) (a b : spt) : Z := fold_right (fun p m => Z.max (Z.abs (side p a b)) m) 0 S.

Fixpoint edges_from (first : spt) (H : list spt) : list (spt * spt) :=
  match H with
  | [] => []
  | [a] => [(a, first)]
  | a :: ((b :: _) as t) => (a, b) :: edges_from first t
  end.
Definition edges (H : list spt) : list (spt * spt) :=
  match H with [] => [] | a :: _ => edges_from a H end.

(* W = wn/wd (wd > 0) is the squared width of the strip on edge (a,b), and the strip on every other
   edge of H that supports S is at least as wide; every edge of H must support S and join two
   distinct pixels of S *)
Definition mem_pt (p : spt) (S : list spt) : bool := existsb (fun q => (fst p =? fst q) && (snd p =? snd q)) S.

Definition feret_min_ok (S H : list spt) (a b : spt) (wn wd : Z) : bool :=
  (0 <? wd) &&
  existsb (fun e => (fst (fst e) =? fst a) && (snd (fst e) =? snd a) &&
                    (fst (snd e) =? fst b) && (snd (snd e) =? snd b)) (edges H) &&
  forallb (fun e =>
             let a' := fst e in let b' := snd e in
             mem_pt a' S && mem_pt b' S && (0 <? sdist2 a' b') &&
             match edge_sign S a' b' with None => false | Some _ => true end &&
             (* W <= width^2 of this edge's strip *)
             (wn * sdist2 a' b' <=? reach S a' b' * reach S a' b' * wd)) (edges H) &&
  (wn * sdist2 a b =? reach S a b * reach S a b * wd).

(* wire entries *)
(* (S) -> max squared pairwise distance *)
Definition entry_feret_max (x : sx) : sx := I (max_d2 (as_pairs x)).
(* ((S) (H) (a b) (wn wd)) -> bool *)
Definition entry_feret_min_ok (x : sx) : sx :=
  let e := as_pairs (arg 2 x) in
  let w := as_Zs (arg 3 x) in
  of_bool ((length e =? 2)%nat && (length w =? 2)%nat &&
           feret_min_ok (as_pairs (arg 0 x)) (as_pairs (arg 1 x)) (nth 0 e (0, 0)) (nth 1 e (0, 0))
                        (nth 0 w 0) (nth 1 w 0)).
