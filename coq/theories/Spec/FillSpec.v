(* C14 — fill_convex_hulls: specification "the lattice points inside or on the hull polygon, each
   once, with the hull's label" by exact cross-product tests, the executable enumeration of that
   set, and the boolean checker [fill_ok] run on the implementation's output. *)
From Coq Require Import ZArith List Bool.
From Centro Require Import Base.Sx Model.HullFill.
Import ListNotations.
Open Scope Z_scope.

Definition cross (a b p : hpt) : Z :=
  (fst b - fst a) * (snd p - snd a) - (snd b - snd a) * (fst p - fst a).

Definition min_of (f : hpt -> Z) (d : Z) (h : list hpt) : Z := fold_right (fun p m => Z.min (f p) m) d h.
Definition max_of (f : hpt -> Z) (d : Z) (h : list hpt) : Z := fold_right (fun p m => Z.max (f p) m) d h.

(* bounding box of the vertices (for a polygon with interior it is implied by the half-plane
   tests; it makes the collinear cases — one vertex, two vertices — part of the same definition) *)
Definition in_bbox (h : list hpt) (p : hpt) : bool :=
  match h with
  | [] => false
  | a :: t =>
      (min_of fst (fst a) t <=? fst p) && (fst p <=? max_of fst (fst a) t) &&
      (min_of snd (snd a) t <=? snd p) && (snd p <=? max_of snd (snd a) t)
  end.

(* inside or on the convex polygon with vertex cycle h, given in either orientation: p is on the
   same closed side of every edge (for one vertex: p is that vertex; two: p on the segment) *)
Definition inside (h : list hpt) (p : hpt) : bool :=
  in_bbox h p &&
  (forallb (fun e => 0 <=? cross (fst e) (snd e) p) (poly_edges h) ||
   forallb (fun e => cross (fst e) (snd e) p <=? 0) (poly_edges h)).

(* the specified output for one object and for a list of objects *)
Definition box_points (h : list hpt) : list hpt :=
  match h with
  | [] => []
  | a :: t =>
      flat_map (fun i => map (fun j => (i, j)) (zrange (min_of snd (snd a) t) (max_of snd (snd a) t)))
               (zrange (min_of fst (fst a) t) (max_of fst (fst a) t))
  end.
Definition fill_enum (o : Z * list hpt) : list (Z * Z * Z) :=
  map (fun p => (fst p, snd p, fst o)) (filter (inside (snd o)) (box_points (snd o))).
Definition fill_spec_list (objs : list (Z * list hpt)) : list (Z * Z * Z) := flat_map fill_enum objs.

(* membership of an output row (i, j, l) in the specified set *)
Definition row_ok (objs : list (Z * list hpt)) (t : Z * Z * Z) : bool :=
  existsb (fun o => (fst o =? snd t) && inside (snd o) (fst t)) objs.

Definition row_lt (a b : Z * Z * Z) : bool :=
  let '(ia, ja, la) := a in let '(ib, jb, lb) := b in
  if la <? lb then true else if lb <? la then false else
  if ia <? ib then true else if ib <? ia then false else ja <? jb.

Fixpoint strictly_sorted (l : list (Z * Z * Z)) : bool :=
  match l with
  | [] => true
  | a :: t => match t with [] => true | b :: _ => row_lt a b && strictly_sorted t end
  end.

(* [out] (rows sorted by (label, i, j)) is exactly the specified set, each row once *)
Definition fill_ok (objs : list (Z * list hpt)) (out : list (Z * Z * Z)) : bool :=
  strictly_sorted out && forallb (row_ok objs) out &&
  (length (fill_spec_list objs) <=? length out)%nat.

(* convexity of a vertex cycle as the theorems about the scan-line model need it: all vertices on
   one common closed side of every edge *)
Definition convex_ok (h : list hpt) : bool :=
  forallb (fun e => forallb (fun v => 0 <=? cross (fst e) (snd e) v) h) (poly_edges h) ||
  forallb (fun e => forallb (fun v => cross (fst e) (snd e) v <=? 0) h) (poly_edges h).
Fixpoint distinct_labels (ls : list Z) : bool :=
  match ls with [] => true | a :: t => negb (existsb (Z.eqb a) t) && distinct_labels t end.
Definition fill_hyp_ok (objs : list (Z * list hpt)) : bool :=
  distinct_labels (map fst objs) && forallb (fun o => convex_ok (snd o)) objs.

Definition as_triple (x : sx) : Z * Z * Z := (as_Z (arg 0 x), as_Z (arg 1 x), as_Z (arg 2 x)).
(* (objs out) -> bool *)
Definition entry_fill_check (x : sx) : sx :=
  of_bool (fill_ok (map as_obj (as_list (arg 0 x))) (map as_triple (as_list (arg 1 x)))).
(* objs -> the specified rows *)
Definition entry_fill_spec (x : sx) : sx := of_triples (fill_spec_list (map as_obj (as_list x))).
(* objs -> do the hypotheses of the scan-line correctness theorem hold for this input? *)
Definition entry_fill_hyp (x : sx) : sx := of_bool (fill_hyp_ok (map as_obj (as_list x))).
