(* C01 — declarative specification of the assignment problem solved by lapjv and the boolean
   certificate checker [cert_ok] that is run (extracted) on the implementation's own output.
   Soundness of the checker is Proofs/LapjvCert.v. *)
From Coq Require Import ZArith List Bool Permutation.
From Centro Require Import Base.Sx Model.Lapjv.
Import ListNotations.
Open Scope Z_scope.

(* ---------------------------------------------------------------- the problem *)

(* cost of a listed pair: the first triple mentioning (i, j); None = not listed = infinite *)
Fixpoint cost (tri : list triple) (i j : nat) : option Z :=
  match tri with
  | [] => None
  | t :: r => if (t_i t =? i)%nat && (t_j t =? j)%nat then Some (t_c t) else cost r i j
  end.
Definition costz (tri : list triple) (i j : nat) : Z := match cost tri i j with Some z => z | None => 0 end.

Fixpoint zsum (l : list Z) : Z := match l with [] => 0 | x :: r => x + zsum r end.

(* a matching is the list sigma of the columns of rows 0..n-1 *)
Definition col (sigma : list nat) (i : nat) : nat := nth i sigma 0%nat.
Definition PM (n : nat) (tri : list triple) (sigma : list nat) : Prop :=
  Permutation sigma (seq 0 n) /\ forall i, (i < n)%nat -> cost tri i (col sigma i) <> None.
Definition total (n : nat) (tri : list triple) (sigma : list nat) : Z :=
  zsum (map (fun i => costz tri i (col sigma i)) (seq 0 n)).
Definition Optimal (n : nat) (tri : list triple) (x : list nat) : Prop :=
  PM n tri x /\ forall sigma, PM n tri sigma -> total n tri x <= total n tri sigma.

(* x and y are mutually inverse permutations of 0..n-1 *)
Definition Inverse (n : nat) (x y : list nat) : Prop :=
  length x = n /\ length y = n /\
  (forall i, (i < n)%nat -> (col x i < n)%nat /\ col y (col x i) = i) /\
  (forall j, (j < n)%nat -> (col y j < n)%nat /\ col x (col y j) = j).

(* the dual clause: reduced costs are non-negative on every listed pair, zero on assigned pairs *)
Definition zat (l : list Z) (k : nat) : Z := nth k l 0.
Definition DualCert (n : nat) (tri : list triple) (x : list nat) (u v : list Z) : Prop :=
  (forall t, In t tri -> 0 <= t_c t - zat u (t_i t) - zat v (t_j t)) /\
  (forall i, (i < n)%nat -> exists c, cost tri i (col x i) = Some c /\ c - zat u i - zat v (col x i) = 0).

(* well-formed inputs (the property's quantifier): indices in range, every row and column
   mentioned, no pair listed twice, costs non-negative *)
Definition wf_b (n : nat) (tri : list triple) : bool :=
  (0 <? n)%nat &&
  forallb (fun t => (t_i t <? n)%nat && (t_j t <? n)%nat && (0 <=? t_c t)) tri &&
  forallb (fun k => existsb (fun t => (t_i t =? k)%nat) tri && existsb (fun t => (t_j t =? k)%nat) tri) (seq 0 n) &&
  (fix nodup (l : list triple) : bool :=
     match l with
     | [] => true
     | t :: r => negb (existsb (fun s => (t_i s =? t_i t)%nat && (t_j s =? t_j t)%nat) r) && nodup r
     end) tri.
Definition wf (n : nat) (tri : list triple) : Prop := wf_b n tri = true.
Definition has_PM (n : nat) (tri : list triple) : Prop := exists sigma, PM n tri sigma.

(* ---------------------------------------------------------------- the checker *)

Definition perm_ok (n : nat) (x y : list nat) : bool :=
  (length x =? n)%nat && (length y =? n)%nat &&
  forallb (fun i => (col x i <? n)%nat && (col y (col x i) =? i)%nat) (seq 0 n) &&
  forallb (fun j => (col y j <? n)%nat && (col x (col y j) =? j)%nat) (seq 0 n).

Definition feas_ok (tri : list triple) (u v : list Z) : bool :=
  forallb (fun t => 0 <=? t_c t - zat u (t_i t) - zat v (t_j t)) tri.

Definition slack_ok (n : nat) (tri : list triple) (x : list nat) (u v : list Z) : bool :=
  forallb (fun i => match cost tri i (col x i) with
                    | Some c => c - zat u i - zat v (col x i) =? 0
                    | None => false
                    end) (seq 0 n).

Definition cert_ok (n : nat) (tri : list triple) (x y : list nat) (u v : list Z) : bool :=
  perm_ok n x y && feas_ok tri u v && slack_ok n tri x u v.

(* x is a perfect matching over listed pairs (no duals) *)
Definition pm_ok (n : nat) (tri : list triple) (x y : list nat) : bool :=
  perm_ok n x y &&
  forallb (fun i => match cost tri i (col x i) with Some _ => true | None => false end) (seq 0 n).

(* the tracker's result: a functional, injective list of (old, new) label pairs *)
Fixpoint nodup_z (l : list Z) : bool :=
  match l with [] => true | a :: r => negb (existsb (Z.eqb a) r) && nodup_z r end.
Definition track_ok (ps : list (Z * Z)) : bool := nodup_z (map fst ps) && nodup_z (map snd ps).
Definition Injective (ps : list (Z * Z)) : Prop :=
  forall a b a' b', In (a, b) ps -> In (a', b') ps -> (a = a' <-> b = b').

(* ---------------------------------------------------------------- wire format *)

(* (n triples x y u v) -> bool *)
Definition entry_cert (a : sx) : sx :=
  of_bool (cert_ok (as_nat (arg 0 a)) (as_triples (arg 1 a)) (as_nats (arg 2 a)) (as_nats (arg 3 a))
                   (as_Zs (arg 4 a)) (as_Zs (arg 5 a))).
(* (n triples x y) -> bool *)
Definition entry_pm (a : sx) : sx :=
  of_bool (pm_ok (as_nat (arg 0 a)) (as_triples (arg 1 a)) (as_nats (arg 2 a)) (as_nats (arg 3 a))).
(* (n triples) -> bool *)
Definition entry_wf (a : sx) : sx := of_bool (wf_b (as_nat (arg 0 a)) (as_triples (arg 1 a))).
(* (n triples x) -> total cost *)
Definition entry_total (a : sx) : sx :=
  I (total (as_nat (arg 0 a)) (as_triples (arg 1 a)) (as_nats (arg 2 a))).
(* pairs -> bool *)
Definition entry_track_ok (a : sx) : sx := of_bool (track_ok (as_pairs a)).

(* ---------------------------------------------------------------- a model run that certifies itself *)

Fixpoint fins (l : list ext) : option (list Z) :=
  match l with
  | [] => Some []
  | Fin z :: r => match fins r with Some zs => Some (z :: zs) | None => None end
  | _ :: _ => None
  end.
Definition out_t : Type := (list nat * list nat * list ext * list ext)%type.
Definition x_of (o : out_t) : list nat := fst (fst (fst o)).
Definition certified (n : nat) (tri : list triple) (o : option out_t) : bool :=
  match o with
  | Some (x, y, u, v) =>
      match fins u, fins v with
      | Some u', Some v' => cert_ok n tri x y u' v'
      | _, _ => false
      end
  | None => false
  end.
