(* C06 — the neighbourhood rule of table_lookup's docstring (declarative, executable).

     0 1 2        the index at a pixel is the sum of 2^k over the neighbourhood positions k that
     3 4 5        are set; positions outside the image read as [border_value]; the new pixel is
     6 7 8        table[index]; all pixels are replaced synchronously.                          *)
From Coq Require Import ZArith List Bool.
From Centro Require Import Base.Sx Base.LutBits.
Import ListNotations.
Open Scope Z_scope.

Definition px (b : bool) (X : grid bool) (p q : Z) : bool :=
  if inr (gH X) (gW X) p q then rd false X p q else b.

Definition nbits (b : bool) (X : grid bool) (p q : Z) : list bool :=
  [ px b X (p - 1) (q - 1); px b X (p - 1) q; px b X (p - 1) (q + 1);
    px b X p (q - 1);       px b X p q;       px b X p (q + 1);
    px b X (p + 1) (q - 1); px b X (p + 1) q; px b X (p + 1) (q + 1) ].

Definition tbl (T : list bool) (k : Z) : bool := nth (Z.to_nat k) T false.

Definition lut_step (T : list bool) (b : bool) (X : grid bool) : grid bool :=
  tab (length X) (length (hd [] X)) (fun p q => tbl T (enc (nbits b X p q))).

Definition lut_iter (n : nat) (T : list bool) (b : bool) (X : grid bool) : grid bool :=
  iter n (lut_step T b) X.

Fixpoint list_eqb {A} (e : A -> A -> bool) (l1 l2 : list A) : bool :=
  match l1, l2 with
  | [], [] => true
  | a :: r1, c :: r2 => e a c && list_eqb e r1 r2
  | _, _ => false
  end.
Definition grid_eqb (X Y : grid bool) : bool := list_eqb (list_eqb Bool.eqb) X Y.

(* "until nothing changes": the first image of the orbit that the rule maps to itself.  Partial:
   tables that are neither erosive nor extensive can oscillate (life), then no such image exists
   and [None] is returned when the fuel runs out. *)
Fixpoint lut_fix (fuel : nat) (T : list bool) (b : bool) (X : grid bool) : option (grid bool) :=
  match fuel with
  | O => None
  | S f => let Y := lut_step T b X in if grid_eqb Y X then Some X else lut_fix f T b Y
  end.

(* table classes used by the dispatch and by the theorems *)
Definition erosive (T : list bool) : Prop := forall k, 0 <= k < 512 -> Z.land k 16 = 0 -> tbl T k = false.
Definition extensive (T : list bool) : Prop := forall k, 0 <= k < 512 -> Z.land k 16 <> 0 -> tbl T k = true.

(* ------------------------------------------------------------------ wire entries *)
Definition FUEL : nat := 600.

Definition of_ogrid (o : option (grid bool)) : sx := of_option of_boolss o.

(* the same rule with the image shape computed once per step instead of once per neighbour read
   (what the harness runs; Proofs/LutLoop.v: lut_step_fast = lut_step, hence the entry below
   evaluates exactly lut_iter / lut_fix) *)
Definition lut_step_fast (T : list bool) (b : bool) (X : grid bool) : grid bool :=
  let H := gH X in
  let W := gW X in
  let rdx := fun p q => if inr H W p q then rd false X p q else b in
  tab (length X) (length (hd [] X))
      (fun p q => tbl T (enc [ rdx (p - 1) (q - 1); rdx (p - 1) q; rdx (p - 1) (q + 1);
                               rdx p (q - 1);       rdx p q;       rdx p (q + 1);
                               rdx (p + 1) (q - 1); rdx (p + 1) q; rdx (p + 1) (q + 1) ])).
Fixpoint lut_fix_fast (fuel : nat) (T : list bool) (b : bool) (X : grid bool) : option (grid bool) :=
  match fuel with
  | O => None
  | S f => let Y := lut_step_fast T b X in if grid_eqb Y X then Some X else lut_fix_fast f T b Y
  end.

(* [img; table; border; iters]   iters < 0 means "until nothing changes" *)
Definition entry_spec (x : sx) : sx :=
  let X := as_boolss (arg 0 x) in
  let T := as_bools (arg 1 x) in
  let b := as_bool (arg 2 x) in
  let k := as_Z (arg 3 x) in
  if k <? 0 then of_ogrid (lut_fix_fast FUEL T b X) else of_ogrid (Some (iter (Z.to_nat k) (lut_step_fast T b) X)).

(* [img] -> the neighbourhood index of every pixel with border value 0 *)
Definition entry_specidx (x : sx) : sx :=
  let X := as_boolss (arg 0 x) in
  L [of_Zss (tab (length X) (length (hd [] X)) (fun p q => enc (nbits false X p q)))].
