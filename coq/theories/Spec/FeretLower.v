(* C14 — minimum Feret diameter, the "no narrower strip in ANY direction" half, as a checkable
   certificate.  The directions of the plane are covered by finitely many cones spanned by
   consecutive critical directions m_k, m_{k+1} (normals of hull edges and their negations, in
   angular order); inside a cone one pair of pixels (p+, p-) of S is extreme, and the width in a
   direction u = lambda m_k + mu m_{k+1} is at least <p+ - p-, u>/|u|, which is bounded below by
   the smaller of the widths at m_k and m_{k+1} (triangle inequality).  Python proposes the cones;
   [feret_lower_ok] checks them over Z; Proofs/FeretLowerProofs.v proves the for-all-directions
   conclusion. *)
From Coq Require Import ZArith List Bool.
From Centro Require Import Base.Sx Spec.FeretSpec.
Import ListNotations.
Open Scope Z_scope.

Definition vec : Type := (Z * Z)%type.
Definition dotv (a b : vec) : Z := fst a * fst b + snd a * snd b.
Definition crossv (a b : vec) : Z := fst a * snd b - snd a * fst b.
Definition subv (a b : vec) : vec := (fst a - fst b, snd a - snd b).
Definition norm2 (a : vec) : Z := dotv a a.

(* a cone's certificate: its first spanning direction and the extreme pair of pixels *)
Definition ccert : Type := (vec * (spt * spt))%type.
Definition c_m (c : ccert) : vec := fst c.
Definition c_d (c : ccert) : vec := subv (fst (snd c)) (snd (snd c)).

(* <d,m> >= 0 and (<d,m>/|m|)^2 >= wn/wd *)
Definition wide_enough (d m : vec) (wn wd : Z) : bool :=
  (0 <=? dotv d m) && (wn * norm2 m <=? dotv d m * dotv d m * wd).

Definition cone_ok (S : list spt) (wn wd : Z) (c c' : ccert) : bool :=
  mem_pt (fst (snd c)) S && mem_pt (snd (snd c)) S &&
  (0 <? crossv (c_m c) (c_m c')) &&
  wide_enough (c_d c) (c_m c) wn wd && wide_enough (c_d c) (c_m c') wn wd.

Fixpoint consec {A : Type} (l : list A) : list (A * A) :=
  match l with
  | [] => []
  | a :: t => match t with [] => [] | b :: _ => (a, b) :: consec t end
  end.

Definition feret_lower_ok (S : list spt) (l : list ccert) (wn wd : Z) : bool :=
  (0 <? wd) && (0 <=? wn) &&
  ((wn =? 0) ||
   match l with
   | [] => false
   | c0 :: _ =>
       forallb (fun p => cone_ok S wn wd (fst p) (snd p)) (consec (l ++ [c0])) &&
       existsb (fun c => (fst (c_m c) =? - fst (c_m c0)) && (snd (c_m c) =? - snd (c_m c0))) l
   end).

(* ((S) ((m (p+ p-)) ...) (wn wd)) -> bool *)
Definition as_ccert (x : sx) : ccert :=
  (as_pair (arg 0 x), (as_pair (arg 0 (arg 1 x)), as_pair (arg 1 (arg 1 x)))).
Definition entry_feret_lower_ok (x : sx) : sx :=
  let w := as_Zs (arg 2 x) in
  of_bool ((length w =? 2)%nat &&
           feret_lower_ok (as_pairs (arg 0 x)) (map as_ccert (as_list (arg 1 x))) (nth 0 w 0) (nth 1 w 0)).
