(* C04 — the state invariant of grey_reconstruction_loop used for index safety and
   "link has a successor", its boolean checker, and the padded-plane geometry.
   The invariant deliberately does NOT mention the order of the linked list: memory safety and
   the never-dropped-node property follow from much weaker facts:
     - every link value lies in [-1, 2S);
     - only the last cell 2S-1 (a padding cell of the mask plane, rank 0, never moved) may have
       next = -1;
     - a node with prev = -1 carries the maximal value (so a neighbour that is strictly below
       the current value is never the head);
     - padding cells have rank 0 in both planes and are never written;
     - image-plane values only grow, stay below the mask plane; the mask plane is constant. *)
From Coq Require Import ZArith List Bool FMapPositive.
From Centro Require Import Base.Sx Model.Recon.
Import ListNotations.
Open Scope Z_scope.

Record geom : Type := mkgeom { gH : Z; gW : Z; gp0 : Z; gp1 : Z }.
Definition gPW (g : geom) : Z := gW g + 2 * gp1 g.
Definition gPH (g : geom) : Z := gH g + 2 * gp0 g.
Definition gS (g : geom) : Z := gPH g * gPW g.
Definition geom_ok (g : geom) : Prop := 1 <= gH g /\ 1 <= gW g /\ 1 <= gp0 g /\ 1 <= gp1 g.
Definition geom_ok_b (g : geom) : bool := (1 <=? gH g) && (1 <=? gW g) && (1 <=? gp0 g) && (1 <=? gp1 g).

(* flat index i of the padded image plane lies in the un-padded interior *)
Definition interior_b (g : geom) (i : Z) : bool :=
  let r := i / gPW g - gp0 g in
  let c := i mod gPW g - gp1 g in
  (0 <=? r) && (r <? gH g) && (0 <=? c) && (c <? gW g).

Definition stride_ok (g : geom) (st : Z) : Prop :=
  exists da db, st = da * gPW g + db /\ - gp0 g <= da <= gp0 g /\ - gp1 g <= db <= gp1 g.
Definition stride_ok_b (g : geom) (st : Z) : bool :=
  existsb (fun da => let db := st - da * gPW g in (- gp1 g <=? db) && (db <=? gp1 g))
          (zseq (- gp0 g) (Z.to_nat (2 * gp0 g + 1))).

Definition sel (a : arr) (i : Z) : Z := match get a i with Some v => v | None => 0 end.
Definition inrange (a : arr) (n : Z) : Prop := forall i, 0 <= i < n -> get a i <> None.
Definition inrange_b (a : arr) (n : Z) : bool :=
  forallb (fun i => match get a i with Some _ => true | None => false end) (zrange n).

(* an image U over the interior flat indices that lies above the (decoded) initial image plane and
   that no dilate-and-clip step along the stride table can raise (mask plane = upper half of v0) *)
(* [dec] decodes ranks to values; only its monotonicity on [0, K) matters *)
Definition mono_on (K : Z) (dec : Z -> Z) : Prop :=
  forall a b, 0 <= a -> a <= b -> b < K -> dec a <= dec b.
Definition flat_postfixed (g : geom) (strides : list Z) (v0 : arr) (dec : Z -> Z) (U : Z -> Z) : Prop :=
  (forall i, 0 <= i < gS g -> interior_b g i = true -> dec (sel v0 i) <= U i) /\
  (forall i st, 0 <= i < gS g -> interior_b g i = true -> In st strides -> interior_b g (i + st) = true ->
     Z.min (dec (sel v0 (i + st + gS g))) (U i) <= U (i + st)).

Record Inv (g : geom) (K : Z) (strides : list Z) (v0 : arr) (s : st) : Prop := mkInv {
  i_rv : inrange (vals s) (2 * gS g);
  i_rp : inrange (prv s) (2 * gS g);
  i_rn : inrange (nxt s) (2 * gS g);
  i_pb : forall i, 0 <= i < 2 * gS g -> -1 <= sel (prv s) i < 2 * gS g;
  i_nb : forall i, 0 <= i < 2 * gS g -> -1 <= sel (nxt s) i < 2 * gS g;
  i_nx : forall i, 0 <= i < 2 * gS g - 1 -> sel (nxt s) i <> -1;
  i_pm : forall x y, 0 <= x < 2 * gS g -> 0 <= y < 2 * gS g ->
         sel (prv s) x = -1 -> sel (vals s) y <= sel (vals s) x;
  i_pad : forall i, 0 <= i < gS g -> interior_b g i = false ->
          sel (vals s) i = 0 /\ sel (vals s) (i + gS g) = 0;
  i_vk : forall i, 0 <= i < 2 * gS g -> 0 <= sel (vals s) i < K;
  i_lo : forall i, 0 <= i < gS g -> sel v0 i <= sel (vals s) i <= sel (vals s) (i + gS g);
  i_mk : forall i, gS g <= i < 2 * gS g -> sel (vals s) i = sel v0 i;
  i_le : forall dec U, mono_on K dec -> flat_postfixed g strides v0 dec U ->
         forall i, 0 <= i < gS g -> interior_b g i = true -> dec (sel (vals s) i) <= U i }.

Definition inv_check (g : geom) (K : Z) (s : st) : bool :=
  let n := 2 * gS g in
  let S := gS g in
  let mx := fold_right Z.max 0 (map (sel (vals s)) (zrange n)) in
  inrange_b (vals s) n && inrange_b (prv s) n && inrange_b (nxt s) n &&
  forallb (fun i =>
    (-1 <=? sel (prv s) i) && (sel (prv s) i <? n) &&
    (-1 <=? sel (nxt s) i) && (sel (nxt s) i <? n) &&
    ((i =? n - 1) || negb (sel (nxt s) i =? -1)) &&
    (negb (sel (prv s) i =? -1) || (mx <=? sel (vals s) i)) &&
    (0 <=? sel (vals s) i) && (sel (vals s) i <? K)) (zrange n) &&
  forallb (fun i =>
    (interior_b g i || ((sel (vals s) i =? 0) && (sel (vals s) (i + S) =? 0))) &&
    (sel (vals s) i <=? sel (vals s) (i + S))) (zrange S).

(* everything the loop and the final gather need from the Python wrapper's set-up, checked per
   instance on the state [prepare] built *)
Definition prep_geom (p : prep) : geom := mkgeom (p_H p) (p_W p) (p_p0 p) (p_p1 p).
Definition prep_check (p : prep) : bool :=
  let g := prep_geom p in
  geom_ok_b g && (p_S p =? gS g) && (p_PW p =? gPW g) &&
  forallb (stride_ok_b g) (p_strides p) &&
  (-1 <=? p_cur p) && (p_cur p <? 2 * gS g) &&
  (drops (p_st p) =? 0) &&
  inv_check g (p_K p) (p_st p) && inrange_b (p_vmap p) (p_K p).

(* (image mask footprint offset) -> bool : the set-up state of this instance satisfies the invariant *)
Definition entry_prep_check (x : sx) : sx :=
  let image := as_Zss (arg 0 x) in
  let mask := as_Zss (arg 1 x) in
  let fp := as_boolss (arg 2 x) in
  match as_Zs (arg 3 x) with
  | [o0; o1] => of_bool (accepted_common image mask fp &&
                         prep_check (prepare_offs image mask fp (fp_offsets_at fp o0 o1)))
  | _ => of_bool (accepted image mask fp && prep_check (prepare image mask fp))
  end.

(* ------------------------------------------------------------------ round 3: the order invariant.
   Ghost positions [pos] (integers; doubled at every relink so that a moved node fits strictly
   between its new neighbours) replace an explicit list: everything is pointwise.
   - next is the immediate successor in position order (o_nx, o_gap), positions are injective,
     cell 2S-1 is last;
   - values are sorted by position (o_val) — the list is value-sorted;
   - prev/next are mutually consistent (o_pn, o_np);
   - every interior image node before [cur] (all of them once cur = -1) is final: no dilate-and-clip
     step along any stride can raise its neighbour any more (o_done). *)
Definition closed_at (g : geom) (strides : list Z) (s : st) (p : Z) : Prop :=
  forall sd, In sd strides ->
    Z.min (sel (vals s) (p + sd + gS g)) (sel (vals s) p) <= sel (vals s) (p + sd).

Record Ord (g : geom) (strides : list Z) (s : st) (cur : Z) (pos : Z -> Z) : Prop := mkOrd {
  o_inj : forall x y, 0 <= x < 2 * gS g -> 0 <= y < 2 * gS g -> pos x = pos y -> x = y;
  o_nx : forall x, 0 <= x < 2 * gS g -> sel (nxt s) x <> -1 -> pos x < pos (sel (nxt s) x);
  o_gap : forall x y, 0 <= x < 2 * gS g -> 0 <= y < 2 * gS g -> sel (nxt s) x <> -1 ->
          ~ (pos x < pos y < pos (sel (nxt s) x));
  o_last : forall x, 0 <= x < 2 * gS g - 1 -> pos x < pos (2 * gS g - 1);
  o_val : forall x y, 0 <= x < 2 * gS g -> 0 <= y < 2 * gS g -> pos x < pos y ->
          sel (vals s) y <= sel (vals s) x;
  o_pn : forall x, 0 <= x < 2 * gS g -> sel (prv s) x <> -1 -> sel (nxt s) (sel (prv s) x) = x;
  o_np : forall x, 0 <= x < 2 * gS g -> sel (nxt s) x <> -1 -> sel (prv s) (sel (nxt s) x) = x;
  o_done : forall p, 0 <= p < gS g -> interior_b g p = true -> (cur = -1 \/ pos p < pos cur) ->
           closed_at g strides s p }.

(* the state after one execution of the loop body, in closed form *)
Definition relinked (S cur cv : Z) (s : st) (stride : Z) : st :=
  let nb := cur + stride in
  let nv := sel (vals s) nb in
  let mv := sel (vals s) (nb + S) in
  if (nv <? cv) && (nv <? mv) then
    let link := if mv <? cv then nb + S else cur in
    let newv := if mv <? cv then mv else cv in
    let nprev := sel (prv s) nb in
    let nnext := sel (nxt s) nb in
    let nxt1 := put (nxt s) nprev nnext in
    let prv1 := put (prv s) nnext nprev in
    let nnext2 := sel nxt1 link in
    mkst (put (vals s) nb newv) (put (put prv1 nb link) nnext2 nb)
         (put (put nxt1 nb nnext2) link nb) (drops s)
  else s.

(* boolean form of Ord for a position table given as an array (quadratic; used for the Example and
   evaluated per instance on small cases) *)
Definition ord_check (g : geom) (strides : list Z) (s : st) (cur : Z) (posa : arr) : bool :=
  let n := 2 * gS g in
  let pos := sel posa in
  forallb (fun x =>
    ((sel (nxt s) x =? -1) || (pos x <? pos (sel (nxt s) x))) &&
    ((x =? n - 1) || (pos x <? pos (n - 1))) &&
    ((sel (prv s) x =? -1) || (sel (nxt s) (sel (prv s) x) =? x)) &&
    ((sel (nxt s) x =? -1) || (sel (prv s) (sel (nxt s) x) =? x)) &&
    forallb (fun y =>
      (negb (pos x =? pos y) || (x =? y)) &&
      ((sel (nxt s) x =? -1) || negb ((pos x <? pos y) && (pos y <? pos (sel (nxt s) x)))) &&
      (negb (pos x <? pos y) || (sel (vals s) y <=? sel (vals s) x))) (zrange n)) (zrange n) &&
  forallb (fun p =>
    negb (interior_b g p) || negb ((cur =? -1) || (pos p <? pos cur)) ||
    forallb (fun sd => Z.min (sel (vals s) (p + sd + gS g)) (sel (vals s) p) <=? sel (vals s) (p + sd)) strides)
    (zrange (gS g)).

(* positions of the set-up state: the index in the lexsort order *)
Definition order_pos (order : list Z) : arr :=
  fold_left (fun a xi => put a (fst xi) (snd xi)) (combine order (zrange (zlen order))) (PositiveMap.empty Z).

(* (image mask footprint offset) -> bool : the set-up state satisfies Ord with these positions *)
Definition entry_ord_check (x : sx) : sx :=
  let image := as_Zss (arg 0 x) in
  let mask := as_Zss (arg 1 x) in
  let fp := as_boolss (arg 2 x) in
  let p := match as_Zs (arg 3 x) with
           | [o0; o1] => prepare_offs image mask fp (fp_offsets_at fp o0 o1)
           | _ => prepare image mask fp
           end in
  let order := map snd (Base.ReconSort.DescSort.sort
                 (combine (padded_plane (p_H p) (p_W p) (p_p0 p) (p_p1 p) (img_min image) image ++
                           padded_plane (p_H p) (p_W p) (p_p0 p) (p_p1 p) (img_min image) mask)
                          (zrange (2 * p_S p)))) in
  of_bool (ord_check (prep_geom p) (p_strides p) (p_st p) (p_cur p) (order_pos order)).
