(* C11 — declarative statement of the range / band clauses, the closed form the regenerated
   get_threshold program must compute, and the boolean checker that is run on the
   implementation's own output. *)
From Coq Require Import ZArith QArith List Bool.
From Centro Require Import Base.Sx Base.ThresholdNum Model.ThresholdLang.
Import ListNotations.
Open Scope Q_scope.

(* the property's numbers: 0.7 and 1.5 as binary64 values *)
Definition band_lo : Q := Qmake 3152519739159347 4503599627370496.   (* the double nearest to 7/10 *)
Definition band_hi : Q := Qmake 3 2.
Definition sentinel_value : Q := Qmake 1 1.

Definition in_range (lo hi : option Q) (x : Q) : Prop :=
  (forall l, lo = Some l -> l <= x) /\ (forall h, hi = Some h -> x <= h).
Definition range_ok (lo hi : option Q) : Prop :=
  forall l h, lo = Some l -> hi = Some h -> l <= h.
Definition in_band (mul : Q -> Q -> Q) (g t : Q) : Prop :=
  mul g band_lo <= t /\ t <= mul g band_hi.
(* the same two clauses for an element of an array whose dtype rounds stored scalars by [cast] *)
Definition in_range_cast (cast : Q -> Q) (lo hi t : Q) : Prop := cast lo <= t /\ t <= cast hi.
Definition in_band_cast (mul : Q -> Q -> Q) (cast : Q -> Q) (g t : Q) : Prop :=
  cast (mul g band_lo) <= t /\ t <= cast (mul g band_hi).

(* pixel i carries the per-object sentinel (labels == 0) and is outside the claim *)
Definition unlabelled (inp : inputs) (i : nat) : bool :=
  match in_mod inp, in_lab0 inp with
  | MPerObject, Some lb => nth i lb false
  | _, _ => false
  end.

(* ---- closed form of get_threshold (what the generated program must be equal to) *)
Section Ref.
  Variable mul amul : Q -> Q -> Q.
  Variable cast : Q -> Q.
  Variables blo bhi sent : Q.
  Definition clamp_opt (lo hi : option Q) (x : Q) : Q :=
    let x1 := match lo with Some l => qmax x l | None => x end in
    match hi with Some h => qmin x1 h | None => x1 end.
  Definition ref_global (raw cf : Q) (lo hi : option Q) : Q := clamp_opt lo hi (mul raw cf).
  Definition ref_rmin (lo g : Q) : Q := qmax lo (mul g blo).
  Definition ref_rmax (hi g : Q) : Q := qmin hi (mul g bhi).
  Definition ref_array (cf lo hi g : Q) (raws : list Q) : list Q :=
    map (clamp_hi (cast (ref_rmax hi g))) (map (clamp_lo (cast (ref_rmin lo g))) (map (fun x => amul x (cast cf)) raws)).
  Definition ref_local (inp : inputs) (lo hi g : Q) : list Q :=
    let a := ref_array (in_cf inp) lo hi g (in_raw_l inp) in
    match in_mod inp, in_lab0 inp with
    | MPerObject, Some lb => sentinel (cast sent) a lb
    | _, _ => a
    end.
End Ref.

(* the whole call in closed form, with the property's constants: what get_threshold is specified to
   return for given raw thresholds (None = raises) *)
Definition ref_run (mul amul : Q -> Q -> Q) (cast : Q -> Q) (inp : inputs) (lo hi : option Q) : option (val * val) :=
  let g := ref_global mul (in_raw_g inp) (in_cf inp) lo hi in
  match in_mod inp with
  | MGlobal => Some (VNum (clamp_opt lo hi g), VNum g)
  | _ => match lo, hi with
         | Some l, Some h => Some (VArr (ref_local mul amul cast band_lo band_hi sentinel_value inp l h g), VNum g)
         | _, _ => None
         end
  end.
(* same wire format as Model.ThresholdRun.entry_run; arg 7 = 1 when the local array is float32 *)
Definition entry_ref (x : sx) : sx :=
  let inp := mkIn (as_modifier (arg 0 x)) (as_Q (arg 1 x)) (as_Q (arg 2 x)) (as_Qs (arg 5 x)) (as_lab0 (arg 6 x)) in
  let f32 := as_bool (arg 7 x) in
  match ref_run fmul (if f32 then fmul32 else fmul) (if f32 then round32 else (fun q => q)) inp
          (as_optQ (arg 3 x)) (as_optQ (arg 4 x)) with
  | Some (l, g) => L [of_val l; of_val g]
  | None => L []
  end.

(* ---- boolean checker, evaluated on what get_threshold returned *)
Definition in_rangeb (lo hi : option Q) (x : Q) : bool :=
  match lo with Some l => Qle_bool l x | None => true end &&
  match hi with Some h => Qle_bool x h | None => true end.
Definition in_bandb (mul : Q -> Q -> Q) (cast : Q -> Q) (g t : Q) : bool :=
  Qle_bool (cast (mul g band_lo)) t && Qle_bool t (cast (mul g band_hi)).
Definition cast_opt (cast : Q -> Q) (o : option Q) : option Q :=
  match o with Some q => Some (cast q) | None => None end.
(* global in range; every listed local threshold in the range and (when [band]) in the band, the limits
   being converted to the array's dtype by [cast] (identity unless the array is float32) *)
Definition check_thresholds (mul : Q -> Q -> Q) (cast : Q -> Q) (lo hi : option Q) (g : Q) (band : bool) (ts : list Q) : bool :=
  in_rangeb lo hi g &&
  forallb (fun t => in_rangeb (cast_opt cast lo) (cast_opt cast hi) t && (negb band || in_bandb mul cast g t)) ts.

(* arg: (lo? hi? g band ts f32) *)
Definition entry_check (x : sx) : sx :=
  of_bool (check_thresholds fmul (if as_bool (arg 5 x) then round32 else (fun q => q))
             (as_optQ (arg 0 x)) (as_optQ (arg 1 x)) (as_Q (arg 2 x))
             (as_bool (arg 3 x)) (as_Qs (arg 4 x))).
