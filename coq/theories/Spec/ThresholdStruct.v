(* C11 — structure of the raw per-object and adaptive thresholds: boolean checkers run on what the staged
   get_per_object_threshold / get_adaptive_threshold actually produced.
   Per object: a pixel of object l (label l > 0, inside the mask) carries the value of the global method on
   exactly the masked pixels of object l (the table [tab], measured by get_global_threshold(method, image,
   mask & (labels == l), same keywords)), converted to the array's dtype; every other pixel carries the
   fill value of np.ones.  Adaptive: the block thresholds handed to the spline equal, block by block in
   loop order, the global method on that block's masked pixels, for the block partition of
   Model.AdaptiveGeom. *)
From Coq Require Import ZArith QArith List Bool.
From Centro Require Import Base.Sx Base.ThresholdNum.
Import ListNotations.

Fixpoint lookup (l : Z) (tab : list (Z * Q)) : option Q :=
  match tab with
  | [] => None
  | (k, v) :: r => if (k =? l)%Z then Some v else lookup l r
  end.
(* what the raw per-object array must hold at a pixel with label [l] and mask bit [m] *)
Definition po_expected (cast : Q -> Q) (fill : Q) (tab : list (Z * Q)) (l : Z) (m : bool) : option Q :=
  if ((0 <? l)%Z && m)%bool then option_map cast (lookup l tab) else Some (cast fill).
Definition po_pixel_ok (cast : Q -> Q) (fill : Q) (tab : list (Z * Q)) (p : Z * bool * Q) : bool :=
  match po_expected cast fill tab (fst (fst p)) (snd (fst p)) with
  | Some e => Qeq_bool (snd p) e
  | None => false
  end.
Definition check_per_object (cast : Q -> Q) (fill : Q) (tab : list (Z * Q)) (pixels : list (Z * bool * Q)) : bool :=
  forallb (po_pixel_ok cast fill tab) pixels.

Fixpoint all_eq (got exp : list Q) : bool :=
  match got, exp with
  | [], [] => true
  | g :: gs, e :: es => Qeq_bool g e && all_eq gs es
  | _, _ => false
  end.

Definition as_tab (x : sx) : list (Z * Q) := map (fun e => (as_Z (arg 0 e), as_Q (arg 1 e))) (as_list x).
Definition as_pixels (x : sx) : list (Z * bool * Q) :=
  map (fun e => (as_Z (arg 0 e), as_bool (arg 1 e), as_Q (arg 2 e))) (as_list x).
(* arg: (f32 tab pixels), tab = ((label (n d)) …), pixels = ((label inmask (n d)) …) in row-major order *)
Definition entry_check_po (x : sx) : sx :=
  of_bool (check_per_object (if as_bool (arg 0 x) then round32 else (fun q => q)) (Qmake 1 1)
             (as_tab (arg 1 x)) (as_pixels (arg 2 x))).
(* arg: (got expected) *)
Definition entry_check_blocks (x : sx) : sx := of_bool (all_eq (as_Qs (arg 0 x)) (as_Qs (arg 1 x))).
