(* C03: declarative specification of seeded geodesic propagation over a monotone cost algebra,
   and the boolean checker [prop_check] that is run on the implementation's output.
   Abstract part: any vertex type with a finite vertex list and neighbour lists.
   Definitions only; soundness is in Proofs/PropPotential.v. *)
From Coq Require Import ZArith List Bool.
Import ListNotations.
Open Scope Z_scope.

Section Algebra.
Variable K : Type.
Variable le : K -> K -> Prop.
Variable leb : K -> K -> bool.
Variable eqb : K -> K -> bool.
Variable okb : K -> bool.
Variable plus : K -> K -> K.
Variable zero : K.

Variable V : Type.
Variable eqV : V -> V -> bool.
Variable verts : list V.            (* all pixels of the image *)
Variable nbrs : V -> list V.        (* the in-range 8-neighbours *)
Variable mask : V -> bool.
Variable lab : V -> Z.              (* input labels; > 0 = seed *)
Variable w : V -> V -> K.           (* step cost *)
Variable lo : V -> Z.               (* output labels *)
Variable d : V -> option K.         (* output distances, None = -1 *)

(* a step goes to an 8-neighbour inside the mask *)
Definition edge (a b : V) : Prop := In b (nbrs a) /\ mask b = true.
Fixpoint is_path (s : V) (p : list V) : Prop :=
  match p with [] => True | x :: r => edge s x /\ is_path x r end.
(* the property's "sum over its steps", folded from the left as the code does *)
Fixpoint pcost (acc : K) (s : V) (p : list V) : K :=
  match p with [] => acc | x :: r => pcost (plus acc (w s x)) x r end.
Fixpoint last_of (s : V) (p : list V) : V :=
  match p with [] => s | x :: r => last_of x r end.

Definition mseed (s : V) : Prop := In s verts /\ 0 < lab s /\ mask s = true.
(* p is a path through the mask from the masked seed s to v *)
Definition reaches (s : V) (p : list V) (v : V) : Prop :=
  mseed s /\ is_path s p /\ last_of s p = v.

Definition Spec : Prop :=
  forall v, In v verts ->
    (0 < lab v -> lo v = lab v /\ d v = Some zero) /\
    (lab v = 0 ->
       ((exists s p, reaches s p v) ->
          exists k, d v = Some k /\
            (exists s p, reaches s p v /\ pcost zero s p = k /\ lab s = lo v) /\
            (forall s p, reaches s p v -> le k (pcost zero s p))) /\
       ((~ exists s p, reaches s p v) -> lo v = 0 /\ d v = None)).

(* ---- checker ---- *)
Definition is_some {A} (o : option A) : bool := match o with Some _ => true | None => false end.
Definition active (v : V) : bool := if 0 <? lab v then mask v else is_some (d v).

Definition check_out_edges (v : V) (dv : K) : bool :=
  forallb (fun u =>
             if mask u then
               if 0 <? lab u then true
               else match d u with Some du => leb du (plus dv (w v u)) | None => false end
             else true) (nbrs v).

Definition check_vertex (v : V) : bool :=
  (0 <=? lab v) &&
  (if 0 <? lab v
   then (lo v =? lab v) && match d v with Some k => eqb k zero | None => false end
   else match d v with Some k => mask v && okb k | None => lo v =? 0 end) &&
  (if active v then match d v with Some dv => check_out_edges v dv | None => false end else true).

(* hint = list of ((pixel, predecessor), label) in an order in which every (predecessor, label) is a
   masked seed with its own label or occurs earlier; supplied by the (untrusted) harness, verified
   here.  R collects pairs (v, l): "some mask path from a masked seed labelled l ends in v and
   costs exactly d v".  v may itself be a seed (a zero-cost path through another seed). *)
Definition eqVL (a b : V * Z) : bool := if eqV (fst a) (fst b) then snd a =? snd b else false.
Definition hint_ok (R : list (V * Z)) (h : (V * V) * Z) : bool :=
  let v := fst (fst h) in let u := snd (fst h) in let l := snd h in
  if existsb (eqVL (u, l)) R then
    if existsb (eqV v) (nbrs u) then
      if mask v then
        match d u, d v with
        | Some du, Some dv => eqb dv (plus du (w u v))
        | _, _ => false
        end
      else false
    else false
  else false.
(* (vm_compute is call-by-value: the nested [if]s, not [&&], keep the cost test lazy) *)
Definition grow (R : list (V * Z)) (h : (V * V) * Z) : list (V * Z) :=
  if hint_ok R h then (fst (fst h), snd h) :: R else R.
Definition seeds0 : list (V * Z) :=
  map (fun s => (s, lab s)) (filter (fun s => (0 <? lab s) && mask s) verts).
Definition chain_set (hint : list ((V * V) * Z)) : list (V * Z) := fold_left grow hint seeds0.

(* a hint computed without outside help: sweep all (pixel, neighbour) pairs with the pixel's own
   output label until nothing is added (enough for outputs whose labels travel with the tight edges) *)
Definition all_pairs : list ((V * V) * Z) :=
  flat_map (fun v => map (fun u => ((v, u), lo v)) (nbrs v)) verts.
Definition sweep (st : list (V * Z) * list ((V * V) * Z)) (h : (V * V) * Z) :=
  let vl := (fst (fst h), snd h) in
  if existsb (eqVL vl) (fst st) then st
  else if hint_ok (fst st) h then (vl :: fst st, h :: snd st) else st.
Fixpoint auto_hint_go (fuel : nat) (st : list (V * Z) * list ((V * V) * Z)) : list ((V * V) * Z) :=
  match fuel with
  | O => rev (snd st)
  | S f =>
      let st' := fold_left sweep all_pairs st in
      if (length (fst st') =? length (fst st))%nat then rev (snd st') else auto_hint_go f st'
  end.
Definition auto_hint : list ((V * V) * Z) := auto_hint_go (length verts) (seeds0, []).

Definition prop_check (hint : list ((V * V) * Z)) : bool :=
  forallb check_vertex verts &&
  (let R := chain_set hint in
   forallb (fun v => if (lab v =? 0) && is_some (d v) then existsb (eqVL (v, lo v)) R else true) verts).
End Algebra.
