(* C07 — declarative specification of the masked octagonal percentile filter and its boolean
   checker.  Soundness of the checker is proved in Proofs/MedianCheck.v. *)
From Coq Require Import ZArith List Bool.
From Centro Require Import Base.Sx Model.Median.
Import ListNotations.
Open Scope Z_scope.

(* the octagon: offsets (di, dj) = (row, column) offset from the centre *)
Definition oct (R a2 di dj : Z) : Prop :=
  Z.abs di <= R /\ Z.abs dj <= R /\ Z.abs di + Z.abs dj <= R + a2.
Definition octb (R a2 di dj : Z) : bool :=
  (Z.abs di <=? R) && (Z.abs dj <=? R) && (Z.abs di + Z.abs dj <=? R + a2).

Definition img_rows {A} (d : list (list A)) : Z := Z.of_nat (length d).
Definition img_cols {A} (d : list (list A)) : Z := Z.of_nat (length (hd [] d)).
Definition dat2 (d : list (list Z)) (y x : Z) : Z := getz 0 (getz [] d y) x.
Definition msk2 (m : list (list bool)) (y x : Z) : bool := getz false (getz [] m y) x.

(* every pixel coordinate (y, x) of a rows x cols image, once, in raster order *)
Definition coords (rows cols : Z) : list (Z * Z) :=
  flat_map (fun y => map (fun x => (y, x)) (zrange 0 cols)) (zrange 0 rows).

(* the window of pixel (i, j): values of the unmasked image pixels inside the octagon centred on
   it (octagon ∩ image ∩ mask), with multiplicity *)
Definition in_window (mask : list (list bool)) (R a2 i j : Z) (p : Z * Z) : bool :=
  msk2 mask (fst p) (snd p) && octb R a2 (fst p - i) (snd p - j).
Definition window_c (cs : list (Z * Z)) (data : list (list Z)) (mask : list (list bool)) (R a2 i j : Z) : list Z :=
  map (fun p => dat2 data (fst p) (snd p)) (filter (in_window mask R a2 i j) cs).
Definition window (data : list (list Z)) (mask : list (list bool)) (radius i j : Z) : list Z :=
  window_c (coords (img_rows data) (img_cols data)) data mask (oct_R radius) (oct_a2 radius) i j.

Definition count_lt (v : Z) (l : list Z) : Z := Z.of_nat (length (filter (fun x => x <? v) l)).
Definition count_le (v : Z) (l : list Z) : Z := Z.of_nat (length (filter (fun x => x <=? v) l)).

(* 1-based rank max 1 floor((k*percent+50)/100) *)
Definition rank_pos (k percent : Z) : Z := Z.max 1 ((k * percent + 50) / 100).

(* v is the element of 1-based rank r of l in sorted order (Proofs/MedianCheck.v, RankOf_sorted:
   for any sorted permutation s of l, v = nth (r-1) s) *)
Definition RankOf (l : list Z) (r v : Z) : Prop := In v l /\ count_lt v l < r <= count_le v l.
Definition rankofb (l : list Z) (r v : Z) : bool :=
  existsb (Z.eqb v) l && (count_lt v l <? r) && (r <=? count_le v l).

(* the property: wherever the window is non-empty the output is its percentile *)
Definition MedianSpec (data : list (list Z)) (mask : list (list bool)) (radius percent : Z)
           (out : list (list Z)) : Prop :=
  forall i j, 0 <= i < img_rows data -> 0 <= j < img_cols data ->
    let w := window data mask radius i j in
    w <> [] -> RankOf w (rank_pos (Z.of_nat (length w)) percent) (dat2 out i j).

Definition check_pixel (cs : list (Z * Z)) (data : list (list Z)) (mask : list (list bool)) (R a2 percent : Z)
           (out : list (list Z)) (p : Z * Z) : bool :=
  let w := window_c cs data mask R a2 (fst p) (snd p) in
  match w with
  | [] => true
  | _ => rankofb w (rank_pos (Z.of_nat (length w)) percent) (dat2 out (fst p) (snd p))
  end.

Definition check_median (data : list (list Z)) (mask : list (list bool)) (radius percent : Z)
           (out : list (list Z)) : bool :=
  let cs := coords (img_rows data) (img_cols data) in
  forallb (check_pixel cs data mask (oct_R radius) (oct_a2 radius) percent out) cs.

(* the specified image itself (-1 where the window is empty), for diagnostics *)
Definition spec_pixel (cs : list (Z * Z)) (data : list (list Z)) (mask : list (list bool)) (R a2 percent i j : Z) : Z :=
  let w := window_c cs data mask R a2 i j in
  match find (rankofb w (rank_pos (Z.of_nat (length w)) percent)) w with
  | Some v => v
  | None => -1
  end.
Definition spec_img (data : list (list Z)) (mask : list (list bool)) (radius percent : Z) : list (list Z) :=
  let cs := coords (img_rows data) (img_cols data) in
  map (fun i => map (fun j => spec_pixel cs data mask (oct_R radius) (oct_a2 radius) percent i j)
                    (zrange 0 (img_cols data))) (zrange 0 (img_rows data)).
(* number of window pixels per position *)
Definition count_img (data : list (list Z)) (mask : list (list bool)) (radius : Z) : list (list Z) :=
  let cs := coords (img_rows data) (img_cols data) in
  map (fun i => map (fun j => Z.of_nat (length (window_c cs data mask (oct_R radius) (oct_a2 radius) i j)))
                    (zrange 0 (img_cols data))) (zrange 0 (img_rows data)).

(* order-preserving merge to levels (wide data, rank_order with nbins=255): on the masked pixels
   [lev] is a monotone function of [data] ... *)
Definition merge_monotone (pairs : list (Z * Z)) : bool :=      (* pairs (value, level) *)
  forallb (fun p => forallb (fun q => implb (snd p <? snd q) (fst p <? fst q)) pairs) pairs.
(* ... and translation[k] is the value of some masked pixel of level k, for every level in use *)
Definition merge_repr (pairs : list (Z * Z)) (tr : list Z) : bool :=
  forallb (fun p => existsb (fun q => (snd q =? snd p) && (fst q =? getz (-1) tr (snd p))) pairs) pairs.

(* ------------------------------------------------------------------ wire entries *)

(* (data mask radius percent out) -> 1 | 0 *)
Definition entry_check (x : sx) : sx :=
  of_bool (check_median (as_Zss (arg 0 x)) (as_boolss (arg 1 x)) (as_Z (arg 2 x)) (as_Z (arg 3 x)) (as_Zss (arg 4 x))).

(* (data mask radius percent) -> (spec image, counts) *)
Definition entry_spec (x : sx) : sx :=
  L [of_Zss (spec_img (as_Zss (arg 0 x)) (as_boolss (arg 1 x)) (as_Z (arg 2 x)) (as_Z (arg 3 x)));
     of_Zss (count_img (as_Zss (arg 0 x)) (as_boolss (arg 1 x)) (as_Z (arg 2 x)))].

(* (data mask radius percent) -> (AsIs output, Fixed output meets the spec, counts):
   the correspondence entry; both variants coincide unless the radius is bumped *)
Definition entry_corr (x : sx) : sx :=
  let data := as_Zss (arg 0 x) in
  let mask := as_boolss (arg 1 x) in
  let radius := as_Z (arg 2 x) in
  let percent := as_Z (arg 3 x) in
  let a := kernel AsIs data mask radius percent in
  let f := if oct_R radius =? radius then a else kernel Fixed data mask radius percent in
  L [of_Zss a; of_bool (check_median data mask radius percent f); of_Zss (count_img data mask radius)].

(* (variant intlike data mask radius percent) -> (0 out counts ranked) | (1) declined | (2) IndexError *)
Definition entry_wcorr (x : sx) : sx :=
  match wrapper (as_variant (arg 0 x)) (as_bool (arg 1 x)) (as_Zss (arg 2 x)) (as_boolss (arg 3 x))
                (as_Z (arg 4 x)) (as_Z (arg 5 x)) with
  | WOut b o => L [I 0; of_Zss o; of_Zss (count_img (as_Zss (arg 2 x)) (as_boolss (arg 3 x)) (as_Z (arg 4 x)));
                   of_bool b]
  | WDecline => L [I 1]
  | WIndexError => L [I 2]
  end.

(* (pairs translation) -> 1 | 0 *)
Definition entry_merge (x : sx) : sx :=
  let pairs := as_pairs (arg 0 x) in
  of_bool (merge_monotone pairs && merge_repr pairs (as_Zs (arg 1 x))).
