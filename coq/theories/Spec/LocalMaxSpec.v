(* C17 — declarative specifications and boolean checkers.
   is_local_maximum: the labelled pixels not exceeded by any same-label pixel under the footprint.
   regional_maximum (ties allowed): the pixel itself inside the mask, every structure neighbour
   inside image and mask, none larger.
   regional_maximum (ties not allowed): exactly one pixel of every 8-connected component of the
   ties-allowed set; checked with an untrusted certificate (labels, BFS depths, roots, selected
   pixel per label) whose verification is proved sound in Proofs/LocalMaxPlateau.v. *)
From Coq Require Import ZArith List Bool.
From Centro Require Import Base.Sx Base.LocalMaxGrid Model.LocalMax.
Import ListNotations.
Open Scope Z_scope.

(* ------------------------------------------------------------------ is_local_maximum *)

Definition local_max_at (image labels : list (list Z)) (fp : list (list bool)) (y x : Z) : Prop :=
  let H := zlen labels in
  let W := zlen (hd [] labels) in
  let FH := zlen fp in
  let FW := zlen (hd [] fp) in
  0 < get2 0 labels y x /\
  forall a b, 0 <= a < FH -> 0 <= b < FW -> get2 false fp a b = true ->
    let y' := y + (a - (FH - 1) / 2) in
    let x' := x + (b - (FW - 1) / 2) in
    0 <= y' < H -> 0 <= x' < W -> get2 0 labels y' x' = get2 0 labels y x ->
    get2 0 image y' x' <= get2 0 image y x.

(* offset (dy, dx) does not dominate pixel (y, x) *)
Definition dom_ok (image labels : list (list Z)) (y x dy dx : Z) : bool :=
  let H := zlen labels in
  let W := zlen (hd [] labels) in
  implb ((0 <=? y + dy) && (y + dy <? H) && (0 <=? x + dx) && (x + dx <? W)
         && (get2 0 labels (y + dy) (x + dx) =? get2 0 labels y x))
        (get2 0 image (y + dy) (x + dx) <=? get2 0 image y x).

Definition local_max_b (image labels : list (list Z)) (fp : list (list bool)) (y x : Z) : bool :=
  let fh := length fp in
  let fw := length (hd [] fp) in
  let fe0 := (Z.of_nat fh - 1) / 2 in
  let fe1 := (Z.of_nat fw - 1) / 2 in
  (0 <? get2 0 labels y x) &&
  forallb (fun a => forallb (fun b =>
      implb (get2 false fp a b) (dom_ok image labels y x (a - fe0) (b - fe1))) (zrange fw)) (zrange fh).

Definition grid_eqb (h w : nat) (out : list (list bool)) (f : Z -> Z -> bool) : bool :=
  wfb h w out &&
  forallb (fun y => forallb (fun x => Bool.eqb (get2 false out y x) (f y x)) (zrange w)) (zrange h).

Definition ilm_check (image labels : list (list Z)) (fp : list (list bool)) (out : list (list bool)) : bool :=
  grid_eqb (length labels) (length (hd [] labels)) out (local_max_b image labels fp).

(* ------------------------------------------------------------------ regional_maximum, ties allowed *)

Definition reg_max_at (image : list (list Z)) (mask : option (list (list bool))) (st : list (list bool))
           (y x : Z) : Prop :=
  let H := zlen image in
  let W := zlen (hd [] image) in
  let SH := zlen st in
  let SW := zlen (hd [] st) in
  mask_at mask y x = true /\
  forall i j, 0 <= i < SH -> 0 <= j < SW -> ~ (i = SH / 2 /\ j = SW / 2) -> get2 false st i j = true ->
    let y' := y + (i - SH / 2) in
    let x' := x + (j - SW / 2) in
    (0 <= y' < H /\ 0 <= x' < W) /\ mask_at mask y' x' = true /\ get2 0 image y' x' <= get2 0 image y x.

Definition nb_ok (image : list (list Z)) (mask : option (list (list bool))) (y x dy dx : Z) : bool :=
  let H := zlen image in
  let W := zlen (hd [] image) in
  (0 <=? y + dy) && (y + dy <? H) && (0 <=? x + dx) && (x + dx <? W)
  && mask_at mask (y + dy) (x + dx) && (get2 0 image (y + dy) (x + dx) <=? get2 0 image y x).

Definition reg_max_b (image : list (list Z)) (mask : option (list (list bool))) (st : list (list bool))
           (y x : Z) : bool :=
  let sh := length st in
  let sw := length (hd [] st) in
  let h0 := Z.of_nat sh / 2 in
  let h1 := Z.of_nat sw / 2 in
  mask_at mask y x &&
  forallb (fun i => forallb (fun j =>
      implb (negb ((i =? h0) && (j =? h1)) && get2 false st i j)
            (nb_ok image mask y x (i - h0) (j - h1))) (zrange sw)) (zrange sh).

Definition rm_check (image : list (list Z)) (mask : option (list (list bool))) (st : list (list bool))
           (out : list (list bool)) : bool :=
  grid_eqb (length image) (length (hd [] image)) out (reg_max_b image mask st).

(* ------------------------------------------------------------------ one pixel per plateau *)

Definition adj8 (p q : Z * Z) : Prop := Z.abs (fst p - fst q) <= 1 /\ Z.abs (snd p - snd q) <= 1.

Inductive conn8 (U : Z -> Z -> bool) : Z * Z -> Z * Z -> Prop :=
| conn_refl p : U (fst p) (snd p) = true -> conn8 U p p
| conn_step p q r : conn8 U p q -> adj8 q r -> U (fst r) (snd r) = true -> conn8 U p r.

Definition one_per_component (U out : Z -> Z -> bool) : Prop :=
  (forall y x, out y x = true -> U y x = true) /\
  (forall p, U (fst p) (snd p) = true ->
     exists q, (out (fst q) (snd q) = true /\ conn8 U p q) /\
               forall q', out (fst q') (snd q') = true -> conn8 U p q' -> q' = q).

(* what scind.label is assumed to return on the set U *)
Definition labelling_ok (U : Z -> Z -> bool) (Lb : Z -> Z -> Z) (n : Z) : Prop :=
  (forall y x, U y x = true -> 1 <= Lb y x <= n) /\
  (forall p q, U (fst p) (snd p) = true -> U (fst q) (snd q) = true ->
     (Lb (fst p) (snd p) = Lb (fst q) (snd q) <-> conn8 U p q)) /\
  (forall y x, 0 < Lb y x -> U y x = true).

Definition pair_eqb (p q : Z * Z) : bool := (fst p =? fst q) && (snd p =? snd q).
Definition pnth (l : list (Z * Z)) (k : Z) : Z * Z := nth (Z.to_nat (k - 1)) l (-1, -1).

(* certificate for "Lb numbers the 8-components of U with 1..n": neighbours in U share their
   label; D is a depth that strictly decreases along some same-label neighbour down to 0; the
   only depth-0 pixel of label k is roots[k-1] *)
Definition cert_check (h w : nat) (U : Z -> Z -> bool) (Lb D : Z -> Z -> Z) (roots : list (Z * Z)) (n : Z) : bool :=
  forallb (fun p =>
    let y := fst p in
    let x := snd p in
    let l := Lb y x in
    if U y x then
      (1 <=? l) && (l <=? n) && (0 <=? D y x)
      && forallb (fun d => implb (U (y + fst d) (x + snd d)) (Lb (y + fst d) (x + snd d) =? l)) nb8
      && (if D y x =? 0 then pair_eqb (pnth roots l) p
          else existsb (fun d => U (y + fst d) (x + snd d) && (Lb (y + fst d) (x + snd d) =? l)
                                 && (D (y + fst d) (x + snd d) =? D y x - 1)) nb8)
    else l =? 0) (cells h w).

(* the marked pixels lie in U, the only marked pixel of label k is sel[k-1], and it is marked *)
Definition sel_check (h w : nat) (U out : Z -> Z -> bool) (Lb : Z -> Z -> Z) (sel : list (Z * Z)) (n : Z) : bool :=
  forallb (fun p => implb (out (fst p) (snd p))
                          (U (fst p) (snd p) && pair_eqb (pnth sel (Lb (fst p) (snd p))) p)) (cells h w)
  && forallb (fun k => let q := pnth sel k in
                       out (fst q) (snd q) && (Lb (fst q) (snd q) =? k))
             (map (fun k => k + 1) (zrange (Z.to_nat n))).

Definition noties_check (image : list (list Z)) (mask : option (list (list bool))) (st : list (list bool))
           (out : list (list bool)) (Lb D : list (list Z)) (roots sel : list (Z * Z)) (n : Z) : bool :=
  let h := length image in
  let w := length (hd [] image) in
  let U := get2 false (tab h w (reg_max_b image mask st)) in
  wfb h w out && wfb h w Lb
  && cert_check h w U (get2 0 Lb) (get2 0 D) roots n
  && sel_check h w U (get2 false out) (get2 0 Lb) sel n.

(* ------------------------------------------------------------------ wire entries *)

Definition as_mask (x : sx) : option (list (list bool)) :=
  match as_list x with [] => None | m :: _ => Some (as_boolss m) end.

Definition of_result (o : option (list (list bool))) : sx :=
  match o with Some out => L [I 1; of_boolss out] | None => L [I 0] end.

(* (image labels footprint) -> (1 result) | (0) *)
Definition entry_ilm (x : sx) : sx :=
  of_result (is_local_maximum (as_Zss (arg 0 x)) (as_Zss (arg 1 x)) (as_boolss (arg 2 x))).

(* (image (mask)|() structure) -> (1 result) | (0) *)
Definition entry_rm (x : sx) : sx :=
  of_result (regional_maximum_ties (as_Zss (arg 0 x)) (as_mask (arg 1 x)) (as_boolss (arg 2 x))).

(* the ties-not-ok model with the executable instances of label / maximum_position *)
Definition entry_rm_noties (x : sx) : sx :=
  of_result (regional_maximum label_inst ro_distance_inst maximum_position_inst
               (as_Zss (arg 0 x)) (as_mask (arg 1 x)) (as_boolss (arg 2 x)) false).

Definition entry_check_ilm (x : sx) : sx :=
  of_bool (ilm_check (as_Zss (arg 0 x)) (as_Zss (arg 1 x)) (as_boolss (arg 2 x)) (as_boolss (arg 3 x))).

Definition entry_check_rm (x : sx) : sx :=
  of_bool (rm_check (as_Zss (arg 0 x)) (as_mask (arg 1 x)) (as_boolss (arg 2 x)) (as_boolss (arg 3 x))).

(* (image mask structure out Lb D roots sel n) *)
Definition entry_check_noties (x : sx) : sx :=
  of_bool (noties_check (as_Zss (arg 0 x)) (as_mask (arg 1 x)) (as_boolss (arg 2 x)) (as_boolss (arg 3 x))
             (as_Zss (arg 4 x)) (as_Zss (arg 5 x)) (as_pairs (arg 6 x)) (as_pairs (arg 7 x)) (as_Z (arg 8 x))).
