(* C10 — the transportation problem, the declarative meaning of "earth mover's distance with
   extra-mass penalty", the boolean certificate checker that is run on the implementation's own
   output, and an LP-free brute-force optimum for tiny instances (search oracle). *)
From Coq Require Import ZArith List Bool.
From Centro Require Import Base.Sx Base.EmdBase.
Import ListNotations.
Open Scope Z_scope.

Section Transport.
Variables n m : nat.
Variable P : nat -> Z.            (* supplies, i < n *)
Variable Q : nat -> Z.            (* demands,  j < m *)
Variable C : nat -> nat -> Z.     (* ground distance *)
Variable T : Z.                   (* mass to move = min (sum P) (sum Q) *)

Definition rows := seq 0 n.
Definition cols := seq 0 m.
Definition cost (f : nat -> nat -> Z) : Z :=
  zsum (map (fun i => zsum (map (fun j => C i j * f i j) cols)) rows).
Definition rowsum (f : nat -> nat -> Z) i := zsum (map (fun j => f i j) cols).
Definition colsum (f : nat -> nat -> Z) j := zsum (map (fun i => f i j) rows).
Definition moved (f : nat -> nat -> Z) : Z := zsum (map (rowsum f) rows).
Definition feasible (f : nat -> nat -> Z) : Prop :=
  (forall i j, In i rows -> In j cols -> 0 <= f i j) /\
  (forall i, In i rows -> rowsum f i <= P i) /\ (forall j, In j cols -> colsum f j <= Q j) /\
  moved f = T.

(* d is the optimum of the transportation problem: attained and a lower bound *)
Definition is_opt (d : Z) : Prop :=
  (exists f, feasible f /\ cost f = d) /\ (forall g, feasible g -> d <= cost g).

(* dual point: alpha, beta >= 0, gamma free, gamma - alpha_i - beta_j <= C i j *)
Variables alpha beta : nat -> Z.
Variable gamma : Z.
Definition dual_feasible : Prop :=
  (forall i, In i rows -> 0 <= alpha i) /\ (forall j, In j cols -> 0 <= beta j) /\
  (forall i j, In i rows -> In j cols -> gamma - alpha i - beta j <= C i j).
Definition dual_value : Z :=
  gamma * T - zsum (map (fun i => alpha i * P i) rows) - zsum (map (fun j => beta j * Q j) cols).
End Transport.

(* The property's value: transportation optimum for T = min(sum P, sum Q) plus the penalty term. *)
Definition emd_T (P Q : list Z) : Z := Z.min (zsum P) (zsum Q).
Definition emd_extra (P Q : list Z) : Z := Z.abs (zsum P - zsum Q).
Definition emd_spec (P Q : list Z) (C : list (list Z)) (pen d : Z) : Prop :=
  exists d0, is_opt (length P) (length Q) (nz P) (nz Q) (mz C) (emd_T P Q) d0 /\
             d = d0 + pen * emd_extra P Q.

(* "F is a feasible integral flow moving min(sum P,sum Q) units whose cost reproduces d" *)
Definition flow_ok (P Q : list Z) (C : list (list Z)) (pen d : Z) (F : list (list Z)) : bool :=
  let n := length P in let m := length Q in
  let f := mz F in
  (length F =? n)%nat && forallb (fun r => (length r =? m)%nat) F &&
  all_lt n (fun i => all_lt m (fun j => 0 <=? f i j)) &&
  all_lt n (fun i => rowsum m f i <=? nz P i) &&
  all_lt m (fun j => colsum n f j <=? nz Q j) &&
  (moved n m f =? emd_T P Q) &&
  (cost n m (mz C) f + pen * emd_extra P Q =? d).

Definition dual_ok (P Q : list Z) (C : list (list Z)) (al be : list Z) (ga : Z) : bool :=
  let n := length P in let m := length Q in
  all_lt n (fun i => 0 <=? nz al i) && all_lt m (fun j => 0 <=? nz be j) &&
  all_lt n (fun i => all_lt m (fun j => ga - nz al i - nz be j <=? mz C i j)).

(* the certificate checker: feasible flow, cost reproduces d, dual point of equal value *)
Definition emd_cert_ok (P Q : list Z) (C : list (list Z)) (pen d : Z) (F : list (list Z))
           (al be : list Z) (ga : Z) : bool :=
  let n := length P in let m := length Q in
  flow_ok P Q C pen d F && dual_ok P Q C al be ga &&
  (cost n m (mz C) (mz F) =? dual_value n m (nz P) (nz Q) (emd_T P Q) (nz al) (nz be) ga).

(* A partial flow (flow type WITHOUT_TRANSHIPMENT_FLOW: only arcs cheaper than max C are
   reported): within supplies and demands, and d is its cost plus max C for every unit it leaves
   unmoved plus the penalty term. *)
Definition max_entry (C : list (list Z)) : Z :=
  fold_left (fun a r => fold_left Z.max r a) C 0.
Definition partial_ok (P Q : list Z) (C : list (list Z)) (pen d : Z) (F : list (list Z)) : bool :=
  let n := length P in let m := length Q in
  let f := mz F in
  (length F =? n)%nat && forallb (fun r => (length r =? m)%nat) F &&
  all_lt n (fun i => all_lt m (fun j => 0 <=? f i j)) &&
  all_lt n (fun i => rowsum m f i <=? nz P i) &&
  all_lt m (fun j => colsum n f j <=? nz Q j) &&
  (moved n m f <=? emd_T P Q) &&
  (cost n m (mz C) f + max_entry C * (emd_T P Q - moved n m f) + pen * emd_extra P Q =? d).

(* ---- brute force: minimum over ALL integral feasible flows, by enumeration (tiny sizes) ---- *)
Definition zrange (k : Z) : list Z := map Z.of_nat (seq 0 (Z.to_nat (k + 1))).   (* 0..k *)
(* vectors v with 0 <= v_j <= caps_j and sum v <= s *)
Fixpoint vecs (caps : list Z) (s : Z) : list (list Z) :=
  match caps with
  | [] => [[]]
  | c :: r => flat_map (fun a => map (cons a) (vecs r (s - a))) (zrange (Z.min c s))
  end.
Fixpoint dot (a b : list Z) : Z :=
  match a, b with x :: a', y :: b' => x * y + dot a' b' | _, _ => 0 end.
Fixpoint vsub (a b : list Z) : list Z :=
  match a, b with x :: a', y :: b' => (x - y) :: vsub a' b' | _, _ => a end.
Definition omin (a b : option Z) : option Z :=
  match a, b with Some x, Some y => Some (Z.min x y) | Some x, None => Some x | None, o => o end.
Fixpoint brute (Ps Qrem : list Z) (Crows : list (list Z)) (mv cst T : Z) : option Z :=
  match Ps with
  | [] => if mv =? T then Some cst else None
  | p :: Ps' =>
      let crow := hd [] Crows in
      fold_left (fun acc v => omin acc (brute Ps' (vsub Qrem v) (tl Crows) (mv + zsum v) (cst + dot v crow) T))
                (vecs Qrem p) None
  end.
Definition brute_emd (P Q : list Z) (C : list (list Z)) (pen : Z) : option Z :=
  match brute P Q C 0 0 (emd_T P Q) with
  | Some d0 => Some (d0 + pen * emd_extra P Q)
  | None => None
  end.

(* ---- wire entries ---- *)
(* (P Q C pen d F alpha beta gamma) -> bool *)
Definition entry_cert (x : sx) : sx :=
  of_bool (emd_cert_ok (as_Zs (arg 0 x)) (as_Zs (arg 1 x)) (as_Zss (arg 2 x)) (as_Z (arg 3 x))
             (as_Z (arg 4 x)) (as_Zss (arg 5 x)) (as_Zs (arg 6 x)) (as_Zs (arg 7 x)) (as_Z (arg 8 x))).
(* (P Q C pen d F) -> bool *)
Definition entry_partial (x : sx) : sx :=
  of_bool (partial_ok (as_Zs (arg 0 x)) (as_Zs (arg 1 x)) (as_Zss (arg 2 x)) (as_Z (arg 3 x))
             (as_Z (arg 4 x)) (as_Zss (arg 5 x))).
(* (P Q C pen) -> (d) | () *)
Definition entry_brute (x : sx) : sx :=
  of_option I (brute_emd (as_Zs (arg 0 x)) (as_Zs (arg 1 x)) (as_Zss (arg 2 x)) (as_Z (arg 3 x))).
