(* C04 — declarative specification of grey-scale reconstruction by dilation, and the boolean
   certificate checker that is (a) proved sound against it and (b) extracted and run on the
   implementation's own output.
   Abstract part: any domain D, predecessor structure [preds p] (the pixels whose value flows
   into p), seed and mask.  Grid part: H x W images as lists of rows, [preds p] = the in-image
   pixels p - o for the footprint offsets o (centre excluded; including it changes nothing). *)
From Coq Require Import ZArith List Bool.
From Centro Require Import Base.Sx Model.Recon.
Import ListNotations.
Open Scope Z_scope.

Section Abstract.
Variable V : Type.
Variable D : V -> Prop.
Variable preds : V -> list V.
Variables seed mask : V -> Z.

Definition between (R : V -> Z) : Prop := forall p, D p -> seed p <= R p <= mask p.
(* one dilate-and-clip step: max over the footprint neighbourhood, clipped to the mask *)
Definition stepf (R : V -> Z) (p : V) : Z :=
  Z.min (mask p) (fold_right Z.max (R p) (map R (preds p))).
(* "the step leaves R unchanged" *)
Definition step_fixed (R : V -> Z) : Prop := forall p, D p -> stepf R p = R p.
(* closed under the step (equivalent to step_fixed for R between seed and mask) *)
Definition closed (R : V -> Z) : Prop :=
  forall p q, D p -> In q (preds p) -> Z.min (mask p) (R q) <= R p.
Definition post_fixed (R : V -> Z) : Prop := (forall p, D p -> seed p <= R p) /\ closed R.
(* the reconstruction: between seed and mask, unchanged by the step, and pointwise least among
   ALL images above the seed that the step cannot raise (a fortiori among the fixed points
   between seed and mask) *)
Definition IsRecon (R : V -> Z) : Prop :=
  between R /\ closed R /\ forall R', post_fixed R' -> forall p, D p -> R p <= R' p.
(* certificate: every value above the seed is justified by a predecessor of lower level *)
Definition justified (R : V -> Z) (lvl : V -> nat) : Prop :=
  forall p, D p -> R p = seed p \/
    exists q, In q (preds p) /\ (lvl q < lvl p)%nat /\ R p <= R q.
End Abstract.

(* ------------------------------------------------------------------ grids *)
Definition pt : Type := (Z * Z)%type.
Definition inD (H W : Z) (p : pt) : bool :=
  (0 <=? fst p) && (fst p <? H) && (0 <=? snd p) && (snd p <? W).
Definition gpreds (H W : Z) (offs : list pt) (p : pt) : list pt :=
  filter (inD H W) (map (fun o => (fst p - fst o, snd p - snd o)) offs).
Definition gval (g : list (list Z)) (p : pt) : Z := img_get g (fst p) (snd p).
Definition dom (H W : Z) : list pt :=
  flat_map (fun r => map (fun c => (r, c)) (zrange W)) (zrange H).
Definition shape_ok (H W : Z) (g : list (list Z)) : bool := (zlen g =? H) && rect g W.

Definition GridReconOffs (seed mask : list (list Z)) (offs : list pt) (R : list (list Z)) : Prop :=
  let H := zlen seed in
  let W := width seed in
  IsRecon pt (fun p => inD H W p = true) (gpreds H W offs) (gval seed) (gval mask) (gval R).
Definition GridRecon (seed mask : list (list Z)) (fp : list (list bool)) (R : list (list Z)) : Prop :=
  GridReconOffs seed mask (fp_offsets fp) R.

Definition check_pt (H W : Z) (offs : list pt) (seed mask R lvl : list (list Z)) (p : pt) : bool :=
  let rp := gval R p in
  let ps := gpreds H W offs p in
  (gval seed p <=? rp) && (rp <=? gval mask p) &&
  forallb (fun q => Z.min (gval mask p) (gval R q) <=? rp) ps &&
  ((rp =? gval seed p) ||
   existsb (fun q => (0 <=? gval lvl q) && (gval lvl q <? gval lvl p) && (rp <=? gval R q)) ps).

(* [lvl] is an untrusted certificate (computed by a breadth-first pass in the harness) *)
Definition recon_check_offs (seed mask : list (list Z)) (offs : list pt) (R lvl : list (list Z)) : bool :=
  let H := zlen seed in
  let W := width seed in
  (1 <=? H) && (1 <=? W) && shape_ok H W seed && shape_ok H W mask && shape_ok H W R &&
  forallb (check_pt H W offs seed mask R lvl) (dom H W).
Definition recon_check (seed mask : list (list Z)) (fp : list (list bool)) (R lvl : list (list Z)) : bool :=
  recon_check_offs seed mask (fp_offsets fp) R lvl.

(* ------------------------------------------------------------------ executable definition:
   iterate dilate-and-clip from the seed until nothing changes *)
Definition tab (H W : Z) (f : pt -> Z) : list (list Z) :=
  map (fun r => map (fun c => f (r, c)) (zrange W)) (zrange H).
Definition step_grid (H W : Z) (offs : list pt) (mask R : list (list Z)) : list (list Z) :=
  tab H W (stepf pt (gpreds H W offs) (gval mask) (gval R)).
Definition row_eqb (a b : list Z) : bool :=
  (zlen a =? zlen b) && forallb (fun xy => fst xy =? snd xy) (combine a b).
Definition grid_eqb (a b : list (list Z)) : bool :=
  (zlen a =? zlen b) && forallb (fun xy => row_eqb (fst xy) (snd xy)) (combine a b).
Fixpoint iter_fix (fuel : nat) (H W : Z) (offs : list pt) (mask R : list (list Z)) : option (list (list Z)) :=
  match fuel with
  | O => None
  | S f => let R' := step_grid H W offs mask R in
           if grid_eqb R' R then Some R else iter_fix f H W offs mask R'
  end.
Definition recon_iter_offs (fuel : nat) (seed mask : list (list Z)) (offs : list pt) : option (list (list Z)) :=
  let H := zlen seed in
  let W := width seed in
  if shape_ok H W seed && shape_ok H W mask &&
     forallb (fun p => gval seed p <=? gval mask p) (dom H W)
  then iter_fix fuel H W offs mask (tab H W (gval seed)) else None.
Definition recon_iter (fuel : nat) (seed mask : list (list Z)) (fp : list (list bool)) : option (list (list Z)) :=
  recon_iter_offs fuel seed mask (fp_offsets fp).

(* ------------------------------------------------------------------ wire entries *)
(* footprint offsets for the wire: offset = () for None (centre) or (o0 o1) *)
Definition wire_offs (fp : sx) (off : sx) : list pt :=
  match as_Zs off with
  | [o0; o1] => fp_offsets_at (as_boolss fp) o0 o1
  | _ => fp_offsets (as_boolss fp)
  end.
(* (seed mask footprint R lvl offset) -> bool *)
Definition entry_check (x : sx) : sx :=
  of_bool (recon_check_offs (as_Zss (arg 0 x)) (as_Zss (arg 1 x)) (wire_offs (arg 2 x) (arg 5 x))
                            (as_Zss (arg 3 x)) (as_Zss (arg 4 x))).
(* (seed mask footprint fuel offset) -> (grid) | () *)
Definition entry_iter (x : sx) : sx :=
  of_option of_Zss (recon_iter_offs (as_nat (arg 3 x)) (as_Zss (arg 0 x)) (as_Zss (arg 1 x))
                                    (wire_offs (arg 2 x) (arg 4 x))).
