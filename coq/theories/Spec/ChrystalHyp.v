(* C14 — the hypotheses under which Chrystal's iteration as written is proved to reach the minimum
   enclosing circle, as a boolean that is evaluated on every run's hull lists: the points are
   pairwise distinct, no three of them are collinear (strict convex-hull vertices), and the first
   two points span a supporting line (all points on one closed side: they are adjacent hull
   vertices).  One- and two-point lists need nothing. *)
From Coq Require Import ZArith List Bool.
From Centro Require Import Base.Sx Model.Circle.
Import ListNotations.
Open Scope Z_scope.

(* signed area of (a, b, p): which side of the line a b the point p lies on *)
Definition ccross (a b p : cpt) : Z :=
  (fst b - fst a) * (snd p - snd a) - (snd b - snd a) * (fst p - fst a).
Definition cpt_eqb (p q : cpt) : bool := (fst p =? fst q) && (snd p =? snd q).

Fixpoint nodup_b (l : list cpt) : bool :=
  match l with [] => true | a :: t => negb (existsb (cpt_eqb a) t) && nodup_b t end.

(* a point of h on the line through two different points of h is one of the two *)
Definition general_position (h : list cpt) : bool :=
  nodup_b h &&
  forallb (fun a => forallb (fun b => forallb (fun p =>
    cpt_eqb a b || negb (ccross a b p =? 0) || cpt_eqb p a || cpt_eqb p b) h) h) h.

Definition first_edge_supports (h : list cpt) : bool :=
  let a := nth 0 h (0, 0) in let b := nth 1 h (0, 0) in
  forallb (fun p => 0 <=? ccross a b p) h || forallb (fun p => ccross a b p <=? 0) h.

Definition chrystal_hyp_ok (h : list cpt) : bool :=
  match h with
  | [] => false
  | [_] => true
  | [_; _] => true
  | _ => general_position h && first_edge_supports h
  end.

Definition entry_chrystal_hyp (x : sx) : sx := of_bool (chrystal_hyp_ok (as_pairs x)).
Definition entry_chrystal_hyp_many (x : sx) : sx := L (map entry_chrystal_hyp (as_list x)).
