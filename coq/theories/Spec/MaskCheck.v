(* C12 — the two-run relation as a boolean checker on flattened arrays (row-major; floats as IEEE
   bit patterns after canonicalising -0.0 and NaN): [agree_in m a b] = the two outputs coincide at
   every masked-in position; [agree_out m a b] = output equals input at every masked-out position. *)
From Coq Require Import ZArith List Bool Lia.
From Centro Require Import Base.Sx.
Import ListNotations.
Open Scope Z_scope.

Fixpoint agree_on (sel : bool) (m : list bool) (a b : list Z) : bool :=
  match m, a, b with
  | [], [], [] => true
  | mk :: m', x :: a', y :: b' => (if Bool.eqb mk sel then x =? y else true) && agree_on sel m' a' b'
  | _, _, _ => false
  end.
Definition agree_in := agree_on true.
Definition agree_out := agree_on false.

(* declarative reading *)
Definition Agree (sel : bool) (m : list bool) (a b : list Z) : Prop :=
  length a = length m /\ length b = length m /\
  forall k, (k < length m)%nat -> nth k m (negb sel) = sel -> nth k a 0 = nth k b 0.

Definition entry_agree_in (x : sx) : sx :=
  of_bool (agree_in (as_bools (arg 0 x)) (as_Zs (arg 1 x)) (as_Zs (arg 2 x))).
Definition entry_agree_out (x : sx) : sx :=
  of_bool (agree_out (as_bools (arg 0 x)) (as_Zs (arg 1 x)) (as_Zs (arg 2 x))).
