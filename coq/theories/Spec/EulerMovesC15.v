(* C15 — the local move predicates on label images used by the Euler-number theorems and by the
   certificate search: writing / deleting a pixel, the eight neighbour bits of a pixel with respect to
   a label, (8,4)-simple pixels, isolated points, one-pixel holes.  Definitions only. *)
From Coq Require Import ZArith List Bool.
From Centro Require Import Base.GraphC15 Model.LabelGraph Spec.LabelGraph.
Import ListNotations.
Open Scope Z_scope.

(* is pixel (y, x) in the pixel set of label l *)
Definition inS (img : image) (l y x : Z) : bool := get2 img y x =? l.

(* ---------------------------------------------------------------- writing one pixel *)
Fixpoint upd_nth {A} (k : nat) (f : A -> A) (l : list A) : list A :=
  match l with
  | [] => []
  | a :: r => match k with O => f a :: r | S k' => a :: upd_nth k' f r end
  end.
Definition set_px (img : image) (y x v : Z) : image :=
  if (y <? 0) || (x <? 0) then img
  else upd_nth (Z.to_nat y) (upd_nth (Z.to_nat x) (fun _ => v)) img.
(* delete pixel (y, x): it becomes background *)
Definition remove_px (img : image) (y x : Z) : image := set_px img y x 0.


(* cells of the punctured neighbourhood with their bits, as pixels around (0, 0) *)
Definition nb_cells (n00 n01 n02 n10 n12 n20 n21 n22 : bool) : list (px * bool) :=
  [((-1,-1), n00); ((-1,0), n01); ((-1,1), n02); ((0,-1), n10); ((0,1), n12); ((1,-1), n20); ((1,0), n21); ((1,1), n22)].
(* (8,4)-simple: exactly one 8-component of the set in the punctured neighbourhood, and exactly one
   4-component of the background there that contains a 4-neighbour of the centre *)
Definition simple8 (n00 n01 n02 n10 n12 n20 n21 n22 : bool) : bool :=
  let cells := nb_cells n00 n01 n02 n10 n12 n20 n21 n22 in
  let fg := map fst (filter snd cells) in
  let bg := map fst (filter (fun c => negb (snd c)) cells) in
  let seeds := filter (fun p => adj4 p (0, 0)) bg in
  let others := filter (fun p => negb (adj4 p (0, 0))) bg in
  let unreachable := fill adj4 (S (length bg)) seeds others in
  (n_components adj8 fg =? 1) &&
  (n_components adj4 bg - n_components adj4 unreachable =? 1).
Definition isolated8 (n00 n01 n02 n10 n12 n20 n21 n22 : bool) : bool :=
  negb (n00 || n01 || n02 || n10 || n12 || n20 || n21 || n22).


Definition nb_bit (img : image) (l y x dy dx : Z) : bool := inS img l (y + dy) (x + dx).
Definition simple_at (img : image) (l y x : Z) : bool :=
  simple8 (nb_bit img l y x (-1) (-1)) (nb_bit img l y x (-1) 0) (nb_bit img l y x (-1) 1) (nb_bit img l y x 0 (-1))
          (nb_bit img l y x 0 1) (nb_bit img l y x 1 (-1)) (nb_bit img l y x 1 0) (nb_bit img l y x 1 1).
Definition isolated_at (img : image) (l y x : Z) : bool :=
  isolated8 (nb_bit img l y x (-1) (-1)) (nb_bit img l y x (-1) 0) (nb_bit img l y x (-1) 1) (nb_bit img l y x 0 (-1))
            (nb_bit img l y x 0 1) (nb_bit img l y x 1 (-1)) (nb_bit img l y x 1 0) (nb_bit img l y x 1 1).


(* a background pixel whose four 4-neighbours are in the set: a one-pixel hole *)
Definition hole4_at (im : image) (l y x : Z) : bool :=
  nb_bit im l y x (-1) 0 && nb_bit im l y x 0 (-1) && nb_bit im l y x 0 1 && nb_bit im l y x 1 0.
