(* C15 — certificate search: tries to empty the pixel set of a label by the four moves of
   Proofs.EulerTopoC15.Reduces2 (delete a simple pixel / an isolated point, close a one-pixel hole,
   fill a hole pixel that is simple once filled) and returns k = #points - #holes closed.  The
   strategy is heuristic (delete until stuck, then fill hole pixels until stuck, ...); only its
   result matters: Proofs/EulerSearchC15.v proves [reduce ... = Some k -> Reduces2 l im k], so that
   by C15_euler_reducible_topological 4 W = 4 k = 4 (components - holes) for that image.
   The move predicates are those of Spec/EulerMovesC15.v. *)
From Coq Require Import ZArith List Bool.
From Centro Require Import Base.Sx Base.GraphC15 Model.LabelGraph Spec.LabelGraph Spec.EulerMovesC15.
Import ListNotations.
Open Scope Z_scope.

(* pixels of the complement not 4-connected to the outside margin: candidates for filling *)
Definition hole_pixels (im : image) (l : Z) : list px :=
  match complement_of im l with
  | [] => []
  | c0 :: rest => fill LabelGraph.adj4 (S (length rest)) [c0] rest
  end.
Definition inside (im : image) (p : px) : bool :=
  (0 <=? fst p) && (fst p <? Z.of_nat (img_h im)) && (0 <=? snd p) && (snd p <? Z.of_nat (img_w im)).
Definition is_l (im : image) (l : Z) (p : px) : bool := get2 im (fst p) (snd p) =? l.

Fixpoint reduce (fuel : nat) (filling : bool) (im : image) (l : Z) : option Z :=
  match fuel with
  | O => None
  | S f =>
      let ps := positions (img_h im) (img_w im) in
      if forallb (fun p => negb (is_l im l p)) ps then Some 0
      else if filling then
        let hs := hole_pixels im l in
        match find (fun p => inside im p && negb (is_l im l p) && hole4_at im l (fst p) (snd p)) hs with
        | Some p => option_map (fun k => k - 1) (reduce f true (set_px im (fst p) (snd p) l) l)
        | None =>
            match find (fun p => inside im p && negb (is_l im l p) &&
                                 simple_at (set_px im (fst p) (snd p) l) l (fst p) (snd p)) hs with
            | Some p => reduce f true (set_px im (fst p) (snd p) l) l
            | None => reduce f false im l
            end
        end
      else
        match find (fun p => is_l im l p && (simple_at im l (fst p) (snd p) || isolated_at im l (fst p) (snd p))) ps with
        | Some p =>
            if simple_at im l (fst p) (snd p) then reduce f false (remove_px im (fst p) (snd p)) l
            else option_map (fun k => k + 1) (reduce f false (remove_px im (fst p) (snd p)) l)
        | None => reduce f true im l
        end
  end.
Definition reduce_label (im : image) (l : Z) : option Z :=
  reduce (8 * (img_h im + 2) * (img_w im + 2) + 8) false im l.

(* (img l) -> (k) | () *)
Definition entry_reduce (x : sx) : sx :=
  match reduce_label (as_Zss (arg 0 x)) (as_Z (arg 1 x)) with
  | Some k => L [I k]
  | None => L []
  end.
