(* C16 — declarative statement of "exact Bresenham sequence" as a boolean checker on an
   emitted pixel list, so that it can be (a) proved of the model for all end points and
   (b) extracted and evaluated on the implementation's own output. *)
From Coq Require Import ZArith List Bool.
From Centro Require Import Base.Sx Model.Lines.
Import ListNotations.
Open Scope Z_scope.

Definition pair_eqb (p q : Z * Z) : bool := (fst p =? fst q) && (snd p =? snd q).
Definition sgn_to (a0 a1 : Z) : Z := if a0 <? a1 then 1 else if a1 <? a0 then -1 else 0.

(* points given as (major, minor) offsets relative to the start; D >= d >= 0 are the absolute
   deltas, sM/sm the directions.  Checks point k (counting from [k]) and the step to the next. *)
Fixpoint seq_ok (D d sM sm : Z) (k : Z) (pts : list (Z * Z)) : bool :=
  match pts with
  | [] => true
  | (a, b) :: rest =>
      (a =? sM * k) &&
      (* within half a pixel of the ideal segment, measured along the minor axis *)
      (Z.abs (2 * (D * b - sm * (d * k))) <=? D) &&
      match rest with
      | [] => true
      | (a', b') :: _ => (a' =? a + sM) && ((b' =? b) || (b' =? b + sm))
      end && seq_ok D d sM sm (k + 1) rest
  end.

Definition line_ok (l : line) (pts : list (Z * Z)) : bool :=
  let '((i0, j0), (i1, j1)) := l in
  let di := Z.abs (i1 - i0) in
  let dj := Z.abs (j1 - j0) in
  (Z.of_nat (length pts) =? Z.max di dj + 1) &&
  pair_eqb (hd (i0 - 1, j0) pts) (i0, j0) &&
  pair_eqb (last pts (i1 - 1, j1)) (i1, j1) &&
  (if dj <=? di
   then seq_ok di dj (sgn_to i0 i1) (sgn_to j0 j1) 0 (map (fun p => (fst p - i0, snd p - j0)) pts)
   else seq_ok dj di (sgn_to j0 j1) (sgn_to i0 i1) 0 (map (fun p => (snd p - j0, fst p - i0)) pts)).

(* declarative reading of "exact Bresenham sequence" *)
Definition LineSpec (l : line) (pts : list (Z * Z)) : Prop :=
  let '((i0, j0), (i1, j1)) := l in
  let di := Z.abs (i1 - i0) in
  let dj := Z.abs (j1 - j0) in
  Z.of_nat (length pts) = Z.max di dj + 1 /\
  nth 0 pts (i0 - 1, j0) = (i0, j0) /\
  last pts (i1 - 1, j1) = (i1, j1) /\
  forall n, (n < length pts)%nat ->
    let p := nth n pts (0, 0) in
    let k := Z.of_nat n in
    (* the major coordinate advances by exactly one per point, the minor one stays within half
       a pixel of the ideal segment *)
    (dj <= di -> fst p = i0 + sgn_to i0 i1 * k /\
                 Z.abs (2 * (di * (snd p - j0) - sgn_to j0 j1 * (dj * k))) <= di) /\
    (di < dj -> snd p = j0 + sgn_to j0 j1 * k /\
                Z.abs (2 * (dj * (fst p - i0) - sgn_to i0 i1 * (di * k))) <= dj) /\
    (* and moves by 0 or by one step towards the end point *)
    ((S n < length pts)%nat ->
      let q := nth (S n) pts (0, 0) in
      (dj <= di -> snd q = snd p \/ snd q = snd p + sgn_to j0 j1) /\
      (di < dj -> fst q = fst p \/ fst q = fst p + sgn_to i0 i1)).


Definition slice {A} (start : nat) (len : nat) (l : list A) : list A := firstn len (skipn start l).

(* the batch clause: output block k is a correct line for request k, blocks are laid out by
   cumulative counts *)
Fixpoint batch_ok (ls : list line) (index counts : list Z) (pts : list (Z * Z)) (pos : Z) : bool :=
  match ls, index, counts with
  | [], [], [] => Z.of_nat (length pts) =? pos
  | l :: ls', ix :: index', c :: counts' =>
      (ix =? pos) && (c =? l_count l) &&
      line_ok l (slice (Z.to_nat ix) (Z.to_nat c) pts) &&
      batch_ok ls' index' counts' pts (pos + c)
  | _, _, _ => false
  end.

(* wire entry: ((lines) index count i j) -> bool *)
Definition entry_check (x : sx) : sx :=
  let ls := map as_line (as_list (arg 0 x)) in
  of_bool (batch_ok ls (as_Zs (arg 1 x)) (as_Zs (arg 2 x))
             (combine (as_Zs (arg 3 x)) (as_Zs (arg 4 x))) 0).
(* ((i0 j0 i1 j1) ((y x) ...)) -> bool *)
Definition entry_check_line (x : sx) : sx :=
  of_bool (line_ok (as_line (arg 0 x)) (as_pairs (arg 1 x))).
