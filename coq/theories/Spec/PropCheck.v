(* C03: the checker of Spec/PropSpec.v instantiated on H x W pixel grids,
   (a) over Z (exact stream: integer images, weight 0, cost = D) - extracted and run in OCaml;
   (b) over binary64 bit patterns with the kernel's float addition - evaluated inside Coq only.
   On [0, 0x7FF0000000000000] the order of bit patterns is the numeric order of the doubles, so
   the cost algebra is (Z, <=, plus64, 0) restricted to that interval.  Definitions only. *)
From Coq Require Import ZArith List Bool.
From Coq Require PrimFloat.
From Centro Require Import Base.Sx Base.PropFloat Model.PropHeap Model.Propagate Spec.PropSpec.
Import ListNotations.
Open Scope Z_scope.

Definition pix := (Z * Z)%type.
Definition eqP (a b : pix) : bool := (fst a =? fst b) && (snd a =? snd b).
Definition inrange (m n : Z) (v : pix) : bool :=
  (0 <=? fst v) && (fst v <? m) && (0 <=? snd v) && (snd v <? n).
Definition gnbrs (m n : Z) (v : pix) : list pix :=
  filter (inrange m n) (map (fun o : Z * Z => (fst v + fst o, snd v + snd o)) offsets8).

Definition at2 {A} (d : A) (l : list (list A)) (v : pix) : A := get2 d l (fst v) (snd v).

(* ---------- (a) exact integer instance ---------- *)
Definition clamped_fetch_Z (image : list (list Z)) (i j m n : Z) : Z :=
  get2 0 image (clamp i m) (clamp j n).
Definition w_Z (image : list (list Z)) (m n : Z) (u v : pix) : Z :=
  fold_left (fun (acc : Z) (o : Z * Z) =>
               acc + Z.abs (clamped_fetch_Z image (fst u + fst o) (snd u + snd o) m n
                            - clamped_fetch_Z image (fst v + fst o) (snd v + snd o) m n))
            offsets9 0.
Definition dist_Z (dist : list (list Z)) (v : pix) : option Z :=
  let k := at2 (-1) dist v in if k =? -1 then None else Some k.

Definition prop_check_Z (m n : Z) (image labels : list (list Z)) (mask : list (list bool))
           (lo dist : list (list Z)) (hint : list ((pix * pix) * Z)) : bool :=
  prop_check Z Z.leb Z.eqb (fun k => 0 <=? k) Z.add 0 pix eqP (coords m n) (gnbrs m n)
             (at2 false mask) (at2 0 labels) (w_Z image m n) (at2 0 lo) (dist_Z dist) hint.

Definition Spec_Z (m n : Z) (image labels : list (list Z)) (mask : list (list bool))
           (lo dist : list (list Z)) : Prop :=
  Spec Z Z.le Z.add 0 pix (coords m n) (gnbrs m n)
       (at2 false mask) (at2 0 labels) (w_Z image m n) (at2 0 lo) (dist_Z dist).

(* hint entries on the wire: [vi; vj; ui; uj; label] *)
Definition as_hint (x : sx) : list ((pix * pix) * Z) :=
  map (fun q => (((as_Z (arg 0 q), as_Z (arg 1 q)), (as_Z (arg 2 q), as_Z (arg 3 q))), as_Z (arg 4 q))) (as_list x).

(* wire: [m; n; image; labels; mask; lo; dist; hint] *)
Definition entry_check_z (x : sx) : sx :=
  of_bool (prop_check_Z (as_Z (arg 0 x)) (as_Z (arg 1 x)) (as_Zss (arg 2 x)) (as_Zss (arg 3 x))
                        (as_boolss (arg 4 x)) (as_Zss (arg 5 x)) (as_Zss (arg 6 x)) (as_hint (arg 7 x))).

(* ---------- (b) binary64 instance ---------- *)
Definition okb64 (k : Z) : bool := (0 <=? k) && (k <=? bits_inf).
Definition ok64 (k : Z) : Prop := 0 <= k <= bits_inf.
(* float addition on bit patterns; a result outside [0,+inf] (impossible for operands inside) is
   mapped to +inf so that closure holds by construction *)
Definition sat64 (b : Z) : Z := if okb64 b then b else bits_inf.
Definition plus64 (a b : Z) : Z := sat64 (badd a b).
Definition w_b64 (image : list (list float)) (m n : Z) (weight : float) (u v : pix) : Z :=
  sat64 (bits_of_float (step_cost image (fst u) (snd u) (fst v) (snd v) m n weight)).
Definition dist_b64 (dist : list (list Z)) (v : pix) : option Z :=
  let b := at2 bits_neg1 dist v in if b =? bits_neg1 then None else Some b.

Definition prop_check_b64 (m n : Z) (image : list (list float)) (labels : list (list Z))
           (mask : list (list bool)) (weight : float) (lo dist : list (list Z)) (hint : list ((pix * pix) * Z)) : bool :=
  prop_check Z Z.leb Z.eqb okb64 plus64 0 pix eqP (coords m n) (gnbrs m n)
             (at2 false mask) (at2 0 labels) (w_b64 image m n weight) (at2 0 lo) (dist_b64 dist) hint.

Definition Spec_b64 (m n : Z) (image : list (list float)) (labels : list (list Z))
           (mask : list (list bool)) (weight : float) (lo dist : list (list Z)) : Prop :=
  Spec Z Z.le plus64 0 pix (coords m n) (gnbrs m n)
       (at2 false mask) (at2 0 labels) (w_b64 image m n weight) (at2 0 lo) (dist_b64 dist).

(* wire: [m; n; image bits; labels; mask; weight bits; lo; dist bits; hint] *)
Definition check_b64_sx (x : sx) (lo dist : list (list Z)) (hint : list ((pix * pix) * Z)) : bool :=
  prop_check_b64 (as_Z (arg 0 x)) (as_Z (arg 1 x)) (map (map float_of_bits) (as_Zss (arg 2 x)))
                 (as_Zss (arg 3 x)) (as_boolss (arg 4 x)) (float_of_bits (as_Z (arg 5 x))) lo dist hint.
Definition entry_check_b64 (x : sx) : sx :=
  of_bool (check_b64_sx x (as_Zss (arg 6 x)) (as_Zss (arg 7 x)) (as_hint (arg 8 x))).

Definition auto_hint_b64 (m n : Z) (image : list (list float)) (labels : list (list Z))
           (mask : list (list bool)) (weight : float) (lo dist : list (list Z)) : list ((pix * pix) * Z) :=
  auto_hint Z Z.eqb plus64 pix eqP (coords m n) (gnbrs m n)
            (at2 false mask) (at2 0 labels) (w_b64 image m n weight) (at2 0 lo) (dist_b64 dist).
Definition auto_hint_sx (x : sx) (lo dist : list (list Z)) : list ((pix * pix) * Z) :=
  auto_hint_b64 (as_Z (arg 0 x)) (as_Z (arg 1 x)) (map (map float_of_bits) (as_Zss (arg 2 x)))
                (as_Zss (arg 3 x)) (as_boolss (arg 4 x)) (float_of_bits (as_Z (arg 5 x))) lo dist.

(* correspondence + checker in one evaluation:
   [m; n; image; labels; mask; weight; keymode; lo; dist; hint] ->
   [model(keymode) = (lo, dist); prop_check_b64 (lo, dist)] *)
Definition entry_eval (x : sx) : sx :=
  let lo := as_Zss (arg 7 x) in
  let dist := as_Zss (arg 8 x) in
  let same := match run_sx x with
              | Some (mlo, md) => sx_eqb (L [of_Zss mlo; of_Zss md]) (L [of_Zss lo; of_Zss dist])
              | None => false
              end in
  L [of_bool same; of_bool (check_b64_sx x lo dist (as_hint (arg 9 x)))].

(* attribution: does the given model variant satisfy the property on this input?
   [m; n; image; labels; mask; weight; keymode] -> 1/0, hint computed inside Coq *)
Definition model_passes (x : sx) : bool :=
  match run_sx x with
  | Some (mlo, md) =>
      check_b64_sx x mlo md (auto_hint_sx x mlo md)
  | None => false
  end.
Definition entry_model_passes (x : sx) : sx := L [of_bool (model_passes x)].

(* evidence (not proof) for the premise of prop_check_b64_sound, evaluated on random triples:
   [a; b; c] with a <= b, all in [0,+inf] -> [plus64 a c <=? plus64 b c; c <=? plus64 a c] *)
Definition entry_mono (x : sx) : sx :=
  let a := as_Z (arg 0 x) in let b := as_Z (arg 1 x) in let c := as_Z (arg 2 x) in
  L [of_bool (plus64 a c <=? plus64 b c); of_bool (c <=? plus64 a c)].
