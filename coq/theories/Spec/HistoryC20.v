(* C20 - what a table of effect signatures must satisfy for results to be history independent,
   as a declarative predicate and as the boolean checker that is evaluated (by the kernel, on the
   GENERATED table) every run. *)
From Coq Require Import ZArith List Bool.
From Centro Require Import Model.HistoryC20.
Import ListNotations.
Open Scope Z_scope.

Definition kind_eqb (a b : kind) : bool :=
  match a, b with KConst, KConst | KArg, KArg | KAccum, KAccum | KMemo, KMemo => true | _, _ => false end.

(* one signature *)
Record sig_ok (s : sig) : Prop := {
  ok_const : forall g k, In (g, k) (s_fills s) -> k = KConst \/ k = KMemo;   (* only constant tables and memo
                                                                          tables keyed by the arguments *)
  ok_reads : forall g, In g (s_reads s) -> exists k, In (g, k) (s_fills s); (* it fills whatever it reads ... *)
  ok_guard : s_unguarded s = [];                                        (* ... before reading it *)
  ok_seed : s_draws s = true -> s_seed_dom s = true /\ s_seed_lit s <> None;
  ok_entropy : s_entropy s = false
}.

Definition sigs_ok (l : list sig) : Prop := forall s, In s l -> sig_ok s.

Definition is_none {A} (o : option A) : bool := match o with None => true | Some _ => false end.
Definition is_nil {A} (l : list A) : bool := match l with [] => true | _ => false end.

Definition sig_okb (s : sig) : bool :=
  forallb (fun gk => kind_eqb (snd gk) KConst || kind_eqb (snd gk) KMemo) (s_fills s)
  && forallb (fun g => existsb (fun gk => g =? fst gk) (s_fills s)) (s_reads s)
  && is_nil (s_unguarded s)
  && (negb (s_draws s) || (s_seed_dom s && negb (is_none (s_seed_lit s))))
  && negb (s_entropy s).

Definition sigs_okb (l : list sig) : bool := forallb sig_okb l.

(* the static no-mutation obligation: no candidate in-place write to a parameter outside the
   documented in-place helpers *)
Definition inplace_ok (l : list sig) : Prop := forall s, In s l -> s_inplace s = [] \/ s_exempt s = true.
Definition inplace_okb (l : list sig) : bool := forallb (fun s => is_nil (s_inplace s) || s_exempt s) l.

(* ids are the positions: lookup finds the row itself *)
Definition ids_okb (l : list sig) : bool :=
  (fix go (k : Z) (l : list sig) : bool :=
     match l with [] => true | s :: r => (s_id s =? k) && go (k + 1) r end) 0 l.
