(* C13 — the minimum Feret diameter, semantically.  For a C02 hull polygon V of a pixel set S:
   (1) bf_min V - the minimum over the edges of V of (largest squared vertex cross product) /
       (squared edge length) - is, edge by edge, the squared width of S ITSELF in the direction normal
       to that edge (a strip flush with the edge, tight on both sides), so bf_min V is the smallest
       squared width of S over all edge-flush directions and is attained;
   (2) the width of S in ANY direction is at least that, given the antipodal cone cover of the directions
       (ConeCover below; the direction-continuity part: between two consecutive critical directions one
       pair of pixels is extreme) - by C14's cone_bound (triangle inequality, squared, over Z). *)
From Coq Require Import ZArith List Bool Lia ZifyBool.
From Centro Require Import Base.Sx Model.Hull Spec.HullSpec Proofs.HullGeom Model.Circle Spec.ChrystalHyp
  Proofs.ChrystalHull Model.Feret Spec.CalipersHyp Spec.FeretBrute Spec.FeretSpec Spec.FeretLower
  Proofs.FeretProofs Proofs.FeretLowerProofs Proofs.CalipersFull Proofs.CalipersHull Proofs.PolygonDiscC13.
Import ListNotations.
Open Scope Z_scope.

Lemma zsq_pos x : x <> 0 -> 0 < x * x.
Proof. intros H. destruct (Z.lt_trichotomy x 0) as [L|[E|G]]; [nia|contradiction|nia]. Qed.

Lemma fdist2_pos (A B : fpt) : A <> B -> 0 < fdist2 A B.
Proof.
  destruct A as [a1 a2], B as [b1 b2]. intros Ne. unfold fdist2. cbn [fst snd].
  assert (H : a1 <> b1 \/ a2 <> b2).
  { destruct (Z.eq_dec a1 b1) as [E1|N1]; [|left; exact N1]. destruct (Z.eq_dec a2 b2) as [E2|N2]; [|right; exact N2].
    exfalso. apply Ne. subst. reflexivity. }
  pose proof (Z.square_nonneg (a1 - b1)) as Q1. pose proof (Z.square_nonneg (a2 - b2)) as Q2.
  destruct H as [H|H]; [pose proof (zsq_pos (a1 - b1) ltac:(lia))|pose proof (zsq_pos (a2 - b2) ltac:(lia))]; lia.
Qed.

(* ---------------------------------------------------------------- the qmin fold *)
Section QFold.
  Variable A : Type.
  Variable f g : A -> Z.

  Definition qok (o : option (Z * Z)) : Prop := match o with None => True | Some q => 0 < snd q end.

  Lemma qmin_fold_spec : forall (l : list A) (init : option (Z * Z)),
    qok init -> (forall a, In a l -> 0 < g a) ->
    match fold_left (fun best a => qmin best (f a) (g a)) l init with
    | None => l = [] /\ init = None
    | Some r =>
        0 < snd r /\
        (Some r = init \/ exists a, In a l /\ r = (f a, g a)) /\
        (forall a, In a l -> fst r * g a <= f a * snd r) /\
        (forall q, init = Some q -> fst r * snd q <= fst q * snd r)
    end.
  Proof.
    induction l as [|a t IH]; intros init Hi Hg; cbn [fold_left].
    - destruct init as [[n d]|]; [|split; reflexivity]. cbn [qok snd] in Hi. cbn [fst snd].
      repeat split; try exact Hi; [left; reflexivity|intros ? []|intros q E; injection E as <-; cbn [fst snd]; lia].
    - assert (Ga : 0 < g a) by (apply Hg; left; reflexivity).
      assert (Hg' : forall x, In x t -> 0 < g x) by (intros x Hx; apply Hg; right; exact Hx).
      assert (Hq : qok (qmin init (f a) (g a))).
      { unfold qmin. destruct init as [[bn bd]|]; [destruct (f a * bd <? bn * g a)|]; cbn [qok snd] in *; assumption. }
      specialize (IH (qmin init (f a) (g a)) Hq Hg').
      destruct (fold_left (fun best a0 => qmin best (f a0) (g a0)) t (qmin init (f a) (g a))) as [[rn rd]|].
      + destruct IH as (Rd & Mem & Min & MinI). cbn [fst snd] in *. repeat split; [exact Rd| | |].
        * destruct Mem as [E|[x [Hx E]]]; [|right; exists x; split; [right; exact Hx|exact E]].
          unfold qmin in E. destruct init as [[bn bd]|].
          -- destruct (f a * bd <? bn * g a); [right; exists a; split; [left; reflexivity|congruence]|left; exact E].
          -- right. exists a. split; [left; reflexivity|congruence].
        * intros x [<-|Hx]; [|apply Min; exact Hx].
          unfold qmin in MinI. destruct init as [[bn bd]|].
          -- cbn [qok snd] in Hi. destruct (f a * bd <? bn * g a) eqn:Cmp.
             ++ specialize (MinI _ eq_refl). cbn [fst snd] in MinI. exact MinI.
             ++ specialize (MinI _ eq_refl). cbn [fst snd] in MinI. nia.
          -- specialize (MinI _ eq_refl). cbn [fst snd] in MinI. exact MinI.
        * intros [bn bd] E. subst init. cbn [qok snd fst] in *. unfold qmin in MinI.
          destruct (f a * bd <? bn * g a) eqn:Cmp; specialize (MinI _ eq_refl); cbn [fst snd] in MinI; nia.
      + destruct IH as [_ E]. unfold qmin in E. destruct init as [[bn bd]|]; [destruct (_ <? _)|]; discriminate.
  Qed.
End QFold.

(* ---------------------------------------------------------------- edges of a hull polygon *)
Section Edges.
  Variable PS V : list pt.
  Hypothesis HS : HullSpec PS V.
  Hypothesis L3 : (3 <= length V)%nat.
  Let n := length V.

  Lemma nxt_lt a : (a < n)%nat -> (nxt n a < n)%nat.
  Proof. intros H. unfold nxt. destruct (Nat.eqb_spec (S a) n); lia. Qed.
  Lemma nxt_ne a : (a < n)%nat -> nxt n a <> a.
  Proof. intros H. unfold nxt. destruct (Nat.eqb_spec (S a) n); lia. Qed.

  Lemma vertex_ne a : (a < n)%nat -> pnth a V <> pnth (nxt n a) V.
  Proof.
    intros La E. unfold pnth in E. apply (proj1 (NoDup_nth V (0, 0)) (hs_nodup _ _ HS)) in E; [|exact La|apply nxt_lt; exact La].
    exact (nxt_ne a La (eq_sym E)).
  Qed.

  Lemma edge_den_pos a : (a < n)%nat -> 0 < edge_den V a.
  Proof. intros La. unfold edge_den. apply fdist2_pos. apply (vertex_ne a La). Qed.

  (* the brute-force minimum is the smallest edge quotient, and is one of them *)
  Theorem bf_min_spec : exists bn bd,
    bf_min V = Some (bn, bd) /\ 0 < bd /\
    (exists a, (a < n)%nat /\ bn = edge_num V a /\ bd = edge_den V a) /\
    (forall a, (a < n)%nat -> bn * edge_den V a <= edge_num V a * bd).
  Proof.
    pose proof (qmin_fold_spec nat (edge_num V) (edge_den V) (seq 0 n) None Logic.I
                  ltac:(intros a Ha; apply in_seq in Ha; apply edge_den_pos; lia)) as Sp.
    assert (E : bf_min V = fold_left (fun best a => qmin best (edge_num V a) (edge_den V a)) (seq 0 n) None) by reflexivity.
    rewrite E. clear E. destruct (fold_left (fun best a => qmin best (edge_num V a) (edge_den V a)) (seq 0 n) None) as [[bn bd]|].
    - destruct Sp as (Bd & Mem & Min & _). cbn [fst snd] in *. exists bn, bd. repeat split; [exact Bd| |].
      + destruct Mem as [E|[a [Ha E]]]; [discriminate|]. apply in_seq in Ha. exists a. injection E as -> ->. repeat split; lia.
      + intros a La. apply Min. apply in_seq. lia.
    - destruct Sp as [E0 _]. unfold n in E0. destruct V as [|x t]; cbn [length] in L3; [lia|discriminate].
  Qed.

  (* the sense of the polygon and the side of every pixel, in the calipers' cross product *)
  Lemma edge_side : exists sg, (sg = 1 \/ sg = -1) /\
    forall a, (a < n)%nat -> forall s, In s PS -> 0 <= sg * fcross s (pnth a V) (pnth (nxt n a) V).
  Proof.
    destruct (hs_poly _ _ HS L3) as [sg [Sg Pl]]. exists (- sg). split; [lia|].
    intros a La s Hs.
    assert (F2 : length (firstn 2 V) = 2%nat) by (destruct V as [|x0 [|y0 r0]]; cbn [length] in L3; try lia; reflexivity).
    assert (Lc : (a + 2 < length (cyc V))%nat) by (unfold cyc; rewrite app_length, F2; fold n; lia).
    assert (Cons : exists c, consecutive V (pnth a V) (pnth (nxt n a) V) c).
    { pose proof (split3 (0, 0) (cyc V) a Lc) as Sp. destruct (cyc_nth V a ltac:(lia) La) as [E1 E2].
      unfold pt in *. rewrite E1, E2 in Sp. eexists. eexists. eexists. exact Sp. }
    destruct Cons as [c Cc]. destruct (Pl _ _ _ Cc) as [_ In']. destruct (In' s Hs) as [H _].
    rewrite cross_ccross in H. rewrite fcross_ccross. lia.
  Qed.

  (* the direction normal to an edge, as the linear part of fcross(., A, B) *)
  Definition enormal (A B : fpt) : Z * Z := (snd A - snd B, - (fst A - fst B)).
  Definition econst (A B : fpt) : Z := (fst A - fst B) * snd A - fst A * (snd A - snd B).

  Lemma fcross_affine s A B : fcross s A B = fst (enormal A B) * fst s + snd (enormal A B) * snd s + econst A B.
  Proof. unfold fcross, enormal, econst. cbn [fst snd]. ring. Qed.

  Lemma enormal_norm A B : fst (enormal A B) * fst (enormal A B) + snd (enormal A B) * snd (enormal A B) = fdist2 A B.
  Proof. unfold enormal, fdist2. cbn [fst snd]. ring. Qed.

  (* edge by edge: the quotient edge_num / edge_den is the squared width of S in the edge's normal
     direction - a strip flush with the edge that contains S and is touched on both sides *)
  Theorem edge_strip a : (a < n)%nat ->
    exists u lo hi, u <> (0, 0) /\
      fst u * fst u + snd u * snd u = edge_den V a /\
      Strip PS u lo hi /\
      (exists p q, In p PS /\ In q PS /\ fst u * fst p + snd u * snd p = lo /\ fst u * fst q + snd u * snd q = hi) /\
      (hi - lo) * (hi - lo) = edge_num V a.
  Proof.
    intros La. destruct edge_side as [sg [Sg Side]].
    set (A := pnth a V). set (B := pnth (nxt n a) V).
    set (u := (sg * fst (enormal A B), sg * snd (enormal A B))).
    assert (IA : In A PS) by (apply (hs_subset _ _ HS); apply nth_In; exact La).
    assert (IB : In B PS) by (apply (hs_subset _ _ HS); apply nth_In; apply nxt_lt; exact La).
    (* the functional F(s) = sg * fcross s A B >= 0 on S, = 0 at A; its largest value is taken at a vertex *)
    assert (NV : V <> []) by (intro E; rewrite E in L3; cbn in L3; lia).
    destruct (polygon_functional_max PS V (fst u) (snd u) HS NV) as [vm [Hvm Hmax]].
    assert (Fs : forall s, phi (fst u) (snd u) s = sg * fcross s A B - sg * econst A B).
    { intros s. unfold phi, u. cbn [fst snd]. rewrite fcross_affine. ring. }
    assert (F0 : fcross A A B = 0) by (unfold fcross; ring).
    exists u, (- (sg * econst A B)), (phi (fst u) (snd u) vm). split; [|split; [|split; [|split]]].
    - unfold u, enormal. cbn [fst snd]. intro E. injection E as E1 E2.
      pose proof (fdist2_pos A B (vertex_ne a La)) as D. unfold fdist2 in D.
      assert (X : snd A - snd B = 0) by (destruct Sg as [-> | ->]; lia).
      assert (Y : fst A - fst B = 0) by (destruct Sg as [-> | ->]; lia).
      rewrite X, Y in D. lia.
    - unfold u. cbn [fst snd].
      transitivity (fst (enormal A B) * fst (enormal A B) + snd (enormal A B) * snd (enormal A B));
        [destruct Sg as [-> | ->]; ring|rewrite enormal_norm; reflexivity].
    - intros s Hs. fold (phi (fst u) (snd u) s). split; [rewrite Fs; pose proof (Side a La s Hs); fold A B in H; lia|apply Hmax; exact Hs].
    - exists A, vm. split; [exact IA|]. split; [apply (hs_subset _ _ HS); exact Hvm|]. split; [|reflexivity].
      fold (phi (fst u) (snd u) A). rewrite Fs, F0. ring.
    - (* (max over S of F)^2 = the largest squared vertex cross product *)
      rewrite (Fs vm). replace (sg * fcross vm A B - sg * econst A B - - (sg * econst A B)) with (sg * fcross vm A B) by ring.
      destruct (edge_num_spec V a) as [Up Att]. fold n A B in Up, Att.
      destruct (In_nth V vm (0, 0) Hvm) as [km [Lkm Ekm]].
      assert (Sq : (sg * fcross vm A B) * (sg * fcross vm A B) = cross2 vm A B) by (unfold cross2; destruct Sg as [-> | ->]; ring).
      rewrite Sq. apply Z.le_antisymm.
      + specialize (Up km Lkm). rewrite <- Ekm. exact Up.
      + destruct Att as [Z0|[k [Lk Ek]]]; [rewrite Z0; unfold cross2; apply Z.square_nonneg|].
        rewrite <- Ek.
        assert (Hw : In (pnth k V) PS) by (apply (hs_subset _ _ HS); apply nth_In; exact Lk).
        pose proof (Hmax _ Hw) as Le. rewrite !Fs in Le.
        assert (P1 : 0 <= sg * fcross (pnth k V) A B) by (apply (Side a La); exact Hw).
        assert (P2 : 0 <= sg * fcross vm A B) by (apply (Side a La); apply (hs_subset _ _ HS); exact Hvm).
        assert (C1 : cross2 (pnth k V) A B = (sg * fcross (pnth k V) A B) * (sg * fcross (pnth k V) A B))
          by (unfold cross2; destruct Sg as [-> | ->]; ring).
        change (cross2 (pnth k V) A B <= cross2 vm A B). rewrite C1, <- Sq. apply Z.mul_le_mono_nonneg; lia.
  Qed.
End Edges.

(* ---------------------------------------------------------------- the semantic statement *)
Definition norm2z (u : Z * Z) : Z := fst u * fst u + snd u * snd u.

(* S has squared width exactly wn / wd in some direction: a strip that contains S and is touched on both sides *)
Definition width_attained (PS : list pt) (wn wd : Z) : Prop :=
  exists u lo hi, u <> (0, 0) /\ Strip PS u lo hi /\
    (exists p q, In p PS /\ In q PS /\ fst u * fst p + snd u * snd p = lo /\ fst u * fst q + snd u * snd q = hi) /\
    (hi - lo) * (hi - lo) * wd = wn * norm2z u.

(* no strip that contains S is narrower, in the directions of P *)
Definition width_lower (P : Z * Z -> Prop) (PS : list pt) (wn wd : Z) : Prop :=
  forall u lo hi, P u -> Strip PS u lo hi -> wn * norm2z u <= (hi - lo) * (hi - lo) * wd.

(* u is normal to an edge of the polygon V *)
Definition edge_direction (V : list pt) (u : Z * Z) : Prop :=
  exists a k, (a < length V)%nat /\ k <> 0 /\
    u = (k * (snd (pnth a V) - snd (pnth (nxt (length V) a) V)), k * - (fst (pnth a V) - fst (pnth (nxt (length V) a) V))).

(* the squared width of S in the normal direction of edge a is edge_num / edge_den: any strip normal to the
   edge that contains S is at least that wide *)
Lemma edge_width_lower PS V (HS : HullSpec PS V) (L3 : (3 <= length V)%nat) a k lo hi :
  (a < length V)%nat -> k <> 0 ->
  Strip PS (k * (snd (pnth a V) - snd (pnth (nxt (length V) a) V)), k * - (fst (pnth a V) - fst (pnth (nxt (length V) a) V))) lo hi ->
  edge_num V a * (k * k) <= (hi - lo) * (hi - lo).
Proof.
  intros La Hk St.
  destruct (edge_strip PS V HS L3 a La) as [u [lo' [hi' (Nu & Nm & St' & [p [q (Ip & Iq & Ep & Eq)]] & W)]]].
  (* u is +- the enormal: recover it from the proof term is not possible, so use the tight pair p, q directly *)
  pose proof (St p Ip) as [P1 P2]. pose proof (St q Iq) as [Q1 Q2]. cbn [fst snd] in P1, P2, Q1, Q2.
  (* both strips are normal to the same edge: u = s * enormal with s = +-1; compare through the affine form *)
  destruct (edge_side PS V HS L3) as [sg [Sg Side]].
  set (A := pnth a V) in *. set (B := pnth (nxt (length V) a) V) in *.
  assert (F : forall s, k * fcross s A B = (k * (snd A - snd B)) * fst s + (k * - (fst A - fst B)) * snd s + k * econst A B)
    by (intros s; unfold fcross, econst; ring).
  (* the vertex realising edge_num and the vertex A (cross 0) are both in S *)
  destruct (edge_num_spec V a) as [_ Att]. fold A B in Att.
  assert (IA : In A PS) by (apply (hs_subset _ _ HS); apply nth_In; exact La).
  pose proof (St A IA) as [A1 A2]. cbn [fst snd] in A1, A2.
  assert (F0 : fcross A A B = 0) by (unfold fcross; ring).
  destruct Att as [Z0|[kk [Lk Ek]]]; [rewrite Z0; pose proof (Z.square_nonneg (hi - lo)); lia|].
  set (w := pnth kk V) in *.
  assert (Iw : In w PS) by (apply (hs_subset _ _ HS); apply nth_In; exact Lk).
  pose proof (St w Iw) as [W1 W2]. cbn [fst snd] in W1, W2.
  pose proof (F A) as FA. pose proof (F w) as Fw. rewrite F0 in FA.
  assert (D : Z.abs (k * fcross w A B) <= hi - lo) by lia.
  rewrite <- Ek. unfold cross2.
  assert (Sq : fcross w A B * fcross w A B * (k * k) = Z.abs (k * fcross w A B) * Z.abs (k * fcross w A B)).
  { rewrite Z.abs_square. ring. }
  change (fcross w A B * fcross w A B * (k * k) <= (hi - lo) * (hi - lo)).
  rewrite Sq. apply Z.mul_le_mono_nonneg; try lia; apply Z.abs_nonneg.
Qed.

(* Full: for every C02 hull polygon V of S with at least three vertices, bf_min V is a width that S attains
   (in an edge-normal direction) and no strip normal to an edge of V that contains S is narrower *)
Theorem feret_min_edge_flush PS V :
  HullSpec PS V -> (3 <= length V)%nat ->
  exists bn bd, bf_min V = Some (bn, bd) /\ 0 < bd /\
    width_attained PS bn bd /\ width_lower (edge_direction V) PS bn bd.
Proof.
  intros HS L3. destruct (bf_min_spec PS V HS L3) as [bn [bd (E & Bd & [a (La & En & Ed)] & Min)]].
  exists bn, bd. split; [exact E|]. split; [exact Bd|]. split.
  - destruct (edge_strip PS V HS L3 a La) as [u [lo [hi (Nu & Nm & St & Tight & W)]]].
    exists u, lo, hi. split; [exact Nu|]. split; [exact St|]. split; [exact Tight|].
    unfold norm2z. rewrite W, Nm, En, Ed. ring.
  - intros u lo hi [a' [k (La' & Hk & ->)]] St. unfold norm2z. cbn [fst snd].
    pose proof (edge_width_lower PS V HS L3 a' k lo hi La' Hk St) as Lw.
    pose proof (Min a' La') as M. pose proof (edge_den_pos PS V HS L3 a' La') as Dp.
    assert (Ed' : edge_den V a' = (fst (pnth a' V) - fst (pnth (nxt (length V) a') V)) * (fst (pnth a' V) - fst (pnth (nxt (length V) a') V))
                                 + (snd (pnth a' V) - snd (pnth (nxt (length V) a') V)) * (snd (pnth a' V) - snd (pnth (nxt (length V) a') V)))
      by reflexivity.
    set (X := snd (pnth a' V) - snd (pnth (nxt (length V) a') V)) in *.
    set (Y := fst (pnth a' V) - fst (pnth (nxt (length V) a') V)) in *.
    replace (k * X * (k * X) + k * - Y * (k * - Y)) with (k * k * edge_den V a') by (rewrite Ed'; ring).
    assert (K2 : 0 < k * k) by (apply zsq_pos; exact Hk).
    pose proof (Z.square_nonneg (hi - lo)) as Q.
    (* bn * den <= num * bd, num * k^2 <= w^2  ==>  bn * k^2 * den <= w^2 * bd *)
    assert (T1 : bn * edge_den V a' * (k * k) <= edge_num V a' * bd * (k * k)) by (apply Z.mul_le_mono_nonneg_r; lia).
    assert (T2 : edge_num V a' * (k * k) * bd <= (hi - lo) * (hi - lo) * bd) by (apply Z.mul_le_mono_nonneg_r; lia).
    lia.
Qed.

(* ---- all directions, given the antipodal cone cover (the direction-continuity part) ---- *)
(* ConeCover: every direction lies in a cone spanned by two directions m, n at each of which one and the same
   pair of pixels of S is already at least sqrt(wn/wd) apart (for a convex polygon: two consecutive critical
   directions of the rotating calipers, both edge-flush, and the antipodal pair of that cone) *)
Definition ConeCover (PS : list pt) (wn wd : Z) : Prop :=
  forall u : Z * Z, u <> (0, 0) ->
    exists (m n : vec) (p q : pt), In p PS /\ In q PS /\
      0 < crossv m n /\ 0 <= crossv m u /\ crossv n u <= 0 /\
      wide_enough (subv p q) m wn wd = true /\ wide_enough (subv p q) n wn wd = true.

Theorem feret_min_all_directions_of_cover PS wn wd :
  0 <= wn -> 0 < wd -> ConeCover PS wn wd -> width_lower (fun u => u <> (0, 0)) PS wn wd.
Proof.
  intros Hn Hd Cov u lo hi Nu St.
  destruct (Cov u Nu) as [m [n [p [q (Ip & Iq & Cmn & Cmu & Cnu & Wm & Wn)]]]].
  unfold wide_enough in Wm, Wn. apply andb_true_iff in Wm. apply andb_true_iff in Wn.
  destruct Wm as [A1 A2]. destruct Wn as [B1 B2].
  destruct (cone_bound (subv p q) m n u wn wd Hn Hd Cmn Cmu Cnu) as [P Q]; try lia.
  pose proof (strip_pair PS u lo hi p q St Ip Iq) as SP.
  assert (dotv (subv p q) u * dotv (subv p q) u <= (hi - lo) * (hi - lo)) by nia.
  change (norm2z u) with (norm2 u). nia.
Qed.

(* ---- towards the cone cover: extreme pairs, and what an edge-flush direction inside their cone gives ---- *)

(* (p, q) is an extreme pair of S in direction m: p maximises and q minimises <., m> over S *)
Definition extreme_pair (PS : list pt) (p q : pt) (m : Z * Z) : Prop :=
  In p PS /\ In q PS /\ forall s, In s PS -> phi (fst m) (snd m) q <= phi (fst m) (snd m) s <= phi (fst m) (snd m) p.

(* every direction has an extreme pair of hull vertices *)
Theorem extreme_pair_exists PS V m : HullSpec PS V -> V <> [] ->
  exists p q, In p V /\ In q V /\ extreme_pair PS p q m.
Proof.
  intros HS NV.
  destruct (polygon_functional_max PS V (fst m) (snd m) HS NV) as [p [Hp Mp]].
  destruct (polygon_functional_max PS V (- fst m) (- snd m) HS NV) as [q [Hq Mq]].
  exists p, q. split; [exact Hp|]. split; [exact Hq|]. split; [apply (hs_subset _ _ HS), Hp|].
  split; [apply (hs_subset _ _ HS), Hq|]. intros s Hs. split; [|apply Mp, Hs].
  specialize (Mq s Hs). unfold phi in *. lia.
Qed.

(* at an edge-flush direction in which (p, q) is an extreme pair, the pair is at least sqrt(bf_min) apart:
   the local ingredient of the cone cover *)
Theorem extreme_pair_wide PS V p q m :
  HullSpec PS V -> (3 <= length V)%nat -> edge_direction V m -> extreme_pair PS p q m ->
  forall bn bd, bf_min V = Some (bn, bd) ->
  wide_enough (subv p q) m bn bd = true.
Proof.
  intros HS L3 Em (Ip & Iq & Ex) bn bd E.
  destruct (feret_min_edge_flush PS V HS L3) as [bn' [bd' (E' & Bd & _ & Low)]].
  rewrite E in E'. injection E' as <- <-.
  assert (St : Strip PS m (phi (fst m) (snd m) q) (phi (fst m) (snd m) p)).
  { intros s Hs. destruct (Ex s Hs) as [A B]. unfold phi in *. lia. }
  pose proof (Low m _ _ Em St) as W.
  assert (D : dotv (subv p q) m = phi (fst m) (snd m) p - phi (fst m) (snd m) q)
    by (unfold dotv, subv, phi; cbn [fst snd]; ring).
  unfold wide_enough. apply andb_true_iff. split.
  - destruct (Ex p Ip) as [A _]. rewrite D. lia.
  - unfold norm2z in W. unfold norm2, dotv at 1. rewrite D. lia.
Qed.
