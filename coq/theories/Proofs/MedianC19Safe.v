(* C19 round 3 — the loop invariant of C07's line-level median model (Slots / AccInv / FineInv, proved
   Full by C07) carries the SIZES of every array of the model, so together with C07's circular-index
   theorem every column / histogram index formed at a column step is in range. *)
From Coq Require Import ZArith List Bool Lia.
From Centro Require Import Model.Median Spec.MedianSpec Proofs.MedianGeom Proofs.MedianSlide Proofs.MedianStep Proofs.MedianInv.
Import ListNotations.
Open Scope Z_scope.

Theorem median_model_safe : forall e : env, 1 <= e_a2 e -> e_a2 e < e_R e -> Data8 e ->
  e_sweep e = e_R e -> e_SL e = e_cols e + 2 * e_R e + 1 -> 0 <= e_cols e -> 0 <= e_rows e ->
  (forall c row : Z, hN e (Soct e c row) < M16) ->
  forall (s : st) (row c : Z), - e_R e <= c <= e_cols e + e_R e - 1 -> s_row s = row ->
  Slots e s row (c - 1) -> AccInv e s row (c - 1) -> FineInv e s row (c - 1) ->
  let s' := step_col e s c in
  (* the invariant again *)
  Slots e s' row c /\ AccInv e s' row c /\ FineInv e s' row c /\
  (* sizes: stripe of columns + 2R + 1 slots, 16 coarse bins, 256 fine bins, 16 last_update_column *)
  Z.of_nat (length (s_cols s')) = e_SL e /\ length (coarse (s_acc s')) = 16%nat /\
  length (fine (s_acc s')) = 256%nat /\ length (s_last s') = 16%nat /\
  (* the four circular slot indices of this column address existing slots *)
  0 <= tl_br e row c < Z.of_nat (length (s_cols s')) /\ 0 <= tr_bl e row c < Z.of_nat (length (s_cols s')) /\
  0 <= lead_ix e c < Z.of_nat (length (s_cols s')) /\ 0 <= trail_ix e c < Z.of_nat (length (s_cols s')).
Proof.
  intros e Ha HR HD Hsw HSL Hc0 Hr0 HW s row c Hc Hrow HS HA HF. cbv zeta.
  destruct (step_col_inv e Ha HR HD Hsw HSL Hc0 HW s row c Hc Hrow HS HA HF) as (S' & A' & F' & _).
  pose proof S' as (HL & _). pose proof A' as ((LA & _) & _). pose proof F' as (LF & LL & _).
  assert (Hpos : 0 < e_SL e) by lia.
  assert (EL : Z.of_nat (length (s_cols (step_col e s c))) = e_SL e) by (rewrite HL; lia).
  split; [exact S'|]. split; [exact A'|]. split; [exact F'|]. split; [exact EL|].
  split; [exact LA|]. split; [exact LF|]. split; [exact LL|].
  rewrite EL. unfold tl_br, tr_bl, lead_ix, trail_ix.
  repeat split; try (apply Z.mod_pos_bound; exact Hpos).
Qed.
