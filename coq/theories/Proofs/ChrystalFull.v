(* C14 — Chrystal's iteration as written reaches the minimum enclosing circle. *)
From Coq Require Import ZArith QArith List Bool Lia Lqa ZifyBool.
From Centro Require Import Base.Sx Model.Circle Spec.MecSpec Spec.ChrystalHyp
  Proofs.MecProofs Proofs.CircleProofs Proofs.ChrystalGeom Proofs.ChrystalLoop.
Import ListNotations.
Open Scope Q_scope.

Lemma inject_nonzero d : d <> 0%Z -> ~ inject_Z d == 0.
Proof. intros N E. apply N. unfold Qeq, inject_Z in E. cbn [Qnum Qden] in E. lia. Qed.

Lemma encl_z_Encloses h ny nx d rn : d <> 0%Z -> encl_z h ny nx d rn ->
  Encloses h (inject_Z ny / inject_Z d) (inject_Z nx / inject_Z d) (inject_Z rn / inject_Z (d * d)).
Proof.
  intros ND En p Ip. specialize (En p Ip). unfold d2q, d2.
  pose proof (inject_nonzero d ND) as NQ.
  set (lhs := ((fst p * d - ny) * (fst p * d - ny) + (snd p * d - nx) * (snd p * d - nx))%Z) in *.
  assert (E : (inject_Z (fst p) - inject_Z ny / inject_Z d) * (inject_Z (fst p) - inject_Z ny / inject_Z d) +
              (inject_Z (snd p) - inject_Z nx / inject_Z d) * (inject_Z (snd p) - inject_Z nx / inject_Z d)
              == inject_Z lhs / inject_Z (d * d)).
  { unfold lhs. push_inj. field. exact NQ. }
  rewrite E. unfold Qdiv. apply Qmult_le_compat_r.
  - rewrite <- Zle_Qle. exact En.
  - apply Qinv_le_0_compat. change 0 with (inject_Z 0). rewrite <- Zle_Qle. nia.
Qed.

Theorem chrystal_reaches_certificate h :
  chrystal_hyp_ok h = true ->
  exists ny nx d rn,
    chrystal h = CCircle ny nx d rn /\
    MEC h (inject_Z ny / inject_Z d) (inject_Z nx / inject_Z d) (inject_Z rn / inject_Z (d * d)).
Proof.
  intro Hyp.
  assert (Core : exists ny nx d rn, chrystal h = CCircle ny nx d rn /\ encl_z h ny nx d rn).
  { destruct h as [|p [|q [|r t]]]; cbn [chrystal_hyp_ok] in Hyp; [discriminate| | |].
    - exists (fst p), (snd p), 1%Z, 0%Z. split; [reflexivity|].
      intros x [<-|[]]. lia.
    - do 4 eexists. split; [reflexivity|]. apply diam_encl.
      intros x [<-|[<-|[]]]; [rewrite dot3_self_a|rewrite dot3_self_b]; lia.
    - apply andb_true_iff in Hyp. destruct Hyp as [G F]. apply general_position_GP in G.
      change (chrystal (p :: q :: r :: t)) with
        (chrystal_loop (length (p :: q :: r :: t) * length (p :: q :: r :: t) + 10)%nat (p :: q :: r :: t) 0%nat 1%nat).
      apply (loop_ok _ G); cbn [length]; try lia.
      + apply (Inv_initial _ G); [cbn [length]; lia|exact F].
      + pose proof (cnt_bound (p :: q :: r :: t) (dist2 (hn (p :: q :: r :: t) 0%nat) (hn (p :: q :: r :: t) 1%nat))) as B.
        cbn [length] in B. lia. }
  destruct Core as [ny [nx [d [rn [E En]]]]].
  exists ny, nx, d, rn. split; [exact E|].
  destruct (chrystal_lower_bound h ny nx d rn E) as [ND _].
  apply (chrystal_mec h ny nx d rn E). apply encl_z_Encloses; assumption.
Qed.

(* the hypotheses hold on non-trivial inputs: a hexagon given counter-clockwise (co-circular
   corners included) and a long sliver *)
Example chrystal_hyp_example :
  chrystal_hyp_ok [(0,2); (0,5); (3,8); (7,6); (8,1); (4,0)]%Z = true /\
  chrystal_hyp_ok [(0,0); (0,9); (1,9000); (2,30)]%Z = true.
Proof. split; vm_compute; reflexivity. Qed.
