(* C09 — (a) kalman_filter_lite (no noise-variance estimate) agrees with kalman_filter on every other
   field, for whole histories; (b) the predicted state / observation vectors read by callers are
   per-feature; (c) kalman_refines specialised to ONE track of arbitrary length. *)
From Coq Require Import ZArith List Bool Lia Arith QArith Qcanon.
From Centro Require Import Gen.ConstsC09 Model.Kalman Spec.Kalman Proofs.KalmanLists Proofs.KalmanHist Proofs.KalmanRefine.
Import ListNotations.
Open Scope nat_scope.

(* everything of a state except noise_var *)
Definition core (s : kstate) : mat * mat * list vec * list mat * list vec * list nat :=
  (om s, tm s, svec s, scov s, snoise s, sidx s).

Lemma core_eq s s' : core s = core s' ->
  om s = om s' /\ tm s = tm s' /\ svec s = svec s' /\ scov s = scov s' /\ snoise s = snoise s' /\ sidx s = sidx s'.
Proof. unfold core. intros E. injection E as -> -> -> -> -> ->. repeat split. Qed.

Theorem lite_agrees s s' o c q r : core s = core s' ->
  core (kalman_filter_lite s o c q r) = core (kalman_filter s' o c q r).
Proof.
  intros E. destruct s as [a1 a2 a3 a4 a5 a6 a7], s' as [b1 b2 b3 b4 b5 b6 b7].
  apply core_eq in E. cbn [om tm svec scov nvar snoise sidx] in E. destruct E as [-> [-> [-> [-> [-> ->]]]]].
  unfold kalman_filter_lite, kalman_filter, deep_copy, map_frames, add_features, update_stack, fresh, state_len.
  cbn [om tm svec scov nvar snoise sidx].
  repeat match goal with
         | |- context [if ?b then _ else _] => destruct b; cbn [om tm svec scov nvar snoise sidx]
         end; reflexivity.
Qed.

Theorem lite_agrees_trace : forall fs s s', core s = core s' ->
  map core (run_trace_lite s fs) = map core (run_trace s' fs).
Proof.
  induction fs as [|[[[o c] q] r] fs IH]; intros s s' E; [reflexivity|].
  cbn [run_trace_lite run_trace kf_lite kf map]. f_equal; [apply lite_agrees; exact E|].
  apply IH. apply lite_agrees. exact E.
Qed.

(* the prediction handed to callers for feature k is H (A x_k): its own state only *)
Theorem predicted_obs_own s k : k < length (svec s) ->
  nth k (predicted_state_vec s) [] = predict_x (tm s) (nth k (svec s) []) /\
  nth k (predicted_obs_vec s) [] = mvec (om s) (predict_x (tm s) (nth k (svec s) [])).
Proof.
  intros H. unfold predicted_obs_vec, predicted_state_vec, dot_n_23, predict_x, mvec. unfold vec, mat in *.
  split; repeat (rewrite nth_map_nil by (rewrite ?map_length; exact H)); reflexivity.
Qed.

(* ------------------------------------------------------------------ one track, any number of frames *)
Definition track_frame (zqr : vec * mat * mat) : frame :=
  let '(z, q, r) := zqr in ([Some 0], [z], [q], [r]).
Definition track_step (A H : mat) (f : feat) (zqr : vec * mat * mat) : feat :=
  let '(z, q, r) := zqr in feat_step A H f z q r.

Lemma track_valid : forall zs, valid_frames 1 (map track_frame zs).
Proof.
  induction zs as [|[[z q] r] zs IH]; [exact I|]. cbn [map track_frame valid_frames fst length]. split; [|exact IH].
  cbn [valid_frame length somes]. repeat split; try reflexivity.
  - intros i [<-|[]]. lia.
  - repeat constructor. intros [].
Qed.

Lemma track_spec A H : forall zs f,
  spec_run A H [f] (map track_frame zs) = [fold_left (track_step A H) zs f].
Proof.
  induction zs as [|[[z q] r] zs IH]; intros f; [reflexivity|].
  unfold spec_run in *. cbn [map track_frame fold_left]. rewrite <- IH. reflexivity.
Qed.

Theorem single_track_any_length s zs : wf s -> length (svec s) = 1 ->
  abs (run s (map track_frame zs)) = [fold_left (track_step (tm s) (om s)) zs (nth 0 (abs s) feat0)].
Proof.
  intros W L1. rewrite kalman_refines; [|exact W|rewrite L1; apply track_valid].
  assert (E : abs s = [nth 0 (abs s) feat0]).
  { assert (La : length (abs s) = 1) by (rewrite abs_length; exact L1).
    destruct (abs s) as [|f [|g t]]; cbn [length] in La; try lia. reflexivity. }
  rewrite E at 1. apply track_spec.
Qed.

Example single_track_ex :
  let s := kf (fresh (int_mat static_om) (int_mat static_tm)) ([None], [ex_z 1 2], [ex_I 2], [ex_I 2]) in
  wf s /\ length (svec s) = 1.
Proof. cbn zeta. split; vm_compute; reflexivity. Qed.
