(* C14 x C02 — every hull polygon with at least three vertices that meets C02's specification is a
   strictly convex cycle in the sense of strict_convex_ok, so the calipers theorem applies to every
   hull convex_hull can hand to feret_diameter. *)
From Coq Require Import ZArith List Bool Lia ZifyBool.
From Centro Require Import Base.Sx Model.Hull Spec.HullSpec Proofs.HullGeom Model.Circle Spec.ChrystalHyp
  Proofs.ChrystalHull Model.Feret Spec.CalipersHyp.
Import ListNotations.
Open Scope Z_scope.

Lemma fcross_ccross s a b : fcross s a b = ccross a b s.
Proof. unfold fcross, ccross. ring. Qed.

Lemma split3 {A} (d : A) : forall (L : list A) i, (i + 2 < length L)%nat ->
  L = firstn i L ++ nth i L d :: nth (i + 1) L d :: nth (i + 2) L d :: skipn (i + 3) L.
Proof.
  induction L as [|x t IH]; intros i Hl; [cbn [length] in Hl; lia|].
  destruct i as [|i].
  - destruct t as [|y [|z r]]; cbn [length] in Hl; try lia. reflexivity.
  - cbn [firstn app Nat.add nth skipn]. f_equal. apply IH. cbn [length] in Hl. lia.
Qed.

Lemma cyc_nth (V : list pt) i : (2 <= length V)%nat -> (i < length V)%nat ->
  nth i (cyc V) (0, 0) = nth i V (0, 0) /\ nth (i + 1) (cyc V) (0, 0) = nth (nxt (length V) i) V (0, 0).
Proof.
  intros L2 Li. unfold cyc. split; [apply app_nth1; exact Li|].
  unfold nxt. destruct (Nat.eqb_spec (S i) (length V)) as [E|N].
  - assert (Ei : (i + 1)%nat = length V) by (rewrite Nat.add_1_r; exact E). rewrite Ei.
    rewrite app_nth2 by lia. rewrite Nat.sub_diag.
    destruct V as [|a [|b r]]; cbn [length] in L2; try lia. reflexivity.
  - assert (Lt : (i + 1 < length V)%nat) by (rewrite Nat.add_1_r; destruct (Nat.eq_dec (S i) (length V)); [contradiction|apply Nat.le_neq; split; [exact Li|assumption]]). rewrite app_nth1 by exact Lt. f_equal. apply Nat.add_1_r.
Qed.

Theorem hull_strictly_convex PS V : HullSpec PS V -> (3 <= length V)%nat -> strict_convex_ok V = true.
Proof.
  intros HS L3. unfold strict_convex_ok. apply andb_true_iff. split; [apply Nat.leb_le; exact L3|].
  destruct (hs_poly PS V HS L3) as [sg [Sg Pl]]. pose proof (hs_subset PS V HS) as Sub. pose proof (hs_nodup PS V HS) as ND.
  (* C02's cross is the negative of ours: C02's sense sg is our sense -sg *)
  assert (Side : strict_side V (- sg) = true).
  { unfold strict_side. apply forallb_forall. intros i Ii. apply in_seq in Ii. apply forallb_forall. intros k Ik. apply in_seq in Ik.
    destruct (Nat.eq_dec k i) as [Ek|N1]; [subst k; rewrite Nat.eqb_refl; reflexivity|].
    destruct (Nat.eq_dec k (nxt (length V) i)) as [Ek|N2];
      [apply orb_true_iff; left; apply orb_true_iff; right; apply Nat.eqb_eq; exact Ek|].
    apply orb_true_iff. right.
    unfold fpt, pt in *.
    assert (Lx : (nxt (length V) i < length V)%nat) by (unfold nxt; destruct (Nat.eqb_spec (S i) (length V)); lia).
    assert (Li : (i < length V)%nat) by lia. assert (Lk : (k < length V)%nat) by lia.
    assert (Nnx : nxt (length V) i <> i) by (unfold nxt; destruct (Nat.eqb_spec (S i) (length V)); lia).
    assert (F2 : length (firstn 2 V) = 2%nat).
    { destruct V as [|x0 [|y0 r0]]; cbn [length] in L3; try lia; reflexivity. }
    assert (Lc : (i + 2 < length (cyc V))%nat) by (unfold cyc; unfold pt; rewrite app_length, F2; lia).
    assert (L2 : (2 <= length V)%nat) by lia.
    set (a := nth i V (0, 0)). set (b := nth (nxt (length V) i) V (0, 0)). set (s := nth k V (0, 0)).
    change (pnth k V) with s. change (pnth i V) with a. change (pnth (nxt (length V) i) V) with b.
    assert (Ia : In a V) by (apply nth_In; exact Li). assert (Ib : In b V) by (apply nth_In; exact Lx). assert (Is : In s V) by (apply nth_In; exact Lk).
    (* the consecutive triple starting at i *)
    assert (Cons : exists c, consecutive V a b c).
    { pose proof (split3 (0, 0) (cyc V) i Lc) as Sp. destruct (cyc_nth V i L2 Li) as [E1 E2]. unfold pt in *.
      rewrite E1, E2 in Sp. fold a b in Sp. eexists. eexists. eexists. exact Sp. }
    destruct Cons as [c Cc]. destruct (Pl a b c Cc) as [_ In]. destruct (In s (Sub s Is)) as [H _].
    rewrite cross_ccross in H. rewrite fcross_ccross.
    (* non-strict from C02, non-zero from general position *)
    assert (Nab : a <> b).
    { intro E. apply (proj1 (NoDup_nth V (0, 0)) ND) in E; [exact (Nnx (eq_sym E))|exact Li|exact Lx]. }
    assert (Nsa : s <> a) by (intro E; apply (proj1 (NoDup_nth V (0, 0)) ND) in E; [exact (N1 E)|exact Lk|exact Li]).
    assert (Nsb : s <> b) by (intro E; apply (proj1 (NoDup_nth V (0, 0)) ND) in E; [exact (N2 E)|exact Lk|exact Lx]).
    pose proof (no_three_collinear PS V a b s HS Ia Ib Is Nab Nsa Nsb) as NZ. lia. }
  apply orb_true_iff. destruct Sg as [-> | ->]; [right|left]; exact Side.
Qed.
