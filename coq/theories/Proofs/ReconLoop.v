(* C04 — proofs about the line-level model of grey_reconstruction_loop: the invariant [Inv] is
   preserved by every relink, no array access leaves the allocated range, and the relink branch
   with next[link] < 0 (which would drop the neighbour from the list) is never taken. *)
From Coq Require Import ZArith List Bool Lia ZifyBool FMapPositive.
From Centro Require Import Base.Sx Model.Recon Spec.ReconSpec Spec.ReconInv Proofs.ReconSound.
Import ListNotations.
Open Scope Z_scope.

(* ------------------------------------------------------------------ arrays *)
Lemma key_inj i j : 0 <= i -> 0 <= j -> key i = key j -> i = j.
Proof. unfold key. intros Hi Hj E. apply (f_equal Z.pos) in E. rewrite !Z2Pos.id in E by lia. lia. Qed.

Lemma get_put_same a i v : 0 <= i -> get (put a i v) i = Some v.
Proof. intros Hi. unfold get, put. destruct (i <? 0) eqn:E; [lia|]. apply PositiveMap.gss. Qed.

Lemma get_put_other a i j v : 0 <= i -> i <> j -> get (put a i v) j = get a j.
Proof.
  intros Hi Hn. unfold get, put. destruct (j <? 0) eqn:E; [reflexivity|].
  apply PositiveMap.gso. intros K. apply key_inj in K; lia.
Qed.

Lemma sel_put a i v j : 0 <= i -> sel (put a i v) j = if j =? i then v else sel a j.
Proof.
  intros Hi. unfold sel. destruct (j =? i) eqn:E.
  - assert (j = i) by lia. subst j. rewrite get_put_same by exact Hi. reflexivity.
  - rewrite get_put_other by lia. reflexivity.
Qed.

Lemma inrange_put a n i v : inrange a n -> 0 <= i -> inrange (put a i v) n.
Proof.
  intros Hr Hi j Hj. destruct (Z.eq_dec j i) as [->|Hn].
  - rewrite get_put_same by exact Hi. discriminate.
  - rewrite get_put_other by lia. apply Hr; exact Hj.
Qed.

Lemma rd_ok a n i : inrange a n -> 0 <= i < n -> rd a i = Ok (sel a i).
Proof. intros Hr Hi. unfold rd, sel. specialize (Hr i Hi). destruct (get a i); [reflexivity|congruence]. Qed.

Lemma wr_ok a n i v : inrange a n -> 0 <= i < n -> wr a i v = Ok (put a i v).
Proof. intros Hr Hi. unfold wr. specialize (Hr i Hi). destruct (get a i); [reflexivity|congruence]. Qed.

(* ------------------------------------------------------------------ geometry *)
Lemma interior_step g i st : geom_ok g -> interior_b g i = true -> stride_ok g st -> 0 <= i + st < gS g.
Proof.
  intros (HH & HW & H0 & H1) Hi (da & db & -> & Hda & Hdb).
  unfold interior_b in Hi. unfold gS, gPH. set (PW := gPW g) in *.
  assert (HPW : PW = gW g + 2 * gp1 g) by reflexivity.
  assert (PWpos : 0 < PW) by lia.
  assert (E := Z.div_mod i PW ltac:(lia)).
  assert (M := Z.mod_pos_bound i PW PWpos).
  set (q := i / PW) in *. set (m := i mod PW) in *.
  assert (Hq : gp0 g <= q < gp0 g + gH g) by lia.
  assert (Hm : gp1 g <= m < gp1 g + gW g) by lia.
  replace (i + (da * PW + db)) with ((q + da) * PW + (m + db)) by lia.
  assert (0 <= q + da) by lia. assert (q + da + 1 <= gH g + 2 * gp0 g) by lia.
  assert (0 <= m + db < PW) by lia.
  split; [nia|].
  assert ((q + da + 1) * PW <= (gH g + 2 * gp0 g) * PW) by (apply Z.mul_le_mono_nonneg_r; lia).
  lia.
Qed.

Lemma last_not_interior g : geom_ok g -> interior_b g (gS g - 1) = false /\ 1 <= gS g.
Proof.
  intros (HH & HW & H0 & H1). unfold interior_b, gS, gPH. set (PW := gPW g).
  assert (HPW : PW = gW g + 2 * gp1 g) by reflexivity.
  assert (PWpos : 0 < PW) by lia.
  set (PH := gH g + 2 * gp0 g).
  assert (E : (PH * PW - 1) / PW = PH - 1).
  { symmetry. apply Z.div_unique with (r := PW - 1); lia. }
  rewrite E. split; [|nia].
  destruct (0 <=? PH - 1 - gp0 g) eqn:A; destruct (PH - 1 - gp0 g <? gH g) eqn:B; cbn [andb]; try reflexivity.
  unfold PH in *. lia.
Qed.

(* ------------------------------------------------------------------ one relink *)
Section Relax.
Variable g : geom.
Variable K : Z.
Variable v0 : arr.
Variable strides : list Z.
Hypothesis G : geom_ok g.
Notation S := (gS g).

Lemma relax_inv s cur cv stride :
  Inv g K strides v0 s -> 0 <= cur < S -> interior_b g cur = true -> stride_ok g stride ->
  In stride strides ->
  1 <= cv <= sel (vals s) cur ->
  exists s', relax S cur cv s stride = Ok s' /\ Inv g K strides v0 s' /\ drops s' = drops s /\
             cv <= sel (vals s') cur.
Proof.
  intros I Hcur Hint Hst Hin Hcv.
  destruct (last_not_interior g G) as [Hlast HS1].
  assert (Hnb := interior_step g cur stride G Hint Hst).
  unfold relax. set (nb := cur + stride) in *.
  destruct I as [Rv Rp Rn Pb Nb Nx Pm Pad Vk Lo Mk Le] eqn:EI. clear EI.
  assert (I0 : Inv g K strides v0 s) by (constructor; assumption).
  rewrite (rd_ok _ _ nb Rv) by lia. cbn [bind].
  set (nv := sel (vals s) nb).
  destruct (nv <? cv) eqn:E1;
    [|exists s; split; [reflexivity|split; [exact I0|split; [reflexivity|lia]]]].
  rewrite (rd_ok _ _ (nb + S) Rv) by lia. cbn [bind].
  set (mv := sel (vals s) (nb + S)).
  destruct (nv <? mv) eqn:E2;
    [|exists s; split; [reflexivity|split; [exact I0|split; [reflexivity|lia]]]].
  assert (Vnb := Vk nb ltac:(lia)). fold nv in Vnb.
  assert (Vcur := Vk cur ltac:(lia)).
  (* the neighbour is an interior pixel, in particular not the last cell of its plane *)
  assert (Inb : interior_b g nb = true).
  { destruct (interior_b g nb) eqn:Eb; [reflexivity|]. destruct (Pad nb ltac:(lia) Eb) as [_ Z0]. fold mv in Z0. lia. }
  assert (NbLast : nb <> S - 1) by (intros ->; congruence).
  set (link := if mv <? cv then nb + S else cur).
  set (newv := if mv <? cv then mv else cv).
  assert (Hlink : 0 <= link < 2 * S - 1) by (unfold link; destruct (mv <? cv); lia).
  assert (Hnewv : nv < newv /\ newv <= mv /\ newv <= cv /\ 1 <= newv) by (unfold newv; destruct (mv <? cv) eqn:E3; lia).
  rewrite (wr_ok _ _ nb newv Rv) by lia. cbn [bind].
  rewrite (rd_ok _ _ nb Rp) by lia. cbn [bind].
  rewrite (rd_ok _ _ nb Rn) by lia. cbn [bind].
  set (nprev := sel (prv s) nb). set (nnext := sel (nxt s) nb).
  (* the neighbour is not the head: its value is below the current value *)
  assert (Hnp : 0 <= nprev < 2 * S).
  { assert (B := Pb nb ltac:(lia)). fold nprev in B.
    destruct (Z.eq_dec nprev (-1)) as [Em|]; [|lia].
    assert (Q := Pm nb cur ltac:(lia) ltac:(lia) Em). fold nv in Q. lia. }
  (* the neighbour is not the tail *)
  assert (Hnn : 0 <= nnext < 2 * S).
  { assert (B := Nb nb ltac:(lia)). assert (Q := Nx nb ltac:(lia)). fold nnext in B, Q. lia. }
  rewrite (wr_ok _ _ nprev nnext Rn) by lia. cbn [bind].
  destruct (nnext =? -1) eqn:E4; [lia|].
  rewrite (wr_ok _ _ nnext nprev Rp) by lia. cbn [bind].
  set (nxt1 := put (nxt s) nprev nnext). set (prv1 := put (prv s) nnext nprev).
  assert (Rn1 : inrange nxt1 (2 * S)) by (apply inrange_put; [exact Rn|lia]).
  assert (Rp1 : inrange prv1 (2 * S)) by (apply inrange_put; [exact Rp|lia]).
  rewrite (rd_ok _ _ link Rn1) by lia. cbn [bind].
  set (nnext2 := sel nxt1 link).
  assert (Hn2 : 0 <= nnext2 < 2 * S).
  { unfold nnext2, nxt1. rewrite sel_put by lia. destruct (link =? nprev); [lia|].
    assert (B := Nb link ltac:(lia)). assert (Q := Nx link ltac:(lia)). lia. }
  rewrite (wr_ok _ _ nb nnext2 Rn1) by lia. cbn [bind].
  rewrite (wr_ok _ _ nb link Rp1) by lia. cbn [bind].
  destruct (0 <=? nnext2) eqn:E5; [|lia].
  set (nxt2 := put nxt1 nb nnext2). set (prv2 := put prv1 nb link).
  assert (Rn2 : inrange nxt2 (2 * S)) by (apply inrange_put; [exact Rn1|lia]).
  assert (Rp2 : inrange prv2 (2 * S)) by (apply inrange_put; [exact Rp1|lia]).
  rewrite (wr_ok _ _ nnext2 nb Rp2) by lia. cbn [bind].
  rewrite (wr_ok _ _ link nb Rn2) by lia. cbn [bind].
  eexists. split; [reflexivity|]. cbn [drops vals]. split; [|split; [reflexivity|]].
  2:{ rewrite sel_put by lia. destruct (cur =? nb) eqn:E6; [|lia].
      assert (cur = nb) by lia. assert (nv = sel (vals s) cur) by (unfold nv; congruence). lia. }
  constructor; cbn [vals prv nxt].
  - apply inrange_put; [exact Rv|lia].
  - apply inrange_put; [exact Rp2|lia].
  - apply inrange_put; [exact Rn2|lia].
  - intros i Hi. unfold prv2, prv1. rewrite !sel_put by lia. specialize (Pb i Hi).
    destruct (i =? nnext2); [lia|]. destruct (i =? nb); [lia|]. destruct (i =? nnext); lia.
  - intros i Hi. unfold nxt2, nxt1. rewrite !sel_put by lia. specialize (Nb i Hi).
    destruct (i =? link); [lia|]. destruct (i =? nb); [lia|]. destruct (i =? nprev); lia.
  - intros i Hi. unfold nxt2, nxt1. rewrite !sel_put by lia. specialize (Nx i Hi).
    destruct (i =? link); [lia|]. destruct (i =? nb); [lia|]. destruct (i =? nprev); lia.
  - intros x y Hx Hy. unfold prv2, prv1. rewrite !sel_put by lia.
    destruct (x =? nnext2) eqn:X1; [lia|]. destruct (x =? nb) eqn:X2; [lia|].
    destruct (x =? nnext) eqn:X3; [lia|]. intros Hm.
    assert (Q1 := Pm x y Hx Hy Hm). assert (Q2 := Pm x cur Hx ltac:(lia) Hm).
    destruct (y =? nb); lia.
  - intros i Hi Hb. destruct (Pad i Hi Hb) as [Z1 Z2]. rewrite !sel_put by lia.
    assert (i <> nb) by (intros ->; congruence).
    destruct (i =? nb) eqn:Y1; [lia|]. destruct (i + S =? nb) eqn:Y2; [lia|]. split; assumption.
  - intros i Hi. rewrite sel_put by lia. specialize (Vk i Hi). destruct (i =? nb); lia.
  - intros i Hi. rewrite !sel_put by lia. specialize (Lo i Hi).
    destruct (i + S =? nb) eqn:Y2; [lia|].
    destruct (i =? nb) eqn:Y1; [|exact Lo].
    assert (i = nb) by lia. subst i. fold nv in Lo. fold mv in Lo. fold mv. lia.
  - intros i Hi. rewrite sel_put by lia. destruct (i =? nb) eqn:Y1; [lia|]. apply Mk; exact Hi.
  - intros dec U Hm HU i Hi Hib. rewrite sel_put by lia. assert (Q := Le dec U Hm HU i Hi Hib).
    destruct (i =? nb) eqn:Y1; [|exact Q].
    assert (i = nb) by lia. subst i.
    assert (P2 := proj2 HU cur stride ltac:(lia) Hint Hin Inb). fold nb in P2.
    assert (Qc := Le dec U Hm HU cur ltac:(lia) Hint).
    assert (M := Mk (nb + S) ltac:(lia)). fold mv in M. rewrite <- M in P2.
    assert (Vm := Vk (nb + S) ltac:(lia)). fold mv in Vm.
    assert (D1 : dec newv <= dec mv) by (apply Hm; lia).
    assert (D2 : dec newv <= dec (sel (vals s) cur)) by (apply Hm; lia).
    lia.
Qed.

(* the `for i in range(nstrides)` loop *)
Lemma relax_all_inv sts : Forall (fun st => stride_ok g st /\ In st strides) sts -> forall s cur cv,
  Inv g K strides v0 s -> 0 <= cur < S -> interior_b g cur = true -> 1 <= cv <= sel (vals s) cur ->
  exists s', fold_res (relax S cur cv) sts s = Ok s' /\ Inv g K strides v0 s' /\ drops s' = drops s.
Proof.
  induction 1 as [|st sts [Hst Hin] _ IH]; intros s cur cv I Hcur Hint Hcv; cbn [fold_res].
  - exists s. split; [reflexivity|split; [exact I|reflexivity]].
  - destruct (relax_inv s cur cv st I Hcur Hint Hst Hin Hcv) as (s1 & E1 & I1 & D1 & C1).
    rewrite E1. cbn [bind].
    destruct (IH s1 cur cv I1 Hcur Hint ltac:(lia)) as (s2 & E2 & I2 & D2).
    exists s2. split; [exact E2|split; [exact I2|congruence]].
Qed.

(* the `while current != -1` loop: never out of bounds, never a dropped node, invariant kept *)
Theorem loop_safe : Forall (stride_ok g) strides -> forall fuel cur s,
  Inv g K strides v0 s -> -1 <= cur < 2 * S ->
  match loop fuel S strides cur s with
  | Ok s' => Inv g K strides v0 s' /\ drops s' = drops s
  | OutOfFuel => True
  | Oob => False
  | Rejected => False
  end.
Proof.
  intros Hst0.
  assert (Hst : Forall (fun st => stride_ok g st /\ In st strides) strides).
  { apply Forall_forall. intros st Hin. split; [|exact Hin]. rewrite Forall_forall in Hst0. apply Hst0; exact Hin. }
  induction fuel as [|f IH]; intros cur s I Hcur; cbn [loop]; [exact Logic.I|].
  destruct (cur =? -1) eqn:E0; [split; [exact I|reflexivity]|].
  destruct (cur <? S) eqn:E1.
  - rewrite (rd_ok _ _ cur (i_rv _ _ _ _ _ I)) by lia. cbn [bind].
    destruct (sel (vals s) cur =? 0) eqn:E2; [split; [exact I|reflexivity]|].
    assert (Hint : interior_b g cur = true).
    { destruct (interior_b g cur) eqn:Eb; [reflexivity|].
      destruct (i_pad _ _ _ _ _ I cur ltac:(lia) Eb) as [Z0 _]. lia. }
    assert (Vc := i_vk _ _ _ _ _ I cur ltac:(lia)).
    destruct (relax_all_inv strides Hst s cur (sel (vals s) cur) I ltac:(lia) Hint ltac:(lia))
      as (s1 & R1 & I1 & D1).
    rewrite R1. cbn [bind].
    rewrite (rd_ok _ _ cur (i_rn _ _ _ _ _ I1)) by lia. cbn [bind].
    assert (B := i_nb _ _ _ _ _ I1 cur ltac:(lia)).
    specialize (IH (sel (nxt s1) cur) s1 I1 ltac:(lia)).
    destruct (loop f S strides (sel (nxt s1) cur) s1); try exact IH.
    destruct IH as [I2 D2]. split; [exact I2|congruence].
  - rewrite (rd_ok _ _ cur (i_rn _ _ _ _ _ I)) by lia. cbn [bind].
    assert (B := i_nb _ _ _ _ _ I cur ltac:(lia)).
    exact (IH (sel (nxt s) cur) s I ltac:(lia)).
Qed.
End Relax.

(* ------------------------------------------------------------------ the boolean invariant checker *)
Lemma inrange_b_sound a n : inrange_b a n = true -> inrange a n.
Proof.
  unfold inrange_b, inrange. rewrite forallb_forall. intros Hb i Hi.
  specialize (Hb i (proj2 (in_zrange i n) Hi)). destruct (get a i); congruence.
Qed.

Lemma fold_max_upper l x : In x l -> x <= fold_right Z.max 0 l.
Proof. induction l as [|a l IH]; cbn [In fold_right]; [tauto|]. intros [->|Hx]; [lia|]. specialize (IH Hx). lia. Qed.

Lemma inv_check_sound g K strides s : inv_check g K s = true -> Inv g K strides (vals s) s.
Proof.
  unfold inv_check. cbv zeta. set (mx := fold_right Z.max 0 (map (sel (vals s)) (zrange (2 * gS g)))).
  intros Hc.
  apply andb_prop in Hc; destruct Hc as [Hc F2].
  apply andb_prop in Hc; destruct Hc as [Hc F1].
  apply andb_prop in Hc; destruct Hc as [Hc Cn].
  apply andb_prop in Hc; destruct Hc as [Av Bp].
  rewrite forallb_forall in F1, F2.
  assert (Hmx : forall y, 0 <= y < 2 * gS g -> sel (vals s) y <= mx).
  { intros y Hy. apply fold_max_upper. apply in_map. apply in_zrange. exact Hy. }
  assert (P1 : forall i, 0 <= i < 2 * gS g ->
     -1 <= sel (prv s) i < 2 * gS g /\ -1 <= sel (nxt s) i < 2 * gS g /\
     (i < 2 * gS g - 1 -> sel (nxt s) i <> -1) /\ (sel (prv s) i = -1 -> mx <= sel (vals s) i) /\
     0 <= sel (vals s) i < K).
  { intros i Hi. specialize (F1 i (proj2 (in_zrange i _) Hi)). lia. }
  assert (P2 : forall i, 0 <= i < gS g ->
     (interior_b g i = false -> sel (vals s) i = 0 /\ sel (vals s) (i + gS g) = 0) /\
     sel (vals s) i <= sel (vals s) (i + gS g)).
  { intros i Hi. specialize (F2 i (proj2 (in_zrange i _) Hi)). destruct (interior_b g i); lia. }
  constructor.
  - apply inrange_b_sound; exact Av.
  - apply inrange_b_sound; exact Bp.
  - apply inrange_b_sound; exact Cn.
  - intros i Hi. apply (P1 i Hi).
  - intros i Hi. apply (P1 i Hi).
  - intros i Hi. apply (P1 i ltac:(lia)). lia.
  - intros x y Hx Hy Hm. destruct (P1 x Hx) as (_ & _ & _ & Q & _). specialize (Q Hm). specialize (Hmx y Hy). lia.
  - intros i Hi Hb. apply (P2 i Hi). exact Hb.
  - intros i Hi. apply (P1 i Hi).
  - intros i Hi. destruct (P2 i Hi) as [_ Q]. lia.
  - intros i Hi. reflexivity.
  - intros dec U _ [HU _] i Hi Hib. apply HU; assumption.
Qed.

Lemma stride_ok_b_sound g st : stride_ok_b g st = true -> stride_ok g st.
Proof.
  unfold stride_ok_b, stride_ok. intros Hb. apply existsb_exists in Hb. destruct Hb as [da [Hin Hb]].
  apply in_zseq in Hin. exists da, (st - da * gPW g). lia.
Qed.

(* ------------------------------------------------------------------ the whole model *)
Lemma map_res_ok {A B} (f : A -> res B) l :
  (forall a, In a l -> exists b, f a = Ok b) -> exists bs, map_res f l = Ok bs /\ length bs = length l.
Proof.
  induction l as [|a l IH]; intros Hf; cbn [map_res].
  - exists []. split; reflexivity.
  - destruct (Hf a (or_introl eq_refl)) as [b Eb]. rewrite Eb. cbn [bind].
    destruct (IH (fun a' Ha' => Hf a' (or_intror Ha'))) as (bs & E & Len). rewrite E. cbn [bind].
    exists (b :: bs). split; [reflexivity|]. cbn [length]. congruence.
Qed.

Lemma finish_ok p s K strides v0 :
  geom_ok (prep_geom p) -> p_PW p = gPW (prep_geom p) -> Inv (prep_geom p) K strides v0 s -> inrange (p_vmap p) K ->
  exists out, finish p s = Ok out /\ zlen out = p_H p.
Proof.
  intros (HH & HW & H0 & H1) EPW I Rm. unfold finish. cbn [prep_geom gH gW gp0 gp1] in *.
  destruct (map_res_ok (fun r => map_res (fun c =>
      do k <- rd (vals s) ((r + p_p0 p) * p_PW p + (c + p_p1 p)); rd (p_vmap p) k) (zrange (p_W p)))
      (zrange (p_H p))) as (out & E & Len).
  - intros r Hr. apply in_zrange in Hr.
    destruct (map_res_ok (fun c => do k <- rd (vals s) ((r + p_p0 p) * p_PW p + (c + p_p1 p)); rd (p_vmap p) k)
               (zrange (p_W p))) as (row & E & _); [|exists row; exact E].
    intros c Hc. apply in_zrange in Hc.
    assert (Hidx : 0 <= (r + p_p0 p) * p_PW p + (c + p_p1 p) < 2 * gS (prep_geom p)).
    { rewrite EPW. unfold gS, gPH, gPW. cbn [prep_geom gH gW gp0 gp1].
      set (PW := p_W p + 2 * p_p1 p). assert (0 < PW) by lia.
      assert ((r + p_p0 p + 1) * PW <= (p_H p + 2 * p_p0 p) * PW) by (apply Z.mul_le_mono_nonneg_r; lia).
      assert (0 <= (r + p_p0 p) * PW) by nia. nia. }
    rewrite (rd_ok _ _ _ (i_rv _ _ _ _ _ I) Hidx). cbn [bind].
    assert (Vk := i_vk _ _ _ _ _ I _ Hidx).
    rewrite (rd_ok _ _ _ Rm Vk). eexists; reflexivity.
  - exists out. split; [exact E|]. unfold zlen. rewrite Len. unfold zrange. rewrite length_zseq. lia.
Qed.

(* Index safety and "link has a successor" for the run of any set-up state that passes the
   (verified) invariant check. *)
Theorem run_prep_safe p :
  prep_check p = true ->
  match run_prep p with
  | Ok (out, d) => d = 0 /\ zlen out = p_H p
  | OutOfFuel => True
  | Oob => False
  | Rejected => False
  end.
Proof.
  intros Hpc. unfold run_prep.
  unfold prep_check in Hpc. cbv zeta in Hpc. set (g := prep_geom p) in *.
  apply andb_prop in Hpc; destruct Hpc as [Hpc Cm].
  apply andb_prop in Hpc; destruct Hpc as [Hpc Ci].
  apply andb_prop in Hpc; destruct Hpc as [Hpc Cd].
  apply andb_prop in Hpc; destruct Hpc as [Hpc Cc2].
  apply andb_prop in Hpc; destruct Hpc as [Hpc Cc1].
  apply andb_prop in Hpc; destruct Hpc as [Hpc Cs].
  apply andb_prop in Hpc; destruct Hpc as [Hpc Cpw].
  apply andb_prop in Hpc; destruct Hpc as [Cg CS].
  assert (G : geom_ok g) by (unfold geom_ok_b in Cg; unfold geom_ok; lia).
  assert (ES : p_S p = gS g) by lia.
  assert (EPW : p_PW p = gPW g) by lia.
  assert (Hst : Forall (stride_ok g) (p_strides p)).
  { apply Forall_forall. intros st Hin. rewrite forallb_forall in Cs. apply stride_ok_b_sound. apply Cs. exact Hin. }
  assert (I := inv_check_sound g (p_K p) (p_strides p) (p_st p) Ci).
  assert (L := loop_safe g (p_K p) (vals (p_st p)) (p_strides p) G Hst
                 (Datatypes.S (Z.to_nat (2 * p_S p))) (p_cur p) (p_st p) I ltac:(lia)).
  rewrite ES. rewrite ES in L.
  destruct (loop (Datatypes.S (Z.to_nat (2 * gS g))) (gS g) (p_strides p) (p_cur p) (p_st p)) as [s'| | |];
    cbn [bind]; try exact L.
  destruct L as [I' D'].
  destruct (finish_ok p s' (p_K p) (p_strides p) (vals (p_st p)) G EPW I' (inrange_b_sound _ _ Cm)) as (out & E & Len).
  rewrite E. cbn [bind]. split; [lia|]. exact Len.
Qed.

Theorem model_safe image mask fp :
  accepted image mask fp = true -> prep_check (prepare image mask fp) = true ->
  match grey_reconstruction image mask fp with
  | Ok (out, d) => d = 0 /\ zlen out = zlen image
  | OutOfFuel => True
  | Oob => False
  | Rejected => False
  end.
Proof.
  intros Hacc Hpc. unfold grey_reconstruction. rewrite Hacc. cbn [negb].
  exact (run_prep_safe _ Hpc).
Qed.

(* the hypotheses are satisfiable: the set-up of a concrete instance passes the check *)
Example prep_check_example :
  accepted ex_seed ex_mask ex_fp = true /\ prep_check (prepare ex_seed ex_mask ex_fp) = true /\
  accepted [[0; 9; 0]] [[7; 9; 4]] ex_fp_right = true /\ prep_check (prepare [[0; 9; 0]] [[7; 9; 4]] ex_fp_right) = true.
Proof. vm_compute. repeat split; reflexivity. Qed.

(* partial functional correctness of the loop: the image plane only rises, never above the
   (constant) mask plane — the "between seed and mask" third of IsRecon, in rank space *)
Theorem loop_between g K v0 strides : geom_ok g -> Forall (stride_ok g) strides ->
  forall fuel cur s s', Inv g K strides v0 s -> -1 <= cur < 2 * gS g ->
  loop fuel (gS g) strides cur s = Ok s' ->
  forall i, 0 <= i < gS g -> sel v0 i <= sel (vals s') i <= sel v0 (i + gS g).
Proof.
  intros G Hst fuel cur s s' I Hcur E i Hi.
  assert (L := loop_safe g K v0 strides G Hst fuel cur s I Hcur). rewrite E in L. destruct L as [I' _].
  assert (A := i_lo _ _ _ _ _ I' i Hi). assert (B := i_mk _ _ _ _ _ I' (i + gS g) ltac:(lia)). lia.
Qed.

(* ------------------------------------------------------------------ the wrapper's stride table *)
(* every flat stride the Python wrapper derives from a footprint with odd dimensions is an offset
   (da, db) with |da| <= padding0, |db| <= padding1 in the padded plane — with [interior_step]:
   current + strides[i] never leaves the plane for any interior current *)
Lemma fp_offsets_bound fp o : Z.odd (zlen fp) = true -> Z.odd (width fp) = true ->
  In o (fp_offsets fp) ->
  - (zlen fp / 2) <= fst o <= zlen fp / 2 /\ - (width fp / 2) <= snd o <= width fp / 2.
Proof.
  intros O1 O2. apply Z.odd_spec in O1, O2. destruct O1 as [m1 E1]. destruct O2 as [m2 E2].
  unfold fp_offsets, fp_offsets_at. intros Hin. apply in_flat_map in Hin. destruct Hin as [a [Ha Hin]].
  apply in_flat_map in Hin. destruct Hin as [b [Hb Hin]].
  apply in_zrange in Ha, Hb.
  destruct (fp_get fp a b && negb ((a =? zlen fp / 2) && (b =? width fp / 2))); cbn [In] in Hin; [|tauto].
  destruct Hin as [<-|[]]. cbn [fst snd].
  assert (zlen fp / 2 = m1) by (rewrite E1; symmetry; apply Z.div_unique with (r := 1); lia).
  assert (width fp / 2 = m2) by (rewrite E2; symmetry; apply Z.div_unique with (r := 1); lia).
  lia.
Qed.

Theorem prepare_strides_ok image mask fp : Z.odd (zlen fp) = true -> Z.odd (width fp) = true ->
  Forall (stride_ok (prep_geom (prepare image mask fp))) (p_strides (prepare image mask fp)).
Proof.
  intros O1 O2. apply Forall_forall. intros st Hin. unfold prepare, prepare_offs in Hin. cbn [p_strides] in Hin.
  apply in_map_iff in Hin. destruct Hin as [o [<- Ho]].
  destruct (fp_offsets_bound fp o O1 O2 Ho) as [B1 B2].
  exists (fst o), (snd o). unfold prepare, prepare_offs, prep_geom, gPW. cbn [p_H p_W p_p0 p_p1 gW gp0 gp1]. lia.
Qed.

(* second third of IsRecon, in flat/rank space: whatever the loop returns lies below EVERY image
   that is above the initial image plane and that no dilate-and-clip step along the stride table
   can raise — i.e. the result never overshoots the reconstruction *)
Theorem loop_least g K v0 strides : geom_ok g -> Forall (stride_ok g) strides ->
  forall fuel cur s s', Inv g K strides v0 s -> -1 <= cur < 2 * gS g ->
  loop fuel (gS g) strides cur s = Ok s' ->
  forall dec U, mono_on K dec -> flat_postfixed g strides v0 dec U ->
  forall i, 0 <= i < gS g -> interior_b g i = true -> dec (sel (vals s') i) <= U i.
Proof.
  intros G Hst fuel cur s s' I Hcur E dec U Hm HU i Hi Hib.
  assert (L := loop_safe g K v0 strides G Hst fuel cur s I Hcur). rewrite E in L. destruct L as [I' _].
  exact (i_le _ _ _ _ _ I' dec U Hm HU i Hi Hib).
Qed.
