(* C03: label soundness of the model's loop: every output label is the input label at a seed, and
   otherwise 0 or the label of a masked seed connected to the pixel by an 8-connected path inside
   the mask - for every input with non-negative labels, both key layouts, any heap order. *)
From Coq Require Import ZArith List Bool Lia ZifyBool Permutation.
From Coq Require PrimFloat.
From Centro Require Import Base.PropFloat Model.PropHeap Model.Propagate Proofs.PropHeapInv Proofs.PropHeapKey
     Proofs.PropGrid Proofs.PropDijkstra.
Import ListNotations.
Open Scope Z_scope.

Lemma get2_zip : forall m n (g : Z * Z -> Z) (a b : list (list Z)) i j,
  shape a m n -> shape b m n -> inr m n (i, j) ->
  get2 0 (map (fun rr : list Z * list Z => map g (combine (fst rr) (snd rr))) (combine a b)) i j
  = g (get2 0 a i j, get2 0 b i j).
Proof.
  intros m n g a b i j Ha Hb [Hi Hj]. cbn [fst snd] in *.
  pose proof (shape_row m n Z a i Ha Hi) as Hra. pose proof (shape_row m n Z b i Hb Hi) as Hrb.
  destruct Ha as [Ha1 Ha2]. destruct Hb as [Hb1 Hb2]. unfold get2.
  set (F := fun rr : list Z * list Z => map g (combine (fst rr) (snd rr))).
  rewrite (nth_indep (map F (combine a b)) [] (F ([], []))) by (rewrite map_length, combine_length; lia).
  rewrite map_nth. rewrite combine_nth by lia. unfold F. cbn [fst snd].
  rewrite (nth_indep (map g _) 0 (g (0, 0))) by (rewrite map_length, combine_length; lia).
  rewrite map_nth. rewrite combine_nth by lia. reflexivity.
Qed.

Section Labels.
Variable key : keymode.
Variable image : list (list float).
Variable mask : list (list bool).
Variables m n : Z.
Variable weight : float.
Variable labels : list (list Z).

Notation labv := (labv labels).
Notation maskv := (maskv mask).

(* v is connected through the mask to a masked seed labelled l *)
Inductive conn : Z * Z -> Z -> Prop :=
| conn_seed : forall s, inr m n s -> 0 < labv s -> maskv s -> conn s (labv s)
| conn_step : forall u v l, conn u l -> adj8 u v -> inr m n v -> maskv v -> conn v l.

Definition rowL (r : row) : Prop := inr m n (pixel_of r) /\ conn (pixel_of r) (nth 2 r 0).
Definition InvL (lab : list (list Z)) (hp : heap) : Prop :=
  shape lab m n /\
  (forall v, inr m n v -> get2 0 lab (fst v) (snd v) = 0 \/ conn v (get2 0 lab (fst v) (snd v))) /\
  Forall rowL (rows hp).

Lemma relax_L : forall lab label i1 j1 d0 o acc, In o offsets8 -> inr m n (i1, j1) -> conn (i1, j1) label ->
  Forall rowL (rows (snd acc)) ->
  Forall rowL (rows (snd (relax key image mask m n weight lab label i1 j1 d0 acc o))).
Proof.
  intros lab label i1 j1 d0 o [dist hp] Ho Hin Hc HF. unfold relax. cbn [fst snd].
  set (i2 := i1 + fst o). set (j2 := j1 + snd o).
  destruct ((i2 <? 0) || (i2 >=? m) || (j2 <? 0) || (j2 >=? n)) eqn:Hb; cbn [fst snd]; [exact HF|].
  destruct (0 <? get2 0 lab i2 j2); cbn [fst snd]; [exact HF|].
  destruct (get2 false mask i2 j2) eqn:Hm; cbn [negb fst snd]; [|exact HF].
  match goal with |- context [if ?c then _ else _] => destruct c end; cbn [fst snd]; [|exact HF].
  eapply Permutation_Forall; [apply Permutation_sym; apply heap_multiset_push|].
  constructor; [|exact HF].
  assert (Hin2 : inr m n (i2, j2)) by (unfold inr; cbn [fst snd]; lia).
  split; [exact Hin2|]. unfold pixel_of. cbn [nth].
  apply (conn_step (i1, j1) (i2, j2) label Hc); [|exact Hin2|exact Hm].
  exists o. split; [exact Ho | reflexivity].
Qed.

Lemma relax_fold_L : forall lab label i1 j1 d0 offs acc, incl offs offsets8 -> inr m n (i1, j1) ->
  conn (i1, j1) label -> Forall rowL (rows (snd acc)) ->
  Forall rowL (rows (snd (fold_left (relax key image mask m n weight lab label i1 j1 d0) offs acc))).
Proof.
  intros lab label i1 j1 d0 offs. induction offs as [|o r IH]; intros acc Hi Hin Hc HF; cbn [fold_left].
  - exact HF.
  - apply IH; [intros x Hx; apply Hi; right; exact Hx | exact Hin | exact Hc|].
    apply relax_L; [apply Hi; left; reflexivity | exact Hin | exact Hc | exact HF].
Qed.

Lemma loop_L : forall fuel st st', InvL (s_lab st) (s_hp st) ->
  loop key image mask m n weight fuel st = (st', true) -> InvL (s_lab st') (s_hp st').
Proof.
  induction fuel as [|f IH]; intros st st' HI HL; cbn [loop] in HL; [discriminate|].
  destruct (rows (s_hp st)) as [|r0 rest] eqn:Hrows.
  - inversion HL. subst st'. exact HI.
  - assert (Hne : rows (s_hp st) <> []) by (rewrite Hrows; discriminate).
    pose proof (heap_multiset_pop (s_hp st) Hne) as HP.
    destruct (heappop (s_hp st)) as [e hp1] eqn:Hpop. cbn [fst snd] in HP.
    destruct HI as [Hs [HD HH]].
    assert (HF : Forall rowL (e :: rows hp1)) by (eapply Permutation_Forall; eassumption).
    inversion HF as [|? ? He Hrest]. subst.
    destruct (get2 0 (s_lab st) (nth 3 e 0) (nth 4 e 0) =? 0).
    + set (lab1 := set2 (s_lab st) (nth 3 e 0) (nth 4 e 0) (nth 2 e 0)) in *.
      set (d0 := get2 PrimFloat.zero (s_dist st) (nth 3 e 0) (nth 4 e 0)) in *.
      destruct He as [Hein Hec]. unfold pixel_of in Hein, Hec.
      pose proof (relax_fold_L lab1 (nth 2 e 0) (nth 3 e 0) (nth 4 e 0) d0 offsets8 (s_dist st, hp1)
                               (incl_refl _) Hein Hec Hrest) as HF2.
      destruct (fold_left (relax key image mask m n weight lab1 (nth 2 e 0) (nth 3 e 0) (nth 4 e 0) d0) offsets8
                          (s_dist st, hp1)) as [dist1 hp2] eqn:Hfold.
      cbn [fst snd] in HF2.
      refine (IH (mkst lab1 dist1 hp2) st' _ HL). cbn [s_lab s_hp].
      split; [apply set2_shape; [exact Hs | destruct Hein; assumption]|]. split; [|exact HF2].
      intros [a b] Hv. cbn [fst snd]. unfold lab1.
      destruct (Z.eq_dec a (nth 3 e 0)) as [->|Na].
      * destruct (Z.eq_dec b (nth 4 e 0)) as [->|Nb].
        -- rewrite (get2_set2_same m n) by assumption. right. exact Hec.
        -- rewrite (get2_set2_other m n) by (try assumption; congruence). exact (HD (nth 3 e 0, b) Hv).
      * rewrite (get2_set2_other m n) by (try assumption; congruence). exact (HD (a, b) Hv).
    + exact (IH (mkst (s_lab st) (s_dist st) hp1) st' (conj Hs (conj HD Hrest)) HL).
Qed.

Theorem labels_sound_sec : forall lo d,
  shape labels m n -> (forall v, inr m n v -> 0 <= labv v) ->
  propagate key image labels mask m n weight = Some (lo, d) ->
  forall v, inr m n v ->
    let l := get2 0 lo (fst v) (snd v) in
    (0 < labv v /\ l = labv v) \/ (labv v = 0 /\ (l = 0 \/ conn v l)).
Proof.
  intros lo d Hsh Hnn HP [a b] Hv. unfold propagate in HP.
  match type of HP with context [loop _ _ _ _ _ _ ?fuel ?st0] =>
    destruct (loop key image mask m n weight fuel st0) as [st ok] eqn:HL; set (S0 := st0) in * end.
  destruct ok; [|discriminate]. inversion HP. subst lo d. clear HP.
  assert (HI0 : InvL (s_lab S0) (s_hp S0)).
  { unfold S0. cbn [s_lab s_hp]. split; [apply map2_shape; exact Hsh|]. split.
    - intros [a' b'] Hab. cbn [fst snd]. rewrite (get2_map2 m n _ _ _ labels a' b' 0) by assumption.
      left. reflexivity.
    - unfold heap_from_rows. cbn [rows]. apply Forall_forall. intros r Hr.
      apply in_flat_map in Hr. destruct Hr as [[a' b'] [Hc Hr]]. cbn [fst snd] in Hr.
      apply coords_In in Hc.
      destruct (negb (get2 0 labels a' b' =? 0) && get2 false mask a' b') eqn:E; [|destruct Hr].
      destruct Hr as [<-|[]]. apply andb_prop in E. destruct E as [E1 E2].
      assert (Hab : inr m n (a', b')) by (unfold inr; cbn [fst snd]; lia).
      split; [exact Hab|]. unfold pixel_of. cbn [nth].
      pose proof (Hnn (a', b') Hab) as H0. unfold PropDijkstra.labv in H0. cbn [fst snd] in H0.
      apply (conn_seed (a', b') Hab); [unfold PropDijkstra.labv; cbn [fst snd]; lia | exact E2]. }
  destruct (loop_L _ _ _ HI0 HL) as [Hs1 [HD _]].
  cbn zeta. cbn [fst snd].
  rewrite (get2_zip m n (fun p => if 0 <? snd p then snd p else fst p)) by assumption. cbn [fst snd].
  pose proof (Hnn (a, b) Hv) as H0. unfold PropDijkstra.labv in *. cbn [fst snd] in *.
  destruct (0 <? get2 0 labels a b) eqn:E.
  - left. split; [lia | reflexivity].
  - right. split; [lia|]. exact (HD (a, b) Hv).
Qed.
End Labels.

Theorem labels_sound : forall key image labels mask m n weight lo d,
  shape labels m n -> (forall v, inr m n v -> 0 <= labv labels v) ->
  propagate key image labels mask m n weight = Some (lo, d) ->
  forall v, inr m n v ->
    let l := get2 0 lo (fst v) (snd v) in
    (0 < labv labels v /\ l = labv labels v) \/
    (labv labels v = 0 /\ (l = 0 \/ conn mask m n labels v l)).
Proof. intros. eapply labels_sound_sec; eassumption. Qed.
