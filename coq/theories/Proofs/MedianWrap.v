(* C07 — median_filter_model_correct: wrapper ∘ kernel meets the property's statement, for the
   model of filter.median_filter that the correspondence ties to the code (AsIs kernel, radius >= 2). *)
From Coq Require Import ZArith List Bool Lia ZifyBool Sorted.
From Centro Require Import Base.Sx Model.Median Spec.MedianSpec Proofs.MedianCheck Proofs.MedianRank
  Proofs.MedianInv Proofs.MedianRefute.
Import ListNotations.
Open Scope Z_scope.

Lemma index_of_le x u : (index_of x u <= length u)%nat.
Proof. induction u as [|y r IH]; cbn [index_of length]; [lia|]. destruct (x =? y); lia. Qed.

Lemma all_false_msk mask y x : forallb (forallb negb) mask = true -> msk2 mask y x = false.
Proof.
  intros H. unfold msk2, getz. rewrite forallb_forall in H.
  destruct (nth_in_or_default (Z.to_nat y) mask []) as [Hin|E].
  - specialize (H _ Hin). rewrite forallb_forall in H.
    destruct (nth_in_or_default (Z.to_nat x) (nth (Z.to_nat y) mask []) false) as [Hin2|E2]; [|exact E2].
    specialize (H _ Hin2). destruct (nth (Z.to_nat x) (nth (Z.to_nat y) mask []) false); [discriminate|reflexivity].
  - rewrite E. destruct (Z.to_nat x); reflexivity.
Qed.

Lemma rect_img {A} rows cols (img : list (list A)) : 0 < rows -> rect rows cols img -> img_rows img = rows /\ img_cols img = cols.
Proof. intros Hr H. split; [destruct H; assumption|apply (rect_cols rows); assumption]. Qed.

(* two images that agree on the unmasked pixels have the same windows *)
Lemma MedianSpec_agree rows cols data data' mask radius percent o : 0 < rows ->
  rect rows cols data -> rect rows cols data' ->
  (forall y x, 0 <= y < rows -> 0 <= x < cols -> msk2 mask y x = true -> dat2 data' y x = dat2 data y x) ->
  MedianSpec data' mask radius percent o -> MedianSpec data mask radius percent o.
Proof.
  intros Hr Hd Hd' Hag HS i j Hi Hj.
  destruct (rect_img rows cols data Hr Hd) as [E1 E2]. destruct (rect_img rows cols data' Hr Hd') as [E1' E2'].
  assert (EW : window data' mask radius i j = window data mask radius i j).
  { unfold window, window_c. rewrite E1, E2, E1', E2'. apply map_ext_in. intros [y x] Hp.
    apply filter_In in Hp. destruct Hp as [Hc Hw]. apply coords_In in Hc. unfold in_window in Hw. cbn [fst snd] in *.
    apply andb_true_iff in Hw. destruct Hw as [Hm _]. apply Hag; lia || assumption. }
  specialize (HS i j). rewrite E1', E2' in HS. rewrite E1 in Hi. rewrite E2 in Hj. specialize (HS Hi Hj).
  cbv zeta in *. rewrite EW in HS. exact HS.
Qed.

Theorem median_filter_model_correct intlike orders rows cols data mask radius percent b o :
  0 < rows -> rect rows cols data -> rect rows cols mask -> 2 <= radius -> 0 <= percent <= 100 ->
  WinSmall mask rows cols radius ->
  (length (sort_u (masked_vals data mask)) <= 255)%nat ->
  wrapper AsIs intlike orders data mask radius percent = WOut b o ->
  MedianSpec data mask radius percent o.
Proof.
  intros Hr Hd Hm Hrad Hp HWs H255 HW.
  destruct (rect_img rows cols data Hr Hd) as [E1 E2].
  destruct b.
  - (* rank_order path, no decimation *)
    pose proof (wrapper_model_shape AsIs intlike orders data mask radius percent o H255 HW) as Eo. cbv zeta in Eo.
    set (u := sort_u (masked_vals data mask)) in *. set (RI := rank_image u data mask) in *.
    assert (HRI : rect rows cols RI) by (apply map_img_rect; assumption).
    destruct (rect_img rows cols RI Hr HRI) as [F1 F2].
    assert (HM8 : Masked8 RI mask).
    { intros y x Hy Hx Hmk. rewrite F1 in Hy. rewrite F2 in Hx. unfold RI, rank_image.
      rewrite (dat2_map_img _ rows cols) by assumption. rewrite Hmk. unfold rk.
      pose proof (index_of_le (dat2 data y x) u). fold u in H255. lia. }
    rewrite asis_is_fixed in Eo by exact Hrad.
    destruct (sliding_invariant RI mask radius percent ltac:(lia) Hp HM8 ltac:(rewrite F1, F2; exact HWs)) as (S & L & Fo).
    rewrite Eo. apply (wrapper_exact rows cols); try assumption.
    split; [rewrite L; exact F1|]. rewrite F2 in Fo. exact Fo.
  - destruct (wrapper_model_direct AsIs intlike orders data mask radius percent o HW) as [[-> Hall]|(_ & Hrange & ->)].
    + (* every pixel masked out: every window is empty *)
      intros i j _ _. cbv zeta. intros Hne. exfalso.
      destruct (window data mask radius i j) as [|v w] eqn:Ew; [congruence|].
      assert (Hin : In v (window data mask radius i j)) by (rewrite Ew; left; reflexivity).
      apply window_In in Hin. destruct Hin as (y & x & _ & _ & Hmk & _). rewrite (all_false_msk mask y x Hall) in Hmk. discriminate.
    + (* direct path: the kernel on the masked image *)
      set (D := map_img (fun d (m : bool) => if m then d else 0) data mask) in *.
      assert (HD : rect rows cols D) by (apply map_img_rect; assumption).
      destruct (rect_img rows cols D Hr HD) as [F1 F2].
      assert (Hag : forall y x, 0 <= y < rows -> 0 <= x < cols -> msk2 mask y x = true -> dat2 D y x = dat2 data y x).
      { intros y x Hy Hx Hmk. unfold D. rewrite (dat2_map_img _ rows cols) by assumption. rewrite Hmk. reflexivity. }
      assert (HM8 : Masked8 D mask).
      { intros y x Hy Hx Hmk. rewrite F1 in Hy. rewrite F2 in Hx. rewrite Hag by assumption.
        rewrite Forall_forall in Hrange. pose proof (Hrange _ (masked_vals_In rows cols data mask y x Hd Hm Hy Hx Hmk)). lia. }
      rewrite asis_is_fixed by exact Hrad.
      destruct (sliding_invariant D mask radius percent ltac:(lia) Hp HM8 ltac:(rewrite F1, F2; exact HWs)) as (S & _ & _).
      apply (MedianSpec_agree rows cols data D); assumption.
Qed.

(* more than 255 levels: the output is a masked input value of the level the exact statistic of the
   merged image selects (the merged image and the table are those of C18's proven rank_order model) *)
Theorem median_filter_model_merged intlike orders data mask radius percent o :
  (255 < length (sort_u (masked_vals data mask)))%nat ->
  wrapper AsIs intlike orders data mask radius percent = WOut true o ->
  2 <= radius -> 0 <= percent <= 100 ->
  exists r tr, let L := fill_img mask (map Z.of_nat r) in
    Model.RankC18.rank_order_bins_with (Model.RankC18.replay_oracle orders) (Model.VecC18.argsort (masked_vals data mask))
      (masked_vals data mask) 255 = Some (r, tr) /\
    o = map (map (fun x => nth (Z.to_nat x) tr 0)) (kernel AsIs L mask radius percent) /\
    (Masked8 L mask -> WinSmall mask (img_rows L) (img_cols L) radius -> MedianSpec L mask radius percent (kernel AsIs L mask radius percent)).
Proof.
  intros H HW Hrad Hp. destruct (wrapper_model_merged AsIs intlike orders data mask radius percent o H HW) as (r & tr & E1 & E2).
  exists r, tr. cbv zeta. split; [exact E1|]. split; [exact E2|]. intros HM HWs. apply sliding_invariant_asis; assumption.
Qed.

Example median_filter_model_correct_ex :
  let data := [[-5; 1000; 7]; [7; 300000; -5]] in let mask := [[true; true; false]; [true; true; true]] in
  rect 2 3 data /\ rect 2 3 mask /\ (length (sort_u (masked_vals data mask)) <= 255)%nat /\ WinSmall mask 2 3 2 /\
  wrapper AsIs false [] data mask 2 50 = WOut true [[7; 7; 7]; [7; 7; 7]].
Proof.
  cbv zeta. unfold rect. repeat split; try (repeat constructor; reflexivity); try (apply WinSmall_of_small_image; lia);
    vm_compute; try reflexivity; lia.
Qed.
