(* C14 — for every strictly convex vertex cycle the antipodal sweep's maximum equals the brute-force
   maximum: the staircase path of the sweep passes through every farthest pair. *)
From Coq Require Import ZArith List Bool Lia ZifyBool.
From Centro Require Import Base.Sx Model.Feret Spec.FeretSpec Spec.CalipersHyp
  Proofs.FeretProofs Proofs.SweepProofs Proofs.CalipersGeom Proofs.CalipersPath.
Import ListNotations.
Open Scope Z_scope.

(* ---------------------------------------------------------------- the initial antipode *)
Lemma first_argmax_spec pm p1 : forall vs k best a c,
  first_argmax vs pm p1 k best = Some (a, c) ->
  (forall b bc, best = Some (b, bc) -> bc <= c) /\
  (forall i, (i < length vs)%nat -> cross2 (nth i vs (0, 0)) pm p1 <= c) /\
  (best = Some (a, c) \/ ((k <= a < k + length vs)%nat /\ c = cross2 (nth (a - k) vs (0, 0)) pm p1)).
Proof.
  induction vs as [|v t IH]; intros k best a c E; cbn [first_argmax] in E.
  - subst best. split; [intros b bc H; inversion H; lia|]. split; [intros i Hi; cbn [length] in Hi; lia|left; reflexivity].
  - apply IH in E. destruct E as (Hb & Hi & Hc). cbn [length].
    destruct best as [[bk bc]|].
    + destruct (bc <? cross2 v pm p1) eqn:C.
      * split; [intros b bc' H; inversion H; subst; specialize (Hb _ _ eq_refl); lia|].
        split; [intros [|i] L; cbn [nth]; [exact (Hb _ _ eq_refl)|apply Hi; lia]|].
        right. destruct Hc as [Hc|[R Ec]].
        -- inversion Hc; subst. split; [lia|]. rewrite Nat.sub_diag. reflexivity.
        -- split; [lia|]. rewrite Ec. replace (a - k)%nat with (S (a - S k)) by lia. reflexivity.
      * split; [intros b bc' H; inversion H; subst; exact (Hb _ _ eq_refl)|].
        split; [intros [|i] L; cbn [nth]; [specialize (Hb _ _ eq_refl); lia|apply Hi; lia]|].
        destruct Hc as [Hc|[R Ec]]; [left; exact Hc|right].
        split; [lia|]. rewrite Ec. replace (a - k)%nat with (S (a - S k)) by lia. reflexivity.
    + split; [intros b bc H; discriminate|].
      split; [intros [|i] L; cbn [nth]; [exact (Hb _ _ eq_refl)|apply Hi; lia]|].
      right. destruct Hc as [Hc|[R Ec]].
      * inversion Hc; subst. split; [lia|]. rewrite Nat.sub_diag. reflexivity.
      * split; [lia|]. rewrite Ec. replace (a - k)%nat with (S (a - S k)) by lia. reflexivity.
Qed.

Lemma sweep_loop_acc h n : forall fuel v a acc ps,
  sweep_loop fuel h n v a acc = Some ps -> In (v, a) ps /\ forall x, In x acc -> In x ps.
Proof.
  induction fuel as [|f IH]; intros v a acc ps E; [discriminate|].
  cbn [sweep_loop] in E.
  destruct (_ && _) in E.
  - apply IH in E. destruct E as [_ Sub]. split; [apply Sub; left; reflexivity|intros x I; apply Sub; right; exact I].
  - assert (Eps : ps = rev ((v, a) :: acc)) by congruence. subst ps.
    split; [apply in_rev; rewrite rev_involutive; left; reflexivity|intros x I; apply in_rev; rewrite rev_involutive; right; exact I].
Qed.

Lemma nth_firstn_lt' {A} (d : A) : forall m (l : list A) i, (i < m)%nat -> nth i (firstn m l) d = nth i l d.
Proof.
  induction m as [|m IH]; intros l i L; [lia|]. destruct l as [|x t]; [destruct i; reflexivity|].
  destruct i as [|i]; [reflexivity|]. cbn [firstn nth]. apply IH. lia.
Qed.
Lemma nth_skipn' {A} (d : A) : forall k (l : list A) i, nth i (skipn k l) d = nth (k + i) l d.
Proof.
  induction k as [|k IH]; intros l i; [reflexivity|]. destruct l as [|x t]; [destruct i; reflexivity|].
  cbn [skipn Nat.add nth]. apply IH.
Qed.

Lemma antipodal_pairs_ge3 h : (3 <= length h)%nat ->
  antipodal_pairs h =
  match first_argmax (firstn (length h - 2) (skipn 1 h)) (pnth (length h - 1) h) (pnth 0 h) 1 None with
  | None => None
  | Some (a, _) => sweep_loop (2 * length h + 4) h (length h) 0 a []
  end.
Proof. unfold antipodal_pairs. intro L. destruct (length h) as [|[|[|m]]]; try lia; reflexivity. Qed.

Section Max.
  Variable h : list fpt.
  Variable sg : Z.
  Let n := length h.
  Hypothesis Sg : sg = 1 \/ sg = -1.
  Hypothesis N3 : (3 <= n)%nat.
  Hypothesis SC : strict_side h sg = true.
  Variables p q : nat.
  Hypothesis Lpq : (p < q < n)%nat.
  Hypothesis Far : forall i j, (i < n)%nat -> (j < n)%nat -> fdist2 (P h i) (P h j) <= fdist2 (P h p) (P h q).

  Notation Dm := (Dm h sg).
  Notation fd := (fd h sg).
  Notation nx := (nx h).

  Lemma sq_fd v k : fd v k * fd v k = cross2 (P h k) (P h v) (P h (nx v)).
  Proof. unfold CalipersPath.fd, cross2. destruct Sg; subst sg; ring. Qed.

  (* the sweep's test is the sign of D *)
  Lemma adv_spec v a : (v < a < n)%nat ->
    (cross2 (pnth a h) (pnth v h) (pnth (S v) h) <=?
     cross2 (pnth (if (S a =? n)%nat then 0%nat else S a) h) (pnth v h) (pnth (S v) h)) = true <-> 0 <= Dm v a.
  Proof.
    intro L. assert (E1 : S v = nx v) by (symmetry; apply (nx_S h sg N3 SC); fold n; lia).
    change (if (S a =? n)%nat then 0%nat else S a) with (nx a).
    rewrite E1. change (pnth a h) with (P h a). change (pnth (nx a) h) with (P h (nx a)). change (pnth v h) with (P h v).
    change (pnth (nx v) h) with (P h (nx v)).
    rewrite <- !sq_fd. rewrite <- (fd_step h sg v a).
    pose proof (fd_nonneg h sg N3 SC v a ltac:(fold n; lia) ltac:(fold n; lia)) as F1.
    pose proof (fd_nonneg h sg N3 SC v (nx a) ltac:(fold n; lia) (nx_lt h sg N3 SC a ltac:(fold n; lia))) as F2.
    split; intro H; nia.
  Qed.

  (* the distance to the closing edge n-1 -> 0 decreases from q on *)
  Lemma closing_decreasing : (q < n - 1)%nat -> Dm (n - 1) q < 0.
  Proof.
    intro Hq. assert (En : nx (n - 1) = 0%nat) by (unfold CalipersPath.nx, nxt; fold n; destruct (Nat.eqb_spec (S (n - 1)) n); lia).
    assert (Eq : nx q = S q) by (apply (nx_S h sg N3 SC); fold n; lia).
    destruct (Nat.eq_dec p 0) as [P0|PN].
    - apply (A1 h sg Sg N3 SC p q Lpq Far (n - 1)%nat).
      + fold n. lia.
      + rewrite En. lia.
      + lia.
      + rewrite Eq. lia.
    - (* D q 0 > 0 by the column lemma, then no valley at vertex 0 *)
      pose proof (column h sg Sg N3 SC p q Lpq Far 0%nat ltac:(lia)) as C0. rewrite Dm_antisym in C0.
      rewrite Dm_antisym.
      destruct (Z_lt_le_dec 0 (Dm q (n - 1))) as [OK|Bad]; [lia|exfalso].
      pose proof (NV h sg Sg N3 SC q (n - 1)%nat ltac:(fold n; lia) ltac:(fold n; lia)) as V.
      rewrite En in V. specialize (V ltac:(lia) ltac:(rewrite Eq; lia) Bad). lia.
  Qed.

  Lemma closing_chain : (q < n - 1)%nat -> forall j, (q + S j <= n - 2)%nat -> fd (n - 1) (q + S j) < fd (n - 1) q.
  Proof.
    intros Hq. pose proof (closing_decreasing Hq) as D0.
    assert (En : nx (n - 1) = 0%nat) by (unfold CalipersPath.nx, nxt; fold n; destruct (Nat.eqb_spec (S (n - 1)) n); lia).
    induction j as [|j IH]; intro L.
    - pose proof (fd_step h sg (n - 1)%nat q) as St. rewrite (nx_S h sg N3 SC q) in St by (fold n; lia).
      replace (q + 1)%nat with (S q) by lia. lia.
    - specialize (IH ltac:(lia)).
      destruct (NV_chain h sg Sg N3 SC (n - 1)%nat q (S j) ltac:(fold n; lia) ltac:(fold n; lia)) as [Le _]; [|lia|].
      + intros t Ht. rewrite En. lia.
      + pose proof (fd_step h sg (n - 1)%nat (q + S j)%nat) as St. rewrite (nx_S h sg N3 SC) in St by (fold n; lia).
        replace (q + S (S j))%nat with (S (q + S j)) by lia. lia.
  Qed.

  Lemma a0_le_q a0 c :
    first_argmax (firstn (n - 2) (skipn 1 h)) (pnth (n - 1) h) (pnth 0 h) 1 None = Some (a0, c) -> (1 <= a0 <= q)%nat.
  Proof.
    intro E. apply first_argmax_spec in E. destruct E as (_ & Hi & Hc).
    assert (Len : length (firstn (n - 2) (skipn 1 h)) = (n - 2)%nat) by (rewrite firstn_length, skipn_length; fold n; lia).
    assert (Nth : forall i, (i < n - 2)%nat -> nth i (firstn (n - 2) (skipn 1 h)) (0, 0) = P h (S i)).
    { intros i Li. rewrite nth_firstn_lt' by lia. unfold P, pnth. rewrite nth_skipn'. reflexivity. }
    destruct Hc as [Hc|[R Ec]]; [discriminate|]. rewrite Len in R. split; [lia|].
    destruct (le_lt_dec a0 q) as [OK|Bad]; [exact OK|exfalso].
    assert (Hq : (q < n - 1)%nat) by lia.
    assert (En : nx (n - 1) = 0%nat) by (unfold CalipersPath.nx, nxt; fold n; destruct (Nat.eqb_spec (S (n - 1)) n); lia).
    pose proof (closing_chain Hq (a0 - q - 1)%nat ltac:(lia)) as Ch.
    replace (q + S (a0 - q - 1))%nat with a0 in Ch by lia.
    (* but a0 is an argmax over 1 .. n-2, which contains q *)
    specialize (Hi (q - 1)%nat ltac:(lia)). rewrite Nth in Hi by lia. replace (S (q - 1)) with q in Hi by lia.
    rewrite Nth in Ec by lia. replace (S (a0 - 1)) with a0 in Ec by lia. subst c.
    assert (Hq2 : fd (n - 1) q * fd (n - 1) q <= fd (n - 1) a0 * fd (n - 1) a0).
    { rewrite !sq_fd, En. exact Hi. }
    pose proof (fd_nonneg h sg N3 SC (n - 1)%nat q ltac:(fold n; lia) ltac:(fold n; lia)).
    pose proof (fd_nonneg h sg N3 SC (n - 1)%nat a0 ltac:(fold n; lia) ltac:(fold n; lia)).
    nia.
  Qed.

  (* the staircase: from any state weakly above-left of (p, q) the sweep reaches (p, q) *)
  Lemma path_reaches : forall fuel v a acc ps,
    (v <= p)%nat -> (a <= q)%nat -> (v < a)%nat ->
    sweep_loop fuel h n v a acc = Some ps -> In (p, q) ps.
  Proof.
    induction fuel as [|f IH]; intros v a acc ps Hv Ha Hva E; [discriminate|].
    destruct (Nat.eq_dec v p) as [Ev|Nv]; [destruct (Nat.eq_dec a q) as [Ea|Na]|].
    - subst v a. exact (proj1 (sweep_loop_acc h n _ _ _ _ _ E)).
    - (* in row p, left of q: the antipode advances *)
      subst v. cbn [sweep_loop] in E.
      pose proof (proj2 (adv_spec p a ltac:(lia)) (row h sg Sg N3 SC p q Lpq Far a ltac:(lia))) as Adv.
      rewrite Adv in E.
      cbv iota in E.
      assert (C : ((S a <? n)%nat && negb (p =? S a)%nat) = true) by lia. rewrite C in E.
      apply (IH p (S a) ((p, a) :: acc) ps); [lia|lia|lia|exact E].
    - cbn [sweep_loop] in E.
      destruct (cross2 (pnth a h) (pnth v h) (pnth (S v) h) <=?
                cross2 (pnth (if (S a =? n)%nat then 0%nat else S a) h) (pnth v h) (pnth (S v) h)) eqn:Adv;
        cbv iota in E.
      + (* antipode advances: allowed only left of q *)
        destruct (Nat.eq_dec a q) as [Ea|Na].
        * exfalso. subst a. apply (adv_spec v q ltac:(lia)) in Adv.
          pose proof (column h sg Sg N3 SC p q Lpq Far v ltac:(lia)). lia.
        * assert (C : ((S a <? n)%nat && negb (v =? S a)%nat) = true) by lia. rewrite C in E.
          apply (IH v (S a) ((v, a) :: acc) ps); [lia|lia|lia|exact E].
      + (* vertex advances; it cannot catch the antipode because D v (v+1) > 0 *)
        assert (Nva : a <> S v).
        { intro Ea. subst a. assert (A : 0 <= Dm v (S v)).
          { pose proof (Dm_local h sg N3 SC v ltac:(fold n; lia)) as L. rewrite (nx_S h sg N3 SC) in L by (fold n; lia). lia. }
          apply (adv_spec v (S v) ltac:(lia)) in A. congruence. }
        assert (C : ((a <? n)%nat && negb (S v =? a)%nat) = true) by lia. rewrite C in E.
        apply (IH (S v) a ((v, a) :: acc) ps); [lia|lia|lia|exact E].
  Qed.

  Lemma farthest_recorded ps : antipodal_pairs h = Some ps -> In (p, q) ps.
  Proof.
    rewrite (antipodal_pairs_ge3 h N3). fold n.
    destruct (first_argmax _ _ _ 1 None) as [[a0 c]|] eqn:FA; [|discriminate].
    intro E. pose proof (a0_le_q a0 c FA) as [A1' A2'].
    apply (path_reaches (2 * n + 4)%nat 0%nat a0 [] ps); [lia|exact A2'|lia|exact E].
  Qed.
End Max.

Lemma fold_max_ge (f : nat * nat -> Z) x : forall ps m0, In x ps -> f x <= fold_left (fun m p => Z.max m (f p)) ps m0.
Proof.
  assert (Mono : forall ps m0, m0 <= fold_left (fun m p => Z.max m (f p)) ps m0).
  { induction ps as [|y t IH]; intro m0; cbn [fold_left]; [lia|]. specialize (IH (Z.max m0 (f y))). lia. }
  induction ps as [|y t IH]; intros m0 I; [destruct I|]. cbn [fold_left]. destruct I as [<-|I].
  - specialize (Mono t (Z.max m0 (f y))). lia.
  - apply IH. exact I.
Qed.

Theorem sweep_max_complete h mx mn :
  strict_convex_ok h = true -> sweep h = Some (mx, mn) -> mx = max_d2 h.
Proof.
  intros Hyp E. pose proof (sweep_max_sound h mx mn E) as Le.
  assert (Ge : max_d2 h <= mx); [|lia].
  unfold strict_convex_ok in Hyp. apply andb_true_iff in Hyp. destruct Hyp as [N3 Side].
  assert (N3' : (3 <= length h)%nat) by lia.
  assert (SS : exists sg, (sg = 1 \/ sg = -1) /\ strict_side h sg = true).
  { apply orb_true_iff in Side. destruct Side as [S|S]; [exists 1|exists (-1)]; split; auto. }
  destruct SS as [sg [Sg SC]].
  unfold sweep in E. destruct (antipodal_pairs h) as [ps|] eqn:AP; [|discriminate].
  assert (Emx : mx = max_pair_d2 h ps) by congruence. subst mx.
  (* a farthest pair, as indices p < q *)
  destruct (proj2 (feret_max_spec h) ltac:(intro Z0; subst h; cbn [length] in N3'; lia)) as [x [y (Ix & Iy & Exy)]].
  destruct (In_nth h x (0, 0) Ix) as [i [Li Ei]]. destruct (In_nth h y (0, 0) Iy) as [j [Lj Ej]].
  assert (Far : forall i' j', (i' < length h)%nat -> (j' < length h)%nat -> fdist2 (P h i') (P h j') <= max_d2 h).
  { intros i' j' Li' Lj'. apply (proj1 (feret_max_spec h)); apply nth_In; assumption. }
  assert (Pos : 0 < max_d2 h).
  { pose proof (P_inj h sg N3' SC 0%nat 1%nat ltac:(lia) ltac:(lia) ltac:(lia)) as Ne.
    pose proof (Far 0%nat 1%nat ltac:(lia) ltac:(lia)) as F01.
    assert (0 < fdist2 (P h 0%nat) (P h 1%nat)); [|lia].
    unfold fdist2. destruct (P h 0%nat) as [a1 a2], (P h 1%nat) as [b1 b2]. cbn [fst snd].
    assert (a1 <> b1 \/ a2 <> b2) by (destruct (Z.eq_dec a1 b1), (Z.eq_dec a2 b2); subst; try tauto; congruence).
    pose proof (Z.square_nonneg (a1 - b1)). pose proof (Z.square_nonneg (a2 - b2)).
    destruct H; [assert (0 < (a1 - b1) * (a1 - b1)) by nia|assert (0 < (a2 - b2) * (a2 - b2)) by nia]; lia. }
  assert (Nij : i <> j).
  { intro Eij. subst j. rewrite Ej in Ei. subst y. unfold sdist2 in Exy. nia. }
  assert (Dxy : fdist2 (P h i) (P h j) = max_d2 h) by (unfold P, pnth; rewrite Ei, Ej; exact Exy).
  unfold max_pair_d2.
  destruct (lt_dec i j) as [Lt|Ge'].
  - pose proof (farthest_recorded h sg Sg N3' SC i j ltac:(lia)
                  ltac:(intros; rewrite Dxy; apply Far; assumption) ps AP) as In.
    pose proof (fold_max_ge (fun p => fdist2 (pnth (fst p) h) (pnth (snd p) h)) (i, j) ps 0 In) as G.
    cbn [fst snd] in G. fold (P h i) (P h j) in G. lia.
  - assert (Dyx : fdist2 (P h j) (P h i) = max_d2 h) by (rewrite <- Dxy; unfold fdist2; ring).
    pose proof (farthest_recorded h sg Sg N3' SC j i ltac:(lia)
                  ltac:(intros; rewrite Dyx; apply Far; assumption) ps AP) as In.
    pose proof (fold_max_ge (fun p => fdist2 (pnth (fst p) h) (pnth (snd p) h)) (j, i) ps 0 In) as G.
    cbn [fst snd] in G. fold (P h i) (P h j) in G. lia.
Qed.
