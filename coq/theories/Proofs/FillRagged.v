(* C08 — the ragged index: bincount + Indexes.fwd_idx over an edge list sorted by its first
   component give, for every region i, exactly the slice of j holding i's neighbours. *)
From Coq Require Import ZArith List Bool Lia ZifyBool Sorting.Sorted.
From Centro Require Import Base.FillZMap Base.FillSort Model.FillHoles Proofs.FillLists.
Import ListNotations.
Open Scope Z_scope.

Definition nlt (i : Z) (e : list (Z * Z)) : nat := length (filter (fun x => fst x <? i) e).
Definition neq (i : Z) (e : list (Z * Z)) : nat := length (filter (fun x => fst x =? i) e).

Lemma nlt_succ i e : nlt (i + 1) e = (nlt i e + neq i e)%nat.
Proof.
  unfold nlt, neq. induction e as [|a e IH]; [reflexivity|]. cbn [filter].
  destruct (fst a <? i + 1) eqn:A; destruct (fst a <? i) eqn:B; destruct (fst a =? i) eqn:C; cbn [length]; lia.
Qed.
Lemma nlt_zero e : (forall x, In x e -> 0 <= fst x) -> nlt 0 e = O.
Proof.
  unfold nlt. induction e as [|a e IH]; intros H; [reflexivity|]. cbn [filter].
  assert (0 <= fst a) by (apply H; left; auto). destruct (fst a <? 0) eqn:A; [lia|]. apply IH. intros x Hx. apply H; right; auto.
Qed.
Lemma nlt_all n e : (forall x, In x e -> fst x < n) -> nlt n e = length e.
Proof.
  unfold nlt. induction e as [|a e IH]; intros H; [reflexivity|]. cbn [filter].
  assert (fst a < n) by (apply H; left; auto). destruct (fst a <? n) eqn:A; [|lia]. cbn [length]. f_equal. apply IH.
  intros x Hx. apply H; right; auto.
Qed.

Lemma filter_len_le {A} (f : A -> bool) l : (length (filter f l) <= length l)%nat.
Proof. induction l as [|a l IH]; [apply le_n|]. cbn [filter]. destruct (f a); cbn [length]; lia. Qed.

Lemma filter_nil_forall {A} (f : A -> bool) l : (forall x, In x l -> f x = false) -> filter f l = [].
Proof.
  induction l as [|a l IH]; intros H; [reflexivity|]. cbn [filter]. rewrite (H a (or_introl eq_refl)).
  apply IH. intros x Hx. apply H; right; auto.
Qed.

(* in a list sorted by key, the elements with key i form the block starting after the smaller keys *)
Lemma block i e : StronglySorted (fun a b : Z * Z => fst a <= fst b) e ->
  firstn (neq i e) (skipn (nlt i e) e) = filter (fun x => fst x =? i) e.
Proof.
  unfold nlt, neq. induction e as [|a e IH]; intros S; [reflexivity|].
  inversion S as [|x y S' F]; subst x y. rewrite Forall_forall in F. specialize (IH S'). cbn [filter].
  destruct (Z.compare_spec (fst a) i) as [E|L|G].
  - assert (N : filter (fun x => fst x <? i) e = []).
    { apply filter_nil_forall. intros x Hx. specialize (F x Hx). lia. }
    rewrite N in IH |- *. destruct (fst a <? i) eqn:A; [lia|]. destruct (fst a =? i) eqn:B; [|lia].
    cbn [length skipn firstn] in *. f_equal. exact IH.
  - destruct (fst a <? i) eqn:A; [|lia]. destruct (fst a =? i) eqn:B; [lia|]. cbn [length skipn]. exact IH.
  - assert (N : filter (fun x => fst x <? i) e = []).
    { apply filter_nil_forall. intros x Hx. specialize (F x Hx). lia. }
    assert (M : filter (fun x => fst x =? i) e = []).
    { apply filter_nil_forall. intros x Hx. specialize (F x Hx). lia. }
    rewrite N, M. destruct (fst a <? i) eqn:A; [lia|]. destruct (fst a =? i) eqn:B; [lia|]. reflexivity.
Qed.

Lemma In_slice {A} (x : A) : forall o c l,
  In x (firstn c (skipn o l)) <-> exists t, (t < c)%nat /\ nth_error l (o + t) = Some x.
Proof.
  induction o as [|o IH]; intros c l.
  - cbn [skipn plus]. revert c. induction l as [|a l IHl]; intros c.
    + rewrite firstn_nil. split; [intros []|intros [t [_ H]]; destruct t; discriminate].
    + destruct c as [|c]; [split; [intros []|intros [t [H _]]; lia]|]. cbn [firstn In]. rewrite IHl. split.
      * intros [<-|[t [Ht E]]]; [exists O; split; [lia|reflexivity]|exists (S t); split; [lia|exact E]].
      * intros [[|t] [Ht E]]; [left; cbn in E; congruence|right; exists t; split; [lia|exact E]].
  - destruct l as [|a l].
    + cbn [skipn]. rewrite firstn_nil. split; [intros []|intros [t [_ H]]; destruct (S o + t)%nat; discriminate].
    + cbn [skipn]. rewrite IH. split; intros [t [Ht E]]; exists t; (split; [exact Ht|exact E]).
Qed.

(* bincount *)
Lemma bincount_fold l : forall m k,
  getz (fold_left (fun m k => zset m k (getz m k + 1)) l m) k = getz m k + Z.of_nat (length (filter (fun x => x =? k) l)).
Proof.
  induction l as [|a l IH]; intros m k; cbn [fold_left filter length]; [lia|]. rewrite IH.
  destruct (Z.eq_dec k a) as [->|N].
  - rewrite getz_set_same, Z.eqb_refl. cbn [length]. lia.
  - rewrite getz_set_other by auto. destruct (a =? k) eqn:E; [lia|]. reflexivity.
Qed.

Lemma filter_map_fst k e : length (filter (fun x => x =? k) (map fst e)) = neq k e.
Proof.
  unfold neq. induction e as [|a e IH]; [reflexivity|]. cbn [map filter]. destruct (fst a =? k); cbn [length]; rewrite IH; reflexivity.
Qed.

Lemma bincount_spec e k : getz (bincount (map fst e)) k = Z.of_nat (neq k e).
Proof. unfold bincount. rewrite bincount_fold, getz_empty, filter_map_fst. lia. Qed.

(* exclusive prefix sums *)
Lemma fwd_fold (cntf F : Z -> Z) : (forall k, F (k + 1) = F k + cntf k) ->
  forall n lo m,
  let r := fold_left (fun (a : zmap Z * Z) k => (zset (fst a) k (snd a), snd a + cntf k)) (zseq lo n) (m, F lo) in
  snd r = F (lo + Z.of_nat n) /\
  forall k, getz (fst r) k = if (lo <=? k) && (k <? lo + Z.of_nat n) then F k else getz m k.
Proof.
  intros HF. induction n as [|n IH]; intros lo m; cbn [zseq fold_left fst snd].
  - split; [f_equal; lia|]. intros k. destruct ((lo <=? k) && (k <? lo + Z.of_nat 0)) eqn:E; [lia|reflexivity].
  - rewrite <- HF. destruct (IH (lo + 1) (zset m lo (F lo))) as [A B]. split; [rewrite A; f_equal; lia|].
    intros k. rewrite B. destruct (Z.eq_dec k lo) as [->|N].
    + rewrite getz_set_same. destruct ((lo + 1 <=? lo) && (lo <? lo + 1 + Z.of_nat n)) eqn:E1; [lia|].
      destruct ((lo <=? lo) && (lo <? lo + Z.of_nat (S n))) eqn:E2; [reflexivity|lia].
    + rewrite getz_set_other by auto.
      destruct ((lo + 1 <=? k) && (k <? lo + 1 + Z.of_nat n)) eqn:E1;
        destruct ((lo <=? k) && (k <? lo + Z.of_nat (S n))) eqn:E2; try reflexivity; lia.
Qed.

Lemma fwd_idx_spec e n k : (forall x, In x e -> 0 <= fst x) -> 0 <= k < Z.of_nat n ->
  getz (fwd_idx (bincount (map fst e)) n) k = Z.of_nat (nlt k e).
Proof.
  intros Hp Hk. unfold fwd_idx.
  pose proof (fwd_fold (getz (bincount (map fst e))) (fun k => Z.of_nat (nlt k e))) as P.
  cbv beta in P. assert (HF : forall k, Z.of_nat (nlt (k + 1) e) = Z.of_nat (nlt k e) + getz (bincount (map fst e)) k).
  { intros x. rewrite nlt_succ, bincount_spec. lia. }
  specialize (P HF n 0 zempty). rewrite (nlt_zero e Hp) in P. cbn [Z.of_nat] in P. destruct P as [_ P]. rewrite P.
  destruct ((0 <=? k) && (k <? 0 + Z.of_nat n)) eqn:E; [reflexivity|lia].
Qed.

Lemma zload_spec l : forall k m x,
  getz (zload l k m) x = if (k <=? x) && (x <? k + Z.of_nat (length l)) then nth (Z.to_nat (x - k)) l 0 else getz m x.
Proof.
  induction l as [|a l IH]; intros k m x; cbn [zload length].
  - destruct ((k <=? x) && (x <? k + Z.of_nat 0)) eqn:E; [lia|reflexivity].
  - rewrite IH. destruct (Z.eq_dec x k) as [->|N].
    + destruct ((k + 1 <=? k) && (k <? k + 1 + Z.of_nat (length l))) eqn:E1; [lia|]. rewrite getz_set_same.
      destruct ((k <=? k) && (k <? k + Z.of_nat (S (length l)))) eqn:E2; [|lia]. replace (k - k) with 0 by lia. reflexivity.
    + rewrite getz_set_other by auto.
      destruct ((k + 1 <=? x) && (x <? k + 1 + Z.of_nat (length l))) eqn:E1;
        destruct ((k <=? x) && (x <? k + Z.of_nat (S (length l)))) eqn:E2; try reflexivity; try lia.
      replace (Z.to_nat (x - k)) with (S (Z.to_nat (x - (k + 1)))) by lia. reflexivity.
Qed.

Section Ragged.
Variable e : list (Z * Z).
Variable n : nat.
Hypothesis Hsorted : StronglySorted plt e.
Hypothesis Hrange : forall x, In x e -> 0 <= fst x < Z.of_nat n.

Let jl := map snd e.
Let jarr := zload jl 0 zempty.
Let cnt := bincount (map fst e).
Let idx := fwd_idx cnt n.

Lemma sorted_fst : StronglySorted (fun a b : Z * Z => fst a <= fst b) e.
Proof.
  clear Hrange. induction Hsorted as [|a l S IH F]; constructor; auto.
  apply Forall_forall. rewrite Forall_forall in F. intros x Hx. apply plt_fst. apply F; auto.
Qed.

Lemma slice_bound i : (nlt i e + neq i e <= length e)%nat.
Proof.
  pose proof (f_equal (@length _) (block i e sorted_fst)) as L. fold (neq i e) in L.
  rewrite firstn_length, skipn_length in L. pose proof (filter_len_le (fun x : Z * Z => fst x <? i) e) as B.
  unfold nlt, neq in *. lia.
Qed.

Theorem adj_of_spec i j : In j (adj_of jarr idx cnt i) <-> In (i, j) e.
Proof.
  unfold adj_of. rewrite in_map_iff.
  assert (Cn : getz cnt i = Z.of_nat (neq i e)) by apply bincount_spec.
  split.
  - intros [t [Ej Ht]]. apply zseq_In in Ht. rewrite Cn in Ht.
    assert (Hi : 0 <= i < Z.of_nat n).
    { destruct (neq i e) eqn:Q; [lia|]. unfold neq in Q.
      destruct (filter (fun x => fst x =? i) e) as [|x l] eqn:Fl; [discriminate|].
      assert (Hx : In x (filter (fun x => fst x =? i) e)) by (rewrite Fl; left; auto).
      apply filter_In in Hx as [Hx Ex]. specialize (Hrange x Hx). lia. }
    assert (Ix : getz idx i = Z.of_nat (nlt i e)).
    { apply fwd_idx_spec; [intros x Hx; specialize (Hrange x Hx); lia|exact Hi]. }
    rewrite Ix in Ej. pose proof (slice_bound i) as SB.
    unfold jarr in Ej. rewrite zload_spec, getz_empty in Ej. unfold jl in Ej. rewrite map_length in Ej.
    destruct ((0 <=? Z.of_nat (nlt i e) + t) && (Z.of_nat (nlt i e) + t <? 0 + Z.of_nat (length e))) eqn:B; [|lia].
    replace (Z.to_nat (Z.of_nat (nlt i e) + t - 0)) with (nlt i e + Z.to_nat t)%nat in Ej by lia.
    destruct (nth_error e (nlt i e + Z.to_nat t)) as [[a b]|] eqn:NE; [|apply nth_error_None in NE; lia].
    assert (Hin : In (a, b) (firstn (neq i e) (skipn (nlt i e) e))).
    { apply In_slice. exists (Z.to_nat t). split; [lia|exact NE]. }
    rewrite (block i e sorted_fst) in Hin. apply filter_In in Hin as [Hin Ea]. cbn [fst] in Ea.
    assert (a = i) by lia. subst a.
    assert (b = j); [|subst b; exact Hin].
    rewrite <- Ej. symmetry. apply nth_error_nth with (d := 0). rewrite nth_error_map, NE. reflexivity.
  - intros Hin. assert (Hi := Hrange _ Hin). cbn [fst] in Hi.
    assert (Ix : getz idx i = Z.of_nat (nlt i e)).
    { apply fwd_idx_spec; [intros x Hx; specialize (Hrange x Hx); lia|exact Hi]. }
    assert (Hf : In (i, j) (filter (fun x => fst x =? i) e)) by (apply filter_In; split; [auto|cbn [fst]; lia]).
    rewrite <- (block i e sorted_fst) in Hf. apply In_slice in Hf as [t [Ht NE]].
    exists (Z.of_nat t). split; [|apply zseq_In; lia].
    rewrite Ix. unfold jarr. rewrite zload_spec, getz_empty. unfold jl. rewrite map_length.
    assert (Lt : (nlt i e + t < length e)%nat) by (apply nth_error_Some; congruence).
    destruct ((0 <=? Z.of_nat (nlt i e) + Z.of_nat t) && (Z.of_nat (nlt i e) + Z.of_nat t <? 0 + Z.of_nat (length e))) eqn:B; [|lia].
    replace (Z.to_nat (Z.of_nat (nlt i e) + Z.of_nat t - 0)) with (nlt i e + t)%nat by lia.
    apply nth_error_nth with (d := 0). rewrite nth_error_map, NE. reflexivity.
Qed.

Lemma adj_of_length i : length (adj_of jarr idx cnt i) = neq i e.
Proof. unfold adj_of. rewrite map_length, zseq_length. unfold cnt. rewrite bincount_spec. lia. Qed.

(* sum of the degrees of regions 0 .. m-1 *)
Lemma degree_sum m : fold_right (fun v a => (neq v e + a)%nat) O (zseq 0 m) = nlt (Z.of_nat m) e.
Proof.
  assert (G : forall m lo, (fold_right (fun v a => (neq v e + a)%nat) O (zseq lo m) + nlt lo e = nlt (lo + Z.of_nat m) e)%nat).
  { induction m0 as [|k IH]; intros lo; cbn [zseq fold_right].
    - replace (lo + Z.of_nat 0) with lo by lia. reflexivity.
    - specialize (IH (lo + 1)). rewrite nlt_succ in IH. replace (lo + Z.of_nat (S k)) with (lo + 1 + Z.of_nat k) by lia. lia. }
  specialize (G m 0). rewrite nlt_zero in G by (intros x Hx; specialize (Hrange x Hx); lia). cbn [Z.add] in G. lia.
Qed.

Lemma degree_sum_all : fold_right (fun v a => (neq v e + a)%nat) O (zseq 0 n) = length e.
Proof. rewrite degree_sum. apply nlt_all. intros x Hx. specialize (Hrange x Hx). lia. Qed.

End Ragged.
