(* C06 — the sparse index path (prepare_for_index_lookup / index_lookup /
   extract_from_image_lookup on the border-padded copy) equals the neighbourhood rule for every
   erosive table, image shape, border value and iteration count. *)
From Coq Require Import ZArith List Bool Lia ZifyBool.
From Centro Require Import Base.Sx Base.LutBits Spec.LutRule Model.Lut Proofs.LutPlain Proofs.LutLoop.
Import ListNotations.
Open Scope Z_scope.

Lemma padded_px b X p q : padded b X p q = Z.b2z (px b X (p - 1) (q - 1)).
Proof. unfold padded, px, inr. decide_atoms; reflexivity. Qed.

Lemma b2z_eqb1 x : Z.b2z (Z.b2z x =? 1) = Z.b2z x.
Proof. destruct x; reflexivity. Qed.

Lemma il_indexer_enc b X (P : arr) i j :
  (forall a c, i - 1 <= a <= i + 1 -> j - 1 <= c <= j + 1 -> P a c = padded b X a c) ->
  px b X (i - 1) (j - 1) = true ->
  il_indexer P i j = enc (nbits b X (i - 1) (j - 1)).
Proof.
  intros HP C. unfold il_indexer. rewrite !HP by lia. rewrite !padded_px. rewrite C.
  change (Z.b2z true) with 1. rewrite !b2z_eqb1. unfold nbits. cbn [enc]. rewrite C.
  replace (j + 1 - 1) with (j - 1 + 1) by lia. replace (i + 1 - 1) with (i - 1 + 1) by lia.
  cbn [Z.b2z]. lia.
Qed.

(* bit 4 of the index is the centre bit *)
Lemma enc_center (l : list bool) : length l = 9%nat -> (Z.land (enc l) 16 =? 0) = negb (nth 4 l false).
Proof.
  intros L9. do 10 (destruct l as [|? l]; try discriminate L9).
  repeat match goal with x : bool |- _ => destruct x end; reflexivity.
Qed.

Lemma enc_bounds (l : list bool) : length l = 9%nat -> 0 <= enc l < 512.
Proof.
  intros L9. do 10 (destruct l as [|? l]; try discriminate L9).
  repeat match goal with x : bool |- _ => destruct x end; cbn; lia.
Qed.

Lemma erosive_step T b X p q : erosive T -> tbl T (enc (nbits b X p q)) = true -> px b X p q = true.
Proof.
  intros E HT. destruct (px b X p q) eqn:C; [reflexivity|]. exfalso.
  assert (L9 : length (nbits b X p q) = 9%nat) by reflexivity.
  pose proof (enc_center _ L9) as EC. cbn [nth nbits] in EC. rewrite C in EC. cbn [negb] in EC.
  rewrite (E _ (enc_bounds _ L9)) in HT; [discriminate|lia].
Qed.

Lemma il_clear_spec m : forall (P : arr) p q,
  il_clear P m p q =
  if existsb (fun ij => (fst ij <? 0) && (p =? - fst ij) && (q =? snd ij)) m then 0 else P p q.
Proof.
  induction m as [|ij m IH]; intros P p q; unfold il_clear in *; cbn [fold_left existsb]; [reflexivity|].
  rewrite IH. destruct (fst ij <? 0) eqn:N; cbn [andb orb]; [|reflexivity].
  destruct (existsb _ m); [destruct ((p =? - fst ij) && (q =? snd ij)); reflexivity|].
  destruct ((p =? - fst ij) && (q =? snd ij)); reflexivity.
Qed.

Lemma remat_in H2 W2 (P : arr) p q : 0 <= p < Z.of_nat H2 -> 0 <= q < Z.of_nat W2 -> remat H2 W2 P p q = P p q.
Proof. intros Hp Hq. unfold remat. apply rd_tab; assumption. Qed.

Section Pass.
Variables (T : list bool) (b : bool).
Hypothesis ET : erosive T.

Definition Inv (X : grid bool) (st : list (Z * Z) * arr) : Prop :=
  (forall i j, In (i, j) (fst st) <-> (1 <= i <= gH X /\ 1 <= j <= gW X /\ rd false X (i - 1) (j - 1) = true)) /\
  (forall p q, 0 <= p < gH X + 2 -> 0 <= q < gW X + 2 -> snd st p q = padded b X p q).

Lemma gH_step X : gH (lut_step T b X) = gH X.
Proof. unfold lut_step. rewrite gH_tab. reflexivity. Qed.
Lemma gW_step X : (0 < length X)%nat -> gW (lut_step T b X) = gW X.
Proof. intros L. unfold lut_step. rewrite gW_tab by exact L. reflexivity. Qed.

Lemma rd_step X p q : 0 <= p < gH X -> 0 <= q < gW X ->
  rd false (lut_step T b X) p q = tbl T (enc (nbits b X p q)).
Proof. intros Hp Hq. unfold lut_step. rewrite rd_tab by assumption. reflexivity. Qed.

Lemma px_in X p q : 0 <= p < gH X -> 0 <= q < gW X -> px b X p q = rd false X p q.
Proof. intros Hp Hq. unfold px, inr. decide_atoms; reflexivity. Qed.

Lemma mark_in_filter idx (P : arr) i j :
  (forall i' j', In (i', j') idx -> 1 <= i') ->
  In (i, j) (filter (fun ij => 0 <=? fst ij) (map (il_mark T P) idx)) <->
  In (i, j) idx /\ tbl T (il_indexer P i j) = true.
Proof.
  intros Pos. rewrite filter_In, in_map_iff. split.
  - intros [[[i' j'] [EM HIn]] F]. cbn [fst] in F. unfold il_mark in EM. cbn [fst snd] in EM.
    destruct (tbl T (il_indexer P i' j')) eqn:TT.
    + injection EM as <- <-. split; assumption.
    + injection EM as <- <-. specialize (Pos _ _ HIn). lia.
  - intros [HIn TT]. split.
    + exists (i, j). split; [|exact HIn]. unfold il_mark. cbn [fst snd]. rewrite TT. reflexivity.
    + cbn [fst]. specialize (Pos _ _ HIn). lia.
Qed.

Lemma marked_exists idx (P : arr) p q :
  (forall i' j', In (i', j') idx -> 1 <= i') ->
  existsb (fun ij => (fst ij <? 0) && (p =? - fst ij) && (q =? snd ij)) (map (il_mark T P) idx) = true <->
  In (p, q) idx /\ tbl T (il_indexer P p q) = false.
Proof.
  intros Pos. rewrite existsb_exists. split.
  - intros [[i0 j0] [HIn C]]. cbn [fst snd] in C. apply in_map_iff in HIn. destruct HIn as [[i' j'] [EM HIn]].
    unfold il_mark in EM. cbn [fst snd] in EM. specialize (Pos _ _ HIn).
    destruct (tbl T (il_indexer P i' j')) eqn:TT; injection EM as <- <-; [lia|].
    assert (p = i') by lia. assert (q = j') by lia. subst. split; assumption.
  - intros [HIn TT]. exists (- p, q). split.
    + apply in_map_iff. exists (p, q). split; [|exact HIn]. unfold il_mark. cbn [fst snd]. rewrite TT. reflexivity.
    + cbn [fst snd]. specialize (Pos _ _ HIn). lia.
Qed.

(* one pass of index_lookup = one synchronous application of the rule *)
Theorem il_pass_correct X st :
  (0 < length X)%nat -> Inv X st ->
  Inv (lut_step T b X) (il_pass (length X + 2) (length (hd [] X) + 2) T st).
Proof.
  intros LX [I1 I2]. destruct st as [idx P]. cbn [fst snd] in *.
  assert (Pos : forall i' j', In (i', j') idx -> 1 <= i') by (intros i' j' HIn; apply I1 in HIn; lia).
  assert (KEY : forall i j, In (i, j) idx -> il_indexer P i j = enc (nbits b X (i - 1) (j - 1))).
  { intros i j HIn. apply I1 in HIn. destruct HIn as [Hi [Hj Hs]].
    apply il_indexer_enc; [intros a c Ha Hc; apply I2; lia|].
    rewrite px_in by lia. exact Hs. }
  unfold il_pass, Inv. cbn [fst snd]. rewrite gH_step, (gW_step X LX). split.
  - intros i j. rewrite (mark_in_filter idx P i j Pos). split.
    + intros [HIn TT]. pose proof (proj1 (I1 i j) HIn) as [Hi [Hj Hs]].
      repeat split; try lia. rewrite rd_step by lia. rewrite <- (KEY i j HIn). exact TT.
    + intros [Hi [Hj Hs]]. rewrite rd_step in Hs by lia.
      assert (HIn : In (i, j) idx).
      { apply I1. repeat split; try lia. rewrite <- px_in by lia. apply (erosive_step T b X _ _ ET Hs). }
      split; [exact HIn|]. rewrite (KEY i j HIn). exact Hs.
  - intros p q Hp Hq. unfold gH, gW in Hp, Hq.
    rewrite remat_in by lia. rewrite il_clear_spec.
    destruct (existsb _ (map (il_mark T P) idx)) eqn:EX.
    + apply (marked_exists idx P p q Pos) in EX. destruct EX as [HIn TT].
      pose proof (proj1 (I1 p q) HIn) as [Hi [Hj Hs]].
      rewrite padded_px. rewrite px_in by (rewrite ?gH_step, ?(gW_step X LX); lia).
      rewrite rd_step by lia. rewrite <- (KEY p q HIn), TT. reflexivity.
    + rewrite I2 by (unfold gH, gW; lia). rewrite !padded_px.
      unfold px. rewrite gH_step, (gW_step X LX).
      destruct (inr (gH X) (gW X) (p - 1) (q - 1)) eqn:R; [|reflexivity].
      unfold inr in R. rewrite rd_step by lia.
      destruct (rd false X (p - 1) (q - 1)) eqn:Hs.
      * assert (HIn : In (p, q) idx) by (apply I1; repeat split; try lia; try exact Hs).
        destruct (tbl T (il_indexer P p q)) eqn:TT.
        -- rewrite <- (KEY p q HIn), TT. reflexivity.
        -- exfalso. assert (EX' : existsb (fun ij => (fst ij <? 0) && (p =? - fst ij) && (q =? snd ij)) (map (il_mark T P) idx) = true)
             by (apply (marked_exists idx P p q Pos); split; assumption).
           rewrite EX' in EX. discriminate.
      * destruct (tbl T (enc (nbits b X (p - 1) (q - 1)))) eqn:TT; [|reflexivity].
        apply (erosive_step T b X _ _ ET) in TT. rewrite px_in in TT by lia. congruence.
Qed.
End Pass.

(* ------------------------------------------------------------ the loop, entry and exit *)
Definition rect (X : grid bool) : Prop := wf (length X) (length (hd [] X)) X.

Lemma in_zrange n p : In p (zrange 0 n) <-> 0 <= p < Z.of_nat n.
Proof.
  unfold zrange. rewrite in_map_iff. split.
  - intros [k [<- Hk]]. apply in_seq in Hk. lia.
  - intros Hp. exists (Z.to_nat p). split; [lia|]. apply in_seq. lia.
Qed.

Lemma in_argwhere1 X i j :
  In (i, j) (argwhere1 X) <-> (1 <= i <= gH X /\ 1 <= j <= gW X /\ rd false X (i - 1) (j - 1) = true).
Proof.
  unfold argwhere1, gH, gW. rewrite in_flat_map. split.
  - intros [p [Hp HIn]]. apply in_flat_map in HIn. destruct HIn as [q [Hq HIn]].
    apply in_zrange in Hp. apply in_zrange in Hq.
    destruct (rd false X p q) eqn:S; [|destruct HIn].
    destruct HIn as [E|[]]. injection E as <- <-.
    replace (p + 1 - 1) with p by lia. replace (q + 1 - 1) with q by lia. repeat split; try lia; try exact S.
  - intros [Hi [Hj S]]. exists (i - 1). split; [apply in_zrange; lia|].
    apply in_flat_map. exists (j - 1). split; [apply in_zrange; lia|].
    rewrite S. left. f_equal; lia.
Qed.

Lemma filter_length_le {A} (f : A -> bool) l : (length (filter f l) <= length l)%nat.
Proof. induction l as [|a l IH]; cbn [filter length]; [lia|]. destruct (f a); cbn [length]; lia. Qed.

Lemma filter_length_all {A} (f : A -> bool) l : length (filter f l) = length l -> forall x, In x l -> f x = true.
Proof.
  induction l as [|a l IH]; intros L x HIn; [destruct HIn|].
  cbn [filter] in L. pose proof (filter_length_le f l) as LE. destruct (f a) eqn:Fa; cbn [length] in L.
  - destruct HIn as [<-|HIn]; [exact Fa|]. apply IH; [lia|exact HIn].
  - lia.
Qed.

Lemma filter_all {A} (f : A -> bool) l : (forall x, In x l -> f x = true) -> filter f l = l.
Proof.
  induction l as [|a l IH]; intros Hall; [reflexivity|]. cbn [filter].
  rewrite (Hall a (or_introl eq_refl)). f_equal. apply IH. intros x Hx. apply Hall. right. exact Hx.
Qed.

Lemma rect_step T b X : rect (lut_step T b X).
Proof.
  unfold rect, lut_step. destruct X as [|r X]; [split; [reflexivity|constructor]|].
  set (H := length (r :: X)). set (W := length (hd [] (r :: X))).
  assert (E1 : length (tab H W (fun p q => tbl T (enc (nbits b (r :: X) p q)))) = H)
    by (unfold tab; rewrite map_length, seq_length; reflexivity).
  assert (E2 : length (hd [] (tab H W (fun p q => tbl T (enc (nbits b (r :: X) p q))))) = W)
    by (unfold tab, H; cbn [length seq map hd]; rewrite map_length, seq_length; reflexivity).
  rewrite E1, E2. apply wf_tab.
Qed.

Lemma len_step T b X : length (lut_step T b X) = length X.
Proof. unfold lut_step, tab. rewrite map_length, seq_length. reflexivity. Qed.
Lemma lenW_step T b X : (0 < length X)%nat -> length (hd [] (lut_step T b X)) = length (hd [] X).
Proof.
  intros L. unfold lut_step, tab. destruct X as [|r X]; [cbn in L; lia|].
  cbn [length seq map hd]. rewrite map_length, seq_length. reflexivity.
Qed.

(* two rectangular images of the same shape with the same set pixels are equal *)
Lemma same_pixels X Y :
  rect X -> rect Y -> length Y = length X -> length (hd [] Y) = length (hd [] X) ->
  (forall p q, 0 <= p < gH X -> 0 <= q < gW X -> rd false Y p q = rd false X p q) -> Y = X.
Proof.
  intros RX RY L1 L2 E. unfold rect in *. rewrite L1, L2 in RY.
  apply (grid_ext false _ _ Y X RY RX). intros p q Hp Hq. apply E; unfold gH, gW; lia.
Qed.

Lemma lut_iter_fixed n T b X : lut_step T b X = X -> lut_iter n T b X = X.
Proof. intros FX. unfold lut_iter. apply iter_fixed. exact FX. Qed.
Lemma lut_iter_S n T b X : lut_iter (S n) T b X = lut_iter n T b (lut_step T b X).
Proof. reflexivity. Qed.

Section Loop.
Variables (T : list bool) (b : bool).
Hypothesis ET : erosive T.

Lemma Inv_init X : Inv b X (argwhere1 X, remat (length X + 2) (length (hd [] X) + 2) (padded b X)).
Proof.
  split; cbn [fst snd].
  - intros i j. apply in_argwhere1.
  - intros p q Hp Hq. unfold gH, gW in *. apply remat_in; lia.
Qed.

(* when a pass removes nothing the rule has left the image unchanged *)
Lemma pass_same_length X st :
  (0 < length X)%nat -> rect X -> Inv b X st ->
  length (fst (il_pass (length X + 2) (length (hd [] X) + 2) T st)) = length (fst st) ->
  lut_step T b X = X.
Proof.
  intros LX RX I L.
  pose proof (il_pass_correct T b ET X st LX I) as I'.
  destruct st as [idx P]. unfold il_pass in *. cbn [fst snd] in *.
  destruct I as [I1 _]. destruct I' as [I1' _]. cbn [fst] in I1, I1'.
  set (m := map (il_mark T P) idx) in *.
  assert (Lm : length m = length idx) by (unfold m; apply map_length).
  assert (All : forall x, In x m -> (0 <=? fst x) = true) by (apply filter_length_all; lia).
  rewrite (filter_all _ m All) in I1'.
  assert (Em : m = idx).
  { unfold m. rewrite <- (map_id idx) at 2. apply map_ext_in. intros [i j] HIn.
    assert (M : In (il_mark T P (i, j)) m) by (unfold m; apply in_map; exact HIn).
    apply All in M. unfold il_mark in *. cbn [fst snd] in *.
    destruct (tbl T (il_indexer P i j)); [reflexivity|]. cbn [fst] in M. apply I1 in HIn. lia. }
  rewrite Em in I1'.
  apply same_pixels; [exact RX|apply rect_step|apply len_step|apply lenW_step; exact LX|].
  intros p q Hp Hq.
  destruct (rd false X p q) eqn:S.
  - assert (HIn : In (p + 1, q + 1) idx).
    { apply I1. replace (p + 1 - 1) with p by lia. replace (q + 1 - 1) with q by lia. repeat split; try lia; try exact S. }
    apply I1' in HIn. destruct HIn as [_ [_ S']].
    replace (p + 1 - 1) with p in S' by lia. replace (q + 1 - 1) with q in S' by lia. exact S'.
  - destruct (rd false (lut_step T b X) p q) eqn:S'; [|reflexivity].
    assert (HIn : In (p + 1, q + 1) idx).
    { apply I1'. rewrite (gH_step T b), (gW_step T b X LX).
      replace (p + 1 - 1) with p by lia. replace (q + 1 - 1) with q by lia. repeat split; try lia; try exact S'. }
    apply I1 in HIn. destruct HIn as [_ [_ S2]].
    replace (p + 1 - 1) with p in S2 by lia. replace (q + 1 - 1) with q in S2 by lia. congruence.
Qed.

Lemma il_loop_correct n : forall X st H2 W2,
  (0 < length X)%nat -> rect X -> H2 = (length X + 2)%nat -> W2 = (length (hd [] X) + 2)%nat ->
  Inv b X st -> Inv b (lut_iter n T b X) (il_loop n H2 W2 T st).
Proof.
  induction n as [|n IH]; intros X st H2 W2 LX RX EH EW I; [exact I|].
  cbn [il_loop]. subst H2 W2.
  pose proof (il_pass_correct T b ET X st LX I) as I'.
  destruct (Nat.eqb _ _) eqn:EQ.
  - apply Nat.eqb_eq in EQ. pose proof (pass_same_length X st LX RX I EQ) as FX.
    rewrite (lut_iter_fixed (S n) T b X FX). rewrite FX in I'. exact I'.
  - rewrite lut_iter_S. apply IH.
    + rewrite len_step. exact LX.
    + apply rect_step.
    + rewrite len_step. reflexivity.
    + rewrite lenW_step by exact LX. reflexivity.
    + exact I'.
Qed.

Lemma pass_length_le (st : list (Z * Z) * arr) H2 W2 : (length (fst (il_pass H2 W2 T st)) <= length (fst st))%nat.
Proof.
  unfold il_pass. cbn [fst]. etransitivity; [apply filter_length_le|]. rewrite map_length. lia.
Qed.

(* as many passes as there are index entries always reach a fixed point *)
Lemma enough_passes n : forall X st,
  (0 < length X)%nat -> rect X -> Inv b X st -> (length (fst st) <= n)%nat ->
  lut_step T b (lut_iter n T b X) = lut_iter n T b X.
Proof.
  induction n as [|n IH]; intros X st LX RX I Ln.
  - (* no set pixel at all *)
    apply (pass_same_length X st LX RX I).
    destruct st as [idx P]. cbn [fst] in Ln. destruct idx; [reflexivity|cbn in Ln; lia].
  - pose proof (il_pass_correct T b ET X st LX I) as I'.
    pose proof (pass_length_le st (length X + 2) (length (hd [] X) + 2)) as LE.
    destruct (Nat.eq_dec (length (fst (il_pass (length X + 2) (length (hd [] X) + 2) T st))) (length (fst st))) as [EQ|NE].
    + pose proof (pass_same_length X st LX RX I EQ) as FX.
      rewrite (lut_iter_fixed (S n) T b X FX). exact FX.
    + rewrite lut_iter_S.
      apply (IH (lut_step T b X) (il_pass (length X + 2) (length (hd [] X) + 2) T st)).
      * rewrite len_step. exact LX.
      * apply rect_step.
      * exact I'.
      * lia.
Qed.

Lemma iter_shape n : forall X, (0 < length X)%nat ->
  length (lut_iter n T b X) = length X /\ length (hd [] (lut_iter n T b X)) = length (hd [] X) /\
  (rect X -> rect (lut_iter n T b X)) /\
  (forall p q, 0 <= p < gH X -> 0 <= q < gW X -> rd false (lut_iter n T b X) p q = true -> rd false X p q = true).
Proof.
  induction n as [|n IH]; intros X LX;
    [split; [reflexivity|split; [reflexivity|split; [intros R; exact R|intros p q _ _ S; exact S]]]|].
  rewrite lut_iter_S.
  assert (LY : (0 < length (lut_step T b X))%nat) by (rewrite len_step; exact LX).
  destruct (IH _ LY) as [E1 [E2 [E3 E4]]]. rewrite len_step in E1. rewrite lenW_step in E2 by exact LX.
  split; [exact E1|split; [exact E2|split; [intros _; apply E3, rect_step|]]].
  intros p q Hp Hq S. apply E4 in S; [|rewrite gH_step; exact Hp|rewrite (gW_step T b X LX); exact Hq].
  rewrite rd_step in S by assumption. apply (erosive_step T b X _ _ ET) in S. rewrite px_in in S by assumption. exact S.
Qed.

Lemma extract_correct X Y idx :
  (0 < length X)%nat -> rect Y -> length Y = length X -> length (hd [] Y) = length (hd [] X) ->
  (forall i j, In (i, j) idx <-> (1 <= i <= gH Y /\ 1 <= j <= gW Y /\ rd false Y (i - 1) (j - 1) = true)) ->
  (forall p q, 0 <= p < gH X -> 0 <= q < gW X -> rd false Y p q = true -> rd false X p q = true) ->
  extract X idx = Y.
Proof.
  intros LX RY L1 L2 I1 Sub. unfold extract. unfold rect in RY. rewrite L1, L2 in RY.
  apply (grid_ext false _ _ _ Y (wf_tab _ _ _) RY). intros p q Hp Hq. rewrite rd_tab by assumption.
  assert (GH : gH Y = gH X) by (unfold gH; lia). assert (GW : gW Y = gW X) by (unfold gW; lia).
  destruct (existsb _ idx) eqn:EX.
  - apply existsb_exists in EX. destruct EX as [[i j] [HIn C]]. cbn [fst snd] in C.
    apply I1 in HIn. destruct HIn as [Hi [Hj S]].
    assert (i - 1 = p) by lia. assert (j - 1 = q) by lia. subst p q.
    rewrite S. apply Sub; unfold gH, gW; try lia; try exact S.
  - destruct (rd false Y p q) eqn:S; [|reflexivity]. exfalso.
    assert (HIn : In (p + 1, q + 1) idx).
    { apply I1. replace (p + 1 - 1) with p by lia. replace (q + 1 - 1) with q by lia. repeat split; unfold gH, gW; try lia; try exact S. }
    assert (EX' : existsb (fun ij => (fst ij - 1 =? p) && (snd ij - 1 =? q)) idx = true).
    { apply existsb_exists. exists (p + 1, q + 1). split; [exact HIn|]. cbn [fst snd]. lia. }
    rewrite EX' in EX. discriminate.
Qed.

Lemma sparse_n n X :
  (0 < length X)%nat -> rect X ->
  extract X (fst (il_loop n (length X + 2) (length (hd [] X) + 2) T
                          (argwhere1 X, remat (length X + 2) (length (hd [] X) + 2) (padded b X))))
  = lut_iter n T b X.
Proof.
  intros LX RX.
  pose proof (il_loop_correct n X _ _ _ LX RX eq_refl eq_refl (Inv_init X)) as [I1 _].
  destruct (iter_shape n X LX) as [E1 [E2 [E3 E4]]].
  apply extract_correct; auto.
Qed.

(* Full: k iterations through the sparse path = k applications of the rule *)
Theorem sparse_k_correct k X :
  (0 < length X)%nat -> rect X -> sparse T b (Some k) X = lut_iter k T b X.
Proof. intros LX RX. unfold sparse, index_lookup. cbn [fst]. apply sparse_n; assumption. Qed.

(* Full: iterations=None (as many passes as there are set pixels) reaches the fixed point *)
Theorem sparse_none_correct X :
  (0 < length X)%nat -> rect X ->
  let n := length (argwhere1 X) in
  sparse T b None X = lut_iter n T b X /\ lut_step T b (lut_iter n T b X) = lut_iter n T b X.
Proof.
  intros LX RX n. split.
  - unfold sparse, index_lookup. cbn [fst]. apply sparse_n; assumption.
  - apply (enough_passes n X _ LX RX (Inv_init X)). cbn [fst]. unfold n. lia.
Qed.
End Loop.
