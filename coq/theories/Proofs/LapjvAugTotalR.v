(* C01 / C19-facing — aug_scan_nonempty for the reference variant (true infinity): at a loop head of the Dijkstra loop that
   satisfies the invariant K with the edge families Fd / Gd, a rebuild of scan is never empty when the input has no Hall
   block (has_PM): every candidate of the free row and of the rows of ready columns has a finite d (a finite relaxation always
   lowers an untouched +inf), hence is on to_do or in ready; if every to_do column were done, these rows - |ready| + 1 of them
   - would have all their candidates among the |ready| ready columns. *)
From Coq Require Import ZArith List Bool Lia ZifyBool Arith.
From Centro Require Import Base.Sx Model.Lapjv Spec.Lapjv Proofs.LapjvPhases Proofs.LapjvArr Proofs.LapjvAugMarks
  Proofs.LapjvAugFlip Proofs.LapjvAugPrice Proofs.LapjvAugDist Proofs.LapjvAugDistR.
Import ListNotations.
Open Scope Z_scope.

Section TotalR.
Variables (r n : nat) (rows : list (list (nat * ext))) (x y : list nat) (v : list ext).
Hypothesis Rfin : forall i j c, In (j, c) (row rows i) -> (j < n)%nat /\ exists z, c = Fin z.
Hypothesis HInv : Inv n rows x y v.
Hypothesis NoBlock : forall L C : list nat, NoDup L -> (forall i, In i L -> (i < n)%nat) ->
  (forall i j c, In i L -> In (j, c) (row rows i) -> In j C) -> (length L <= length C)%nat.

Lemma aug_min_acc d done : forall todo um acc, acc <> [] -> snd (aug_min r n d done todo um acc) <> [].
Proof.
  induction todo as [|j tr IH]; intros um acc Ha; cbn [aug_min]; auto.
  destruct (getn done j n =? r)%nat; [apply IH; auto|].
  destruct (eleb (gete d j) um); [|apply IH; auto].
  destruct (eltb (gete d j) um); apply IH; [discriminate|destruct acc; discriminate].
Qed.

Lemma aug_min_eligible d done : forall todo,
  (exists j, In j todo /\ getn done j n <> r /\ fin d j) ->
  snd (aug_min r n d done todo PInf []) <> [].
Proof.
  induction todo as [|j tr IH]; intros [j0 [Hin [Nd [z Hz]]]]; [destruct Hin|]. cbn [aug_min].
  destruct Hin as [E0|Hin].
  - rewrite E0. destruct (Nat.eqb_spec (getn done j0 n) r) as [E|NE]; [contradiction|].
    rewrite Hz. cbn [eleb eltb]. apply aug_min_acc. discriminate.
  - destruct (getn done j n =? r)%nat; [apply IH; exists j0; split; auto; split; auto; exists z; auto|].
    destruct (eleb (gete d j) PInf); [|apply IH; exists j0; split; auto; split; auto; exists z; auto].
    destruct (eltb (gete d j) PInf); apply aug_min_acc; discriminate.
Qed.

(* the Hall argument *)
Theorem rebuild_nonempty s mu : FinV n v -> (r < n)%nat -> free n y r ->
  K r n rows y v s mu -> Fd r rows v (g_d s) -> Gd n rows y v (g_d s) (g_ready s) -> g_scan s = [] ->
  snd (aug_min r n (g_d s) (g_done s) (g_todo s) PInf []) <> [].
Proof.
  intros FV Hr Fr HK HF HG ES. pose proof HInv as [Lx [Ly [_ SL]]].
  assert (D : (exists j, In j (g_todo s) /\ getn (g_done s) j n <> r) \/ (forall j, In j (g_todo s) -> getn (g_done s) j n = r)).
  { induction (g_todo s) as [|a l IHl]; [right; intros ? []|].
    destruct IHl as [[j [A B]]|A]; [left; exists j; split; auto; right; auto|].
    destruct (Nat.eq_dec (getn (g_done s) a n) r) as [E|NE]; [right; intros j [E0|H]; [rewrite <- E0|]; auto|left; exists a; split; auto; left; auto]. }
  destruct D as [[j [Hj Nd]]|AllDone].
  { apply aug_min_eligible. exists j. split; auto. split; auto. apply (k_tfin r n rows y v s mu HK). apply in3; auto. }
  (* every to_do column is done, hence in ready: Hall block *)
  intros _. exfalso.
  assert (Cand : forall j, (j < n)%nat -> fin (g_d s) j -> In j (g_ready s)).
  { intros j Hj Fj. destruct (in_dec Nat.eq_dec j (g_todo s)) as [Hin|Nin].
    - pose proof (k_done r n rows y v s mu HK j Hj (AllDone j Hin)) as H. rewrite ES, app_nil_r in H. exact H.
    - destruct (in_dec Nat.eq_dec j (g_ready s)) as [Hr'|Nr]; auto. exfalso.
      assert (E : gete (g_d s) j = PInf) by (apply (k_untouched r n rows y v s mu HK j Hj Nin); rewrite ES, app_nil_r; exact Nr).
      destruct Fj as [z Hz]. congruence. }
  destruct (k_marks r n rows y v s mu HK) as [_ [_ [_ [_ [Nrs Hrs]]]]]. rewrite ES, app_nil_r in Nrs, Hrs.
  assert (Asg : forall j, In j (g_ready s) -> getn y j n <> n) by (intros j Hj; apply (k_asg r n rows y v s mu HK); apply in_app_iff; left; auto).
  assert (Len : (length (r :: map (fun j => getn y j n) (g_ready s)) <= length (g_ready s))%nat).
  { apply NoBlock.
    - constructor.
      + intros Hin. apply in_map_iff in Hin as [j [E Hj]]. apply (Fr j (proj1 (Hrs j Hj)) E).
      + clear - Nrs Hrs Asg SL. induction (g_ready s) as [|a l IHl]; cbn [map]; [constructor|].
        inversion Nrs as [|? ? Nin Nl]; subst. constructor; [|apply IHl; auto; intros; [apply Hrs|apply Asg]; right; auto].
        intros Hin. apply in_map_iff in Hin as [b [E Hb]].
        destruct (SL a _ (proj1 (Hrs a (or_introl eq_refl))) eq_refl (Asg a (or_introl eq_refl))) as [_ [Xa _]].
        destruct (SL b _ (proj1 (Hrs b (or_intror Hb))) eq_refl (Asg b (or_intror Hb))) as [_ [Xb _]].
        rewrite E in Xb. assert (Eab : a = b) by congruence. apply Nin. rewrite Eab. exact Hb.
    - intros i [<-|Hi]; auto. apply in_map_iff in Hi as [j [<- Hj]].
      destruct (SL j _ (proj1 (Hrs j Hj)) eq_refl (Asg j Hj)) as [A _]. exact A.
    - intros i j c [<-|Hi] Hc; destruct (Rfin _ _ _ Hc) as [Hj [z ->]].
      + apply Cand; auto. apply (HF j z Hc).
      + apply in_map_iff in Hi as [jh [<- Hjh]]. apply Cand; auto.
        destruct (SL jh _ (proj1 (Hrs jh Hjh)) eq_refl (Asg jh Hjh)) as [_ [_ [ch [Hch _]]]].
        apply (HG jh j z ch Hjh Hc Hch). }
  cbn [length] in Len. rewrite map_length in Len. lia.
Qed.

(* the Dijkstra loop of the reference variant always returns *)
Hypothesis Rnodup : forall i, NoDup (map fst (row rows i)).
Hypothesis Lookup : forall i j c, In (j, c) (row rows i) -> cost_at (rowget rows i) j <> None.

Theorem aug_loop_totalR : FinV n v -> (r < n)%nat -> free n y r -> forall fuel s mu,
  K r n rows y v s mu -> Fd r rows v (g_d s) -> Gd n rows y v (g_d s) (g_ready s) ->
  (n < fuel + length (g_ready s))%nat ->
  exists res, aug_loop fuel r n PInf rows y v s = Some res.
Proof.
  intros FV Hr Fr. pose proof HInv as [Lx [Ly [_ SL]]].
  induction fuel as [|f IH]; intros s mu HK HF HG Hf.
  - exfalso. destruct (Bounds_lengths n s (Marks_Bounds r n s (k_marks r n rows y v s mu HK))) as [_ B]. lia.
  - destruct (aug_iterR r n rows x y v Rfin Rnodup HInv FV f s mu HK HF HG)
      as [[s' [j1 E]]|[[[ES EM]|[jh [Hjh [Asg EC]]]]|[s3 [m3 [K3 [F3 [G3 [L3 E]]]]]]]].
    + eauto.
    + exfalso. exact (rebuild_nonempty s mu FV Hr Fr HK HF HG ES EM).
    + exfalso. destruct (SL jh _ Hjh eq_refl Asg) as [_ [_ [c [Hc _]]]]. exact (Lookup _ _ _ Hc EC).
    + rewrite E. apply (IH s3 m3 K3 F3 G3). lia.
Qed.
End TotalR.
