(* C05 - [TopoEq] implies equal numbers of foreground components and of background components
   (hence of holes, hence equal Euler number), phrased with lists of representatives
   ([comp_reps], Spec/TopoCheck.v): a complete irredundant list of representatives of the
   8-components of X is matched, element by element, by one for X', and conversely for the
   4-components of the backgrounds. *)
From Coq Require Import ZArith List Bool Lia.
From Centro Require Import Base.Topo Spec.TopoCheck.
Import ListNotations.
Open Scope Z_scope.

Lemma path_sym (R : px -> px -> Prop) (P : px -> Prop) : (forall a b, R a b -> R b a) ->
  forall a b, path R P a b -> path R P b a.
Proof.
  intros HR a b H. induction H as [a Ha | a b c Ha Hab Hbc IH]; [apply path_refl; exact Ha|].
  eapply path_trans; [exact IH|].
  eapply path_step; [eapply path_start; exact Hbc | apply HR; exact Hab | apply path_refl; exact Ha].
Qed.

Lemma conn8_sym X a b : conn8 X a b -> conn8 X b a.
Proof. apply path_sym. exact adj8_sym. Qed.
Lemma conn4_sym X a b : conn4 X a b -> conn4 X b a.
Proof. apply path_sym. exact adj4_sym. Qed.

Lemma Forall2_length' {A B} (R : A -> B -> Prop) l l' : Forall2 R l l' -> length l' = length l.
Proof. induction 1; cbn; congruence. Qed.

Lemma Forall_transfer {A} (S : A -> A -> Prop) (NA NB : A -> Prop) l l' :
  Forall2 S l l' -> (forall a b, S a b -> NA a -> NB b) -> Forall NA l -> Forall NB l'.
Proof.
  intros F2 H. induction F2 as [|a b l l' Sab F2 IH]; intros HF; constructor; inversion HF; subst; eauto.
Qed.

Lemma pairwise_transfer {A} (S : A -> A -> Prop) (NA NB : A -> A -> Prop) l l' :
  Forall2 S l l' -> (forall a1 a2 b1 b2, S a1 b1 -> S a2 b2 -> NA a1 a2 -> NB b1 b2) ->
  pairwise NA l -> pairwise NB l'.
Proof.
  intros F2 H. induction F2 as [|a b l l' Sab F2 IH]; intros HP; cbn [pairwise] in *; [exact I|].
  destruct HP as [HPa HPr]. split; [|apply IH; exact HPr].
  eapply Forall_transfer; [exact F2| |exact HPa]. intros a2 b2 S2 N. eapply H; eassumption.
Qed.

Lemma Forall2_in_l {A} (S : A -> A -> Prop) l l' r : Forall2 S l l' -> In r l -> exists r', In r' l' /\ S r r'.
Proof.
  intros F2. induction F2 as [|a b l l' Sab F2 IH]; intros Hr; [destruct Hr|].
  destruct Hr as [->|Hr]; [exists b; split; [left; reflexivity|exact Sab]|].
  destruct (IH Hr) as [r' [H1 H2]]. exists r'. split; [right; exact H1|exact H2].
Qed.

Lemma Forall2_build {A} (P : A -> Prop) (S : A -> A -> Prop) l :
  (forall a, P a -> exists b, S a b) -> Forall P l -> exists l', Forall2 S l l'.
Proof.
  intros H. induction l as [|a l IH]; intros HF; [exists []; constructor|].
  inversion HF as [|? ? Ha HF']; subst. destruct (IH HF') as [l' Hl']. destruct (H a Ha) as [b Hb].
  exists (b :: l'). constructor; assumption.
Qed.

Lemma Forall2_weaken {A} (S S' : A -> A -> Prop) l l' : (forall a b, S a b -> S' a b) -> Forall2 S l l' -> Forall2 S' l l'.
Proof. intros H F2. induction F2; constructor; auto. Qed.

Theorem topo_counts_fg X X' : TopoEq X X' -> forall l, comp_reps adj8 (fg X) l ->
  exists l', length l' = length l /\ comp_reps adj8 (fg X') l' /\ Forall2 (conn8 X) l l'.
Proof.
  intros T l [HF [HP HC]].
  destruct (Forall2_build (fg X) (fun a b => fg X' b /\ conn8 X a b) l (te_fg_surj _ _ T) HF) as [l' F2].
  exists l'. split; [eapply Forall2_length'; exact F2|]. split; [split; [|split]|].
  - eapply Forall_transfer with (NA := fun _ => True); [exact F2| |apply Forall_forall; intros; exact I].
    intros a b [Hb _] _. exact Hb.
  - eapply pairwise_transfer; [exact F2| |exact HP].
    intros a1 a2 b1 b2 [Hb1 H1] [Hb2 H2] N C. apply N.
    apply (te_fg_iff _ _ T b1 b2 Hb1 Hb2) in C.
    eapply path_trans; [exact H1|]. eapply path_trans; [exact C|]. apply conn8_sym. exact H2.
  - intros c Hc. pose proof (te_sub _ _ T c Hc) as HcX. destruct (HC c HcX) as [r [Hr Hcr]].
    destruct (Forall2_in_l _ _ _ r F2 Hr) as [b [Hb [Hfb Hrb]]]. exists b. split; [exact Hb|].
    apply (te_fg_iff _ _ T c b Hc Hfb). eapply path_trans; eassumption.
  - eapply Forall2_weaken; [|exact F2]. intros a b [_ H]. exact H.
Qed.

Lemma sub_bg X X' : TopoEq X X' -> forall c, bg X c -> bg X' c.
Proof.
  intros T c Hc. unfold bg in *. destruct (X' c) eqn:E; [|reflexivity].
  apply (te_sub _ _ T) in E. unfold fg in E. congruence.
Qed.

Theorem topo_counts_bg X X' : TopoEq X X' -> forall l', comp_reps adj4 (bg X') l' ->
  exists l, length l = length l' /\ comp_reps adj4 (bg X) l /\ Forall2 (conn4 X') l' l.
Proof.
  intros T l' [HF [HP HC]].
  destruct (Forall2_build (bg X') (fun a b => bg X b /\ conn4 X' a b) l' (te_bg_surj _ _ T) HF) as [l F2].
  exists l. split; [eapply Forall2_length'; exact F2|]. split; [split; [|split]|].
  - eapply Forall_transfer with (NA := fun _ => True); [exact F2| |apply Forall_forall; intros; exact I].
    intros a b [Hb _] _. exact Hb.
  - eapply pairwise_transfer; [exact F2| |exact HP].
    intros a1 a2 b1 b2 [Hb1 H1] [Hb2 H2] N C. apply N.
    apply (te_bg_iff _ _ T b1 b2 Hb1 Hb2) in C.
    eapply path_trans; [exact H1|]. eapply path_trans; [exact C|]. apply conn4_sym. exact H2.
  - intros c Hc. pose proof (sub_bg _ _ T c Hc) as HcX'. destruct (HC c HcX') as [r [Hr Hcr]].
    destruct (Forall2_in_l _ _ _ r F2 Hr) as [b [Hb [Hfb Hrb]]]. exists b. split; [exact Hb|].
    apply (te_bg_iff _ _ T c b Hc Hfb). eapply path_trans; eassumption.
  - eapply Forall2_weaken; [|exact F2]. intros a b [_ H]. exact H.
Qed.

(* the hypotheses are satisfiable on a non-trivial image: two diagonal pixels form ONE 8-component *)
Example comp_reps_example :
  comp_reps adj8 (fg (fun p => px_eqb p (0,0) || px_eqb p (1,1))) [(0,0)].
Proof.
  split; [|split].
  - constructor; [reflexivity|constructor].
  - cbn. split; [constructor|exact I].
  - intros a Ha. exists (0,0). split; [left; reflexivity|].
    unfold fg in Ha. apply orb_true_iff in Ha as [Ha|Ha].
    + destruct (px_eqb_spec a (0,0)); [subst; apply path_refl; reflexivity|discriminate].
    + destruct (px_eqb_spec a (1,1)); [subst|discriminate].
      eapply path_step; [reflexivity| |apply path_refl; reflexivity].
      unfold adj8; cbn. repeat split; try lia. discriminate.
Qed.

(* ... and for the background: the empty image has exactly one background component *)
Lemma walk_rows (P : px -> Prop) (all : forall q, P q) j i n : path adj4 P (i + Z.of_nat n, j) (i, j).
Proof.
  induction n as [|n IH].
  - replace (i + Z.of_nat 0) with i by lia. apply path_refl. apply all.
  - eapply path_step; [apply all| |exact IH]. unfold adj4; cbn [fst snd]. lia.
Qed.
Lemma walk_cols (P : px -> Prop) (all : forall q, P q) i j n : path adj4 P (i, j + Z.of_nat n) (i, j).
Proof.
  induction n as [|n IH].
  - replace (j + Z.of_nat 0) with j by lia. apply path_refl. apply all.
  - eapply path_step; [apply all| |exact IH]. unfold adj4; cbn [fst snd]. lia.
Qed.
Lemma walk_row_any (P : px -> Prop) (all : forall q, P q) j i : path adj4 P (i, j) (0, j).
Proof.
  destruct (Z_le_gt_dec 0 i) as [Hi|Hi].
  - pose proof (walk_rows P all j 0 (Z.to_nat i)) as W. rewrite Z2Nat.id in W by lia. exact W.
  - apply (path_sym adj4 P adj4_sym).
    pose proof (walk_rows P all j i (Z.to_nat (- i))) as W. rewrite Z2Nat.id in W by lia.
    replace (i + - i) with 0 in W by lia. exact W.
Qed.
Lemma walk_col_any (P : px -> Prop) (all : forall q, P q) i j : path adj4 P (i, j) (i, 0).
Proof.
  destruct (Z_le_gt_dec 0 j) as [Hj|Hj].
  - pose proof (walk_cols P all i 0 (Z.to_nat j)) as W. rewrite Z2Nat.id in W by lia. exact W.
  - apply (path_sym adj4 P adj4_sym).
    pose proof (walk_cols P all i j (Z.to_nat (- j))) as W. rewrite Z2Nat.id in W by lia.
    replace (j + - j) with 0 in W by lia. exact W.
Qed.
Example comp_reps_bg_example : comp_reps adj4 (bg (fun _ => false)) [(0,0)].
Proof.
  split; [|split].
  - constructor; [reflexivity|constructor].
  - cbn. split; [constructor|exact I].
  - intros [i j] _. exists (0,0). split; [left; reflexivity|].
    eapply path_trans; [apply walk_row_any|apply walk_col_any]; intros q; reflexivity.
Qed.
