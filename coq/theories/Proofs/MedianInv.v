(* C07 — the sliding invariant, global part (kernel_inv): the state invariant of the two loops of
   c_median_filter, threaded through fold_left with the step theorems of MedianStep.v.
   Slots s row c : columns -R..c of row [row] are processed; every field of the circular buffer
                   holds the histogram of the piece it stands for (this row's piece for the
                   columns done, the previous row's for the others, the entering pieces empty).
   AccFine s row c : the accumulator's coarse bins and count are those of window (row, c); fine
                   block f is that of window (row, last_update_column[f]). *)
From Coq Require Import ZArith List Bool Lia ZifyBool.
From Centro Require Import Base.Sx Model.Median Spec.MedianSpec Proofs.MedianCheck Proofs.MedianHist
  Proofs.MedianGeom Proofs.MedianSlide Proofs.MedianStep.
Import ListNotations.
Open Scope Z_scope.

Section Inv.
  Variable e : env.
  Hypothesis Ha : 1 <= e_a2 e.
  Hypothesis HR : e_a2 e < e_R e.
  Hypothesis HD : Data8 e.
  Hypothesis Hsw : e_sweep e = e_R e.
  Hypothesis HSL : e_SL e = e_cols e + 2 * e_R e + 1.
  Hypothesis Hcols : 0 <= e_cols e.
  Hypothesis Hrows : 0 <= e_rows e.
  (* every window holds fewer than 65536 unmasked pixels (uint16 bins) *)
  Hypothesis HW : forall c row, hN e (Soct e c row) < M16.

  Lemma SL_pos : 0 < e_SL e. Proof. lia. Qed.

  (* ---------------------------------------------------------------- small facts *)

  Lemma SlotIs_ext cl k S S' : (forall q, cnt e S q = cnt e S' q) -> SlotIs e cl k S -> SlotIs e cl k S'.
  Proof.
    intros E (HC & HF & HN). unfold SlotIs, hC, hF, hN in *. split; [|split].
    - eapply BinsAre_ext; [|exact HC]. intros; apply E.
    - eapply BinsAre_ext; [|exact HF]. intros; apply E.
    - rewrite HN. f_equal. apply E.
  Qed.

  Lemma BinsAre_zero n h : (forall i, h i = 0) -> BinsAre n (repeat 0 n) h.
  Proof.
    intros Hh. split; [apply repeat_length|]. intros i Hi. rewrite Hh. unfold getz.
    rewrite nth_repeat. reflexivity.
  Qed.

  Lemma SlotIs_zero cl k S : get_p k cl = piece0 -> get_n k cl = 0 -> (forall q, cnt e S q = 0) -> SlotIs e cl k S.
  Proof.
    intros E1 E2 HS. unfold SlotIs. rewrite E1, E2. unfold piece0. cbn [coarse fine]. split; [|split].
    - apply BinsAre_zero. intros; apply HS.
    - apply BinsAre_zero. intros; apply HS.
    - unfold hN. rewrite HS. reflexivity.
  Qed.

  Lemma TL_right_empty cc r q : e_cols e + e_R e <= cc -> cnt e (at_ (bTL e) cc r) q = 0.
  Proof. intros H. apply cnt_outside. intros x y Hx Hy. unfold at_, bTL, MedianSlide.R, MedianSlide.a2. lia. Qed.
  Lemma BR_right_empty cc r q : e_cols e + e_R e <= cc -> cnt e (at_ (bBR e) cc r) q = 0.
  Proof. intros H. apply cnt_outside. intros x y Hx Hy. unfold at_, bBR, MedianSlide.R, MedianSlide.a2. lia. Qed.
  Lemma TR_left_empty cc r q : cc <= - e_R e - 1 -> cnt e (at_ (bTR e) cc r) q = 0.
  Proof. intros H. apply cnt_outside. intros x y Hx Hy. unfold at_, bTR, MedianSlide.R, MedianSlide.a2. lia. Qed.
  Lemma BL_left_empty cc r q : cc <= - e_R e - 1 -> cnt e (at_ (bBL e) cc r) q = 0.
  Proof. intros H. apply cnt_outside. intros x y Hx Hy. unfold at_, bBL, MedianSlide.R, MedianSlide.a2. lia. Qed.
  Lemma ED_left_empty cc r q : cc <= - e_R e - 1 -> cnt e (at_ (bED e) cc r) q = 0.
  Proof. intros H. apply cnt_outside. intros x y Hx Hy. unfold at_, bED, MedianSlide.R, MedianSlide.a2. lia. Qed.
  Lemma above_empty (b : Z -> Z -> bool) cc r q :
    (forall dx dy, b dx dy = true -> dy <= e_R e) -> r <= - e_R e - 1 -> cnt e (at_ b cc r) q = 0.
  Proof.
    intros Hb H. apply cnt_outside. intros x y Hx Hy. unfold at_.
    destruct (b (x - cc) (y - r)) eqn:E; [|reflexivity]. specialize (Hb _ _ E). lia.
  Qed.
  Lemma bTL_dy dx dy : bTL e dx dy = true -> dy <= e_R e.
  Proof. unfold bTL, MedianSlide.R, MedianSlide.a2. lia. Qed.
  Lemma bTR_dy dx dy : bTR e dx dy = true -> dy <= e_R e.
  Proof. unfold bTR, MedianSlide.R, MedianSlide.a2. lia. Qed.
  Lemma bBL_dy dx dy : bBL e dx dy = true -> dy <= e_R e.
  Proof. unfold bBL, MedianSlide.R, MedianSlide.a2. lia. Qed.
  Lemma bBR_dy dx dy : bBR e dx dy = true -> dy <= e_R e.
  Proof. unfold bBR, MedianSlide.R, MedianSlide.a2. lia. Qed.
  Lemma bED_dy dx dy : bED e dx dy = true -> dy <= e_R e.
  Proof. unfold bED, MedianSlide.R, MedianSlide.a2. lia. Qed.

  (* slot indices of one row are pairwise distinct on a range of stripe_length columns *)
  Lemma tl_br_inj row c c' : Z.abs (c - c') < e_SL e -> tl_br e row c = tl_br e row c' -> c = c'.
  Proof. intros H E. unfold tl_br in E. apply mod_inj in E; lia. Qed.
  Lemma tr_bl_inj row c c' : Z.abs (c - c') < e_SL e -> tr_bl e row c = tr_bl e row c' -> c = c'.
  Proof. intros H E. unfold tr_bl in E. apply mod_inj in E; lia. Qed.
  Lemma lead_inj c c' : Z.abs (c - c') < e_SL e -> lead_ix e c = lead_ix e c' -> c = c'.
  Proof. intros H E. unfold lead_ix in E. apply mod_inj in E; lia. Qed.
  Lemma ix_nonneg row c : 0 <= tl_br e row c < e_SL e /\ 0 <= tr_bl e row c < e_SL e /\ 0 <= lead_ix e c < e_SL e.
  Proof. unfold tl_br, tr_bl, lead_ix. repeat split; apply Z.mod_pos_bound; lia. Qed.

  (* ---------------------------------------------------------------- contents of the buffer *)

  Definition CTL (row c c' : Z) := if c' <=? c then at_ (bTL e) c' row else at_ (bTL e) (c' + 1) (row - 1).
  Definition CBR (row c c' : Z) := if c' <=? c then at_ (bBR e) c' row else at_ (bBR e) (c' + 1) (row - 1).
  Definition CTR (row c c' : Z) := if c' <=? c then at_ (bTR e) c' row else at_ (bTR e) (c' - 1) (row - 1).
  Definition CBL (row c c' : Z) := if c' <=? c then at_ (bBL e) c' row else at_ (bBL e) (c' - 1) (row - 1).
  Definition CED (row c c' : Z) := if c' <=? c then at_ (bED e) c' row else at_ (bED e) c' (row - 1).

  Definition Slots (s : st) (row c : Z) : Prop :=
    length (s_cols s) = Z.to_nat (e_SL e) /\
    (forall c', - e_R e <= c' <= e_cols e + e_R e ->
       SlotIs e (slot s (tl_br e row c')) TL (CTL row c c') /\ SlotIs e (slot s (tl_br e row c')) BR (CBR row c c')) /\
    (forall c', - e_R e - 1 <= c' <= e_cols e + e_R e - 1 ->
       SlotIs e (slot s (tr_bl e row c')) TR (CTR row c c') /\ SlotIs e (slot s (tr_bl e row c')) BL (CBL row c c')) /\
    (forall c', - e_R e - 1 <= c' <= e_cols e + e_R e - 1 ->
       SlotIs e (slot s (lead_ix e c')) ED (CED row c c')).

  Ltac cases_leb := repeat match goal with |- context [?a <=? ?b] => destruct (Z.leb_spec a b) end; try lia; try reflexivity.

  (* ---------------------------------------------------------------- update_current_location at column c *)
  Lemma slots_step (s : st) (row c : Z) :
    - e_R e <= c <= e_cols e + e_R e - 1 -> s_row s = row -> Slots s row (c - 1) ->
    let s' := update_loc e (set_col s c) in
    Slots s' row c /\ s_row s' = row /\ s_col s' = c /\ s_acc s' = s_acc s /\ s_accn s' = s_accn s /\ s_last s' = s_last s.
  Proof.
    intros Hc Hrow (HL & HTLBR & HTRBL & HEDs). cbv zeta.
    set (s0 := set_col s c).
    assert (Ec : s_col s0 = c) by reflexivity. assert (Er : s_row s0 = row) by exact Hrow.
    assert (Esl : forall o, slot s0 o = slot s o) by reflexivity.
    destruct (HTLBR c ltac:(lia)) as [P1 P4]. destruct (HTRBL c ltac:(lia)) as [P2 P3]. pose proof (HEDs c ltac:(lia)) as P5.
    unfold CTL, CBR in P1, P4. unfold CTR, CBL in P2, P3. unfold CED in P5.
    destruct (Z.leb_spec c (c - 1)); [lia|].
    pose proof (update_loc_spec e Ha HR HD s0) as U. cbv zeta in U. rewrite Ec, Er in U.
    specialize (U SL_pos HL P1 P2 P3 P4 P5).
    destruct U as (G1 & G2 & G3 & G4 & G5 & Fr & L' & A' & N' & T' & R' & K').
    set (s' := update_loc e s0) in *.
    split; [|repeat split; assumption].
    split; [rewrite L'; exact HL|]. split; [|split].
    - intros c' Hc'. destruct (Z.eq_dec c' c) as [->|Hne].
      + unfold CTL, CBR. destruct (Z.leb_spec c c); [|lia]. split; assumption.
      + destruct (HTLBR c' Hc') as [Q1 Q2].
        assert (Hix : tl_br e row c' <> tl_br e row c) by (intro E; apply tl_br_inj in E; lia).
        destruct (ix_nonneg row c') as (B1 & _ & _).
        destruct (Fr (tl_br e row c') TL ltac:(lia) ltac:(tauto) ltac:(intros [_ [X|X]]; discriminate) ltac:(intros [_ X]; discriminate)) as [E1 E2].
        destruct (Fr (tl_br e row c') BR ltac:(lia) ltac:(tauto) ltac:(intros [_ [X|X]]; discriminate) ltac:(intros [_ X]; discriminate)) as [E3 E4].
        replace (CTL row c c') with (CTL row (c - 1) c') by (unfold CTL; cases_leb).
        replace (CBR row c c') with (CBR row (c - 1) c') by (unfold CBR; cases_leb).
        split; eapply SlotIs_frame; eassumption.
    - intros c' Hc'. destruct (Z.eq_dec c' c) as [->|Hne].
      + unfold CTR, CBL. destruct (Z.leb_spec c c); [|lia]. split; assumption.
      + destruct (HTRBL c' Hc') as [Q1 Q2].
        assert (Hix : tr_bl e row c' <> tr_bl e row c) by (intro E; apply tr_bl_inj in E; lia).
        destruct (ix_nonneg row c') as (_ & B1 & _).
        destruct (Fr (tr_bl e row c') TR ltac:(lia) ltac:(intros [_ [X|X]]; discriminate) ltac:(tauto) ltac:(intros [_ X]; discriminate)) as [E1 E2].
        destruct (Fr (tr_bl e row c') BL ltac:(lia) ltac:(intros [_ [X|X]]; discriminate) ltac:(tauto) ltac:(intros [_ X]; discriminate)) as [E3 E4].
        replace (CTR row c c') with (CTR row (c - 1) c') by (unfold CTR; cases_leb).
        replace (CBL row c c') with (CBL row (c - 1) c') by (unfold CBL; cases_leb).
        split; eapply SlotIs_frame; eassumption.
    - intros c' Hc'. destruct (Z.eq_dec c' c) as [->|Hne].
      + unfold CED. destruct (Z.leb_spec c c); [|lia]. assumption.
      + pose proof (HEDs c' Hc') as Q1.
        assert (Hix : lead_ix e c' <> lead_ix e c) by (intro E; apply lead_inj in E; lia).
        destruct (ix_nonneg row c') as (_ & _ & B1).
        destruct (Fr (lead_ix e c') ED ltac:(lia) ltac:(intros [_ [X|X]]; discriminate) ltac:(intros [_ [X|X]]; discriminate) ltac:(tauto)) as [E1 E2].
        replace (CED row c c') with (CED row (c - 1) c') by (unfold CED; cases_leb).
        eapply SlotIs_frame; eassumption.
  Qed.
  (* ---------------------------------------------------------------- accumulator *)

  Definition AccInv (s : st) (row c : Z) : Prop :=
    BinsAre 16 (coarse (s_acc s)) (hC e (Soct e c row)) /\ s_accn s = hN e (Soct e c row) mod M32.

  Definition BlockIs (s : st) (f : Z) (g : Z -> Z) : Prop :=
    forall v, 16 * f <= v < 16 * f + 16 -> getz 0 (fine (s_acc s)) v = g v mod M16.

  (* fine block f is the one of window (row, last_update_column[f]) *)
  Definition FineInv (s : st) (row c : Z) : Prop :=
    length (fine (s_acc s)) = 256%nat /\ length (s_last s) = 16%nat /\
    forall f, 0 <= f < 16 ->
      - e_R e - 1 <= getz 0 (s_last s) f <= c /\ BlockIs s f (hF e (Soct e (getz 0 (s_last s) f) row)).

  (* ---------------------------------------------------------------- one column: update + accumulate *)
  Lemma step_col_inv (s : st) (row c : Z) :
    - e_R e <= c <= e_cols e + e_R e - 1 -> s_row s = row ->
    Slots s row (c - 1) -> AccInv s row (c - 1) -> FineInv s row (c - 1) ->
    let s' := step_col e s c in
    Slots s' row c /\ AccInv s' row c /\ FineInv s' row c /\ s_row s' = row /\ s_col s' = c.
  Proof.
    intros Hc Hrow HS (HA & HN) (HF1 & HF2 & HF3). cbv zeta. unfold step_col.
    destruct (slots_step s row c Hc Hrow HS) as (S1 & R1 & K1 & A1 & N1 & T1).
    set (s1 := update_loc e (set_col s c)) in *.
    destruct S1 as (HL & HTLBR & HTRBL & HEDs).
    destruct (HTLBR c ltac:(lia)) as [P4 P3]. destruct (HTRBL c ltac:(lia)) as [P1 P5]. pose proof (HEDs c ltac:(lia)) as P2.
    unfold CTL, CBR in P4, P3. unfold CTR, CBL in P1, P5. unfold CED in P2.
    destruct (Z.leb_spec c c); [|lia].
    assert (P6 : e_R e < c -> SlotIs e (slot s1 (trail_ix e c)) ED (at_ (bED e) (c - 2 * e_R e - 1) row)).
    { intros Hc'. destruct (index_follow e c row) as (_ & _ & E). rewrite E.
      pose proof (HEDs (c - 2 * e_R e - 1) ltac:(lia)) as Q. unfold CED in Q.
      destruct (Z.leb_spec (c - 2 * e_R e - 1) c); [exact Q|lia]. }
    pose proof (col_step_spec e Ha HR s1 c) as U. cbv zeta in U. rewrite R1 in U.
    rewrite A1, N1 in U.
    specialize (U P1 P2 P3 P4 P5 P6 (HW c row) (HW (c - 1) row) HA HN).
    destruct U as (A2 & N2 & C2 & F2 & L2 & R2 & K2).
    set (s2 := deacc_coarse e (acc_coarse e s1 c) c) in *.
    split; [|split; [split; assumption|split; [|split; congruence]]].
    - unfold Slots, slot. rewrite C2. split; [exact HL|]. split; [exact HTLBR|]. split; [exact HTRBL|exact HEDs].
    - unfold FineInv, BlockIs. rewrite F2, L2, T1. split; [exact HF1|]. split; [exact HF2|].
      intros f Hf. destruct (HF3 f Hf) as [B1 B2]. split; [lia|exact B2].
  Qed.

  (* ---------------------------------------------------------------- update_fine *)

  Lemma map2_at_length f : forall dst src o len, length (map2_at f o len dst src) = length dst.
  Proof.
    induction dst as [|d dr IH]; intros src o len; [reflexivity|].
    destruct src as [|x sr]; [reflexivity|]. destruct o as [|o]; [destruct len|]; cbn [map2_at length]; auto.
  Qed.

  Lemma map2_at_nth f : forall dst src o len k, length src = length dst -> (k < length dst)%nat ->
    nth k (map2_at f o len dst src) 0 =
    if (Nat.leb o k && Nat.ltb k (o + len))%bool then f (nth k dst 0) (nth k src 0) else nth k dst 0.
  Proof.
    induction dst as [|d dr IH]; intros src o len k HL Hk; cbn [length] in Hk; [lia|].
    destruct src as [|x sr]; [cbn [length] in HL; lia|]. cbn [length] in HL.
    destruct o as [|o].
    - destruct len as [|len]; cbn [map2_at].
      + replace (Nat.ltb k (0 + 0)) with false by (symmetry; apply Nat.ltb_ge; lia). rewrite andb_false_r. reflexivity.
      + destruct k as [|k]; cbn [nth]; [reflexivity|].
        rewrite IH by lia. cbn [Nat.leb andb].
        replace (Nat.ltb (S k) (0 + S len)) with (Nat.ltb k (0 + len)); [reflexivity|].
        destruct (Nat.ltb_spec k (0 + len)), (Nat.ltb_spec (S k) (0 + S len)); try lia; reflexivity.
    - cbn [map2_at]. destruct k as [|k]; cbn [nth]; [reflexivity|].
      rewrite IH by lia. cbn [Nat.leb].
      replace (Nat.ltb (S k) (S o + len)) with (Nat.ltb k (o + len)); [reflexivity|].
      destruct (Nat.ltb_spec k (o + len)), (Nat.ltb_spec (S k) (S o + len)); try lia; reflexivity.
  Qed.

  Lemma getz_at16 op (dst src : list Z) f v : length dst = 256%nat -> length src = 256%nat -> 0 <= f < 16 -> 0 <= v < 256 ->
    getz 0 (map2_at op (Z.to_nat (f * 16)) 16 dst src) v =
    if (16 * f <=? v) && (v <? 16 * f + 16) then op (getz 0 dst v) (getz 0 src v) else getz 0 dst v.
  Proof.
    intros Hd Hs Hf Hv. unfold getz. rewrite map2_at_nth by lia.
    destruct (Nat.leb_spec (Z.to_nat (f * 16)) (Z.to_nat v)), (Nat.ltb_spec (Z.to_nat v) (Z.to_nat (f * 16) + 16)),
      (Z.leb_spec (16 * f) v), (Z.ltb_spec v (16 * f + 16)); cbn [andb]; try lia; reflexivity.
  Qed.

  Definition OutSame (s s0 : st) (f : Z) : Prop :=
    forall v, 0 <= v < 256 -> ~ (16 * f <= v < 16 * f + 16) -> getz 0 (fine (s_acc s)) v = getz 0 (fine (s_acc s0)) v.
  Definition SameButFine (s s0 : st) : Prop :=
    s_cols s = s_cols s0 /\ coarse (s_acc s) = coarse (s_acc s0) /\ s_accn s = s_accn s0 /\ s_last s = s_last s0 /\
    s_row s = s_row s0 /\ s_col s = s_col s0 /\ length (fine (s_acc s)) = 256%nat.

  Lemma fine_add_spec (s : st) (o : Z) (k : pname) (S : Z -> Z -> bool) (f : Z) (g : Z -> Z) :
    SlotIs e (slot s o) k S -> length (fine (s_acc s)) = 256%nat -> 0 <= f < 16 -> BlockIs s f g ->
    let s' := fine_add s o k (f * 16) in
    BlockIs s' f (fun v => g v + hF e S v) /\ OutSame s' s f /\ SameButFine s' s.
  Proof.
    intros (_ & (LF & HF) & _) HL Hf HB. cbv zeta. unfold fine_add. fold (slot s o).
    unfold BlockIs, OutSame, SameButFine. cbn [set_acc s_acc s_accn s_cols s_last s_row s_col coarse fine].
    unfold add16. split; [|split].
    - intros v Hv. rewrite getz_at16 by lia.
      destruct (Z.leb_spec (16 * f) v), (Z.ltb_spec v (16 * f + 16)); cbn [andb]; try lia.
      rewrite HB by lia. rewrite HF by lia. unfold M16. lia.
    - intros v Hv Hn. rewrite getz_at16 by lia.
      destruct (Z.leb_spec (16 * f) v), (Z.ltb_spec v (16 * f + 16)); cbn [andb]; try lia; reflexivity.
    - repeat split; try reflexivity. rewrite map2_at_length. exact HL.
  Qed.

  Lemma fine_sub_spec (s : st) (o : Z) (k : pname) (S : Z -> Z -> bool) (f : Z) (g : Z -> Z) :
    SlotIs e (slot s o) k S -> length (fine (s_acc s)) = 256%nat -> 0 <= f < 16 -> BlockIs s f g ->
    let s' := fine_sub s o k (f * 16) in
    BlockIs s' f (fun v => g v - hF e S v) /\ OutSame s' s f /\ SameButFine s' s.
  Proof.
    intros (_ & (LF & HF) & _) HL Hf HB. cbv zeta. unfold fine_sub. fold (slot s o).
    unfold BlockIs, OutSame, SameButFine. cbn [set_acc s_acc s_accn s_cols s_last s_row s_col coarse fine].
    unfold sub16. split; [|split].
    - intros v Hv. rewrite getz_at16 by lia.
      destruct (Z.leb_spec (16 * f) v), (Z.ltb_spec v (16 * f + 16)); cbn [andb]; try lia.
      rewrite HB by lia. rewrite HF by lia. unfold M16. lia.
    - intros v Hv Hn. rewrite getz_at16 by lia.
      destruct (Z.leb_spec (16 * f) v), (Z.ltb_spec v (16 * f + 16)); cbn [andb]; try lia; reflexivity.
    - repeat split; try reflexivity. rewrite map2_at_length. exact HL.
  Qed.
  Lemma BlockIs_ext s f g g' : (forall v, 16 * f <= v < 16 * f + 16 -> g v = g' v) -> BlockIs s f g -> BlockIs s f g'.
  Proof. intros E H v Hv. rewrite <- E by exact Hv. apply H. exact Hv. Qed.

  Lemma SameButFine_trans s2 s1 s0 : SameButFine s2 s1 -> SameButFine s1 s0 -> SameButFine s2 s0.
  Proof. unfold SameButFine. intros (A1 & A2 & A3 & A4 & A5 & A6 & A7) (B1 & B2 & B3 & B4 & B5 & B6 & B7). repeat split; congruence. Qed.
  Lemma OutSame_trans s2 s1 s0 f : OutSame s2 s1 f -> OutSame s1 s0 f -> OutSame s2 s0 f.
  Proof. intros A B v Hv Hn. rewrite A by assumption. apply B; assumption. Qed.
  Lemma OutSame_refl s f : OutSame s s f. Proof. intros v _ _. reflexivity. Qed.

  (* replaying column cc in fine block f: accumulate_fine_histogram + deaccumulate_fine_histogram *)
  Lemma fine_replay_step (s s0 : st) (row c cc f : Z) :
    Slots s0 row c -> c <= e_cols e + e_R e - 1 -> s_cols s = s_cols s0 -> s_row s = row -> - e_R e <= cc <= c ->
    length (fine (s_acc s)) = 256%nat -> 0 <= f < 16 ->
    BlockIs s f (hF e (Soct e (cc - 1) row)) ->
    let s' := deacc_fine e (acc_fine e s cc f) cc f in
    BlockIs s' f (hF e (Soct e cc row)) /\ OutSame s' s f /\ SameButFine s' s.
  Proof.
    intros (HL & HTLBR & HTRBL & HEDs) Hcmax Hcols0 Hrow Hcc HLf Hf HB. cbv zeta.
    assert (slot_eq : forall (s1 : st) o, s_cols s1 = s_cols s0 -> slot s1 o = slot s0 o)
      by (intros s1 o E; unfold slot; rewrite E; reflexivity).
    (* the pieces of column cc as they are in the buffer *)
    destruct (HTLBR cc ltac:(lia)) as [PTL PBR]. destruct (HTRBL cc ltac:(lia)) as [PTR PBL]. pose proof (HEDs cc ltac:(lia)) as PED.
    unfold CTL, CBR in PTL, PBR. unfold CTR, CBL in PTR, PBL. unfold CED in PED.
    destruct (Z.leb_spec cc c); [|lia].
    pose proof (fun v => hist_col_step e Ha HR cc row (Z.eqb v)) as ID.
    (* accumulate_fine_histogram *)
    unfold acc_fine.
    assert (Q1 : SlotIs e (slot s (tr_bl e (s_row s) cc)) TR (at_ (bTR e) cc row)) by (rewrite Hrow, slot_eq by assumption; exact PTR).
    destruct (fine_add_spec s _ TR _ f _ Q1 HLf Hf HB) as (B1 & O1 & F1).
    set (s1 := fine_add s (tr_bl e (s_row s) cc) TR (f * 16)) in *.
    destruct F1 as (C1 & _ & _ & _ & R1 & _ & L1).
    assert (Q2 : SlotIs e (slot s1 (lead_ix e cc)) ED (at_ (bED e) cc row)) by (rewrite slot_eq by congruence; exact PED).
    destruct (fine_add_spec s1 _ ED _ f _ Q2 L1 Hf B1) as (B2 & O2 & F2).
    set (s2 := fine_add s1 (lead_ix e cc) ED (f * 16)) in *.
    destruct F2 as (C2 & _ & _ & _ & R2 & _ & L2).
    assert (Q3 : SlotIs e (slot s2 (tl_br e (s_row s2) cc)) BR (at_ (bBR e) cc row))
      by (rewrite R2, R1, Hrow, slot_eq by congruence; exact PBR).
    destruct (fine_add_spec s2 _ BR _ f _ Q3 L2 Hf B2) as (B3 & O3 & F3).
    set (s3 := fine_add s2 (tl_br e (s_row s2) cc) BR (f * 16)) in *.
    assert (F30 : SameButFine s3 s).
    { eapply SameButFine_trans; [exact F3|]. eapply SameButFine_trans; [|apply (proj2 (proj2 (fine_add_spec s _ TR _ f _ Q1 HLf Hf HB)))].
      apply (proj2 (proj2 (fine_add_spec s1 _ ED _ f _ Q2 L1 Hf B1))). }
    assert (O30 : OutSame s3 s f) by (eapply OutSame_trans; [exact O3|]; eapply OutSame_trans; [exact O2|exact O1]).
    destruct F3 as (C3 & _ & _ & _ & R3 & _ & L3).
    assert (Rs3 : s_row s3 = row) by congruence. assert (Cs3 : s_cols s3 = s_cols s0) by congruence.
    (* deaccumulate_fine_histogram *)
    unfold deacc_fine. destruct (cc <? e_a2 e) eqn:G1.
    - assert (cc <= MedianSlide.a2 e) by (unfold MedianSlide.a2; lia).
      assert (cc <= MedianSlide.R e) by (unfold MedianSlide.R, MedianSlide.a2 in *; lia).
      split; [|split; assumption].
      eapply BlockIs_ext; [|exact B3]. intros v Hv. cbv beta. unfold hF. rewrite (ID v).
      rewrite TL_empty, BL_empty, TE_empty by assumption. lia.
    - assert (Q4 : SlotIs e (slot s3 (tl_br e (s_row s3) cc)) TL (at_ (bTL e) cc row)) by (rewrite Rs3, slot_eq by assumption; exact PTL).
      destruct (fine_sub_spec s3 _ TL _ f _ Q4 L3 Hf B3) as (B4 & O4 & F4).
      set (s4 := fine_sub s3 (tl_br e (s_row s3) cc) TL (f * 16)) in *.
      pose proof F4 as F4'. destruct F4 as (C4 & _ & _ & _ & R4 & _ & L4).
      assert (Rs4 : s_row s4 = row) by congruence. assert (Cs4 : s_cols s4 = s_cols s0) by congruence.
      destruct (e_R e <=? cc) eqn:G2.
      + assert (Q5 : SlotIs e (slot s4 (trail_ix e cc)) ED (at_ (bED e) (cc - 2 * e_R e - 1) row)).
        { rewrite slot_eq by assumption. destruct (index_follow e cc row) as (_ & _ & E). rewrite E.
          pose proof (HEDs (cc - 2 * e_R e - 1) ltac:(lia)) as Q. unfold CED in Q.
          destruct (Z.leb_spec (cc - 2 * e_R e - 1) c); [exact Q|lia]. }
        destruct (fine_sub_spec s4 _ ED _ f _ Q5 L4 Hf B4) as (B5 & O5 & F5).
        set (s5 := fine_sub s4 (trail_ix e cc) ED (f * 16)) in *.
        pose proof F5 as F5'. destruct F5 as (C5 & _ & _ & _ & R5 & _ & L5).
        assert (Q6 : SlotIs e (slot s5 (tr_bl e (s_row s5) cc)) BL (at_ (bBL e) cc row))
          by (rewrite R5, Rs4, slot_eq by congruence; exact PBL).
        destruct (fine_sub_spec s5 _ BL _ f _ Q6 L5 Hf B5) as (B6 & O6 & F6).
        split; [|split].
        * eapply BlockIs_ext; [|exact B6]. intros v Hv. cbv beta. unfold hF. rewrite (ID v).
          rewrite (TE_is_ED e). fold (MedianSlide.R e). lia.
        * eapply OutSame_trans; [exact O6|]. eapply OutSame_trans; [exact O5|]. eapply OutSame_trans; [exact O4|exact O30].
        * eapply SameButFine_trans; [exact F6|]. eapply SameButFine_trans; [exact F5'|]. eapply SameButFine_trans; [exact F4'|exact F30].
      + assert (cc <= MedianSlide.R e) by (unfold MedianSlide.R; lia).
        assert (Q6 : SlotIs e (slot s4 (tr_bl e (s_row s4) cc)) BL (at_ (bBL e) cc row))
          by (rewrite Rs4, slot_eq by assumption; exact PBL).
        destruct (fine_sub_spec s4 _ BL _ f _ Q6 L4 Hf B4) as (B6 & O6 & F6).
        split; [|split].
        * eapply BlockIs_ext; [|exact B6]. intros v Hv. cbv beta. unfold hF. rewrite (ID v).
          rewrite TE_empty by assumption. lia.
        * eapply OutSame_trans; [exact O6|]. eapply OutSame_trans; [exact O4|exact O30].
        * eapply SameButFine_trans; [exact F6|]. eapply SameButFine_trans; [exact F4'|exact F30].
  Qed.
  Lemma fine_replay_fold (s0 : st) (row c f : Z) :
    Slots s0 row c -> c <= e_cols e + e_R e - 1 -> 0 <= f < 16 ->
    forall n lo s, s_cols s = s_cols s0 -> s_row s = row -> - e_R e <= lo -> lo + Z.of_nat n - 1 <= c ->
      length (fine (s_acc s)) = 256%nat -> BlockIs s f (hF e (Soct e (lo - 1) row)) ->
      let s' := fold_left (fun s c => deacc_fine e (acc_fine e s c f) c f) (zrange_n lo n) s in
      BlockIs s' f (hF e (Soct e (lo + Z.of_nat n - 1) row)) /\ OutSame s' s f /\ SameButFine s' s.
  Proof.
    intros HS Hcmax Hf. induction n as [|n IH]; intros lo s Hc0 Hrow Hlo Hhi HLf HB; cbv zeta; cbn [zrange_n fold_left].
    - replace (lo + Z.of_nat 0 - 1) with (lo - 1) by lia. split; [exact HB|]. split; [apply OutSame_refl|].
      unfold SameButFine. repeat split; try reflexivity. exact HLf.
    - destruct (fine_replay_step s s0 row c lo f HS Hcmax Hc0 Hrow ltac:(lia) HLf Hf HB) as (B1 & O1 & F1).
      set (s1 := deacc_fine e (acc_fine e s lo f) lo f) in *.
      pose proof F1 as (C1 & _ & _ & _ & R1 & _ & L1).
      destruct (IH (lo + 1) s1 ltac:(congruence) ltac:(congruence) ltac:(lia) ltac:(lia) L1
                   ltac:(replace (lo + 1 - 1) with lo by lia; exact B1)) as (B2 & O2 & F2).
      replace (lo + Z.of_nat (S n) - 1) with (lo + 1 + Z.of_nat n - 1) by lia.
      split; [exact B2|]. split; [eapply OutSame_trans; eassumption|eapply SameButFine_trans; eassumption].
  Qed.

  (* update_fine: the lazily replayed block equals the window's fine bins, nothing else moves *)
  Theorem update_fine_spec (s : st) (row c f : Z) :
    s_row s = row -> s_col s = c -> Slots s row c -> c <= e_cols e + e_R e - 1 -> FineInv s row c -> 0 <= f < 16 ->
    let s' := update_fine e s f in
    FineInv s' row c /\ BlockIs s' f (hF e (Soct e c row)) /\
    s_cols s' = s_cols s /\ coarse (s_acc s') = coarse (s_acc s) /\ s_accn s' = s_accn s /\ s_row s' = row /\ s_col s' = c.
  Proof.
    intros Hrow Hcol HS Hcmax (HL1 & HL2 & HF) Hf. cbv zeta. unfold update_fine.
    destruct (HF f Hf) as [Hl HB]. set (l := getz 0 (s_last s) f) in *.
    unfold zrange. rewrite Hcol.
    destruct (fine_replay_fold s row c f HS Hcmax Hf (Z.to_nat (c + 1 - (l + 1))) (l + 1) s eq_refl Hrow ltac:(lia) ltac:(lia) HL1
                ltac:(replace (l + 1 - 1) with l by lia; exact HB)) as (B & O & F).
    set (s2 := fold_left _ _ s) in *.
    replace (l + 1 + Z.of_nat (Z.to_nat (c + 1 - (l + 1))) - 1) with c in B by lia.
    destruct F as (C2 & A2 & N2 & T2 & R2 & K2 & L2).
    cbn [set_last s_cols s_acc s_accn s_last s_row s_col].
    split; [|split; [exact B|repeat split; congruence]].
    unfold FineInv, BlockIs. cbn [set_last s_cols s_acc s_accn s_last s_row s_col].
    split; [exact L2|]. split; [rewrite updz_length, T2; exact HL2|].
    intros f' Hf'. rewrite T2, K2, Hcol. rewrite getz_updz by lia. destruct (f' =? f) eqn:E.
    - assert (f' = f) by lia. subst f'. split; [lia|exact B].
    - destruct (HF f' Hf') as [Hl' HB']. split; [exact Hl'|]. intros v Hv. rewrite O by lia. apply HB'. exact Hv.
  Qed.
  (* ---------------------------------------------------------------- the window as a list *)

  Definition ewin (row c : Z) : list Z :=
    window_c (coords (e_rows e) (e_cols e)) (e_data e) (e_mask e) (e_R e) (e_a2 e) row c.

  Lemma countb_filter {A} (p q : A -> bool) l : countb p (filter q l) = countb (fun x => q x && p x) l.
  Proof.
    induction l as [|a l IH]; [reflexivity|]. cbn [filter]. destruct (q a) eqn:E.
    - rewrite !countb_cons, IH, E. reflexivity.
    - rewrite countb_cons, IH, E. reflexivity.
  Qed.

  Lemma cnt_window q row c : cnt e (Soct e c row) q = countb q (ewin row c).
  Proof.
    clear Ha HR HD Hsw HSL Hcols Hrows HW.
    unfold ewin, window_c, cnt. rewrite countb_map, countb_filter. apply countb_ext.
    intros [y x] Hin. apply coords_In in Hin. unfold pixq, in_window, Soct, in_img. cbn [fst snd].
    change (msk2 (e_mask e) y x) with (msk e y x). change (dat2 (e_data e) y x) with (dat e y x).
    unfold MedianSlide.R, MedianSlide.a2.
    destruct (0 <=? x) eqn:E1, (x <? e_cols e) eqn:E2, (0 <=? y) eqn:E3, (y <? e_rows e) eqn:E4; try lia. reflexivity.
  Qed.

  Lemma ewin_range row c : Forall (fun v => 0 <= v < 256) (ewin row c).
  Proof.
    apply Forall_forall. intros v Hv. unfold ewin, window_c in Hv. apply in_map_iff in Hv.
    destruct Hv as [[y x] [E Hin]]. apply filter_In in Hin. destruct Hin as [Hc Hw]. apply coords_In in Hc.
    unfold in_window in Hw. cbn [fst snd] in *. apply andb_true_iff in Hw. destruct Hw as [Hm _].
    subst v. change (dat2 (e_data e) y x) with (dat e y x). apply HD. unfold in_img.
    change (msk2 (e_mask e) y x) with (msk e y x) in Hm. rewrite Hm. lia.
  Qed.

  Lemma countb_lin {A} (p q r : A -> bool) l :
    (forall x, (if p x then 1 else 0) = (if q x then 1 else 0) - (if r x then 1 else 0)) ->
    countb p l = countb q l - countb r l.
  Proof.
    intros H. induction l as [|a l IH]; [reflexivity|]. rewrite !countb_cons, IH. specialize (H a). lia.
  Qed.

  Lemma cscan_range l : forall i a below, l <> [] ->
    i <= fst (cscan l i a below) < i + Z.of_nat (length l).
  Proof.
    induction l as [|x r IH]; intros i a below Hne; [congruence|]. cbn [cscan length].
    destruct (below <? a + x); [cbn [fst]; lia|]. destruct r as [|y r']; [cbn [fst length]; lia|].
    specialize (IH (i + 1) (a + x) below ltac:(discriminate)). cbn [length] in *. lia.
  Qed.

  Hypothesis Hpct : 0 <= e_percent e <= 100.

  (* ---------------------------------------------------------------- find_median at an image column *)
  Theorem find_median_spec (s : st) (row c : Z) :
    s_row s = row -> s_col s = c -> c <= e_cols e + e_R e - 1 ->
    Slots s row c -> AccInv s row c -> FineInv s row c ->
    let s' := fst (find_median e s) in let v := snd (find_median e s) in
    Slots s' row c /\ AccInv s' row c /\ FineInv s' row c /\ s_row s' = row /\ s_col s' = c /\
    (ewin row c <> [] ->
     RankOf (ewin row c) (rank_pos (Z.of_nat (length (ewin row c))) (e_percent e)) v).
  Proof.
    intros Hrow Hcol Hcmax HS (HA & HN) HFi. cbv zeta.
    set (vals := ewin row c).
    assert (Hlen : hN e (Soct e c row) = Z.of_nat (length vals)).
    { unfold hN. rewrite cnt_window. fold vals. unfold countb. f_equal. f_equal.
      induction vals as [|a l IH]; [reflexivity|]. cbn [filter]. f_equal. exact IH. }
    pose proof (HW c row) as Hsmall. rewrite Hlen in Hsmall.
    assert (Hacc : s_accn s = Z.of_nat (length vals)) by (rewrite HN, Hlen; unfold M16, M32 in *; lia).
    destruct (s_accn s =? 0) eqn:E0.
    - (* empty window *)
      unfold find_median. rewrite E0. cbn [fst snd].
      split; [exact HS|]. split; [split; assumption|]. split; [exact HFi|]. split; [exact Hrow|]. split; [exact Hcol|].
      intros Hne. destruct vals; [congruence|cbn [length] in Hacc; lia].
    - assert (Hco : coarse (s_acc s) = coarse_of (hist_of vals)).
      { destruct HA as [LA HA']. apply (nth_ext _ _ 0 0); [rewrite LA, coarse_length; reflexivity|].
        intros n Hn. rewrite LA in Hn. specialize (HA' (Z.of_nat n) ltac:(lia)). unfold getz in HA'. rewrite Nat2Z.id in HA'.
        rewrite HA'. rewrite coarse_nth by exact Hn. rewrite lsum_block by lia.
        replace (16 * (Z.of_nat n + 1)) with (Z.of_nat (16 * n + 16)) by lia.
        replace (16 * Z.of_nat n) with (Z.of_nat (16 * n)) by lia.
        pose proof (ewin_range row c) as Hr. fold vals in Hr.
        assert (Hr0 : Forall (fun v => 0 <= v) vals) by (eapply Forall_impl; [|exact Hr]; cbv beta; lia).
        rewrite !hist_cum by (try exact Hr0; lia).
        unfold hC. rewrite cnt_window. fold vals.
        assert (Hle : countb (fun d => d / 16 =? Z.of_nat n) vals <= Z.of_nat (length vals)).
        { unfold countb. pose proof (filter_length_le (fun d => d / 16 =? Z.of_nat n) (fun _ => true) vals ltac:(auto)) as X.
          assert (length (filter (fun _ : Z => true) vals) = length vals) as Y.
          { clear. induction vals as [|a l IH]; [reflexivity|]. cbn [filter length]. f_equal. exact IH. }
          lia. }
        pose proof (countb_nonneg (fun d => d / 16 =? Z.of_nat n) vals).
        rewrite Z.mod_small by (unfold M16 in *; lia).
        unfold count_lt. fold (countb (fun x => x <? Z.of_nat (16 * n + 16)) vals). fold (countb (fun x => x <? Z.of_nat (16 * n)) vals).
        apply countb_lin. intros x.
        destruct (x / 16 =? Z.of_nat n) eqn:A1, (x <? Z.of_nat (16 * n + 16)) eqn:A2, (x <? Z.of_nat (16 * n)) eqn:A3; lia. }
      unfold find_median. rewrite E0. cbn [fst snd].
      set (f := fm_block e s).
      assert (Hf : 0 <= f < 16).
      { unfold f, fm_block. destruct HA as [LA _].
        pose proof (cscan_range (coarse (s_acc s)) 0 0 (fm_below (s_accn s) (e_percent e))) as X. rewrite LA in X.
        apply X. intro E. rewrite E in LA. discriminate. }
      destruct (update_fine_spec s row c f Hrow Hcol HS Hcmax HFi Hf) as (F' & B' & C' & A' & N' & R' & K').
      set (s' := update_fine e s f) in *.
      split; [unfold Slots, slot in *; rewrite C'; exact HS|].
      split; [unfold AccInv; rewrite A', N'; split; assumption|].
      split; [exact F'|]. split; [exact R'|]. split; [exact K'|].
      intros Hne.
      pose proof (find_median_model_rank e s vals (ewin_range row c) Hne Hsmall Hpct Hco Hacc) as FM.
      unfold find_median in FM. rewrite E0 in FM. cbn [snd] in FM. apply FM. fold f. fold s'.
      (* the selected fine block is up to date *)
      destruct F' as (LF' & _ & _).
      apply (nth_ext _ _ 0 0).
      { unfold block16. rewrite !firstn_length, !skipn_length, LF', hist_length. reflexivity. }
      intros m Hm. unfold block16 in Hm. rewrite firstn_length, skipn_length, LF' in Hm.
      assert (Hm16 : (m < 16)%nat) by lia.
      unfold block16. rewrite !nth_firstn_lt by exact Hm16. rewrite !nth_skipn_add.
      set (j := (Z.to_nat (16 * f) + m)%nat).
      assert (Hj : (j < 256)%nat) by (unfold j; lia).
      rewrite hist_nth by exact Hj.
      specialize (B' (Z.of_nat j) ltac:(unfold j; lia)). unfold getz in B'. rewrite Nat2Z.id in B'. rewrite B'.
      unfold hF. rewrite cnt_window. fold vals. unfold count_eq.
      fold (countb (Z.eqb (Z.of_nat j)) vals).
      assert (Hle : countb (Z.eqb (Z.of_nat j)) vals <= Z.of_nat (length vals)).
      { unfold countb. pose proof (filter_length_le (Z.eqb (Z.of_nat j)) (fun _ => true) vals ltac:(auto)) as X.
        assert (length (filter (fun _ : Z => true) vals) = length vals) as Y.
        { clear. induction vals as [|a l IH]; [reflexivity|]. cbn [filter length]. f_equal. exact IH. }
        lia. }
      pose proof (countb_nonneg (Z.eqb (Z.of_nat j)) vals).
      apply Z.mod_small. unfold M16 in *. lia.
  Qed.
  (* ---------------------------------------------------------------- row_init *)

  Lemma clear_TLBR k cl :
    get_p k (clear_pieces TL BR cl) = match k with TL | BR => piece0 | _ => get_p k cl end /\
    get_n k (clear_pieces TL BR cl) = match k with TL | BR => 0 | _ => get_n k cl end.
  Proof. destruct k; split; reflexivity. Qed.
  Lemma clear_TRBL k cl :
    get_p k (clear_pieces TR BL cl) = match k with TR | BL => piece0 | _ => get_p k cl end /\
    get_n k (clear_pieces TR BL cl) = match k with TR | BL => 0 | _ => get_n k cl end.
  Proof. destruct k; split; reflexivity. Qed.

  Definition is_tlbr (k : pname) : bool := match k with TL | BR => true | _ => false end.
  Definition is_trbl (k : pname) : bool := match k with TR | BL => true | _ => false end.

  Lemma row_init_fields (s : st) (row : Z) : length (s_cols s) = Z.to_nat (e_SL e) ->
    let o1 := tl_br e (s_row s) (- e_R e) in let o2 := tr_bl e (s_row s) (e_cols e + e_R e - 1) in
    let s' := row_init e s row in
    length (s_cols s') = Z.to_nat (e_SL e) /\ s_row s' = row /\ s_acc s' = piece0 /\ s_accn s' = 0 /\
    s_last s' = repeat (- e_R e - 1) 16 /\
    forall o k, 0 <= o < e_SL e ->
      (get_p k (slot s' o) = if ((o =? o1) && is_tlbr k) || ((o =? o2) && is_trbl k) then piece0 else get_p k (slot s o)) /\
      (get_n k (slot s' o) = if ((o =? o1) && is_tlbr k) || ((o =? o2) && is_trbl k) then 0 else get_n k (slot s o)).
  Proof.
    intros HL. cbv zeta. unfold row_init. rewrite Hsw.
    set (o1 := tl_br e (s_row s) (- e_R e)). set (o2 := tr_bl e (s_row s) (e_cols e + e_R e - 1)).
    destruct (ix_nonneg (s_row s) (- e_R e)) as (B1 & _ & _). destruct (ix_nonneg (s_row s) (e_cols e + e_R e - 1)) as (_ & B2 & _).
    fold o1 in B1. fold o2 in B2.
    cbn [s_cols s_row s_acc s_accn s_last]. rewrite !updz_length.
    split; [exact HL|]. split; [reflexivity|]. split; [reflexivity|]. split; [reflexivity|]. split; [reflexivity|].
    intros o k Ho. unfold slot. cbn [s_cols].
    rewrite getz_updz by (try rewrite updz_length; lia).
    rewrite (getz_updz _ _ (s_cols s) o1 o) by lia.
    rewrite (getz_updz _ _ (s_cols s) o1 o2) by lia.
    destruct (o =? o2) eqn:E2; destruct (o =? o1) eqn:E1; cbn [andb orb].
    - assert (o2 = o1) by lia. replace (o2 =? o1) with true by lia.
      destruct (clear_TRBL k (clear_pieces TL BR (getz column0 (s_cols s) o1))) as [X1 X2].
      destruct (clear_TLBR k (getz column0 (s_cols s) o1)) as [Y1 Y2].
      rewrite X1, X2. assert (o = o1) by lia. subst o. destruct k; cbn [is_tlbr is_trbl orb]; rewrite ?Y1, ?Y2; split; reflexivity.
    - replace (o2 =? o1) with false by lia.
      destruct (clear_TRBL k (getz column0 (s_cols s) o2)) as [X1 X2]. rewrite X1, X2.
      assert (o = o2) by lia. subst o. destruct k; cbn [is_tlbr is_trbl orb andb]; split; reflexivity.
    - destruct (clear_TLBR k (getz column0 (s_cols s) o1)) as [Y1 Y2]. rewrite Y1, Y2.
      assert (o = o1) by lia. subst o. destruct k; cbn [is_tlbr is_trbl orb andb]; split; reflexivity.
    - split; reflexivity.
  Qed.

  Lemma nth_repeat_lt (a d : Z) n : forall k, (k < n)%nat -> nth k (repeat a n) d = a.
  Proof. induction n as [|n IH]; intros k Hk; [lia|]. destruct k; cbn [repeat nth]; [reflexivity|apply IH; lia]. Qed.

  Lemma acc_fine_fresh (s' : st) (row : Z) :
    s_acc s' = piece0 -> s_accn s' = 0 -> s_last s' = repeat (- e_R e - 1) 16 ->
    AccInv s' row (- e_R e - 1) /\ FineInv s' row (- e_R e - 1).
  Proof.
    intros E1 E2 E3. pose proof (fun q => hist_col_start e HR row q) as Z0. unfold MedianSlide.R in Z0.
    split.
    - unfold AccInv. rewrite E1, E2. unfold piece0. cbn [coarse]. split.
      + apply BinsAre_zero. intros i. apply Z0.
      + unfold hN. rewrite Z0. reflexivity.
    - unfold FineInv, BlockIs. rewrite E1, E3. unfold piece0. cbn [fine]. split; [apply repeat_length|]. split; [apply repeat_length|].
      intros f Hf. unfold getz. rewrite nth_repeat_lt by lia. split; [lia|]. intros v Hv. rewrite nth_repeat.
      unfold hF. rewrite Z0. reflexivity.
  Qed.

  Lemma mod_shift a : (a + e_SL e) mod e_SL e = a mod e_SL e.
  Proof. replace (a + e_SL e) with (a + 1 * e_SL e) by lia. apply Z_mod_plus_full. Qed.

  (* from the end of row-1 to the beginning of row *)
  Lemma row_init_inv (s : st) (row : Z) :
    s_row s = row - 1 -> Slots s (row - 1) (e_cols e + e_R e - 1) ->
    let s' := row_init e s row in
    Slots s' row (- e_R e - 1) /\ AccInv s' row (- e_R e - 1) /\ FineInv s' row (- e_R e - 1) /\ s_row s' = row.
  Proof.
    intros Hrow (HL & HTLBR & HTRBL & HEDs). cbv zeta.
    destruct (row_init_fields s row HL) as (L' & R' & A' & N' & T' & Fl). rewrite Hrow in Fl.
    set (s' := row_init e s row) in *.
    set (o1 := tl_br e (row - 1) (- e_R e)) in *. set (o2 := tr_bl e (row - 1) (e_cols e + e_R e - 1)) in *.
    destruct (acc_fine_fresh s' row A' N' T') as [AI FI].
    split; [|split; [exact AI|split; [exact FI|exact R']]].
    split; [exact L'|]. split; [|split].
    - intros c' Hc'. destruct (index_follow e c' row) as (E & _ & _).
      destruct (ix_nonneg row c') as (B & _ & _).
      destruct (Fl (tl_br e row c') TL B) as [P1 N1]. destruct (Fl (tl_br e row c') BR B) as [P2 N2].
      cbn [is_tlbr is_trbl andb orb] in P1, N1, P2, N2. rewrite !andb_false_r, !orb_false_r, !andb_true_r in *.
      unfold CTL, CBR. destruct (Z.leb_spec c' (- e_R e - 1)); [lia|].
      destruct (Z.eq_dec c' (e_cols e + e_R e)) as [->|Hne].
      + assert (Eo : tl_br e row (e_cols e + e_R e) = o1).
        { unfold o1, tl_br. rewrite <- (mod_shift (- e_R e + 3 * e_R e + (row - 1))). f_equal. lia. }
        rewrite Eo in *. rewrite Z.eqb_refl in *.
        split; apply SlotIs_zero; try assumption; intros q; [apply TL_right_empty|apply BR_right_empty]; lia.
      + assert (Eo : (tl_br e row c' =? o1) = false).
        { apply Z.eqb_neq. rewrite E. unfold o1. intro X. apply tl_br_inj in X; lia. }
        rewrite Eo in *. rewrite E in *.
        destruct (HTLBR (c' + 1) ltac:(lia)) as [Q1 Q2]. unfold CTL, CBR in Q1, Q2.
        destruct (Z.leb_spec (c' + 1) (e_cols e + e_R e - 1)).
        * split; eapply SlotIs_frame; eassumption.
        * assert (c' + 1 = e_cols e + e_R e) by lia.
          split; (eapply SlotIs_frame; [eassumption|eassumption|]).
          -- eapply SlotIs_ext; [|exact Q1]. intros q. rewrite !TL_right_empty by lia. reflexivity.
          -- eapply SlotIs_ext; [|exact Q2]. intros q. rewrite !BR_right_empty by lia. reflexivity.
    - intros c' Hc'. destruct (index_follow e c' row) as (_ & E & _).
      destruct (ix_nonneg row c') as (_ & B & _).
      destruct (Fl (tr_bl e row c') TR B) as [P1 N1]. destruct (Fl (tr_bl e row c') BL B) as [P2 N2].
      cbn [is_tlbr is_trbl andb orb] in P1, N1, P2, N2. rewrite !andb_false_r, !andb_true_r in *. cbn [orb] in *.
      unfold CTR, CBL.
      destruct (Z.eq_dec c' (- e_R e - 1)) as [->|Hne].
      + destruct (Z.leb_spec (- e_R e - 1) (- e_R e - 1)); [|lia].
        assert (Eo : tr_bl e row (- e_R e - 1) = o2).
        { unfold o2, tr_bl. rewrite <- (mod_shift (- e_R e - 1 + 3 * e_R e + e_rows e - row)). f_equal. lia. }
        rewrite Eo in *. rewrite Z.eqb_refl in *.
        split; apply SlotIs_zero; try assumption; intros q; [apply TR_left_empty|apply BL_left_empty]; lia.
      + destruct (Z.leb_spec c' (- e_R e - 1)); [lia|].
        assert (Eo : (tr_bl e row c' =? o2) = false).
        { apply Z.eqb_neq. rewrite E. unfold o2. intro X. apply tr_bl_inj in X; lia. }
        rewrite Eo in *. rewrite E in *.
        destruct (HTRBL (c' - 1) ltac:(lia)) as [Q1 Q2]. unfold CTR, CBL in Q1, Q2.
        destruct (Z.leb_spec (c' - 1) (e_cols e + e_R e - 1)); [|lia].
        split; eapply SlotIs_frame; eassumption.
    - intros c' Hc'. destruct (ix_nonneg row c') as (_ & _ & B).
      destruct (Fl (lead_ix e c') ED B) as [P1 N1].
      cbn [is_tlbr is_trbl andb orb] in P1, N1. rewrite !andb_false_r in *. cbn [orb] in *.
      pose proof (HEDs c' Hc') as Q. unfold CED in *.
      destruct (Z.leb_spec c' (e_cols e + e_R e - 1)); [|lia].
      destruct (Z.leb_spec c' (- e_R e - 1)).
      + assert (c' = - e_R e - 1) by lia. subst c'.
        eapply SlotIs_frame; [eassumption|eassumption|].
        eapply SlotIs_ext; [|exact Q]. intros q. rewrite !ED_left_empty by lia. reflexivity.
      + eapply SlotIs_frame; eassumption.
  Qed.
  (* the zero-initialised buffer before the first row *)
  Lemma row_init_first :
    let s' := row_init e (st0 e) (- e_R e) in
    Slots s' (- e_R e) (- e_R e - 1) /\ AccInv s' (- e_R e) (- e_R e - 1) /\ FineInv s' (- e_R e) (- e_R e - 1) /\
    s_row s' = - e_R e.
  Proof.
    cbv zeta. assert (HL : length (s_cols (st0 e)) = Z.to_nat (e_SL e)) by (unfold st0; cbn [s_cols]; apply repeat_length).
    destruct (row_init_fields (st0 e) (- e_R e) HL) as (L' & R' & A' & N' & T' & Fl).
    set (s' := row_init e (st0 e) (- e_R e)) in *.
    assert (Z0 : forall o k, 0 <= o < e_SL e -> get_p k (slot s' o) = piece0 /\ get_n k (slot s' o) = 0).
    { intros o k Ho. destruct (Fl o k Ho) as [P N]. rewrite P, N.
      assert (E : slot (st0 e) o = column0) by (unfold slot, st0, getz; cbn [s_cols]; apply nth_repeat).
      rewrite E. destruct (_ || _); destruct k; split; reflexivity. }
    destruct (acc_fine_fresh s' (- e_R e) A' N' T') as [AI FI].
    split; [|split; [exact AI|split; [exact FI|exact R']]].
    split; [exact L'|]. split; [|split].
    - intros c' Hc'. destruct (ix_nonneg (- e_R e) c') as (B & _ & _).
      destruct (Z0 _ TL B) as [P1 N1]. destruct (Z0 _ BR B) as [P2 N2].
      unfold CTL, CBR. destruct (Z.leb_spec c' (- e_R e - 1)); [lia|].
      split; apply SlotIs_zero; try assumption; intros q; apply above_empty; try lia; [apply bTL_dy|apply bBR_dy].
    - intros c' Hc'. destruct (ix_nonneg (- e_R e) c') as (_ & B & _).
      destruct (Z0 _ TR B) as [P1 N1]. destruct (Z0 _ BL B) as [P2 N2].
      unfold CTR, CBL. destruct (Z.leb_spec c' (- e_R e - 1)).
      + split; apply SlotIs_zero; try assumption; intros q; [apply TR_left_empty|apply BL_left_empty]; lia.
      + split; apply SlotIs_zero; try assumption; intros q; apply above_empty; try lia; [apply bTR_dy|apply bBL_dy].
    - intros c' Hc'. destruct (ix_nonneg (- e_R e) c') as (_ & _ & B).
      destruct (Z0 _ ED B) as [P1 N1].
      unfold CED. destruct (Z.leb_spec c' (- e_R e - 1)).
      + apply SlotIs_zero; try assumption; intros q; apply ED_left_empty; lia.
      + apply SlotIs_zero; try assumption; intros q; apply above_empty; try lia; apply bED_dy.
  Qed.

  (* ---------------------------------------------------------------- the loops *)

  Lemma fold_zrange_inv {A} (P : Z -> A -> Prop) (f : A -> Z -> A) : forall n lo a,
    P (lo - 1) a -> (forall c a, lo <= c < lo + Z.of_nat n -> P (c - 1) a -> P c (f a c)) ->
    P (lo + Z.of_nat n - 1) (fold_left f (zrange_n lo n) a).
  Proof.
    induction n as [|n IH]; intros lo a H0 Hs; cbn [zrange_n fold_left].
    - replace (lo + Z.of_nat 0 - 1) with (lo - 1) by lia. exact H0.
    - replace (lo + Z.of_nat (S n) - 1) with (lo + 1 + Z.of_nat n - 1) by lia. apply IH.
      + replace (lo + 1 - 1) with lo by lia. apply Hs; [lia|exact H0].
      + intros c a' Hc. apply Hs. lia.
  Qed.

  Definition P1 (row c : Z) (s : st) : Prop :=
    s_row s = row /\ Slots s row c /\ AccInv s row c /\ FineInv s row c.

  Definition Good (row j v : Z) : Prop :=
    ewin row j <> [] -> RankOf (ewin row j) (rank_pos (Z.of_nat (length (ewin row j))) (e_percent e)) v.
  Definition OutRow (row c : Z) (acc : list Z) : Prop :=
    Z.of_nat (length acc) = c + 1 /\ forall j, 0 <= j <= c -> Good row j (nth (Z.to_nat (c - j)) acc 0).
  Definition RowGood (i : Z) (r : list Z) : Prop :=
    Z.of_nat (length r) = e_cols e /\ forall j, 0 <= j < e_cols e -> Good i j (nth (Z.to_nat j) r 0).
  Definition OutOK (row : Z) (out : list (list Z)) : Prop :=
    Z.of_nat (length out) = Z.max 0 (row + 1) /\ forall i, 0 <= i <= row -> RowGood i (nth (Z.to_nat (row - i)) out []).
  Definition Q (row : Z) (so : st * list (list Z)) : Prop :=
    s_row (fst so) = row /\ Slots (fst so) row (e_cols e + e_R e - 1) /\ OutOK row (snd so).

  Lemma P1_step row c s : - e_R e <= c <= e_cols e + e_R e - 1 -> P1 row (c - 1) s -> P1 row c (step_col e s c).
  Proof.
    intros Hc (Hr & HS & HA & HF). destruct (step_col_inv s row c Hc Hr HS HA HF) as (S' & A' & F' & R' & _).
    refine (conj _ (conj _ (conj _ _))); assumption.
  Qed.

  Lemma do_row_inv (so : st * list (list Z)) (row : Z) : - e_R e <= row < e_rows e ->
    (row = - e_R e /\ so = (st0 e, [])) \/ (- e_R e < row /\ Q (row - 1) so) ->
    Q row (do_row e so row).
  Proof.
    intros Hrow Hstart. destruct so as [s out]. unfold do_row.
    assert (Hinit : P1 row (- e_R e - 1) (row_init e s row)).
    { destruct Hstart as [[-> E]|[Hgt (Hr & HS & _)]].
      - inversion E; subst. destruct row_init_first as (A & B & C & D). refine (conj _ (conj _ (conj _ _))); assumption.
      - cbn [fst] in *. destruct (row_init_inv s row Hr HS) as (A & B & C & D). refine (conj _ (conj _ (conj _ _))); assumption. }
    assert (Hout0 : OutOK (row - 1) out \/ (row = - e_R e /\ out = [])).
    { destruct Hstart as [[-> E]|[Hgt (_ & _ & HO)]]; [right; inversion E; auto|left; exact HO]. }
    set (s1 := row_init e s row) in *. rewrite Hsw.
    destruct (0 <=? row) eqn:Erow.
    - (* an image row *)
      assert (H1 : P1 row (-1) (fold_left (step_col e) (zrange (- e_R e) 0) s1)).
      { unfold zrange. replace (-1) with (- e_R e + Z.of_nat (Z.to_nat (0 - - e_R e)) - 1) by lia.
        apply (fold_zrange_inv (P1 row)); [exact Hinit|]. intros c a Hc. apply P1_step. lia. }
      set (s2 := fold_left (step_col e) (zrange (- e_R e) 0) s1) in *.
      (* columns of the image *)
      set (stepf := fun (sa : st * list Z) col => let '(s, acc) := sa in let '(s, v) := find_median e (step_col e s col) in (s, v :: acc)).
      assert (H2 : (fun c (sa : st * list Z) => P1 row c (fst sa) /\ OutRow row c (snd sa)) (e_cols e - 1)
                     (fold_left stepf (zrange 0 (e_cols e)) (s2, []))).
      { unfold zrange. replace (e_cols e - 1) with (0 + Z.of_nat (Z.to_nat (e_cols e - 0)) - 1) by lia.
        apply (fold_zrange_inv (fun c (sa : st * list Z) => P1 row c (fst sa) /\ OutRow row c (snd sa))).
        - cbn [fst snd]. replace (0 - 1) with (-1) by lia. split; [exact H1|]. split; [reflexivity|intros; lia].
        - intros c [sa acc] Hc [HP HO]. cbn [fst snd] in *. unfold stepf.
          pose proof (P1_step row c sa ltac:(lia) HP) as (Hr' & HS' & HA' & HF').
          destruct (step_col_inv sa row c ltac:(lia) (proj1 HP) (proj1 (proj2 HP)) (proj1 (proj2 (proj2 HP))) (proj2 (proj2 (proj2 HP))))
            as (_ & _ & _ & _ & Hcol').
          pose proof (find_median_spec (step_col e sa c) row c Hr' Hcol' ltac:(lia) HS' HA' HF') as FM. cbv zeta in FM.
          destruct (find_median e (step_col e sa c)) as [s3 v]. cbn [fst snd] in *.
          destruct FM as (S3 & A3 & F3 & R3 & _ & G3).
          split; [refine (conj _ (conj _ (conj _ _))); assumption|]. destruct HO as [LO GO]. split; [cbn [length]; lia|].
          intros j Hj. destruct (Z.eq_dec j c) as [->|Hne].
          + replace (Z.to_nat (c - c)) with O by lia. cbn [nth]. exact G3.
          + replace (Z.to_nat (c - j)) with (S (Z.to_nat (c - 1 - j))) by lia. cbn [nth]. apply GO. lia. }
      fold stepf.
      destruct (fold_left stepf (zrange 0 (e_cols e)) (s2, [])) as [s3 orow]. cbn [fst snd] in H2.
      destruct H2 as [(R3 & S3 & _ & _) [LO GO]].
      (* the columns right of the image *)
      assert (H3 : (fun c s => s_row s = row /\ Slots s row c) (e_cols e + e_R e - 1)
                     (fold_left (fun s col => update_loc e (set_col s col)) (zrange (e_cols e) (e_cols e + e_R e)) s3)).
      { unfold zrange. replace (e_cols e + e_R e - 1) with (e_cols e + Z.of_nat (Z.to_nat (e_cols e + e_R e - e_cols e)) - 1) by lia.
        apply (fold_zrange_inv (fun c s => s_row s = row /\ Slots s row c)); [split; assumption|].
        intros c a Hc [Hr' HS']. destruct (slots_step a row c ltac:(lia) Hr' HS') as (X & Y & _). split; assumption. }
      destruct H3 as [R4 S4]. unfold Q. cbn [fst snd]. split; [exact R4|]. split; [exact S4|].
      (* the output rows *)
      assert (HRG : RowGood row (rev orow)).
      { split; [rewrite rev_length; lia|]. intros j Hj. rewrite rev_nth by lia.
        replace (length orow - S (Z.to_nat j))%nat with (Z.to_nat (e_cols e - 1 - j)) by lia. apply GO. lia. }
      split; [cbn [length]; destruct Hout0 as [[L0 _]|[-> ->]]; cbn [length]; lia|].
      intros i Hi. destruct (Z.eq_dec i row) as [->|Hne].
      + replace (Z.to_nat (row - row)) with O by lia. exact HRG.
      + replace (Z.to_nat (row - i)) with (S (Z.to_nat (row - 1 - i))) by lia. cbn [nth].
        destruct Hout0 as [[_ G0]|[-> _]]; [apply G0; lia|lia].
    - (* a row above the image: the whole sweep, no output *)
      assert (H1 : P1 row (e_cols e + e_R e - 1) (fold_left (step_col e) (zrange (- e_R e) (e_cols e + e_R e)) s1)).
      { unfold zrange. replace (e_cols e + e_R e - 1) with (- e_R e + Z.of_nat (Z.to_nat (e_cols e + e_R e - - e_R e)) - 1) by lia.
        apply (fold_zrange_inv (P1 row)); [exact Hinit|]. intros c a Hc. apply P1_step. lia. }
      destruct H1 as (R2 & S2 & _ & _). unfold Q. cbn [fst snd]. split; [exact R2|]. split; [exact S2|].
      split; [destruct Hout0 as [[L0 _]|[-> ->]]; cbn [length]; lia|intros; lia].
  Qed.
  (* kernel_inv: the two loops of c_median_filter *)
  Theorem kernel_rows :
    let out := rev (snd (fold_left (do_row e) (zrange (- e_sweep e) (e_rows e)) (st0 e, []))) in
    Z.of_nat (length out) = e_rows e /\ forall i, 0 <= i < e_rows e -> RowGood i (nth (Z.to_nat i) out []).
  Proof.
    cbv zeta. rewrite Hsw. unfold zrange.
    set (P := fun r (so : st * list (list Z)) => (r = - e_R e - 1 /\ so = (st0 e, [])) \/ (- e_R e <= r /\ Q r so)).
    assert (H : P (- e_R e + Z.of_nat (Z.to_nat (e_rows e - - e_R e)) - 1)
                  (fold_left (do_row e) (zrange_n (- e_R e) (Z.to_nat (e_rows e - - e_R e))) (st0 e, []))).
    { apply (fold_zrange_inv P).
      - left. split; [lia|reflexivity].
      - intros c so Hc [[E1 E2]|[G HQ]]; right; (split; [lia|]); apply do_row_inv; try lia.
        + left. split; [lia|exact E2].
        + right. split; [lia|exact HQ]. }
    replace (- e_R e + Z.of_nat (Z.to_nat (e_rows e - - e_R e)) - 1) with (e_rows e - 1) in H by lia.
    destruct H as [[E _]|[_ (_ & _ & [LO GO])]]; [lia|].
    set (out := snd (fold_left (do_row e) (zrange_n (- e_R e) (Z.to_nat (e_rows e - - e_R e))) (st0 e, []))) in *.
    split; [rewrite rev_length; lia|]. intros i Hi. rewrite rev_nth by lia.
    replace (length out - S (Z.to_nat i))%nat with (Z.to_nat (e_rows e - 1 - i)) by lia. apply GO. lia.
  Qed.
End Inv.

(* ------------------------------------------------------------------ C07_sliding_invariant *)

Lemma filter_true {A} (l : list A) : filter (fun _ => true) l = l.
Proof. induction l as [|a l IH]; [reflexivity|]. cbn [filter]. f_equal. exact IH. Qed.

Definition WinSmall (mask : list (list bool)) (rows cols radius : Z) : Prop :=
  forall row c, Z.of_nat (length (filter (in_window mask (oct_R radius) (oct_a2 radius) row c) (coords rows cols))) < 65536.

Definition Masked8 (data : list (list Z)) (mask : list (list bool)) : Prop :=
  forall y x, 0 <= y < img_rows data -> 0 <= x < img_cols data -> msk2 mask y x = true -> 0 <= dat2 data y x < 256.

Theorem sliding_invariant data mask radius percent :
  1 <= radius -> 0 <= percent <= 100 -> Masked8 data mask -> WinSmall mask (img_rows data) (img_cols data) radius ->
  let out := kernel Fixed data mask radius percent in
  MedianSpec data mask radius percent out /\
  Z.of_nat (length out) = img_rows data /\ Forall (fun r => Z.of_nat (length r) = img_cols data) out.
Proof.
  intros Hr Hp HM HWs. cbv zeta.
  set (e := mk_env Fixed data mask radius percent).
  pose proof (geom_octagon radius Hr) as G. cbv zeta in G. destruct G as (G1 & G2 & _).
  assert (Ha : 1 <= e_a2 e) by exact G1. assert (HR : e_a2 e < e_R e) by exact G2.
  assert (HD : Data8 e).
  { intros x y H. unfold in_img in H. apply andb_true_iff in H. destruct H as [H Hm].
    unfold e in H. cbn [e_rows e_cols mk_env] in H.
    apply (HM y x); unfold img_rows, img_cols; try lia. exact Hm. }
  assert (HW : forall c row, hN e (Soct e c row) < M16).
  { intros c row. unfold hN. rewrite cnt_window. unfold ewin, window_c, countb.
    rewrite filter_true, map_length. apply (HWs row c). }
  pose proof (kernel_rows e Ha HR HD eq_refl eq_refl ltac:(cbn; lia) ltac:(cbn; lia) HW Hp) as K. cbv zeta in K.
  fold (kernel Fixed data mask radius percent) in K.
  change (rev (snd (fold_left (do_row e) (zrange (- e_sweep e) (e_rows e)) (st0 e, [])))) with (kernel Fixed data mask radius percent) in K.
  destruct K as [KL KG]. split; [|split; [exact KL|]].
  - intros i j Hi Hj. cbv zeta. intros Hne.
    destruct (KG i Hi) as [_ GJ]. specialize (GJ j Hj). unfold Good in GJ.
    change (ewin e i j) with (window data mask radius i j) in GJ.
    unfold dat2, getz. apply GJ. exact Hne.
  - apply Forall_forall. intros r Hin. apply (In_nth _ _ []) in Hin. destruct Hin as [n [Hn E]].
    destruct (KG (Z.of_nat n) ltac:(change (e_rows e) with (img_rows data) in KL; unfold img_rows in *; cbn [e_rows e mk_env] in *; lia)) as [LR _].
    rewrite Nat2Z.id, E in LR. exact LR.
Qed.

(* the code as written, radius >= 2 *)
Corollary sliding_invariant_asis data mask radius percent :
  2 <= radius -> 0 <= percent <= 100 -> Masked8 data mask -> WinSmall mask (img_rows data) (img_cols data) radius ->
  MedianSpec data mask radius percent (kernel AsIs data mask radius percent).
Proof.
  intros Hr Hp HM HWs.
  assert (E : kernel AsIs data mask radius percent = kernel Fixed data mask radius percent).
  { unfold kernel, mk_env. destruct (geom_octagon radius ltac:(lia)) as (_ & _ & _ & E & _).
    cbv zeta in E. rewrite (E Hr). reflexivity. }
  rewrite E. apply (sliding_invariant data mask radius percent ltac:(lia) Hp HM HWs).
Qed.

(* an image with fewer than 65536 pixels has small windows whatever the radius *)
Lemma coords_length rows cols : length (coords rows cols) = (Z.to_nat rows * Z.to_nat cols)%nat.
Proof.
  unfold coords, zrange. replace (rows - 0) with rows by lia. replace (cols - 0) with cols by lia.
  generalize 0 at 2. induction (Z.to_nat rows) as [|n IH]; intros lo; cbn [zrange_n flat_map]; [reflexivity|].
  rewrite app_length, map_length, zrange_n_length, IH. lia.
Qed.

Lemma WinSmall_of_small_image mask rows cols radius : 0 <= rows -> 0 <= cols -> rows * cols < 65536 -> WinSmall mask rows cols radius.
Proof.
  intros Hr Hc H row c.
  pose proof (filter_length_le (in_window mask (oct_R radius) (oct_a2 radius) row c) (fun _ => true) (coords rows cols) ltac:(auto)) as X.
  assert (Y : length (filter (fun _ : Z * Z => true) (coords rows cols)) = length (coords rows cols)).
  { generalize (coords rows cols). intros l. induction l as [|a l IH]; [reflexivity|]. cbn [filter length]. f_equal. exact IH. }
  rewrite Y, coords_length in X. nia.
Qed.

Example sliding_invariant_ex :
  Masked8 [[3; 200]; [17; 999]] [[true; true]; [true; false]] /\ WinSmall [[true; true]; [true; false]] 2 2 3 /\
  kernel AsIs [[3; 200]; [17; 999]] [[true; true]; [true; false]] 3 50 = [[17; 17]; [17; 17]].
Proof.
  split; [|split; [apply WinSmall_of_small_image; lia|vm_compute; reflexivity]].
  intros y x Hy Hx Hm. unfold img_rows, img_cols in *. cbn in Hy, Hx.
  assert (Cy : y = 0 \/ y = 1) by lia. assert (Cx : x = 0 \/ x = 1) by lia.
  destruct Cy, Cx; subst; vm_compute in Hm; try discriminate; vm_compute; split; congruence.
Qed.
