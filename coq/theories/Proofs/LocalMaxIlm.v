(* C17 — the line-level model of is_local_maximum never reads out of bounds and returns exactly
   the non-dominated labelled pixels, for every image shape and every footprint with odd
   sizes >= 3 (symmetric or not). *)
From Coq Require Import ZArith List Bool Lia ZifyBool.
From Centro Require Import Base.LocalMaxGrid Model.LocalMax Spec.LocalMaxSpec Proofs.LocalMaxShrink.
Import ListNotations.
Open Scope Z_scope.

Lemma get2_map_map {A B} (f : A -> B) (d : A) g y x :
  get2 (f d) (map (map f) g) y x = f (get2 d g y x).
Proof.
  unfold get2. destruct ((0 <=? y) && (0 <=? x)); [|reflexivity].
  change (@nil B) with (map f []). now rewrite !map_nth.
Qed.

Lemma get2_pos_map labels y x :
  get2 false (map (map (fun l => 0 <? l)) labels) y x = (0 <? get2 0 labels y x).
Proof. exact (get2_map_map (fun l => 0 <? l) 0 labels y x). Qed.

Lemma wf_map_map {A B} (f : A -> B) h w g : wf h w g -> wf h w (map (map f) g).
Proof.
  intros [Hl Hf]. split; [now rewrite map_length|].
  apply Forall_forall. intros r Hr. apply in_map_iff in Hr. destruct Hr as (r0 & <- & Hr0).
  rewrite map_length. rewrite Forall_forall in Hf. now apply Hf.
Qed.

Lemma In_insert_by key o l z : In z (insert_by key o l) <-> z = o \/ In z l.
Proof.
  induction l as [|p r IH]; cbn [insert_by].
  - cbn [In]. intuition (subst; auto).
  - destruct (key o <=? key p); cbn [In]; [intuition (subst; auto)|].
    rewrite IH. intuition (subst; auto).
Qed.

Lemma In_sort_by key l z : In z (sort_by key l) <-> In z l.
Proof.
  unfold sort_by. induction l as [|a l IH]; cbn [fold_right]; [reflexivity|].
  rewrite In_insert_by, IH. cbn [In]. intuition (subst; auto).
Qed.

Lemma In_fp_offsets fp fh fw fe0 fe1 o :
  In o (fp_offsets fp fh fw fe0 fe1) <->
  exists a b, 0 <= a < Z.of_nat fh /\ 0 <= b < Z.of_nat fw /\ get2 false fp a b = true
              /\ o = (a - fe0, b - fe1).
Proof.
  unfold fp_offsets. rewrite in_flat_map. split.
  - intros (a & Ha & H). rewrite in_flat_map in H. destruct H as (b & Hb & H).
    apply In_zrange in Ha, Hb.
    destruct (get2 false fp a b) eqn:E; [|contradiction]. destruct H as [<-|[]]. exists a, b. auto.
  - intros (a & b & Ha & Hb & E & ->). exists a. split; [now apply In_zrange|].
    rewrite in_flat_map. exists b. split; [now apply In_zrange|]. rewrite E. now left.
Qed.

Lemma In_labelled labels h w p :
  In p (labelled labels h w) <->
  0 <= fst p < Z.of_nat h /\ 0 <= snd p < Z.of_nat w /\ 0 < get2 0 labels (fst p) (snd p).
Proof.
  unfold labelled. rewrite in_flat_map. split.
  - intros (y & Hy & H). rewrite in_flat_map in H. destruct H as (x & Hx & H).
    apply In_zrange in Hy, Hx.
    destruct (0 <? get2 0 labels y x) eqn:E; [|contradiction]. destruct H as [<-|[]]. cbn [fst snd]. lia.
  - destruct p as [y x]. cbn [fst snd]. intros (Hy & Hx & E). exists y. split; [now apply In_zrange|].
    rewrite in_flat_map. exists x. split; [now apply In_zrange|].
    replace (0 <? get2 0 labels y x) with true by lia. now left.
Qed.

Lemma sq_sum_0 u v : u * u + v * v = 0 -> u = 0 /\ v = 0.
Proof.
  intros E. pose proof (Z.square_nonneg u). pose proof (Z.square_nonneg v).
  assert (A : u * u = 0) by lia. assert (B : v * v = 0) by lia.
  apply Z.mul_eq_0 in A, B. lia.
Qed.

Lemma sq_sum_pos u v : u * u + v * v <> 0 -> 0 < u * u + v * v.
Proof. intros E. pose proof (Z.square_nonneg u). pose proof (Z.square_nonneg v). lia. Qed.

Section Ilm.
  Variables (image labels : list (list Z)) (fp : list (list bool)) (fe0 fe1 : Z).
  Local Notation h := (length labels).
  Local Notation w := (length (hd [] labels)).
  Local Notation fh := (length fp).
  Local Notation fw := (length (hd [] fp)).
  Local Notation H := (Z.of_nat h).
  Local Notation W := (Z.of_nat w).
  Local Notation BH := (H + fe0 * 2).
  Local Notation BW := (W + fe1 * 2).
  Local Notation Lz := (get2 0 labels).
  Local Notation Iz := (get2 0 image).
  Hypothesis Hl : wf h w labels.
  Hypothesis Hi : wf h w image.
  Hypothesis Efe0 : (Z.of_nat fh - 1) / 2 = fe0.
  Hypothesis Efe1 : (Z.of_nat fw - 1) / 2 = fe1.
  Hypothesis Hfe0 : Z.of_nat fh = 2 * fe0 + 1.
  Hypothesis Hfe1 : Z.of_nat fw = 2 * fe1 + 1.
  Hypothesis Pfe0 : 1 <= fe0.
  Hypothesis Pfe1 : 1 <= fe1.

  Definition bigf (y x : Z) : Z :=
    if (fe0 <=? y) && (y <? BH - fe0) && (fe1 <=? x) && (x <? BW - fe1)
    then get2 0 labels (y - fe0) (x - fe1) else 0.
  Local Notation big := (tab (Z.to_nat BH) (Z.to_nat BW) bigf).

  Definition okb (o p : Z * Z) : bool :=
    if Lz (fst p + fst o) (snd p + snd o) =? Lz (fst p) (snd p)
    then negb (Iz (fst p) (snd p) <? Iz (fst p + fst o) (snd p + snd o)) else true.

  Definition good (p : Z * Z) : Prop := 0 <= fst p < H /\ 0 <= snd p < W /\ 0 < Lz (fst p) (snd p).

  Local Notation offs := (sort_by dist2 (filter (fun o => 0 <? dist2 o) (fp_offsets fp fh fw fe0 fe1))).

  Lemma In_offs o : In o offs <->
    0 < dist2 o /\ exists a b, 0 <= a < Z.of_nat fh /\ 0 <= b < Z.of_nat fw /\ get2 false fp a b = true
                               /\ o = (a - fe0, b - fe1).
  Proof. rewrite In_sort_by, filter_In, In_fp_offsets. intuition lia. Qed.

  (* every read of the padded label copy within the padding is in bounds and returns the label
     of the pixel it stands for (0 outside the image) *)
  Lemma big_read Y X : 0 <= Y < BH -> 0 <= X < BW ->
    zget (concat big) (BW * Y + X) = Some (Lz (Y - fe0) (X - fe1)).
  Proof.
    intros HY HX.
    rewrite (zget_concat 0 (Z.to_nat BH) (Z.to_nat BW) big Y X);
      [ | apply tab_wf | lia | lia | rewrite Z2Nat.id by lia; reflexivity].
    f_equal. rewrite get2_tab by lia. unfold bigf.
    destruct ((fe0 <=? Y) && (Y <? BH - fe0) && (fe1 <=? X) && (X <? BW - fe1)) eqn:E; [reflexivity|].
    symmetry. apply (get2_out 0 h w labels); [exact Hl | lia].
  Qed.

  Lemma Lz_in y x : 0 < Lz y x -> 0 <= y < H /\ 0 <= x < W.
  Proof.
    intros P. destruct (Z_lt_dec y 0); [rewrite (get2_out 0 h w labels) in P by (auto; lia); lia|].
    destruct (Z_lt_dec y H); [|rewrite (get2_out 0 h w labels) in P by (auto; lia); lia].
    destruct (Z_lt_dec x 0); [rewrite (get2_out 0 h w labels) in P by (auto; lia); lia|].
    destruct (Z_lt_dec x W); [|rewrite (get2_out 0 h w labels) in P by (auto; lia); lia].
    lia.
  Qed.

  Lemma ok_chk_good o p : In o offs -> good p ->
    ok_chk (concat big) (concat image)
           (W * fst o + 1 * snd o) (BW * fst o + 1 * snd o)
           (mkT (W * fst p + 1 * snd p) (BW * (fst p + fe0) + 1 * (snd p + fe1)) (W * fst p + 1 * snd p))
    = Some (okb o p).
  Proof.
    intros Ho (Hy & Hx & Hp). apply In_offs in Ho. destruct Ho as (_ & a & b & Ha & Hb & _ & ->).
    destruct p as [y x]. cbn [fst snd] in *. unfold ok_chk, okb. cbn [t_bi t_ii fst snd].
    set (dy := a - fe0) in *. set (dx := b - fe1) in *.
    assert (Hdy : - fe0 <= dy <= fe0) by lia. assert (Hdx : - fe1 <= dx <= fe1) by lia.
    clearbody dy dx.
    replace (BW * (y + fe0) + 1 * (x + fe1) + (BW * dy + 1 * dx))
      with (BW * (y + dy + fe0) + (x + dx + fe1)) by ring.
    replace (BW * (y + fe0) + 1 * (x + fe1)) with (BW * (y + fe0) + (x + fe1)) by ring.
    rewrite !big_read by lia.
    replace (y + dy + fe0 - fe0) with (y + dy) by lia. replace (x + dx + fe1 - fe1) with (x + dx) by lia.
    replace (y + fe0 - fe0) with y by lia. replace (x + fe1 - fe1) with x by lia.
    destruct (Lz (y + dy) (x + dx) =? Lz y x) eqn:EL; [|reflexivity].
    assert (Hin : 0 <= y + dy < H /\ 0 <= x + dx < W) by (apply Lz_in; lia).
    rewrite (zget_concat 0 h w image y x) by (auto; lia).
    rewrite (zget_concat 0 h w image (y + dy) (x + dx)) by (auto; try lia; ring).
    reflexivity.
  Qed.

  Lemma sel_pixel (g : Z * Z -> bool) y x : 0 <= y < H -> 0 <= x < W ->
    forallb (fun p => implb (W * fst p + 1 * snd p =? W * y + x) (g p)) (labelled labels h w)
    = implb (0 <? Lz y x) (g (y, x)).
  Proof.
    intros Hy Hx. apply eq_iff_eq_true. rewrite forallb_forall. split.
    - intros A. destruct (0 <? Lz y x) eqn:E; [|reflexivity]. cbn [implb].
      specialize (A (y, x)). cbn [fst snd] in A.
      replace (W * y + 1 * x =? W * y + x) with true in A by lia. apply A.
      apply In_labelled. cbn [fst snd]. lia.
    - intros A p Hp. apply In_labelled in Hp.
      destruct (W * fst p + 1 * snd p =? W * y + x) eqn:E; [|reflexivity]. cbn [implb].
      assert (p = (y, x)) as ->.
      { destruct p as [py px]; cbn [fst snd] in *. apply Z.eqb_eq in E.
        assert (py = y).
        { destruct (Z_lt_le_dec py y) as [l|l].
          { exfalso. assert (W * (py + 1) <= W * y) by (apply Z.mul_le_mono_nonneg_l; lia). lia. }
          destruct (Z_lt_le_dec y py) as [l'|l']; [|lia].
          exfalso. assert (W * (y + 1) <= W * py) by (apply Z.mul_le_mono_nonneg_l; lia). lia. }
        f_equal; lia. }
      cbn [fst snd] in Hp. replace (0 <? Lz y x) with true in A by lia. exact A.
  Qed.

  Lemma final_bool y x : 0 <= y < H -> 0 <= x < W ->
    (0 <? Lz y x) && implb (0 <? Lz y x) (forallb (fun o => okb o (y, x)) offs)
    = local_max_b image labels fp y x.
  Proof.
    intros Hy Hx. unfold local_max_b. rewrite Efe0, Efe1.
    destruct (0 <? Lz y x) eqn:E; [cbn [implb andb] | reflexivity].
    apply eq_iff_eq_true. rewrite !forallb_forall. split.
    - intros A a Ha. apply forallb_forall. intros b Hb. apply In_zrange in Ha, Hb.
      destruct (get2 false fp a b) eqn:F; [cbn [implb]|reflexivity].
      destruct (Z.eq_dec (dist2 (a - fe0, b - fe1)) 0) as [D0|D0].
      + unfold dist2 in D0; cbn [fst snd] in D0.
        apply sq_sum_0 in D0. destruct D0 as [-> ->].
        unfold dom_ok. rewrite !Z.add_0_r, Z.leb_refl. apply implb_true_r.
      + specialize (A (a - fe0, b - fe1)).
        assert (I : In (a - fe0, b - fe1) offs).
        { apply In_offs. split.
          - unfold dist2 in *; cbn [fst snd] in *. now apply sq_sum_pos.
          - exists a, b. auto. }
        specialize (A I). unfold okb, dom_ok in *. cbn [fst snd] in A.
        destruct (Lz (y + (a - fe0)) (x + (b - fe1)) =? Lz y x) eqn:EL.
        * destruct (Iz (y + (a - fe0)) (x + (b - fe1)) <=? Iz y x) eqn:EI; [apply implb_true_r | lia].
        * now rewrite andb_false_r.
    - intros A o Ho. apply In_offs in Ho. destruct Ho as (_ & a & b & Ha & Hb & F & ->).
      specialize (A a (proj2 (In_zrange _ _) Ha)). rewrite forallb_forall in A.
      specialize (A b (proj2 (In_zrange _ _) Hb)). rewrite F in A. cbn [implb] in A.
      unfold okb, dom_ok in *. cbn [fst snd].
      destruct (Lz (y + (a - fe0)) (x + (b - fe1)) =? Lz y x) eqn:EL; [|reflexivity].
      assert (Hin : 0 <= y + (a - fe0) < H /\ 0 <= x + (b - fe1) < W) by (apply Lz_in; lia).
      unfold zlen in A.
      replace ((0 <=? y + (a - fe0)) && (y + (a - fe0) <? H) && (0 <=? x + (b - fe1)) && (x + (b - fe1) <? W))
        with true in A by lia.
      cbn [andb implb] in A. lia.
  Qed.

  Lemma ilm_eq_section (Ofh : Z.odd (Z.of_nat fh) = true) (Ofw : Z.odd (Z.of_nat fw) = true) :
    is_local_maximum image labels fp = Some (tab h w (local_max_b image labels fp)).
  Proof.
    unfold is_local_maximum, shape2. cbv beta iota zeta. rewrite !Efe0, !Efe1.
    replace ((fe0 =? 0) && (fe1 =? 0)) with false by lia.
    replace ((fe0 =? 0) || (fe1 =? 0) || Z.even (Z.of_nat fh) || Z.even (Z.of_nat fw)) with false.
    2:{ rewrite <- !Z.negb_odd, Ofh, Ofw. cbn [negb]. lia. }
    rewrite combine_map.
    match goal with
    | |- context [ilm_loop ?b ?i (map ?cv ?os) (?r0, map ?tr ?ps)] =>
        assert (RI : forall p, good p -> 0 <= t_ri (tr p) < Z.of_nat (h * w)%nat);
        [ | assert (OK : forall o p, In o os -> good p ->
                         ok_chk b i (fst (cv o)) (snd (cv o)) (tr p) = Some (okb o p));
            [ | assert (LEN : length r0 = (h * w)%nat);
                [ | assert (GOOD : Forall good ps);
                    [ | destruct (ilm_loop_spec (Z * Z) (Z * Z) b i tr cv okb good (h * w)%nat RI os OK r0 ps LEN GOOD)
                          as (r' & E & L' & N') ] ] ] ]
    end.
    - intros p (Hy & Hx & _). cbn [t_ri fst snd]. nia.
    - intros o p Ho Hp. cbn [fst snd]. apply ok_chk_good; assumption.
    - apply concat_length_wf. now apply wf_map_map.
    - apply Forall_forall. intros p Hp. apply In_labelled in Hp. exact Hp.
    - rewrite E. f_equal. apply tab_ext. intros y x Hy Hx.
      assert (Hk : (Z.to_nat (W * y + x) < h * w)%nat) by nia.
      rewrite (N' _ Hk). rewrite Z2Nat.id by nia.
      rewrite (nth_concat false h w) by (auto using wf_map_map).
      rewrite get2_pos_map. cbn [t_ri fst snd].
      rewrite (sel_pixel (fun p => forallb (fun o => okb o p) offs) y x Hy Hx).
      now apply final_bool.
  Qed.
End Ilm.

Lemma odd_half n : Z.odd n = true -> 3 <= n -> n = 2 * ((n - 1) / 2) + 1 /\ 1 <= (n - 1) / 2.
Proof.
  intros O P. apply Z.odd_spec in O. destruct O as [m ->].
  replace (2 * m + 1 - 1) with (m * 2) by ring. rewrite Z.div_mul by lia. lia.
Qed.

(* model = executable spec *)
Theorem is_local_maximum_eq image labels (fp : list (list bool)) :
  let h := length labels in
  let w := length (hd [] labels) in
  wf h w labels -> wf h w image ->
  3 <= zlen fp -> 3 <= zlen (hd [] fp) -> Z.odd (zlen fp) = true -> Z.odd (zlen (hd [] fp)) = true ->
  is_local_maximum image labels fp = Some (tab h w (local_max_b image labels fp)).
Proof.
  intros h w Hl Hi P0 P1 O0 O1. unfold zlen in *.
  destruct (odd_half _ O0 P0) as [E0 Q0]. destruct (odd_half _ O1 P1) as [E1 Q1].
  apply (ilm_eq_section image labels fp _ _ Hl Hi eq_refl eq_refl E0 E1 Q0 Q1 O0 O1).
Qed.

(* the executable spec decides the declarative one *)
Lemma local_max_b_spec image labels fp y x :
  local_max_b image labels fp y x = true <-> local_max_at image labels fp y x.
Proof.
  unfold local_max_b, local_max_at, zlen. cbv zeta.
  rewrite andb_true_iff, forallb_forall, Z.ltb_lt.
  split; intros [P A]; (split; [exact P|]).
  - intros a b Ha Hb F Hy' Hx' EL. specialize (A a (proj2 (In_zrange _ _) Ha)).
    rewrite forallb_forall in A. specialize (A b (proj2 (In_zrange _ _) Hb)).
    rewrite F in A. cbn [implb] in A. unfold dom_ok, zlen in A.
    rewrite EL in A.
    replace ((0 <=? y + (a - (Z.of_nat (length fp) - 1) / 2))
             && (y + (a - (Z.of_nat (length fp) - 1) / 2) <? Z.of_nat (length labels))
             && (0 <=? x + (b - (Z.of_nat (length (hd [] fp)) - 1) / 2))
             && (x + (b - (Z.of_nat (length (hd [] fp)) - 1) / 2) <? Z.of_nat (length (hd [] labels))))
      with true in A by lia.
    rewrite Z.eqb_refl in A. cbn [andb implb] in A. lia.
  - intros a Ha. apply forallb_forall. intros b Hb. apply In_zrange in Ha, Hb.
    destruct (get2 false fp a b) eqn:F; [cbn [implb]|reflexivity].
    specialize (A a b Ha Hb F). unfold dom_ok, zlen.
    match goal with |- implb ?c ?d = true => destruct c eqn:C; [cbn [implb]|reflexivity] end.
    apply Z.leb_le. apply A; lia.
Qed.

(* the statement of the property for is_local_maximum *)
Theorem is_local_maximum_spec image labels (fp : list (list bool)) :
  let h := length labels in
  let w := length (hd [] labels) in
  wf h w labels -> wf h w image ->
  3 <= zlen fp -> 3 <= zlen (hd [] fp) -> Z.odd (zlen fp) = true -> Z.odd (zlen (hd [] fp)) = true ->
  exists out, is_local_maximum image labels fp = Some out /\ wf h w out /\
    forall y x, 0 <= y < Z.of_nat h -> 0 <= x < Z.of_nat w ->
      (get2 false out y x = true <-> local_max_at image labels fp y x).
Proof.
  intros h w Hl Hi P0 P1 O0 O1. eexists. split; [now apply is_local_maximum_eq|].
  split; [apply tab_wf|]. intros y x Hy Hx. rewrite get2_tab by assumption. apply local_max_b_spec.
Qed.

(* index safety on its own: no read of the padded label copy, of the image or of the result
   leaves its array (the model has no wrapping, so NumPy's negative-index wrap is never used) *)
Corollary is_local_maximum_safe image labels (fp : list (list bool)) :
  let h := length labels in
  let w := length (hd [] labels) in
  wf h w labels -> wf h w image ->
  3 <= zlen fp -> 3 <= zlen (hd [] fp) -> Z.odd (zlen fp) = true -> Z.odd (zlen (hd [] fp)) = true ->
  is_local_maximum image labels fp <> None.
Proof. intros h w Hl Hi P0 P1 O0 O1. rewrite is_local_maximum_eq by assumption. discriminate. Qed.

Example is_local_maximum_example :
  (* 2x3 image, two touching labels, asymmetric 3x5 footprint *)
  is_local_maximum [[1; 5; 2]; [0; 1; 9]] [[1; 2; 1]; [1; 1; 2]]
                   [[true; false; false; true; false]; [false; false; true; true; true]; [false; true; false; false; false]]
  = Some [[false; true; true]; [false; false; true]].
Proof. vm_compute. reflexivity. Qed.

(* checker soundness: what the harness evaluates on the implementation's output *)
Lemma grid_eqb_sound h w out f : grid_eqb h w out f = true ->
  wf h w out /\ forall y x, 0 <= y < Z.of_nat h -> 0 <= x < Z.of_nat w -> get2 false out y x = f y x.
Proof.
  unfold grid_eqb. rewrite andb_true_iff, wfb_wf, forallb_forall. intros [Hw A]. split; [exact Hw|].
  intros y x Hy Hx. specialize (A y (proj2 (In_zrange _ _) Hy)). rewrite forallb_forall in A.
  specialize (A x (proj2 (In_zrange _ _) Hx)). now apply eqb_prop.
Qed.

Theorem ilm_check_sound image labels fp out : ilm_check image labels fp out = true ->
  wf (length labels) (length (hd [] labels)) out /\
  forall y x, 0 <= y < zlen labels -> 0 <= x < zlen (hd [] labels) ->
    (get2 false out y x = true <-> local_max_at image labels fp y x).
Proof.
  intros C. apply grid_eqb_sound in C. destruct C as [Hw A]. split; [exact Hw|].
  intros y x Hy Hx. rewrite (A y x Hy Hx). apply local_max_b_spec.
Qed.
