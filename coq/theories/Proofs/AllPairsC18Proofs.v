(* C18 — index.all_pairs: the line-level model (mgrid flatten, drop the diagonal, three-key
   lexsort by (max(i,j), i, j), gather) equals the closed form all_pairs_ref; the closed form
   lists every ordered non-identity pair exactly once, and its first m(m-1) rows are the
   pairs of the first m things. *)
From Coq Require Import ZArith List Bool Arith Lia Sorted Permutation.
From Centro Require Import Base.Sort4C18 Model.VecC18 Model.AllPairsC18 Spec.SpecC18
  Proofs.VecC18Lemmas Proofs.BlocksC18 Proofs.MedianC18Proofs Proofs.PairsC18Proofs.
Import ListNotations.
Local Open Scope nat_scope.

(* ================================================================ generic list facts *)
Lemma StronglySorted_app_c18 {A} (R : A -> A -> Prop) l1 l2 :
  StronglySorted R l1 -> StronglySorted R l2 ->
  (forall x y, In x l1 -> In y l2 -> R x y) -> StronglySorted R (l1 ++ l2).
Proof.
  intros S1 S2 HX. induction S1 as [|a r S1 IH F]; [exact S2|].
  cbn [app]. constructor.
  - apply IH. intros x y Hx Hy. apply HX; [right; exact Hx|exact Hy].
  - rewrite Forall_forall in *. intros y Hy. apply in_app_or in Hy. destruct Hy as [Hy|Hy].
    + apply F; exact Hy.
    + apply HX; [left; reflexivity|exact Hy].
Qed.

Lemma StronglySorted_impl_c18 {A} (R1 R2 : A -> A -> Prop) l :
  (forall x y, R1 x y -> R2 x y) -> StronglySorted R1 l -> StronglySorted R2 l.
Proof.
  intros HI HS. induction HS as [|a r HS IH F]; constructor; [exact IH|].
  rewrite Forall_forall in *. intros y Hy. apply HI, F, Hy.
Qed.

Lemma StronglySorted_strict_NoDup {A} (R : A -> A -> Prop) l :
  (forall x, ~ R x x) -> StronglySorted R l -> NoDup l.
Proof.
  intros HI HS. induction HS as [|a r HS IH F]; constructor; [|exact IH].
  rewrite Forall_forall in F. intros Ha. exact (HI a (F a Ha)).
Qed.

Lemma sorted_map_seq {B} (R : B -> B -> Prop) (f : nat -> B) n : forall s,
  (forall i j, s <= i -> i < j -> j < s + n -> R (f i) (f j)) ->
  StronglySorted R (map f (seq s n)).
Proof.
  induction n as [|n IH]; intros s HR; cbn [seq map]; constructor.
  - apply IH. intros i j H1 H2 H3. apply HR; lia.
  - rewrite Forall_forall. intros y Hy. apply in_map_iff in Hy. destruct Hy as (j & <- & Hj).
    apply in_seq in Hj. apply HR; lia.
Qed.

(* two sorted lists with the same elements are equal, for an antisymmetric order *)
Lemma sorted_perm_unique {A} (R : A -> A -> Prop) :
  (forall x y, R x y -> R y x -> x = y) ->
  forall l1 l2, StronglySorted R l1 -> StronglySorted R l2 -> Permutation l1 l2 -> l1 = l2.
Proof.
  intros HA l1. induction l1 as [|a r1 IH]; intros l2 S1 S2 P.
  - symmetry. apply Permutation_nil. exact P.
  - destruct l2 as [|b r2]; [symmetry in P; apply Permutation_nil in P; discriminate|].
    inversion S1 as [|a' r1' S1' F1]; subst. inversion S2 as [|b' r2' S2' F2]; subst.
    rewrite Forall_forall in F1, F2.
    assert (a = b) as E.
    { assert (In a (b :: r2)) as Ha by (eapply Permutation_in; [exact P|left; reflexivity]).
      assert (In b (a :: r1)) as Hb by (eapply Permutation_in; [symmetry; exact P|left; reflexivity]).
      destruct Ha as [Ha|Ha]; [auto|]. destruct Hb as [Hb|Hb]; [auto|].
      apply F2 in Ha. apply F1 in Hb. apply HA; assumption. }
    subst b. f_equal. apply IH; auto. eapply Permutation_cons_inv; exact P.
Qed.

Lemma firstn_length_app {A} (l1 l2 : list A) : firstn (length l1) (l1 ++ l2) = l1.
Proof. induction l1 as [|a r IH]; [reflexivity|]. cbn [length app firstn]. rewrite IH. reflexivity. Qed.

(* ================================================================ the closed form *)
Lemma all_pairs_ref_S n : all_pairs_ref (S n) = all_pairs_ref n ++ all_pairs_block n.
Proof.
  unfold all_pairs_ref. rewrite seq_S, flat_map_app. cbn [flat_map Nat.add]. rewrite app_nil_r. reflexivity.
Qed.

Lemma all_pairs_ref_add m d :
  all_pairs_ref (m + d) = all_pairs_ref m ++ flat_map all_pairs_block (seq m d).
Proof. unfold all_pairs_ref. rewrite seq_app, flat_map_app. reflexivity. Qed.

Lemma all_pairs_block_length k : length (all_pairs_block k) = 2 * k.
Proof. unfold all_pairs_block. rewrite app_length, !map_length, seq_length. lia. Qed.

Lemma all_pairs_ref_length m : length (all_pairs_ref m) = m * (m - 1).
Proof.
  induction m as [|m IH]; [reflexivity|].
  rewrite all_pairs_ref_S, app_length, IH, all_pairs_block_length.
  destruct m as [|m]; [reflexivity|]. cbn [Nat.sub]. rewrite !Nat.sub_0_r. lia.
Qed.

Lemma in_all_pairs_block k a b :
  In (a, b) (all_pairs_block k) <-> (a < k /\ b = k) \/ (a = k /\ b < k).
Proof.
  unfold all_pairs_block. rewrite in_app_iff, !in_map_iff. split.
  - intros [(x & E & Hx)|(x & E & Hx)]; injection E as E1 E2; apply in_seq in Hx; subst; lia.
  - intros [[H1 H2]|[H1 H2]]; subst.
    + left. exists a. split; [reflexivity|apply in_seq; lia].
    + right. exists b. split; [reflexivity|apply in_seq; lia].
Qed.

Lemma in_all_pairs_ref n a b : In (a, b) (all_pairs_ref n) <-> (a < n /\ b < n /\ a <> b).
Proof.
  unfold all_pairs_ref. rewrite in_flat_map. split.
  - intros (k & Hk & Hin). apply in_seq in Hk. apply in_all_pairs_block in Hin. lia.
  - intros (Ha & Hb & Hab). exists (Nat.max a b). split; [apply in_seq; lia|].
    apply in_all_pairs_block. lia.
Qed.

(* the order of the rows: by max, then first component, then second; strict version *)
Definition pr_lt (p q : nat * nat) : Prop :=
  Nat.max (fst p) (snd p) < Nat.max (fst q) (snd q) \/
  (Nat.max (fst p) (snd p) = Nat.max (fst q) (snd q) /\
   (fst p < fst q \/ (fst p = fst q /\ snd p < snd q))).
Definition pr_le (p q : nat * nat) : Prop :=
  Nat.max (fst p) (snd p) < Nat.max (fst q) (snd q) \/
  (Nat.max (fst p) (snd p) = Nat.max (fst q) (snd q) /\
   (fst p < fst q \/ (fst p = fst q /\ snd p <= snd q))).

Lemma pr_lt_le p q : pr_lt p q -> pr_le p q.
Proof. unfold pr_lt, pr_le. lia. Qed.
Lemma pr_lt_irrefl p : ~ pr_lt p p.
Proof. unfold pr_lt. lia. Qed.
Lemma pr_le_antisym p q : pr_le p q -> pr_le q p -> p = q.
Proof.
  destruct p as [a b], q as [c d]. unfold pr_le. cbn [fst snd]. intros H1 H2.
  assert (a = c /\ b = d) as [-> ->] by lia. reflexivity.
Qed.

Lemma all_pairs_block_sorted k : StronglySorted pr_lt (all_pairs_block k).
Proof.
  unfold all_pairs_block. apply StronglySorted_app_c18.
  - apply sorted_map_seq. intros i j H1 H2 H3. unfold pr_lt. cbn [fst snd]. lia.
  - apply sorted_map_seq. intros i j H1 H2 H3. unfold pr_lt. cbn [fst snd]. lia.
  - intros x y Hx Hy. apply in_map_iff in Hx. destruct Hx as (i & <- & Hi).
    apply in_map_iff in Hy. destruct Hy as (j & <- & Hj). apply in_seq in Hi. apply in_seq in Hj.
    unfold pr_lt. cbn [fst snd]. lia.
Qed.

Lemma all_pairs_ref_sorted n : StronglySorted pr_lt (all_pairs_ref n).
Proof.
  induction n as [|n IH]; [constructor|].
  rewrite all_pairs_ref_S. apply StronglySorted_app_c18; [exact IH|apply all_pairs_block_sorted|].
  intros [a b] [c d] Hx Hy. apply in_all_pairs_ref in Hx. apply in_all_pairs_block in Hy.
  unfold pr_lt. cbn [fst snd]. lia.
Qed.

Theorem all_pairs_complete : forall n,
  NoDup (all_pairs_ref n) /\ forall a b, In (a, b) (all_pairs_ref n) <-> (a < n /\ b < n /\ a <> b).
Proof.
  intros n. split.
  - apply StronglySorted_strict_NoDup with (R := pr_lt); [exact pr_lt_irrefl|apply all_pairs_ref_sorted].
  - intros a b. apply in_all_pairs_ref.
Qed.

Theorem all_pairs_prefix : forall m n, m <= n -> firstn (m * (m - 1)) (all_pairs_ref n) = all_pairs_ref m.
Proof.
  intros m n Hmn. replace n with (m + (n - m)) by lia.
  rewrite all_pairs_ref_add, <- (all_pairs_ref_length m). apply firstn_length_app.
Qed.

(* ================================================================ the model *)
(* the mgrid rows, and the rows left by the mask i != j *)
Definition grid (n : nat) : list (nat * nat) := flat_map (fun a => map (pair a) (seq 0 n)) (seq 0 n).
Definition offdiag (n : nat) : list (nat * nat) := filter (fun p => negb (fst p =? snd p)) (grid n).

Lemma combine_repeat_l {A B} (a : A) (l : list B) : combine (repeat a (length l)) l = map (pair a) l.
Proof. induction l as [|b l IH]; [reflexivity|]. cbn [length repeat combine map]. rewrite IH. reflexivity. Qed.

Lemma mgrid_combine n l :
  combine (flat_map (fun a => repeat a n) l) (flat_map (fun _ : nat => seq 0 n) l)
  = flat_map (fun a => map (pair a) (seq 0 n)) l.
Proof.
  induction l as [|a l IH]; [reflexivity|]. cbn [flat_map].
  rewrite combine_app_c18 by (rewrite repeat_length, seq_length; reflexivity).
  rewrite IH. f_equal. pose proof (combine_repeat_l a (seq 0 n)) as H. rewrite seq_length in H. exact H.
Qed.

Lemma compress_map2_fst {A B} (f : A -> B -> bool) l1 l2 :
  compress (map2 f l1 l2) l1 = map fst (filter (fun p => f (fst p) (snd p)) (combine l1 l2)).
Proof.
  revert l2; induction l1 as [|a r IH]; intros [|b r2]; cbn [map2 compress combine filter map]; try reflexivity.
  cbn [fst snd]. destruct (f a b); cbn [map fst]; rewrite IH; reflexivity.
Qed.

Lemma compress_map2_snd {A B} (f : A -> B -> bool) l1 l2 :
  compress (map2 f l1 l2) l2 = map snd (filter (fun p => f (fst p) (snd p)) (combine l1 l2)).
Proof.
  revert l2; induction l1 as [|a r IH]; intros [|b r2]; cbn [map2 compress combine filter map]; try reflexivity.
  cbn [fst snd]. destruct (f a b); cbn [map snd]; rewrite IH; reflexivity.
Qed.

Lemma masked_i n :
  compress (map2 (fun a b => negb (a =? b)) (flat_map (fun a => repeat a n) (seq 0 n))
                 (flat_map (fun _ : nat => seq 0 n) (seq 0 n)))
           (flat_map (fun a => repeat a n) (seq 0 n)) = map fst (offdiag n).
Proof. rewrite compress_map2_fst, mgrid_combine. reflexivity. Qed.

Lemma masked_j n :
  compress (map2 (fun a b => negb (a =? b)) (flat_map (fun a => repeat a n) (seq 0 n))
                 (flat_map (fun _ : nat => seq 0 n) (seq 0 n)))
           (flat_map (fun _ : nat => seq 0 n) (seq 0 n)) = map snd (offdiag n).
Proof. rewrite compress_map2_snd, mgrid_combine. reflexivity. Qed.

(* the sort input, one quadruple per row *)
Definition mkq (t : (nat * nat) * nat) : quad :=
  (Z.of_nat (Nat.max (fst (fst t)) (snd (fst t))), Z.of_nat (fst (fst t)), Z.of_nat (snd (fst t)), snd t).
Definition projq (t : quad) : nat * nat := (Z.to_nat (q_k2 t), Z.to_nat (q_k3 t)).

Lemma projq_mkq u : projq (mkq u) = fst u.
Proof.
  destruct u as [[a b] i]. unfold projq, mkq, q_k2, q_k3. cbn [fst snd]. rewrite !Nat2Z.id. reflexivity.
Qed.

Lemma quads_eq (D : list (nat * nat)) : forall ixs : list nat,
  combine (combine (combine (map Z.of_nat (map2 Nat.max (map fst D) (map snd D)))
                            (map Z.of_nat (map fst D))) (map Z.of_nat (map snd D))) ixs
  = map mkq (combine D ixs).
Proof.
  induction D as [|[a b] D IH]; intros [|i ixs]; cbn [map map2 combine fst snd]; try reflexivity.
  rewrite IH. reflexivity.
Qed.

Lemma qleb_mkq u v : qleb (mkq u) (mkq v) = true -> pr_le (fst u) (fst v).
Proof.
  destruct u as [[a b] i], v as [[c d] j]. unfold qleb, mkq, q_k1, q_k2, q_k3, q_ix, pr_le. cbn [fst snd].
  repeat match goal with
  | |- context [Z.ltb ?x ?y] => destruct (Z.ltb_spec x y)
  end; intros Hq; try discriminate; lia.
Qed.

Definition quads (n : nat) : list quad := map mkq (combine (offdiag n) (seq 0 (length (offdiag n)))).

Lemma all_pairs_sorted_keys n : all_pairs n = map projq (qsort (quads n)).
Proof.
  unfold all_pairs. cbv zeta. rewrite masked_i, masked_j. unfold lexsort3.
  rewrite map_length, map2_length, !map_length, Nat.min_id, quads_eq.
  fold (quads n). rewrite !map_map, combine_map_map.
  apply map_ext_in. intros t Ht.
  apply (Permutation_in _ (Permutation_sym (qsort_perm (quads n)))) in Ht.
  unfold quads in Ht. apply in_map_iff in Ht. destruct Ht as (u & <- & Hu).
  rewrite projq_mkq. apply (combine_seq_in _ (0, 0)) in Hu. destruct Hu as [Hr Hf].
  rewrite Nat.sub_0_r in Hf. destruct u as [[a b] ix]. cbn [fst snd] in Hr, Hf |- *.
  unfold mkq, q_ix, getn. cbn [fst snd].
  rewrite (nth_map_lt fst (offdiag n) ix 0 (0, 0)) by lia.
  rewrite (nth_map_lt snd (offdiag n) ix 0 (0, 0)) by lia.
  rewrite <- Hf. reflexivity.
Qed.

Lemma offdiag_perm n : Permutation (offdiag n) (all_pairs_ref n).
Proof.
  apply NoDup_Permutation.
  - unfold offdiag. apply NoDup_filter. unfold grid. apply nodup_flat_pairs; [apply seq_NoDup|].
    intros a _. apply seq_NoDup.
  - apply all_pairs_complete.
  - intros [a b]. rewrite in_all_pairs_ref. unfold offdiag, grid. rewrite filter_In, in_flat_map.
    cbn [fst snd]. rewrite negb_true_iff, Nat.eqb_neq. split.
    + intros [(x & Hx & Hin) Hne]. apply in_map_iff in Hin. destruct Hin as (y & E & Hy).
      injection E as E1 E2. apply in_seq in Hx. apply in_seq in Hy. subst. lia.
    + intros (Ha & Hb & Hne). split; [|exact Hne]. exists a. split; [apply in_seq; lia|].
      apply in_map. apply in_seq. lia.
Qed.

Theorem all_pairs_model_ref : forall n, all_pairs n = all_pairs_ref n.
Proof.
  intros n. rewrite all_pairs_sorted_keys.
  apply (sorted_perm_unique pr_le pr_le_antisym).
  - apply StronglySorted_map_in with (R1 := fun x y => qleb x y = true); [apply qsort_sorted|].
    intros x y Hx Hy Hle.
    apply (Permutation_in _ (Permutation_sym (qsort_perm (quads n)))) in Hx, Hy.
    unfold quads in Hx, Hy. apply in_map_iff in Hx, Hy.
    destruct Hx as (u & <- & _). destruct Hy as (v & <- & _).
    rewrite !projq_mkq. apply qleb_mkq. exact Hle.
  - apply StronglySorted_impl_c18 with (R1 := pr_lt); [exact pr_lt_le|apply all_pairs_ref_sorted].
  - apply Permutation_trans with (l' := offdiag n); [|apply offdiag_perm].
    apply Permutation_trans with (l' := map projq (quads n)).
    + apply Permutation_map, Permutation_sym, qsort_perm.
    + unfold quads. rewrite map_map.
      rewrite (map_ext _ fst projq_mkq), map_fst_combine_c18 by (rewrite seq_length; reflexivity).
      apply Permutation_refl.
Qed.

Example all_pairs_4 :
  all_pairs 4 = [(0,1);(1,0);(0,2);(1,2);(2,0);(2,1);(0,3);(1,3);(2,3);(3,0);(3,1);(3,2)]
  /\ all_pairs_ref 4 = all_pairs 4.
Proof. vm_compute. split; reflexivity. Qed.

Print Assumptions all_pairs_model_ref.
Print Assumptions all_pairs_complete.
Print Assumptions all_pairs_prefix.
