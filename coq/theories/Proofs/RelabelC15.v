(* C15 — relabel: np.unique as sort + dedup gives a strictly increasing list with the same
   elements; the lookup table is an order isomorphism onto 1..n. *)
From Coq Require Import ZArith List Bool Lia ZifyBool Sorted.
From Centro Require Import Base.GraphC15 Model.LabelGraph.
Import ListNotations.
Open Scope Z_scope.

Lemma insert_in (x : Z) l : forall y, In y (insert_by (fun v => v) x l) <-> y = x \/ In y l.
Proof.
  induction l as [|a l IH]; intros y; cbn [insert_by In].
  - intuition.
  - destruct (x <=? a); cbn [In]; [intuition|]. rewrite IH. intuition.
Qed.
Lemma insert_sorted (x : Z) l : StronglySorted Z.le l -> StronglySorted Z.le (insert_by (fun v => v) x l).
Proof.
  induction 1 as [|a l SS IH Fa]; cbn [insert_by].
  - constructor; constructor.
  - rewrite Forall_forall in Fa. destruct (Z.leb_spec x a) as [L|L].
    + constructor; [constructor; [exact SS|apply Forall_forall; exact Fa]|].
      apply Forall_forall. intros y [<-|Hy]; [exact L|]. specialize (Fa y Hy). lia.
    + constructor; [exact IH|]. apply Forall_forall. intros y Hy. apply insert_in in Hy.
      destruct Hy as [->|Hy]; [lia|auto].
Qed.
Lemma zsort_in l : forall y, In y (zsort l) <-> In y l.
Proof.
  unfold zsort, sort_by. induction l as [|a l IH]; intros y; cbn [fold_right In]; [tauto|].
  rewrite insert_in, IH. intuition.
Qed.
Lemma zsort_sorted l : StronglySorted Z.le (zsort l).
Proof.
  unfold zsort, sort_by. induction l as [|a l IH]; cbn [fold_right]; [constructor|].
  apply insert_sorted. exact IH.
Qed.

Lemma dedup_in l : forall y, In y (dedup l) <-> In y l.
Proof.
  induction l as [|x r IH]; intros y; [tauto|].
  destruct r as [|z r']; [cbn; tauto|].
  change (dedup (x :: z :: r')) with (if x =? z then dedup (z :: r') else x :: dedup (z :: r')).
  destruct (Z.eqb_spec x z) as [->|N].
  - rewrite IH. cbn [In]. tauto.
  - cbn [In]. rewrite IH. cbn [In]. tauto.
Qed.
Lemma dedup_sorted l : StronglySorted Z.le l -> StronglySorted Z.lt (dedup l).
Proof.
  induction 1 as [|x r SS IH Fx]; [constructor|].
  destruct r as [|z r']; [cbn; constructor; constructor|].
  change (dedup (x :: z :: r')) with (if x =? z then dedup (z :: r') else x :: dedup (z :: r')).
  destruct (Z.eqb_spec x z) as [->|N]; [exact IH|].
  constructor; [exact IH|]. apply Forall_forall. intros y Hy. rewrite dedup_in in Hy.
  rewrite Forall_forall in Fx. pose proof (Fx z (or_introl eq_refl)).
  apply StronglySorted_inv in SS. destruct SS as [_ Fz]. rewrite Forall_forall in Fz.
  cbn [In] in Hy. destruct Hy as [<-|Hy]; [lia|]. specialize (Fz y Hy). lia.
Qed.
(* np.unique *)
Lemma zunique_in l : forall y, In y (zunique l) <-> In y l.
Proof. intros y. unfold zunique. rewrite dedup_in, zsort_in. tauto. Qed.
Lemma zunique_sorted l : StronglySorted Z.lt (zunique l).
Proof. unfold zunique. apply dedup_sorted. apply zsort_sorted. Qed.

(* the lookup table *)
Lemma tg_absent U : forall k x, ~ In x U -> table_get U k x = 0.
Proof.
  induction U as [|u r IH]; intros k x H; cbn [table_get]; [reflexivity|].
  destruct (Z.eqb_spec x u) as [->|N]; [exfalso; apply H; left; auto|]. apply IH. intros Hin. apply H. right; auto.
Qed.
Lemma tg_range U : forall k x, In x U -> k <= table_get U k x < k + Z.of_nat (length U).
Proof.
  induction U as [|u r IH]; intros k x H; [destruct H|]. cbn [table_get length].
  destruct (Z.eqb_spec x u) as [->|N]; [lia|]. destruct H as [->|H]; [congruence|].
  specialize (IH (k + 1) x H). lia.
Qed.
Lemma tg_mono U : StronglySorted Z.lt U -> forall k x y, In x U -> In y U ->
  (x < y <-> table_get U k x < table_get U k y).
Proof.
  induction 1 as [|u r SS IH Fu]; intros k x y Hx Hy; [destruct Hx|].
  rewrite Forall_forall in Fu. cbn [table_get].
  destruct Hx as [<-|Hx], Hy as [<-|Hy].
  - rewrite Z.eqb_refl. lia.
  - rewrite Z.eqb_refl. pose proof (Fu y Hy). destruct (Z.eqb_spec y u); [lia|].
    pose proof (tg_range r (k + 1) y Hy). lia.
  - rewrite Z.eqb_refl. pose proof (Fu x Hx). destruct (Z.eqb_spec x u); [lia|].
    pose proof (tg_range r (k + 1) x Hx). lia.
  - pose proof (Fu x Hx). pose proof (Fu y Hy).
    destruct (Z.eqb_spec x u); [lia|]. destruct (Z.eqb_spec y u); [lia|]. apply IH; auto.
Qed.
Lemma tg_onto U : StronglySorted Z.lt U -> forall k0 k, k0 <= k < k0 + Z.of_nat (length U) ->
  exists x, In x U /\ table_get U k0 x = k.
Proof.
  induction 1 as [|u r SS IH Fu]; intros k0 k Hk; cbn [length] in Hk; [lia|].
  rewrite Forall_forall in Fu. destruct (Z.eq_dec k k0) as [->|N].
  - exists u. split; [left; auto|]. cbn [table_get]. rewrite Z.eqb_refl. reflexivity.
  - destruct (IH (k0 + 1) k ltac:(lia)) as [x [Hx E]]. exists x. split; [right; auto|].
    cbn [table_get]. pose proof (Fu x Hx). destruct (Z.eqb_spec x u); [lia|exact E].
Qed.

Lemma map_map_id (img : image) : map (map (fun x : Z => x)) img = img.
Proof. induction img as [|r img IH]; cbn [map]; [reflexivity|]. rewrite map_id, IH. reflexivity. Qed.

(* relabel renumbers the labels to 1..n preserving their order (hence their pixel sets):
   the output is the input mapped through a function that fixes the background, is strictly
   monotone on the labels present and maps them onto 1..n *)
Theorem relabel_spec (img : image) : exists f : Z -> Z,
  fst (relabel img) = map (map f) img /\ f 0 = 0 /\
  (forall x, x <> 0 -> In x (concat img) -> 1 <= f x <= snd (relabel img)) /\
  (forall x y, x <> 0 -> y <> 0 -> In x (concat img) -> In y (concat img) -> (x < y <-> f x < f y)) /\
  (forall k, 1 <= k <= snd (relabel img) -> exists x, x <> 0 /\ In x (concat img) /\ f x = k).
Proof.
  unfold relabel.
  set (nz := filter (fun x => negb (x =? 0)) (concat img)).
  assert (NZ : forall x, In x (zunique nz) <-> x <> 0 /\ In x (concat img)).
  { intros x. rewrite zunique_in. unfold nz. rewrite filter_In. split.
    - intros [Hin Hne]. split; [lia|exact Hin].
    - intros [Hne Hin]. split; [exact Hin|lia]. }
  pose proof (zunique_sorted nz) as SS.
  destruct (zunique nz) as [|u0 U'] eqn:EU.
  - exists (fun x => x). cbn [fst snd]. split; [symmetry; apply map_map_id|]. split; [reflexivity|].
    split; [|split].
    + intros x Hx Hin. exfalso. apply (proj2 (NZ x)); auto.
    + intros x y Hx _ Hin. exfalso. apply (proj2 (NZ x)); auto.
    + intros k Hk. lia.
  - set (U := u0 :: U') in *. exists (table_get U 1). cbn [fst snd].
    split; [reflexivity|]. split; [|split; [|split]].
    + apply tg_absent. intros H. apply NZ in H. lia.
    + intros x Hx Hin. pose proof (tg_range U 1 x (proj2 (NZ x) (conj Hx Hin))). lia.
    + intros x y Hx Hy Hix Hiy. apply tg_mono; [exact SS|apply NZ; auto|apply NZ; auto].
    + intros k Hk. destruct (tg_onto U SS 1 k ltac:(lia)) as [x [Hx E]].
      apply NZ in Hx. exists x. tauto.
Qed.

Example relabel_example : relabel [[0; 7; 7]; [3; 0; 9]] = ([[0; 2; 2]; [1; 0; 3]], 3).
Proof. vm_compute. reflexivity. Qed.
