(* C01 — phase 2 of the executable model, Fixed variant: reduction transfer (_lapjv.pyx:81-98 with the row
   offset repaired) preserves the array-model invariant Inv established by column reduction.
   Bookkeeping: the rows still to be processed have u = 0 and sit tightly (reduced cost 0) on their
   column; x0 is injective on assigned columns; all reduced costs are non-negative. *)
From Coq Require Import ZArith List Bool Lia ZifyBool Arith.
From Centro Require Import Base.Sx Model.Lapjv Spec.Lapjv Proofs.LapjvPhases Proofs.LapjvArr Proofs.LapjvRows.
Import ListNotations.
Open Scope Z_scope.

(* ---------------------------------------------------------------- the scan, on a row given as (j, c : Z) pairs *)

Lemma rt_scan_att j1 v (zrow : list (nat * Z)) :
  (forall jt c, In (jt, c) zrow -> exists z, gete v jt = Fin z) ->
  forall mu at_ mu' at',
  rt_scan j1 v (map fst zrow) (map Fin (map snd zrow)) mu at_ = (mu', at') ->
  (mu' = mu /\ at' = at_) \/
  (exists jt c, In (jt, c) zrow /\ jt <> j1 /\ mu' = Fin (c - vz v jt) /\ at' <> None).
Proof.
  induction zrow as [|[jt c] r IH]; intros Hv mu at_ mu' at'; cbn [map fst snd rt_scan].
  - intros E; inversion E; auto.
  - assert (Hr : forall jt' c', In (jt', c') r -> exists z, gete v jt' = Fin z) by (intros; eapply Hv; right; eauto).
    assert (Lift : forall mu0 at0, rt_scan j1 v (map fst r) (map Fin (map snd r)) mu0 at0 = (mu', at') ->
              (mu' = mu0 /\ at' = at0) \/
              (exists jt' c', In (jt', c') ((jt, c) :: r) /\ jt' <> j1 /\ mu' = Fin (c' - vz v jt') /\ at' <> None)).
    { intros mu0 at0 E. destruct (IH Hr _ _ _ _ E) as [H|[jt' [c' [Hin H]]]]; [left; auto|].
      right. exists jt', c'. split; [right; auto|auto]. }
    destruct (Nat.eqb_spec jt j1) as [Ej|Nj]; [apply Lift|].
    destruct (Hv jt c (or_introl eq_refl)) as [z Hz]. rewrite Hz. cbn [esub eneg eadd].
    destruct (eltb (Fin (c + - z)) mu); [|apply Lift].
    intros E. destruct (Lift _ _ E) as [[-> ->]|H]; [|auto].
    right. exists jt, c. split; [left; auto|]. split; auto. rewrite (vz_fin _ _ _ Hz).
    split; [f_equal; lia|discriminate].
Qed.

Lemma rt_scan_bound j1 v (zrow : list (nat * Z)) :
  (forall jt c, In (jt, c) zrow -> exists z, gete v jt = Fin z) ->
  forall mu at_ mu' at',
  (mu = PInf \/ exists m, mu = Fin m) ->
  rt_scan j1 v (map fst zrow) (map Fin (map snd zrow)) mu at_ = (mu', at') ->
  (forall m, mu = Fin m -> exists m', mu' = Fin m' /\ m' <= m) /\
  (mu' = PInf \/ exists m', mu' = Fin m') /\
  forall jt c, In (jt, c) zrow -> jt <> j1 -> exists m, mu' = Fin m /\ m <= c - vz v jt.
Proof.
  induction zrow as [|[jt c] r IH]; intros Hv mu at_ mu' at' Hmu; cbn [map fst snd rt_scan].
  - intros E; inversion E; subst. split; [intros m ->; exists m; split; auto; lia|]. split; auto. intros ? ? [].
  - assert (Hr : forall jt' c', In (jt', c') r -> exists z, gete v jt' = Fin z) by (intros; eapply Hv; right; eauto).
    destruct (Nat.eqb_spec jt j1) as [Ej|Nj].
    + intros E. destruct (IH Hr _ _ _ _ Hmu E) as [A [F B]]. split; auto. split; auto.
      intros jt' c' [Hin|Hin] Hne; [inversion Hin; subst; congruence|eauto].
    + destruct (Hv jt c (or_introl eq_refl)) as [z Hz]. rewrite Hz. cbn [esub eneg eadd].
      pose proof (vz_fin _ _ _ Hz) as Vz.
      destruct (eltb (Fin (c + - z)) mu) eqn:Lt; intros E.
      * destruct (IH Hr (Fin (c + - z)) (Some jt) mu' at' (or_intror (ex_intro _ _ eq_refl)) E) as [A [F B]].
        destruct (A _ eq_refl) as [m' [-> Lm]].
        split; [|split; [right; eauto|]].
        -- intros m ->. cbn [eltb] in Lt. exists m'; split; auto. lia.
        -- intros jt' c' [Hin|Hin] Hne; [|eauto]. inversion Hin; subst. exists m'; split; auto; try lia.
      * destruct (IH Hr _ _ _ _ Hmu E) as [A [F B]]. split; auto. split; auto.
        intros jt' c' [Hin|Hin] Hne; [|eauto]. inversion Hin; subst.
        destruct Hmu as [->|[m ->]]; [cbn [eltb] in Lt; discriminate|].
        cbn [eltb] in Lt. destruct (A _ eq_refl) as [m' [-> Lm]]. exists m'; split; auto. lia.
Qed.

(* ---------------------------------------------------------------- steps that only change prices *)

Section Rt.
Variables (n : nat) (rows : list (list (nat * ext))).
Hypothesis Rfin : forall i j c, In (j, c) (row rows i) -> (j < n)%nat /\ exists z, c = Fin z.

Lemma Inv_ext x y v v' : length v' = n -> (forall k, gete v' k = gete v k) -> Inv n rows x y v -> Inv n rows x y v'.
Proof.
  intros L E [Lx [Ly [[_ FV] SL]]]. repeat split; auto.
  - intros j Hj. rewrite E. auto.
  - destruct (SL j i H H0 H1) as [A _]; exact A.
  - destruct (SL j i H H0 H1) as [_ [A _]]; exact A.
  - destruct (SL j i H H0 H1) as [_ [_ [c [Hin Hmin]]]]. exists c. split; auto.
    intros j' c' Hin'. unfold vz. rewrite !E. apply Hmin; auto.
Qed.

Lemma lower_step x y v v' j1 :
  Inv n rows x y v -> FinV n v' -> (forall k, k <> j1 -> vz v' k = vz v k) -> vz v' j1 <= vz v j1 ->
  (forall i, getn y j1 n = i -> i <> n ->
     exists c, In (j1, Fin c) (row rows i) /\ forall j' c', In (j', Fin c') (row rows i) -> c - vz v' j1 <= c' - vz v' j') ->
  Inv n rows x y v'.
Proof.
  intros [Lx [Ly [FV SL]]] FV' Vo Vj Hrow. repeat split; auto; try apply FV'.
  - destruct (SL j i H H0 H1) as [A _]; exact A.
  - destruct (SL j i H H0 H1) as [_ [A _]]; exact A.
  - destruct (Nat.eq_dec j j1) as [->|NE]; [apply Hrow; auto|].
    destruct (SL j i H H0 H1) as [_ [_ [c [Hin Hmin]]]]. exists c. split; auto.
    intros j' c' Hin'. specialize (Hmin j' c' Hin'). rewrite (Vo j NE).
    destruct (Nat.eq_dec j' j1) as [->|NE']; [lia|rewrite (Vo j' NE'); auto].
Qed.

Definition DualFeas (v : list ext) : Prop :=
  forall i j c, In (j, Fin c) (row rows i) -> 0 <= c - vz v j.
Definition TightOn (x : list nat) (v : list ext) (l : list nat) : Prop :=
  forall i, In i l -> getn x i n <> n -> exists c, In (getn x i n, Fin c) (row rows i) /\ c - vz v (getn x i n) = 0.
Definition Xinj (x : list nat) : Prop :=
  forall i i', getn x i n = getn x i' n -> getn x i n <> n -> i = i'.

Definition unfin (e : ext) : Z := match e with Fin z => z | _ => 0 end.
Definition zrow (i : nat) : list (nat * Z) := map (fun p => (fst p, unfin (snd p))) (row rows i).

Lemma zrow_fst i : map fst (zrow i) = map fst (row rows i).
Proof. unfold zrow. rewrite map_map. apply map_ext. reflexivity. Qed.
Lemma zrow_snd i : map Fin (map snd (zrow i)) = map snd (row rows i).
Proof.
  unfold zrow. rewrite !map_map. apply map_ext_in. intros [j c] Hin. cbn [fst snd].
  destruct (Rfin i j c Hin) as [_ [z ->]]. reflexivity.
Qed.
Lemma zrow_in i j c : In (j, c) (zrow i) <-> In (j, Fin c) (row rows i).
Proof.
  unfold zrow. rewrite in_map_iff. split.
  - intros [[j' c'] [E Hin]]. cbn [fst snd] in E. destruct (Rfin i j' c' Hin) as [_ [z ->]]. cbn in E. inversion E; subst. exact Hin.
  - intros Hin. exists (j, Fin c). split; auto.
Qed.

(* one row of reduction transfer *)
Lemma rt_row_inv x y u v i rest :
  Inv n rows x y v -> DualFeas v -> Xinj x -> NoDup (i :: rest) -> (i < n)%nat ->
  (forall i', In i' (i :: rest) -> gete u i' = Fin 0) -> TightOn x v (i :: rest) ->
  let uv' := rt_row Fixed n rows (jflat_of rows) x (u, v) i in
  Inv n rows x y (snd uv') /\ DualFeas (snd uv') /\
  (forall i', In i' rest -> gete (fst uv') i' = Fin 0) /\ TightOn x (snd uv') rest.
Proof.
  intros HI DF XI ND Hi U0 TI. cbn zeta. unfold rt_row.
  pose proof HI as [Lx [Ly [FV SL]]].
  fold (row rows i). rewrite <- (zrow_fst i), <- (zrow_snd i).
  assert (Hv : forall jt c, In (jt, c) (zrow i) -> exists z, gete v jt = Fin z).
  { intros jt c Hin. apply zrow_in in Hin. destruct (Rfin i jt _ Hin) as [Hjt _]. apply FV; auto. }
  destruct (rt_scan (getn x i n) v (map fst (zrow i)) (map Fin (map snd (zrow i))) PInf None) as [mu at_] eqn:ES.
  inversion ND as [|? ? Nin ND']; subst.
  assert (Keep : Inv n rows x y v /\ DualFeas v /\ (forall i', In i' rest -> gete u i' = Fin 0) /\ TightOn x v rest).
  { split; [exact HI|split; [exact DF|split]]; [intros; apply U0; right; auto|intros i' Hi'; apply TI; right; auto]. }
  destruct at_ as [jat|]; cbn [fst snd]; [|exact Keep].
  destruct (rt_scan_att _ v (zrow i) Hv _ _ _ _ ES) as [[_ Ea]|[jt [c [Hin [Nj [Emu _]]]]]]; [discriminate|].
  subst mu. rewrite (U0 i (or_introl eq_refl)).
  set (j1 := getn x i n) in *. set (m := c - vz v jt) in *.
  assert (Hm : 0 <= m) by (apply (DF i jt c); apply zrow_in; auto).
  destruct (Nat.eq_dec j1 n) as [En|Nn].
  - (* x[i] = n: the write to v[n] is out of range *)
    assert (Same : forall k, gete (upd v j1 (esub (gete v j1) (esub (Fin m) (Fin 0)))) k = gete v k).
    { intros k. rewrite gete_upd. rewrite (proj1 FV), En, Nat.ltb_irrefl, andb_false_r. reflexivity. }
    assert (Vs : forall k, vz (upd v j1 (esub (gete v j1) (esub (Fin m) (Fin 0)))) k = vz v k) by (intros; unfold vz; rewrite Same; auto).
    split; [apply (Inv_ext x y v); auto; rewrite upd_length; apply FV|]. split; [intros i0 j0 c0 H0; rewrite Vs; eapply DF; eauto|].
    split.
    + intros i' Hi'. rewrite gete_upd. destruct (Nat.eqb_spec i' i); [subst; contradiction|]. cbn [andb]. apply U0; right; auto.
    + intros i' Hi' Hx. destruct (TI i' (or_intror Hi') Hx) as [c0 [H0 T0]]. exists c0. split; auto. rewrite Vs. exact T0.
  - assert (Hj1 : (j1 < n)%nat).
    { destruct (TI i (or_introl eq_refl) Nn) as [c0 [H0 _]]. apply (Rfin i _ _ H0). }
    destruct (proj2 FV j1 Hj1) as [z1 Hz1]. pose proof (vz_fin _ _ _ Hz1) as Vz1.
    set (v' := upd v j1 (esub (gete v j1) (esub (Fin m) (Fin 0)))).
    assert (Hv'j : gete v' j1 = Fin (z1 + - (m + - 0))).
    { unfold v'. rewrite gete_upd, Nat.eqb_refl, (proj1 FV). replace (j1 <? n)%nat with true by (symmetry; apply Nat.ltb_lt; auto).
      cbn [andb]. rewrite Hz1. reflexivity. }
    assert (Hv'o : forall k, k <> j1 -> gete v' k = gete v k).
    { intros k Hk. unfold v'. rewrite gete_upd. destruct (Nat.eqb_spec k j1); [contradiction|]. reflexivity. }
    assert (FV' : FinV n v').
    { split; [unfold v'; rewrite upd_length; apply FV|]. intros k Hk. destruct (Nat.eq_dec k j1) as [->|NE]; [eauto|].
      rewrite Hv'o by auto. apply FV; auto. }
    assert (Vo : forall k, k <> j1 -> vz v' k = vz v k) by (intros k Hk; unfold vz; rewrite Hv'o; auto).
    assert (Vj : vz v' j1 = z1 - m) by (rewrite (vz_fin _ _ _ Hv'j); lia).
    assert (DF' : DualFeas v').
    { intros i0 j0 c0 H0. specialize (DF i0 j0 c0 H0). destruct (Nat.eq_dec j0 j1) as [->|NE]; [lia|rewrite (Vo j0 NE); auto]. }
    destruct (rt_scan_bound j1 v (zrow i) Hv PInf None _ _ (or_introl eq_refl) ES) as [_ [_ Bnd]].
    split; [|split; [exact DF'|split]].
    + apply (lower_step x y v v' j1); auto; [lia|].
      intros i' Hy Hne. destruct (SL j1 i' Hj1 Hy Hne) as [_ [Hx' _]].
      assert (Ei : i' = i) by (apply XI; [fold j1; congruence|congruence]). rewrite Ei.
      destruct (TI i (or_introl eq_refl) Nn) as [c0 [H0 T0]]. fold j1 in H0, T0.
      exists c0. split; [exact H0|]. intros j' c' Hin'.
      destruct (Nat.eq_dec j' j1) as [->|NE].
      * specialize (DF i j1 c' Hin'). lia.
      * rewrite (Vo j' NE). destruct (Bnd j' c' (proj2 (zrow_in i j' c') Hin') NE) as [m0 [Em Lm]]. inversion Em; subst m0. lia.
    + intros i' Hi'. rewrite gete_upd. destruct (Nat.eqb_spec i' i); [subst; contradiction|]. cbn [andb]. apply U0; right; auto.
    + intros i' Hi' Hx. destruct (TI i' (or_intror Hi') Hx) as [c0 [H0 T0]]. exists c0. split; auto.
      assert (getn x i' n <> j1). { intros E. apply Nin. assert (Ei : i' = i) by (apply XI; [exact E|exact Hx]). rewrite <- Ei. exact Hi'. } rewrite (Vo _ H). exact T0.
Qed.

Theorem reduction_transfer_inv x y : Xinj x -> forall one u v,
  Inv n rows x y v -> DualFeas v -> NoDup one -> (forall i, In i one -> (i < n)%nat) ->
  (forall i, In i one -> gete u i = Fin 0) -> TightOn x v one ->
  let uv' := reduction_transfer Fixed n rows (jflat_of rows) x one u v in
  Inv n rows x y (snd uv') /\ DualFeas (snd uv').
Proof.
  intros XI. unfold reduction_transfer. induction one as [|i rest IH]; intros u v HI DF ND Hlt U0 TI; cbn [fold_left].
  - split; auto.
  - destruct (rt_row_inv x y u v i rest HI DF XI ND (Hlt i (or_introl eq_refl)) U0 TI) as [A [B [C D]]].
    destruct (rt_row Fixed n rows (jflat_of rows) x (u, v) i) as [u' v'] eqn:E. cbn [fst snd] in *.
    inversion ND; subst. apply IH; auto. intros; apply Hlt; right; auto.
Qed.
End Rt.

(* ---------------------------------------------------------------- phases 1+2 of lapjv() *)

Section Phase12.
Variables (n : nat) (tri : list triple).
Hypothesis Hrange : forall t, In t tri -> (t_i t < n)%nat /\ (t_j t < n)%nat.
Hypothesis Hpairs : NoDup (map fst tri).
Hypothesis Hcols : forall j, (j < n)%nat -> exists t, In t tri /\ t_j t = j.

Let rows := rows_of n tri.
Let mi := min_i n tri.
Let x0 := x_init n mi.
Let y0 := y_init n x0.
Let v0 := v_init n tri.

Lemma x0_inj : Xinj n x0.
Proof.
  intros i i' E Hn.
  assert (G : forall k, getn x0 k n <> n -> nth (getn x0 k n) mi n = k).
  { intros k Hk. unfold x0, x_init in *.
    destruct (x_init_go_spec n mi 0%nat (repeat n n) k _ eq_refl) as [H|[_ [H _]]].
    - exfalso. apply Hk. rewrite <- H. unfold getn. apply nth_repeat.
    - rewrite Nat.sub_0_r in H. exact H. }
  rewrite <- (G i Hn). rewrite E in Hn |- *. apply G. exact Hn.
Qed.

Lemma row_in_tri i j c : In (j, Fin c) (row rows i) -> In (i, j, c) tri.
Proof.
  unfold row, rows. rewrite rowget_rows_of. destruct (i <? n)%nat; [|intros []].
  intros H. apply row_of_in in H as [[]|[t [Hin [Ei E]]]]. injection E as -> ->. subst i.
  destruct t as [[a b] c']. exact Hin.
Qed.

Lemma v0_feasible : DualFeas rows v0.
Proof.
  intros i j c Hin. apply row_in_tri in Hin.
  destruct (column_reduction_feasible n tri (i, j, c) Hin (proj2 (Hrange _ Hin))) as [cc [E L]].
  cbn [t_j t_c fst snd] in *. unfold v0. rewrite (vz_fin _ _ _ E). exact L.
Qed.

Lemma x0_tight l : TightOn n rows x0 v0 l.
Proof.
  intros i _ Hn. destruct (column_reduction_tight n tri i _ eq_refl Hn) as [_ [c [E Hin]]].
  exists c. split.
  - apply (in_row_of_tri n tri Hrange (i, getn (x_init n (min_i n tri)) i n, c)). exact Hin.
  - unfold v0, x0, mi. rewrite (vz_fin _ _ _ E). lia.
Qed.

Theorem phase12_inv :
  let uv := reduction_transfer Fixed n rows (jflat_of rows) x0 (one_rows n mi) (repeat (Fin 0) n) v0 in
  Inv n rows x0 y0 (snd uv) /\ Pending n y0 (free_rows n mi).
Proof.
  cbn zeta. destruct (phase1_inv n tri Hrange Hcols) as [HI HP]. split; [|exact HP].
  apply (reduction_transfer_inv n rows (rows_fin n tri Hrange) x0 y0 x0_inj); auto.
  - exact v0_feasible.
  - apply NoDup_filter, seq_NoDup.
  - intros i Hi. apply filter_In in Hi as [Hi _]. apply in_seq in Hi. lia.
  - intros i Hi. apply filter_In in Hi as [Hi _]. apply in_seq in Hi. unfold gete.
    rewrite (nth_indep _ NaN (Fin 0)) by (rewrite repeat_length; lia). apply nth_repeat.
  - apply x0_tight.
Qed.
End Phase12.

(* ---------------------------------------------------------------- phases 1-3 as lapjv() chains them *)

Theorem phases123_inv n tri :
  (forall t, In t tri -> (t_i t < n)%nat /\ (t_j t < n)%nat) ->
  NoDup (map fst tri) ->
  (forall j, (j < n)%nat -> exists t, In t tri /\ t_j t = j) ->
  (forall i, (i < n)%nat -> (2 <= length (filter (fun t => (t_i t =? i)%nat) tri))%nat) ->
  forall epsr fuel k x y v ii, 0 <= epsr ->
  let rows := rows_of n tri in
  let mi := min_i n tri in
  let x0 := x_init n mi in
  let y0 := y_init n x0 in
  let uv := reduction_transfer Fixed n rows (jflat_of rows) x0 (one_rows n mi) (repeat (Fin 0) n) (v_init n tri) in
  match free_rows n mi with
  | [] => Some (x0, y0, snd uv, free_rows n mi)
  | _ => arr_passes k fuel (Fin 0) (Fin epsr) n rows (x0, y0, snd uv, free_rows n mi)
  end = Some (x, y, v, ii) ->
  Inv n rows x y v /\ Pending n y ii.
Proof.
  intros Hrange Hpairs Hcols Hc2 epsr fuel k x y v ii Her. cbn zeta.
  destruct (phase12_inv n tri Hrange Hcols) as [HI HP].
  destruct (free_rows n (min_i n tri)) as [|f0 fr] eqn:EF.
  - intros E. inversion E; subst. split; auto.
  - intros E. eapply (arr_passes_inv_model n tri Hrange Hpairs Hc2 epsr fuel k); eauto.
Qed.
