(* C10 — consistency of the heap's position table in the line-level model of min_cost_flow.hpp:
   _nodes_to_Q[Q[i]._to] = i for every heap slot i, established by the initialisation and
   preserved by swap_heap, heap_decrease_key, heapify, heap_remove_first and by a relaxation. *)
From Coq Require Import ZArith List Bool Lia ZifyBool.
From Centro Require Import Base.Sx Base.EmdBase Model.Emd Model.EmdMcf Proofs.EmdHeap.
Import ListNotations.
Open Scope Z_scope.

Definition pos_ok (h : heap) : Prop :=
  forall i en, oget (fst h) i = Some en -> oget (snd h) (fst en) = Some i.

Lemma oget_oset_eq {A} (x : A) : forall (l l' : list A) i, oset l i x = Some l' -> oget l' i = Some x.
Proof.
  induction l as [|a l IH]; intros l' i; destruct i as [|i]; cbn [oset]; try discriminate.
  - intros H. injection H as <-. reflexivity.
  - destruct (oset l i x) as [r|] eqn:E; [|discriminate]. intros H. injection H as <-. cbn. apply (IH r i E).
Qed.
Lemma oget_oset_neq {A} (x : A) : forall (l l' : list A) i j, oset l i x = Some l' -> j <> i -> oget l' j = oget l j.
Proof.
  induction l as [|a l IH]; intros l' i j; destruct i as [|i]; cbn [oset]; try discriminate.
  - intros H N. injection H as <-. destruct j; [lia|reflexivity].
  - destruct (oset l i x) as [r|] eqn:E; [|discriminate]. intros H N. injection H as <-.
    destruct j as [|j]; [reflexivity|]. cbn. apply (IH r i j E). lia.
Qed.

Lemma swap_heap_pos h i j h' : pos_ok h -> swap_heap h i j = Some h' -> pos_ok h'.
Proof.
  destruct h as [Q n2q]. unfold pos_ok. cbn [fst snd]. intros OK. unfold swap_heap.
  destruct (oget Q i) as [qi|] eqn:Ei; [|discriminate]. cbn [bind].
  destruct (oget Q j) as [qj|] eqn:Ej; [|discriminate]. cbn [bind].
  destruct (oset Q i qj) as [Q1|] eqn:E1; [|discriminate]. cbn [bind].
  destruct (oset Q1 j qi) as [Q2|] eqn:E2; [|discriminate]. cbn [bind].
  destruct (oset n2q (fst qi) j) as [n1|] eqn:E3; [|discriminate]. cbn [bind].
  destruct (oset n1 (fst qj) i) as [n2|] eqn:E4; [|discriminate]. cbn [bind].
  intros H. injection H as <-. cbn [fst snd]. intros k en Hk.
  pose proof (OK i qi Ei) as Pi. pose proof (OK j qj Ej) as Pj.
  destruct (Nat.eq_dec k j) as [->|Nj].
  - rewrite (oget_oset_eq _ _ _ _ E2) in Hk. injection Hk as <-.
    destruct (Nat.eq_dec (fst qi) (fst qj)) as [Eq|Nq].
    + rewrite Eq in Pi. rewrite Pi in Pj. injection Pj as ->. rewrite Eq. apply (oget_oset_eq _ _ _ _ E4).
    + rewrite (oget_oset_neq _ _ _ _ _ E4) by auto. apply (oget_oset_eq _ _ _ _ E3).
  - rewrite (oget_oset_neq _ _ _ _ _ E2) in Hk by auto.
    destruct (Nat.eq_dec k i) as [->|Ni].
    + rewrite (oget_oset_eq _ _ _ _ E1) in Hk. injection Hk as <-. apply (oget_oset_eq _ _ _ _ E4).
    + rewrite (oget_oset_neq _ _ _ _ _ E1) in Hk by auto. pose proof (OK k en Hk) as Pk.
      assert (fst en <> fst qj) by (intros X; rewrite X in Pk; rewrite Pk in Pj; injection Pj; lia).
      assert (fst en <> fst qi) by (intros X; rewrite X in Pk; rewrite Pk in Pi; injection Pi; lia).
      rewrite (oget_oset_neq _ _ _ _ _ E4) by auto. rewrite (oget_oset_neq _ _ _ _ _ E3) by auto. exact Pk.
Qed.

Lemma sift_up_pos : forall fuel h i h', pos_ok h -> sift_up fuel h i = Some h' -> pos_ok h'.
Proof.
  induction fuel as [|f IH]; intros h i h' OK; cbn [sift_up].
  - intros H. injection H as <-. auto.
  - destruct (i =? 0)%nat; [intros H; injection H as <-; auto|].
    destruct (oget (fst h) (PARENT i)) as [qp|]; [|discriminate]. cbn [bind].
    destruct (oget (fst h) i) as [qi|]; [|discriminate]. cbn [bind].
    destruct (snd qi <? snd qp); [|intros H; injection H as <-; auto].
    destruct (swap_heap h i (PARENT i)) as [h1|] eqn:E; [|discriminate]. cbn [bind].
    intros H. eapply IH; [|exact H]. eapply swap_heap_pos; eauto.
Qed.

Theorem heap_decrease_key_pos h v alt h' : pos_ok h -> heap_decrease_key h v alt = Some h' -> pos_ok h'.
Proof.
  intros OK. unfold heap_decrease_key.
  destruct (oget (snd h) v) as [i|]; [|discriminate]. cbn [bind].
  destruct (oget (fst h) i) as [qi|] eqn:Ei; [|discriminate]. cbn [bind].
  destruct (oset (fst h) i (fst qi, alt)) as [Q1|] eqn:E1; [|discriminate]. cbn [bind].
  apply sift_up_pos. intros k en Hk. cbn [fst snd] in *.
  destruct (Nat.eq_dec k i) as [->|N].
  - rewrite (oget_oset_eq _ _ _ _ E1) in Hk. injection Hk as <-. cbn [fst]. apply (OK i qi Ei).
  - rewrite (oget_oset_neq _ _ _ _ _ E1) in Hk by auto. apply OK; auto.
Qed.

Lemma heapify_pos : forall fuel h i h', pos_ok h -> heapify fuel h i = Some h' -> pos_ok h'.
Proof.
  induction fuel as [|f IH]; intros h i h' OK; cbn [heapify].
  - intros H. injection H as <-. auto.
  - cbv zeta.
    destruct (if (LEFT i <? length (fst h))%nat
              then ql <- oget (fst h) (LEFT i);; qi <- oget (fst h) i;; Some (if snd ql <? snd qi then LEFT i else i)
              else Some i) as [s1|]; [|discriminate]. cbn [bind].
    destruct (if (RIGHT i <? length (fst h))%nat
              then qr <- oget (fst h) (RIGHT i);; qs <- oget (fst h) s1;; Some (if snd qr <? snd qs then RIGHT i else s1)
              else Some s1) as [s2|]; [|discriminate]. cbn [bind].
    destruct (s2 =? i)%nat; [intros H; injection H as <-; auto|].
    destruct (swap_heap h i s2) as [h1|] eqn:E; [|discriminate]. cbn [bind].
    intros H. eapply IH; [|exact H]. eapply swap_heap_pos; eauto.
Qed.

Lemma oget_removelast {A} : forall (l : list A) i x, oget (removelast l) i = Some x -> oget l i = Some x.
Proof.
  induction l as [|a l IH]; intros i x; cbn [removelast]; [destruct i; discriminate|].
  destruct l as [|b l]; [destruct i; discriminate|].
  destruct i as [|i]; [auto|]. cbn [oget nth_error]. intros H. apply IH in H. exact H.
Qed.

Theorem heap_remove_first_pos h h' : pos_ok h -> heap_remove_first h = Some h' -> pos_ok h'.
Proof.
  intros OK. unfold heap_remove_first.
  destruct (swap_heap h 0 (length (fst h) - 1)) as [h1|] eqn:E; [|discriminate]. cbn [bind].
  apply heapify_pos. pose proof (swap_heap_pos _ _ _ _ OK E) as OK1.
  intros k en Hk. cbn [fst snd] in *. apply OK1. apply oget_removelast. exact Hk.
Qed.

Theorem relax_pos u du st v rc st' : pos_ok (sp_h st) -> relax u du st v rc = Some st' -> pos_ok (sp_h st').
Proof.
  intros OK. unfold relax.
  destruct (oget (snd (sp_h st)) v) as [pos|]; [|discriminate]. cbn [bind].
  destruct (pos <? length (fst (sp_h st)))%nat; [|intros H; injection H as <-; auto].
  destruct (oget (fst (sp_h st)) pos) as [qv|]; [|discriminate]. cbn [bind].
  destruct (du + rc <? snd qv); [|intros H; injection H as <-; auto].
  destruct (heap_decrease_key (sp_h st) v (du + rc)) as [h1|] eqn:E; [|discriminate]. cbn [bind].
  intros H. injection H as <-. cbn [sp_h]. eapply heap_decrease_key_pos; eauto.
Qed.

Lemma filter_all_id {A} (p : A -> bool) : forall l, (forall x, In x l -> p x = true) -> filter p l = l.
Proof.
  induction l as [|a l IH]; intros H; auto. cbn [filter]. rewrite (H a) by (left; auto).
  f_equal. apply IH. intros; apply H; right; auto.
Qed.

(* the heap built by compute_shortest_path *)
Lemma filter_neq_seq from : forall nv, (from < nv)%nat ->
  filter (fun i => negb (i =? from)%nat) (seq 0 nv) = seq 0 from ++ seq (S from) (nv - S from).
Proof.
  intros nv H.
  assert (S : seq 0 nv = seq 0 from ++ from :: seq (S from) (nv - S from)).
  { assert (E : nv = (from + S (nv - S from))%nat) by lia. rewrite E at 1. rewrite seq_app. reflexivity. }
  rewrite S, filter_app. cbn [filter]. rewrite Nat.eqb_refl. cbn [negb].
  f_equal.
  - apply filter_all_id. intros x Hx. apply in_seq in Hx.
    assert (E : (x =? from)%nat = false) by (apply Nat.eqb_neq; lia). rewrite E. reflexivity.
  - apply filter_all_id. intros x Hx. apply in_seq in Hx.
    assert (E : (x =? from)%nat = false) by (apply Nat.eqb_neq; lia). rewrite E. reflexivity.
Qed.

Theorem heap_init_pos nv from : (from < nv)%nat -> pos_ok (heap_init nv from).
Proof.
  intros H. unfold heap_init, pos_ok. cbn [fst snd]. rewrite filter_neq_seq by auto.
  intros i en Hi.
  assert (G : forall v, (v < nv)%nat ->
            oget (map (fun i => if (i =? from)%nat then O else if (i <? from)%nat then S i else i) (seq 0 nv)) v
            = Some (if (v =? from)%nat then O else if (v <? from)%nat then S v else v)).
  { intros v Hv. unfold oget. rewrite nth_error_map, nth_error_nth' with (d := O) by (rewrite seq_length; auto).
    rewrite seq_nth by auto. reflexivity. }
  destruct i as [|i].
  - cbn in Hi. injection Hi as <-. cbn [fst]. rewrite G by auto. rewrite Nat.eqb_refl. reflexivity.
  - cbn [oget nth_error] in Hi. rewrite map_app in Hi.
    destruct (Nat.lt_ge_cases i from) as [L|L].
    + rewrite nth_error_app1 in Hi by (rewrite map_length, seq_length; auto).
      rewrite nth_error_map, nth_error_nth' with (d := O) in Hi by (rewrite seq_length; auto).
      rewrite seq_nth in Hi by auto. cbn in Hi. injection Hi as <-. cbn [fst]. rewrite G by lia.
      assert (E1 : (i =? from)%nat = false) by (apply Nat.eqb_neq; lia).
      assert (E2 : (i <? from)%nat = true) by (apply Nat.ltb_lt; lia). rewrite E1, E2. reflexivity.
    + rewrite nth_error_app2 in Hi by (rewrite map_length, seq_length; auto).
      rewrite map_length, seq_length in Hi.
      destruct (Nat.lt_ge_cases (i - from) (nv - S from)) as [L2|L2].
      * rewrite nth_error_map, nth_error_nth' with (d := O) in Hi by (rewrite seq_length; auto).
        rewrite seq_nth in Hi by auto. cbn [option_map] in Hi. injection Hi as <-. cbn [fst].
        rewrite G by lia.
        try replace (S from + (i - from))%nat with (S i) by lia.
        try replace (S (from + (i - from)))%nat with (S i) by lia.
        destruct (S i =? from)%nat eqn:E1; [apply Nat.eqb_eq in E1; lia|].
        destruct (S i <? from)%nat eqn:E2; [apply Nat.ltb_lt in E2; lia|]. reflexivity.
      * assert (X : nth_error (map (fun i0 : nat => (i0, INTMAX)) (seq (S from) (nv - S from))) (i - from) = None)
          by (apply nth_error_None; rewrite map_length, seq_length; auto).
        rewrite X in Hi. discriminate.
Qed.
