(* C01 / C19-facing — phase 4 (augment, _lapjv.pyx:337-439), the bookkeeping of the work lists:
   [aug_marks_inv]: at every head of the `while True` loop of one free row r
     - to_do is duplicate-free, its columns are < n and carry the stamp on_to_do[j] = r;
     - ready ++ scan (the columns p_ready[0..n_ready) and p_scan[low..up)) is duplicate-free, its columns are < n
       and carry the stamp done[j] = r;
   hence n_to_do <= n, n_ready + (up - low) <= n at every write p_to_do[n_to_do] / p_scan[up] / p_ready[n_ready],
   and the column the loop exits with is < n and unassigned.  No assumption on the stamps left by earlier rows. *)
From Coq Require Import ZArith List Bool Lia ZifyBool Arith.
From Centro Require Import Base.Sx Model.Lapjv Spec.Lapjv Proofs.LapjvPhases Proofs.LapjvArr.
Import ListNotations.
Open Scope Z_scope.

Lemma nodup_snoc {A} (l : list A) a : NoDup l -> ~ In a l -> NoDup (l ++ [a]).
Proof.
  induction l as [|h r IH]; intros N Nin; cbn [app]; [constructor; auto; constructor|].
  inversion N; subst. constructor.
  - intros Hin. apply in_app_iff in Hin as [Hin|[E|[]]]; [contradiction|]. apply Nin. left. auto.
  - apply IH; auto. intros Hin. apply Nin. right. auto.
Qed.

Lemma nodup_bound (l : list nat) n : NoDup l -> (forall j, In j l -> (j < n)%nat) -> (length l <= n)%nat.
Proof.
  intros N B. rewrite <- (seq_length n 0). apply NoDup_incl_length; auto.
  intros j Hj. apply in_seq. specialize (B j Hj). lia.
Qed.

Section Marks.
Variables (r n : nat) (rows : list (list (nat * ext))) (y : list nat) (v : list ext) (inf : ext).
Hypothesis Rfin : forall i j c, In (j, c) (row rows i) -> (j < n)%nat.
Hypothesis Rnodup : forall i, NoDup (map fst (row rows i)).

Definition Marks (s : aug_state) : Prop :=
  length (g_done s) = n /\ length (g_ontodo s) = n /\
  NoDup (g_todo s) /\ (forall j, In j (g_todo s) -> (j < n)%nat /\ getn (g_ontodo s) j n = r) /\
  NoDup (g_ready s ++ g_scan s) /\ (forall j, In j (g_ready s ++ g_scan s) -> (j < n)%nat /\ getn (g_done s) j n = r).

Definition Bounds (s : aug_state) : Prop :=
  length (g_done s) = n /\ length (g_ontodo s) = n /\
  NoDup (g_todo s) /\ (forall j, In j (g_todo s) -> (j < n)%nat) /\
  NoDup (g_ready s ++ g_scan s) /\ (forall j, In j (g_ready s ++ g_scan s) -> (j < n)%nat).

Lemma Marks_Bounds s : Marks s -> Bounds s.
Proof.
  intros [A [B [C [D [E F]]]]]. repeat split; auto; [apply D|apply F]; auto.
Qed.

Lemma Bounds_lengths s : Bounds s ->
  (length (g_todo s) <= n)%nat /\ (length (g_ready s) + length (g_scan s) <= n)%nat.
Proof.
  intros [_ [_ [C [D [E F]]]]]. split; [apply nodup_bound; auto|].
  rewrite <- app_length. apply nodup_bound; auto.
Qed.

(* ---------------------------------------------------------------- initialisation of a row *)

Lemma aug_init_row_marks : forall row d ontodo pred,
  (forall j c, In (j, c) row -> (j < n)%nat) -> length ontodo = n ->
  let '(d', ontodo', pred') := aug_init_row r v row d ontodo pred in
  length ontodo' = n /\ (forall j c, In (j, c) row -> getn ontodo' j n = r) /\
  (forall k, getn ontodo k n = r -> getn ontodo' k n = r).
Proof.
  induction row as [|[j c] rr IH]; intros d ontodo pred HR L; cbn [aug_init_row].
  - split; auto. split; auto. intros ? ? [].
  - assert (Hj : (j < n)%nat) by (eapply HR; left; eauto).
    specialize (IH (upd d j (esub c (gete v j))) (upd ontodo j r) (upd pred j r)
                  (fun j' c' H => HR j' c' (or_intror H)) ltac:(rewrite upd_length; auto)).
    destruct (aug_init_row r v rr (upd d j (esub c (gete v j))) (upd ontodo j r) (upd pred j r)) as [[d' o'] p'].
    destruct IH as [L' [In' Keep]]. split; auto.
    assert (Kj : forall k, getn ontodo k n = r \/ k = j -> getn (upd ontodo j r) k n = r).
    { intros k H. rewrite getn_upd, L. destruct (Nat.eqb_spec k j) as [->|NE]; cbn [andb].
      - replace (j <? n)%nat with true by (symmetry; apply Nat.ltb_lt; auto). reflexivity.
      - destruct H; [auto|contradiction]. }
    split.
    + intros j' c' [E|Hin]; [inversion E; subst; apply Keep, Kj; auto|eapply In'; eauto].
    + intros k Hk. apply Keep, Kj. auto.
Qed.

(* ---------------------------------------------------------------- the minimum scan over to_do *)

Lemma aug_min_marks d done : forall todo umin acc,
  NoDup todo -> NoDup acc -> (forall a, In a acc -> ~ In a todo) ->
  let '(um, sc) := aug_min r n d done todo umin acc in
  NoDup sc /\ forall a, In a sc -> In a acc \/ (In a todo /\ getn done a n <> r).
Proof.
  induction todo as [|j tr IH]; intros umin acc Nt Na Dis; cbn [aug_min].
  - split; auto.
  - inversion Nt as [|? ? Nin Nt']; subst.
    assert (Dis' : forall a, In a acc -> ~ In a tr) by (intros a Ha Hin; apply (Dis a Ha); right; auto).
    assert (Lift : forall um0 acc0, NoDup acc0 -> (forall a, In a acc0 -> ~ In a tr) ->
              (forall a, In a acc0 -> In a acc \/ (a = j /\ getn done j n <> r)) ->
              let '(um, sc) := aug_min r n d done tr um0 acc0 in
              NoDup sc /\ forall a, In a sc -> In a acc \/ (In a (j :: tr) /\ getn done a n <> r)).
    { intros um0 acc0 N0 D0 Sub. specialize (IH um0 acc0 Nt' N0 D0).
      destruct (aug_min r n d done tr um0 acc0) as [um sc]. destruct IH as [A B]. split; auto.
      intros a Ha. destruct (B a Ha) as [H|[H1 H2]].
      - destruct (Sub a H) as [H'|[-> H']]; [left; auto|right; split; [left|]; auto].
      - right. split; [right|]; auto. }
    destruct (Nat.eqb_spec (getn done j n) r) as [E|NE].
    + apply Lift; auto.
    + destruct (eleb (gete d j) umin); [|apply Lift; auto].
      destruct (eltb (gete d j) umin).
      * apply Lift; [repeat constructor; intros []|intros a [<-|[]]; auto|intros a [<-|[]]; right; auto].
      * apply Lift.
        -- apply nodup_snoc; auto. intros Hin. apply (Dis j Hin). left; auto.
        -- intros a Ha. apply in_app_iff in Ha as [Ha|[<-|[]]]; auto.
        -- intros a Ha. apply in_app_iff in Ha as [Ha|[<-|[]]]; [left|right]; auto.
Qed.

(* ---------------------------------------------------------------- marking the new scan list *)

Lemma aug_first_free_marks : forall scan done,
  (forall j, In j scan -> (j < n)%nat) -> length done = n ->
  let '(f, done') := aug_first_free r n y scan done in
  length done' = n /\ (forall k, getn done k n = r -> getn done' k n = r) /\
  (f = None -> forall j, In j scan -> getn done' j n = r) /\
  (forall j1, f = Some j1 -> In j1 scan /\ getn y j1 n = n).
Proof.
  induction scan as [|j sr IH]; intros done HS L; cbn [aug_first_free].
  - split; auto. split; auto. split; [intros _ ? []|discriminate].
  - destruct (Nat.eqb_spec (getn y j n) n) as [E|NE].
    + split; auto. split; auto. split; [discriminate|]. intros j1 H; inversion H; subst. split; [left|]; auto.
    + assert (Hj : (j < n)%nat) by (apply HS; left; auto).
      specialize (IH (upd done j r) (fun k H => HS k (or_intror H)) ltac:(rewrite upd_length; auto)).
      destruct (aug_first_free r n y sr (upd done j r)) as [f done']. destruct IH as [L' [Keep [AllN Found]]].
      assert (Kj : forall k, getn done k n = r \/ k = j -> getn (upd done j r) k n = r).
      { intros k H. rewrite getn_upd, L. destruct (Nat.eqb_spec k j) as [->|NE']; cbn [andb].
        - replace (j <? n)%nat with true by (symmetry; apply Nat.ltb_lt; auto). reflexivity.
        - destruct H; [auto|contradiction]. }
      split; auto. split; [intros k Hk; apply Keep, Kj; auto|]. split.
      * intros Ef k [<-|Hk]; [apply Keep, Kj; auto|apply AllN; auto].
      * intros j1 Ef. destruct (Found j1 Ef) as [A B]. split; [right|]; auto.
Qed.

(* ---------------------------------------------------------------- state updates that keep Marks *)

Lemma Marks_dp s d' pred' umin' : Marks s ->
  Marks (mkAug d' pred' (g_done s) (g_ontodo s) (g_todo s) (g_scan s) (g_ready s) umin').
Proof. intros M. exact M. Qed.

Lemma Marks_scan_snoc s d' pred' j : Marks s -> (j < n)%nat -> getn (g_done s) j n <> r ->
  Marks (mkAug d' pred' (upd (g_done s) j r) (g_ontodo s) (g_todo s) (g_scan s ++ [j]) (g_ready s) (g_umin s)).
Proof.
  intros [Ld [Lo [Nt [Ht [Nrs Hrs]]]]] Hj NE. unfold Marks. cbn [g_done g_ontodo g_todo g_scan g_ready].
  split; [rewrite upd_length; auto|]. split; auto. split; auto. split; [exact Ht|].
  assert (Nin : ~ In j (g_ready s ++ g_scan s)) by (intros Hin; destruct (Hrs j Hin); contradiction).
  split; [rewrite app_assoc; apply nodup_snoc; auto|].
  intros k Hk. rewrite app_assoc in Hk. rewrite getn_upd, Ld.
  destruct (Nat.eqb_spec k j) as [->|NEk]; cbn [andb].
  - replace (j <? n)%nat with true by (symmetry; apply Nat.ltb_lt; auto). auto.
  - apply in_app_iff in Hk as [Hk|[Ek|[]]]; [apply Hrs; auto|congruence].
Qed.

Lemma Marks_todo_snoc s d' pred' j : Marks s -> (j < n)%nat -> getn (g_ontodo s) j n <> r ->
  Marks (mkAug d' pred' (g_done s) (upd (g_ontodo s) j r) (g_todo s ++ [j]) (g_scan s) (g_ready s) (g_umin s)).
Proof.
  intros [Ld [Lo [Nt [Ht [Nrs Hrs]]]]] Hj NE. unfold Marks. cbn [g_done g_ontodo g_todo g_scan g_ready].
  split; auto. split; [rewrite upd_length; auto|].
  assert (Nin : ~ In j (g_todo s)) by (intros Hin; destruct (Ht j Hin); contradiction).
  split; [apply nodup_snoc; auto|]. split; [|split; [exact Nrs|exact Hrs]].
  intros k Hk. rewrite getn_upd, Lo.
  destruct (Nat.eqb_spec k j) as [->|NEk]; cbn [andb].
  - replace (j <? n)%nat with true by (symmetry; apply Nat.ltb_lt; auto). auto.
  - apply in_app_iff in Hk as [Hk|[Ek|[]]]; [apply Ht; auto|congruence].
Qed.

Lemma Marks_pop s jh srest : Marks s -> g_scan s = jh :: srest ->
  Marks (mkAug (g_d s) (g_pred s) (g_done s) (g_ontodo s) (g_todo s) srest (g_ready s ++ [jh]) (g_umin s)).
Proof.
  intros [Ld [Lo [Nt [Ht [Nrs Hrs]]]]] ES. rewrite ES in Nrs, Hrs.
  unfold Marks. cbn [g_done g_ontodo g_todo g_scan g_ready].
  refine (conj Ld (conj Lo (conj Nt (conj Ht (conj _ _))))).
  - rewrite <- app_assoc. exact Nrs.
  - intros k Hk. rewrite <- app_assoc in Hk. apply Hrs. exact Hk.
Qed.

(* the refill of scan at a loop head (:363-393) *)
Definition refill (s : aug_state) : aug_state * option nat :=
  match g_scan s with
  | [] => let '(umin, scan) := aug_min r n (g_d s) (g_done s) (g_todo s) inf [] in
          let '(found, done') := aug_first_free r n y scan (g_done s) in
          (mkAug (g_d s) (g_pred s) done' (g_ontodo s) (g_todo s) scan (g_ready s) umin, found)
  | _ => (s, None)
  end.

Lemma aug_first_free_assigned : forall scan done,
  fst (aug_first_free r n y scan done) = None -> forall j, In j scan -> getn y j n <> n.
Proof.
  induction scan as [|j sr IH]; intros done; cbn [aug_first_free]; [intros _ ? []|].
  destruct (Nat.eqb_spec (getn y j n) n) as [E|NE]; [cbn; discriminate|].
  intros H k [<-|Hk]; auto. eapply IH; eauto.
Qed.

Lemma refill_spec s : Marks s ->
  let '(s1, found) := refill s in
  g_pred s1 = g_pred s /\ g_todo s1 = g_todo s /\ g_ready s1 = g_ready s /\ g_d s1 = g_d s /\
  (forall a, In a (g_scan s1) -> In a (g_scan s) \/ In a (g_todo s)) /\
  (found = None -> Marks s1 /\ forall a, In a (g_scan s1) -> In a (g_scan s) \/ getn y a n <> n) /\
  (forall j, found = Some j -> Bounds s1 /\ (j < n)%nat /\ getn y j n = n /\ In j (g_todo s)).
Proof.
  intros M. unfold refill. pose proof M as [Ld [Lo [Nt [Ht [Nrs Hrs]]]]].
  destruct (g_scan s) as [|j0 sr] eqn:ES.
  - pose proof (aug_min_marks (g_d s) (g_done s) (g_todo s) inf [] Nt (NoDup_nil _) (fun a H => False_ind _ H)) as AM.
    destruct (aug_min r n (g_d s) (g_done s) (g_todo s) inf []) as [um sc]. destruct AM as [Nsc Hsc].
    assert (Hsc' : forall a, In a sc -> (a < n)%nat /\ getn (g_done s) a n <> r /\ In a (g_todo s)).
    { intros a Ha. destruct (Hsc a Ha) as [[]|[H1 H2]]. split; [apply Ht; auto|auto]. }
    pose proof (aug_first_free_marks sc (g_done s) (fun a H => proj1 (Hsc' a H)) Ld) as FF.
    pose proof (aug_first_free_assigned sc (g_done s)) as FA.
    destruct (aug_first_free r n y sc (g_done s)) as [fo done']. destruct FF as [Ld' [Keep [AllN Found]]].
    cbn [fst] in FA. rewrite app_nil_r in Nrs, Hrs.
    assert (Nrs' : NoDup (g_ready s ++ sc)).
    { clear - Nrs Nsc Hrs Hsc'. induction (g_ready s) as [|a l IHl]; cbn [app]; auto.
      inversion Nrs; subst. constructor.
      - intros Hin. apply in_app_iff in Hin as [Hin|Hin]; [contradiction|].
        destruct (Hsc' a Hin) as [_ [N _]]. apply N. apply Hrs. left; auto.
      - apply IHl; auto. intros; apply Hrs; right; auto. }
    cbn [g_pred g_todo g_ready g_d g_scan]. split; auto. split; auto. split; auto. split; auto.
    split; [intros a Ha; right; apply Hsc'; auto|]. split.
    + intros ->. split; [|intros a Ha; right; apply FA; auto].
      unfold Marks. cbn [g_done g_ontodo g_todo g_scan g_ready].
      refine (conj Ld' (conj Lo (conj Nt (conj Ht (conj Nrs' _))))).
      intros k Hk. apply in_app_iff in Hk as [Hk|Hk].
      * split; [apply Hrs; auto|apply Keep, Hrs; auto].
      * split; [apply Hsc'; auto|apply AllN; auto].
    + intros j Ej. destruct (Found j Ej) as [A B]. split; [|split; [apply Hsc'; auto|split; [auto|apply Hsc'; auto]]].
      unfold Bounds. cbn [g_done g_ontodo g_todo g_scan g_ready].
      refine (conj Ld' (conj Lo (conj Nt (conj (fun k Hk => proj1 (Ht k Hk)) (conj Nrs' _))))).
      intros k Hk. apply in_app_iff in Hk as [Hk|Hk]; [apply Hrs; auto|apply Hsc'; auto].
  - split; auto. split; auto. split; auto. split; auto. split; [intros a Ha; left; rewrite ES in Ha; exact Ha|].
    split; [intros _; split; [exact M|intros a Ha; left; rewrite ES in Ha; exact Ha]|discriminate].
Qed.

(* ---------------------------------------------------------------- the scan of an assigned row *)

Lemma aug_relax_marks i1 u1 : forall row s,
  (forall j c, In (j, c) row -> (j < n)%nat) -> Marks s ->
  Marks (fst (aug_relax r n i1 y v u1 row s)) /\
  (forall j, snd (aug_relax r n i1 y v u1 row s) = Some j -> (j < n)%nat /\ getn y j n = n).
Proof.
  induction row as [|[j c] rr IH]; intros s HR M; cbn [aug_relax].
  - cbn [fst snd]. split; [exact M|discriminate].
  - assert (Hj : (j < n)%nat) by (eapply HR; left; eauto).
    assert (HR' : forall j' c', In (j', c') rr -> (j' < n)%nat) by (intros; eapply HR; right; eauto).
    destruct M as [Ld [Lo [Nt [Ht [Nrs Hrs]]]]].
    assert (M0 : forall d' pred', Marks (mkAug d' pred' (g_done s) (g_ontodo s) (g_todo s) (g_scan s) (g_ready s) (g_umin s))).
    { intros. unfold Marks. cbn [g_done g_ontodo g_todo g_scan g_ready]. exact (conj Ld (conj Lo (conj Nt (conj Ht (conj Nrs Hrs))))). }
    assert (Ms : Marks s) by exact (conj Ld (conj Lo (conj Nt (conj Ht (conj Nrs Hrs))))).
    destruct (Nat.eqb_spec (getn (g_done s) j n) r) as [E|NE]; [apply IH; auto|].
    destruct (eltb (esub (esub c (gete v j)) u1) (gete (g_d s) j)); [|apply IH; auto].
    destruct (eleb (esub (esub c (gete v j)) u1) (g_umin s)).
    + destruct (Nat.eqb_spec (getn y j n) n) as [Ey|Ny].
      * cbn [fst snd]. split; [apply M0|]. intros j0 H; inversion H; subst. auto.
      * apply IH; auto. unfold Marks. cbn [g_done g_ontodo g_todo g_scan g_ready].
        split; [rewrite upd_length; auto|]. split; auto. split; auto. split; [exact Ht|].
        assert (Nin : ~ In j (g_ready s ++ g_scan s)) by (intros Hin; destruct (Hrs j Hin); contradiction).
        split; [rewrite app_assoc; apply nodup_snoc; auto|].
        intros k Hk. rewrite app_assoc in Hk. rewrite getn_upd, Ld.
        destruct (Nat.eqb_spec k j) as [->|NEk]; cbn [andb].
        -- replace (j <? n)%nat with true by (symmetry; apply Nat.ltb_lt; auto). auto.
        -- apply in_app_iff in Hk as [Hk|[Ek|[]]]; [apply Hrs; auto|congruence].
    + destruct (Nat.eqb_spec (getn (g_ontodo s) j n) r) as [Eo|No]; [apply IH; auto|].
      apply IH; auto. unfold Marks. cbn [g_done g_ontodo g_todo g_scan g_ready].
      split; auto. split; [rewrite upd_length; auto|].
      assert (Nin : ~ In j (g_todo s)) by (intros Hin; destruct (Ht j Hin); contradiction).
      split; [apply nodup_snoc; auto|]. split; [|split; [exact Nrs|exact Hrs]].
      intros k Hk. rewrite getn_upd, Lo.
      destruct (Nat.eqb_spec k j) as [->|NEk]; cbn [andb].
      * replace (j <? n)%nat with true by (symmetry; apply Nat.ltb_lt; auto). auto.
      * apply in_app_iff in Hk as [Hk|[Ek|[]]]; [apply Ht; auto|congruence].
Qed.

(* ---------------------------------------------------------------- the loop *)

Theorem aug_loop_marks : forall fuel s s' j1,
  Marks s -> aug_loop fuel r n inf rows y v s = Some (s', j1) ->
  Bounds s' /\ (j1 < n)%nat /\ getn y j1 n = n.
Proof.
  induction fuel as [|f IH]; intros s s' j1 M; cbn [aug_loop]; [discriminate|].
  (* the refill *)
  assert (RF : exists s1 found,
            (match g_scan s with
             | [] => let '(umin, scan) := aug_min r n (g_d s) (g_done s) (g_todo s) inf [] in
                     let '(found, done') := aug_first_free r n y scan (g_done s) in
                     (mkAug (g_d s) (g_pred s) done' (g_ontodo s) (g_todo s) scan (g_ready s) umin, found)
             | _ => (s, None)
             end) = (s1, found) /\
            (found = None -> Marks s1) /\ (forall j, found = Some j -> Bounds s1 /\ (j < n)%nat /\ getn y j n = n)).
  { destruct M as [Ld [Lo [Nt [Ht [Nrs Hrs]]]]].
    destruct (g_scan s) as [|j0 sr] eqn:ES.
    - pose proof (aug_min_marks (g_d s) (g_done s) (g_todo s) inf [] Nt (NoDup_nil _) (fun a H => False_ind _ H)) as AM.
      destruct (aug_min r n (g_d s) (g_done s) (g_todo s) inf []) as [um sc]. destruct AM as [Nsc Hsc].
      assert (Hsc' : forall a, In a sc -> (a < n)%nat /\ getn (g_done s) a n <> r).
      { intros a Ha. destruct (Hsc a Ha) as [[]|[H1 H2]]. split; auto. apply Ht; auto. }
      pose proof (aug_first_free_marks sc (g_done s) (fun a H => proj1 (Hsc' a H)) Ld) as FF.
      destruct (aug_first_free r n y sc (g_done s)) as [fo done']. destruct FF as [Ld' [Keep [AllN Found]]].
      rewrite app_nil_r in Nrs, Hrs.
      assert (Nrs' : NoDup (g_ready s ++ sc)).
      { clear - Nrs Nsc Hrs Hsc'. induction (g_ready s) as [|a l IHl]; cbn [app]; auto.
        inversion Nrs; subst. constructor.
        - intros Hin. apply in_app_iff in Hin as [Hin|Hin]; [contradiction|].
          destruct (Hsc' a Hin) as [_ N]. apply N. apply Hrs. left; auto.
        - apply IHl; auto. intros; apply Hrs; right; auto. }
      assert (Lt' : forall k, In k (g_ready s ++ sc) -> (k < n)%nat).
      { intros k Hk. apply in_app_iff in Hk as [Hk|Hk]; [apply Hrs; auto|apply Hsc'; auto]. }
      eexists _, fo. split; [reflexivity|]. split.
      + intros ->. repeat split; cbn [g_done g_ontodo g_todo g_scan g_ready]; auto; try (apply Ht; auto).
        apply in_app_iff in H as [H|H]; [apply Keep, Hrs; auto|apply AllN; auto].
      + intros j Ej. destruct (Found j Ej) as [A B]. split; [|split; [apply Hsc'; auto|auto]].
        repeat split; cbn [g_done g_ontodo g_todo g_scan g_ready]; auto. apply Ht; auto.
    - exists s, None. split; [reflexivity|]. split; [intros _; unfold Marks; rewrite ES; exact (conj Ld (conj Lo (conj Nt (conj Ht (conj Nrs Hrs)))))|discriminate]. }
  destruct RF as [s1 [found [ERF [RN RS]]]]. rewrite ERF.
  destruct found as [j|].
  - intros E; inversion E; subst. apply RS; auto.
  - specialize (RN eq_refl). destruct (g_scan s1) as [|jh srest] eqn:ES1; [discriminate|].
    destruct (cost_at (rowget rows (getn y jh n)) jh) as [c1|]; [|discriminate].
    set (s2 := mkAug (g_d s1) (g_pred s1) (g_done s1) (g_ontodo s1) (g_todo s1) srest (g_ready s1 ++ [jh]) (g_umin s1)).
    assert (M2 : Marks s2).
    { destruct RN as [Ld [Lo [Nt [Ht [Nrs Hrs]]]]]. rewrite ES1 in Nrs, Hrs.
      unfold s2, Marks. cbn [g_done g_ontodo g_todo g_scan g_ready].
      refine (conj Ld (conj Lo (conj Nt (conj Ht (conj _ _))))).
      - rewrite <- app_assoc. exact Nrs.
      - intros k Hk. rewrite <- app_assoc in Hk. apply Hrs. exact Hk. }
    pose proof (aug_relax_marks (getn y jh n) (esub (esub c1 (gete v jh)) (g_umin s1)) (rowget rows (getn y jh n)) s2
                  (fun j c H => Rfin _ j c H) M2) as [M3 F3].
    destruct (aug_relax r n (getn y jh n) y v (esub (esub c1 (gete v jh)) (g_umin s1)) (rowget rows (getn y jh n)) s2) as [s3 f3].
    cbn [fst snd] in M3, F3. destruct f3 as [j|].
    + intros E; inversion E; subst. split; [apply Marks_Bounds; auto|apply F3; auto].
    + apply IH. exact M3.
Qed.

(* the state aug_row starts the loop with *)
Theorem aug_marks_inv (ms : main_state) (s' : aug_state) (j1 : nat) :
  length (m_done ms) = n -> length (m_ontodo ms) = n ->
  let row_r := rowget rows r in
  let '(d, ontodo, pred) := aug_init_row r v row_r (repeat inf n) (m_ontodo ms) (m_pred ms) in
  aug_loop (S (S n)) r n inf rows y v (mkAug d pred (m_done ms) ontodo (map fst row_r) [] [] inf) = Some (s', j1) ->
  Bounds s' /\ (length (g_todo s') <= n)%nat /\ (length (g_ready s') + length (g_scan s') <= n)%nat /\
  (j1 < n)%nat /\ getn y j1 n = n.
Proof.
  intros Ld Lo. cbn zeta.
  pose proof (aug_init_row_marks (rowget rows r) (repeat inf n) (m_ontodo ms) (m_pred ms) (fun j c H => Rfin r j c H) Lo) as AI.
  destruct (aug_init_row r v (rowget rows r) (repeat inf n) (m_ontodo ms) (m_pred ms)) as [[d o] p].
  destruct AI as [Lo' [In' _]]. intros E.
  assert (M0 : Marks (mkAug d p (m_done ms) o (map fst (rowget rows r)) [] [] inf)).
  { unfold Marks. cbn [g_done g_ontodo g_todo g_scan g_ready app].
    refine (conj Ld (conj Lo' (conj (Rnodup r) (conj _ (conj (NoDup_nil _) _))))).
    - intros j Hj. apply in_map_iff in Hj as [[j' c'] [<- Hin]]. cbn [fst]. split; [eapply Rfin; eauto|eapply In'; eauto].
    - intros j []. }
  destruct (aug_loop_marks _ _ _ _ M0 E) as [B [A C]]. destruct (Bounds_lengths s' B). auto.
Qed.
End Marks.
