(* C09 — the cofactor inverse of inv_n for sizes 3 and 4, on symbolic entries. *)
From Coq Require Import ZArith List Bool Lia Arith QArith Qcanon Field.
From Centro Require Import Gen.ConstsC09 Model.Kalman Spec.Kalman Proofs.KalmanArith Proofs.KalmanAlg.
Import ListNotations.
Open Scope Qc_scope.

Definition I3 : mat := [[1; 0; 0]; [0; 1; 0]; [0; 0; 1]].
Definition I4 : mat := [[1; 0; 0; 0]; [0; 1; 0; 0]; [0; 0; 1; 0]; [0; 0; 0; 1]].

Ltac detcbv := cbv [det1 cofactor1 remove_nth length seq permutations perms_fuel removes flat_map map app fst snd
    parity inversions filter Nat.ltb Nat.leb Nat.even Nat.add sign_of qsum qprod fold_left entry nth].

Lemma det1_3 a b c d e f g h i :
  det1 [[a; b; c]; [d; e; f]; [g; h; i]] = a * (e * i - f * h) - b * (d * i - f * g) + c * (d * h - e * g).
Proof. detcbv. qnorm. ring. Qed.

Theorem inv_n_correct_3 a b c d e f g h i : det1 [[a; b; c]; [d; e; f]; [g; h; i]] <> 0 ->
  mmul [[a; b; c]; [d; e; f]; [g; h; i]] (inv1 [[a; b; c]; [d; e; f]; [g; h; i]]) = I3 /\
  mmul (inv1 [[a; b; c]; [d; e; f]; [g; h; i]]) [[a; b; c]; [d; e; f]; [g; h; i]] = I3.
Proof.
  intros H. rewrite det1_3 in H. unfold inv1. rewrite det1_3.
  cbv [mmul map map2 combine col ncols hd I3]. detcbv. qnorm.
  split; repeat f_equal; field; exact H.
Qed.

Definition det4_poly (a b c d e f g h i j k l m n o p : Qc) : Qc :=
  a * (f * (k * p - l * o) - g * (j * p - l * n) + h * (j * o - k * n))
  - b * (e * (k * p - l * o) - g * (i * p - l * m) + h * (i * o - k * m))
  + c * (e * (j * p - l * n) - f * (i * p - l * m) + h * (i * n - j * m))
  - d * (e * (j * o - k * n) - f * (i * o - k * m) + g * (i * n - j * m)).

Lemma det1_4 a b c d e f g h i j k l m n o p :
  det1 [[a; b; c; d]; [e; f; g; h]; [i; j; k; l]; [m; n; o; p]] = det4_poly a b c d e f g h i j k l m n o p.
Proof. unfold det4_poly. detcbv. qnorm. ring. Qed.

Theorem inv_n_correct_4 a b c d e f g h i j k l m n o p :
  let A := [[a; b; c; d]; [e; f; g; h]; [i; j; k; l]; [m; n; o; p]] in
  det1 A <> 0 -> mmul A (inv1 A) = I4 /\ mmul (inv1 A) A = I4.
Proof.
  cbn zeta. intros H. rewrite det1_4 in H. unfold inv1. rewrite det1_4.
  cbv [mmul map map2 combine col ncols hd I4]. detcbv. qnorm. unfold det4_poly in *.
  split; repeat f_equal; field; exact H.
Qed.
