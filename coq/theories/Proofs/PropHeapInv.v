(* C03: the heap of heap.pxd (Model/PropHeap.v).  For any total preorder [le] on rows with which
   [smaller] is compatible (smaller a b -> le a b, not smaller a b -> le b a) - in particular the
   order of the distance key, columns 0 and 1, although [smaller] compares five columns -
   heappush/heappop keep "every parent <= its children", pop returns a minimal row, and both
   keep the multiset of rows.  The un-heapified seed array satisfies the invariant for the key
   order because all its keys are equal. *)
From Coq Require Import ZArith List Bool Lia ZifyBool ZifyNat Permutation Arith.
From Centro Require Import Model.PropHeap.
Import ListNotations.
Ltac Zify.zify_post_hook ::= Z.to_euclidean_division_equations.

Lemma hset_length : forall l i v, length (hset l i v) = length l.
Proof. induction l as [|h t IH]; intros [|i] v; cbn; auto. Qed.
Lemma hget_hset_same : forall l i v, (i < length l)%nat -> hget (hset l i v) i = v.
Proof.
  unfold hget. induction l as [|h t IH]; intros [|i] v H; cbn in *; try lia; auto. apply IH. lia.
Qed.
Lemma hget_hset_other : forall l i j v, i <> j -> hget (hset l i v) j = hget l j.
Proof.
  unfold hget. induction l as [|h t IH]; intros [|i] [|j] v H; cbn; auto; try lia; apply IH; lia.
Qed.
Lemma hswap_length : forall l i j, length (hswap l i j) = length l.
Proof. intros. unfold hswap. rewrite !hset_length. reflexivity. Qed.
Lemma hget_hswap : forall l i j k, (i < length l)%nat -> (j < length l)%nat ->
  hget (hswap l i j) k = if (k =? j)%nat then hget l i else if (k =? i)%nat then hget l j else hget l k.
Proof.
  intros l i j k Hi Hj. unfold hswap.
  destruct (k =? j)%nat eqn:E1.
  - apply Nat.eqb_eq in E1. subst k. apply hget_hset_same. rewrite hset_length. exact Hj.
  - apply Nat.eqb_neq in E1. rewrite hget_hset_other by lia.
    destruct (k =? i)%nat eqn:E2.
    + apply Nat.eqb_eq in E2. subst k. apply hget_hset_same. exact Hi.
    + apply Nat.eqb_neq in E2. apply hget_hset_other. lia.
Qed.

Lemma hset_perm : forall l i v, (i < length l)%nat -> Permutation (v :: l) (hget l i :: hset l i v).
Proof.
  unfold hget. induction l as [|h t IH]; intros [|i] v H; cbn in *; try lia.
  - apply perm_swap.
  - eapply perm_trans; [apply perm_swap|].
    eapply perm_trans; [apply perm_skip; apply (IH i v); lia|]. apply perm_swap.
Qed.
Lemma hswap_perm : forall l i j, (i < length l)%nat -> (j < length l)%nat -> Permutation (hswap l i j) l.
Proof.
  intros l i j Hi Hj. unfold hswap.
  set (a := hget l i). set (b := hget l j). set (l1 := hset l i b).
  assert (P1 : Permutation (b :: l) (a :: l1)) by (apply hset_perm; exact Hi).
  assert (P2 : Permutation (a :: l1) (hget l1 j :: hset l1 j a)).
  { apply hset_perm. unfold l1. rewrite hset_length. exact Hj. }
  assert (E : hget l1 j = b).
  { unfold l1. destruct (Nat.eq_dec i j) as [->|N].
    - apply hget_hset_same. exact Hj.
    - rewrite hget_hset_other by exact N. reflexivity. }
  rewrite E in P2. symmetry. eapply Permutation_cons_inv. eapply perm_trans; [exact P1 | exact P2].
Qed.

Definition parent (i : nat) : nat := (Nat.div (i + 1) 2 - 1)%nat.

Section Order.
Variable le : row -> row -> Prop.
Hypothesis le_refl : forall a, le a a.
Hypothesis le_trans : forall a b c, le a b -> le b c -> le a c.
Variable wf : row -> Prop.          (* well-formed rows (fixed width); all rows of the heap are *)
Hypothesis smaller_le : forall a b, wf a -> wf b -> smaller a b = true -> le a b.
Hypothesis not_smaller_le : forall a b, wf a -> wf b -> smaller a b = false -> le b a.

Lemma wf_hget : forall l i, Forall wf l -> (i < length l)%nat -> wf (hget l i).
Proof. intros l i H Hi. unfold hget. apply (proj1 (Forall_forall wf l) H). apply nth_In. exact Hi. Qed.
Lemma wf_hswap : forall l i j, Forall wf l -> (i < length l)%nat -> (j < length l)%nat -> Forall wf (hswap l i j).
Proof. intros l i j H Hi Hj. eapply Permutation_Forall; [apply Permutation_sym; apply hswap_perm; assumption | exact H]. Qed.

Definition heap_ok (l : list row) : Prop :=
  forall i, (0 < i < length l)%nat -> le (hget l (parent i)) (hget l i).

(* ---- sift up ---- *)
Definition up_inv (l : list row) (c : nat) : Prop :=
  (forall i, (0 < i < length l)%nat -> i <> c -> le (hget l (parent i)) (hget l i)) /\
  (forall i, (0 < i < length l)%nat -> parent i = c -> (0 < c)%nat -> le (hget l (parent c)) (hget l i)).

Lemma sift_up_ok : forall fuel l c, Forall wf l -> (c < fuel)%nat -> (c < length l)%nat -> up_inv l c ->
  heap_ok (sift_up fuel l c) /\ Permutation (sift_up fuel l c) l.
Proof.
  induction fuel as [|f IH]; intros l c Hwf Hf Hc [I1 I2]; [lia|].
  destruct c as [|c'].
  - cbn [sift_up]. split; [|apply Permutation_refl]. intros i Hi. apply I1; lia.
  - cbn [sift_up]. remember (S c') as c eqn:Ec. assert (Hc1 : (1 <= c)%nat) by lia. clear Ec c'.
    fold (parent c). remember (parent c) as p eqn:Ep.
    assert (Hp : (p < c)%nat) by (rewrite Ep; unfold parent; lia).
    destruct (smaller (hget l c) (hget l p)) eqn:Hs.
    + assert (Hpl : (p < length l)%nat) by lia.
      assert (Hcp : le (hget l c) (hget l p)) by (apply smaller_le; [apply wf_hget; assumption | apply wf_hget; assumption | exact Hs]).
      destruct (IH (hswap l p c) p) as [H1 H2].
      * apply wf_hswap; assumption.
      * lia.
      * rewrite hswap_length. lia.
      * split.
        -- intros i Hi Hne. rewrite hswap_length in Hi. rewrite !hget_hswap by lia.
           destruct (Nat.eq_dec i c) as [->|Nic].
           ++ rewrite <- Ep. rewrite Nat.eqb_refl.
              replace (p =? c)%nat with false by lia. rewrite Nat.eqb_refl. exact Hcp.
           ++ replace (i =? c)%nat with false by lia. replace (i =? p)%nat with false by lia.
              destruct (Nat.eq_dec (parent i) c) as [E|N1].
              ** rewrite E, Nat.eqb_refl. apply I2; [lia | exact E | lia].
              ** replace (parent i =? c)%nat with false by lia.
                 destruct (Nat.eq_dec (parent i) p) as [E|N2].
                 --- rewrite E, Nat.eqb_refl. eapply le_trans; [exact Hcp|].
                     rewrite <- E. apply I1; [lia | exact Nic].
                 --- replace (parent i =? p)%nat with false by lia. apply I1; [lia | exact Nic].
        -- intros i Hi Hpi Hp0. rewrite hswap_length in Hi. rewrite !hget_hswap by lia.
           assert (Hpp : (parent p < p)%nat) by (unfold parent; lia).
           replace (parent p =? c)%nat with false by lia. replace (parent p =? p)%nat with false by lia.
           destruct (Nat.eq_dec i c) as [->|Nic].
           ++ rewrite Nat.eqb_refl. apply I1; lia.
           ++ replace (i =? c)%nat with false by lia.
              assert (i <> p) by (unfold parent in Hpi; lia).
              replace (i =? p)%nat with false by lia.
              eapply le_trans; [apply (I1 p); lia|]. rewrite <- Hpi. apply I1; [lia | exact Nic].
      * split; [exact H1|]. eapply perm_trans; [exact H2|]. apply hswap_perm; lia.
    + split; [|apply Permutation_refl].
      intros i Hi. destruct (Nat.eq_dec i c) as [->|N]; [|apply I1; assumption].
      rewrite <- Ep. apply not_smaller_le; [apply wf_hget; [exact Hwf | lia] | apply wf_hget; [exact Hwf | lia] | exact Hs].
Qed.

Lemma hget_app_old : forall l e i, (i < length l)%nat -> hget (l ++ [e]) i = hget l i.
Proof. intros. unfold hget. apply app_nth1. exact H. Qed.

Theorem heappush_ok : forall h e, Forall wf (rows h) -> wf e -> heap_ok (rows h) ->
  heap_ok (rows (heappush h e)) /\ Permutation (rows (heappush h e)) (e :: rows h).
Proof.
  intros h e Hwf Hwe Hok. unfold heappush. cbn [rows]. unfold items.
  destruct (sift_up_ok (length (rows h ++ [e])) (rows h ++ [e]) (length (rows h))) as [H1 H2].
  - apply Forall_app. split; [exact Hwf | constructor; [exact Hwe | constructor]].
  - rewrite app_length. cbn. lia.
  - rewrite app_length. cbn. lia.
  - split.
    + intros i Hi Hne. rewrite app_length in Hi. cbn in Hi.
      assert (Hpi : (parent i < i)%nat) by (unfold parent; lia).
      rewrite !hget_app_old by lia. apply Hok. lia.
    + intros i Hi Hpi _. rewrite app_length in Hi. cbn in Hi. unfold parent in Hpi. lia.
  - split; [exact H1|]. eapply perm_trans; [exact H2|].
    apply Permutation_sym. apply Permutation_cons_append.
Qed.

(* ---- sift down ---- *)
Definition down_inv (l : list row) (i : nat) : Prop :=
  (forall k, (0 < k < length l)%nat -> parent k <> i -> le (hget l (parent k)) (hget l k)) /\
  (forall k, (0 < k < length l)%nat -> parent k = i -> (0 < i)%nat -> le (hget l (parent i)) (hget l k)).

Lemma sift_down_ok : forall fuel l i, Forall wf l -> (length l - i <= fuel)%nat -> down_inv l i ->
  heap_ok (sift_down fuel l i) /\ Permutation (sift_down fuel l i) l.
Proof.
  induction fuel as [|f IH]; intros l i Hwf Hf [I1 I2].
  - cbn [sift_down]. split; [|apply Permutation_refl].
    intros k Hk. apply I1; [exact Hk|]. unfold parent. lia.
  - cbn [sift_down].
    destruct (2 * i + 1 <? length l)%nat eqn:Hlc.
    2:{ split; [|apply Permutation_refl]. intros k Hk. apply I1; [exact Hk|]. unfold parent. lia. }
    remember (2 * i + 1)%nat as lc eqn:Elc. remember (2 * i + 2)%nat as rc eqn:Erc.
    set (s1 := if smaller (hget l lc) (hget l i) then lc else i).
    set (s2 := if (rc <? length l)%nat && smaller (hget l rc) (hget l s1) then rc else s1).
    assert (Hlcl : (lc < length l)%nat) by lia.
    assert (Hil0 : (i < length l)%nat) by lia.
    assert (Wi : wf (hget l i)) by (apply wf_hget; assumption).
    assert (Wl : wf (hget l lc)) by (apply wf_hget; assumption).
    (* facts about the choice *)
    assert (Hs1 : le (hget l s1) (hget l i) /\ le (hget l s1) (hget l lc) /\ (s1 = lc \/ s1 = i)).
    { unfold s1. destruct (smaller (hget l lc) (hget l i)) eqn:E.
      - split; [apply smaller_le; assumption|]. split; [apply le_refl | left; reflexivity].
      - split; [apply le_refl|]. split; [apply not_smaller_le; assumption | right; reflexivity]. }
    destruct Hs1 as [Hs1i [Hs1l Hs1c]].
    assert (W1 : wf (hget l s1)) by (destruct Hs1c as [-> | ->]; assumption).
    assert (Hs2 : le (hget l s2) (hget l i) /\ le (hget l s2) (hget l lc) /\
                  ((rc < length l)%nat -> le (hget l s2) (hget l rc)) /\ (s2 = rc /\ (rc < length l)%nat \/ s2 = s1)).
    { unfold s2. destruct (rc <? length l)%nat eqn:Er; cbn [andb].
      - assert (Wr : wf (hget l rc)) by (apply wf_hget; [exact Hwf | lia]).
        destruct (smaller (hget l rc) (hget l s1)) eqn:E.
        + assert (le (hget l rc) (hget l s1)) by (apply smaller_le; assumption).
          split; [eapply le_trans; eassumption|]. split; [eapply le_trans; eassumption|].
          split; [intros _; apply le_refl | left; split; [reflexivity | lia]].
        + split; [exact Hs1i|]. split; [exact Hs1l|].
          split; [intros _; apply not_smaller_le; assumption | right; reflexivity].
      - split; [exact Hs1i|]. split; [exact Hs1l|]. split; [intros; lia | right; reflexivity]. }
    destruct Hs2 as [Hs2i [Hs2l [Hs2r Hs2c]]].
    destruct (s2 =? i)%nat eqn:Esi.
    + split; [|apply Permutation_refl]. apply Nat.eqb_eq in Esi. rewrite Esi in *.
      intros k Hk. destruct (Nat.eq_dec (parent k) i) as [E|N]; [|apply I1; assumption].
      rewrite E. assert (k = lc \/ k = rc) by (unfold parent in E; lia).
      destruct H as [->| ->]; [exact Hs2l | apply Hs2r; lia].
    + apply Nat.eqb_neq in Esi.
      assert (Hs2lt : (s2 < length l)%nat) by lia.
      assert (Hs2ch : s2 = lc \/ s2 = rc) by lia.
      assert (Hil : (i < length l)%nat) by lia.
      destruct (IH (hswap l i s2) s2) as [H1 H2].
      * apply wf_hswap; assumption.
      * rewrite hswap_length. lia.
      * split.
        -- intros k Hk Hpk. rewrite hswap_length in Hk. rewrite !hget_hswap by lia.
           assert (Hpklt : (parent k < k)%nat) by (unfold parent; lia).
           destruct (Nat.eq_dec k s2) as [->|Nk2].
           ++ rewrite Nat.eqb_refl. assert (E : parent s2 = i) by (unfold parent; lia).
              rewrite E. replace (i =? s2)%nat with false by lia. rewrite Nat.eqb_refl. exact Hs2i.
           ++ replace (k =? s2)%nat with false by lia. replace (parent k =? s2)%nat with false by lia.
              destruct (Nat.eq_dec k i) as [->|Nki].
              ** rewrite Nat.eqb_refl. replace (parent i =? i)%nat with false by lia.
                 apply I2; [lia | unfold parent; lia | lia].
              ** replace (k =? i)%nat with false by lia.
                 destruct (Nat.eq_dec (parent k) i) as [E|N].
                 --- rewrite E, Nat.eqb_refl.
                     assert (k = lc \/ k = rc) by (unfold parent in E; lia).
                     destruct H as [->| ->]; [exact Hs2l | apply Hs2r; lia].
                 --- replace (parent k =? i)%nat with false by lia. apply I1; [lia | exact N].
        -- intros k Hk Hpk Hs20. rewrite hswap_length in Hk. rewrite !hget_hswap by lia.
           assert (E : parent s2 = i) by (unfold parent; lia). rewrite E.
           replace (i =? s2)%nat with false by lia. rewrite Nat.eqb_refl.
           assert (k <> s2 /\ k <> i) by (unfold parent in Hpk; lia).
           replace (k =? s2)%nat with false by lia. replace (k =? i)%nat with false by lia.
           rewrite <- Hpk. apply I1; [lia | lia].
      * split; [exact H1|]. eapply perm_trans; [exact H2|]. apply hswap_perm; lia.
Qed.

Lemma hget_pop_list : forall (top : row) (rest : list row) k, (0 < k < length rest)%nat ->
  hget (last rest [] :: removelast rest) k = hget (top :: rest) k.
Proof.
  intros top rest k Hk. destruct k as [|k]; [lia|]. unfold hget. cbn [nth].
  rewrite (app_removelast_last (l := rest) []) at 2 by (destruct rest; cbn in *; [lia | discriminate]).
  rewrite app_nth1; [reflexivity|].
  assert (length rest = length (removelast rest) + 1)%nat.
  { rewrite (app_removelast_last (l := rest) []) at 1 by (destruct rest; cbn in *; [lia | discriminate]).
    rewrite app_length. cbn. lia. }
  lia.
Qed.

Theorem heappop_ok : forall h, Forall wf (rows h) -> heap_ok (rows h) -> rows h <> [] ->
  heap_ok (rows (snd (heappop h))) /\ Permutation (rows h) (fst (heappop h) :: rows (snd (heappop h))).
Proof.
  intros h Hwf Hok Hne. unfold heappop. destruct (rows h) as [|top rest] eqn:Hr; [congruence|].
  destruct rest as [|r0 rest'] eqn:Hrest.
  - cbn [fst snd rows]. split; [intros i Hi; cbn in Hi; lia | apply Permutation_refl].
  - rewrite <- Hrest in *. cbn [fst snd rows].
    assert (Hrn : rest <> []) by (rewrite Hrest; discriminate).
    set (l := last rest [] :: removelast rest).
    assert (Hlen : length l = length rest).
    { unfold l. cbn [length]. rewrite (app_removelast_last (l := rest) []) at 2 by exact Hrn.
      rewrite app_length. cbn. lia. }
    assert (Pl : Permutation l rest).
    { unfold l. rewrite (app_removelast_last (l := rest) []) at 3 by exact Hrn. apply Permutation_cons_append. }
    destruct (sift_down_ok (length l) l 0) as [H1 H2].
    + eapply Permutation_Forall; [apply Permutation_sym; exact Pl|]. inversion Hwf; assumption.
    + lia.
    + split.
      * intros k Hk Hpk. assert (Hpp : (0 < parent k < k)%nat) by (unfold parent in *; lia).
        unfold l. rewrite (hget_pop_list top rest k) by lia.
        rewrite (hget_pop_list top rest (parent k)) by lia.
        apply Hok. cbn [length]. lia.
      * intros k Hk Hpk H0. lia.
    + split; [exact H1|]. apply perm_skip. apply Permutation_sym. eapply perm_trans; [exact H2 | exact Pl].
Qed.

Lemma root_min : forall l, heap_ok l -> forall i, (i < length l)%nat -> le (hget l 0) (hget l i).
Proof.
  intros l Hok i. induction i as [i IH] using lt_wf_ind. intros Hi.
  destruct i as [|i']; [apply le_refl|].
  apply (le_trans _ (hget l (parent (S i')))); [apply IH; unfold parent; lia|]. apply Hok. lia.
Qed.

Theorem heappop_min : forall h, heap_ok (rows h) -> forall r, In r (rows h) -> le (fst (heappop h)) r.
Proof.
  intros h Hok r Hin. destruct (In_nth (rows h) r ([] : row) Hin) as [i [Hi Hn]].
  change (hget (rows h) i = r) in Hn.
  pose proof (root_min (rows h) Hok i Hi) as Hm. rewrite Hn in Hm. unfold hget in Hm.
  unfold heappop. destruct (rows h) as [|top rest]; [cbn in Hi; lia|].
  destruct rest; cbn [fst]; exact Hm.
Qed.
End Order.
