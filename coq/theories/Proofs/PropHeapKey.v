(* C03: the heap theorems instantiated with the order of the distance key (columns 0,1 of a
   5-column row), and the refutation of optimality for the Dropped key (finding F7). *)
From Coq Require Import ZArith List Bool Lia ZifyBool Permutation.
From Centro Require Import Base.Sx Base.PropFloat Model.PropHeap Model.Propagate Spec.PropCheck
     Proofs.PropKey Proofs.PropHeapInv.
Import ListNotations.
Open Scope Z_scope.

Definition hkey (r : row) : Z * Z := (nth 0 r 0, nth 1 r 0).
Definition le_key (a b : row) : Prop := lexle2 (hkey a) (hkey b).
Definition wf5 (r : row) : Prop := length r = 5%nat.

Lemma le_key_refl : forall a, le_key a a.
Proof. intros a. unfold le_key, lexle2. lia. Qed.
Lemma le_key_trans : forall a b c, le_key a b -> le_key b c -> le_key a c.
Proof. intros a b c. unfold le_key, lexle2. lia. Qed.

Lemma wf5_shape : forall r, wf5 r -> exists a b c d e, r = [a; b; c; d; e].
Proof.
  intros r H. unfold wf5 in H.
  do 5 (destruct r as [|? r]; [discriminate|]). destruct r; [|discriminate]. eauto 6.
Qed.

Lemma smaller_le_key : forall a b, wf5 a -> wf5 b -> smaller a b = true -> le_key a b.
Proof.
  intros a b Ha Hb H. destruct (wf5_shape a Ha) as [a0 [a1 [a2 [a3 [a4 ->]]]]].
  destruct (wf5_shape b Hb) as [b0 [b1 [b2 [b3 [b4 ->]]]]].
  apply (smaller_key_le a0 a1 [a2; a3; a4] b0 b1 [b2; b3; b4]). exact H.
Qed.
Lemma not_smaller_le_key : forall a b, wf5 a -> wf5 b -> smaller a b = false -> le_key b a.
Proof.
  intros a b Ha Hb H. destruct (wf5_shape a Ha) as [a0 [a1 [a2 [a3 [a4 ->]]]]].
  destruct (wf5_shape b Hb) as [b0 [b1 [b2 [b3 [b4 ->]]]]].
  unfold smaller in H. cbn [lexlt] in H. unfold le_key, lexle2, hkey. cbn [nth fst snd].
  destruct (a0 =? b0) eqn:E0; [|lia]. destruct (a1 =? b1) eqn:E1; lia.
Qed.

Definition weak_inv (l : list row) : Prop := heap_ok le_key l.

Theorem heap_weak_inv_init : forall l k, (forall r, In r l -> hkey r = k) -> weak_inv l.
Proof.
  intros l k H i Hi. unfold le_key.
  rewrite (H (hget l (parent i))), (H (hget l i)).
  - unfold lexle2. lia.
  - unfold hget. apply nth_In. lia.
  - unfold hget. apply nth_In. unfold parent. lia.
Qed.

Theorem heap_weak_inv_push : forall h e, Forall wf5 (rows h) -> wf5 e -> weak_inv (rows h) ->
  weak_inv (rows (heappush h e)) /\ Forall wf5 (rows (heappush h e)).
Proof.
  intros h e Hwf He Hok.
  destruct (heappush_ok le_key le_key_refl le_key_trans wf5 smaller_le_key not_smaller_le_key h e Hwf He Hok) as [H1 H2].
  split; [exact H1|]. eapply Permutation_Forall; [apply Permutation_sym; exact H2|]. constructor; assumption.
Qed.

Theorem heap_weak_inv_pop : forall h, Forall wf5 (rows h) -> weak_inv (rows h) -> rows h <> [] ->
  weak_inv (rows (snd (heappop h))) /\ Forall wf5 (rows (snd (heappop h))) /\
  (forall r, In r (rows h) -> le_key (fst (heappop h)) r).
Proof.
  intros h Hwf Hok Hne.
  destruct (heappop_ok le_key le_key_refl le_key_trans wf5 smaller_le_key not_smaller_le_key h Hwf Hok Hne) as [H1 H2].
  split; [exact H1|]. split.
  - assert (F : Forall wf5 (fst (heappop h) :: rows (snd (heappop h)))) by (eapply Permutation_Forall; eassumption).
    inversion F; assumption.
  - apply (heappop_min le_key le_key_refl le_key_trans wf5 smaller_le_key not_smaller_le_key). exact Hok.
Qed.

Theorem heap_multiset_push : forall h e, Permutation (rows (heappush h e)) (e :: rows h).
Proof.
  intros h e.
  (* the multiset part needs no order at all: use the trivial order *)
  destruct (heappush_ok (fun _ _ => True) (fun _ => Logic.I) (fun _ _ _ _ _ => Logic.I) (fun _ => True)
                        (fun _ _ _ _ _ => Logic.I) (fun _ _ _ _ _ => Logic.I) h e) as [_ H].
  - apply Forall_forall. intros; exact Logic.I.
  - exact Logic.I.
  - intros i _. exact Logic.I.
  - exact H.
Qed.
Theorem heap_multiset_pop : forall h, rows h <> [] ->
  Permutation (rows h) (fst (heappop h) :: rows (snd (heappop h))).
Proof.
  intros h Hne.
  destruct (heappop_ok (fun _ _ => True) (fun _ => Logic.I) (fun _ _ _ _ _ => Logic.I) (fun _ => True)
                       (fun _ _ _ _ _ => Logic.I) (fun _ _ _ _ _ => Logic.I) h) as [_ H].
  - apply Forall_forall. intros; exact Logic.I.
  - intros i _. exact Logic.I.
  - exact Hne.
  - exact H.
Qed.

(* hypotheses satisfiable: the un-heapified seed array of three seeds (NOT a heap for the
   five-column order: row 1 < row 0), then a push *)
Example heap_example :
  let h := heap_from_rows [[0;0;3;2;2]; [0;0;1;0;1]; [0;0;2;1;0]] in
  Forall wf5 (rows h) /\ weak_inv (rows h) /\ smaller (hget (rows h) 1) (hget (rows h) 0) = true /\
  fst (heappop (heappush h [1072693248; 5; 1; 0; 0])) = [0;0;3;2;2].
Proof.
  cbn zeta. split; [repeat constructor|]. split.
  - apply (heap_weak_inv_init _ (0, 0)). cbn [rows heap_from_rows In]. intros r [<-|[<-|[<-|[]]]]; reflexivity.
  - split; vm_compute; reflexivity.
Qed.

(* ---------- finding F7 as a theorem about the model ---------- *)
(* corpus/finding_witnesses.json F7: 7x7, weight 0, tenths *)
Definition t1 : Z := 4596373779694328218.   (* 0x1.999999999999ap-3 = 0.2 *)
Definition t2 : Z := 4591870180066957722.   (* 0x1.999999999999ap-4 = 0.1 *)
Definition f7_input (key : Z) : sx :=
  L [I 7; I 7;
     of_Zss [[t1;t1;t1;0;0;0;0]; [t1;t1;t1;0;0;0;0]; [t1;t1;t1;0;0;0;0];
             [0;0;0;t1;t2;t2;0]; [0;0;0;t2;t1;t2;0]; [0;0;0;t2;t2;t2;0]; [t1;t1;t1;t1;t1;t1;t2]];
     of_Zss [[0;0;0;0;0;0;0]; [0;0;0;0;3;0;0]; [0;0;0;0;0;0;0]; [0;0;0;0;0;0;0];
             [0;0;0;0;0;0;0]; [0;0;0;0;1;0;0]; [0;0;0;0;0;0;0]];
     of_Zss [[1;1;1;1;1;1;1]; [1;1;1;1;1;1;1]; [1;1;1;1;1;1;1]; [1;1;1;1;1;1;1];
             [1;1;1;1;1;1;1]; [1;1;1;1;1;1;1]; [1;1;1;1;1;1;1]];
     I 0; I key].

(* the model of the code as written (Dropped key) returns an output that is NOT the geodesic
   optimum: pixel (4,0) gets 0x3FF8000000000001, and the no-relaxable-edge test fails; the same
   model with a 64-bit key passes the verified checker on this input *)
Theorem dropped_key_optimality_refuted :
  exists x, (exists lo d, run_sx x = Some (lo, d) /\
                          nth 0 (nth 4 d []) 0 = 4609434218613702657 /\
                          check_b64_sx x lo d (auto_hint_sx x lo d) = false) /\
            as_Z (arg 6 x) = 0.
Proof.
  exists (f7_input 0). split; [|reflexivity].
  destruct (run_sx (f7_input 0)) as [[lo d]|] eqn:E; [|vm_compute in E; discriminate].
  exists lo, d. split; [reflexivity|].
  assert (E' : Some (lo, d) = run_sx (f7_input 0)) by (symmetry; exact E).
  vm_compute in E'. inversion E'. subst lo d. split; vm_compute; reflexivity.
Qed.

Theorem full64_key_passes_on_f7_witness : model_passes (f7_input 1) = true.
Proof. vm_compute. reflexivity. Qed.
