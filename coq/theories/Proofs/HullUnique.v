(* C02 — "exactly the extreme points": the vertices of ANY polygon meeting HullSpec are exactly
   the exposed (= extreme) points of the pixel set, so HullSpec determines the vertex set. *)
From Coq Require Import ZArith List Bool Lia ZifyBool Permutation.
From Centro Require Import Base.Sx Model.Hull Spec.HullSpec Proofs.HullGeom.
Import ListNotations.
Open Scope Z_scope.

(* v is an exposed point of S: some line through v has all of S on one side and touches S only
   in v.  For a finite point set these are exactly the extreme points of its convex hull. *)
Definition exposed (S : list pt) (v : pt) : Prop :=
  In v S /\ exists al be, forall s, In s S ->
    0 <= al * (fst s - fst v) + be * (snd s - snd v) /\
    (al * (fst s - fst v) + be * (snd s - snd v) = 0 -> s = v).

Lemma consecutive_in V a b c : consecutive V a b c -> In a V /\ In b V /\ In c V.
Proof.
  intros [l1 [l2 E]]. unfold cyc in E.
  assert (H : forall x, In x (V ++ firstn 2 V) -> In x V).
  { intros x Hx. apply in_app_or in Hx. destruct Hx as [Hx|Hx]; auto.
    rewrite <- (firstn_skipn 2 V). apply in_or_app. left. exact Hx. }
  rewrite E in H. repeat split; apply H; apply in_or_app; right; cbn; tauto.
Qed.

(* ---------------------------------------------------------------- vertex => exposed *)
Lemma vertex_exposed S V v : HullSpec S V -> In v V -> exposed S v.
Proof.
  intros HS Hv. split; [apply (hs_subset S V HS); exact Hv|].
  destruct V as [|a [|b [|c0 V']]].
  - destruct Hv.
  - destruct Hv as [Hv|[]]. subst a. exists 0, 0. intros s Hs.
    pose proof (hs_one S _ HS v eq_refl s Hs). subst s. split; [lia | auto].
  - assert (Hab : a <> b).
    { pose proof (hs_nodup S _ HS) as ND. inversion ND as [|x l Hn _]. subst. intros E. apply Hn. left. auto. }
    destruct a as [ai aj], b as [bi bj], v as [vi vj].
    assert (Hdet : (bj - aj) * (-(bj - aj)) - (bi - ai) * (bi - ai) <> 0).
    { intros Z0. apply Hab.
      assert (X0 : bj - aj = 0) by (pose proof (Z.square_nonneg (bj - aj)); pose proof (Z.square_nonneg (bi - ai)); nia).
      assert (Y0 : bi - ai = 0) by (pose proof (Z.square_nonneg (bj - aj)); pose proof (Z.square_nonneg (bi - ai)); nia).
      f_equal; lia. }
    destruct Hv as [Hv|[Hv|[]]]; inversion Hv; subst vi vj.
    + exists (bi - ai), (bj - aj). intros [si sj] Hs.
      destruct (hs_two S _ HS _ _ eq_refl _ Hs) as [C [D0 D1]]. unfold cross, dot in *. cbn [fst snd] in *.
      split; [lia|]. intros Z0.
      destruct (two_lines (bj - aj) (bi - ai) (bi - ai) (-(bj - aj)) (si - ai) (sj - aj)) as [P1 P2]; try lia.
      f_equal; lia.
    + exists (-(bi - ai)), (-(bj - aj)). intros [si sj] Hs.
      destruct (hs_two S _ HS _ _ eq_refl _ Hs) as [C [D0 D1]]. unfold cross, dot in *. cbn [fst snd] in *.
      split; [lia|]. intros Z0.
      destruct (two_lines (bj - aj) (bi - ai) (bi - ai) (-(bj - aj)) (si - bi) (sj - bj)) as [P1 P2]; try lia.
      f_equal; lia.
  - remember (a :: b :: c0 :: V') as V eqn:EV.
    assert (Hlen : (3 <= length V)%nat) by (subst V; cbn; lia).
    destruct (in_consecutive V v Hv Hlen) as [u [w Hc]].
    destruct (hs_poly S V HS Hlen) as [sg [Hsg Hall]].
    destruct (Hall u v w Hc) as [Hstrict Hin].
    destruct u as [ui uj], w as [wi wj], v as [vi vj].
    exists (sg * (wj - uj)), (- sg * (wi - ui)). intros [si sj] Hs.
    destruct (Hin _ Hs) as [F G]. unfold cross in *. cbn [fst snd] in *.
    assert (E : sg * (wj - uj) * (si - vi) + - sg * (wi - ui) * (sj - vj)
                = sg * ((vj - uj) * (si - vi) - (sj - vj) * (vi - ui))
                  + sg * ((wj - vj) * (si - wi) - (sj - wj) * (wi - vi))) by ring.
    rewrite E. split; [lia|]. intros Z0.
    assert (F0 : (vj - uj) * (si - vi) - (sj - vj) * (vi - ui) = 0) by (destruct Hsg; subst sg; lia).
    assert (G0 : (wj - vj) * (si - wi) - (sj - wj) * (wi - vi) = 0) by (destruct Hsg; subst sg; lia).
    assert (Hdet : (vj - uj) * (wi - vi) - (wj - vj) * (vi - ui) <> 0) by (destruct Hsg; subst sg; lia).
    destruct (two_lines (vj - uj) (vi - ui) (wj - vj) (wi - vi) (si - vi) (sj - vj)) as [P1 P2]; [lia | lia | exact Hdet |].
    f_equal; lia.
Qed.

(* ---------------------------------------------------------------- every pixel is "above" some vertex *)
Lemma list_argmin (f : pt -> Z) (l : list pt) : l <> [] -> exists p, In p l /\ forall q, In q l -> f p <= f q.
Proof.
  induction l as [|x l IH]; intros H; [contradiction|].
  destruct l as [|y l].
  - exists x. split; [left; auto|]. intros q [Hq|[]]. subst. lia.
  - destruct IH as [p [Hp Hmin]]; [discriminate|].
    destruct (Z_le_gt_dec (f x) (f p)).
    + exists x. split; [left; auto|]. intros q [Hq|Hq]; [subst; lia|]. specialize (Hmin q Hq). lia.
    + exists p. split; [right; auto|]. intros q [Hq|Hq]; [subst; lia|]. auto.
Qed.

Lemma cone_lemma (D Dx Dy La Lb Lx : Z) :
  D * Lx = Dx * La + Dy * Lb -> 0 < D -> 0 <= Dx -> 0 <= Dy -> 0 <= La -> 0 <= Lb -> 0 <= Lx.
Proof. intros. nia. Qed.

(* no linear functional is smaller on a pixel than on every vertex *)
Lemma pixel_above_vertex S V s al be : HullSpec S V -> In s S ->
  exists p, In p V /\ al * fst p + be * snd p <= al * fst s + be * snd s.
Proof.
  intros HS Hs. destruct V as [|a [|b [|c0 V']]].
  - rewrite (hs_empty S _ HS eq_refl) in Hs. destruct Hs.
  - exists a. split; [left; auto|]. rewrite (hs_one S _ HS a eq_refl s Hs). lia.
  - assert (Hab : a <> b).
    { pose proof (hs_nodup S _ HS) as ND. inversion ND as [|x l Hn _]. subst. intros E. apply Hn. left. auto. }
    destruct (hs_two S _ HS a b eq_refl s Hs) as [C [D0 D1]].
    destruct a as [ai aj], b as [bi bj], s as [si sj]. unfold cross, dot in *. cbn [fst snd] in *.
    assert (HD : 0 < (bi - ai) * (bi - ai) + (bj - aj) * (bj - aj)).
    { destruct (Z.eq_dec bi ai); destruct (Z.eq_dec bj aj); try nia. exfalso. apply Hab. f_equal; lia. }
    set (D := (bi - ai) * (bi - ai) + (bj - aj) * (bj - aj)) in *.
    set (t := (si - ai) * (bi - ai) + (sj - aj) * (bj - aj)) in *.
    assert (C' : (bj - aj) * (si - ai) - (sj - aj) * (bi - ai) = 0) by lia.
    assert (Ei : D * (si - ai) = t * (bi - ai)).
    { assert (X : D * (si - ai) - t * (bi - ai) = (bj - aj) * ((bj - aj) * (si - ai) - (sj - aj) * (bi - ai))) by (unfold D, t; ring).
      rewrite C' in X. lia. }
    assert (Ej : D * (sj - aj) = t * (bj - aj)).
    { assert (X : D * (sj - aj) - t * (bj - aj) = - (bi - ai) * ((bj - aj) * (si - ai) - (sj - aj) * (bi - ai))) by (unfold D, t; ring).
      rewrite C' in X. lia. }
    assert (EL : D * ((al * si + be * sj) - (al * ai + be * aj)) = t * ((al * bi + be * bj) - (al * ai + be * aj))).
    { replace (D * ((al * si + be * sj) - (al * ai + be * aj))) with (al * (D * (si - ai)) + be * (D * (sj - aj))) by ring.
      rewrite Ei, Ej. ring. }
    destruct (Z_le_gt_dec (al * ai + be * aj) (al * bi + be * bj)).
    + exists (ai, aj). split; [left; auto|]. cbn [fst snd]. nia.
    + exists (bi, bj). split; [right; left; auto|]. cbn [fst snd]. nia.
  - remember (a :: b :: c0 :: V') as V eqn:EV.
    assert (Hlen : (3 <= length V)%nat) by (subst V; cbn; lia).
    destruct (list_argmin (fun p => al * fst p + be * snd p) V) as [p [Hp Hmin]]; [subst V; discriminate|].
    exists p. split; [exact Hp|].
    destruct (in_consecutive V p Hp Hlen) as [u [w Hc]].
    destruct (consecutive_in V u p w Hc) as [Hu [_ Hw]].
    destruct (hs_poly S V HS Hlen) as [sg [Hsg Hall]].
    destruct (Hall u p w Hc) as [Hstrict Hin]. destruct (Hin s Hs) as [F G].
    pose proof (Hmin u Hu) as Mu. pose proof (Hmin w Hw) as Mw. cbn beta in Mu, Mw.
    destruct u as [ui uj], w as [wi wj], p as [pi pj], s as [si sj]. unfold cross in *. cbn [fst snd] in *.
    assert (X : 0 <= (al * si + be * sj) - (al * pi + be * pj)); [|lia].
    apply (cone_lemma (sg * ((pj - uj) * (wi - pi) - (wj - pj) * (pi - ui)))
                      (sg * ((wj - pj) * (si - wi) - (sj - wj) * (wi - pi)))
                      (sg * ((pj - uj) * (si - pi) - (sj - pj) * (pi - ui)))
                      ((al * ui + be * uj) - (al * pi + be * pj))
                      ((al * wi + be * wj) - (al * pi + be * pj))); try lia; try (destruct Hsg; subst sg; lia).
Qed.

(* ---------------------------------------------------------------- exposed => vertex *)
Lemma exposed_vertex S V v : HullSpec S V -> exposed S v -> In v V.
Proof.
  intros HS [Hv [al [be H]]].
  destruct (pixel_above_vertex S V v al be HS Hv) as [p [Hp Hle]].
  destruct (H p (hs_subset S V HS p Hp)) as [H0 H1].
  assert (p = v) by (apply H1; lia). subst p. exact Hp.
Qed.

(* the vertices of a polygon meeting the specification are exactly the exposed points of S *)
Theorem hull_exactly_extreme : forall S V v, HullSpec S V -> (In v V <-> exposed S v).
Proof. intros S V v HS. split; [apply vertex_exposed | apply exposed_vertex]; exact HS. Qed.

(* hence the specification determines the vertex set, and the vertex list up to order *)
Theorem hull_vertices_unique : forall S V V', HullSpec S V -> HullSpec S V' ->
  (forall v, In v V <-> In v V') /\ Permutation V V'.
Proof.
  intros S V V' H1 H2.
  assert (E : forall v, In v V <-> In v V').
  { intros v. rewrite (hull_exactly_extreme S V v H1). rewrite (hull_exactly_extreme S V' v H2). tauto. }
  split; [exact E|]. apply NoDup_Permutation; [apply (hs_nodup S V H1) | apply (hs_nodup S V' H2) | exact E].
Qed.

Example exposed_ex :
  let S := [(0,0);(1,0);(2,0);(0,1);(1,1);(2,1);(0,2);(1,2);(2,2)] in
  HullSpec S [(0,0);(0,2);(2,2);(2,0)] /\ HullSpec S [(2,2);(2,0);(0,0);(0,2)] /\ HullSpec S [(0,0);(2,0);(2,2);(0,2)]
  /\ exposed S (0,2) /\ ~ exposed S (1,0).
Proof.
  cbv zeta. assert (H : HullSpec [(0,0);(1,0);(2,0);(0,1);(1,1);(2,1);(0,2);(1,2);(2,2)] [(0,0);(0,2);(2,2);(2,0)])
    by (apply hull_ok_sound; vm_compute; reflexivity).
  split; [exact H|]. split; [apply hull_ok_sound; vm_compute; reflexivity|].
  split; [apply hull_ok_sound; vm_compute; reflexivity|]. split.
  - apply (hull_exactly_extreme _ _ _ H). cbn. tauto.
  - intros E. apply (hull_exactly_extreme _ _ _ H) in E. cbn in E.
    repeat (destruct E as [E|E]; [inversion E|]). exact E.
Qed.
