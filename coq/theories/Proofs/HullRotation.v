(* C02 — successor_unique and the rotation form of hull_unique. *)
From Coq Require Import ZArith List Bool Lia ZifyBool Permutation.
From Centro Require Import Base.Sx Model.Hull Spec.HullSpec Proofs.HullGeom Proofs.HullUnique Proofs.HullStrict.
Import ListNotations.
Open Scope Z_scope.

(* ---------------------------------------------------------------- arithmetic core, by hand *)
(* u = c - b, w = c' - b parallel (D = 0).  p = u.w *)
Section Core.
  Variables ui uj wi wj : Z.
  Hypothesis Hpar : uj * wi - wj * ui = 0.
  Let p := ui * wi + uj * wj.
  Let nu := ui * ui + uj * uj.
  Let nw := wi * wi + wj * wj.

  Lemma par_i : nu * wi = p * ui.
  Proof. unfold nu, p. assert (E : (ui * ui + uj * uj) * wi - (ui * wi + uj * wj) * ui = uj * (uj * wi - wj * ui)) by ring. rewrite Hpar in E. lia. Qed.
  Lemma par_j : nu * wj = p * uj.
  Proof. unfold nu, p. assert (E : (ui * ui + uj * uj) * wj - (ui * wi + uj * wj) * uj = - ui * (uj * wi - wj * ui)) by ring. rewrite Hpar in E. lia. Qed.
  Lemma par_sq : p * p = nu * nw.
  Proof. unfold nu, nw, p. assert (E : (ui * ui + uj * uj) * (wi * wi + wj * wj) - (ui * wi + uj * wj) * (ui * wi + uj * wj) = (uj * wi - wj * ui) * (uj * wi - wj * ui)) by ring. rewrite Hpar in E. lia. Qed.
End Core.

Lemma sq_pos (x y : Z) : (x <> 0 \/ y <> 0) -> 0 < x * x + y * y.
Proof. intros H. pose proof (Z.square_nonneg x). pose proof (Z.square_nonneg y). destruct H; nia. Qed.

Lemma sign_a (nu p X Y : Z) : 0 < nu -> nu * X = p * Y -> 0 <= X -> 0 < Y -> p <> 0 -> 0 < p.
Proof. intros. destruct (Z_lt_le_dec 0 p); [assumption|]. exfalso. assert (p < 0) by lia. nia. Qed.
Lemma sign_b (nu nw p : Z) : 0 < p -> p < nu -> p * p = nu * nw -> 0 < nw -> nw < p.
Proof. intros. destruct (Z_lt_le_dec nw p); [assumption|]. exfalso. assert (p * nw <= nw * nw) by nia. nia. Qed.
Lemma sign_c (n p X Y : Z) : 0 < n -> n * X = - (p - n) * Y -> n < p -> 0 < Y -> 0 <= X -> False.
Proof. intros. assert (0 < (p - n) * Y) by nia. nia. Qed.
Lemma prod_pos_ne (a b p : Z) : 0 < a -> 0 < b -> p * p = a * b -> p <> 0.
Proof. intros. intros E. subst p. nia. Qed.

(* the successor of a vertex is determined: b, its successors c (in V, followed by d) and c' (in V',
   followed by d'), a the predecessor of b in V *)
Lemma successor_core (a b c d c' d' : pt) :
  0 < cross a b c -> 0 < cross b c d -> 0 < cross b c' d' ->
  0 <= cross b c c' -> 0 <= cross b c' c ->
  0 <= cross a b c' -> 0 <= cross c d c' -> 0 <= cross c' d' c ->
  c <> b -> c' <> b -> c = c'.
Proof.
  destruct a as [ai aj], b as [bi bj], c as [ci cj], d as [di dj], c' as [pi pj], d' as [ei ej].
  unfold cross. cbn [fst snd]. intros Habc Hbcd Hbpe H1 H2 Hab Hcd Hpe Ncb Npb.
  set (ui := ci - bi) in *. set (uj := cj - bj) in *. set (wi := pi - bi) in *. set (wj := pj - bj) in *.
  assert (Hu : ui <> 0 \/ uj <> 0).
  { destruct (Z.eq_dec ui 0); destruct (Z.eq_dec uj 0); auto. exfalso. apply Ncb. f_equal; unfold ui, uj in *; lia. }
  assert (Hw : wi <> 0 \/ wj <> 0).
  { destruct (Z.eq_dec wi 0); destruct (Z.eq_dec wj 0); auto. exfalso. apply Npb. f_equal; unfold wi, wj in *; lia. }
  (* collinear *)
  assert (Hpar : uj * wi - wj * ui = 0).
  { assert (E1 : (cj - bj) * (pi - ci) - (pj - cj) * (ci - bi) = uj * wi - wj * ui) by (unfold ui, uj, wi, wj; ring).
    assert (E2 : (pj - bj) * (ci - pi) - (cj - pj) * (pi - bi) = - (uj * wi - wj * ui)) by (unfold ui, uj, wi, wj; ring).
    lia. }
  pose proof (par_i ui uj wi wj Hpar) as Pi. pose proof (par_j ui uj wi wj Hpar) as Pj.
  pose proof (par_sq ui uj wi wj Hpar) as Psq.
  assert (Hpar' : wj * ui - uj * wi = 0) by lia.
  pose proof (par_i wi wj ui uj Hpar') as Qi. pose proof (par_j wi wj ui uj Hpar') as Qj.
  pose proof (sq_pos ui uj Hu) as Nu. pose proof (sq_pos wi wj Hw) as Nw.
  set (nu := ui * ui + uj * uj) in *. set (nw := wi * wi + wj * wj) in *.
  set (p := ui * wi + uj * wj) in *.
  assert (Ep' : wi * ui + wj * uj = p) by (unfold p; ring). rewrite Ep' in Qi, Qj.
  (* p > 0 : otherwise c' lies on the far side of b *)
  assert (Hp : 0 < p).
  { destruct (Z_lt_le_dec 0 p) as [G|G]; [exact G|]. exfalso.
    assert (E : nu * ((bj - aj) * (pi - bi) - (pj - bj) * (bi - ai)) = p * ((bj - aj) * (ci - bi) - (cj - bj) * (bi - ai))).
    { fold wi wj ui uj. replace (nu * ((bj - aj) * wi - wj * (bi - ai))) with ((bj - aj) * (nu * wi) - (nu * wj) * (bi - ai)) by ring.
      rewrite Pi, Pj. ring. }
    assert (Np : p <> 0) by (apply (prod_pos_ne nu nw); assumption).
    pose proof (sign_a nu p _ _ Nu E Hab Habc Np). lia. }
  (* p = nu : otherwise one of c, c' lies strictly between b and the other *)
  assert (Hpn : p = nu).
  { destruct (Z.lt_trichotomy p nu) as [G|[G|G]]; [|exact G|]; exfalso.
    - (* c' strictly between b and c : use V' *)
      assert (Gw : nw < p) by (apply (sign_b nu); assumption).
      assert (E : nw * ((ej - pj) * (ci - ei) - (cj - ej) * (ei - pi)) = - (p - nw) * ((pj - bj) * (ei - pi) - (ej - pj) * (pi - bi))).
      { assert (X1 : nw * (ci - pi) = (p - nw) * wi).
        { replace (ci - pi) with (ui - wi) by (unfold ui, wi; ring). rewrite Z.mul_sub_distr_l, Qi. ring. }
        assert (X2 : nw * (cj - pj) = (p - nw) * wj).
        { replace (cj - pj) with (uj - wj) by (unfold uj, wj; ring). rewrite Z.mul_sub_distr_l, Qj. ring. }
        replace (nw * ((ej - pj) * (ci - ei) - (cj - ej) * (ei - pi)))
          with ((ej - pj) * (nw * (ci - pi)) - (nw * (cj - pj)) * (ei - pi)
                + nw * ((ej - pj) * (pi - ei) - (pj - ej) * (ei - pi))) by ring.
        rewrite X1, X2. fold wi wj. ring. }
      exact (sign_c nw p _ _ Nw E Gw Hbpe Hpe).
    - (* c strictly between b and c' : use V *)
      assert (E : nu * ((dj - cj) * (pi - di) - (pj - dj) * (di - ci)) = - (p - nu) * ((cj - bj) * (di - ci) - (dj - cj) * (ci - bi))).
      { assert (X1 : nu * (pi - ci) = (p - nu) * ui).
        { replace (pi - ci) with (wi - ui) by (unfold ui, wi; ring). rewrite Z.mul_sub_distr_l, Pi. ring. }
        assert (X2 : nu * (pj - cj) = (p - nu) * uj).
        { replace (pj - cj) with (wj - uj) by (unfold uj, wj; ring). rewrite Z.mul_sub_distr_l, Pj. ring. }
        replace (nu * ((dj - cj) * (pi - di) - (pj - dj) * (di - ci)))
          with ((dj - cj) * (nu * (pi - ci)) - (nu * (pj - cj)) * (di - ci)
                + nu * ((dj - cj) * (ci - di) - (cj - dj) * (di - ci))) by ring.
        rewrite X1, X2. fold ui uj. ring. }
      exact (sign_c nu p _ _ Nu E G Hbcd Hcd). }
  rewrite Hpn in Pi, Pj.
  assert (Ei : wi = ui) by (apply (Z.mul_reg_l _ _ nu); lia).
  assert (Ej : wj = uj) by (apply (Z.mul_reg_l _ _ nu); lia).
  unfold ui, uj, wi, wj in Ei, Ej. f_equal; lia.
Qed.

(* ---------------------------------------------------------------- successor_unique *)
Definition pos (V : list pt) : Prop := forall a b c, consecutive V a b c -> 0 < cross a b c.

Lemma pos_support S V : HullSpec S V -> pos V -> (3 <= length V)%nat ->
  forall a b c, consecutive V a b c -> forall s, In s S -> 0 <= cross a b s /\ 0 <= cross b c s.
Proof.
  intros HS HP Hlen a b c Hc s Hs. destruct (hs_poly S V HS Hlen) as [sg [Hsg H]].
  destruct (H a b c Hc) as [H1 H2]. specialize (HP a b c Hc). destruct (H2 s Hs) as [A B].
  destruct Hsg; subst sg; [lia | nia].
Qed.

Lemma consecutive_next (V : list pt) a b c : (3 <= length V)%nat -> consecutive V a b c -> exists d, consecutive V b c d.
Proof.
  intros Hlen Hc. destruct (len3 V Hlen) as [v0 [v1 [v2 [W EV]]]]. subst V.
  destruct (consecutive_cases v0 v1 (v2 :: W) a b c Hc) as [[l1 [l2 E]]|[[l1 [E Ec]]|[l1 [E [Eb Ec]]]]]; unfold consecutive, cyc.
  - destruct l2 as [|d l2'].
    + exists v0, (l1 ++ [a]), [v1]. cbn [firstn]. rewrite E. rewrite <- !app_assoc. reflexivity.
    + exists d, (l1 ++ [a]), (l2' ++ firstn 2 (v0 :: v1 :: v2 :: W)). rewrite E. rewrite <- !app_assoc. reflexivity.
  - subst c. exists v1, (l1 ++ [a]), []. cbn [firstn]. rewrite E. rewrite <- !app_assoc. reflexivity.
  - subst b c. exists v2, [], (W ++ firstn 2 (v0 :: v1 :: v2 :: W)). reflexivity.
Qed.

Theorem successor_unique : forall S V V' a b c a' c', HullSpec S V -> HullSpec S V' -> pos V -> pos V' ->
  (3 <= length V)%nat -> (3 <= length V')%nat ->
  consecutive V a b c -> consecutive V' a' b c' -> c = c'.
Proof.
  intros S V V' a b c a' c' HS HS' HP HP' Hl Hl' Hc Hc'.
  destruct (consecutive_next V a b c Hl Hc) as [d Hd]. destruct (consecutive_next V' a' b c' Hl' Hc') as [d' Hd'].
  destruct (consecutive_in V a b c Hc) as [_ [_ Hcin]]. destruct (consecutive_in V' a' b c' Hc') as [_ [_ Hcin']].
  pose proof (hs_subset S V HS c Hcin) as HcS. pose proof (hs_subset S V' HS' c' Hcin') as HcS'.
  destruct (pos_support S V HS HP Hl a b c Hc c' HcS') as [A1 A2].
  destruct (pos_support S V HS HP Hl b c d Hd c' HcS') as [_ A3].
  destruct (pos_support S V' HS' HP' Hl' a' b c' Hc' c HcS) as [_ B2].
  destruct (pos_support S V' HS' HP' Hl' b c' d' Hd' c HcS) as [_ B3].
  apply (successor_core a b c d c' d'); auto.
  - intros E. subst c. specialize (HP a b b Hc). unfold cross in HP. nia.
  - intros E. subst c'. specialize (HP' a' b b Hc'). unfold cross in HP'. nia.
Qed.

(* ---------------------------------------------------------------- from successors to rotations *)

Lemma adjacent_consecutive (V l1 l2 : list pt) b c : (3 <= length V)%nat -> V = l1 ++ b :: c :: l2 ->
  exists a, consecutive V a b c.
Proof.
  intros Hlen E. unfold consecutive, cyc.
  destruct l1 as [|x l1] using rev_ind.
  - (* b is the first vertex: its predecessor is the last one *)
    cbn [app] in E. destruct l2 as [|y l2]; [subst V; cbn in Hlen; lia|].
    destruct (exists_last (l := y :: l2) ltac:(discriminate)) as [F [z Ez]].
    exists z, (b :: c :: F), []. rewrite E, Ez. cbn [firstn app]. rewrite <- app_assoc. reflexivity.
  - exists x, l1, (l2 ++ firstn 2 V). rewrite E at 1. rewrite <- !app_assoc. reflexivity.
Qed.

Lemma wrap_consecutive (V : list pt) d : (3 <= length V)%nat -> exists a, consecutive V a (last V d) (hd d V).
Proof.
  intros Hlen. destruct (len3 V Hlen) as [v0 [v1 [v2 [W EV]]]].
  destruct (exists_last (l := v1 :: v2 :: W) ltac:(discriminate)) as [F [z Ez]].
  assert (NF : F <> []) by (intros E0; subst F; destruct W; discriminate).
  destruct (exists_last NF) as [F' [y Ey]].
  exists y, (v0 :: F'), [v1]. unfold cyc. rewrite EV. cbn [hd firstn].
  change (last (v0 :: v1 :: v2 :: W) d) with (last (v1 :: v2 :: W) d). rewrite Ez, last_last, Ey.
  cbn [app]. rewrite <- !app_assoc. reflexivity.
Qed.

Section Chain.
  Variable Sx : pt -> pt -> Prop.
  Hypothesis Sx_fun : forall b c c2, Sx b c -> Sx b c2 -> c = c2.
  Definition chain (L : list pt) : Prop := forall P b c R, L = P ++ b :: c :: R -> Sx b c.
  Lemma chain_eq : forall L1 L2 x, chain (x :: L1) -> chain (x :: L2) -> length L1 = length L2 -> L1 = L2.
  Proof.
    induction L1 as [|y L1 IH]; intros [|z L2] x H1 H2 HL; try discriminate; [reflexivity|].
    assert (y = z) by (apply (Sx_fun x); [apply (H1 [] x y L1) | apply (H2 [] x z L2)]; reflexivity). subst z.
    f_equal. apply (IH L2 y).
    - intros P b c R E. apply (H1 (x :: P) b c R). rewrite E. reflexivity.
    - intros P b c R E. apply (H2 (x :: P) b c R). rewrite E. reflexivity.
    - cbn in HL. lia.
  Qed.
End Chain.

(* hull_unique, rotation form: two positively oriented polygons meeting the specification for the same
   pixel set are rotations of each other *)
Theorem hull_unique_rotation : forall S V V', HullSpec S V -> HullSpec S V' -> pos V -> pos V' ->
  (3 <= length V)%nat -> exists k, V' = skipn k V ++ firstn k V.
Proof.
  intros S V V' HS HS' HP HP' Hl.
  destruct (hull_vertices_unique S V V' HS HS') as [Hset Hperm].
  assert (Hl' : (3 <= length V')%nat) by (rewrite <- (Permutation_length Hperm); exact Hl).
  set (Sx := fun b c => exists a, consecutive V a b c).
  assert (Sx_fun : forall b c c2, Sx b c -> Sx b c2 -> c = c2).
  { intros b c c2 [a H1] [a2 H2]. apply (successor_unique S V V a b c a2 c2); auto. }
  destruct V' as [|x T'] eqn:EV'; [cbn in Hl'; lia|]. rewrite <- EV' in *.
  assert (Hx : In x V) by (apply Hset; rewrite EV'; left; reflexivity).
  apply in_split in Hx. destruct Hx as [A [C EV]].
  exists (length A).
  assert (Erot : skipn (length A) V ++ firstn (length A) V = x :: C ++ A).
  { rewrite EV. rewrite skipn_app, firstn_app, Nat.sub_diag, skipn_all, firstn_all. cbn [skipn firstn app].
    rewrite app_nil_r. reflexivity. }
  rewrite Erot. rewrite EV'. f_equal.
  apply (chain_eq Sx Sx_fun T' (C ++ A) x).
  - (* V' follows V's successors *)
    intros P b c R E. rewrite <- EV' in E.
    destruct (adjacent_consecutive V' P R b c Hl' E) as [a' Hc'].
    assert (Hb : In b V) by (apply Hset; rewrite E; apply in_or_app; right; left; reflexivity).
    destruct (in_consecutive V b Hb Hl) as [a [c0 Hc]].
    assert (c0 = c) by (apply (successor_unique S V V' a b c0 a' c); auto). subst c0. exists a. exact Hc.
  - (* the rotated V follows V's successors *)
    intros P b c R E. change (x :: C ++ A) with ((x :: C) ++ A) in E.
    destruct (app_eq_app _ _ _ _ E) as [l [[E1 E2]|[E1 E2]]].
    + destruct l as [|b' [|c' l']].
      * cbn [app] in E2. rewrite app_nil_r in E1.
        apply (adjacent_consecutive V [] (R ++ x :: C) b c Hl). rewrite EV, <- E2. cbn [app]. reflexivity.
      * cbn [app] in E2. injection E2 as Eb Ec. subst b'.
        assert (Elast : last V b = b).
        { rewrite EV, E1. change (A ++ P ++ [b]) with (A ++ (P ++ [b])). rewrite app_assoc. apply last_last. }
        assert (Ehd : hd b V = c).
        { rewrite EV, <- Ec. reflexivity. }
        destruct (wrap_consecutive V b Hl) as [a Ha]. rewrite Elast, Ehd in Ha. exists a. exact Ha.
      * cbn [app] in E2. injection E2 as Eb Ec ER. subst b' c'.
        apply (adjacent_consecutive V (A ++ P) l' b c Hl). rewrite EV, E1, <- app_assoc. reflexivity.
    + apply (adjacent_consecutive V l (R ++ x :: C) b c Hl). rewrite EV, E2, <- app_assoc. reflexivity.
  - apply Permutation_length in Hperm. rewrite EV, EV' in Hperm. rewrite !app_length in *. cbn [length] in *. lia.
Qed.

(* ---------------------------------------------------------------- the kernel's polygon *)
From Centro Require Import Proofs.HullEmit Proofs.HullCorrect Proofs.HullPoly.

Lemma CONVEX_nonneg (a b c : pt) : CONVEX a b c = true -> 0 <= cross a b c.
Proof. unfold CONVEX. destruct (0 <? cross a b c) eqn:E1; [lia|]. destruct (cross a b c <? 0) eqn:E2; [discriminate | lia]. Qed.

(* the kernel always emits the positive rotation sense *)
Theorem hull_label_pos : forall m pts slack, label_ok m pts -> 0 <= slack ->
  (3 <= length (hull_label m pts slack))%nat -> pos (hull_label m pts slack).
Proof.
  intros m pts slack Hok Hs Hlen a b c Hc.
  pose proof (hull_label_correct m pts slack Hok Hs) as HS.
  set (V := hull_label m pts slack) in *.
  destruct (hs_poly pts V HS Hlen) as [sg [Hsg H]].
  destruct (len3 V Hlen) as [v0 [v1 [v2 [W EV]]]].
  assert (H012 : consecutive V v0 v1 v2).
  { exists [], (W ++ firstn 2 V). unfold cyc. rewrite EV at 1. reflexivity. }
  destruct (H v0 v1 v2 H012) as [S1 _].
  assert (C1 : 0 <= cross v0 v1 v2).
  { apply CONVEX_nonneg. apply (emit_chain_convex m pts slack (fun q Hq => proj1 (proj1 Hok q Hq)) [] W v0 v1 v2). exact EV. }
  destruct (H a b c Hc) as [S2 _]. destruct Hsg; subst sg; nia.
Qed.

(* "in order": any positively oriented polygon meeting the specification for a label's pixels is a
   rotation of the polygon the kernel emits *)
Corollary hull_label_unique : forall m pts slack V', label_ok m pts -> 0 <= slack ->
  HullSpec pts V' -> pos V' -> (3 <= length (hull_label m pts slack))%nat ->
  exists k, V' = skipn k (hull_label m pts slack) ++ firstn k (hull_label m pts slack).
Proof.
  intros m pts slack V' Hok Hs HS' HP' Hl.
  apply (hull_unique_rotation pts); auto.
  - apply hull_label_correct; assumption.
  - apply hull_label_pos; assumption.
Qed.

Example hull_unique_rotation_ex :
  let S := [(0,0);(1,0);(2,0);(0,1);(1,1);(2,1);(0,2);(1,2);(2,2)] in
  HullSpec S [(0,0);(0,2);(2,2);(2,0)] /\ HullSpec S [(2,2);(2,0);(0,0);(0,2)]
  /\ [(2,2);(2,0);(0,0);(0,2)] = skipn 2 [(0,0);(0,2);(2,2);(2,0)] ++ firstn 2 [(0,0);(0,2);(2,2);(2,0)]
  /\ hull_label 2 [(0,0);(1,0);(2,0);(0,1);(2,1);(0,2);(1,2);(2,2)] 0 = [(0,0);(0,2);(2,2);(2,0)].
Proof.
  cbv zeta. split; [apply hull_ok_sound; vm_compute; reflexivity|].
  split; [apply hull_ok_sound; vm_compute; reflexivity|]. split; [reflexivity | vm_compute; reflexivity].
Qed.
