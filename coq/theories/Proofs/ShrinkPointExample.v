(* C05 - the hypotheses of C05_end_pixel / C05_shrink_to_point are satisfiable on a non-trivial
   input: the domino [[true;true]] is connected and hole-free (two pixels), and binary_shrink
   reduces it to one pixel. *)
From Coq Require Import ZArith NArith List Bool Lia.
From Centro Require Import Base.Topo Base.Skel Base.TopoPar Base.TopoGrid.
From Centro Require Import Model.ThinSkel Spec.TopoCheck Proofs.ThinSkelTopo Proofs.TopoCounts Proofs.ShrinkPoint Proofs.TopoCheckPoints.
Import ListNotations.
Open Scope Z_scope.

Lemma walk_down (P : px -> Prop) j : forall n i, (forall k, i <= k <= i + Z.of_nat n -> P (k, j)) ->
  path adj4 P (i, j) (i + Z.of_nat n, j).
Proof.
  induction n as [|n IH]; intros i H.
  - replace (i + Z.of_nat 0) with i by lia. apply path_refl. apply H. lia.
  - eapply path_step; [apply H; lia| |].
    + instantiate (1 := (i + 1, j)). unfold adj4; cbn [fst snd]; lia.
    + replace (i + Z.of_nat (S n)) with (i + 1 + Z.of_nat n) by lia. apply IH. intros k Hk. apply H. lia.
Qed.
Lemma walk_right (P : px -> Prop) i : forall n j, (forall k, j <= k <= j + Z.of_nat n -> P (i, k)) ->
  path adj4 P (i, j) (i, j + Z.of_nat n).
Proof.
  induction n as [|n IH]; intros j H.
  - replace (j + Z.of_nat 0) with j by lia. apply path_refl. apply H. lia.
  - eapply path_step; [apply H; lia| |].
    + instantiate (1 := (i, j + 1)). unfold adj4; cbn [fst snd]; lia.
    + replace (j + Z.of_nat (S n)) with (j + 1 + Z.of_nat n) by lia. apply IH. intros k Hk. apply H. lia.
Qed.
Lemma walk_col (P : px -> Prop) j i1 i2 : (forall k, P (k, j)) -> path adj4 P (i1, j) (i2, j).
Proof.
  intros H. destruct (Z_le_gt_dec i1 i2).
  - replace i2 with (i1 + Z.of_nat (Z.to_nat (i2 - i1))) by lia. apply walk_down. intros; apply H.
  - apply (path_sym adj4 P adj4_sym). replace i1 with (i2 + Z.of_nat (Z.to_nat (i1 - i2))) by lia. apply walk_down. intros; apply H.
Qed.
Lemma walk_row (P : px -> Prop) i j1 j2 : (forall k, P (i, k)) -> path adj4 P (i, j1) (i, j2).
Proof.
  intros H. destruct (Z_le_gt_dec j1 j2).
  - replace j2 with (j1 + Z.of_nat (Z.to_nat (j2 - j1))) by lia. apply walk_right. intros; apply H.
  - apply (path_sym adj4 P adj4_sym). replace j1 with (j2 + Z.of_nat (Z.to_nat (j1 - j2))) by lia. apply walk_right. intros; apply H.
Qed.

Definition one : grid := [[true; false]].
Lemma one_img q : img_of one q = true <-> q = (0, 0).
Proof.
  destruct q as [i j]. unfold img_of, one. cbn [fst snd]. split.
  - destruct (Z.ltb_spec i 0); cbn [orb]; [discriminate|]. destruct (Z.ltb_spec j 0); cbn [orb]; [discriminate|].
    destruct (Z.to_nat i) as [|k] eqn:Ei.
    + destruct (Z.to_nat j) as [|m] eqn:Ej; [intros _; f_equal; lia|].
      destruct m as [|m]; [cbn; discriminate|]. cbn [nth]. destruct m; discriminate.
    + destruct k; cbn [nth]; destruct (Z.to_nat j); discriminate.
  - intros E. inversion E. reflexivity.
Qed.

Lemma one_hole_free : hole_free (img_of one).
Proof.
  assert (B : forall q, q <> (0, 0) -> bg (img_of one) q).
  { intros q N. unfold bg. destruct (img_of one q) eqn:V; [|reflexivity]. apply one_img in V. contradiction. }
  assert (Hub : forall a, bg (img_of one) a -> conn4 (img_of one) a (1, 1)).
  { intros [i j] Ha. assert (N : (i, j) <> (0, 0)) by (intros E; unfold bg in Ha; rewrite (proj2 (one_img _) E) in Ha; discriminate).
    destruct (Z.eq_dec j 0) as [->|Nj].
    - assert (Ni : i <> 0) by (intros ->; apply N; reflexivity).
      eapply path_trans; [apply (walk_row _ i 0 1); intros k; apply B; intros E; inversion E; lia|].
      apply (walk_col _ 1 i 1). intros k. apply B. intros E; inversion E.
    - eapply path_trans; [apply (walk_col _ j i 1); intros k; apply B; intros E; inversion E; lia|].
      apply (walk_row _ 1 j 1). intros k. apply B. intros E; inversion E. }
  intros a b Ha Hb. eapply path_trans; [apply Hub; exact Ha|]. apply conn4_sym. apply Hub. exact Hb.
Qed.
Lemma one_connected : connected (img_of one).
Proof. intros a b Ha Hb. apply one_img in Ha, Hb. subst. apply path_refl. apply one_img. reflexivity. Qed.

Definition domino : grid := [[true; true]].
Lemma domino_topo : TopoEq (img_of domino) (img_of one).
Proof. apply (topo_check_sound 1 2 domino one). vm_compute. reflexivity. Qed.

Example end_pixel_premises :
  wf 1 2 domino /\ connected (img_of domino) /\ hole_free (img_of domino) /\
  (exists a b, a <> b /\ img_of domino a = true /\ img_of domino b = true) /\
  shrink_model 1 2 (-1) domino = [[true; false]].
Proof.
  pose proof domino_topo as T. split; [split; [reflexivity|intros r [<-|[]]; reflexivity]|]. split; [|split; [|split]].
  - intros a b Ha Hb. destruct (te_fg_surj _ _ T a Ha) as [a' [Ha' Pa]]. destruct (te_fg_surj _ _ T b Hb) as [b' [Hb' Pb]].
    eapply path_trans; [exact Pa|]. eapply path_trans; [|apply conn8_sym; exact Pb].
    eapply path_mono; [|apply one_connected; assumption]. apply (te_sub _ _ T).
  - intros a b Ha Hb. apply (te_bg_iff _ _ T a b Ha Hb). apply one_hole_free; apply (sub_bg _ _ T); assumption.
  - exists (0, 0), (0, 1). split; [discriminate|split; reflexivity].
  - vm_compute. reflexivity.
Qed.

(* premises of C05_ronse_points / C05_topo_check_complete_points on a non-trivial pair *)
Example points_premises :
  wf 1 2 domino /\ wf 1 2 one /\ hole_free (img_of one) /\ singletons (img_of one) /\
  TopoEq (img_of domino) (img_of one) /\ (exists p, img_of domino p = true /\ img_of one p = false).
Proof.
  split; [split; [reflexivity|intros r [<-|[]]; reflexivity]|]. split; [split; [reflexivity|intros r [<-|[]]; reflexivity]|].
  split; [exact one_hole_free|]. split; [|split; [exact domino_topo|exists (0, 1); split; reflexivity]].
  intros a b Ha Hb _. apply one_img in Ha, Hb. congruence.
Qed.
