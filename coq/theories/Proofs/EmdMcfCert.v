(* C10 — optimality certificate for a min-cost flow on an arbitrary graph (the graph handed to
   min_cost_flow.hpp): a non-negative flow f, node potentials pi with non-negative reduced cost on
   every arc (forward arcs are uncapacitated, hence always residual) and zero reduced cost on every
   arc that carries flow (its backward residual arc is non-negative too) is of minimum cost among
   all non-negative flows with the same net outflow at every node.  All graphs, all sizes. *)
From Coq Require Import ZArith List Bool Lia ZifyBool.
From Centro Require Import Base.Sx Base.EmdBase Spec.Emd Proofs.EmdDuality.
Import ListNotations.
Open Scope Z_scope.

Definition ind (x v : nat) : Z := if (x =? v)%nat then 1 else 0.

Lemma zsum_pick (p : nat -> Z) x : forall nv s, (s <= x < s + nv)%nat ->
  zsum (map (fun v => p v * ind x v) (seq s nv)) = p x.
Proof.
  induction nv as [|nv IH]; intros s H; [lia|]. cbn [seq map zsum]. unfold ind at 1.
  destruct (x =? s)%nat eqn:E.
  - apply Nat.eqb_eq in E. subst. rewrite zsum_map_zero; [lia|].
    intros v Hv. apply in_seq in Hv. unfold ind. destruct (s =? v)%nat eqn:E; [apply Nat.eqb_eq in E; lia|lia].
  - apply Nat.eqb_neq in E. rewrite IH by lia. lia.
Qed.

Lemma zsum_map_sub {A} (a b : A -> Z) l : zsum (map (fun x => a x - b x) l) = zsum (map a l) - zsum (map b l).
Proof. induction l; cbn [map zsum]; lia. Qed.

Section McfCert.
Variable nv : nat.
Variable sk : list (nat * nat * Z).          (* arcs: from, to, cost *)
Definition a_fr (k : nat) : nat := fst (fst (nth k sk (O, O, 0))).
Definition a_tt (k : nat) : nat := snd (fst (nth k sk (O, O, 0))).
Definition a_c (k : nat) : Z := snd (nth k sk (O, O, 0)).
Definition idx := seq 0 (length sk).
Hypothesis wf : forall k, In k idx -> (a_fr k < nv)%nat /\ (a_tt k < nv)%nat.

Definition gout (h : nat -> Z) (v : nat) : Z :=
  zsum (map (fun k => (ind (a_fr k) v - ind (a_tt k) v) * h k) idx).
Definition gcost (h : nat -> Z) : Z := zsum (map (fun k => a_c k * h k) idx).

Variable pi : nat -> Z.
Definition rcost (k : nat) : Z := a_c k + pi (a_fr k) - pi (a_tt k).

Lemma potential_sum (h : nat -> Z) :
  zsum (map (fun k => (pi (a_fr k) - pi (a_tt k)) * h k) idx) =
  zsum (map (fun v => pi v * gout h v) (seq 0 nv)).
Proof.
  unfold gout.
  rewrite (zsum_map_ext (fun v => pi v * zsum (map (fun k => (ind (a_fr k) v - ind (a_tt k) v) * h k) idx))
                        (fun v => zsum (map (fun k => pi v * ((ind (a_fr k) v - ind (a_tt k) v) * h k)) idx)))
    by (intros; rewrite zsum_map_scale; reflexivity).
  rewrite (zsum_swap (fun v k => pi v * ((ind (a_fr k) v - ind (a_tt k) v) * h k)) (seq 0 nv) idx).
  apply zsum_map_ext. intros k Hk. destruct (wf k Hk) as [A B].
  rewrite (zsum_map_ext _ (fun v => h k * (pi v * ind (a_fr k) v) + (- h k) * (pi v * ind (a_tt k) v))) by (intros; lia).
  rewrite zsum_map_add, !zsum_map_scale, !zsum_pick by lia. lia.
Qed.

Theorem mcf_cert_optimal (f g : nat -> Z) :
  (forall k, In k idx -> 0 <= f k) -> (forall k, In k idx -> 0 <= g k) ->
  (forall v, (v < nv)%nat -> gout g v = gout f v) ->
  (forall k, In k idx -> 0 <= rcost k) ->
  (forall k, In k idx -> 0 < f k -> rcost k <= 0) ->
  gcost f <= gcost g.
Proof.
  intros Pf Pg Same R0 R1.
  assert (P : zsum (map (fun k => (pi (a_fr k) - pi (a_tt k)) * (g k - f k)) idx) = 0).
  { rewrite potential_sum. apply zsum_map_zero. intros v Hv. apply in_seq in Hv.
    assert (E : gout (fun k => g k - f k) v = gout g v - gout f v).
    { unfold gout. rewrite <- zsum_map_sub. apply zsum_map_ext. intros; lia. }
    rewrite E, Same by lia. lia. }
  assert (N : 0 <= zsum (map (fun k => rcost k * (g k - f k)) idx)).
  { apply zsum_map_nonneg. intros k Hk. specialize (Pf k Hk). specialize (Pg k Hk). specialize (R0 k Hk).
    specialize (R1 k Hk). destruct (Z_lt_dec 0 (f k)) as [L|L]; [specialize (R1 L); nia|nia]. }
  assert (D : zsum (map (fun k => rcost k * (g k - f k)) idx) =
              gcost g - gcost f + zsum (map (fun k => (pi (a_fr k) - pi (a_tt k)) * (g k - f k)) idx)).
  { unfold gcost, rcost. rewrite <- zsum_map_sub, <- zsum_map_add. apply zsum_map_ext. intros; lia. }
  lia.
Qed.
End McfCert.

(* the hypotheses are satisfiable: two parallel routes 0->2 (direct, cost 5) and 0->1->2 (cost 1+1);
   the flow that sends both units over the cheap route is certified by pi = (0, 1, 2) *)
Example mcf_cert_example :
  let sk := [(O, 2%nat, 5); (O, 1%nat, 1); (1%nat, 2%nat, 1)] in
  let pi := fun v : nat => match v with O => 0 | S O => 1 | _ => 2 end in
  let f := fun k : nat => match k with O => 0 | _ => 2 end in
  (forall k, In k (idx sk) -> (a_fr sk k < 3)%nat /\ (a_tt sk k < 3)%nat) /\
  (forall k, In k (idx sk) -> 0 <= f k) /\
  (forall k, In k (idx sk) -> 0 <= rcost sk pi k) /\
  (forall k, In k (idx sk) -> 0 < f k -> rcost sk pi k <= 0).
Proof.
  cbv zeta. unfold idx. cbn [length seq].
  split; [|split; [|split]].
  - intros k [<-|[<-|[<-|[]]]]; unfold a_fr, a_tt; cbn; lia.
  - intros k [<-|[<-|[<-|[]]]]; lia.
  - intros k [<-|[<-|[<-|[]]]]; unfold rcost, a_c, a_fr, a_tt; cbn; lia.
  - intros k [<-|[<-|[<-|[]]]]; unfold rcost, a_c, a_fr, a_tt; cbn; lia.
Qed.
