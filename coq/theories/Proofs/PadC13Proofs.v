(* C13 — zero padding (np.pad) of a label image: reads and own-pixel coordinates shift. *)
From Coq Require Import ZArith List Bool Lia ZifyBool.
From Centro Require Import Base.VecC13 Proofs.VecC13Proofs Gen.TablesC13 Model.MeasureC13 Proofs.MeasureC13Proofs.
Import ListNotations.
Open Scope Z_scope.

Definition zeros_row (r : list Z) : Prop := forall v, In v r -> v = 0.
Definition zeros_rows (rs : list (list Z)) : Prop := forall r, In r rs -> zeros_row r.

Lemma repeat_zeros n : zeros_row (repeat 0 n).
Proof. intros v Hv. apply repeat_spec in Hv. exact Hv. Qed.
Lemma repeat_zeros_rows w n : zeros_rows (repeat (repeat 0 w) n).
Proof. intros r Hr. apply repeat_spec in Hr. subst. apply repeat_zeros. Qed.

Lemma nth_error_zeros r k v : zeros_row r -> nth_error r k = Some v -> v = 0.
Proof. intros H E. apply H. eapply nth_error_In; eauto. Qed.

(* ---- reads ---- *)

Definition rowget (r : list Z) (x : Z) : Z :=
  if x <? 0 then 0 else match nth_error r (Z.to_nat x) with Some v => v | None => 0 end.

Lemma g_row im y x :
  g im y x = if y <? 0 then 0 else match nth_error im (Z.to_nat y) with Some r => rowget r x | None => 0 end.
Proof.
  unfold g, get, rowget. destruct (y <? 0) eqn:Ey; cbn [orb]; [reflexivity|].
  destruct (x <? 0) eqn:Ex.
  - destruct (nth_error im (Z.to_nat y)); reflexivity.
  - destruct (nth_error im (Z.to_nat y)) as [r|]; reflexivity.
Qed.

Lemma rowget_zeros r x : zeros_row r -> rowget r x = 0.
Proof.
  intros H. unfold rowget. destruct (x <? 0); [reflexivity|].
  destruct (nth_error r (Z.to_nat x)) as [v|] eqn:E; [|reflexivity]. exact (nth_error_zeros _ _ _ H E).
Qed.

Lemma rowget_widen zl zr row x lf :
  zeros_row zl -> zeros_row zr -> Z.of_nat (length zl) = lf ->
  rowget (zl ++ row ++ zr) (x + lf) = rowget row x.
Proof.
  intros Hl Hr <-. unfold rowget.
  destruct (x <? 0) eqn:Ex.
  - destruct (x + Z.of_nat (length zl) <? 0) eqn:E2; [reflexivity|].
    rewrite nth_error_app1 by lia.
    destruct (nth_error zl (Z.to_nat (x + Z.of_nat (length zl)))) as [v|] eqn:E; [|reflexivity].
    exact (nth_error_zeros _ _ _ Hl E).
  - replace (x + Z.of_nat (length zl) <? 0) with false by lia.
    rewrite nth_error_app2 by lia.
    replace (Z.to_nat (x + Z.of_nat (length zl)) - length zl)%nat with (Z.to_nat x) by lia.
    destruct (Nat.ltb (Z.to_nat x) (length row)) eqn:El.
    + apply Nat.ltb_lt in El. rewrite nth_error_app1 by exact El. reflexivity.
    + apply Nat.ltb_ge in El. rewrite nth_error_app2 by exact El.
      rewrite (proj2 (nth_error_None row (Z.to_nat x)) El).
      destruct (nth_error zr (Z.to_nat x - length row)) as [v|] eqn:E; [|reflexivity].
      exact (nth_error_zeros _ _ _ Hr E).
Qed.

Definition widen (zl zr : list Z) (row : list Z) : list Z := zl ++ row ++ zr.

(* tops ++ (rows widened by zeros) ++ bots, all added cells zero: reads shift by (|tops|, |zl|) *)
Lemma g_pad tops bots zl zr im y x t lf :
  zeros_rows tops -> zeros_rows bots -> zeros_row zl -> zeros_row zr ->
  Z.of_nat (length tops) = t -> Z.of_nat (length zl) = lf ->
  g (tops ++ map (widen zl zr) im ++ bots) (y + t) (x + lf) = g im y x.
Proof.
  intros Ht Hb Hl Hr <- Hlf. rewrite !g_row.
  destruct (y <? 0) eqn:Ey.
  - destruct (y + Z.of_nat (length tops) <? 0) eqn:E2; [reflexivity|].
    rewrite nth_error_app1 by lia.
    destruct (nth_error tops (Z.to_nat (y + Z.of_nat (length tops)))) as [r|] eqn:E; [|reflexivity].
    apply rowget_zeros. apply Ht. exact (nth_error_In _ _ E).
  - replace (y + Z.of_nat (length tops) <? 0) with false by lia.
    rewrite nth_error_app2 by lia.
    replace (Z.to_nat (y + Z.of_nat (length tops)) - length tops)%nat with (Z.to_nat y) by lia.
    destruct (Nat.ltb (Z.to_nat y) (length im)) eqn:El.
    + apply Nat.ltb_lt in El. rewrite nth_error_app1 by (rewrite map_length; exact El).
      rewrite nth_error_map. destruct (nth_error im (Z.to_nat y)) as [row|] eqn:E; cbn [option_map].
      * unfold widen. apply rowget_widen; assumption.
      * apply nth_error_None in E. lia.
    + apply Nat.ltb_ge in El. rewrite nth_error_app2 by (rewrite map_length; exact El).
      rewrite (proj2 (nth_error_None im (Z.to_nat y)) El).
      destruct (nth_error bots (Z.to_nat y - length (map (widen zl zr) im))) as [r|] eqn:E; [|reflexivity].
      apply rowget_zeros. apply Hb. exact (nth_error_In _ _ E).
Qed.

(* ---- own pixels ---- *)

Definition shift3 (dy dx : Z) (p : Z * Z * Z) : Z * Z * Z := ((p_y p + dy, p_x p + dx), p_v p).

Lemma enum_row_shift (r : list Z) : forall y x dy dx,
  enum_row (y + dy) (x + dx) r = map (shift3 dy dx) (enum_row y x r).
Proof.
  induction r as [|v t IH]; intros y x dy dx; cbn [enum_row map]; [reflexivity|].
  f_equal. replace (x + dx + 1) with (x + 1 + dx) by lia. apply IH.
Qed.

Lemma enum_row_app (a b : list Z) : forall y x,
  enum_row y x (a ++ b) = enum_row y x a ++ enum_row y (x + Z.of_nat (length a)) b.
Proof.
  induction a as [|v t IH]; intros y x; cbn [app enum_row length].
  - replace (x + Z.of_nat 0) with x by lia. reflexivity.
  - rewrite IH. f_equal. f_equal. f_equal. lia.
Qed.

Lemma enum_rows_app (a b : list (list Z)) : forall y,
  enum_rows y (a ++ b) = enum_rows y a ++ enum_rows (y + Z.of_nat (length a)) b.
Proof.
  induction a as [|r t IH]; intros y; cbn [app enum_rows length].
  - replace (y + Z.of_nat 0) with y by lia. reflexivity.
  - rewrite IH, app_assoc. f_equal. f_equal. lia.
Qed.

Definition is_l (l : Z) (p : Z * Z * Z) : bool := p_v p =? l.

Lemma filter_zero_row l y r : l <> 0 -> zeros_row r -> forall x, filter (is_l l) (enum_row y x r) = [].
Proof.
  intros Hl. induction r as [|v t IH]; intros Hz x; cbn [enum_row filter]; [reflexivity|].
  assert (v = 0) by (apply Hz; left; reflexivity). subst v.
  unfold is_l at 1, p_v. cbn [snd]. replace (0 =? l) with false by lia.
  apply IH. intros v Hv. apply Hz. right; exact Hv.
Qed.

Lemma filter_zero_rows l rs : l <> 0 -> zeros_rows rs -> forall y, filter (is_l l) (enum_rows y rs) = [].
Proof.
  intros Hl. induction rs as [|r t IH]; intros Hz y; cbn [enum_rows]; [reflexivity|].
  rewrite filter_app, filter_zero_row by (auto; apply Hz; left; reflexivity).
  apply IH. intros r' Hr'. apply Hz. right; exact Hr'.
Qed.

Lemma filter_map_shift3 l dy dx ps :
  filter (is_l l) (map (shift3 dy dx) ps) = map (shift3 dy dx) (filter (is_l l) ps).
Proof. rewrite filter_map_comm. reflexivity. Qed.

Lemma own_widen l zl zr lf (im : list (list Z)) : l <> 0 -> zeros_row zl -> zeros_row zr ->
  Z.of_nat (length zl) = lf -> forall y dy,
  filter (is_l l) (enum_rows (y + dy) (map (widen zl zr) im)) =
  map (shift3 dy lf) (filter (is_l l) (enum_rows y im)).
Proof.
  intros Hl Hzl Hzr Hlf. induction im as [|row t IH]; intros y dy; cbn [map enum_rows]; [reflexivity|].
  rewrite !filter_app, map_app. f_equal.
  - unfold widen. rewrite !enum_row_app, !filter_app.
    rewrite (filter_zero_row l _ zl Hl Hzl), (filter_zero_row l _ zr Hl Hzr), app_nil_r. cbn [app].
    rewrite Hlf. replace (0 + lf) with (0 + lf) by reflexivity.
    rewrite (enum_row_shift row y 0 dy lf). apply filter_map_shift3.
  - replace (y + dy + 1) with (y + 1 + dy) by lia. apply IH.
Qed.

Lemma own_pad tops bots zl zr im l t lf :
  l <> 0 -> zeros_rows tops -> zeros_rows bots -> zeros_row zl -> zeros_row zr ->
  Z.of_nat (length tops) = t -> Z.of_nat (length zl) = lf ->
  own_coords (tops ++ map (widen zl zr) im ++ bots) l = map (shift t lf) (own_coords im l).
Proof.
  intros Hl Ht Hb Hzl Hzr Htl Hlf. unfold own_coords, pixels.
  change (fun p : Z * Z * Z => p_v p =? l) with (is_l l).
  rewrite !enum_rows_app, !filter_app.
  rewrite (filter_zero_rows l tops Hl Ht), (filter_zero_rows l bots Hl Hb), app_nil_r. cbn [app].
  rewrite Htl. rewrite (own_widen l zl zr lf im Hl Hzl Hzr Hlf 0 t).
  rewrite !map_map. apply map_ext. intros p. reflexivity.
Qed.

(* ---- np.pad ---- *)

Lemma pad_shape t b lf r im :
  pad t b lf r im = repeat (repeat 0 (lf + width im + r)%nat) t
                    ++ map (widen (repeat 0 lf) (repeat 0 r)) im
                    ++ repeat (repeat 0 (lf + width im + r)%nat) b.
Proof. reflexivity. Qed.

Theorem pad_g t b lf r im y x :
  g (pad t b lf r im) (y + Z.of_nat t) (x + Z.of_nat lf) = g im y x.
Proof.
  rewrite pad_shape. apply g_pad; auto using repeat_zeros_rows, repeat_zeros; rewrite repeat_length; reflexivity.
Qed.

Theorem pad_own_coords t b lf r im l :
  l <> 0 -> own_coords (pad t b lf r im) l = map (shift (Z.of_nat t) (Z.of_nat lf)) (own_coords im l).
Proof.
  intros Hl. rewrite pad_shape.
  apply own_pad; auto using repeat_zeros_rows, repeat_zeros; rewrite repeat_length; reflexivity.
Qed.
