(* C02 — finite sweeps (proofs by exhaustive evaluation in the kernel, bound in the statement):
   on every point set of a small grid and every small slack the per-label kernel model returns a
   polygon accepted by the verified checker, the in-place guard does not change the result
   (same answer as with an unreachable guard, slack + 1000), and the output never outgrows the
   label's own input rows. *)
From Coq Require Import ZArith List Bool Lia ZifyBool.
From Centro Require Import Base.Sx Model.Hull Spec.HullSpec Proofs.HullGeom.
Import ListNotations.
Open Scope Z_scope.

(* cells of an H x W grid in buffer order (by j, then i) *)
Definition grid (H W : nat) : list pt :=
  flat_map (fun j => map (fun i => (Z.of_nat i, Z.of_nat j)) (seq 0 H)) (seq 0 W).
(* all sub-lists, order preserved *)
Fixpoint sublists {A} (l : list A) : list (list A) :=
  match l with
  | [] => [[]]
  | x :: t => map (cons x) (sublists t) ++ sublists t
  end.
Definition slacks (n : nat) : list Z := map Z.of_nat (seq 0 n).

Fixpoint pts_eqb (a b : list pt) : bool :=
  match a, b with
  | [], [] => true
  | x :: a', y :: b' => pt_eqb x y && pts_eqb a' b'
  | _, _ => false
  end.
Lemma pts_eqb_eq a : forall b, pts_eqb a b = true -> a = b.
Proof.
  induction a as [|x a IH]; intros [|y b] H; cbn in H; try discriminate; auto.
  apply andb_prop in H. destruct H as [H1 H2]. apply pt_eqb_eq in H1. subst. f_equal. auto.
Qed.

Definition sweep_one (m : Z) (pts : list pt) (slack : Z) : bool :=
  let h := hull_label m pts slack in
  hull_ok pts h && (zlen h <=? slack + zlen pts) && pts_eqb h (hull_label m pts (slack + 1000)).

Definition sweep (H W ns : nat) : bool :=
  forallb (fun pts => forallb (sweep_one (Z.of_nat H - 1) pts) (slacks ns)) (sublists (grid H W)).

Lemma sweep_sound H W ns : sweep H W ns = true ->
  forall pts slack, In pts (sublists (grid H W)) -> In slack (slacks ns) ->
    HullSpec pts (hull_label (Z.of_nat H - 1) pts slack) /\
    zlen (hull_label (Z.of_nat H - 1) pts slack) <= slack + zlen pts /\
    hull_label (Z.of_nat H - 1) pts slack = hull_label (Z.of_nat H - 1) pts (slack + 1000).
Proof.
  intros Hs pts slack Hp Hk. unfold sweep in Hs. rewrite forallb_forall in Hs.
  specialize (Hs pts Hp). rewrite forallb_forall in Hs. specialize (Hs slack Hk).
  unfold sweep_one in Hs. apply andb_prop in Hs. destruct Hs as [Hs H3].
  apply andb_prop in Hs. destruct Hs as [H1 H2].
  split; [apply hull_ok_sound; exact H1|]. split; [lia | apply pts_eqb_eq; exact H3].
Qed.


Lemma sublists_self {A} (l : list A) : In l (sublists l).
Proof. induction l as [|x t IH]; cbn; [left; reflexivity|]. apply in_or_app. left. apply in_map. exact IH. Qed.
Example sweep_hyp_ex : In (grid 3 4) (sublists (grid 3 4)) /\ In 5 (slacks 13) /\ length (grid 3 4) = 12%nat.
Proof. split; [apply sublists_self|]. split; [cbn; tauto | reflexivity]. Qed.
