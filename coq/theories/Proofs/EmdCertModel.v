(* C10 — every answer of the certified model is the earth mover's distance (all inputs), and what
   an accepted WITHOUT_TRANSHIPMENT (partial) flow guarantees. *)
From Coq Require Import ZArith List Bool Lia ZifyBool.
From Centro Require Import Base.Sx Base.EmdBase Spec.Emd Model.Emd Model.EmdCert
  Proofs.EmdDuality Proofs.EmdModel.
Import ListNotations.
Open Scope Z_scope.

Theorem model_emd_correct p q c pen ft gd d F :
  emd_certified p q c pen ft gd = Some (d, F) ->
  emd_spec p q c (penalty_of c pen) d /\
  (ft = 2 -> feasible (length p) (length q) (nz p) (nz q) (emd_T p q) (mz F) /\
             d = cost (length p) (length q) (mz c) (mz F) + penalty_of c pen * emd_extra p q) /\
  (ft = 1 -> partial_ok p q c (penalty_of c pen) d F = true).
Proof.
  unfold emd_certified. intros H.
  destruct (emd_hat_int32 p q c pen 2 gd) as [[d2 F2]|]; [|discriminate].
  destruct (find_dual p q c F2) as [[al be] ga].
  destruct (emd_cert_ok p q c (penalty_of c pen) d2 F2 al be ga) eqn:CK; [|discriminate].
  destruct (emd_cert_sound _ _ _ _ _ _ _ _ _ CK) as [SP [FE CE]].
  destruct (ft =? 2) eqn:E2.
  - injection H as <- <-. split; auto. split; [auto|]. intros ->. discriminate.
  - destruct (emd_hat_int32 p q c pen ft gd) as [[d' F']|]; [|discriminate].
    destruct ((d' =? d2) && ((ft =? 0) || partial_ok p q c (penalty_of c pen) d' F')) eqn:G; [|discriminate].
    injection H as <- <-. apply andb_prop in G. destruct G as [G1 G2].
    assert (d' = d2) by lia. subst d'. split; auto. split.
    + intros ->. discriminate.
    + intros ->. cbn in G2. exact G2.
Qed.

(* ---------------------------------------------------------------- partial flows *)
Lemma fold_max_ge : forall l a, a <= fold_left Z.max l a /\ forall x, In x l -> x <= fold_left Z.max l a.
Proof.
  induction l as [|y l IH]; intros a; cbn [fold_left]; [split; [lia|intros x []]|].
  destruct (IH (Z.max a y)) as [A B]. split; [lia|]. intros x [->|Hx]; [lia|auto].
Qed.
Lemma max_entry_ge_aux : forall C a, a <= fold_left (fun a r => fold_left Z.max r a) C a /\
  forall r x, In r C -> In x r -> x <= fold_left (fun a r => fold_left Z.max r a) C a.
Proof.
  induction C as [|r0 C IH]; intros a; cbn [fold_left]; [split; [lia|intros r x []]|].
  destruct (IH (fold_left Z.max r0 a)) as [A B]. destruct (fold_max_ge r0 a) as [A0 B0].
  split; [lia|]. intros r x [->|Hr] Hx; [specialize (B0 x Hx); lia | eauto].
Qed.
Lemma max_entry_ge C i j : mz C i j <= max_entry C.
Proof.
  unfold max_entry. destruct (max_entry_ge_aux C 0) as [A B]. unfold mz.
  destruct (Nat.lt_ge_cases i (length C)) as [Hi|Hi].
  - destruct (Nat.lt_ge_cases j (length (nth i C []))) as [Hj|Hj].
    + apply (B (nth i C [])); apply nth_In; auto.
    + rewrite (nth_overflow (nth i C [])) by auto. exact A.
  - rewrite (nth_overflow C) by auto. destruct j; exact A.
Qed.

(* point update of a flow *)
Definition bump (f : nat -> nat -> Z) (a b : nat) : nat -> nat -> Z :=
  fun i j => if (i =? a)%nat && (j =? b)%nat then f i j + 1 else f i j.

Lemma zsum_bump_in (g : nat -> Z) a : forall s k, (s <= a < s + k)%nat ->
  zsum (map (fun x => if (x =? a)%nat then g x + 1 else g x) (seq s k)) = zsum (map g (seq s k)) + 1.
Proof.
  intros s k. revert s. induction k as [|k IH]; intros s H; [lia|].
  cbn [seq map zsum]. destruct (s =? a)%nat eqn:E.
  - apply Nat.eqb_eq in E. subst.
    rewrite (zsum_map_ext (fun x => if (x =? a)%nat then g x + 1 else g x) g); [lia|].
    intros x Hx. apply in_seq in Hx. destruct (x =? a)%nat eqn:E; auto. apply Nat.eqb_eq in E. lia.
  - apply Nat.eqb_neq in E. rewrite IH by lia. lia.
Qed.
Lemma zsum_bump_out (g : nat -> Z) (c : nat -> bool) l : (forall x, In x l -> c x = false) ->
  zsum (map (fun x => if c x then g x + 1 else g x) l) = zsum (map g l).
Proof. intros H. apply zsum_map_ext. intros x Hx. rewrite H; auto. Qed.

Section Bump.
Variables n m : nat.
Variable f : nat -> nat -> Z.
Variables a b : nat.
Hypothesis Ha : (a < n)%nat.
Hypothesis Hb : (b < m)%nat.

Lemma rowsum_bump i : rowsum m (bump f a b) i = rowsum m f i + (if (i =? a)%nat then 1 else 0).
Proof.
  unfold rowsum, cols, bump. destruct (i =? a)%nat eqn:E; cbn [andb].
  - rewrite (zsum_bump_in (fun j => f i j) b) by lia. lia.
  - rewrite Z.add_0_r. reflexivity.
Qed.
Lemma colsum_bump j : colsum n (bump f a b) j = colsum n f j + (if (j =? b)%nat then 1 else 0).
Proof.
  unfold colsum, rows, bump. destruct (j =? b)%nat eqn:E.
  - rewrite (zsum_map_ext _ (fun x => if (x =? a)%nat then f x j + 1 else f x j))
      by (intros x _; rewrite andb_true_r; reflexivity).
    rewrite (zsum_bump_in (fun i => f i j) a) by lia. lia.
  - rewrite (zsum_map_ext _ (fun x => f x j)) by (intros x _; rewrite andb_false_r; reflexivity). lia.
Qed.
Lemma moved_bump : moved n m (bump f a b) = moved n m f + 1.
Proof.
  unfold moved, rows.
  rewrite (zsum_map_ext _ (fun i => if (i =? a)%nat then rowsum m f i + 1 else rowsum m f i)).
  - apply zsum_bump_in. lia.
  - intros i _. rewrite rowsum_bump. destruct (i =? a)%nat; lia.
Qed.
Lemma cost_bump C : cost n m C (bump f a b) = cost n m C f + C a b.
Proof.
  unfold cost, rows.
  rewrite (zsum_map_ext _ (fun i => if (i =? a)%nat then zsum (map (fun j => C i j * f i j) (cols m)) + 1 * C a b
                                    else zsum (map (fun j => C i j * f i j) (cols m)))).
  - pose proof (zsum_bump_in (fun i => zsum (map (fun j => C i j * f i j) (cols m))) a 0 n ltac:(lia)) as X.
    assert (G : forall (g : nat -> Z) (w : Z) l, (exists! x, In x l /\ x = a) \/ True ->
      zsum (map (fun i => if (i =? a)%nat then g i + w else g i) l) =
      zsum (map g l) + w * zsum (map (fun i => if (i =? a)%nat then 1 else 0) l)).
    { intros g w l _. induction l as [|x l IH]; cbn [map zsum]; [lia|]. rewrite IH. destruct (x =? a)%nat; lia. }
    rewrite G by auto. clear G X.
    assert (Cn : zsum (map (fun i => if (i =? a)%nat then 1 else 0) (seq 0 n)) = 1).
    { pose proof (zsum_bump_in (fun _ => 0) a 0 n ltac:(lia)) as Y. cbn beta in Y.
      rewrite (zsum_map_zero (fun _ : nat => 0)) in Y by auto. exact Y. }
    rewrite Cn. lia.
  - intros i _. unfold cols, bump. destruct (i =? a)%nat eqn:E; cbn [andb].
    + apply Nat.eqb_eq in E. subst i.
      rewrite (zsum_map_ext _ (fun j => if (j =? b)%nat then C a j * f a j + C a b else C a j * f a j)).
      * pose proof (zsum_bump_in (fun _ => 0) b 0 m ltac:(lia)) as Y. cbn beta in Y.
        rewrite (zsum_map_zero (fun _ : nat => 0)) in Y by auto.
        assert (G : forall (g : nat -> Z) (w : Z) l,
          zsum (map (fun j => if (j =? b)%nat then g j + w else g j) l) =
          zsum (map g l) + w * zsum (map (fun j => if (j =? b)%nat then 0 + 1 else 0) l)).
        { intros g w l. induction l as [|x l IH]; cbn [map zsum]; [lia|]. rewrite IH. destruct (x =? b)%nat; lia. }
        rewrite G, Y. lia.
      * intros j _. destruct (j =? b)%nat eqn:E; [apply Nat.eqb_eq in E; subst|]; lia.
    + reflexivity.
Qed.
End Bump.

Lemma sum_lt_exists (g h : nat -> Z) : forall l, zsum (map g l) < zsum (map h l) -> exists x, In x l /\ g x < h x.
Proof.
  induction l as [|x l IH]; cbn [map zsum]; intros H; [lia|].
  destruct (Z_lt_dec (g x) (h x)) as [L|L]; [exists x; split; [left|]; auto|].
  destruct IH as [y [Hy Ly]]; [lia|]. exists y. split; [right|]; auto.
Qed.

Lemma zsum_nz_seq l : zsum (map (nz l) (seq 0 (length l))) = zsum l.
Proof. rewrite map_nz_seq by lia. rewrite firstn_all. reflexivity. Qed.

(* a flow within supplies and demands that moves k units less than T can be completed, one unit
   at a time, each unit costing at most M *)
Lemma complete_flow n m P Q C M : (forall i j, (i < n)%nat -> (j < m)%nat -> C i j <= M) ->
  forall k f T,
  (forall i j, In i (rows n) -> In j (cols m) -> 0 <= f i j) ->
  (forall i, In i (rows n) -> rowsum m f i <= P i) -> (forall j, In j (cols m) -> colsum n f j <= Q j) ->
  T <= zsum (map P (rows n)) -> T <= zsum (map Q (cols m)) ->
  moved n m f + Z.of_nat k = T ->
  exists g, feasible n m P Q T g /\ (forall i j, f i j <= g i j) /\ cost n m C g <= cost n m C f + M * Z.of_nat k.
Proof.
  intros HM. induction k as [|k IH]; intros f T Hpos Hr Hc TP TQ Hk.
  - exists f. split; [repeat split; auto; lia|]. split; [intros; lia|lia].
  - assert (exists a, In a (rows n) /\ rowsum m f a < P a) as [a [Ia La]].
    { apply (sum_lt_exists (rowsum m f) P (rows n)). unfold moved in Hk. lia. }
    assert (exists b, In b (cols m) /\ colsum n f b < Q b) as [b [Ib Lb]].
    { apply (sum_lt_exists (colsum n f) Q (cols m)).
      assert (zsum (map (colsum n f) (cols m)) = moved n m f).
      { unfold moved, colsum, rowsum. symmetry. apply (zsum_swap (fun i j => f i j)). }
      lia. }
    pose proof Ia as Ia'. pose proof Ib as Ib'. apply in_seq0 in Ia'. apply in_seq0 in Ib'.
    destruct (IH (bump f a b) T) as [g [Fg [Lg Cg]]]; auto.
    + intros i j Hi Hj. unfold bump. specialize (Hpos i j Hi Hj). destruct ((i =? a)%nat && (j =? b)%nat); lia.
    + intros i Hi. rewrite (rowsum_bump n m f a b Ia' Ib'). specialize (Hr i Hi).
      destruct (i =? a)%nat eqn:E; [apply Nat.eqb_eq in E; subst|]; lia.
    + intros j Hj. rewrite (colsum_bump n m f a b Ia' Ib'). specialize (Hc j Hj).
      destruct (j =? b)%nat eqn:E; [apply Nat.eqb_eq in E; subst|]; lia.
    + rewrite (moved_bump n m f a b Ia' Ib'). lia.
    + exists g. split; auto. split.
      * intros i j. specialize (Lg i j). unfold bump in Lg. destruct ((i =? a)%nat && (j =? b)%nat); lia.
      * rewrite (cost_bump n m f a b Ia' Ib') in Cg. specialize (HM a b Ia' Ib'). nia.
Qed.

(* What an accepted WITHOUT_TRANSHIPMENT flow guarantees: it is part of a feasible full flow G
   (F <= G entrywise) whose cost + penalty is at most the returned d; hence d is an upper bound of
   the earth mover's distance, and when d IS the distance (which the check also demands, through
   the certified value) G is optimal, i.e. F is a sub-flow of an optimal transport. *)
Theorem partial_ok_sound P Q C pen d F :
  partial_ok P Q C pen d F = true ->
  exists G, feasible (length P) (length Q) (nz P) (nz Q) (emd_T P Q) G /\
            (forall i j, mz F i j <= G i j) /\
            cost (length P) (length Q) (mz C) G + pen * emd_extra P Q <= d /\
            (forall dstar, emd_spec P Q C pen dstar -> dstar <= d).
Proof.
  unfold partial_ok. intros H. rewrite !andb_true_iff in H.
  destruct H as [[[[[[Hlen Hlen2] Hpos] Hrow] Hcol] Hmv] Hcost].
  set (n := length P) in *. set (m := length Q) in *.
  set (k := Z.to_nat (emd_T P Q - moved n m (mz F))).
  destruct (complete_flow n m (nz P) (nz Q) (mz C) (max_entry C) (fun i j _ _ => max_entry_ge C i j)
              k (mz F) (emd_T P Q)) as [G [FG [LG CG]]].
  - intros i j Hi Hj. rewrite all_lt_spec in Hpos. specialize (Hpos i Hi). cbv beta in Hpos.
    rewrite all_lt_spec in Hpos. specialize (Hpos j Hj). cbv beta in Hpos. lia.
  - intros i Hi. rewrite all_lt_spec in Hrow. specialize (Hrow i Hi). cbv beta in Hrow. lia.
  - intros j Hj. rewrite all_lt_spec in Hcol. specialize (Hcol j Hj). cbv beta in Hcol. lia.
  - unfold rows, n. rewrite zsum_nz_seq. unfold emd_T. lia.
  - unfold cols, m. rewrite zsum_nz_seq. unfold emd_T. lia.
  - unfold k. lia.
  - exists G. split; auto. split; auto.
    assert (Ek : Z.of_nat k = emd_T P Q - moved n m (mz F)) by (unfold k; lia).
    rewrite Ek in CG.
    assert (U : cost n m (mz C) G + pen * emd_extra P Q <= d) by lia.
    split; auto.
    intros dstar [d0 [[_ LB] E]]. specialize (LB G FG). unfold n, m in *. lia.
Qed.

Example partial_ok_example :
  partial_ok [3; 2] [1; 1; 2] [[0; 1; 2]; [1; 0; 1]] 5 8 [[1; 0; 0]; [0; 1; 1]] = true.
Proof. vm_compute. reflexivity. Qed.
