(* C01 — phases 1-3 of lapjv() for the (Fixed, eps 0 at :202) model on every well-formed input with a perfect
   matching: no restriction on the number of candidates per row (prices may become -inf). *)
From Coq Require Import ZArith List Bool Lia Arith.
From Centro Require Import Base.Sx Model.Lapjv Spec.Lapjv Proofs.LapjvCert Proofs.LapjvPhases Proofs.LapjvArr Proofs.LapjvRows
  Proofs.LapjvRt Proofs.LapjvHall Proofs.LapjvArrExt.
Import ListNotations.
Open Scope Z_scope.

Lemma noblock_model n tri :
  (forall t, In t tri -> (t_i t < n)%nat /\ (t_j t < n)%nat) -> has_PM n tri ->
  forall L C : list nat, NoDup L -> (forall i, In i L -> (i < n)%nat) ->
  (forall i j c, In i L -> In (j, c) (row (rows_of n tri) i) -> In j C) -> (length L <= length C)%nat.
Proof.
  intros Hrange HPM L C NL HL Hsub. destruct (le_lt_dec (length L) (length C)) as [Le|Lt]; auto.
  exfalso. apply (hall_block n tri L C NL HL); auto.
  intros i j c Hi E. destruct (cost_in _ _ _ _ E) as [t [Hin [Ei [Ej Ec]]]].
  pose proof (in_row_of_tri n tri Hrange t Hin) as Hr. rewrite Ei, Ej in Hr. eapply Hsub; eauto.
Qed.

Theorem arr_passes_inv_ext_model n tri :
  (forall t, In t tri -> (t_i t < n)%nat /\ (t_j t < n)%nat) -> NoDup (map fst tri) -> has_PM n tri ->
  forall epsr fuel k x y v ii x' y' v' ii', 0 <= epsr ->
  InvE n (rows_of n tri) x y v -> Pending n y ii ->
  arr_passes k fuel (Fin 0) (Fin epsr) n (rows_of n tri) (x, y, v, ii) = Some (x', y', v', ii') ->
  InvE n (rows_of n tri) x' y' v' /\ Pending n y' ii'.
Proof.
  intros Hrange Hpairs HPM epsr fuel k x y v ii x' y' v' ii' Her.
  apply (arr_passes_inv_ext n (rows_of n tri) (rows_fin n tri Hrange) (rows_nodup n tri Hpairs)
           (noblock_model n tri Hrange HPM) epsr fuel Her).
Qed.

Theorem phases123_inv_ext n tri :
  (forall t, In t tri -> (t_i t < n)%nat /\ (t_j t < n)%nat) ->
  NoDup (map fst tri) ->
  (forall j, (j < n)%nat -> exists t, In t tri /\ t_j t = j) ->
  has_PM n tri ->
  forall epsr fuel k x y v ii, 0 <= epsr ->
  let rows := rows_of n tri in
  let mi := min_i n tri in
  let x0 := x_init n mi in
  let y0 := y_init n x0 in
  let uv := reduction_transfer Fixed n rows (jflat_of rows) x0 (one_rows n mi) (repeat (Fin 0) n) (v_init n tri) in
  match free_rows n mi with
  | [] => Some (x0, y0, snd uv, free_rows n mi)
  | _ => arr_passes k fuel (Fin 0) (Fin epsr) n rows (x0, y0, snd uv, free_rows n mi)
  end = Some (x, y, v, ii) ->
  InvE n rows x y v /\ Pending n y ii.
Proof.
  intros Hrange Hpairs Hcols HPM epsr fuel k x y v ii Her. cbn zeta.
  destruct (phase12_inv n tri Hrange Hcols) as [HI HP]. apply Inv_InvE in HI.
  destruct (free_rows n (min_i n tri)) as [|f0 fr] eqn:EF.
  - intros E. inversion E; subst. split; auto.
  - intros E. eapply (arr_passes_inv_ext_model n tri Hrange Hpairs HPM epsr fuel k); eauto.
Qed.

(* with the order on the reserved block *)
Theorem phases123_inv_ord n tri :
  (forall t, In t tri -> (t_i t < n)%nat /\ (t_j t < n)%nat) ->
  NoDup (map fst tri) ->
  (forall j, (j < n)%nat -> exists t, In t tri /\ t_j t = j) ->
  has_PM n tri ->
  forall epsr fuel k x y v ii, 0 <= epsr ->
  let rows := rows_of n tri in
  let mi := min_i n tri in
  let x0 := x_init n mi in
  let y0 := y_init n x0 in
  let uv := reduction_transfer Fixed n rows (jflat_of rows) x0 (one_rows n mi) (repeat (Fin 0) n) (v_init n tri) in
  match free_rows n mi with
  | [] => Some (x0, y0, snd uv, free_rows n mi)
  | _ => arr_passes k fuel (Fin 0) (Fin epsr) n rows (x0, y0, snd uv, free_rows n mi)
  end = Some (x, y, v, ii) ->
  InvE n rows x y v /\ Ord n rows y v /\ Pending n y ii.
Proof.
  intros Hrange Hpairs Hcols HPM epsr fuel k x y v ii Her. cbn zeta.
  destruct (phase12_inv n tri Hrange Hcols) as [HI HP]. pose proof (Inv_Ord n (rows_of n tri) _ _ _ HI) as HO. apply Inv_InvE in HI.
  destruct (free_rows n (min_i n tri)) as [|f0 fr] eqn:EF.
  - intros E. inversion E; subst. split; auto.
  - intros E. eapply (arr_passes_inv_ord n (rows_of n tri) (rows_fin n tri Hrange) (rows_nodup n tri Hpairs)
                        (noblock_model n tri Hrange HPM) epsr fuel Her k); eauto.
Qed.

(* ---------------------------------------------------------------- the reserved block is FORCED
   in every perfect matching sigma, the row y[j] of a reserved column j is matched to j: newest-first induction on the
   order - the row of j lists only j and older reserved columns, and the older ones are already taken by their own rows. *)
Theorem reserved_forced n tri x y v :
  (forall t, In t tri -> (t_i t < n)%nat /\ (t_j t < n)%nat) ->
  InvE n (rows_of n tri) x y v -> Ord n (rows_of n tri) y v ->
  forall sigma, PM n tri sigma -> forall j, (j < n)%nat -> gete v j = NInf -> col sigma (getn y j n) = j.
Proof.
  intros Hrange [Lx [Ly [PVv [SL NY]]]] [l [ND [Mem OL]]] sigma PMs.
  assert (Row : forall j, In j l -> (j < n)%nat /\ (getn y j n < n)%nat /\ getn x (getn y j n) n = j).
  { intros j Hj. apply Mem in Hj as [Hj En]. destruct (SL j _ Hj eq_refl (NY j Hj En)) as [A [B _]]. auto. }
  assert (Listed : forall i, (i < n)%nat -> exists c, In (col sigma i, c) (row (rows_of n tri) i)).
  { intros i Hi. destruct PMs as [_ Ls]. specialize (Ls i Hi).
    destruct (cost tri i (col sigma i)) as [z|] eqn:Ec; [|congruence].
    destruct (cost_in _ _ _ _ Ec) as [t [Hin [Ei [Ej Ecz]]]].
    pose proof (in_row_of_tri n tri Hrange t Hin) as Hr. rewrite Ei, Ej in Hr. eauto. }
  assert (All : forall j, In j l -> col sigma (getn y j n) = j).
  { clear Mem. induction l as [|j older IH]; [intros ? []|].
    apply NoDup_cons_iff in ND as [Nin ND']. destruct OL as [Cand OL'].
    assert (IHo : forall j0, In j0 older -> col sigma (getn y j0 n) = j0) by (apply IH; auto; intros; apply Row; right; auto).
    intros j0 [<-|Hj0]; [|apply IHo; auto].
    destruct (Row j (or_introl eq_refl)) as [Hj [Hy Hx]].
    destruct (Listed _ Hy) as [c Hc]. destruct (Cand _ _ Hc) as [E|Ho]; [auto|]. exfalso.
    destruct (Row _ (or_intror Ho)) as [Hj0 [Hy0 Hx0]].
    pose proof (IHo _ Ho) as E0.
    assert (Ey : getn y (col sigma (getn y j n)) n = getn y j n) by (eapply (pm_injective n tri sigma); eauto).
    apply Nin. rewrite <- Hx, <- Ey, Hx0. exact Ho. }
  intros j Hj En. apply All. apply Mem. auto.
Qed.

(* a 2x2 input with a single-candidate row: the hypotheses hold *)
Example ext_example :
  let tri := [T 0 0 3; T 1 0 1; T 1 1 2] in
  (forall t, In t tri -> (t_i t < 2)%nat /\ (t_j t < 2)%nat) /\ NoDup (map fst tri) /\
  (forall j, (j < 2)%nat -> exists t, In t tri /\ t_j t = j) /\ has_PM 2 tri.
Proof.
  cbn zeta. split; [|split; [|split]].
  - intros t [<-|[<-|[<-|[]]]]; cbn; lia.
  - cbn. repeat constructor; cbn; intuition congruence.
  - intros j Hj. destruct j as [|[|j]]; [exists (T 0 0 3)|exists (T 1 1 2)|lia]; cbn; auto.
  - exists [0; 1]%nat. apply (pm_ok_sound 2 _ [0; 1]%nat [0; 1]%nat). vm_compute. reflexivity.
Qed.
