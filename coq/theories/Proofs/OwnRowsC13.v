(* C13 — with C02's Full kernel theorems (guard_irrelevant, hull_no_overflow): position r of the batch
   of convex_hull_ijv carries the guard-free kernel applied to label indexes[r]'s own rows - no slack. *)
From Coq Require Import ZArith QArith List Bool Lia.
From Centro Require Import Model.Hull Spec.HullSpec Proofs.HullPerm Proofs.HullBatch Proofs.HullTop Proofs.HullCorrect Proofs.HullGuard
  Proofs.HullPoly Model.HullAreaC13 Model.Circle Model.Feret Model.MecFeretC13 Proofs.HullAreaC13Proofs
  Proofs.MecFeretC13Proofs.
Import ListNotations.
Open Scope Z_scope.

Definition nonneg_rows (ijv : list row) : Prop := forall x, In x ijv -> 0 <= r_i x.

(* the label's own rows in buffer order, and the polygon the kernel emits for them *)
Definition own_rows (ijv : list row) (l : Z) : list pt := map r_pt (sel l (lexsort ijv)).
Definition own_hull (ijv : list row) (l : Z) : list pt :=
  hull_free (zmax_list (map r_i (lexsort ijv))) (own_rows ijv l).

Theorem request_own ijv indexes r :
  NoDup indexes -> (r < length indexes)%nat -> nonneg_rows ijv ->
  nth r (fst (convex_hull_ijv ijv indexes)) (0, []) = (nth r indexes 0, own_hull ijv (nth r indexes 0)).
Proof.
  intros ND Hr Hnn.
  destruct (hull_ijv_request_nonneg hull_no_overflow ijv indexes r ND Hr Hnn) as [slack [Hs E]].
  rewrite E. f_equal. unfold own_hull, own_rows. apply guard_irrelevant; [apply label_ok_sel; exact Hnn|exact Hs].
Qed.

(* the polygon is a hull polygon (C02's full specification) of exactly that label's pixels *)
Theorem own_hull_spec ijv l : nonneg_rows ijv -> HullSpec (pts_of ijv l) (own_hull ijv l).
Proof.
  intros Hnn. unfold own_hull.
  assert (LO : label_ok (zmax_list (map r_i (lexsort ijv))) (own_rows ijv l)) by (apply label_ok_sel; exact Hnn).
  rewrite <- (guard_irrelevant _ _ 0 LO (Z.le_refl 0)).
  apply (HullSpec_equiv (own_rows ijv l)); [|apply hull_label_correct; [exact LO|lia]].
  intros x. unfold own_rows, pts_of, sel. rewrite !in_map_iff. split; intros [y [E Hy]]; exists y; split; auto;
    apply filter_In in Hy; apply filter_In; destruct Hy as [Hy Hv]; split; auto.
  - eapply Permutation.Permutation_in; [apply lexsort_perm|exact Hy].
  - eapply Permutation.Permutation_in; [apply Permutation.Permutation_sym, lexsort_perm|exact Hy].
Qed.

Lemma nth_rows {B} (f : list pt -> B) (rows : list (Z * list pt)) k :
  nth k (map (fun row => f (snd row)) rows) (f []) = f (snd (nth k rows (0, []))).
Proof. revert k. induction rows as [|a t IH]; intros [|k]; cbn [map nth]; try reflexivity. apply IH. Qed.

Theorem hull_area_own_rows_full ijv indexes r :
  NoDup indexes -> (r < length indexes)%nat -> nonneg_rows ijv ->
  nth r (hull_areas_rows (fst (convex_hull_ijv ijv indexes))) (hull_area_obj []) =
  hull_area_obj (own_hull ijv (nth r indexes 0)).
Proof. intros ND Hr Hnn. unfold hull_areas_rows. rewrite (nth_rows hull_area_obj), request_own by assumption. reflexivity. Qed.

Theorem mec_own_rows_full ijv indexes r :
  NoDup indexes -> (r < length indexes)%nat -> nonneg_rows ijv ->
  nth r (mec_rows (fst (convex_hull_ijv ijv indexes))) (chrystal []) = chrystal (own_hull ijv (nth r indexes 0)).
Proof. intros ND Hr Hnn. unfold mec_rows. rewrite (nth_rows chrystal), request_own by assumption. reflexivity. Qed.

Theorem feret_own_rows_full ijv indexes r :
  NoDup indexes -> (r < length indexes)%nat -> nonneg_rows ijv ->
  nth r (feret_rows (fst (convex_hull_ijv ijv indexes))) (sweep []) = sweep (own_hull ijv (nth r indexes 0)).
Proof. intros ND Hr Hnn. unfold feret_rows. rewrite (nth_rows sweep), request_own by assumption. reflexivity. Qed.

(* request order / independence in one statement: the entry of label l is the same wherever l stands in
   any two repeat-free request lists *)
Theorem mec_request_position ijv idx idx' r r' :
  NoDup idx -> NoDup idx' -> (r < length idx)%nat -> (r' < length idx')%nat -> nonneg_rows ijv ->
  nth r idx 0 = nth r' idx' 0 ->
  nth r (mec_rows (fst (convex_hull_ijv ijv idx))) (chrystal []) =
  nth r' (mec_rows (fst (convex_hull_ijv ijv idx'))) (chrystal []).
Proof. intros. rewrite !mec_own_rows_full by assumption. congruence. Qed.

Theorem feret_request_position ijv idx idx' r r' :
  NoDup idx -> NoDup idx' -> (r < length idx)%nat -> (r' < length idx')%nat -> nonneg_rows ijv ->
  nth r idx 0 = nth r' idx' 0 ->
  nth r (feret_rows (fst (convex_hull_ijv ijv idx))) (sweep []) =
  nth r' (feret_rows (fst (convex_hull_ijv ijv idx'))) (sweep []).
Proof. intros. rewrite !feret_own_rows_full by assumption. congruence. Qed.

Theorem hull_area_request_position ijv idx idx' r r' :
  NoDup idx -> NoDup idx' -> (r < length idx)%nat -> (r' < length idx')%nat -> nonneg_rows ijv ->
  nth r idx 0 = nth r' idx' 0 ->
  nth r (hull_areas_rows (fst (convex_hull_ijv ijv idx))) (hull_area_obj []) =
  nth r' (hull_areas_rows (fst (convex_hull_ijv ijv idx'))) (hull_area_obj []).
Proof. intros. rewrite !hull_area_own_rows_full by assumption. congruence. Qed.
