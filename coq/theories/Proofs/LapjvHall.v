(* C01 — the Hall-type fact needed for rows whose candidates are all reserved (prices -inf): a block of
   m+1 rows whose candidates all lie in a set of m columns excludes a perfect matching.  In the model a
   column gets price -inf only when a row with no other finite-priced candidate takes it, so if a free
   row ever saw only -inf columns, those columns' rows plus the free row would form such a block. *)
From Coq Require Import ZArith List Bool Lia Permutation Arith.
From Centro Require Import Base.Sx Model.Lapjv Spec.Lapjv.
Import ListNotations.

Lemma pm_injective n tri sigma i i' :
  PM n tri sigma -> (i < n)%nat -> (i' < n)%nat -> col sigma i = col sigma i' -> i = i'.
Proof.
  intros [P _] Hi Hi' E.
  assert (L : length sigma = n) by (rewrite (Permutation_length P); apply seq_length).
  assert (ND : NoDup sigma) by (eapply Permutation_NoDup; [apply Permutation_sym, P|apply seq_NoDup]).
  apply (proj1 (NoDup_nth sigma 0%nat) ND); auto; lia.
Qed.

Theorem hall_block n tri (L C : list nat) :
  NoDup L -> (forall i, In i L -> (i < n)%nat) ->
  (forall i j c, In i L -> cost tri i j = Some c -> In j C) ->
  (length C < length L)%nat -> ~ has_PM n tri.
Proof.
  intros NL HL Hsub Hlen [sigma PMs].
  assert (ND : NoDup (map (col sigma) L)).
  { clear Hlen Hsub. induction L as [|a r IH]; cbn [map]; [constructor|].
    inversion NL; subst. constructor; [|apply IH; auto; intros; apply HL; right; auto].
    intros Hin. apply in_map_iff in Hin as [b [E Hb]].
    assert (b = a) by (eapply pm_injective; eauto; apply HL; [right|left]; auto). subst. contradiction. }
  assert (Inc : incl (map (col sigma) L) C).
  { intros j Hj. apply in_map_iff in Hj as [i [<- Hi]].
    destruct PMs as [_ Lst]. specialize (Lst i (HL i Hi)).
    destruct (cost tri i (col sigma i)) as [c|] eqn:E; [|congruence]. eapply Hsub; eauto. }
  pose proof (NoDup_incl_length ND Inc) as Le. rewrite map_length in Le. lia.
Qed.

(* two rows that both list only column 0 *)
Example hall_example : ~ has_PM 2 [((0%nat, 0%nat), 5%Z); ((1%nat, 0%nat), 7%Z)].
Proof.
  apply (hall_block 2 _ [0; 1]%nat [0]%nat).
  - repeat constructor; cbn; intuition discriminate.
  - intros i [<-|[<-|[]]]; lia.
  - intros i j c _. destruct j as [|j]; [left; auto|].
    destruct i as [|[|i]]; cbn; discriminate.
  - cbn. lia.
Qed.
