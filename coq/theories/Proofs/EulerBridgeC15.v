(* C15 — box / plane bridge: the flood-fill counts of Spec.LabelGraph.euler_spec (pixels of the label
   inside the image; complement inside the image grown by one pixel) are the numbers of
   8-components of the set and of 4-components of its complement IN THE PLANE (any lists of
   representatives).  Hence 4 W = 4 * euler_spec for every reducible image, without hypotheses. *)
From Coq Require Import ZArith List Bool Lia ZifyBool.
From Centro Require Import Base.GraphC15 Model.LabelGraph Spec.LabelGraph Spec.EulerMovesC15 Proofs.NeighborsC15
  Proofs.SpecC15 Proofs.EulerStepC15.
From Centro Require Import Base.Topo Spec.TopoCheck Proofs.TopoCounts Proofs.EulerTopoC15.
Import ListNotations.
Open Scope Z_scope.

Lemma adj8_iff p q : Spec.LabelGraph.adj8 p q = true <-> Topo.adj8 p q.
Proof.
  unfold Spec.LabelGraph.adj8, Spec.LabelGraph.px_eqb, Topo.adj8. destruct p as [a b], q as [c d]. cbn [fst snd]. split.
  - intros H. split; [intros E; inversion E; subst; lia|lia].
  - intros [N [H1 H2]]. assert (a <> c \/ b <> d) by (destruct (Z.eq_dec a c), (Z.eq_dec b d); subst; try tauto; congruence). lia.
Qed.
Lemma adj4_iff p q : Spec.LabelGraph.adj4 p q = true <-> Topo.adj4 p q.
Proof. unfold Spec.LabelGraph.adj4, Topo.adj4. lia. Qed.

(* a list path is a plane path when the list is the carrier *)
Lemma cpath_path (adjb : px -> px -> bool) (R : px -> px -> Prop) (V : list px) (P : px -> Prop) :
  (forall a b, adjb a b = true -> R a b) -> (forall q, In q V -> P q) ->
  forall a b, cpath adjb V a b -> path R P a b.
Proof. intros HR HP a b H. induction H; [apply path_refl; auto|eapply path_step; eauto]. Qed.
Lemma path_cpath (adjb : px -> px -> bool) (R : px -> px -> Prop) (V : list px) (P : px -> Prop) :
  (forall a b, R a b -> adjb a b = true) -> (forall q, P q -> In q V) ->
  forall a b, path R P a b -> cpath adjb V a b.
Proof. intros HR HP a b H. induction H; [apply cp_refl; auto|eapply cp_step; eauto]. Qed.

Section Bridge.
Variable im : image.
Variable l : Z.
Hypothesis R : rect im.
Hypothesis l_nz : l <> 0.
Let X := X_of im l.
Let Hh := Z.of_nat (img_h im).
Let Ww := Z.of_nat (img_w im).

Lemma pixels_of_in q : In q (pixels_of im l) <-> fg X q.
Proof.
  unfold pixels_of, fg, X, X_of, inS. rewrite filter_In. destruct q as [y x]. cbn [fst snd]. split; [tauto|].
  intros H. split; [|exact H]. apply positions_in. apply Z.eqb_eq in H. apply (get2_inside im y x R). lia.
Qed.
Definition in_box (q : px) : Prop := -1 <= fst q <= Hh /\ -1 <= snd q <= Ww.
Lemma complement_of_in q : In q (complement_of im l) <-> in_box q /\ bg X q.
Proof.
  unfold complement_of, bg, X, X_of, inS, in_box. rewrite filter_In, in_map_iff. destruct q as [y x]. cbn [fst snd]. split.
  - intros [[[a b] [E Hp]] H]. apply positions_in in Hp. inversion E; subst. cbn [fst snd] in *. unfold Hh, Ww. split; [lia|].
    apply negb_true_iff. exact H.
  - intros [[Hy Hx] H]. split; [|apply negb_true_iff; exact H]. exists (y + 1, x + 1). cbn [fst snd]. split; [f_equal; lia|].
    apply positions_in. unfold Hh, Ww in *. lia.
Qed.
Lemma outside_bg q : ~ (0 <= fst q < Hh /\ 0 <= snd q < Ww) -> bg X q.
Proof.
  intros H. unfold bg, X, X_of, inS. apply Z.eqb_neq. intros E. apply H.
  apply (get2_inside im (fst q) (snd q) R). lia.
Qed.

(* clamping into the box *)
Definition clampz (lo hi v : Z) : Z := Z.max lo (Z.min hi v).
Definition proj (q : px) : px := (clampz (-1) Hh (fst q), clampz (-1) Ww (snd q)).
Lemma Hh_nonneg : 0 <= Hh. Proof. unfold Hh. lia. Qed.
Lemma Ww_nonneg : 0 <= Ww. Proof. unfold Ww. lia. Qed.
Lemma proj_in_box q : in_box (proj q).
Proof. pose proof Hh_nonneg. pose proof Ww_nonneg. unfold in_box, proj, clampz. cbn [fst snd]. lia. Qed.
Lemma proj_id q : in_box q -> proj q = q.
Proof. unfold in_box, proj, clampz. destruct q as [y x]. cbn [fst snd]. intros H. f_equal; lia. Qed.
Lemma proj_bg q : bg X q -> bg X (proj q).
Proof.
  intros B. destruct (Z_le_gt_dec (-1) (fst q)), (Z_le_gt_dec (fst q) Hh), (Z_le_gt_dec (-1) (snd q)), (Z_le_gt_dec (snd q) Ww);
    try (rewrite proj_id by (unfold in_box; lia); exact B);
    apply outside_bg; pose proof Hh_nonneg; pose proof Ww_nonneg; unfold proj, clampz; cbn [fst snd]; lia.
Qed.
Lemma proj_step a b : Topo.adj4 a b -> proj a = proj b \/ Topo.adj4 (proj a) (proj b).
Proof.
  pose proof Hh_nonneg. pose proof Ww_nonneg.
  unfold Topo.adj4, proj, clampz. destruct a as [y x], b as [y' x']. cbn [fst snd]. intros A.
  destruct (Z.eq_dec (Z.max (-1) (Z.min Hh y)) (Z.max (-1) (Z.min Hh y'))) as [E1|N1],
           (Z.eq_dec (Z.max (-1) (Z.min Ww x)) (Z.max (-1) (Z.min Ww x'))) as [E2|N2].
  - left. congruence.
  - right. lia.
  - right. lia.
  - exfalso. lia.
Qed.

Let C := complement_of im l.
(* a plane path between background pixels projects to a list path inside the box *)
Lemma plane_to_box a b : path Topo.adj4 (bg X) a b -> cpath Spec.LabelGraph.adj4 C (proj a) (proj b).
Proof.
  intros H. induction H as [a Ha|a b c Ha Hab Hbc IH].
  - apply cp_refl. apply complement_of_in. split; [apply proj_in_box|apply proj_bg; exact Ha].
  - destruct (proj_step a b Hab) as [E|A]; [rewrite E; exact IH|].
    eapply cp_step; [apply complement_of_in; split; [apply proj_in_box|apply proj_bg; exact Ha]|apply adj4_iff; exact A|exact IH].
Qed.
Lemma box_to_plane a b : cpath Spec.LabelGraph.adj4 C a b -> path Topo.adj4 (bg X) a b.
Proof. apply cpath_path; [intros u v; apply adj4_iff|intros q Hq; apply complement_of_in in Hq; tauto]. Qed.

(* every background pixel of the plane is connected to its projection *)
Lemma to_proj : forall d q, bg X q -> (Z.to_nat (Z.abs (fst q - fst (proj q)) + Z.abs (snd q - snd (proj q))) <= d)%nat ->
  path Topo.adj4 (bg X) q (proj q).
Proof.
  pose proof Hh_nonneg as HH. pose proof Ww_nonneg as WW.
  induction d as [|d IH]; intros q B D.
  - assert (E : proj q = q) by (destruct q as [y x]; unfold proj, clampz in *; cbn [fst snd] in *; f_equal; lia).
    rewrite E. apply path_refl. exact B.
  - destruct (Z.eq_dec (fst q) (fst (proj q))) as [Ey|Ny].
    + destruct (Z.eq_dec (snd q) (snd (proj q))) as [Ex|Nx].
      * assert (E : proj q = q) by (destruct q as [y x]; cbn [fst snd] in *; unfold proj in *; cbn [fst snd] in *; f_equal; congruence).
        rewrite E. apply path_refl. exact B.
      * (* move the column towards the box *)
        set (q' := (fst q, if snd q <? snd (proj q) then snd q + 1 else snd q - 1)).
        assert (P' : proj q' = proj q).
        { unfold q', proj, clampz in *. destruct q as [y x]. cbn [fst snd] in *. destruct (Z.ltb_spec x (Z.max (-1) (Z.min Ww x))); f_equal; lia. }
        assert (B' : bg X q').
        { apply outside_bg. unfold q', proj, clampz in *. destruct q as [y x]. cbn [fst snd] in *.
          destruct (Z.ltb_spec x (Z.max (-1) (Z.min Ww x))); lia. }
        eapply path_step; [exact B| |rewrite <- P'; apply IH; [exact B'|]].
        -- unfold Topo.adj4, q'. cbn [fst snd]. destruct (snd q <? snd (proj q)); lia.
        -- rewrite P'. unfold q', proj, clampz in *. destruct q as [y x]. cbn [fst snd] in *.
           destruct (Z.ltb_spec x (Z.max (-1) (Z.min Ww x))); lia.
    + set (q' := (if fst q <? fst (proj q) then fst q + 1 else fst q - 1, snd q)).
      assert (P' : proj q' = proj q).
      { unfold q', proj, clampz in *. destruct q as [y x]. cbn [fst snd] in *. destruct (Z.ltb_spec y (Z.max (-1) (Z.min Hh y))); f_equal; lia. }
      assert (B' : bg X q').
      { apply outside_bg. unfold q', proj, clampz in *. destruct q as [y x]. cbn [fst snd] in *.
        destruct (Z.ltb_spec y (Z.max (-1) (Z.min Hh y))); lia. }
      eapply path_step; [exact B| |rewrite <- P'; apply IH; [exact B'|]].
      * unfold Topo.adj4, q'. cbn [fst snd]. destruct (fst q <? fst (proj q)); lia.
      * rewrite P'. unfold q', proj, clampz in *. destruct q as [y x]. cbn [fst snd] in *.
        destruct (Z.ltb_spec y (Z.max (-1) (Z.min Hh y))); lia.
Qed.

Lemma reps_pairwise {A} (Rel : A -> A -> Prop) (reps : list A) : NoDup reps ->
  (forall r1 r2, In r1 reps -> In r2 reps -> Rel r1 r2 -> r1 = r2) -> pairwise (fun a b => ~ Rel a b) reps.
Proof.
  induction 1 as [|a r Ha ND IH]; intros U; cbn [pairwise]; [exact I|]. split.
  - apply Forall_forall. intros b Hb Q. apply Ha. rewrite (U a b (or_introl eq_refl) (or_intror Hb) Q). exact Hb.
  - apply IH. intros r1 r2 H1 H2. apply U; right; assumption.
Qed.

(* the flood-fill counts are the plane counts *)
Theorem euler_spec_plane fgl bgl : comp_reps Topo.adj8 (fg X) fgl -> comp_reps Topo.adj4 (bg X) bgl ->
  euler_spec im l = topo_count fgl bgl.
Proof.
  intros CF CB. unfold euler_spec. destruct (Z.eqb_spec l 0); [congruence|].
  destruct (n_components_spec Spec.LabelGraph.adj8 SpecC15.adj8_sym _ (pixels_of_nodup im l)) as [fr [E1 [N1 [S1 [K1 U1]]]]].
  destruct (n_components_spec Spec.LabelGraph.adj4 SpecC15.adj4_sym _ (complement_of_nodup im l)) as [br [E2 [N2 [S2 [K2 U2]]]]].
  assert (CF' : comp_reps Topo.adj8 (fg X) fr).
  { split; [|split].
    - apply Forall_forall. intros q Hq. apply pixels_of_in. auto.
    - apply reps_pairwise; [exact N1|]. intros r1 r2 H1 H2 P. apply (U1 r1 r2 H1 H2).
      eapply path_cpath; [| |exact P]; [intros u v; apply adj8_iff|intros q; apply pixels_of_in].
    - intros a Ha. destruct (K1 a (proj2 (pixels_of_in a) Ha)) as [r [Hr P]]. exists r. split; [exact Hr|].
      apply conn8_sym. eapply cpath_path; [| |exact P]; [intros u v; apply adj8_iff|intros q; apply pixels_of_in]. }
  assert (CB' : comp_reps Topo.adj4 (bg X) br).
  { split; [|split].
    - apply Forall_forall. intros q Hq. apply S2 in Hq. apply complement_of_in in Hq. tauto.
    - apply reps_pairwise; [exact N2|]. intros r1 r2 H1 H2 P. apply (U2 r1 r2 H1 H2).
      pose proof (plane_to_box r1 r2 P) as Q.
      rewrite !proj_id in Q by (apply S2 in H1; apply S2 in H2; apply complement_of_in in H1; apply complement_of_in in H2; tauto).
      exact Q.
    - intros a Ha.
      assert (Pa : In (proj a) C) by (apply complement_of_in; split; [apply proj_in_box|apply proj_bg; exact Ha]).
      destruct (K2 (proj a) Pa) as [r [Hr P]]. exists r. split; [exact Hr|].
      eapply path_trans; [apply (to_proj _ a Ha (le_n _))|]. apply conn4_sym. apply box_to_plane. exact P. }
  rewrite E1, E2. unfold topo_count.
  assert (L1 : length fr = length fgl) by exact (comp_reps_length _ _ _ _ Topo.adj8_sym CF' CF).
  assert (L2 : length br = length bgl) by exact (comp_reps_length _ _ _ _ Topo.adj4_sym CB' CB).
  rewrite L1, L2. reflexivity.
Qed.

(* and representative lists exist for every image: the ones the flood fill finds *)
Lemma plane_reps_exist : exists fgl bgl, comp_reps Topo.adj8 (fg X) fgl /\ comp_reps Topo.adj4 (bg X) bgl /\
  euler_spec im l = topo_count fgl bgl.
Proof.
  destruct (n_components_spec Spec.LabelGraph.adj8 SpecC15.adj8_sym _ (pixels_of_nodup im l)) as [fr [E1 [N1 [S1 [K1 U1]]]]].
  destruct (n_components_spec Spec.LabelGraph.adj4 SpecC15.adj4_sym _ (complement_of_nodup im l)) as [br [E2 [N2 [S2 [K2 U2]]]]].
  assert (CF' : comp_reps Topo.adj8 (fg X) fr).
  { split; [|split].
    - apply Forall_forall. intros q Hq. apply pixels_of_in. auto.
    - apply reps_pairwise; [exact N1|]. intros r1 r2 H1 H2 P. apply (U1 r1 r2 H1 H2).
      eapply path_cpath; [| |exact P]; [intros u v; apply adj8_iff|intros q; apply pixels_of_in].
    - intros a Ha. destruct (K1 a (proj2 (pixels_of_in a) Ha)) as [r [Hr P]]. exists r. split; [exact Hr|].
      apply conn8_sym. eapply cpath_path; [| |exact P]; [intros u v; apply adj8_iff|intros q; apply pixels_of_in]. }
  assert (CB' : comp_reps Topo.adj4 (bg X) br).
  { split; [|split].
    - apply Forall_forall. intros q Hq. apply S2 in Hq. apply complement_of_in in Hq. tauto.
    - apply reps_pairwise; [exact N2|]. intros r1 r2 H1 H2 P. apply (U2 r1 r2 H1 H2).
      pose proof (plane_to_box r1 r2 P) as Q.
      rewrite !proj_id in Q by (apply S2 in H1; apply S2 in H2; apply complement_of_in in H1; apply complement_of_in in H2; tauto).
      exact Q.
    - intros a Ha.
      assert (Pa : In (proj a) C) by (apply complement_of_in; split; [apply proj_in_box|apply proj_bg; exact Ha]).
      destruct (K2 (proj a) Pa) as [r [Hr P]]. exists r. split; [exact Hr|].
      eapply path_trans; [apply (to_proj _ a Ha (le_n _))|]. apply conn4_sym. apply box_to_plane. exact P. }
  exists fr, br. split; [exact CF'|]. split; [exact CB'|]. apply euler_spec_plane; assumption.
Qed.
End Bridge.

(* 4 W = 4 * (components - holes) with the executable flood-fill definition, no hypotheses left:
   every image reducible by the four moves *)
Theorem euler_is_components_minus_holes_reducible (l : Z) : l <> 0 -> forall im k, Reduces2 l im k -> rect im ->
  euler4 im l = 4 * euler_spec im l /\ euler_spec im l = k.
Proof.
  intros Hl im k Rk R. destruct (plane_reps_exist im l R Hl) as [fgl [bgl [CF [CB E]]]].
  destruct (euler_reducible_topological l Hl im k Rk R fgl bgl CF CB) as [E1 E2]. rewrite E. split; assumption.
Qed.
