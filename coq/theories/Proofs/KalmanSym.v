(* C09 — for a symmetric matrix (the innovation covariance of the filter) the right inverse
   returned by inv_n is also a left inverse; hence the gain equation for every obs_len. *)
From Coq Require Import ZArith List Bool Lia Arith QArith Qcanon Permutation Field.
From Centro Require Import Model.Kalman Spec.Kalman Proofs.KalmanArith Proofs.KalmanLists
  Proofs.KalmanAlg Proofs.KalmanAssoc Proofs.KalmanDetBase Proofs.KalmanAdj.
Import ListNotations.
Open Scope Qc_scope.

Lemma vdot_comm : forall u v, vdot u v = vdot v u.
Proof.
  induction u as [|a u IH]; intros [|b v]; rewrite ?vdot_nil_l, ?vdot_nil_r; try reflexivity.
  rewrite !vdot_cons, IH. ring.
Qed.

Lemma ncols_mtrans (X : mat) : (1 <= ncols X)%nat -> ncols (mtrans X) = length X.
Proof.
  intros H. unfold mtrans. destruct (ncols X) as [|c]; [lia|]. unfold ncols at 1. cbn [seq map hd]. apply col_length.
Qed.

Lemma col_mtrans (X : mat) i : Forall (fun r => length r = ncols X) X -> (i < length X)%nat ->
  col i (mtrans X) = nth i X [].
Proof.
  intros HF Hi. unfold col at 1, mtrans. rewrite map_map.
  assert (L : length (nth i X []) = ncols X) by (rewrite Forall_forall in HF; apply HF; apply nth_In; exact Hi).
  transitivity (map (fun j => nth j (nth i X []) 0) (seq 0 (length (nth i X [])))); [|apply map_nth_seq_gen].
  rewrite L. apply map_ext. intros j.
  unfold col. rewrite (nth_map_lt _ _ _ []) by exact Hi. reflexivity.
Qed.

Lemma col_mmul (X Y : mat) j : (j < ncols Y)%nat -> col j (mmul X Y) = map (fun r => vdot r (col j Y)) X.
Proof.
  intros H. unfold col at 1. rewrite mmul_rows, map_map. apply map_ext. intros r. unfold vmat.
  rewrite (nth_map_lt _ _ _ O) by (rewrite seq_length; exact H). rewrite seq_nth by exact H. reflexivity.
Qed.

Theorem mtrans_mmul (X Y : mat) : X <> [] -> (1 <= ncols X)%nat -> Forall (fun r => length r = ncols X) X ->
  mtrans (mmul X Y) = mmul (mtrans Y) (mtrans X).
Proof.
  intros Hne Hc HF.
  transitivity (map (fun j => map (fun r => vdot r (col j Y)) X) (seq 0 (ncols Y))).
  - unfold mtrans. rewrite ncols_mmul by exact Hne. apply map_ext_in. intros j Hj. apply in_seq in Hj.
    apply col_mmul. lia.
  - set (XT := mtrans X). rewrite mmul_rows. unfold mtrans. rewrite map_map. apply map_ext_in. intros j Hj.
    subst XT. unfold vmat. rewrite ncols_mtrans by exact Hc.
    transitivity (map (fun r => vdot r (col j Y)) (map (fun i => nth i X []) (seq 0 (length X))));
      [rewrite map_nth_seq_gen; reflexivity|].
    rewrite map_map. apply map_ext_in. intros i Hi. apply in_seq in Hi.
    rewrite col_mtrans by (exact HF || lia). apply vdot_comm.
Qed.

Lemma mtrans_ident n : mtrans (ident n) = ident n.
Proof.
  unfold mtrans. rewrite ncols_ident. unfold ident at 2. apply map_ext_in. intros j Hj. apply in_seq in Hj.
  rewrite col_ident by lia. apply map_ext. intros i. rewrite Nat.eqb_sym. reflexivity.
Qed.

Theorem mmul_ident_l (R : mat) n : length R = n -> Forall (fun r => length r = ncols R) R -> mmul (ident n) R = R.
Proof.
  intros L HF. rewrite mmul_rows. unfold ident. rewrite map_map.
  transitivity (map (fun i => nth i R []) (seq 0 (length R))); [|apply map_nth_seq_gen]. rewrite L.
  apply map_ext_in. intros i Hi. apply in_seq in Hi. unfold vmat.
  assert (Lr : length (nth i R []) = ncols R) by (rewrite Forall_forall in HF; apply HF; apply nth_In; lia).
  transitivity (map (fun j => nth j (nth i R []) 0) (seq 0 (length (nth i R [])))); [|apply map_nth_seq_gen]. rewrite Lr.
  apply map_ext. intros j.
  rewrite vdot_comm.
  rewrite (map_ext (fun j0 => if Nat.eqb i j0 then 1 else 0) (fun j0 => if Nat.eqb j0 i then 1 else 0))
    by (intros x; rewrite Nat.eqb_sym; reflexivity).
  replace (seq 0 n) with (seq 0 (length (col j R))) by (rewrite col_length, L; reflexivity).
  rewrite vdot_unit. rewrite col_length, L.
  destruct (Nat.leb_spec 0 i); [|lia]. destruct (Nat.ltb_spec i (0 + n)); [|lia]. cbn [andb].
  rewrite Nat.sub_0_r. unfold col. rewrite (nth_map_lt _ _ _ []) by lia. reflexivity.
Qed.

Lemma ncols_shape (S : mat) n : (1 <= n)%nat -> length S = n -> Forall (fun row => length row = n) S -> ncols S = n /\ S <> [].
Proof.
  intros Hn L HF. destruct S as [|r S]; [cbn in L; lia|]. split; [|discriminate].
  unfold ncols. cbn [hd]. inversion HF; subst. assumption.
Qed.

Lemma ncols_inv1 (S : mat) n : (1 <= n)%nat -> length S = n -> ncols (inv1 S) = n.
Proof.
  intros Hn L. destruct n as [|n]; [lia|]. unfold ncols, inv1. rewrite L. cbn [seq map hd length].
  rewrite map_length, seq_length. reflexivity.
Qed.

(* inv_n is also a left inverse of a symmetric matrix, every size *)
Theorem inv_n_left_inverse_sym (S : mat) n : (1 <= n)%nat -> length S = n ->
  Forall (fun row => length row = n) S -> mtrans S = S -> det1 S <> 0 -> mmul (inv1 S) S = ident n.
Proof.
  intros Hn L HF Hsym Hd.
  pose proof (inv_n_right_inverse S n Hn L HF Hd) as HR.
  destruct (ncols_shape S n Hn L HF) as [Nc Hne].
  set (R := inv1 S) in *.
  assert (LR : length R = n) by (unfold R, inv1; rewrite map_length, seq_length; exact L).
  assert (FR : Forall (fun row => length row = n) R) by (unfold R; rewrite <- L; apply inv1_rows).
  assert (NR : ncols R = n) by (apply ncols_inv1; assumption).
  assert (T : ident n = mmul (mtrans R) S).
  { pose proof (mtrans_mmul S R Hne) as T. rewrite Nc in T. specialize (T Hn HF). rewrite HR, mtrans_ident, Hsym in T. exact T. }
  assert (FL : Forall (fun row => length row = n) (mtrans R)).
  { unfold mtrans. apply Forall_forall. intros row Hin. apply in_map_iff in Hin. destruct Hin as [j [<- _]].
    rewrite col_length. exact LR. }
  assert (E : mtrans R = R).
  { rewrite <- (mmul_ident_r (mtrans R) n FL). rewrite <- HR.
    rewrite <- (mmul_assoc (mtrans R) S R n Hne); [| rewrite L; exact FL | exact HF].
    rewrite <- T. apply mmul_ident_l; [exact LR|rewrite NR; exact FR]. }
  rewrite <- E at 1. symmetry. exact T.
Qed.

(* K S = P H^T for EVERY obs_len, from det S <> 0 and the symmetry of S = H P H^T + r *)
Theorem gain_equation_sym H Pp r n :
  let S := innovation_cov H Pp r in
  (1 <= n)%nat -> length S = n -> Forall (fun row => length row = n) S -> mtrans S = S -> det1 S <> 0 ->
  Forall (fun row => length row = n) (mmul Pp (mtrans H)) ->
  mmul (gain H Pp r) S = mmul Pp (mtrans H).
Proof.
  cbn zeta. intros Hn HL HF Hsym Hd HM.
  apply (gain_equation_n H Pp r n); try assumption.
  - intro E. rewrite E in HL. cbn [length] in HL. lia.
  - rewrite <- HL. apply inv1_rows.
  - apply inv_n_left_inverse_sym; assumption.
Qed.

(* hypotheses hold: a symmetric 5 x 5 innovation covariance (obs_len 5, beyond the symbolic sizes) *)
Example gain_equation_sym_ex :
  let H := ident 5 in let P := ident 5 in let r := ident 5 in
  length (innovation_cov H P r) = 5%nat /\ Forall (fun row => length row = 5%nat) (innovation_cov H P r) /\
  mtrans (innovation_cov H P r) = innovation_cov H P r /\
  det1 (innovation_cov H P r) <> 0 /\ Forall (fun row => length row = 5%nat) (mmul P (mtrans H)).
Proof.
  cbn zeta. split; [vm_compute; reflexivity|]. split; [vm_compute; repeat constructor|]. split; [vm_compute; reflexivity|]. split.
  - intro E. apply (f_equal this) in E. vm_compute in E. discriminate.
  - vm_compute. repeat constructor.
Qed.
