(* C11 — S5 for Ridler-Calvard and MCT, partial: the iteration / final formula keep the threshold between
   the smallest and largest value once it is there. *)
From Coq Require Import ZArith QArith Qabs List Bool Lia Lqa.
From Centro Require Import Model.OtsuQ Model.RidlerQ Proofs.OtsuProofs.
Import ListNotations.
Open Scope Q_scope.

Lemma qsum_bounds a b l : (forall x, In x l -> a <= x /\ x <= b) ->
  inject_Z (Z.of_nat (length l)) * a <= qsum l /\ qsum l <= inject_Z (Z.of_nat (length l)) * b.
Proof.
  induction l as [|x l IH]; intros H.
  - cbn. unfold inject_Z. split; lra.
  - destruct (H x (or_introl eq_refl)) as [Ha Hb].
    destruct IH as [I1 I2]; [intros y Hy; apply H; right; exact Hy|].
    cbn [length qsum fold_right]. rewrite Nat2Z.inj_succ. unfold Z.succ. rewrite inject_Z_plus.
    fold (qsum l). change (inject_Z 1) with 1. lra.
Qed.
Lemma qmean_bounds a b l : l <> [] -> (forall x, In x l -> a <= x /\ x <= b) -> a <= qmean l /\ qmean l <= b.
Proof.
  intros Hne H. destruct (qsum_bounds a b l H) as [S1 S2]. unfold qmean.
  assert (Hn : 0 < inject_Z (Z.of_nat (length l))).
  { destruct l; [congruence|]. cbn [length]. unfold Qlt. cbn. lia. }
  set (n := inject_Z (Z.of_nat (length l))) in *.
  split.
  - apply Qle_shift_div_l; [exact Hn|lra].
  - apply Qle_shift_div_r; [exact Hn|lra].
Qed.

Lemma rc_step_bounds a b im t t' : (forall x, In x im -> a <= x /\ x <= b) ->
  rc_step im t = Some t' -> a <= t' /\ t' <= b.
Proof.
  intros H. unfold rc_step.
  destruct (below t im) as [|x1 l1] eqn:E1; [discriminate|].
  destruct (atleast t im) as [|x2 l2] eqn:E2; [discriminate|].
  intros E. inversion E; subst; clear E.
  destruct (qmean_bounds a b (x1 :: l1)) as [A1 A2]; [discriminate| |].
  { intros y Hy. apply H. rewrite <- E1 in Hy. unfold below in Hy. apply filter_In in Hy. tauto. }
  destruct (qmean_bounds a b (x2 :: l2)) as [B1 B2]; [discriminate| |].
  { intros y Hy. apply H. rewrite <- E2 in Hy. unfold atleast in Hy. apply filter_In in Hy. tauto. }
  split.
  - apply Qle_shift_div_l; [reflexivity|lra].
  - apply Qle_shift_div_r; [reflexivity|lra].
Qed.

(* Partial: the log/exp transfer (monotone, hence bracket-preserving) and the initial value (otsu of the
   stretched data: otsu_bracket) are not part of this statement *)
Theorem rc_iter_bracket_partial_lemma fuel delta a b im : (forall x, In x im -> a <= x /\ x <= b) ->
  forall pre t0 t, a <= t0 /\ t0 <= b -> rc_iter fuel delta im pre t0 = Some t -> a <= t /\ t <= b.
Proof.
  intros H. induction fuel as [|f IH]; intros pre t0 t H0; cbn [rc_iter].
  - destruct (Qle_bool (Qabs (pre - t0)) delta); [|discriminate]. intros E. inversion E; subst. exact H0.
  - destruct (Qle_bool (Qabs (pre - t0)) delta); [intros E; inversion E; subst; exact H0|].
    destruct (rc_step im t0) as [t1|] eqn:E1; [|discriminate].
    apply IH. eapply rc_step_bounds; eassumption.
Qed.

(* Partial: that 1 <= argmax(mct) (the tail sums of the deviations are positive where 0 < n_i < n, and
   mct[0] is reset to 0) is not proved; given it, my_bin = argmax - 1 is in [0, bins-2] *)
Theorem mct_bracket_partial_lemma vmin vmax bins my_bin :
  vmin <= vmax -> (2 <= bins)%Z -> (0 <= my_bin <= bins - 2)%Z ->
  vmin <= mct_value vmin vmax bins my_bin /\ mct_value vmin vmax bins my_bin <= vmax.
Proof.
  intros Hv Hb [K1 K2]. unfold mct_value.
  assert (Hd : 0 < inject_Z (bins - 1)) by (unfold Qlt; cbn; lia).
  assert (Hk : 0 <= inject_Z my_bin) by (unfold Qle; cbn; lia).
  assert (Hk2 : inject_Z my_bin <= inject_Z (bins - 1)) by (rewrite <- Zle_Qle; lia).
  set (k := inject_Z my_bin) in *. set (d := inject_Z (bins - 1)) in *.
  assert (0 <= k * (vmax - vmin) / d).
  { apply Qle_shift_div_l; [exact Hd|nra]. }
  assert (k * (vmax - vmin) / d <= vmax - vmin).
  { apply Qle_shift_div_r; [exact Hd|nra]. }
  split; lra.
Qed.

Example ex_rc : (exists t, rc_iter 20 (1 # 100000) [0; 1 # 10; 2 # 10; 8 # 10; 9 # 10; 1] 0 (2 # 5) = Some t /\ t == 1 # 2) /\
  (forall x, In x [0; 1 # 10; 2 # 10; 8 # 10; 9 # 10; 1] -> 0 <= x /\ x <= 1).
Proof.
  split; [eexists; split; [vm_compute; reflexivity|vm_compute; reflexivity]|]. intros x H. cbn in H.
  repeat (destruct H as [H|H]; [subst; split; unfold Qle; cbn; lia|]). destruct H.
Qed.

(* the whole model loop: initial value otsu(im), then the iteration; for every fuel, every delta, every data *)
Theorem rc_model_bracket_lemma fuel delta data lo hi t :
  data <> [] -> (forall x, In x data -> (lo <= x <= hi)%Z) ->
  rc_model fuel delta data = Some t -> inject_Z lo <= t /\ t <= inject_Z hi.
Proof.
  intros Hne Hall H. unfold rc_model in H.
  eapply (rc_iter_bracket_partial_lemma fuel delta (inject_Z lo) (inject_Z hi) (map inject_Z data)); [| |exact H].
  - intros x Hx. apply in_map_iff in Hx. destruct Hx as [z [E Hz]]. subst x.
    rewrite <- !Zle_Qle. apply Hall. exact Hz.
  - apply otsu_bracket_lemma.
    + destruct data; [congruence|]. cbn. discriminate.
    + intros x Hx. apply in_map_iff in Hx. destruct Hx as [z [E Hz]]. inversion E; subst. apply Hall. exact Hz.
Qed.
Example ex_rc_model : exists t, rc_model 50 (1 # 100) [0; 10; 20; 80; 90; 100]%Z = Some t /\ t == 50 # 1.
Proof. eexists. split; vm_compute; reflexivity. Qed.
