(* C01 — the tracker's identity clause at the level of the assignment problem: when the extended
   cost matrix has a zero-cost diagonal, non-negative entries and strictly positive off-diagonal
   entries in the rows of the real objects, every optimal matching maps each real object to itself. *)
From Coq Require Import ZArith List Bool Lia Permutation Arith.
From Centro Require Import Base.Sx Model.Lapjv Spec.Lapjv Proofs.LapjvCert.
Import ListNotations.
Open Scope Z_scope.

Lemma zsum_nonneg_zero {A} (f : A -> Z) l :
  (forall a, In a l -> 0 <= f a) -> zsum (map f l) = 0 -> forall a, In a l -> f a = 0.
Proof.
  induction l as [|b l IH]; cbn [map zsum]; intros NN Z0 a Ha; [destruct Ha|].
  assert (0 <= f b) by (apply NN; left; auto).
  assert (0 <= zsum (map f l)) by (apply zsum_map_nonneg; intros; apply NN; right; auto).
  destruct Ha as [->|Ha]; [lia|]. apply IH; auto; [intros; apply NN; right; auto | lia].
Qed.

Lemma col_seq n i : (i < n)%nat -> col (seq 0 n) i = i.
Proof. intros H. unfold col. rewrite seq_nth; auto. Qed.

Section Identity.
Variables (n m : nat) (tri : list triple).
Hypothesis Hmn : (m <= n)%nat.
Hypothesis Hnonneg : forall t, In t tri -> 0 <= t_c t.
Hypothesis Hdiag : forall i, (i < n)%nat -> cost tri i i = Some 0.
Hypothesis Hoff : forall i j c, (i < m)%nat -> j <> i -> cost tri i j = Some c -> 0 < c.

Lemma id_pm : PM n tri (seq 0 n).
Proof.
  split; [apply Permutation_refl|]. intros i Hi. rewrite col_seq by auto. rewrite Hdiag by auto. discriminate.
Qed.

Lemma id_total : total n tri (seq 0 n) = 0.
Proof.
  unfold total. apply zsum_map_zero. intros i Hi. apply in_seq in Hi.
  rewrite col_seq by lia. unfold costz. rewrite Hdiag by lia. reflexivity.
Qed.

Lemma costz_nonneg i j : 0 <= costz tri i j.
Proof.
  unfold costz. destruct (cost tri i j) as [c|] eqn:E; [|lia].
  destruct (cost_in _ _ _ _ E) as [t [Hin [_ [_ <-]]]]. apply Hnonneg; auto.
Qed.

Theorem tracker_identity x : Optimal n tri x -> forall i, (i < m)%nat -> col x i = i.
Proof.
  intros [[Px Lx] O] i Hi.
  specialize (O _ id_pm). rewrite id_total in O.
  assert (T0 : total n tri x = 0).
  { assert (0 <= total n tri x); [|lia]. unfold total. apply zsum_map_nonneg. intros; apply costz_nonneg. }
  assert (Z0 : costz tri i (col x i) = 0).
  { unfold total in T0.
    apply (zsum_nonneg_zero (fun i => costz tri i (col x i)) (seq 0 n)); auto.
    - intros; apply costz_nonneg.
    - apply in_seq. lia. }
  destruct (Nat.eq_dec (col x i) i) as [E|NE]; auto. exfalso.
  assert (Hl : (i < n)%nat) by lia. specialize (Lx i Hl). unfold costz in Z0.
  destruct (cost tri i (col x i)) as [c|] eqn:E; [|congruence].
  pose proof (Hoff i (col x i) c Hi NE E). lia.
Qed.
End Identity.

(* the extended matrix of two identical one-object frames (costs x 2): object row 0, dummy row 1 *)
Example identity_example :
  let tri := [T 0 0 0; T 0 1 30; T 1 0 30; T 1 1 0] in
  (forall t, In t tri -> 0 <= t_c t) /\ (forall i, (i < 2)%nat -> cost tri i i = Some 0) /\
  (forall i j c, (i < 1)%nat -> j <> i -> cost tri i j = Some c -> 0 < c).
Proof.
  cbn zeta. split; [|split].
  - intros t [<-|[<-|[<-|[<-|[]]]]]; vm_compute; congruence.
  - intros i Hi. destruct i as [|[|]]; try lia; reflexivity.
  - intros i j c Hi Hj. assert (i = 0%nat) by lia. subst i.
    destruct j as [|[|j]]; [congruence| |]; vm_compute; intros E; inversion E; reflexivity.
Qed.
