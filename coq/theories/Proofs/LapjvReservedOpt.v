(* C01 — optimality WITH single-candidate rows, closed at the level of the state invariant: a state (x, y, v) with prices in
   Fin | -inf that satisfies InvE (slackness on the live part, rows of reserved columns list only reserved columns) and the
   order invariant Ord on the reserved block, and in which every row is assigned, is a minimum-cost perfect matching.
   (The reserved block is forced - LapjvExtModel.reserved_forced - and the live part carries finite feasible duals.) *)
From Coq Require Import ZArith List Bool Lia Permutation Arith.
From Centro Require Import Base.Sx Model.Lapjv Spec.Lapjv Proofs.LapjvCert Proofs.LapjvPhases Proofs.LapjvArr Proofs.LapjvRows
  Proofs.LapjvRt Proofs.LapjvHall Proofs.LapjvArrExt Proofs.LapjvExtModel Proofs.LapjvFixedPerm Proofs.LapjvAugOpt Proofs.LapjvReserved Proofs.LapjvAugFlip Proofs.LapjvAugRows Proofs.LapjvPerm.
Import ListNotations.
Open Scope Z_scope.

Theorem inve_ord_optimal n tri x y v :
  (forall t, In t tri -> (t_i t < n)%nat /\ (t_j t < n)%nat) ->
  NoDup (map fst tri) ->
  InvE n (rows_of n tri) x y v -> Ord n (rows_of n tri) y v -> Inverse n x y ->
  Optimal n tri x.
Proof.
  intros Hrange Hpairs HI HO IV.
  pose proof HI as [Lx [Ly [[Lv PVv] [SL NY]]]]. pose proof IV as [_ [_ [F1 _]]].
  assert (Gx : forall i, (i < n)%nat -> (col x i < n)%nat /\ getn y (col x i) n = i).
  { intros i Hi. destruct (F1 i Hi) as [Hx Hy]. split; auto. unfold getn. rewrite (nth_indep _ n 0%nat) by lia. exact Hy. }
  assert (Own : forall i, (i < n)%nat -> exists c, In (col x i, Fin c) (row (rows_of n tri) i) /\ cost tri i (col x i) = Some c /\
            (forall j' c', In (j', Fin c') (row (rows_of n tri) i) -> finp v (col x i) -> finp v j' -> c - vz v (col x i) <= c' - vz v j')).
  { intros i Hi. destruct (Gx i Hi) as [Hx Hy]. destruct (SL (col x i) i Hx Hy ltac:(lia)) as [_ [_ [c [Hc [Hmin _]]]]].
    exists c. split; auto. split; auto. apply (cost_unique tri Hpairs). apply (row_in_tri n tri). exact Hc. }
  assert (PMx : PM n tri x).
  { split; [eapply inverse_perm; eauto|]. intros i Hi. destruct (Own i Hi) as [c [_ [Ec _]]]. congruence. }
  set (dead := fun j => match gete v j with NInf => true | _ => false end).
  assert (DeadN : forall j, dead j = true -> gete v j = NInf) by (intros j; unfold dead; destruct (gete v j); try discriminate; auto).
  assert (LiveF : forall j, (j < n)%nat -> dead j = false -> finp v j).
  { intros j Hj Hd. destruct (PVv j Hj) as [F|N]; auto. unfold dead in Hd. rewrite N in Hd. discriminate. }
  apply (optimal_with_reserved n tri x dead (fun i => costz tri i (col x i) - vz v (col x i)) (vz v) PMx).
  - intros sigma PMs i Hi Hd. destruct (Gx i Hi) as [Hx Hy].
    pose proof (reserved_forced n tri x y v Hrange HI HO sigma PMs (col x i) Hx (DeadN _ Hd)) as E. rewrite Hy in E. exact E.
  - intros i j z Hi Ec Hdx Hdj. destruct (Gx i Hi) as [Hx _]. destruct (Own i Hi) as [c [_ [Ecx Hmin]]].
    destruct (cost_in _ _ _ _ Ec) as [t [Hin [Ei [Ej Ecz]]]].
    pose proof (in_row_of_tri n tri Hrange t Hin) as Hrow. rewrite Ei, Ej, Ecz in Hrow.
    assert (Hj : (j < n)%nat) by (rewrite <- Ej; apply Hrange; auto).
    specialize (Hmin j z Hrow (LiveF _ Hx Hdx) (LiveF _ Hj Hdj)). unfold costz. rewrite Ecx. lia.
  - intros i Hi _. lia.
Qed.

(* at the hand-over of phases 1-3: if no row is left pending, the result of augmenting row reduction is already optimal -
   for ANY number of candidates per row and any number of passes *)
Theorem phases123_all_assigned_optimal n tri :
  (forall t, In t tri -> (t_i t < n)%nat /\ (t_j t < n)%nat) ->
  NoDup (map fst tri) ->
  (forall j, (j < n)%nat -> exists t, In t tri /\ t_j t = j) ->
  has_PM n tri ->
  forall epsr fuel k x y v, 0 <= epsr ->
  let rows := rows_of n tri in
  let mi := min_i n tri in
  let x0 := x_init n mi in
  let y0 := y_init n x0 in
  let uv := reduction_transfer Fixed n rows (jflat_of rows) x0 (one_rows n mi) (repeat (Fin 0) n) (v_init n tri) in
  match free_rows n mi with
  | [] => Some (x0, y0, snd uv, free_rows n mi)
  | _ => arr_passes k fuel (Fin 0) (Fin epsr) n rows (x0, y0, snd uv, free_rows n mi)
  end = Some (x, y, v, []) ->
  Inverse n x y /\ Optimal n tri x.
Proof.
  intros Hrange Hpairs Hcols HPM epsr fuel k x y v Her. cbn zeta. intros E.
  destruct (phases123_inv_ord n tri Hrange Hpairs Hcols HPM epsr fuel k x y v [] Her E) as [HI [HO _]].
  assert (IV : Inverse n x y).
  { pose proof HI as [Lx [Ly [_ [SL _]]]]. pose proof (phase1_comp n tri) as C1.
    assert (HC : Comp n y []).
    { destruct (free_rows n (min_i n tri)) as [|f0 fr] eqn:EF.
      - injection E as Ex Ey Ev. rewrite <- Ey. exact C1.
      - eapply (arr_passes_comp n (rows_of n tri) (fun i j c H => proj1 (rows_fin n tri Hrange i j c H))); [|exact C1|exact E].
        unfold y_init. rewrite y_init_go_length, repeat_length. reflexivity. }
    pose proof (comp_count n y [] HC) as CC. cbn [length] in CC.
    apply perm_of_full; auto; [|apply all_assigned; lia].
    intros j i Hj _ Ey Ne. destruct (SL j i Hj Ey Ne) as [A [B _]]. split; auto. }
  split; [exact IV|]. apply (inve_ord_optimal n tri x y v Hrange Hpairs HI HO IV).
Qed.
