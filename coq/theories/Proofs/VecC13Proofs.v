(* C13 — theorems about the NumPy label-handling idioms of Base/VecC13.v. *)
From Coq Require Import ZArith List Bool Lia ZifyBool.
From Centro Require Import Base.VecC13.
Import ListNotations.
Open Scope Z_scope.

(* ------------------------------------------------------------------ generic list facts *)

Lemma filter_none {A} (f : A -> bool) (l : list A) :
  (forall x, In x l -> f x = false) -> filter f l = [].
Proof.
  induction l as [|a r IH]; intros H; cbn [filter]; auto.
  rewrite (H a (or_introl eq_refl)). apply IH. intros x Hx. apply H. right; exact Hx.
Qed.

Lemma filter_map_comm {A B} (g : A -> B) (f : B -> bool) (l : list A) :
  filter f (map g l) = map g (filter (fun a => f (g a)) l).
Proof.
  induction l as [|a r IH]; cbn [map filter]; auto.
  destruct (f (g a)); cbn [map]; rewrite IH; reflexivity.
Qed.

Lemma maxl_ge (l : list Z) x : In x l -> x <= maxl l.
Proof.
  unfold maxl. induction l as [|a r IH]; cbn [In fold_right]; intros H; [contradiction|].
  destruct H as [->|H]; [lia|]. specialize (IH H). lia.
Qed.

Lemma maxl_lower (l : list Z) : -1 <= maxl l.
Proof. unfold maxl. induction l as [|a r IH]; cbn [fold_right]; lia. Qed.

(* ------------------------------------------------------------------ bincount *)

Section GroupedProofs.
  Context {A : Type} (zero : A) (add : A -> A -> A).

  Lemma upd_add_length k v (a : list A) : length (upd_add add k v a) = length a.
  Proof. revert k. induction a as [|x r IH]; intros [|k]; cbn [upd_add length]; auto. Qed.

  Lemma nth_upd_add_same k v (a : list A) d :
    (k < length a)%nat -> nth k (upd_add add k v a) d = add (nth k a d) v.
  Proof.
    revert k. induction a as [|x r IH]; intros [|k] Hk; cbn [length] in Hk; cbn [upd_add nth]; try lia; auto.
    apply IH. lia.
  Qed.

  Lemma nth_upd_add_other j k v (a : list A) d : j <> k -> nth j (upd_add add k v a) d = nth j a d.
  Proof.
    revert j k. induction a as [|x r IH]; intros [|j] [|k] Hjk; cbn [upd_add nth]; auto; try congruence.
  Qed.

  Lemma bincount_loop_length pairs : forall acc, length (bincount_loop add pairs acc) = length acc.
  Proof.
    induction pairs as [|p r IH]; intros acc; cbn [bincount_loop]; auto.
    rewrite IH. apply upd_add_length.
  Qed.

  Definition nonneg_labels (pairs : list (Z * A)) : Prop := forall p, In p pairs -> 0 <= fst p.

  Lemma bincount_loop_nth pairs : forall acc k,
    (k < length acc)%nat -> nonneg_labels pairs ->
    nth k (bincount_loop add pairs acc) zero =
    fold_left add (map snd (filter (fun p => fst p =? Z.of_nat k) pairs)) (nth k acc zero).
  Proof.
    induction pairs as [|p r IH]; intros acc k Hk Hnn; cbn [bincount_loop filter map fold_left]; auto.
    assert (Hp : 0 <= fst p) by (apply Hnn; left; reflexivity).
    assert (Hr : nonneg_labels r) by (intros q Hq; apply Hnn; right; exact Hq).
    rewrite IH by (rewrite ?upd_add_length; auto).
    destruct (fst p =? Z.of_nat k) eqn:E.
    - assert (Ek : Z.to_nat (fst p) = k) by lia. rewrite Ek.
      rewrite nth_upd_add_same by exact Hk. reflexivity.
    - rewrite nth_upd_add_other by lia. reflexivity.
  Qed.

  (* entry l of np.bincount(labels, weights, minlength) is the fold, in array order, over
     exactly the positions labelled l — whatever the other labels, their number and minlength *)
  Theorem bincount_group m pairs l :
    nonneg_labels pairs -> 0 <= l ->
    nth (Z.to_nat l) (bincount zero add m pairs) zero = group_fold zero add l pairs.
  Proof.
    intros Hnn Hl. unfold bincount, group_fold.
    set (n := Z.to_nat (Z.max (maxl (map fst pairs) + 1) m)).
    destruct (Nat.ltb (Z.to_nat l) n) eqn:E.
    - apply Nat.ltb_lt in E.
      rewrite bincount_loop_nth by (rewrite ?repeat_length; auto).
      rewrite Z2Nat.id by exact Hl.
      rewrite nth_repeat. reflexivity.
    - apply Nat.ltb_ge in E.
      rewrite nth_overflow by (rewrite bincount_loop_length, repeat_length; exact E).
      rewrite filter_none; [reflexivity|].
      intros p Hp. assert (fst p <= maxl (map fst pairs)) by (apply maxl_ge, in_map, Hp).
      unfold n in E. lia.
  Qed.

  Definition agree_on (l : Z) (p q : Z * A) : Prop := (fst p = l \/ fst q = l) -> p = q.

  Lemma agree_filter l ps qs :
    Forall2 (agree_on l) ps qs ->
    filter (fun p => fst p =? l) ps = filter (fun p => fst p =? l) qs.
  Proof.
    induction 1 as [|p q ps qs Hpq _ IH]; cbn [filter]; auto.
    destruct (fst p =? l) eqn:Ep, (fst q =? l) eqn:Eq.
    - rewrite (Hpq (or_introl (proj1 (Z.eqb_eq _ _) Ep))), IH. reflexivity.
    - rewrite (Hpq (or_introl (proj1 (Z.eqb_eq _ _) Ep))) in Ep. congruence.
    - rewrite <- (Hpq (or_intror (proj1 (Z.eqb_eq _ _) Eq))) in Eq. congruence.
    - exact IH.
  Qed.

  (* changing positions whose label is not l — weights and labels, to labels that are not l —
     and changing minlength leaves entry l unchanged *)
  Theorem grouped_reduce_independent m m' ps qs l :
    nonneg_labels ps -> nonneg_labels qs -> 0 <= l -> Forall2 (agree_on l) ps qs ->
    nth (Z.to_nat l) (bincount zero add m ps) zero = nth (Z.to_nat l) (bincount zero add m' qs) zero.
  Proof.
    intros Hp Hq Hl H. rewrite !bincount_group by assumption.
    unfold group_fold. rewrite (agree_filter l ps qs H). reflexivity.
  Qed.

  Definition relabel_pairs (f : Z -> Z) (ps : list (Z * A)) : list (Z * A) :=
    map (fun p => (f (fst p), snd p)) ps.

  Lemma group_fold_relabel f ps l :
    (forall a b, f a = f b -> a = b) ->
    group_fold zero add (f l) (relabel_pairs f ps) = group_fold zero add l ps.
  Proof.
    intros Inj. unfold group_fold, relabel_pairs. rewrite filter_map_comm, map_map. cbn [fst snd].
    f_equal. f_equal. apply filter_ext. intros p.
    destruct (Z.eqb_spec (f (fst p)) (f l)) as [E|N], (Z.eqb_spec (fst p) l) as [E'|N']; auto.
    - apply Inj in E. contradiction.
    - subst. contradiction.
  Qed.

  (* renumbering the labels by an injective map moves the entry with the label *)
  Theorem bincount_relabel (f : Z -> Z) m m' ps l :
    (forall a b, f a = f b -> a = b) -> (forall a, 0 <= a -> 0 <= f a) ->
    nonneg_labels ps -> 0 <= l ->
    nth (Z.to_nat (f l)) (bincount zero add m' (relabel_pairs f ps)) zero =
    nth (Z.to_nat l) (bincount zero add m ps) zero.
  Proof.
    intros Inj Pos Hnn Hl.
    rewrite !bincount_group; auto.
    - apply group_fold_relabel, Inj.
    - intros p Hp. unfold relabel_pairs in Hp. apply in_map_iff in Hp. destruct Hp as [q [<- Hq]].
      cbn [fst]. apply Pos, Hnn, Hq.
  Qed.

  (* scipy.ndimage reductions with an index list: the request list only selects and orders *)
  Lemma nd_fold_pointwise pairs idxs :
    nd_fold zero add pairs idxs = flat_map (fun l => nd_fold zero add pairs [l]) idxs.
  Proof. unfold nd_fold. induction idxs as [|i r IH]; cbn [map flat_map app]; [reflexivity|]. rewrite IH. reflexivity. Qed.
End GroupedProofs.

Example bincount_group_example :
  bincount 0 Z.add 0 [(3, 10); (1, 5); (3, 7); (0, 2)] = [2; 5; 0; 17]
  /\ Forall2 (agree_on 3) [(3, 10); (1, 5); (3, 7); (0, 2)] [(3, 10); (4, 99); (3, 7); (7, 1)].
Proof.
  split; [reflexivity|].
  assert (S : forall p : Z * Z, agree_on 3 p p) by (intros p _; reflexivity).
  assert (D : forall p q : Z * Z, fst p <> 3 -> fst q <> 3 -> agree_on 3 p q) by (intros p q Hp Hq [H|H]; contradiction).
  apply Forall2_cons; [apply S|]. apply Forall2_cons; [apply D; cbn [fst]; lia|].
  apply Forall2_cons; [apply S|]. apply Forall2_cons; [apply D; cbn [fst]; lia|]. apply Forall2_nil.
Qed.

(* ------------------------------------------------------------------ scatter / anti-index *)

Lemma upd_set_length {A} k (v : A) a : length (upd_set k v a) = length a.
Proof. revert k. induction a as [|x r IH]; intros [|k]; cbn [upd_set length]; auto. Qed.

Lemma nth_upd_set_same {A} k (v : A) a d : (k < length a)%nat -> nth k (upd_set k v a) d = v.
Proof.
  revert k. induction a as [|x r IH]; intros [|k] Hk; cbn [length] in Hk; cbn [upd_set nth]; try lia; auto.
  apply IH. lia.
Qed.

Lemma nth_upd_set_other {A} j k (v : A) a d : j <> k -> nth j (upd_set k v a) d = nth j a d.
Proof. revert j k. induction a as [|x r IH]; intros [|j] [|k] Hjk; cbn [upd_set nth]; auto; try congruence. Qed.

Lemma scatter_length {A} (kv : list (Z * A)) : forall acc, length (scatter kv acc) = length acc.
Proof. induction kv as [|p r IH]; intros acc; cbn [scatter]; auto. rewrite IH. apply upd_set_length. Qed.

Lemma scatter_nth_notin {A} (kv : list (Z * A)) : forall acc j d,
  (forall p, In p kv -> Z.to_nat (fst p) <> j) -> nth j (scatter kv acc) d = nth j acc d.
Proof.
  induction kv as [|p r IH]; intros acc j d H; cbn [scatter]; auto.
  rewrite IH by (intros q Hq; apply H; right; exact Hq).
  apply nth_upd_set_other. intros E. apply (H p (or_introl eq_refl)). auto.
Qed.

Lemma in_combine_fst {A B} (l : list A) (l' : list B) p : In p (combine l l') -> In (fst p) l.
Proof. destruct p as [a b]. intros H. apply in_combine_l in H. exact H. Qed.

Lemma anti_scatter idxs : forall s acc k i,
  NoDup idxs -> (forall j, In j idxs -> 0 <= j /\ (Z.to_nat j < length acc)%nat) ->
  nth_error idxs k = Some i ->
  nth (Z.to_nat i) (scatter (combine idxs (zrange s (length idxs))) acc) 0 = s + Z.of_nat k.
Proof.
  induction idxs as [|a r IH]; intros s acc k i ND Hin Hk; [destruct k; discriminate|].
  cbn [length zrange combine scatter].
  inversion ND as [|? ? Hnot ND']; subst.
  destruct k as [|k]; cbn [nth_error] in Hk.
  - injection Hk as ->. cbn [fst snd].
    rewrite scatter_nth_notin.
    + rewrite nth_upd_set_same by (apply Hin; left; reflexivity). lia.
    + intros p Hp E. apply in_combine_fst in Hp.
      assert (0 <= fst p) by (apply Hin; right; exact Hp).
      assert (0 <= i) by (apply Hin; left; reflexivity).
      assert (fst p = i) by lia. subst i. contradiction.
  - cbn [fst snd]. rewrite (IH (s + 1) _ k i ND'); [lia| |exact Hk].
    intros j Hj. rewrite upd_set_length. apply Hin. right; exact Hj.
Qed.

(* anti[indexes] = arange(n) on a table of any sufficient size inverts the request list:
   anti[indexes[k]] = k, for any duplicate-free request list in any order and numbering *)
Theorem anti_index_correct n idxs k i :
  NoDup idxs -> (forall j, In j idxs -> 0 <= j) -> maxl idxs + 1 <= n ->
  nth_error idxs k = Some i ->
  nth (Z.to_nat i) (anti_table n idxs) 0 = Z.of_nat k.
Proof.
  intros ND Hnn Hn Hk. unfold anti_table.
  rewrite (anti_scatter idxs 0 _ k i ND); [lia| |exact Hk].
  intros j Hj. rewrite repeat_length. split; [apply Hnn, Hj|].
  assert (j <= maxl idxs) by (apply maxl_ge, Hj). specialize (Hnn j Hj). lia.
Qed.

Example anti_index_example :
  anti_index [7; 2; 40; 3] = anti_table 41 [7; 2; 40; 3] /\ NoDup [7; 2; 40; 3]
  /\ gather (anti_index [7; 2; 40; 3]) [7; 2; 40; 3] = Some [0; 1; 2; 3].
Proof.
  split; [reflexivity|]. split; [|vm_compute; reflexivity].
  repeat constructor; cbn [In]; intros H; repeat (destruct H as [H|H]; [discriminate|]); exact H.
Qed.

(* ------------------------------------------------------------------ cumulative offsets *)

Lemma offsets_scan_gen : forall r s c, s :: cumsum_from s (removelast (c :: r)) = excl_scan s (c :: r).
Proof.
  induction r as [|c' r IH]; intros s c.
  - reflexivity.
  - change (removelast (c :: c' :: r)) with (c :: removelast (c' :: r)).
    cbn [cumsum_from excl_scan]. f_equal. apply IH.
Qed.

Lemma offsets_scan counts : offsets counts = excl_scan 0 counts.
Proof. destruct counts as [|c r]; [reflexivity|]. unfold offsets, cumsum. apply offsets_scan_gen. Qed.

Definition zlen {A} (l : list A) : Z := Z.of_nat (length l).

Lemma excl_scan_ge {A} (blocks : list (list A)) : forall s k off,
  nth_error (excl_scan s (map zlen blocks)) k = Some off -> s <= off.
Proof.
  induction blocks as [|b r IH]; intros s k off H; [destruct k; discriminate|].
  cbn [map excl_scan] in H. destruct k as [|k]; cbn [nth_error] in H.
  - injection H as <-. lia.
  - apply IH in H. unfold zlen in H. lia.
Qed.

Lemma segment_blocks {A} (blocks : list (list A)) : forall s k b off,
  nth_error blocks k = Some b ->
  nth_error (excl_scan s (map zlen blocks)) k = Some off ->
  segment (concat blocks) (off - s) (zlen b) = b.
Proof.
  induction blocks as [|b0 r IH]; intros s k b off Hb Ho; [destruct k; discriminate|].
  cbn [map excl_scan concat] in *. destruct k as [|k]; cbn [nth_error] in Hb, Ho.
  - injection Hb as ->. injection Ho as <-. unfold segment, zlen.
    replace (Z.to_nat (s - s)) with O by lia. cbn [skipn].
    rewrite Nat2Z.id. rewrite firstn_app, firstn_all. rewrite Nat.sub_diag. cbn [firstn]. apply app_nil_r.
  - pose proof (excl_scan_ge r _ _ _ Ho) as Hge.
    specialize (IH (s + zlen b0) k b off Hb Ho). unfold segment in *. unfold zlen in *.
    rewrite skipn_app.
    rewrite skipn_all2 by lia. cbn [app].
    replace (Z.to_nat (off - s) - length b0)%nat with (Z.to_nat (off - (s + Z.of_nat (length b0)))) by lia.
    exact IH.
Qed.

(* point_index = [0] ++ cumsum(counts[:-1]) addresses block k of the concatenated ragged array:
   a[point_index[k] : point_index[k] + counts[k]] is exactly block k *)
Theorem offsets_correct {A} (blocks : list (list A)) k b :
  nth_error blocks k = Some b ->
  exists off, nth_error (offsets (map zlen blocks)) k = Some off
              /\ segment (concat blocks) off (zlen b) = b.
Proof.
  intros Hb. rewrite offsets_scan.
  assert (Hlen : (k < length (excl_scan 0 (map zlen blocks)))%nat).
  { assert (L : forall (c : list Z) s, length (excl_scan s c) = length c).
    { induction c as [|x c IHc]; intros s; cbn [excl_scan length]; auto. }
    rewrite L, map_length. apply nth_error_Some. congruence. }
  destruct (nth_error (excl_scan 0 (map zlen blocks)) k) as [off|] eqn:Ho.
  - exists off. split; [reflexivity|].
    pose proof (segment_blocks blocks 0 k b off Hb Ho) as H. rewrite Z.sub_0_r in H. exact H.
  - apply nth_error_None in Ho. lia.
Qed.

Example offsets_example :
  offsets [3; 0; 2; 1] = [0; 3; 3; 5] /\ segment [1; 2; 3; 4; 5; 6] 3 2 = [4; 5].
Proof. split; reflexivity. Qed.

(* ------------------------------------------------------------------ images, masks, pixels *)

Lemma get_map {A B} (f : A -> B) (im : list (list A)) y x :
  get (map (map f) im) y x = option_map f (get im y x).
Proof.
  unfold get. destruct ((y <? 0) || (x <? 0)); [reflexivity|].
  rewrite nth_error_map. destruct (nth_error im (Z.to_nat y)) as [r|]; cbn [option_map]; [|reflexivity].
  apply nth_error_map.
Qed.

Lemma get_mask l im y x : get (mask l im) y x = option_map (Z.eqb l) (get im y x).
Proof. apply get_map. Qed.

Lemma mask_get_own l im im' y x :
  mask l im = mask l im' -> get im y x = Some l -> get im' y x = Some l.
Proof.
  intros Hm Hg. pose proof (get_mask l im y x) as H1. pose proof (get_mask l im' y x) as H2.
  rewrite Hm in H1. rewrite H1 in H2. rewrite Hg in H2. cbn [option_map] in H2.
  rewrite Z.eqb_refl in H2. destruct (get im' y x) as [v|]; cbn [option_map] in H2; [|discriminate].
  injection H2 as H2. symmetry in H2. apply Z.eqb_eq in H2. subst. reflexivity.
Qed.

Lemma table_idx_mask l im y x :
  get im y x = Some l -> table_idx_at im y x = table_idx_b (mask l im) y x.
Proof.
  intros Hg. unfold table_idx_at, table_idx_b. f_equal. apply map_ext. intros o.
  unfold same_as, same_as_b. rewrite Hg, get_mask.
  destruct (get im (y + fst o) (x + snd o)); reflexivity.
Qed.

(* the 9-bit same-label-as-neighbour pattern of a pixel of object l depends only on l's pixel set *)
Theorem table_idx_own_label l im im' y x :
  mask l im = mask l im' -> get im y x = Some l ->
  table_idx_at im y x = table_idx_at im' y x.
Proof.
  intros Hm Hg. rewrite (table_idx_mask l im y x Hg).
  rewrite (table_idx_mask l im' y x (mask_get_own l im im' y x Hm Hg)). rewrite Hm. reflexivity.
Qed.

Example table_idx_example :
  let im := [[1; 1; 2]; [0; 1; 2]; [3; 3; 1]] in
  let im' := [[1; 1; 9]; [5; 1; 0]; [0; 0; 1]] in
  mask 1 im = mask 1 im' /\ get im 1 1 = Some 1 /\ table_idx_at im 1 1 = 275.
Proof. cbv zeta. repeat split; reflexivity. Qed.

Lemma enum_row_map {A B} (f : A -> B) y (r : list A) : forall x,
  enum_row y x (map f r) = map (fun p => (fst p, f (snd p))) (enum_row y x r).
Proof. induction r as [|v t IH]; intros x; cbn [map enum_row]; auto. rewrite IH. reflexivity. Qed.

Lemma enum_rows_map {A B} (f : A -> B) (im : list (list A)) : forall y,
  enum_rows y (map (map f) im) = map (fun p => (fst p, f (snd p))) (enum_rows y im).
Proof.
  induction im as [|r t IH]; intros y; cbn [map enum_rows]; auto.
  rewrite map_app, enum_row_map, IH. reflexivity.
Qed.

Lemma pixels_map {A B} (f : A -> B) (im : list (list A)) :
  pixels (map (map f) im) = map (fun p => (fst p, f (snd p))) (pixels im).
Proof. apply enum_rows_map. Qed.

(* the coordinate list of object l is a function of its mask *)
Lemma own_coords_mask im l : own_coords im l = true_coords (mask l im).
Proof.
  unfold own_coords, true_coords, mask. rewrite pixels_map, filter_map_comm, map_map. cbn [fst].
  f_equal. apply filter_ext. intros p. unfold p_v. cbn [snd]. apply Z.eqb_sym.
Qed.

Lemma mask_relabel (f : Z -> Z) l im :
  (forall a b, f a = f b -> a = b) -> mask (f l) (relabel f im) = mask l im.
Proof.
  intros Inj. unfold mask, relabel. rewrite map_map. apply map_ext. intros r.
  rewrite map_map. apply map_ext. intros v.
  destruct (Z.eqb_spec (f l) (f v)) as [E|N], (Z.eqb_spec l v) as [E'|N']; auto.
  - apply Inj in E. contradiction.
  - subst. contradiction.
Qed.

Lemma enum_row_In {A} y (r : list A) : forall x0 y' x' v,
  In (y', x', v) (enum_row y x0 r) ->
  y' = y /\ x0 <= x' /\ nth_error r (Z.to_nat (x' - x0)) = Some v.
Proof.
  induction r as [|a t IH]; intros x0 y' x' v H; cbn [enum_row In] in H; [contradiction|].
  destruct H as [H|H].
  - injection H as <- <- <-. replace (Z.to_nat (x0 - x0)) with O by lia. repeat split; auto; lia.
  - apply IH in H. destruct H as [Hy [Hx Hn]]. split; [exact Hy|]. split; [lia|].
    replace (Z.to_nat (x' - x0)) with (S (Z.to_nat (x' - (x0 + 1)))) by lia. exact Hn.
Qed.

Lemma enum_rows_In {A} (im : list (list A)) : forall y0 y' x' v,
  In (y', x', v) (enum_rows y0 im) ->
  y0 <= y' /\ 0 <= x' /\ exists r, nth_error im (Z.to_nat (y' - y0)) = Some r
                                   /\ nth_error r (Z.to_nat x') = Some v.
Proof.
  induction im as [|r t IH]; intros y0 y' x' v H; cbn [enum_rows] in H; [contradiction|].
  apply in_app_or in H. destruct H as [H|H].
  - apply enum_row_In in H. destruct H as [-> [Hx Hn]]. rewrite Z.sub_0_r in Hn.
    split; [lia|]. split; [exact Hx|]. exists r. rewrite Z.sub_diag. split; [reflexivity|exact Hn].
  - apply IH in H. destruct H as [Hy [Hx [r' [Hr Hn]]]]. split; [lia|]. split; [exact Hx|].
    exists r'. replace (Z.to_nat (y' - y0)) with (S (Z.to_nat (y' - (y0 + 1)))) by lia. split; assumption.
Qed.

Lemma pixels_get {A} (im : list (list A)) y x v : In (y, x, v) (pixels im) -> get im y x = Some v.
Proof.
  intros H. apply enum_rows_In in H. destruct H as [Hy [Hx [r [Hr Hn]]]].
  unfold get. replace ((y <? 0) || (x <? 0)) with false by lia.
  rewrite Z.sub_0_r in Hr. rewrite Hr. exact Hn.
Qed.
