(* C19 — augmenting_row_reduction: the free list never outgrows max(y)+1 entries and the re-queue
   write stays inside the work list, for EVERY sequence of branch outcomes; bsearch never reads
   outside the row and finds a value that is present in a strictly increasing row. *)
From Coq Require Import ZArith List Bool Lia ZifyBool.
From Centro Require Import Base.ArrC19 Model.LapC19.
Import ListNotations.
Open Scope Z_scope.

Lemma arr_skeleton_ok : forall oracle n_i k nfree ii free,
  zlen ii = n_i -> n_i <= zlen free -> 0 <= nfree <= k -> k <= n_i ->
  exists k' nfree' ii' free', arr_skeleton oracle n_i k nfree ii free = Some (k', nfree', ii', free') /\
    0 <= nfree' <= k' /\ k' <= n_i /\ zlen ii' = n_i /\ zlen free' = zlen free.
Proof.
  induction oracle as [|b t IH]; intros n_i k nfree ii free Hi Hf Hn Hk; cbn [arr_skeleton].
  - exists k, nfree, ii, free. repeat split; auto; lia.
  - destruct (k <? n_i) eqn:Ek; [|exists k, nfree, ii, free; repeat split; auto; lia].
    destruct (rd_ok _ ii k ltac:(lia)) as [i Ei]. rewrite Ei. cbn [bind].
    destruct b.
    + destruct (wr_ok _ ii (k + 1 - 1) i ltac:(lia)) as [ii' [E' L']]. rewrite E'. cbn [bind].
      destruct (IH n_i (k + 1 - 1) nfree ii' free) as (k' & nf' & i2 & f2 & E2 & A & B & C & D); try lia.
      exists k', nf', i2, f2. repeat split; auto; lia.
    + destruct (wr_ok _ free nfree i ltac:(lia)) as [free' [E' L']]. rewrite E'. cbn [bind].
      destruct (IH n_i (k + 1) (nfree + 1) ii free') as (k' & nf' & i2 & f2 & E2 & A & B & C & D); try lia.
      exists k', nf', i2, f2. repeat split; auto; lia.
    + destruct (IH n_i (k + 1) nfree ii free) as (k' & nf' & i2 & f2 & E2 & A & B & C & D); try lia.
      exists k', nf', i2, f2. repeat split; auto; lia.
Qed.

(* free = zeros(max(y)+1); work list of n_i rows; any branch outcomes, any number of iterations *)
Theorem arr_free_safe : forall oracle ii maxy free,
  kernel_pre_arr_free (zlen ii) maxy = true -> zlen free = maxy + 1 ->
  arr_skeleton oracle (zlen ii) 0 0 ii free <> None.
Proof.
  intros oracle ii maxy free Hp Hf. unfold kernel_pre_arr_free in Hp.
  pose proof (zlen_nonneg _ ii).
  destruct (arr_skeleton_ok oracle (zlen ii) 0 0 ii free) as (k' & nf' & i2 & f2 & E & _); try lia.
  rewrite E. discriminate.
Qed.

Example arr_free_example :
  kernel_pre_arr_free (zlen [4;5;6]) 2 = true /\
  arr_skeleton [Free; Requeue; Free; Done; Free] 3 0 0 [4;5;6] [0;0;0] = Some (3, 2, [4;5;6], [4;5;0]).
Proof. vm_compute. split; reflexivity. Qed.

(* the sizing is needed: two free rows but max(y)+1 = 1 *)
Example arr_free_pre_needed : arr_skeleton [Free; Free] 2 0 0 [4;5] [0] = None.
Proof. vm_compute. reflexivity. Qed.

(* ------------------------------------------------------------------ bsearch *)
Theorem bsearch_safe : forall fuel a base low high val count,
  0 <= base -> base + count <= zlen a -> 0 <= low -> high <= count - 1 ->
  bsearch fuel a base low high val <> None.
Proof.
  induction fuel as [|f IH]; intros a base low high val count Hb Hc Hl Hh; cbn [bsearch]; [discriminate|].
  destruct (low <=? high) eqn:E; [|discriminate].
  assert (Hm : low <= (low + high) / 2 <= high).
  { pose proof (Z_div_mod_eq_full (low + high) 2). pose proof (Z.mod_pos_bound (low + high) 2 ltac:(lia)). lia. }
  destruct (rd_ok _ a (base + (low + high) / 2) ltac:(lia)) as [x Ex]. rewrite Ex. cbn [bind].
  destruct (val =? x); [discriminate|].
  destruct (x <? val); eapply IH; eauto; lia.
Qed.

Definition seg (a : list Z) (base k : Z) : Z := match rd a (base + k) with Some x => x | None => 0 end.

(* a value present in a strictly increasing row is found (so the undefined fall-through return is
   never taken when the assignment x[i] is listed in row i, as augment requires) *)
Theorem bsearch_finds : forall fuel a base low high val count,
  0 <= base -> base + count <= zlen a -> 0 <= low -> high <= count - 1 ->
  (forall p q, 0 <= p < q -> q < count -> seg a base p < seg a base q) ->
  (exists k, low <= k <= high /\ seg a base k = val) ->
  (Z.of_nat fuel > high - low + 1) ->
  exists m, bsearch fuel a base low high val = Some (Some m) /\ seg a base m = val /\ low <= m <= high.
Proof.
  induction fuel as [|f IH]; intros a base low high val count Hb Hc Hl Hh Hs [k [Hk Ek]] Hf.
  - lia.
  - cbn [bsearch]. replace (low <=? high) with true by lia.
    assert (Hm : low <= (low + high) / 2 <= high).
    { pose proof (Z_div_mod_eq_full (low + high) 2). pose proof (Z.mod_pos_bound (low + high) 2 ltac:(lia)). lia. }
    set (mid := (low + high) / 2) in *.
    destruct (rd_ok _ a (base + mid) ltac:(lia)) as [x Ex]. rewrite Ex. cbn [bind].
    assert (Sx : seg a base mid = x) by (unfold seg; rewrite Ex; reflexivity).
    destruct (val =? x) eqn:Ev.
    + exists mid. split; [reflexivity|]. split; [lia|lia].
    + destruct (x <? val) eqn:El.
      * assert (mid < k).
        { destruct (Z_lt_le_dec mid k); [assumption|]. destruct (Z.eq_dec k mid); [subst; lia|].
          pose proof (Hs k mid ltac:(lia) ltac:(lia)). lia. }
        destruct (IH a base (mid + 1) high val count) as [m (E & S & R)]; try lia; auto.
        { exists k. split; [lia|assumption]. }
        exists m. repeat split; auto; lia.
      * assert (k < mid).
        { destruct (Z_lt_le_dec k mid); [assumption|]. destruct (Z.eq_dec k mid); [subst; lia|].
          pose proof (Hs mid k ltac:(lia) ltac:(lia)). lia. }
        destruct (IH a base low (mid - 1) val count) as [m (E & S & R)]; try lia; auto.
        { exists k. split; [lia|assumption]. }
        exists m. repeat split; auto; lia.
Qed.

Example bsearch_example :
  bsearch 6 [9;9; 1;4;6;8;11] 2 0 4 8 = Some (Some 3) /\ bsearch 6 [9;9; 1;4;6;8;11] 2 0 4 7 = Some None.
Proof. vm_compute. split; reflexivity. Qed.
