(* C19 — augmenting_row_reduction: the free list never outgrows max(y)+1 entries and the re-queue
   write stays inside the work list, for EVERY sequence of branch outcomes; bsearch never reads
   outside the row and finds a value that is present in a strictly increasing row. *)
From Coq Require Import ZArith List Bool Lia ZifyBool.
From Centro Require Import Base.ArrC19 Model.LapC19.
Import ListNotations.
Open Scope Z_scope.

Lemma arr_skeleton_ok : forall oracle n_i k nfree ii free,
  zlen ii = n_i -> n_i <= zlen free -> 0 <= nfree <= k -> k <= n_i ->
  exists k' nfree' ii' free', arr_skeleton oracle n_i k nfree ii free = Some (k', nfree', ii', free') /\
    0 <= nfree' <= k' /\ k' <= n_i /\ zlen ii' = n_i /\ zlen free' = zlen free.
Proof.
  induction oracle as [|b t IH]; intros n_i k nfree ii free Hi Hf Hn Hk; cbn [arr_skeleton].
  - exists k, nfree, ii, free. repeat split; auto; lia.
  - destruct (k <? n_i) eqn:Ek; [|exists k, nfree, ii, free; repeat split; auto; lia].
    destruct (rd_ok _ ii k ltac:(lia)) as [i Ei]. rewrite Ei. cbn [bind].
    destruct b.
    + destruct (wr_ok _ ii (k + 1 - 1) i ltac:(lia)) as [ii' [E' L']]. rewrite E'. cbn [bind].
      destruct (IH n_i (k + 1 - 1) nfree ii' free) as (k' & nf' & i2 & f2 & E2 & A & B & C & D); try lia.
      exists k', nf', i2, f2. repeat split; auto; lia.
    + destruct (wr_ok _ free nfree i ltac:(lia)) as [free' [E' L']]. rewrite E'. cbn [bind].
      destruct (IH n_i (k + 1) (nfree + 1) ii free') as (k' & nf' & i2 & f2 & E2 & A & B & C & D); try lia.
      exists k', nf', i2, f2. repeat split; auto; lia.
    + destruct (IH n_i (k + 1) nfree ii free) as (k' & nf' & i2 & f2 & E2 & A & B & C & D); try lia.
      exists k', nf', i2, f2. repeat split; auto; lia.
Qed.

(* free = zeros(max(y)+1); work list of n_i rows; any branch outcomes, any number of iterations *)
Theorem arr_free_safe : forall oracle ii maxy free,
  kernel_pre_arr_free (zlen ii) maxy = true -> zlen free = maxy + 1 ->
  arr_skeleton oracle (zlen ii) 0 0 ii free <> None.
Proof.
  intros oracle ii maxy free Hp Hf. unfold kernel_pre_arr_free in Hp.
  pose proof (zlen_nonneg _ ii).
  destruct (arr_skeleton_ok oracle (zlen ii) 0 0 ii free) as (k' & nf' & i2 & f2 & E & _); try lia.
  rewrite E. discriminate.
Qed.

Example arr_free_example :
  kernel_pre_arr_free (zlen [4;5;6]) 2 = true /\
  arr_skeleton [Free; Requeue; Free; Done; Free] 3 0 0 [4;5;6] [0;0;0] = Some (3, 2, [4;5;6], [4;5;0]).
Proof. vm_compute. split; reflexivity. Qed.

(* the sizing is needed: two free rows but max(y)+1 = 1 *)
Example arr_free_pre_needed : arr_skeleton [Free; Free] 2 0 0 [4;5] [0] = None.
Proof. vm_compute. reflexivity. Qed.

(* ------------------------------------------------------------------ bsearch *)
Theorem bsearch_safe : forall fuel a base low high val count,
  0 <= base -> base + count <= zlen a -> 0 <= low -> high <= count - 1 ->
  bsearch fuel a base low high val <> None.
Proof.
  induction fuel as [|f IH]; intros a base low high val count Hb Hc Hl Hh; cbn [bsearch]; [discriminate|].
  destruct (low <=? high) eqn:E; [|discriminate].
  assert (Hm : low <= (low + high) / 2 <= high).
  { pose proof (Z_div_mod_eq_full (low + high) 2). pose proof (Z.mod_pos_bound (low + high) 2 ltac:(lia)). lia. }
  destruct (rd_ok _ a (base + (low + high) / 2) ltac:(lia)) as [x Ex]. rewrite Ex. cbn [bind].
  destruct (val =? x); [discriminate|].
  destruct (x <? val); eapply IH; eauto; lia.
Qed.

Definition seg (a : list Z) (base k : Z) : Z := match rd a (base + k) with Some x => x | None => 0 end.

(* a value present in a strictly increasing row is found (so the undefined fall-through return is
   never taken when the assignment x[i] is listed in row i, as augment requires) *)
Theorem bsearch_finds : forall fuel a base low high val count,
  0 <= base -> base + count <= zlen a -> 0 <= low -> high <= count - 1 ->
  (forall p q, 0 <= p < q -> q < count -> seg a base p < seg a base q) ->
  (exists k, low <= k <= high /\ seg a base k = val) ->
  (Z.of_nat fuel > high - low + 1) ->
  exists m, bsearch fuel a base low high val = Some (Some m) /\ seg a base m = val /\ low <= m <= high.
Proof.
  induction fuel as [|f IH]; intros a base low high val count Hb Hc Hl Hh Hs [k [Hk Ek]] Hf.
  - lia.
  - cbn [bsearch]. replace (low <=? high) with true by lia.
    assert (Hm : low <= (low + high) / 2 <= high).
    { pose proof (Z_div_mod_eq_full (low + high) 2). pose proof (Z.mod_pos_bound (low + high) 2 ltac:(lia)). lia. }
    set (mid := (low + high) / 2) in *.
    destruct (rd_ok _ a (base + mid) ltac:(lia)) as [x Ex]. rewrite Ex. cbn [bind].
    assert (Sx : seg a base mid = x) by (unfold seg; rewrite Ex; reflexivity).
    destruct (val =? x) eqn:Ev.
    + exists mid. split; [reflexivity|]. split; [lia|lia].
    + destruct (x <? val) eqn:El.
      * assert (mid < k).
        { destruct (Z_lt_le_dec mid k); [assumption|]. destruct (Z.eq_dec k mid); [subst; lia|].
          pose proof (Hs k mid ltac:(lia) ltac:(lia)). lia. }
        destruct (IH a base (mid + 1) high val count) as [m (E & S & R)]; try lia; auto.
        { exists k. split; [lia|assumption]. }
        exists m. repeat split; auto; lia.
      * assert (k < mid).
        { destruct (Z_lt_le_dec k mid); [assumption|]. destruct (Z.eq_dec k mid); [subst; lia|].
          pose proof (Hs mid k ltac:(lia) ltac:(lia)). lia. }
        destruct (IH a base low (mid - 1) val count) as [m (E & S & R)]; try lia; auto.
        { exists k. split; [lia|assumption]. }
        exists m. repeat split; auto; lia.
Qed.

Example bsearch_example :
  bsearch 6 [9;9; 1;4;6;8;11] 2 0 4 8 = Some (Some 3) /\ bsearch 6 [9;9; 1;4;6;8;11] 2 0 4 7 = Some None.
Proof. vm_compute. split; reflexivity. Qed.

(* ================================================================== round 2 *)
Lemma chk_ok : forall k len, 0 <= k < len -> chk k len = Some tt.
Proof. intros. unfold chk. replace (inb k len) with true by (symmetry; apply inb_true; lia). reflexivity. Qed.

Lemma zrange_cons : forall lo hi, lo < hi -> zrange lo hi = lo :: zrange (lo + 1) hi.
Proof.
  intros lo hi H. unfold zrange. replace (Z.to_nat (hi - lo)) with (S (Z.to_nat (hi - (lo + 1)))) by lia.
  reflexivity.
Qed.

(* ------------------------------------------------------------------ reduction_transfer *)
Theorem rt_safe : forall ii jj idx count x ulen vlen clen,
  kernel_pre_rt ii jj idx count x ulen vlen clen = true ->
  reduction_transfer ii jj idx count x ulen vlen clen <> None.
Proof.
  intros ii jj idx count x ulen vlen clen Hp. unfold kernel_pre_rt in Hp.
  apply andb_prop in Hp. destruct Hp as [Hj Hi]. unfold reduction_transfer.
  destruct (foldM_inv _ _ (fun _ : unit => True) (fun i => In i ii)
              (rt_row jj idx count x ulen vlen clen) ii tt I) as [r [E _]].
  - apply Forall_forall. auto.
  - intros [] i _ Hin. apply (forallb_In _ _ _ _ Hi) in Hin.
    apply andb_prop in Hin. destruct Hin as [Hu Hrow]. apply inb_true in Hu. unfold rt_row.
    destruct (rd x i) as [j1|]; [|discriminate]. destruct (rd count i) as [c|]; [|discriminate].
    destruct (rd idx i) as [s|]; [|discriminate]. cbn [bind].
    unfold inb in Hrow. assert (Hj1 : 0 <= j1 < vlen) by lia.
    destruct (foldM_inv _ _ (fun _ : unit => True) (fun k => 0 <= k < c)
                (rt_cand jj vlen clen s j1) (zrange 0 c) tt I) as [r' [E' _]].
    + apply Forall_forall. intros k Hk. apply In_zrange in Hk. lia.
    + intros [] k _ Hk. unfold rt_cand. destruct (rd_ok _ jj k ltac:(lia)) as [jt Ejt]. rewrite Ejt. cbn [bind].
      destruct (jt =? j1); [exists tt; auto|].
      rewrite chk_ok by lia. cbn [bind]. apply rd_some in Ejt. destruct Ejt as [_ Ijt].
      apply (forallb_In _ _ _ _ Hj) in Ijt. apply inb_true in Ijt. rewrite chk_ok by lia. exists tt; auto.
    + rewrite E'. cbn [bind]. rewrite chk_ok by lia. cbn [bind]. rewrite chk_ok by lia. exists tt; auto.
  - rewrite E. discriminate.
Qed.

Example rt_pre_example :
  kernel_pre_rt [0; 2] [1; 2; 0; 2] [0; 2; 3] [2; 1; 1] [1; 0; 2] 3 3 4 = true /\
  reduction_transfer [0; 2] [1; 2; 0; 2] [0; 2; 3] [2; 1; 1] [1; 0; 2] 3 3 4 = Some tt.
Proof. vm_compute. split; reflexivity. Qed.

(* ------------------------------------------------------------------ augmenting_row_reduction, all reads *)
Section Arr.
Variables (n n_i : Z) (jj idx count : list Z) (vlen clen xlen ylen : Z).

Definition rowok (i : Z) : Prop :=
  exists s c, rd idx i = Some s /\ rd count i = Some c /\ 0 <= s /\ 1 <= c /\ s + c <= zlen jj /\ s + c <= clen.

Hypothesis Hjj : Forall (fun j => 0 <= j < ylen /\ j < vlen) jj.
Hypothesis Hnx : n <= xlen.

Definition AI (s : arrst) : Prop :=
  0 <= a_nfree s <= a_k s /\ a_k s <= n_i /\ zlen (a_ii s) = n_i /\ n_i <= zlen (a_free s) /\
  zlen (a_x s) = xlen /\ zlen (a_y s) = ylen /\
  Forall (fun i => 0 <= i < n /\ rowok i) (a_ii s) /\
  Forall (fun r => r = n \/ (0 <= r < n /\ rowok r)) (a_y s).

Definition good (o : option Z) : Prop := match o with Some j => 0 <= j < ylen /\ j < vlen | None => True end.

Lemma arr_scan_ok : forall base ks os j1 j2,
  (forall k, In k ks -> 0 <= base + k < zlen jj /\ base + k < clen) -> good j1 -> good j2 ->
  exists j1' j2', arr_scan jj vlen clen base ks os j1 j2 = Some (j1', j2') /\ good j1' /\ good j2' /\
    (j1 <> None -> j1' <> None) /\ (j1 <> None -> j2 <> None -> j2' <> None).
Proof.
  induction ks as [|k kt IH]; intros os j1 j2 Hk G1 G2.
  - exists j1, j2. cbn. repeat split; auto.
  - destruct os as [|o ot]; [exists j1, j2; cbn; repeat split; auto|]. cbn [arr_scan].
    destruct (Hk k (or_introl eq_refl)) as [Hr Hc].
    destruct (rd_ok _ jj (base + k) Hr) as [j Ej]. rewrite Ej. cbn [bind].
    rewrite chk_ok by lia. cbn [bind]. apply rd_some in Ej. destruct Ej as [_ Ij].
    rewrite Forall_forall in Hjj. pose proof (Hjj j Ij) as Gj. rewrite chk_ok by lia. cbn [bind].
    assert (Hk' : forall k0, In k0 kt -> 0 <= base + k0 < zlen jj /\ base + k0 < clen) by (intros; apply Hk; right; assumption).
    destruct o.
    + destruct (IH ot (Some j) j1 Hk' Gj G1) as (a & b & E & Ga & Gb & K1 & K2).
      exists a, b. repeat split; auto. intros N1. apply K1. discriminate.
      intros N1 N2. apply K2; [discriminate|assumption].
    + destruct (IH ot j1 (Some j) Hk' G1 Gj) as (a & b & E & Ga & Gb & K1 & K2).
      exists a, b. repeat split; auto. intros N1 N2. apply K2; [assumption|discriminate].
    + destruct (IH ot j1 j2 Hk' G1 G2) as (a & b & E & Ga & Gb & K1 & K2).
      exists a, b. repeat split; auto.
Qed.

(* with an oracle that finite costs allow: j1 is assigned, and j2 too unless the row is strict *)
Lemma arr_scan_row : forall base cnt os strict,
  row_oracle_ok cnt (os, strict) = true -> 0 <= base -> 1 <= cnt -> base + cnt <= zlen jj -> base + cnt <= clen ->
  exists j1 j2, arr_scan jj vlen clen base (zrange 0 cnt) os None None = Some (Some j1, j2) /\
    (0 <= j1 < ylen /\ j1 < vlen) /\ good j2 /\ (strict = false -> j2 <> None).
Proof.
  intros base cnt os strict Ho Hb Hc Hj Hcl. unfold row_oracle_ok in Ho. cbn [fst snd] in Ho.
  apply andb_prop in Ho. destruct Ho as [Hlen Hpat].
  assert (Hin : forall lo k, 0 <= lo -> In k (zrange lo cnt) -> 0 <= base + k < zlen jj /\ base + k < clen).
  { intros lo k Hlo Hk. apply In_zrange in Hk. lia. }
  destruct os as [|o1 ot]; [discriminate|]. destruct o1; try discriminate.
  rewrite (zrange_cons 0 cnt) by lia. cbn [arr_scan].
  destruct (rd_ok _ jj (base + 0) ltac:(lia)) as [ja Eja]. rewrite Eja. cbn [bind].
  rewrite chk_ok by lia. cbn [bind]. apply rd_some in Eja. destruct Eja as [_ Ija].
  pose proof Hjj as Hjj'. rewrite Forall_forall in Hjj'. pose proof (Hjj' ja Ija) as Ga.
  rewrite chk_ok by lia. cbn [bind].
  destruct ot as [|o2 ot2].
  - (* single candidate: strict *)
    assert (cnt = 1) by (unfold zlen in Hlen; cbn [length] in Hlen; lia). subst cnt.
    cbn. exists ja, None. repeat split; try lia; auto.
  - assert (2 <= cnt) by (unfold zlen in Hlen; cbn [length] in Hlen; lia).
    rewrite (zrange_cons (0 + 1) cnt) by lia. cbn [arr_scan].
    destruct (rd_ok _ jj (base + (0 + 1)) ltac:(lia)) as [jb Ejb]. rewrite Ejb. cbn [bind].
    rewrite chk_ok by lia. cbn [bind]. apply rd_some in Ejb. destruct Ejb as [_ Ijb].
    pose proof (Hjj' jb Ijb) as Gb. rewrite chk_ok by lia. cbn [bind].
    destruct o2; try discriminate.
    + destruct (arr_scan_ok base (zrange (0 + 1 + 1) cnt) ot2 (Some jb) (Some ja)) as (a & b & E & GA & GB & K1 & K2); auto.
      { intros k Hk. apply (Hin (0 + 1 + 1)); [lia|assumption]. }
      destruct a as [a|]; [|exfalso; apply K1; [discriminate|reflexivity]].
      exists a, b. split; [exact E|]. split; [exact GA|]. split; [exact GB|].
      intros _. apply K2; discriminate.
    + destruct (arr_scan_ok base (zrange (0 + 1 + 1) cnt) ot2 (Some ja) (Some jb)) as (a & b & E & GA & GB & K1 & K2); auto.
      { intros k Hk. apply (Hin (0 + 1 + 1)); [lia|assumption]. }
      destruct a as [a|]; [|exfalso; apply K1; [discriminate|reflexivity]].
      exists a, b. split; [exact E|]. split; [exact GA|]. split; [exact GB|].
      intros _. apply K2; discriminate.
Qed.

Lemma Forall_upd' : forall A (P : A -> Prop) (a : list A) k v, Forall P a -> P v -> Forall P (upd a k v).
Proof.
  intros A P a k v Ha Hv. apply Forall_forall. intros x Hx. apply In_upd in Hx.
  destruct Hx as [->|Hx]; [assumption|]. rewrite Forall_forall in Ha. auto.
Qed.

Lemma rd_Forall : forall (P : Z -> Prop) (a : list Z) k v, Forall P a -> rd a k = Some v -> P v.
Proof. intros P a k v Ha Hr. apply rd_some in Hr. destruct Hr as [_ Hin]. rewrite Forall_forall in Ha. auto. Qed.

Lemma arr_iter_ok : forall s o, AI s -> a_k s < n_i ->
  exists r, arr_iter n jj idx count vlen clen s o = Some r /\ match r with Some s' => AI s' | None => True end.
Proof.
  intros s [os strict] (Hnf & Hk & Lii & Lfr & Lx & Ly & Fii & Fy) Hlt. unfold arr_iter.
  destruct (rd_ok _ (a_ii s) (a_k s) ltac:(lia)) as [i Ei]. rewrite Ei. cbn [bind].
  pose proof (rd_Forall _ _ _ _ Fii Ei) as [Ri (sg & c & Es & Ec & Hs0 & Hc1 & Hsj & Hsc)].
  rewrite Ec, Es. cbn [bind].
  destruct (row_oracle_ok c (os, strict)) eqn:Eo; cbn [negb]; [|exists None; split; [reflexivity|exact I]].
  destruct (arr_scan_row sg c os strict Eo Hs0 Hc1 Hsj Hsc) as (j1 & j2 & Esc & G1 & G2 & Hj2). rewrite Esc.
  cbn [bind use].
  destruct (rd_ok _ (a_y s) j1 ltac:(lia)) as [i1 Ei1]. rewrite Ei1. cbn [bind].
  pose proof (rd_Forall _ _ _ _ Fy Ei1) as Hi1.
  (* the pair (column, its row) after the tie handling *)
  assert (Sel : exists j1' i1',
     (if strict then do _ <- chk j1 vlen; Some (j1, i1)
      else if negb (i1 =? n) then do j2' <- use j2; do i2 <- rd (a_y s) j2'; Some (j2', i2) else Some (j1, i1))
     = Some (j1', i1') /\ (0 <= j1' < ylen) /\ (i1' = n \/ (0 <= i1' < n /\ rowok i1'))).
  { destruct strict.
    - rewrite chk_ok by lia. cbn [bind]. exists j1, i1. repeat split; auto; lia.
    - destruct (negb (i1 =? n)); [|exists j1, i1; repeat split; auto; lia].
      destruct j2 as [j2|]; [|exfalso; apply Hj2; reflexivity]. cbn [use bind].
      cbn [good] in G2. destruct (rd_ok _ (a_y s) j2 ltac:(lia)) as [i2 Ei2]. rewrite Ei2. cbn [bind].
      exists j2, i2. repeat split; try lia. exact (rd_Forall _ _ _ _ Fy Ei2). }
  destruct Sel as (j1' & i1' & Esel & Rj1' & Ri1'). rewrite Esel. cbn [bind].
  assert (S1 : exists s1,
     (if negb (i1' =? n) then
        if strict then do ii' <- wr (a_ii s) (a_k s + 1 - 1) i1';
                       Some (mkarrst (a_k s + 1 - 1) (a_nfree s) ii' (a_free s) (a_x s) (a_y s))
        else do f' <- wr (a_free s) (a_nfree s) i1';
             Some (mkarrst (a_k s + 1) (a_nfree s + 1) (a_ii s) f' (a_x s) (a_y s))
      else Some (mkarrst (a_k s + 1) (a_nfree s) (a_ii s) (a_free s) (a_x s) (a_y s))) = Some s1 /\
     AI s1 /\ a_x s1 = a_x s /\ a_y s1 = a_y s).
  { destruct (negb (i1' =? n)) eqn:En.
    - assert (Hrow : 0 <= i1' < n /\ rowok i1') by (destruct Ri1' as [->|H]; [lia|exact H]).
      destruct strict.
      + destruct (wr_ok _ (a_ii s) (a_k s + 1 - 1) i1' ltac:(lia)) as [ii' [Ew Lw]]. rewrite Ew. cbn [bind].
        apply wr_some in Ew. destruct Ew as (_ & -> & _).
        eexists; split; [reflexivity|]. split; [|split; reflexivity].
        unfold AI; cbn [a_k a_nfree a_ii a_free a_x a_y]. rewrite zlen_upd.
        repeat split; auto; try lia. apply Forall_upd'; assumption.
      + destruct (wr_ok _ (a_free s) (a_nfree s) i1' ltac:(lia)) as [f' [Ew Lw]]. rewrite Ew. cbn [bind].
        eexists; split; [reflexivity|]. split; [|split; reflexivity].
        unfold AI; cbn [a_k a_nfree a_ii a_free a_x a_y]. repeat split; auto; lia.
    - eexists; split; [reflexivity|]. split; [|split; reflexivity].
      unfold AI; cbn [a_k a_nfree a_ii a_free a_x a_y]. repeat split; auto; lia. }
  destruct S1 as (s1 & E1 & (Hnf1 & Hk1 & Lii1 & Lfr1 & Lx1 & Ly1 & Fii1 & Fy1) & Ex1 & Ey1). rewrite E1. cbn [bind].
  destruct (wr_ok _ (a_x s1) i j1' ltac:(lia)) as [x' [Ewx Lwx]]. rewrite Ewx. cbn [bind].
  destruct (wr_ok _ (a_y s1) j1' i ltac:(lia)) as [y' [Ewy Lwy]]. rewrite Ewy. cbn [bind].
  apply wr_some in Ewy. destruct Ewy as (_ & -> & _).
  eexists; split; [reflexivity|]. unfold AI; cbn [a_k a_nfree a_ii a_free a_x a_y]. rewrite zlen_upd.
  repeat split; auto; try lia. apply Forall_upd'; [assumption|]. right. split; [lia|].
  exists sg, c. repeat split; auto.
Qed.

Lemma arr_run_ok : forall oracle s, AI s -> exists s', arr_run n n_i jj idx count vlen clen oracle s = Some s' /\ AI s'.
Proof.
  induction oracle as [|o t IH]; intros s Hs; cbn [arr_run]; [eauto|].
  destruct (a_k s <? n_i) eqn:E; [|eauto].
  destruct (arr_iter_ok s o Hs ltac:(lia)) as [r [Er Hr]]. rewrite Er. cbn [bind].
  destruct r as [s'|]; [apply IH; exact Hr|eauto].
Qed.

End Arr.

Lemma ragged_rowok : forall rows idx count jjlen clen i jj, zlen jj = jjlen ->
  ragged_ok rows idx count jjlen clen = true -> In i rows -> rowok jj idx count clen i.
Proof.
  intros rows idx count jjlen clen i jj Hl Hr Hin. unfold ragged_ok in Hr.
  apply (forallb_In _ _ _ _ Hr) in Hin. unfold rowok.
  destruct (rd idx i) as [s|]; [|lia]. destruct (rd count i) as [c|]; [|lia].
  exists s, c. repeat split; auto; lia.
Qed.

Lemma fold_max_ge : forall l x, In x l -> x <= fold_right Z.max 0 l.
Proof.
  induction l as [|a t IH]; intros x Hx; [destruct Hx|]. cbn [fold_right]. destruct Hx as [->|H]; [lia|].
  specialize (IH x H). lia.
Qed.

(* the whole kernel with all its reads: every oracle (entries that finite costs cannot produce cut
   the run), every number of iterations *)
Theorem arr_full_safe : forall oracle n ii jj idx count x y ulen vlen clen,
  kernel_pre_arr n ii jj idx count y (zlen x) ulen vlen clen = true ->
  arr_run n (zlen ii) jj idx count vlen clen oracle (arr_init ii x y) <> None.
Proof.
  intros oracle n ii jj idx count x y ulen vlen clen Hp. unfold kernel_pre_arr in Hp. cbv zeta in Hp.
  repeat (apply andb_prop in Hp; let H := fresh "C" in destruct Hp as [Hp H]).
  (* C: last conjunct first *)
  destruct (arr_run_ok n (zlen ii) jj idx count vlen clen (zlen x) (zlen y)) with (oracle := oracle) (s := arr_init ii x y)
    as [s' [E _]].
  - apply Forall_forall. intros j Hj. apply (forallb_In _ _ _ _ C5) in Hj. unfold inb in Hj. lia.
  - lia.
  - unfold AI, arr_init; cbn [a_k a_nfree a_ii a_free a_x a_y].
    pose proof (zlen_nonneg _ ii). unfold kernel_pre_arr_free in Hp.
    assert (Hm : 0 <= fold_right Z.max 0 y) by (clear; induction y; cbn; lia).
    repeat split; try lia.
    + unfold zlen at 2. rewrite repeat_length. lia.
    + apply Forall_forall. intros i Hi. split.
      * apply (forallb_In _ _ _ _ C6) in Hi. apply inb_true in Hi. exact Hi.
      * eapply ragged_rowok; [reflexivity|exact C7|exact Hi].
    + apply Forall_forall. intros r Hr. pose proof (forallb_In _ _ _ _ C4 Hr) as Hr4.
      destruct (Z.eq_dec r n) as [->|Hne]; [left; reflexivity|]. right. split; [lia|].
      eapply ragged_rowok; [reflexivity|exact C|]. apply filter_In. split; [assumption|lia].
  - rewrite E. discriminate.
Qed.

(* ------------------------------------------------------------------ augment, closing loop *)
Lemma sorted_seg : forall jj s c, row_sorted jj s c = true ->
  forall p q, 0 <= p < q -> q < c -> seg jj s p < seg jj s q.
Proof.
  intros jj s c Hs p q Hp Hq. unfold row_sorted in Hs.
  assert (Step : forall k, 0 <= k < c - 1 -> seg jj s k < seg jj s (k + 1)).
  { intros k Hk. assert (Hin : In k (zrange 0 (c - 1))) by (apply In_zrange; lia).
    apply (forallb_In _ _ _ _ Hs) in Hin. unfold seg. replace (s + (k + 1)) with (s + k + 1) by lia.
    destruct (rd jj (s + k)); [|discriminate]. destruct (rd jj (s + k + 1)); [|discriminate]. lia. }
  assert (Gen : forall d, (0 <= Z.of_nat d) -> p + 1 + Z.of_nat d < c -> seg jj s p < seg jj s (p + 1 + Z.of_nat d)).
  { induction d as [|d IH]; intros _ Hd.
    - replace (p + 1 + Z.of_nat 0) with (p + 1) by lia. apply Step. lia.
    - assert (seg jj s p < seg jj s (p + 1 + Z.of_nat d)) by (apply IH; lia).
      pose proof (Step (p + 1 + Z.of_nat d) ltac:(lia)).
      replace (p + 1 + Z.of_nat (S d)) with (p + 1 + Z.of_nat d + 1) by lia. lia. }
  replace q with (p + 1 + Z.of_nat (Z.to_nat (q - p - 1))) by lia. apply Gen; lia.
Qed.

(* when every row is strictly increasing and the assignment x[i] is listed in row i, the closing
   loop of augment finds every x[i] and reads c / v / u in range; fuel above the longest row *)
Theorem aug_final_safe : forall fuel n jj idx count x ulen vlen clen,
  rows_ok n jj idx count clen = true -> n <= zlen x -> n <= ulen ->
  (forall i, 0 <= i < n -> match rd x i, rd idx i, rd count i with
                           | Some j, Some s, Some c => row_has jj s c j = true /\ 0 <= j < vlen /\ c < Z.of_nat fuel
                           | _, _, _ => False end) ->
  aug_final fuel n jj idx count x ulen vlen clen <> None.
Proof.
  intros fuel n jj idx count x ulen vlen clen Hr Hx Hu Hrow. unfold aug_final.
  unfold rows_ok in Hr. apply andb_prop in Hr. destruct Hr as [Hr Hrows].
  destruct (foldM_inv _ _ (fun _ : unit => True) (fun i => 0 <= i < n)
              (aug_final_row fuel jj idx count x ulen vlen clen) (zrange 0 n) tt I) as [r [E _]].
  - apply Forall_forall. intros i Hi. apply In_zrange in Hi. lia.
  - intros [] i _ Hi. unfold aug_final_row. specialize (Hrow i Hi).
    assert (Hin : In i (zrange 0 n)) by (apply In_zrange; lia).
    apply (forallb_In _ _ _ _ Hrows) in Hin.
    destruct (rd x i) as [j|]; [|contradiction]. destruct (rd idx i) as [s|]; [|contradiction].
    destruct (rd count i) as [c|]; [|contradiction]. cbn [bind]. destruct Hrow as (Hhas & Hj & Hf).
    assert (Hs0 : 0 <= s) by lia. assert (Hc1 : 1 <= c) by lia.
    assert (Hsj : s + c <= zlen jj) by lia. assert (Hsc : s + c <= clen) by lia.
    assert (Hsort : row_sorted jj s c = true) by lia.
    unfold row_has in Hhas. apply existsb_exists in Hhas. destruct Hhas as [k [Hk Hkv]].
    apply In_zrange in Hk.
    destruct (bsearch_finds fuel jj s 0 (c - 1) j c Hs0 Hsj ltac:(lia) ltac:(lia) (sorted_seg jj s c Hsort))
      as [m (Em & Sm & Rm)].
    + exists k. split; [lia|]. unfold seg. destruct (rd jj (s + k)); [lia|discriminate].
    + lia.
    + rewrite Em. cbn [bind]. rewrite chk_ok by lia. cbn [bind]. rewrite chk_ok by lia. cbn [bind].
      rewrite chk_ok by lia. exists tt; auto.
  - rewrite E. discriminate.
Qed.

(* ------------------------------------------------------------------ the counting argument of augment's
   scratch lists (to_do with on_to_do, scan with done, ready with done): a list of columns below n
   that all carry the current row's mark, duplicate-free, has room for one more column that does NOT
   carry the mark — so `p_to_do[n_to_do] = j`, `p_scan[up] = j`, `p_ready[n_ready] = j1` are inside
   their n-entry arrays as long as the marks are kept (set on every push, compared before it). *)
From Centro Require Proofs.GraphC19Safe.

Theorem marked_list_capacity : forall (n i j : Z) (mark : Z -> Z) (l : list Z),
  0 <= n -> NoDup l -> (forall x, In x l -> 0 <= x < n /\ mark x = i) -> 0 <= j < n -> mark j <> i ->
  zlen l < n /\ NoDup (j :: l).
Proof.
  intros n i j mark l Hn Hnd Hl Hj Hm.
  assert (Nin : ~ In j l) by (intros Hin; apply Hl in Hin; lia).
  assert (Nd : NoDup (j :: l)) by (constructor; assumption).
  split; [|exact Nd].
  assert (Fr : Forall (fun v => 0 <= v < n) (j :: l)).
  { constructor; [assumption|]. apply Forall_forall. intros x Hx. apply Hl in Hx. lia. }
  pose proof (GraphC19Safe.nodup_bound _ n Hn Nd Fr) as B. unfold zlen in *. cbn [length] in B. lia.
Qed.
