(* C10 — the reduced-cost update of compute_shortest_path (line-level model) is a shift by node
   potentials, and it keeps every residual arc non-negative PROVIDED the labels d have the
   Dijkstra post-condition (finalised labels are consistent along residual arcs, the exit node l is
   no farther than any non-finalised node, no finalised node is farther than l).  Arcs that are
   tight for d get reduced cost 0, so the backward arcs created by the augmentation are 0 too. *)
From Coq Require Import ZArith List Bool Lia ZifyBool.
From Centro Require Import Base.Sx Base.EmdBase Model.Emd Model.EmdMcf.
Import ListNotations.
Open Scope Z_scope.

Definition shift (fl : list bool) (dd : list Z) (dl : Z) (v : nat) : Z :=
  if fin fl v then nz dd v - dl else 0.

Theorem rc_update_is_potential_shift fl dd dl fr to rc :
  rc_update fl dd dl fr to rc = rc + shift fl dd dl fr - shift fl dd dl to.
Proof. unfold rc_update, shift. cbv zeta. destruct (fin fl fr), (fin fl to); lia. Qed.

Theorem rc_update_nonneg fl dd l fr to rc :
  0 <= rc ->
  (fin fl fr = true -> fin fl to = true -> nz dd to <= nz dd fr + rc) ->
  (fin fl fr = true -> fin fl to = false -> nz dd l <= nz dd fr + rc) ->
  (fin fl to = true -> nz dd to <= nz dd l) ->
  0 <= rc_update fl dd (nz dd l) fr to rc.
Proof.
  intros R A B C. unfold rc_update. cbv zeta.
  destruct (fin fl fr) eqn:E1; destruct (fin fl to) eqn:E2;
    try specialize (A eq_refl eq_refl); try specialize (B eq_refl eq_refl); try specialize (C eq_refl); lia.
Qed.

Theorem rc_update_tight fl dd dl fr to rc :
  fin fl fr = true -> fin fl to = true -> nz dd to = nz dd fr + rc ->
  rc_update fl dd dl fr to rc = 0 /\ rc_update fl dd dl to fr (- rc) = 0.
Proof. intros E1 E2 T. unfold rc_update. cbv zeta. rewrite E1, E2. lia. Qed.

(* a potential shift does not change the reduced cost of any cycle, and relates the stored reduced
   costs to the true costs: if rc = c + p fr - p to then the updated value is c + p' fr - p' to *)
Corollary rc_update_keeps_potential_form fl dd dl (p : nat -> Z) c fr to rc :
  rc = c + p fr - p to ->
  rc_update fl dd dl fr to rc = c + (p fr + shift fl dd dl fr) - (p to + shift fl dd dl to).
Proof. intros ->. rewrite rc_update_is_potential_shift. lia. Qed.

(* the hypotheses of rc_update_nonneg are satisfiable: nodes 0,1 finalised with d = 0, 3; exit node 1;
   node 2 not finalised; arc 0 -> 1 of reduced cost 3 (tight), arc 0 -> 2 of reduced cost 4 *)
Example rc_update_example :
  rc_update [true; true; false] [0; 3; 9] 3 0 1 3 = 0 /\ rc_update [true; true; false] [0; 3; 9] 3 0 2 4 = 1.
Proof. vm_compute. auto. Qed.
