(* C05 - the deletability (Ronse) lemma in the case that covers binary_shrink's outputs, and the
   resulting completeness of the checker there.
   [ronse_points]: X hole-free, TopoEq X X', every 8-component of X' a single pixel, X' <> X  ==>
   some pixel of X \ X' is simple in X (an END pixel of X other than the one X'-pixel of its
   component: end_pixel_fin with that pixel excluded; end patterns are simple by a 512 sweep).
   [topo_check_complete_points]: for such targets topo_check accepts whenever TopoEq holds.
   [topo_check_accepts_shrink]: for every hole-free image g (any size, any number of objects)
   topo_check g (binary_shrink(-1) g) = true - completeness on the model's own outputs. *)
From Coq Require Import ZArith NArith List Bool Lia.
From Centro Require Import Base.Topo Base.Skel Base.TopoPar Base.TopoSweep Base.TopoGrid Gen.TablesC05.
From Centro Require Import Model.ThinSkel Spec.TopoCheck Proofs.ThinSkelTopo Proofs.ThinSkelIdem Proofs.TopoCounts
  Proofs.TopoSwShrinkEnd Proofs.ShrinkPoint Proofs.EndPixel Proofs.TopoCheckComplete.
Import ListNotations.
Open Scope Z_scope.

Lemma end_is_simple_sweep : forall_bits 9 (fun bits => implb (end_pattern bits) (simple_ok bits)) = true.
Proof. vm_compute. reflexivity. Qed.
Lemma end_is_simple X e : endp X e = true -> simple_ok (pat X e) = true.
Proof.
  intros E. pose proof (forall_bits_spec 9 _ end_is_simple_sweep (pat X e) (pat_length X e)) as H. cbn beta in H.
  unfold endp in E. rewrite E in H. exact H.
Qed.

Definition singletons (X : img) : Prop := forall a b, fg X a -> fg X b -> conn8 X a b -> a = b.

Lemma TopoEq_hole_free_rev X X' : TopoEq X X' -> hole_free X' -> hole_free X.
Proof.
  intros T HF a b Ha Hb. apply (te_bg_iff _ _ T a b Ha Hb). apply HF; apply (sub_bg _ _ T); assumption.
Qed.

Lemma has_nbr_of_path X a b : conn8 X a b -> a <> b -> exists y, adj8 a y /\ X y = true.
Proof.
  intros P N. inversion P as [? ? E1 E2 | ? y ? Fa A Pyb]; subst; [contradiction|].
  exists y. split; [exact A|exact (path_start _ _ _ _ Pyb)].
Qed.

Lemma fin_raster H W g : wf H W g -> forall q, img_of g q = true -> In q (raster H W).
Proof. intros [LH LW] q Vq. apply raster_complete. apply (img_of_frame g H W q LH LW Vq). Qed.

Theorem ronse_points : forall H W g g', wf H W g -> wf H W g' ->
  hole_free (img_of g') -> singletons (img_of g') -> TopoEq (img_of g) (img_of g') ->
  (exists p, img_of g p = true /\ img_of g' p = false) ->
  exists p, img_of g p = true /\ img_of g' p = false /\ simple_ok (pat (img_of g) p) = true.
Proof.
  intros H W g g' Hg Hg' HF SG T [p [Vp Vp']].
  destruct (te_fg_surj _ _ T p Vp) as [a [Ha Pa]].
  assert (Npa : p <> a) by (intros ->; unfold fg in Ha; congruence).
  destruct (end_pixel_fin (length (raster H W)) (img_of g) (raster H W) (le_n _) (fin_raster H W g Hg)
              (TopoEq_hole_free_rev _ _ T HF) p a Vp (has_nbr_of_path _ p a Pa Npa)) as [e [Ve [Ee [Nea Pe]]]].
  exists e. split; [exact Ve|]. split; [|apply end_is_simple; exact Ee].
  destruct (img_of g' e) eqn:Ve'; [|reflexivity]. exfalso. apply Nea. apply SG; [exact Ve'|exact Ha|].
  apply (te_fg_iff _ _ T e a Ve' Ha). eapply path_trans; [apply conn8_sym; exact Pe|exact Pa].
Qed.

Theorem topo_check_complete_points : forall H W g g', wf H W g -> wf H W g' ->
  hole_free (img_of g') -> singletons (img_of g') -> TopoEq (img_of g) (img_of g') ->
  topo_check H W g g' = true.
Proof.
  intros H W g g' Hg Hg' HF SG T. apply topo_check_complete_for; [exact Hg|exact Hg'| |exact T].
  intros g0 Hg0 T0 Ex. apply (ronse_points H W g0 g' Hg0 Hg' HF SG T0 Ex).
Qed.

(* what binary_shrink(-1) returns on a hole-free image: every 8-component is a single pixel *)
Theorem shrink_result_singletons : forall H W g, wf H W g -> hole_free (img_of g) ->
  singletons (img_of (shrink_model H W (-1) g)).
Proof.
  intros H W g Hg HF. set (r := shrink_model H W (-1) g).
  pose proof (shrink_model_topo H W (-1) g Hg) as T. fold r in T.
  assert (Wr : wf H W r) by (unfold r, shrink_model; apply cycle_loop_topo; [apply shrink_tables_admissible|exact Hg]).
  pose proof (shrink_converged H W g Hg) as S. fold r in S.
  intros a b Ha Hb P. destruct (px_eqb_spec a b) as [E|N]; [exact E|]. exfalso.
  destruct (end_pixel_fin (length (raster H W)) (img_of r) (raster H W) (le_n _) (fin_raster H W r Wr)
              (TopoEq_hole_free _ _ T HF) a a Ha (has_nbr_of_path _ a b P N)) as [e [Ve [Ee _]]].
  unfold endp in Ee. rewrite (shrink_stable_no_end H W r Wr S e Ve) in Ee. discriminate.
Qed.

Theorem topo_check_accepts_shrink : forall H W g, wf H W g -> hole_free (img_of g) ->
  topo_check H W g (shrink_model H W (-1) g) = true.
Proof.
  intros H W g Hg HF.
  assert (Wr : wf H W (shrink_model H W (-1) g)) by (unfold shrink_model; apply cycle_loop_topo; [apply shrink_tables_admissible|exact Hg]).
  pose proof (shrink_model_topo H W (-1) g Hg) as T.
  apply topo_check_complete_points; [exact Hg|exact Wr|apply (TopoEq_hole_free _ _ T HF)|apply shrink_result_singletons; assumption|exact T].
Qed.
