(* C13 — the vectorised loop of minimum_enclosing_circle under the invariant that holds for EVERY call:
   an object that is still active (keep_me) has its S0 / S1 among its own rows.  (C14's owner for all
   objects fails initially for objects with fewer than two hull rows; those are never active.)
   The frame, own-write and independence lemmas of C14's CircleVecStep.v are re-established for it. *)
From Coq Require Import ZArith List Bool Lia ZifyBool.
From Centro Require Import Base.Sx Base.VecC13 Proofs.VecC13Proofs Model.Circle Model.CircleVec
  Proofs.CircleVecProofs Proofs.CircleVecStep Model.MecFeretC13 Proofs.MecVecOwnerC13.
Import ListNotations.
Open Scope Z_scope.

Section Inv.
  Variable rows : list (Z * cpt).
  Variable app : list Z.
  Notation agree := (agree app).
  Notation owner := (owner app).

  Definition active (st : vstate) (k : Z) : Prop := nthz (v_keep st) k false = true.
  Definition inv (n : nat) (st : vstate) : Prop :=
    forall k', 0 <= k' < Z.of_nat n -> active st k' -> owner st k'.

  Lemma decide_idle st k : nthz (v_keep st) k false = false -> decide rows app st k = Idle.
  Proof. intros H. unfold decide. rewrite H. reflexivity. Qed.

  (* objects processed in the pass do not disturb an object that is not among them *)
  Lemma pass_frame' st k : forall ks s, 0 <= k -> NoDup ks -> ~ In k ks ->
    (forall k', In k' ks -> 0 <= k' /\ (active st k' -> owner s k')) ->
    agree k (pass rows app st ks s) s.
  Proof.
    induction ks as [|k' t IH]; intros s Pk ND Nin Ow; [apply agree_refl|].
    cbn [pass fold_left]. inversion ND as [|? ? Nk' NDt]; subst.
    destruct (Ow k' (or_introl eq_refl)) as [Pk' Ok'].
    assert (Nkk : k <> k') by (intro; subst; apply Nin; left; reflexivity).
    assert (F : forall k'', 0 <= k'' -> k'' <> k' ->
              agree k'' (apply_action s k' (decide rows app st k')) s).
    { intros k'' P'' N''. destruct (nthz (v_keep st) k' false) eqn:Kp.
      - destruct (Ok' Kp) as [O0 O1]. apply others_frame; try assumption; try lia.
        intros g Hg. apply (move_own rows app st k' g). exact Hg.
      - rewrite (decide_idle st k' Kp). cbn [apply_action]. apply agree_refl. }
    eapply agree_trans; [|apply F; assumption].
    apply IH; try assumption.
    - intro I. apply Nin. right. exact I.
    - intros k'' I''. destruct (Ow k'' (or_intror I'')) as [P'' Q]. split; [exact P''|]. intros Act.
      destruct (Q Act) as [Q0 Q1].
      assert (N'' : k'' <> k') by (intro; subst; contradiction).
      destruct (F k'' P'' N'') as (_ & B & C & _ & _). unfold CircleVecStep.owner. rewrite B, C. split; assumption.
  Qed.

  (* after a pass, object k's entries are those produced by its own write alone *)
  Lemma pass_own' n st k : 0 <= k < Z.of_nat n -> inv n st ->
    agree k (vstep rows app n st) (apply_action st k (decide rows app st k)) /\
    samelen (vstep rows app n st) st.
  Proof.
    intros Rk Ow. rewrite vstep_pass. split; [|apply pass_samelen].
    assert (Ik : In k (zrange 0 n)) by (apply zrange_In; lia).
    apply in_split in Ik. destruct Ik as [pre [post Eks]].
    pose proof (zrange_NoDup n 0) as ND. rewrite Eks in ND.
    assert (Hin : forall k', In k' (pre ++ k :: post) -> 0 <= k' < Z.of_nat n).
    { intros k' I. rewrite <- Eks in I. apply zrange_In in I. lia. }
    rewrite Eks. unfold pass. rewrite fold_left_app. cbn [fold_left].
    fold (pass rows app st pre st). set (s1 := pass rows app st pre st).
    fold (pass rows app st post (apply_action s1 k (decide rows app st k))).
    apply NoDup_remove in ND. destruct ND as [ND Nin].
    destruct (NoDup_app_parts pre post ND) as (NDpre & NDpost & Disj).
    assert (A1 : agree k s1 st).
    { apply pass_frame'; try lia; try assumption.
      - intro I. apply Nin. apply in_or_app. left. exact I.
      - intros k' I. pose proof (Hin k' ltac:(apply in_or_app; left; exact I)). split; [lia|intros Act; apply Ow; [lia|exact Act]]. }
    assert (SL : samelen s1 st) by apply pass_samelen.
    assert (Ow1 : forall k', In k' (k :: post) -> active st k' -> owner s1 k').
    { intros k' I Act. assert (R' : 0 <= k' < Z.of_nat n) by (apply Hin; apply in_or_app; right; exact I).
      assert (Fr : agree k' s1 st).
      { apply pass_frame'; try lia; try assumption.
        - intro I'. destruct I as [<-|I]; [apply Nin; apply in_or_app; left; exact I'|exact (Disj k' I' I)].
        - intros k'' I''. pose proof (Hin k'' ltac:(apply in_or_app; left; exact I'')). split; [lia|intros Act''; apply Ow; [lia|exact Act'']]. }
      destruct Fr as (_ & B & C & _ & _). destruct (Ow k' R' Act) as [Q0 Q1]. unfold CircleVecStep.owner. rewrite B, C. split; assumption. }
    eapply agree_trans.
    - apply pass_frame'; try lia; try assumption.
      + intro I. apply Nin. apply in_or_app. right. exact I.
      + intros k' I. pose proof (Hin k' ltac:(apply in_or_app; right; right; exact I)) as R'. split; [lia|]. intros Act.
        assert (N' : k' <> k) by (intro; subst; apply Nin; apply in_or_app; right; exact I).
        destruct (Ow1 k' (or_intror I) Act) as [Q0 Q1].
        assert (Fr : agree k' (apply_action s1 k (decide rows app st k)) s1).
        { destruct (nthz (v_keep st) k false) eqn:Kp.
          - destruct (Ow1 k (or_introl eq_refl) Kp) as [P0 P1].
            apply others_frame; try assumption; try lia.
            intros g Hg. apply (move_own rows app st k g). exact Hg.
          - rewrite (decide_idle st k Kp). cbn [apply_action]. apply agree_refl. }
        destruct Fr as (_ & B & C & _ & _). unfold CircleVecStep.owner. rewrite B, C. split; assumption.
    - destruct (nthz (v_keep st) k false) eqn:Kp.
      + destruct (Ow1 k (or_introl eq_refl) Kp) as [P0 P1]. apply own_congr; try assumption.
        intros g Hg. apply (move_own rows app st k g). exact Hg.
      + rewrite (decide_idle st k Kp). cbn [apply_action]. exact A1.
  Qed.

  Theorem vstep_independent' n st st' k :
    0 <= k < Z.of_nat n -> samelen st st' -> agree k st st' -> inv n st -> inv n st' ->
    agree k (vstep rows app n st) (vstep rows app n st').
  Proof.
    intros Rk SL Ag Ow Ow'.
    destruct (pass_own' n st k Rk Ow) as [A1 _]. destruct (pass_own' n st' k Rk Ow') as [A2 _].
    eapply agree_trans; [exact A1|]. eapply agree_trans; [|apply agree_sym; exact A2].
    rewrite <- (decide_local rows app k st st' Ag).
    destruct (nthz (v_keep st) k false) eqn:Kp.
    - destruct (Ow k Rk Kp) as [P0 P1]. apply own_congr; try assumption.
      intros g Hg. apply (move_own rows app st k g). exact Hg.
    - rewrite (decide_idle st k Kp). cbn [apply_action]. exact Ag.
  Qed.

  (* an active object after the pass was active before it *)
  Lemma active_before n st k : 0 <= k < Z.of_nat n -> inv n st -> active (vstep rows app n st) k -> active st k.
  Proof.
    intros Rk I A. destruct (pass_own' n st k Rk I) as [(Ek & _) _]. unfold active in *. rewrite Ek in A.
    destruct (decide rows app st k) as [|r|g|g]; cbn [apply_action v_keep] in A; try exact A.
    rewrite nthz_setz in A. rewrite Nat.eqb_refl in A. cbn [andb] in A.
    destruct (Z.to_nat k <? length (v_keep st))%nat; [discriminate|exact A].
  Qed.

  Theorem vstep_inv n st : inv n st -> inv n (vstep rows app n st).
  Proof.
    intros I k Rk A. pose proof (active_before n st k Rk I A) as A0.
    destruct (pass_own' n st k Rk I) as [(_ & E0 & E1 & _) _].
    destruct (apply_owner rows app st k (I k Rk A0)) as [P0 P1].
    unfold CircleVecStep.owner. rewrite E0, E1. split; assumption.
  Qed.

  Lemma vsteps_inv n : forall m st, inv n st -> inv n (vsteps rows app n m st).
  Proof. induction m as [|m IH]; intros st I; cbn [vsteps]; [exact I|]. apply IH. apply vstep_inv. exact I. Qed.

  (* m passes, from the invariant of the initial states alone - which every call satisfies *)
  Theorem passes_independent_inv n k m st st' :
    0 <= k < Z.of_nat n -> samelen st st' -> agree k st st' -> inv n st -> inv n st' ->
    agree k (vsteps rows app n m st) (vsteps rows app n m st').
  Proof.
    revert st st'. induction m as [|m IH]; intros st st' Rk SL Ag I I'; cbn [vsteps]; [exact Ag|].
    apply IH; auto using vstep_inv.
    - eapply samelen_trans; [rewrite vstep_pass; apply pass_samelen|].
      eapply samelen_trans; [exact SL|]. apply samelen_sym. rewrite vstep_pass. apply pass_samelen.
    - apply vstep_independent'; assumption.
  Qed.

  (* a finished object is not touched by a later pass *)
  Lemma idle_frame' n st k : 0 <= k < Z.of_nat n -> inv n st -> ~ active st k -> agree k (vstep rows app n st) st.
  Proof.
    intros Rk I NA. destruct (pass_own' n st k Rk I) as [A _].
    assert (Kp : nthz (v_keep st) k false = false) by (unfold active in NA; destruct (nthz (v_keep st) k false); [contradiction NA; reflexivity|reflexivity]).
    rewrite (decide_idle st k Kp) in A. exact A.
  Qed.
End Inv.

(* every call starts in the invariant *)
Theorem vec_init_inv indexes blocks :
  NoDup indexes -> (forall j, In j indexes -> 0 <= j) -> length indexes = length blocks ->
  let t := vec_init indexes blocks in
  inv (snd (fst t)) (length blocks) (snd t).
Proof.
  intros ND Hnn HL t k Rk Act.
  assert (Hk : (Z.to_nat k < length blocks)%nat) by lia.
  destruct (nth_error blocks (Z.to_nat k)) as [b|] eqn:Eb; [|apply nth_error_None in Eb; lia].
  destruct (nth_error indexes (Z.to_nat k)) as [l|] eqn:El; [|apply nth_error_None in El; lia].
  assert (L2 : (2 <= length b)%nat).
  { unfold active, t, vec_init in Act. cbn [snd v_keep] in Act. unfold nthz in Act.
    assert (E : nth_error (map (fun c => 2 <? c) (map zlenv blocks)) (Z.to_nat k) = Some (2 <? zlenv b))
      by (rewrite !nth_error_map, Eb; reflexivity).
    rewrite (nth_error_nth _ _ false E) in Act. unfold zlenv in Act. lia. }
  pose proof (vec_init_owner indexes blocks (Z.to_nat k) l b ND Hnn HL El Eb L2) as O.
  cbv zeta in O. rewrite Z2Nat.id in O by lia. exact O.
Qed.
