(* C19 round 3 — convex_hull_ijv: under the kernel's own asserts and a repeat-free index list, NO label's
   hull written in place reaches pixidx (the overflow flag of C02's line-level model is false for every
   request), for ALL inputs.  Built on C02's hull_no_overflow (imported) and the buffer-walk lemmas of
   Proofs.HullBatch. *)
From Coq Require Import ZArith List Bool Lia ZifyBool Permutation Sorted.
From Centro Require Import Base.Sx Model.Hull Spec.HullSpec Proofs.HullPerm Proofs.HullBatch Proofs.HullTop
  Proofs.HullCorrect Proofs.HullGuard Model.PreC19.
Import ListNotations.
Open Scope Z_scope.

Section Walk.
  Variables (m ml : Z).

  Lemma walk_no_flag : forall reqs rest pix out,
    sorted_v rest -> StronglySorted Z.lt reqs -> (forall x, In x rest -> r_v x <= ml) -> out <= pix ->
    (forall k, (k < length reqs)%nat -> label_ok m (map r_pt (sel (nth k reqs 0) rest))) ->
    Forall (fun b => snd b = false) (walk m ml reqs rest pix out).
  Proof.
    induction reqs as [|l reqs IH]; intros rest pix out HS HR HM Hop HG; [constructor|].
    assert (HR' : StronglySorted Z.lt reqs) by (inversion HR; assumption).
    assert (Hlt : forall k', (k' < length reqs)%nat -> l < nth k' reqs 0).
    { intros k' Hk'. inversion HR as [|a r0 _ HF]. subst. rewrite Forall_forall in HF.
      apply HF. apply nth_In. exact Hk'. }
    cbn [walk].
    set (rest1 := if l <=? ml then skip_lt l rest else rest).
    assert (P1 : sorted_v rest1 /\ incl rest1 rest /\ (forall l', l <= l' -> sel l' rest1 = sel l' rest)
                 /\ ((forall x, In x rest1 -> l <= r_v x) \/ (forall x, In x rest1 -> r_v x < l))
                 /\ zlen rest1 <= zlen rest).
    { unfold rest1. destruct (l <=? ml) eqn:E.
      - destruct (skip_lt_spec l rest HS) as [A [B [C D]]]. pose proof (skip_lt_len l rest). repeat split; auto.
      - repeat split; auto; try lia. { apply incl_refl. } right. intros x Hx. specialize (HM x Hx). lia. }
    destruct P1 as [S1 [I1 [F1 [B1 Len1]]]].
    assert (HM1 : forall x, In x rest1 -> r_v x <= ml) by (intros x Hx; apply HM; apply I1; exact Hx).
    assert (HG1 : forall k', (k' < length reqs)%nat -> label_ok m (map r_pt (sel (nth k' reqs 0) rest1))).
    { intros k' Hk'. rewrite F1 by (specialize (Hlt k' Hk'); lia). apply (HG (S k')). cbn [length]. lia. }
    set (pix1 := pix + (zlen rest - zlen rest1)). assert (Hp1 : out <= pix1) by (unfold pix1; lia).
    clearbody pix1.
    destruct rest1 as [|r t] eqn:ER.
    - constructor; [reflexivity|]. apply IH; auto.
    - destruct (negb (l =? r_v r)) eqn:EN.
      + constructor; [reflexivity|]. apply IH; auto.
      + assert (B1' : forall x, In x (r :: t) -> l <= r_v x).
        { destruct B1 as [B1|B1]; auto. specialize (B1 r ltac:(left; reflexivity)). lia. }
        destruct (span_eq_spec l (r :: t) S1 B1') as [A [B [C D]]].
        destruct (span_eq l (r :: t)) as [blk rest2]. cbn [fst snd] in A, B, C, D.
        assert (Gblk : label_ok m (map r_pt blk)).
        { rewrite A. rewrite (F1 l) by lia. apply (HG 0%nat). cbn [length]. lia. }
        pose proof (hull_no_overflow m (map r_pt blk) (pix1 - out) Gblk ltac:(lia)) as N.
        assert (Nl : zlen (map r_pt blk) = zlen blk) by (unfold zlen; rewrite map_length; reflexivity).
        constructor.
        * cbn [snd]. lia.
        * assert (HM2 : forall x, In x rest2 -> r_v x <= ml) by (intros x Hx; apply HM1; apply C; exact Hx).
          assert (HG2 : forall k', (k' < length reqs)%nat -> label_ok m (map r_pt (sel (nth k' reqs 0) rest2))).
          { intros k' Hk'. rewrite D by (specialize (Hlt k' Hk'); lia). apply HG1. exact Hk'. }
          apply IH; auto. lia.
  Qed.
End Walk.

Lemma nodupb_NoDup : forall l, nodupb l = true -> NoDup l.
Proof.
  induction l as [|a t IH]; intros H; [constructor|]. cbn [nodupb] in H.
  apply andb_prop in H. destruct H as [Hn Ht]. constructor; [|apply IH; exact Ht].
  intros Hin. apply negb_true_iff in Hn.
  assert (existsb (fun x => x =? a) t = true) by (apply existsb_exists; exists a; split; [assumption|lia]).
  congruence.
Qed.

(* for every buffer the asserts accept and every repeat-free index list: no hull row is written at or
   beyond pixidx, for any requested label *)
Theorem hull_write_bound : forall ijv indexes,
  kernel_pre_hull ijv indexes = true -> snd (convex_hull_ijv ijv indexes) = false.
Proof.
  intros ijv indexes Hp. unfold kernel_pre_hull in Hp.
  apply andb_prop in Hp. destruct Hp as [Hp Hnd]. apply andb_prop in Hp. destruct Hp as [_ Hacc].
  apply nodupb_NoDup in Hnd. unfold kernel_accepts in Hacc. apply andb_prop in Hacc. destruct Hacc as [Hrows _].
  assert (Hnn : forall x, In x ijv -> 0 <= r_i x).
  { intros x Hx. rewrite forallb_forall in Hrows. specialize (Hrows x Hx). lia. }
  unfold convex_hull_ijv. cbn [snd].
  set (sorted := lexsort ijv). set (m := zmax_list (map r_i sorted)). set (ml := zmax_list (map r_v sorted)).
  set (reqs := map (fun k => nth k indexes 0) (argsort indexes)).
  pose proof (walk_no_flag m ml reqs sorted 0 0) as W.
  assert (F : Forall (fun b => snd b = false) (walk m ml reqs sorted 0 0)).
  { apply W.
    - apply lexsort_sorted_v.
    - apply argsort_strict. exact Hnd.
    - intros x Hx. apply zmax_list_ge. apply in_map. exact Hx.
    - lia.
    - intros k _. apply label_ok_sel. exact Hnn. }
  destruct (existsb (fun b => snd b) (walk m ml reqs sorted 0 0)) eqn:E; [|reflexivity].
  apply existsb_exists in E. destruct E as [b [Hb Eb]]. rewrite Forall_forall in F. rewrite (F b Hb) in Eb. discriminate.
Qed.

Example hull_pre_example :
  kernel_pre_hull [((0,0),1); ((0,2),1); ((2,1),1); ((1,1),1); ((5,5),2)] [2; 1] = true.
Proof. vm_compute. reflexivity. Qed.

(* ------------------------------------------------------------------ round 6: the kernel AS WRITTEN.
   CONVEX() evaluates the cross product in a C int.  C02's as-written model hull_label_w (Model.HullW)
   equals the exact one when every coordinate is at most M with M*M < 2^31 (C02_wrap_transfer), i.e.
   M <= 46340; so inside that bound the write bound holds for the compiled arithmetic.  Above it the
   kernel can repeat a vertex and overrun the label's rows (known finding F22). *)
From Centro Require Model.HullW Proofs.HullWrap Props.C02.

Theorem hull_label_write_bound_as_written : forall M m pts slack, M * M < 2147483648 ->
  (forall q, In q pts -> HullWrap.inbox M q) -> label_ok m pts -> 0 <= slack ->
  zlen (HullW.hull_label_w m pts slack) <= slack + zlen pts.
Proof.
  intros M m pts slack HM Hbox Hok Hs.
  rewrite (Centro.Props.C02.C02_wrap_transfer M m pts slack HM Hbox).
  apply hull_no_overflow; assumption.
Qed.

(* round 8: the same at batch level.  The as-written walk models the one-row overwrite an overflowing label
   would cause; inside the bound the whole as-written batch kernel equals the exact one
   (C02_batch_wrap_transfer), so its overflow flag is false for every accepted buffer and index list. *)
Theorem hull_write_bound_as_written : forall M ijv indexes, M * M < 2147483648 ->
  (forall x, In x ijv -> HullWrap.inbox M (r_pt x)) -> kernel_pre_hull ijv indexes = true ->
  snd (HullW.convex_hull_ijv_w ijv indexes) = false.
Proof.
  intros M ijv indexes HM Hbox Hp.
  rewrite (Centro.Props.C02.C02_batch_wrap_transfer M ijv indexes HM Hbox).
  apply hull_write_bound. exact Hp.
Qed.

Example hull_write_bound_as_written_ex :
  let ijv := [((0,0),1); ((0,2),1); ((2,1),1); ((1,1),1); ((5,5),2)] in
  5 * 5 < 2147483648 /\ (forall x, In x ijv -> HullWrap.inbox 5 (r_pt x)) /\ kernel_pre_hull ijv [2; 1] = true.
Proof.
  cbv zeta. split; [lia|]. split; [|vm_compute; reflexivity].
  intros x H; cbn in H; repeat (destruct H as [H|H]; [subst x; unfold HullWrap.inbox; cbn; lia|]); contradiction.
Qed.

(* ------------------------------------------------------------------ round 7 (finding F36): the model-side
   statement.  An index list that lists a label twice — in particular one that repeats the LARGEST
   label, on which the kernel evaluates labels_ijv[pixidx, 2] with pixidx = number of rows — does not
   satisfy kernel_pre_hull: the write-bound theorem never claimed such calls. *)
Lemma nodupb_dup : forall (l : Z) pre mid post, nodupb (pre ++ l :: mid ++ l :: post) = false.
Proof.
  intros l pre mid post. destruct (nodupb (pre ++ l :: mid ++ l :: post)) eqn:E; [|reflexivity].
  apply nodupb_NoDup in E. apply NoDup_remove_2 in E. exfalso. apply E.
  apply in_or_app. right. apply in_or_app. right. left. reflexivity.
Qed.

Theorem hull_pre_rejects_repeated_label : forall ijv (l : Z) pre mid post,
  kernel_pre_hull ijv (pre ++ l :: mid ++ l :: post) = false.
Proof.
  intros. unfold kernel_pre_hull. rewrite nodupb_dup. apply andb_false_r.
Qed.

(* the witness of F36: labels = zeros((8,8)), labels[1,1] = 2, indexes = [2, 2] *)
Example hull_pre_f36_witness : kernel_pre_hull [((1, 1), 2)] [2; 2] = false /\ kernel_pre_hull [((1, 1), 2)] [2] = true.
Proof. vm_compute. split; reflexivity. Qed.
