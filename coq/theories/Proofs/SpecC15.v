(* C15 — declarative meaning of the executable flood-fill specifications of Spec/LabelGraph.v:
   [fill] removes exactly what is reachable, [n_components] counts the classes of the
   connectivity relation (paths inside the set along adj). *)
From Coq Require Import ZArith List Bool Lia.
From Centro Require Import Base.GraphC15 Model.LabelGraph Spec.LabelGraph.
Import ListNotations.

Section Fill.
Context {A : Type}.
Variable adj : A -> A -> bool.
Hypothesis adj_sym : forall x y, adj x y = adj y x.

(* a path inside the vertex list V along adj *)
Inductive cpath (V : list A) : A -> A -> Prop :=
| cp_refl x : In x V -> cpath V x x
| cp_step x y z : In x V -> adj x y = true -> cpath V y z -> cpath V x z.

Lemma cpath_in_l V x y : cpath V x y -> In x V.
Proof. destruct 1; auto. Qed.
Lemma cpath_in_r V x y : cpath V x y -> In y V.
Proof. induction 1; auto. Qed.
Lemma cpath_trans V x y z : cpath V x y -> cpath V y z -> cpath V x z.
Proof. induction 1; auto. intros. econstructor; eauto. Qed.
Lemma cpath_sym V x y : cpath V x y -> cpath V y x.
Proof.
  induction 1 as [x H|x y z Hx Ha Hp IH]; [constructor; auto|].
  eapply cpath_trans; [exact IH|]. econstructor; [eapply cpath_in_l; eauto|rewrite adj_sym; exact Ha|constructor; exact Hx].
Qed.
Lemma cpath_mono V W x y : (forall a, In a V -> In a W) -> cpath V x y -> cpath W x y.
Proof. intros H. induction 1; [constructor; auto|econstructor; eauto]. Qed.
(* a path cannot leave a set that has no edge to the rest of V *)
Lemma cpath_closed V (C : A -> Prop) x y :
  (forall a b, C a -> In b V -> adj a b = true -> C b) -> cpath V x y -> C x -> C y.
Proof.
  intros H P. induction P as [|x y z Hx Ha Hp IH]; auto. intros Cx. apply IH.
  apply (H x y Cx); [eapply cpath_in_l; eauto|exact Ha].
Qed.

Lemma partition_filter (f : A -> bool) l : partition f l = (filter f l, filter (fun x => negb (f x)) l).
Proof.
  induction l as [|a l IH]; [reflexivity|]. cbn [partition filter]. rewrite IH. destruct (f a); reflexivity.
Qed.
Lemma filter_length_split (f : A -> bool) l :
  (length (filter f l) + length (filter (fun x => negb (f x)) l) = length l)%nat.
Proof. induction l as [|a l IH]; [reflexivity|]. cbn [filter]. destruct (f a); cbn [negb length]; lia. Qed.
Lemma filter_nodup (f : A -> bool) l : NoDup l -> NoDup (filter f l).
Proof.
  induction 1 as [|a l Ha ND IH]; cbn [filter]; [constructor|]. destruct (f a); [|exact IH].
  constructor; [|exact IH]. intros H. apply filter_In in H. tauto.
Qed.

(* what [fill] returns: a part of [rest]; what it dropped is reachable from the frontier; and no
   vertex that was done, on the frontier or dropped is adjacent to what remains *)
Lemma fill_spec : forall fuel frontier rest (done : list A),
  (length frontier + length rest <= fuel)%nat ->
  (forall d x, In d done -> In x rest -> adj d x = false) ->
  let r := fill adj fuel frontier rest in
  (forall x, In x r -> In x rest) /\
  (NoDup rest -> NoDup r) /\
  (length r <= length rest)%nat /\
  (forall x, In x rest -> In x r \/ (~ In x r /\ exists f, In f frontier /\ cpath (frontier ++ rest) f x)) /\
  (forall y x, In y done \/ In y frontier \/ (In y rest /\ ~ In y r) -> In x r -> adj y x = false).
Proof.
  induction fuel as [|fuel IH]; intros frontier rest done F D; cbn [fill].
  - assert (frontier = []) by (destruct frontier; [reflexivity|cbn [length] in F; lia]).
    assert (rest = []) by (destruct rest; [reflexivity|cbn [length] in F; lia]). subst.
    split; [auto|split; [auto|split; [cbn; lia|split]]]; [intros x []|intros y x _ []].
  - destruct frontier as [|p fr].
    + split; [auto|split; [auto|split; [lia|split]]]; [intros x Hx; left; exact Hx|].
      intros y x [H|[[]|[Hy H]]] Hx; [apply D; auto|contradiction].
    + rewrite partition_filter.
      set (nb := filter (adj p) rest). set (rest' := filter (fun x => negb (adj p x)) rest).
      assert (L : (length nb + length rest' = length rest)%nat) by apply filter_length_split.
      destruct (IH (fr ++ nb) rest' (p :: done)) as [S1 [S2 [S3 [S4 S5]]]].
      { rewrite app_length. cbn [length] in F. lia. }
      { intros d x [<-|Hd] Hx; apply filter_In in Hx; destruct Hx as [Hx Hn].
        - destruct (adj p x); [discriminate|reflexivity].
        - apply D; auto. }
      set (r := fill adj fuel (fr ++ nb) rest') in *.
      split; [|split; [|split; [|split]]].
      * intros x Hx. apply S1 in Hx. apply filter_In in Hx. tauto.
      * intros ND. apply S2. apply filter_nodup. exact ND.
      * lia.
      * intros x Hx. destruct (adj p x) eqn:Ea.
        -- right. split.
           { intros Hr. apply S1 in Hr. apply filter_In in Hr. destruct Hr as [_ Hr]. rewrite Ea in Hr. discriminate. }
           exists p. split; [left; reflexivity|].
           econstructor; [left; reflexivity|exact Ea|constructor; right; apply in_or_app; right; exact Hx].
        -- assert (Hr : In x rest') by (apply filter_In; rewrite Ea; auto).
           destruct (S4 x Hr) as [H|[Hnr [f [Hf P]]]]; [left; exact H|right; split; [exact Hnr|]].
           assert (M : forall a, In a ((fr ++ nb) ++ rest') -> In a ((p :: fr) ++ rest)).
           { intros a Ha. apply in_app_or in Ha. destruct Ha as [Ha|Ha].
             - apply in_app_or in Ha. destruct Ha as [Ha|Ha]; [right; apply in_or_app; left; exact Ha|].
               apply filter_In in Ha. right. apply in_or_app. right. tauto.
             - apply filter_In in Ha. right. apply in_or_app. right. tauto. }
           apply in_app_or in Hf. destruct Hf as [Hf|Hf].
           ++ exists f. split; [right; exact Hf|]. eapply cpath_mono; [exact M|exact P].
           ++ exists p. split; [left; reflexivity|]. apply filter_In in Hf. destruct Hf as [Hf1 Hf2].
              econstructor; [left; reflexivity|exact Hf2|]. eapply cpath_mono; [exact M|exact P].
      * intros y x Hy Hx. apply S5; [|exact Hx].
        destruct Hy as [Hy|[[<-|Hy]|[Hy Hn]]].
        -- left. right. exact Hy.
        -- left. left. reflexivity.
        -- right. left. apply in_or_app. left. exact Hy.
        -- destruct (adj p y) eqn:Ea.
           ++ right. left. apply in_or_app. right. apply filter_In. auto.
           ++ right. right. split; [apply filter_In; rewrite Ea; auto|exact Hn].
Qed.

(* the representatives chosen by [components] *)
Fixpoint comp_reps (fuel : nat) (s : list A) : list A :=
  match fuel with
  | O => []
  | S f => match s with
           | [] => []
           | p :: rest => p :: comp_reps f (fill adj (S (length rest)) [p] rest)
           end
  end.
Lemma components_reps : forall fuel s, components adj fuel s = Z.of_nat (length (comp_reps fuel s)).
Proof.
  induction fuel as [|fuel IH]; intros s; cbn [components comp_reps]; [reflexivity|].
  destruct s as [|p rest]; [reflexivity|]. rewrite IH. cbn [length]. lia.
Qed.

Lemma comp_reps_spec : forall fuel s, (length s < fuel)%nat -> NoDup s ->
  let reps := comp_reps fuel s in
  (forall r, In r reps -> In r s) /\
  (forall x, In x s -> exists r, In r reps /\ cpath s r x) /\
  NoDup reps /\
  (forall r1 r2, In r1 reps -> In r2 reps -> cpath s r1 r2 -> r1 = r2).
Proof.
  induction fuel as [|fuel IH]; intros s F ND; [lia|]. cbn [comp_reps].
  destruct s as [|p rest]; [repeat split; try (intros ? []); try constructor; intros ? ? []|].
  inversion ND as [|? ? Hp ND']; subst.
  destruct (fill_spec (S (length rest)) [p] rest []) as [S1 [S2 [S3 [S4 S5]]]];
    [cbn [length]; lia|intros d x []|].
  set (rest' := fill adj (S (length rest)) [p] rest) in *.
  destruct (IH rest') as [R1 [R2 [R3 R4]]]; [cbn [length] in F; lia|auto|].
  set (reps' := comp_reps fuel rest') in *.
  (* nothing outside rest' is adjacent to rest' *)
  assert (CL : forall a b, In a rest' -> In b (p :: rest) -> adj a b = true -> In b rest').
  { intros a b Ha Hb E. destruct Hb as [<-|Hb].
    - rewrite adj_sym in E. rewrite (S5 p a) in E; [discriminate| |exact Ha]. right. left. left. reflexivity.
    - destruct (S4 b Hb) as [H|[Hn _]]; [exact H|].
      rewrite adj_sym in E. rewrite (S5 b a) in E; [discriminate| |exact Ha]. right. right. split; assumption. }
  assert (RESTRICT : forall x y, cpath (p :: rest) x y -> In x rest' -> cpath rest' x y /\ In y rest').
  { intros x y P. induction P as [x Hx|x y z Hx Ha Hq IHp]; intros Hr.
    - split; [constructor; exact Hr|exact Hr].
    - assert (Hy : In y rest') by (apply (CL x y Hr); [eapply cpath_in_l; eauto|exact Ha]).
      destruct (IHp Hy) as [P' Hz]. split; [econstructor; eauto|exact Hz]. }
  assert (SUB : forall a, In a rest' -> In a (p :: rest)) by (intros a Ha; right; apply S1; exact Ha).
  split; [|split; [|split]].
  - intros r [<-|Hr]; [left; reflexivity|]. apply SUB. apply R1. exact Hr.
  - intros x [<-|Hx].
    + exists p. split; [left; reflexivity|constructor; left; reflexivity].
    + destruct (S4 x Hx) as [H|[_ [f [Hf P]]]].
      * destruct (R2 x H) as [r [Hr Pr]]. exists r. split; [right; exact Hr|]. eapply cpath_mono; [exact SUB|exact Pr].
      * destruct Hf as [E|[]]. subst f. exists p. split; [left; reflexivity|exact P].
  - constructor; [|exact R3]. intros H. apply R1 in H. apply S1 in H. contradiction.
  - intros r1 r2 [E1|H1] [E2|H2] P.
    + congruence.
    + exfalso. apply cpath_sym in P. destruct (RESTRICT r2 r1 P (R1 _ H2)) as [_ H]. rewrite <- E1 in H. apply S1 in H. contradiction.
    + exfalso. destruct (RESTRICT r1 r2 P (R1 _ H1)) as [_ H]. rewrite <- E2 in H. apply S1 in H. contradiction.
    + apply R4; auto. apply (RESTRICT r1 r2 P (R1 _ H1)).
Qed.

(* n_components counts the classes of the connectivity relation of the set: there is a list of
   representatives, one in each class, and its length is the number returned *)
Theorem n_components_spec (s : list A) : NoDup s -> exists reps : list A,
  n_components adj s = Z.of_nat (length reps) /\ NoDup reps /\
  (forall r, In r reps -> In r s) /\
  (forall x, In x s -> exists r, In r reps /\ cpath s r x) /\
  (forall r1 r2, In r1 reps -> In r2 reps -> cpath s r1 r2 -> r1 = r2).
Proof.
  intros ND. exists (comp_reps (S (length s)) s). unfold n_components.
  destruct (comp_reps_spec (S (length s)) s ltac:(lia) ND) as [A1 [A2 [A3 A4]]].
  split; [apply components_reps|]. repeat split; assumption.
Qed.
End Fill.

(* ================================================================ the checkers, declaratively *)
From Coq Require Import ZifyBool.
From Centro Require Import Proofs.RelabelC15 Proofs.AccC15 Proofs.NeighborsC15.
Open Scope Z_scope.

Lemma adj8_sym p q : adj8 p q = adj8 q p.
Proof. unfold adj8, px_eqb. destruct p, q; cbn [fst snd]. lia. Qed.
Lemma adj4_sym p q : adj4 p q = adj4 q p.
Proof. unfold adj4. destruct p, q; cbn [fst snd]. lia. Qed.

Lemma zrange_nodup n : forall s, NoDup (zrange s n).
Proof. induction n as [|n IH]; intros s; cbn [zrange]; constructor; auto. rewrite zrange_in. lia. Qed.

Lemma nodup_app {A} (l1 l2 : list A) : NoDup l1 -> NoDup l2 -> (forall x, In x l1 -> ~ In x l2) -> NoDup (l1 ++ l2).
Proof.
  induction 1 as [|a l Ha ND IH]; intros N2 D; cbn [app]; [exact N2|].
  constructor; [|apply IH; auto; intros x Hx; apply D; right; exact Hx].
  intros H. apply in_app_or in H. destruct H as [H|H]; [contradiction|]. apply (D a); [left; reflexivity|exact H].
Qed.
Lemma nodup_map_inj {A B} (f : A -> B) l : (forall x y, f x = f y -> x = y) -> NoDup l -> NoDup (map f l).
Proof.
  intros Inj. induction 1 as [|a l Ha ND IH]; cbn [map]; constructor; auto.
  intros H. apply in_map_iff in H. destruct H as [x [E Hx]]. apply Inj in E. subst. contradiction.
Qed.
Lemma positions_nodup h w : NoDup (positions h w).
Proof.
  unfold positions. generalize (zrange_nodup h 0). generalize (zrange 0 h) as ys.
  induction ys as [|y ys IH]; intros ND; cbn [flat_map]; [constructor|]. inversion ND as [|? ? Hy ND']; subst.
  apply nodup_app; [|apply IH; exact ND'|].
  - apply nodup_map_inj; [intros a b E; inversion E; reflexivity|apply zrange_nodup].
  - intros p Hp Hq. apply in_map_iff in Hp. destruct Hp as [x [<- _]].
    apply in_flat_map in Hq. destruct Hq as [y' [Hy' Hq]]. apply in_map_iff in Hq. destruct Hq as [x' [E _]].
    inversion E; subst. contradiction.
Qed.
Lemma pixels_of_nodup img l : NoDup (pixels_of img l).
Proof. unfold pixels_of. apply filter_nodup. apply positions_nodup. Qed.
Lemma complement_of_nodup img l : NoDup (complement_of img l).
Proof.
  unfold complement_of. apply filter_nodup. apply nodup_map_inj; [|apply positions_nodup].
  intros [a b] [c d] E. cbn [fst snd] in E. inversion E. f_equal; lia.
Qed.

(* euler_spec = (number of 8-connectivity classes of the label's pixels) - (number of
   4-connectivity classes of its complement in the image grown by one pixel, minus the outer one) *)
Theorem euler_spec_meaning (img : image) (l : Z) : l <> 0 -> exists fg bg : list px,
  euler_spec img l = Z.of_nat (length fg) - (Z.of_nat (length bg) - 1) /\
  (NoDup fg /\ (forall r, In r fg -> In r (pixels_of img l)) /\
   (forall p, In p (pixels_of img l) -> exists r, In r fg /\ cpath adj8 (pixels_of img l) r p) /\
   (forall r1 r2, In r1 fg -> In r2 fg -> cpath adj8 (pixels_of img l) r1 r2 -> r1 = r2)) /\
  (NoDup bg /\ (forall r, In r bg -> In r (complement_of img l)) /\
   (forall p, In p (complement_of img l) -> exists r, In r bg /\ cpath adj4 (complement_of img l) r p) /\
   (forall r1 r2, In r1 bg -> In r2 bg -> cpath adj4 (complement_of img l) r1 r2 -> r1 = r2)).
Proof.
  intros Hl. destruct (n_components_spec adj8 adj8_sym _ (pixels_of_nodup img l)) as [fg [E1 P1]].
  destruct (n_components_spec adj4 adj4_sym _ (complement_of_nodup img l)) as [bg [E2 P2]].
  exists fg, bg. unfold euler_spec. destruct (Z.eqb_spec l 0); [congruence|]. rewrite E1, E2. auto.
Qed.

Theorem euler_ok_sound img idx w4 : euler_ok img idx w4 = true ->
  length idx = length w4 /\ forall k, (k < length idx)%nat -> nth k w4 0 = 4 * euler_spec img (nth k idx 0).
Proof.
  unfold euler_ok. intros H. apply andb_true_iff in H. destruct H as [L F]. apply Nat.eqb_eq in L.
  split; [exact L|]. intros k Hk. rewrite forallb_forall in F.
  assert (Hin : In (nth k idx 0, nth k w4 0) (combine idx w4)).
  { rewrite <- combine_nth by exact L. apply nth_In. rewrite combine_length. lia. }
  specialize (F _ Hin). cbn [fst snd] in F. lia.
Qed.

(* find_neighbors checker *)
Lemma pixel_table_filter img l :
  map fst (filter (fun q : px * Z => snd q =? l) (pixel_table img)) = pixels_of img l.
Proof.
  unfold pixel_table, pixels_of. induction (positions (img_h img) (img_w img)) as [|p ps IH]; [reflexivity|].
  cbn [map filter snd]. destruct (get2 img (fst p) (snd p) =? l); cbn [map fst]; rewrite IH; reflexivity.
Qed.
Lemma neighbors_spec_tab_eq img l : neighbors_spec_tab (pixel_table img) img l = neighbors_spec img l.
Proof. unfold neighbors_spec_tab, neighbors_spec. rewrite pixel_table_filter. reflexivity. Qed.
Lemma neighbors_spec_in img l m : rect img -> l <> 0 ->
  (In m (neighbors_spec img l) <-> m <> 0 /\ m <> l /\ touching img l m).
Proof.
  intros R Hl. unfold neighbors_spec. rewrite zunique_in, filter_In, in_flat_map. split.
  - intros [[p [Hp Hm]] Hf]. apply in_map_iff in Hm. destruct Hm as [d [E Hd]].
    unfold pixels_of in Hp. apply filter_In in Hp. destruct Hp as [_ Hp].
    split; [lia|]. split; [lia|]. exists (fst p), (snd p), d. split; [exact Hd|]. split; [lia|exact E].
  - intros [H0 [H1 [y [x [d [Hd [E1 E2]]]]]]]. split; [|lia].
    exists (y, x). split.
    + unfold pixels_of. apply filter_In. cbn [fst snd]. split; [|lia]. apply positions_in.
      apply (get2_inside img y x R). lia.
    + cbn [fst snd]. apply in_map_iff. exists d. split; [exact E2|exact Hd].
Qed.
Lemma list_eqb_eq a : forall b, list_eqb a b = true -> a = b.
Proof. induction a as [|x a IH]; intros [|y b] H; cbn [list_eqb] in H; try discriminate; [reflexivity|].
  apply andb_true_iff in H. destruct H as [E H]. apply Z.eqb_eq in E. subst. f_equal. auto. Qed.
Theorem neighbors_ok_sound img v_count v_index v_neighbor : rect img ->
  neighbors_ok img v_count v_index v_neighbor = true ->
  Z.of_nat (length v_count) = img_max img /\ v_index = excl_cumsum 0 v_count /\
  forall l, 1 <= l <= img_max img ->
    forall m, In m (slice (nth (Z.to_nat (l - 1)) v_index 0) (nth (Z.to_nat (l - 1)) v_count 0) v_neighbor) <->
              m <> 0 /\ m <> l /\ touching img l m.
Proof.
  intros R H. unfold neighbors_ok in H. apply andb_true_iff in H. destruct H as [H F].
  apply andb_true_iff in H. destruct H as [H _]. apply andb_true_iff in H. destruct H as [L I].
  apply Z.eqb_eq in L. apply list_eqb_eq in I. split; [exact L|]. split; [exact I|].
  intros l Hl m. rewrite forallb_forall in F.
  set (k := Z.to_nat (l - 1)).
  assert (LI : length v_index = length v_count) by (rewrite I; apply zexcl_cumsum_length).
  assert (Hin : In (nth k v_count 0, nth k v_index 0, l) (combine (combine v_count v_index) (zrange 1 (Z.to_nat (img_max img))))).
  { replace l with (nth k (zrange 1 (Z.to_nat (img_max img))) 0).
    2:{ rewrite <- (map_id (zrange 1 (Z.to_nat (img_max img)))). rewrite (nth_map_zrange (fun z => z)) by lia. lia. }
    rewrite <- (combine_nth v_count v_index k 0 0) by lia.
    rewrite <- combine_nth by (rewrite combine_length, zrange_length; lia).
    apply nth_In. rewrite !combine_length, zrange_length. lia. }
  specialize (F _ Hin). cbn [fst snd] in F. apply list_eqb_eq in F. rewrite F, neighbors_spec_tab_eq.
  apply neighbors_spec_in; [exact R|lia].
Qed.

(* color_labels checker *)
Theorem colors_ok_sound img col : colors_ok img col = true ->
  forall y x, 0 <= y < Z.of_nat (img_h img) -> 0 <= x < Z.of_nat (img_w img) ->
    (get2 img y x = 0 -> get2 col y x = 0) /\ (get2 img y x <> 0 -> 0 < get2 col y x) /\
    (forall y' x', 0 <= y' < Z.of_nat (img_h img) -> 0 <= x' < Z.of_nat (img_w img) ->
       get2 img y x = get2 img y' x' -> get2 col y x = get2 col y' x') /\
    (forall d, In d dirs8 -> get2 img y x <> 0 -> get2 img (y + fst d) (x + snd d) <> 0 ->
       get2 img y x <> get2 img (y + fst d) (x + snd d) -> get2 col y x <> get2 col (y + fst d) (x + snd d)).
Proof.
  unfold colors_ok. intros H y x Hy Hx.
  apply andb_true_iff in H. destruct H as [H C3]. apply andb_true_iff in H. destruct H as [H C2].
  apply andb_true_iff in H. destruct H as [_ C1].
  rewrite forallb_forall in C1, C2, C3.
  assert (P : In (y, x) (positions (img_h img) (img_w img))) by (apply positions_in; lia).
  specialize (C1 _ P). specialize (C2 _ P). specialize (C3 _ P). cbn [fst snd] in *.
  split; [intros E; rewrite E in C1; cbn in C1; lia|]. split; [intros E; destruct (Z.eqb_spec (get2 img y x) 0); [congruence|lia]|].
  split.
  - intros y' x' Hy' Hx' E. rewrite forallb_forall in C2.
    specialize (C2 (y', x') ltac:(apply positions_in; lia)). cbn [fst snd] in C2. lia.
  - intros d Hd A B C. rewrite forallb_forall in C3. specialize (C3 d Hd). cbn [fst snd] in C3. lia.
Qed.

(* relabel checker *)
Definition rl_pairs (img new : image) : list (Z * Z) := combine (concat img) (concat new).
Theorem relabel_ok_sound img new n : relabel_ok img new n = true ->
  (forall p, In p (rl_pairs img new) -> (fst p = 0 -> snd p = 0) /\ (fst p <> 0 -> 1 <= snd p <= n)) /\
  (forall p q, In p (rl_pairs img new) -> In q (rl_pairs img new) -> fst p <> 0 -> fst q <> 0 -> (fst p < fst q <-> snd p < snd q)) /\
  (forall k, 1 <= k <= n -> In k (concat new)).
Proof.
  unfold relabel_ok, rl_pairs. intros H. cbv zeta in H.
  apply andb_true_iff in H. destruct H as [H C3]. apply andb_true_iff in H. destruct H as [H C2].
  apply andb_true_iff in H. destruct H as [_ C1].
  rewrite forallb_forall in C1, C2, C3. split; [|split].
  - intros p Hp. specialize (C1 p Hp). destruct (Z.eqb_spec (fst p) 0); lia.
  - intros p q Hp Hq Np Nq. specialize (C2 p Hp). rewrite forallb_forall in C2. specialize (C2 q Hq).
    destruct (Z.ltb_spec (fst p) (fst q)), (Z.ltb_spec (snd p) (snd q)); cbn in C2; lia.
  - intros k Hk. specialize (C3 k ltac:(apply zrange_in; lia)). apply existsb_exists in C3.
    destruct C3 as [v [Hv E]]. apply Z.eqb_eq in E. subst. exact Hv.
Qed.
