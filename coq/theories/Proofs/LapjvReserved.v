(* C01 — (a) spec-level half of optimality for inputs with single-candidate rows: if the block of reserved (-inf priced)
   columns is forced in every perfect matching and the remaining (live) part carries finite duals that are feasible on
   live columns and tight on x, then x is optimal.  (b) "always returns" is false for the model as defined when the retry
   decision has eps 0: a kernel-evaluated well-formed input with a perfect matching on which augmenting row reduction runs
   into a price war longer than the model's fuel. *)
From Coq Require Import ZArith List Bool Lia Permutation Arith.
From Centro Require Import Base.Sx Model.Lapjv Spec.Lapjv Proofs.LapjvCert Proofs.LapjvHall Proofs.LapjvRefute.
Import ListNotations.
Open Scope Z_scope.

Section Along.
Variables (n : nat) (tri : list triple) (u v : nat -> Z).

(* weak duality needs dual feasibility only along the competing matching *)
Theorem cert_optimal_along x sigma : PM n tri x -> slack n tri u v x -> PM n tri sigma ->
  (forall i, (i < n)%nat -> 0 <= costz tri i (col sigma i) - u i - v (col sigma i)) ->
  total n tri x <= total n tri sigma.
Proof.
  intros [Px _] SL [Ps _] F.
  rewrite (total_decomp n tri u v x Px), (total_decomp n tri u v sigma Ps).
  rewrite (zsum_map_zero _ (seq 0 n)) by (intros i Hi; apply SL; apply in_seq in Hi; lia).
  assert (0 <= zsum (map (fun i => costz tri i (col sigma i) - u i - v (col sigma i)) (seq 0 n))); [|lia].
  apply zsum_map_nonneg. intros i Hi. apply in_seq in Hi. apply F. lia.
Qed.
End Along.

Theorem optimal_with_reserved n tri x (dead : nat -> bool) (u v : nat -> Z) :
  PM n tri x ->
  (* the reserved block is forced *)
  (forall sigma, PM n tri sigma -> forall i, (i < n)%nat -> dead (col x i) = true -> col sigma i = col x i) ->
  (* finite duals on the live part: feasible on live columns for live rows, tight on x *)
  (forall i j z, (i < n)%nat -> cost tri i j = Some z -> dead (col x i) = false -> dead j = false -> 0 <= z - u i - v j) ->
  (forall i, (i < n)%nat -> dead (col x i) = false -> costz tri i (col x i) - u i - v (col x i) = 0) ->
  Optimal n tri x.
Proof.
  intros PMx Forced Feas Tight. split; auto. intros sigma PMs.
  set (u' := fun i => if dead (col x i) then costz tri i (col x i) else u i).
  set (w := fun j => if dead j then 0 else v j).
  apply (cert_optimal_along n tri u' w x sigma PMx); auto.
  - intros i Hi. unfold u', w. destruct (dead (col x i)) eqn:E; [lia|]. apply Tight; auto.
  - intros i Hi. unfold u', w. destruct (dead (col x i)) eqn:E.
    + rewrite (Forced sigma PMs i Hi E), E. lia.
    + (* a live row cannot use a reserved column: that column's row is forced onto it *)
      destruct (dead (col sigma i)) eqn:Es.
      * exfalso. destruct PMx as [Px Lx]. 
        assert (Lenx : length x = n) by (rewrite (Permutation_length Px); apply seq_length).
        assert (Hin : In (col sigma i) x).
        { apply (Permutation_in _ (Permutation_sym Px)). apply in_seq. destruct PMs as [Ps _].
          assert (In (col sigma i) sigma) by (unfold col; apply nth_In; rewrite (Permutation_length Ps), seq_length; auto).
          apply (Permutation_in _ Ps) in H. apply in_seq in H. lia. }
        apply (In_nth _ _ 0%nat) in Hin. destruct Hin as [i' [Hi' Ei']]. rewrite Lenx in Hi'.
        assert (Ed : dead (col x i') = true) by (unfold col; rewrite Ei'; exact Es).
        pose proof (Forced sigma PMs i' Hi' Ed) as Ef. unfold col in Ef at 2. rewrite Ei' in Ef.
        assert (i' = i) by (eapply (pm_injective n tri sigma); eauto). subst i'. congruence.
      * destruct PMs as [_ Ls]. specialize (Ls i Hi). unfold costz. destruct (cost tri i (col sigma i)) as [z|] eqn:Ec; [|congruence].
        apply (Feas i (col sigma i) z Hi Ec E Es).
Qed.

(* two rows: row 0 lists only column 0 (reserved, forced), row 1 lists both *)
Example reserved_example :
  Optimal 2 [T 0 0 3; T 1 0 1; T 1 1 2] [0; 1]%nat.
Proof.
  apply (optimal_with_reserved 2 _ [0; 1]%nat (fun j => Nat.eqb j 0) (fun _ => 0) (fun _ => 2)).
  - apply (pm_ok_sound 2 _ [0; 1]%nat [0; 1]%nat). vm_compute. reflexivity.
  - intros sigma [Ps Ls] i Hi E. destruct i as [|[|i]]; [|cbn in E; discriminate|lia].
    specialize (Ls 0%nat Hi). cbn [col nth]. destruct (col sigma 0) as [|k]; [reflexivity|]. exfalso. apply Ls. reflexivity.
  - intros i j z Hi Ec E Ej. destruct i as [|[|i]]; [cbn in E; discriminate| |lia].
    destruct j as [|[|j]]; [cbn in Ej; discriminate| |cbn in Ec; discriminate]. cbn in Ec. inversion Ec. lia.
  - intros i Hi E. destruct i as [|[|i]]; [cbn in E; discriminate| |lia]. vm_compute. reflexivity.
Qed.

(* ---------------------------------------------------------------- "always returns" fails for (Fixed, 0, 0) with the model's fuel *)

Definition war_tri : list triple :=
  [T 0 2 2147483656; T 3 3 1073741832; T 2 0 1073741836; T 0 3 1073741828; T 1 1 4; T 2 2 2147483652; T 1 0 12;
   T 2 3 1073741832; T 2 1 1073741836; T 3 0 2147483656; T 3 2 2147483648; T 1 3 2147483648; T 1 2 2147483648;
   T 3 1 1073741832; T 0 1 2147483652; T 0 0 2147483648].

Theorem lapjv_fixed_eps0_not_total :
  exists n tri k, wf n tri /\ has_PM n tri /\ lapjv Fixed 0 0 k n tri = None.
Proof.
  exists 4%nat, war_tri, 2%nat. split; [vm_compute; reflexivity|]. split.
  - apply (wf_has_pm_by _ _ [0; 1; 2; 3]%nat [0; 1; 2; 3]%nat). vm_compute. reflexivity.
  - vm_compute. reflexivity.
Qed.
