(* C12 — locality of the reference models of Model/MaskRef.v: a finite-footprint correlate / binary erosion /
   binary dilation / grey erosion / grey dilation reads its argument only at p + d, d in the footprint, hence within
   the footprint's Chebyshev extent of p — also on finite arrays with SciPy's `constant` and `reflect` borders; a
   truthy binary erosion guarantees its footprint.  These are the facts the locality table of the C12 translator
   assumes of scipy.ndimage (Loc r for a kxk convolve, Erode 1 for the 3x3 binary_erosion with border_value=0). *)
From Coq Require Import ZArith List Bool Lia ZifyBool.
From Centro Require Import Model.MaskFlow Model.MaskRef.
Import ListNotations.
Open Scope Z_scope.

Lemma dist_padd p d : dist p (padd p d) = dist (0, 0) d.
Proof. unfold dist, padd; cbn [fst snd]. lia. Qed.
Lemma in_extent d ds : In d ds -> dist (0, 0) d <= extent ds.
Proof.
  induction ds as [|x ds IH]; intros Hin; [destruct Hin|]. cbn [extent fold_right]. destruct Hin as [->|H]; [lia|].
  specialize (IH H). unfold extent in IH. lia.
Qed.
Lemma extent_nonneg ds : 0 <= extent ds.
Proof. induction ds; cbn [extent fold_right]; [lia|]. unfold extent in IHds. lia. Qed.

(* ---- footprint-level locality (the form of interp.locs_local) *)
Theorem correlate_reads_footprint k a b p :
  (forall dw, In dw k -> a (padd p (fst dw)) = b (padd p (fst dw))) -> ref_correlate k a p = ref_correlate k b p.
Proof. intros H. unfold ref_correlate. f_equal. apply map_ext_in. intros dw Hd. rewrite (H dw Hd). reflexivity. Qed.

Lemma forallb_ext_in' {A} (f g : A -> bool) l : (forall x, In x l -> f x = g x) -> forallb f l = forallb g l.
Proof. induction l; cbn; intros H; auto. rewrite H, IHl; auto. Qed.
Lemma existsb_ext_in' {A} (f g : A -> bool) l : (forall x, In x l -> f x = g x) -> existsb f l = existsb g l.
Proof. induction l; cbn; intros H; auto. rewrite H, IHl; auto. Qed.

Theorem binary_erosion_reads_footprint fp a b p :
  (forall d, In d fp -> a (padd p d) = b (padd p d)) -> ref_binary_erosion fp a p = ref_binary_erosion fp b p.
Proof. intros H. unfold ref_binary_erosion. rewrite (forallb_ext_in' _ (fun d => negb (b (padd p d) =? 0))); auto. intros d Hd. rewrite H; auto. Qed.
Theorem binary_dilation_reads_footprint fp a b p :
  (forall d, In d fp -> a (padd p d) = b (padd p d)) -> ref_binary_dilation fp a p = ref_binary_dilation fp b p.
Proof. intros H. unfold ref_binary_dilation. rewrite (existsb_ext_in' _ (fun d => negb (b (padd p d) =? 0))); auto. intros d Hd. rewrite H; auto. Qed.
Theorem grey_erosion_reads_footprint d0 fp a b p :
  (forall d, In d (d0 :: fp) -> a (padd p d) = b (padd p d)) -> ref_grey_erosion d0 fp a p = ref_grey_erosion d0 fp b p.
Proof.
  intros H. unfold ref_grey_erosion. induction fp as [|d fp IH]; cbn [fold_right].
  - apply H. left; auto.
  - rewrite IH, (H d); auto. right; left; auto. intros x [->|Hx]; apply H; [left|right; right]; auto.
Qed.
Theorem grey_dilation_reads_footprint d0 fp a b p :
  (forall d, In d (d0 :: fp) -> a (padd p d) = b (padd p d)) -> ref_grey_dilation d0 fp a p = ref_grey_dilation d0 fp b p.
Proof.
  intros H. unfold ref_grey_dilation. induction fp as [|d fp IH]; cbn [fold_right].
  - apply H. left; auto.
  - rewrite IH, (H d); auto. right; left; auto. intros x [->|Hx]; apply H; [left|right; right]; auto.
Qed.

(* a truthy binary erosion guarantees every pixel of its footprint (the form of interp.erode_guarantee) *)
Theorem binary_erosion_guarantee fp a p :
  ref_binary_erosion fp a p <> 0 -> forall d, In d fp -> a (padd p d) <> 0.
Proof.
  unfold ref_binary_erosion. destruct (forallb _ fp) eqn:F; [|intros H; exfalso; apply H; reflexivity].
  intros _ d Hd. rewrite forallb_forall in F. specialize (F d Hd). lia.
Qed.

(* ---- radius-level locality (the form of interp.loc_local / erode_local): radius = extent of the footprint *)
Theorem correlate_radius_is_extent k a b p :
  (forall q, dist p q <= extent (map fst k) -> a q = b q) -> ref_correlate k a p = ref_correlate k b p.
Proof.
  intros H. apply correlate_reads_footprint. intros dw Hd. apply H. rewrite dist_padd.
  apply in_extent. apply in_map; auto.
Qed.
Theorem binary_erosion_radius_is_extent fp a b p :
  (forall q, dist p q <= extent fp -> a q = b q) -> ref_binary_erosion fp a p = ref_binary_erosion fp b p.
Proof. intros H. apply binary_erosion_reads_footprint. intros d Hd. apply H. rewrite dist_padd. apply in_extent; auto. Qed.
Theorem binary_dilation_radius_is_extent fp a b p :
  (forall q, dist p q <= extent fp -> a q = b q) -> ref_binary_dilation fp a p = ref_binary_dilation fp b p.
Proof. intros H. apply binary_dilation_reads_footprint. intros d Hd. apply H. rewrite dist_padd. apply in_extent; auto. Qed.
Theorem grey_erosion_radius_is_extent d0 fp a b p :
  (forall q, dist p q <= extent (d0 :: fp) -> a q = b q) -> ref_grey_erosion d0 fp a p = ref_grey_erosion d0 fp b p.
Proof. intros H. apply grey_erosion_reads_footprint. intros d Hd. apply H. rewrite dist_padd. apply in_extent; auto. Qed.
Theorem grey_dilation_radius_is_extent d0 fp a b p :
  (forall q, dist p q <= extent (d0 :: fp) -> a q = b q) -> ref_grey_dilation d0 fp a p = ref_grey_dilation d0 fp b p.
Proof. intros H. apply grey_dilation_reads_footprint. intros d Hd. apply H. rewrite dist_padd. apply in_extent; auto. Qed.

(* ---- finite arrays: the border extensions preserve "agreement within r of p" (array pixels only) *)
Definition agree_near (H W : Z) (f g : px -> Z) (p : px) (r : Z) : Prop :=
  forall q, inside H W q = true -> dist p q <= r -> f q = g q.

Theorem ext_const_near c H W f g p r : agree_near H W f g p r ->
  forall q, dist p q <= r -> ext_const c H W f q = ext_const c H W g q.
Proof. intros A q Hq. unfold ext_const. destruct (inside H W q) eqn:E; auto. Qed.

Lemma refl_near n i p : 0 <= p < n -> - n <= i < 2 * n -> 0 <= refl n i < n /\ Z.abs (refl n i - p) <= Z.abs (i - p).
Proof.
  intros Hp Hi. unfold refl.
  destruct ((0 <=? i) && (i <? n)) eqn:E1; [lia|].
  destruct ((- n <=? i) && (i <? 0)) eqn:E2; [lia|].
  destruct ((n <=? i) && (i <? 2 * n)) eqn:E3; [lia|]. lia.
Qed.

Theorem ext_reflect_near H W f g p r : inside H W p = true -> r <= H -> r <= W -> agree_near H W f g p r ->
  forall q, dist p q <= r -> ext_reflect H W f q = ext_reflect H W g q.
Proof.
  intros Hin HH HW A q Hq. unfold ext_reflect. unfold inside in Hin. unfold dist in Hq.
  destruct p as [p1 p2], q as [q1 q2]; cbn [fst snd] in *.
  destruct (refl_near H q1 p1) as [B1 N1]; [lia|lia|].
  destruct (refl_near W q2 p2) as [B2 N2]; [lia|lia|].
  apply A.
  - unfold inside; cbn [fst snd]. lia.
  - unfold dist; cbn [fst snd]. lia.
Qed.

(* the array-level statement for the operation the table gives a radius to: a correlate/convolve of a finite array
   with SciPy's constant or reflect border reads only array pixels within the kernel's extent of p *)
Theorem correlate_array_radius_is_extent k mode c H W f g p :
  inside H W p = true -> extent (map fst k) <= H -> extent (map fst k) <= W ->
  agree_near H W f g p (extent (map fst k)) ->
  let ex := fun h => if mode =? 0 then ext_const c H W h else ext_reflect H W h in
  ref_correlate k (ex f) p = ref_correlate k (ex g) p.
Proof.
  intros Hin HH HW A ex. apply correlate_radius_is_extent. intros q Hq. unfold ex.
  destruct (mode =? 0); [apply (ext_const_near c H W f g p _ A q Hq)|apply (ext_reflect_near H W f g p _ Hin HH HW A q Hq)].
Qed.

(* binary_erosion(mask, footprint, border_value=0) on a finite array: local, and truthy only where every footprint
   pixel is an ARRAY pixel that is set (beyond the border counts as unset) — the declared behaviour of [Erode] *)
Theorem binary_erosion_array_guarantee fp H W f p :
  ref_binary_erosion fp (ext_const 0 H W f) p <> 0 ->
  forall d, In d fp -> inside H W (padd p d) = true /\ f (padd p d) <> 0.
Proof.
  intros T d Hd. pose proof (binary_erosion_guarantee fp _ p T d Hd) as G. unfold ext_const in G.
  destruct (inside H W (padd p d)); [auto|]. exfalso; apply G; reflexivity.
Qed.

(* the 3x3 kernels / structure of the code have extent 1 *)
Example extent_3x3 : extent (window 1) = 1.
Proof. reflexivity. Qed.
(* hypotheses are satisfiable, the models compute: a 3x3 Sobel row on a 3x3 array, reflect border *)
Example correlate_ex :
  ref_correlate [((-1, 0), 1); ((1, 0), -1)] (ext_reflect 3 3 (gget [[1; 2; 3]; [4; 5; 6]; [7; 8; 10]])) (0, 2) = -3.
Proof. reflexivity. Qed.
