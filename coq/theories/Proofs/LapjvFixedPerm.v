(* C01 — lapjv_fixed_perm: for the (Fixed, eps 0 at :202, any eps >= 0 at :208) model, on every well-formed input with a
   perfect matching, whenever lapjv() returns, x and y are mutually inverse permutations of 0..n-1 - the structural half of
   lapjv_fixed_cert (the dual half needs the distance invariant of augment, not proved). *)
From Coq Require Import ZArith List Bool Lia Arith.
From Centro Require Import Base.Sx Model.Lapjv Spec.Lapjv Proofs.LapjvCert Proofs.LapjvPhases Proofs.LapjvArr Proofs.LapjvRows
  Proofs.LapjvRt Proofs.LapjvHall Proofs.LapjvArrExt Proofs.LapjvExtModel Proofs.LapjvAugMarks Proofs.LapjvAugFlip
  Proofs.LapjvAugPred Proofs.LapjvAugRows Proofs.LapjvPerm.
Import ListNotations.
Open Scope Z_scope.

Theorem lapjv_fixed_perm n tri :
  (forall t, In t tri -> (t_i t < n)%nat /\ (t_j t < n)%nat) ->
  NoDup (map fst tri) ->
  (forall j, (j < n)%nat -> exists t, In t tri /\ t_j t = j) ->
  has_PM n tri ->
  forall epsr k x y u v, 0 <= epsr ->
  lapjv Fixed 0 epsr k n tri = Some (x, y, u, v) -> Inverse n x y.
Proof.
  intros Hrange Hpairs Hcols HPM epsr k x y u v Her. unfold lapjv.
  pose proof (phases123_inv_ext n tri Hrange Hpairs Hcols HPM epsr (arr_fuel n tri) k) as P123. cbn zeta in P123.
  pose proof (phase1_comp n tri) as C1.
  destruct (reduction_transfer Fixed n (rows_of n tri) (jflat_of (rows_of n tri)) (x_init n (min_i n tri))
              (one_rows n (min_i n tri)) (repeat (Fin 0) n) (v_init n tri)) as [u1 v1]. cbn [snd] in P123.
  set (arr := match free_rows n (min_i n tri) with
              | [] => Some (x_init n (min_i n tri), y_init n (x_init n (min_i n tri)), v1, free_rows n (min_i n tri))
              | _ => arr_passes k (arr_fuel n tri) (Fin 0) (Fin epsr) n (rows_of n tri)
                       (x_init n (min_i n tri), y_init n (x_init n (min_i n tri)), v1, free_rows n (min_i n tri))
              end) in *.
  destruct arr as [[[[x2 y2] v2] ii]|] eqn:EA; [|discriminate].
  destruct (P123 x2 y2 v2 ii Her eq_refl) as [HI HP].
  assert (HC : length y2 = n /\ Comp n y2 ii).
  { destruct HI as [_ [Ly2 _]]. split; auto. unfold arr in EA.
    destruct (free_rows n (min_i n tri)) as [|f0 fr] eqn:EF.
    - injection EA as Ex Ey Ev Ei. rewrite <- Ey, <- Ei. exact C1.
    - eapply (arr_passes_comp n (rows_of n tri) (fun i j c H => proj1 (rows_fin n tri Hrange i j c H))); [|exact C1|exact EA].
      unfold y_init. rewrite y_init_go_length, repeat_length. reflexivity. }
  destruct HC as [Ly2 HC].
  set (inf := eadd (esum (concat (map (map snd) (rows_of n tri)))) (Fin 1)).
  set (s0 := mkMain x2 y2 v2 (repeat (Fin 0) n) (repeat 1%nat n) (repeat n n) (repeat n n)).
  destruct (fold_left (aug_row n inf (rows_of n tri)) ii (Some s0)) as [s|] eqn:EFold; [|discriminate].
  destruct (final_u (rows_of n tri) (m_x s) (m_v s)) as [uf|]; [|discriminate].
  intros E. injection E as Ex Ey Eu Ev. rewrite <- Ex, <- Ey.
  assert (S0 : St n s0).
  { destruct HI as [Lx2 [_ [_ [SL _]]]]. unfold St, s0. cbn [m_x m_y m_done m_ontodo m_pred].
    rewrite !repeat_length. repeat split; auto.
    - destruct (SL j i H H1 H2) as [A _]; exact A.
    - destruct (SL j i H H1 H2) as [_ [A _]]; exact A. }
  destruct (aug_rows_struct n (rows_of n tri) inf (fun i j c H => proj1 (rows_fin n tri Hrange i j c H))
              (rows_nodup n tri Hpairs) ii s0 s S0 HP EFold) as [[Lx [Ly [_ [_ [_ PI]]]]] Cnt].
  unfold s0 in Cnt. cbn [m_y] in Cnt. pose proof (comp_count n y2 ii HC) as CC.
  apply perm_of_full; auto. apply all_assigned. lia.
Qed.

(* ---------------------------------------------------------------- ... over listed pairs *)

Lemma bsearch_some js val : forall fuel lo hi k, 0 <= lo -> hi < Z.of_nat (length js) ->
  bsearch fuel js lo hi val = Some k -> (k < length js)%nat /\ nth k js 0%nat = val.
Proof.
  induction fuel as [|f IH]; intros lo hi k Hlo Hhi; cbn [bsearch]; [discriminate|].
  destruct (Z.leb_spec lo hi) as [L|L]; [|discriminate].
  assert (Hmid : lo <= (lo + hi) / 2 <= hi) by (split; [apply Z.div_le_lower_bound|apply Z.div_le_upper_bound]; lia).
  destruct (Nat.eqb_spec val (nth (Z.to_nat ((lo + hi) / 2)) js 0%nat)) as [E|NE].
  - intros H; inversion H; subst. split; [lia|auto].
  - destruct (nth (Z.to_nat ((lo + hi) / 2)) js 0 <? val)%nat; apply IH; lia.
Qed.

Lemma cost_at_some_in row j c : cost_at row j = Some c -> In (j, c) row.
Proof.
  unfold cost_at. destruct (bsearch (S (length row)) (map fst row) 0 (Z.of_nat (length row) - 1) j) as [k|] eqn:E; [|discriminate].
  intros H; inversion H; subst.
  assert (Hlen : Z.of_nat (length row) - 1 < Z.of_nat (length (map fst row))) by (rewrite map_length; lia).
  destruct (bsearch_some (map fst row) j (S (length row)) 0 (Z.of_nat (length row) - 1) k (Z.le_refl 0) Hlen E) as [Hk Ek].
  rewrite map_length in Hk.
  assert (Ep : nth k row (0%nat, NaN) = (j, nth k (map snd row) NaN)).
  { rewrite (surjective_pairing (nth k row (0%nat, NaN))). f_equal.
    - rewrite <- Ek. rewrite (nth_indep _ 0%nat (fst (0%nat, NaN))) by (rewrite map_length; auto). rewrite map_nth. reflexivity.
    - rewrite (nth_indep _ NaN (snd (0%nat, NaN))) by (rewrite map_length; auto). rewrite map_nth. reflexivity. }
  rewrite <- Ep. apply nth_In. exact Hk.
Qed.

Lemma final_u_listed v : forall rows x u, final_u rows x v = Some u ->
  forall i, (i < length rows)%nat -> exists c, In (nth i x 0%nat, c) (nth i rows []).
Proof.
  induction rows as [|row rr IH]; intros x u E i Hi; [cbn in Hi; lia|].
  destruct x as [|j xr]; [discriminate|]. cbn [final_u] in E.
  destruct (cost_at row j) as [c|] eqn:EC; [|discriminate].
  destruct (final_u rr xr v) as [us|] eqn:EU; [|discriminate].
  destruct i as [|i]; cbn [nth]; [exists c; apply cost_at_some_in; auto|].
  apply (IH xr us EU). cbn [length] in Hi. lia.
Qed.

Lemma cost_of_in tri : forall i j c, In (i, j, c) tri -> cost tri i j <> None.
Proof.
  induction tri as [|t r IH]; intros i j c Hin; [destruct Hin|]. destruct Hin as [Et|Hin]; [subst t|]; cbn [cost t_i t_j fst snd].
  - rewrite !Nat.eqb_refl. cbn. discriminate.
  - destruct ((t_i t =? i)%nat && (t_j t =? j)%nat); [discriminate|]. eapply IH; eauto.
Qed.

Theorem lapjv_fixed_pm n tri :
  (forall t, In t tri -> (t_i t < n)%nat /\ (t_j t < n)%nat) ->
  NoDup (map fst tri) ->
  (forall j, (j < n)%nat -> exists t, In t tri /\ t_j t = j) ->
  has_PM n tri ->
  forall epsr k x y u v, 0 <= epsr ->
  lapjv Fixed 0 epsr k n tri = Some (x, y, u, v) -> PM n tri x /\ Inverse n x y.
Proof.
  intros Hrange Hpairs Hcols HPM epsr k x y u v Her E.
  pose proof (lapjv_fixed_perm n tri Hrange Hpairs Hcols HPM epsr k x y u v Her E) as Inv.
  split; [|exact Inv]. split; [eapply inverse_perm; eauto|].
  intros i Hi. unfold lapjv in E.
  destruct (reduction_transfer Fixed n (rows_of n tri) (jflat_of (rows_of n tri)) (x_init n (min_i n tri))
              (one_rows n (min_i n tri)) (repeat (Fin 0) n) (v_init n tri)) as [u1 v1].
  destruct (match free_rows n (min_i n tri) with
            | [] => Some (x_init n (min_i n tri), y_init n (x_init n (min_i n tri)), v1, free_rows n (min_i n tri))
            | _ => arr_passes k (arr_fuel n tri) (Fin 0) (Fin epsr) n (rows_of n tri)
                     (x_init n (min_i n tri), y_init n (x_init n (min_i n tri)), v1, free_rows n (min_i n tri))
            end) as [[[[x2 y2] v2] ii]|]; [|discriminate].
  destruct (fold_left _ ii _) as [s|]; [|discriminate].
  destruct (final_u (rows_of n tri) (m_x s) (m_v s)) as [uf|] eqn:EU; [|discriminate].
  injection E as Ex Ey Eu Ev. subst x.
  destruct (final_u_listed (m_v s) (rows_of n tri) (m_x s) uf EU i) as [c Hc].
  { unfold rows_of. rewrite map_length, seq_length. exact Hi. }
  fold (rowget (rows_of n tri) i) in Hc. fold (row (rows_of n tri) i) in Hc.
  destruct (rows_fin n tri Hrange i _ c Hc) as [_ [z ->]].
  apply (row_in_tri n tri) in Hc. unfold col. eapply cost_of_in; eauto.
Qed.

(* with the eps band on, for costs on a grid coarser than eps (eps_irrelevant_on_grid) *)
From Centro Require Import Proofs.LapjvGrid.
Corollary lapjv_fixed_pm_grid n tri g eps epsr k x y u v :
  (forall t, In t tri -> (t_i t < n)%nat /\ (t_j t < n)%nat) ->
  NoDup (map fst tri) ->
  (forall j, (j < n)%nat -> exists t, In t tri /\ t_j t = j) ->
  has_PM n tri ->
  0 <= eps < g -> 0 <= epsr < g -> (forall t, In t tri -> (g | t_c t)) ->
  lapjv Fixed eps epsr k n tri = Some (x, y, u, v) -> PM n tri x /\ Inverse n x y.
Proof.
  intros Hrange Hpairs Hcols HPM He Her Hg E.
  rewrite (eps_irrelevant_on_grid g Fixed eps epsr k n tri He Her Hg) in E.
  apply (lapjv_fixed_pm n tri Hrange Hpairs Hcols HPM 0 k x y u v); [lia|exact E].
Qed.
