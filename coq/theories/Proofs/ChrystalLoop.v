(* C14 — Chrystal's iteration as written terminates within the model's fuel and ends in a circle
   that encloses every point, for every point list in general position whose first two points
   span a supporting line.  Invariant: the circle through S0, S1 and the vertex V of smallest angle
   encloses all points; replacing an obtuse end point by V keeps it (ChrystalGeom.v) and strictly
   lengthens the chord S0 S1, which can happen at most (number of point pairs) times. *)
From Coq Require Import ZArith List Bool Lia ZifyBool.
From Centro Require Import Base.Sx Model.Circle Spec.ChrystalHyp Proofs.ChrystalGeom.
Import ListNotations.
Open Scope Z_scope.

(* ---------------------------------------------------------------- hypotheses *)
Lemma cpt_eqb_eq p q : cpt_eqb p q = true <-> p = q.
Proof.
  destruct p, q. unfold cpt_eqb. cbn [fst snd]. split.
  - intro H. f_equal; lia.
  - intro H. inversion H. lia.
Qed.

Lemma nodup_b_NoDup l : nodup_b l = true -> NoDup l.
Proof.
  induction l as [|a t IH]; intro H; [constructor|]. cbn [nodup_b] in H.
  apply andb_true_iff in H. destruct H as [N D]. constructor; [|apply IH; exact D].
  intro I. apply negb_true_iff in N. assert (existsb (cpt_eqb a) t = true); [|congruence].
  apply existsb_exists. exists a. split; [exact I|apply cpt_eqb_eq; reflexivity].
Qed.

Definition GP (h : list cpt) : Prop :=
  NoDup h /\ forall a b p, In a h -> In b h -> In p h -> a <> b -> ccross a b p = 0 -> p = a \/ p = b.

Lemma general_position_GP h : general_position h = true -> GP h.
Proof.
  unfold general_position. intro H. apply andb_true_iff in H. destruct H as [N F].
  split; [apply nodup_b_NoDup; exact N|].
  intros a b p Ia Ib Ip Nab Z0. rewrite forallb_forall in F. specialize (F a Ia).
  rewrite forallb_forall in F. specialize (F b Ib). rewrite forallb_forall in F. specialize (F p Ip).
  apply orb_true_iff in F. destruct F as [F|F]; [|right; apply cpt_eqb_eq; exact F].
  apply orb_true_iff in F. destruct F as [F|F]; [|left; apply cpt_eqb_eq; exact F].
  apply orb_true_iff in F. destruct F as [F|F]; [apply cpt_eqb_eq in F; contradiction|].
  apply negb_true_iff in F. lia.
Qed.

Section Loop.
  Variable h : list cpt.
  Hypothesis gp : GP h.
  Let n := length h.
  Definition hn (j : nat) : cpt := nth j h (0, 0).

  Lemma hn_In j : (j < n)%nat -> In (hn j) h.
  Proof. intro L. apply nth_In. exact L. Qed.
  Lemma hn_inj i j : (i < n)%nat -> (j < n)%nat -> hn i = hn j -> i = j.
  Proof. intros Li Lj E. destruct gp as [ND _]. apply (proj1 (NoDup_nth h (0, 0)) ND i j Li Lj E). Qed.
  Lemma In_hn p : In p h -> exists j, (j < n)%nat /\ hn j = p.
  Proof. intro I. destruct (In_nth h p (0, 0) I) as [j [L E]]. exists j. split; assumption. Qed.

  Lemma dist2_pos a b : a <> b -> 0 < dist2 a b.
  Proof.
    intro N. unfold dist2. destruct a as [a1 a2], b as [b1 b2]. cbn [fst snd].
    assert (a1 <> b1 \/ a2 <> b2) by (destruct (Z.eq_dec a1 b1), (Z.eq_dec a2 b2); subst; try tauto; congruence).
    pose proof (Z.square_nonneg (a1 - b1)). pose proof (Z.square_nonneg (a2 - b2)).
    destruct H; [assert (0 < (a1 - b1) * (a1 - b1)) by nia|assert (0 < (a2 - b2) * (a2 - b2)) by nia]; lia.
  Qed.

  (* ---------------------------------------------------------------- the scan for the best vertex *)
  Section Scan.
    Variables s0 s1 : nat.
    Let A := hn s0.
    Let B := hn s1.
    Definition cand (j : nat) : Prop := (j < n)%nat /\ j <> s0 /\ j <> s1.
    Definition leq (d1 A1 d2 A2 : Z) : Prop := sgnsq d1 A2 <= sgnsq d2 A1.

    Lemma leq_refl d a : leq d a d a.
    Proof. unfold leq. lia. Qed.
    Lemma leq_trans d1 A1 d2 A2 d3 A3 : 0 < A1 -> 0 < A2 -> 0 < A3 ->
      leq d1 A1 d2 A2 -> leq d2 A2 d3 A3 -> leq d1 A1 d3 A3.
    Proof.
      unfold leq, sgnsq. intros P1 P2 P3 H1 H2.
      set (u1 := Z.sgn d1 * (d1 * d1)) in *. set (u2 := Z.sgn d2 * (d2 * d2)) in *. set (u3 := Z.sgn d3 * (d3 * d3)) in *.
      apply Z.mul_le_mono_pos_r with (p := A2); [exact P2|].
      assert (T1 : u1 * A2 * A3 <= u2 * A1 * A3) by (apply Z.mul_le_mono_nonneg_r; lia).
      assert (T2 : u2 * A3 * A1 <= u3 * A2 * A1) by (apply Z.mul_le_mono_nonneg_r; lia).
      lia.
    Qed.

    Hypothesis Ls0 : (s0 < n)%nat.
    Hypothesis Ls1 : (s1 < n)%nat.

    Lemma cand_Apos j : cand j -> 0 < Aof A B (hn j).
    Proof.
      intros (L & N0 & N1). unfold Aof.
      assert (hn s0 <> hn j) by (intro E; apply hn_inj in E; try assumption; lia).
      assert (hn s1 <> hn j) by (intro E; apply hn_inj in E; try assumption; lia).
      pose proof (dist2_pos A (hn j) H). pose proof (dist2_pos B (hn j) H0). nia.
    Qed.

    Definition best_ok (k : nat) (best : option (nat * Z * Z)) : Prop :=
      match best with
      | None => forall j, (j < k)%nat -> (j < n)%nat -> j = s0 \/ j = s1
      | Some (b, bd, bA) =>
          cand b /\ bd = dot3 A B (hn b) /\ bA = Aof A B (hn b) /\
          forall j, (j < k)%nat -> cand j -> leq (dot3 A B (hn j)) (Aof A B (hn j)) bd bA
      end.

    Lemma bv_gen : forall t k best,
      (forall i, (i < length t)%nat -> nth (k + i) h (0, 0) = nth i t (0, 0)) ->
      (k + length t = n)%nat -> best_ok k best ->
      best_ok n (best_vertex t k s0 s1 A B best).
    Proof.
      induction t as [|v t IH]; intros k best Nth Len OK; cbn [best_vertex].
      - cbn [length] in Len. replace n with k by lia. exact OK.
      - cbn [length] in Len.
        assert (Hv : v = hn k).
        { specialize (Nth O). cbn [length nth] in Nth. rewrite Nat.add_0_r in Nth. symmetry. apply Nth. lia. }
        apply (IH (S k)).
        + intros i Hi. specialize (Nth (S i)). cbn [length nth] in Nth.
          replace (S k + i)%nat with (k + S i)%nat by lia. apply Nth. lia.
        + lia.
        + destruct ((k =? s0)%nat || (k =? s1)%nat) eqn:Sk.
          * (* index skipped *)
            destruct best as [[[b bd] bA]|]; cbn [best_ok] in *.
            -- destruct OK as (Cb & Ed & Ea & Mx). split; [exact Cb|split; [exact Ed|split; [exact Ea|]]].
               intros j Lj Cj. apply Mx; [|exact Cj]. destruct Cj as (_ & N0 & N1). lia.
            -- intros j Lj Ln. destruct (Nat.eq_dec j k); [subst; lia|apply OK; lia].
          * assert (Ck : cand k) by (unfold cand; lia).
            subst v.
            destruct best as [[[b bd] bA]|]; cbn [best_ok] in *.
            -- destruct OK as (Cb & Ed & Ea & Mx).
               fold (Aof A B (hn k)).
               destruct (cos_gt (dot3 A B (hn k)) (Aof A B (hn k)) bd bA) eqn:C; cbn [best_ok].
               ++ split; [exact Ck|split; [reflexivity|split; [reflexivity|]]].
                  intros j Lj Cj. destruct (Nat.eq_dec j k) as [->|Nj]; [apply leq_refl|].
                  apply (leq_trans _ _ bd bA).
                  ** apply cand_Apos; exact Cj.
                  ** subst bA. apply cand_Apos; exact Cb.
                  ** apply cand_Apos; exact Ck.
                  ** apply Mx; [lia|exact Cj].
                  ** unfold cos_gt in C. unfold leq. lia.
               ++ split; [exact Cb|split; [exact Ed|split; [exact Ea|]]].
                  intros j Lj Cj. destruct (Nat.eq_dec j k) as [->|Nj]; [|apply Mx; [lia|exact Cj]].
                  unfold cos_gt in C. unfold leq. lia.
            -- fold (Aof A B (hn k)). split; [exact Ck|split; [reflexivity|split; [reflexivity|]]].
               intros j Lj Cj. destruct (Nat.eq_dec j k) as [->|Nj]; [apply leq_refl|].
               destruct Cj as (Ljn & N0 & N1). destruct (OK j ltac:(lia) Ljn); contradiction.
    Qed.

    Lemma bv_spec : best_ok n (best_vertex h 0 s0 s1 A B None).
    Proof.
      apply bv_gen; [intros i _; reflexivity|reflexivity|].
      cbn [best_ok]. intros j L. lia.
    Qed.
  End Scan.

  (* the scan does not depend on the order of the chord's end points *)
  Lemma bv_sym s0 s1 a b : forall t k best,
    best_vertex t k s0 s1 a b best = best_vertex t k s1 s0 b a best.
  Proof.
    induction t as [|v t IH]; intros k best; cbn [best_vertex]; [reflexivity|].
    rewrite (orb_comm (k =? s0)%nat (k =? s1)%nat).
    rewrite (dot3_flip a b v). rewrite (Z.mul_comm (dist2 a v) (dist2 b v)). apply IH.
  Qed.

  (* ---------------------------------------------------------------- the invariant *)
  Definition Inv (s0 s1 : nat) : Prop :=
    forall k dv Av, best_vertex h 0 s0 s1 (hn s0) (hn s1) None = Some (k, dv, Av) -> 0 < dv ->
                    forall p, In p h -> inK (hn s0) (hn s1) (hn k) p.

  Lemma Inv_sym s0 s1 : Inv s0 s1 -> Inv s1 s0.
  Proof.
    intros I k dv Av E Dv p Ip. rewrite bv_sym in E. apply inK_flip. exact (I k dv Av E Dv p Ip).
  Qed.

  Lemma ccross_self_a a b : ccross a b a = 0. Proof. unfold ccross. ring. Qed.
  Lemma ccross_self_b a b : ccross a b b = 0. Proof. unfold ccross. ring. Qed.
  Lemma dot3_self_a a b : dot3 a b a = 0. Proof. unfold dot3. ring. Qed.
  Lemma dot3_self_b a b : dot3 a b b = 0. Proof. unfold dot3. ring. Qed.
  Lemma inK_end_a a b v : inK a b v a.
  Proof. unfold inK, IC. rewrite ccross_self_a, dot3_self_a. lia. Qed.
  Lemma inK_end_b a b v : inK a b v b.
  Proof. unfold inK, IC. rewrite ccross_self_b, dot3_self_b. lia. Qed.

  Lemma off_line s0 s1 j : (s0 < n)%nat -> (s1 < n)%nat -> s0 <> s1 -> cand s0 s1 j ->
    ccross (hn s0) (hn s1) (hn j) <> 0.
  Proof.
    intros L0 L1 N01 (Lj & N0 & N1) Z0. destruct gp as [_ G].
    destruct (G (hn s0) (hn s1) (hn j)) as [E|E]; try (apply hn_In; assumption); try exact Z0.
    - intro E. apply hn_inj in E; try assumption. contradiction.
    - apply hn_inj in E; try assumption. contradiction.
    - apply hn_inj in E; try assumption. contradiction.
  Qed.

  (* maximality of the scan's result in cotangent form *)
  Lemma best_cot s0 s1 k dv Av j : (s0 < n)%nat -> (s1 < n)%nat -> s0 <> s1 ->
    best_vertex h 0 s0 s1 (hn s0) (hn s1) None = Some (k, dv, Av) -> cand s0 s1 j ->
    cand s0 s1 k /\ dv = dot3 (hn s0) (hn s1) (hn k) /\
    dot3 (hn s0) (hn s1) (hn j) * Z.abs (ccross (hn s0) (hn s1) (hn k)) <=
    dot3 (hn s0) (hn s1) (hn k) * Z.abs (ccross (hn s0) (hn s1) (hn j)).
  Proof.
    intros L0 L1 N01 E Cj. pose proof (bv_spec s0 s1 L0 L1) as S. rewrite E in S. cbn [best_ok] in S.
    destruct S as (Ck & Ed & Ea & Mx). split; [exact Ck|]. split; [exact Ed|].
    specialize (Mx j (proj1 Cj) Cj). unfold leq in Mx. subst dv Av. rewrite !lagrange in Mx.
    apply cos_to_cot; [apply off_line; assumption|apply off_line; assumption|exact Mx].
  Qed.

  (* the first chord: a supporting line *)
  Lemma Inv_initial : (2 <= n)%nat -> first_edge_supports h = true -> Inv 0 1.
  Proof.
    intros N2 FS k dv Av E Dv p Ip.
    destruct (In_hn p Ip) as [j [Lj <-]].
    destruct (Nat.eq_dec j 0) as [->|J0]; [apply inK_end_a|].
    destruct (Nat.eq_dec j 1) as [->|J1]; [apply inK_end_b|].
    assert (Cj : cand 0 1 j) by (unfold cand; lia).
    destruct (best_cot 0 1 k dv Av j ltac:(lia) ltac:(lia) ltac:(lia) E Cj) as (Ck & Ed & Cot).
    pose proof (off_line 0 1 j ltac:(lia) ltac:(lia) ltac:(lia) Cj) as Nj.
    pose proof (off_line 0 1 k ltac:(lia) ltac:(lia) ltac:(lia) Ck) as Nk.
    apply same_side_inside; [|exact Cot].
    unfold first_edge_supports in FS. fold (hn 0) (hn 1) in FS.
    apply orb_true_iff in FS. destruct FS as [F|F]; rewrite forallb_forall in F.
    - pose proof (F (hn j) (hn_In j Lj)). pose proof (F (hn k) (hn_In k (proj1 Ck))). nia.
    - pose proof (F (hn j) (hn_In j Lj)). pose proof (F (hn k) (hn_In k (proj1 Ck))). nia.
  Qed.

  (* replacing the obtuse end point S1 by V keeps the invariant *)
  Lemma Inv_step s0 s1 k : (s0 < n)%nat -> (s1 < n)%nat -> s0 <> s1 -> cand s0 s1 k ->
    (forall p, In p h -> inK (hn s0) (hn s1) (hn k) p) ->
    dot3 (hn s0) (hn k) (hn s1) < 0 -> Inv s0 k.
  Proof.
    intros L0 L1 N01 (Lk & K0 & K1) Encl Ob k' dv' Av' E Dv' p Ip.
    set (A := hn s0) in *. set (B := hn s1) in *. set (V := hn k) in *.
    destruct (In_hn p Ip) as [j [Lj <-]].
    destruct (Nat.eq_dec j s0) as [->|J0]; [apply inK_end_a|].
    destruct (Nat.eq_dec j k) as [->|Jk]; [apply inK_end_b|].
    assert (Cj : cand s0 k j) by (unfold cand; lia).
    destruct (best_cot s0 k k' dv' Av' j L0 Lk ltac:(lia) E Cj) as (Ck' & Ed' & Cot).
    fold A V in Ed', Cot. subst dv'.
    assert (CB : cand s0 k s1) by (unfold cand; lia).
    pose proof (off_line s0 k s1 L0 Lk ltac:(lia) CB) as NB. fold A V B in NB.
    pose proof (off_line s0 k j L0 Lk ltac:(lia) Cj) as NP. fold A V in NP.
    pose proof (off_line s0 k k' L0 Lk ltac:(lia) Ck') as NV. fold A V in NV.
    assert (InP : inK A V B (hn j)) by (apply inK_chord; apply Encl; apply hn_In; exact Lj).
    assert (InV : inK A V B (hn k')) by (apply inK_chord; apply Encl; apply hn_In; exact (proj1 Ck')).
    pose proof (acute_is_far A B V (hn k') NB Ob InV Dv') as Far.
    assert (Far' : ccross A V B * ccross A V (hn k') < 0) by nia.
    destruct (Z_lt_le_dec 0 (ccross A V B * ccross A V (hn j))) as [Near|NotNear].
    - apply (near_side_inside A B V (hn k') (hn j)); assumption.
    - apply same_side_inside; [nia|exact Cot].
  Qed.

  (* ---------------------------------------------------------------- termination measure *)
  Definition pairs : list (nat * nat) := list_prod (seq 0 n) (seq 0 n).
  Definition longer (x : Z) (ab : nat * nat) : bool := x <? dist2 (hn (fst ab)) (hn (snd ab)).
  Definition cnt (x : Z) : nat := length (filter (longer x) pairs).

  Lemma filter_length_lt {X} (f g : X -> bool) (l : list X) :
    (forall z, f z = true -> g z = true) -> (exists z, In z l /\ g z = true /\ f z = false) ->
    (length (filter f l) < length (filter g l))%nat.
  Proof.
    intros Sub. induction l as [|a t IH]; intros [z [Iz [Gz Fz]]]; [destruct Iz|].
    assert (Le : forall l', (length (filter f l') <= length (filter g l'))%nat).
    { induction l' as [|b r IHr]; cbn [filter]; [lia|].
      destruct (f b) eqn:Fb; [rewrite (Sub b Fb); cbn [length]; lia|destruct (g b); cbn [length]; lia]. }
    cbn [filter]. destruct Iz as [->|Iz].
    - rewrite Fz, Gz. cbn [length]. specialize (Le t). lia.
    - specialize (IH (ex_intro _ z (conj Iz (conj Gz Fz)))).
      destruct (f a) eqn:Fa; [rewrite (Sub a Fa); cbn [length]; lia|destruct (g a); cbn [length]; lia].
  Qed.

  Lemma cnt_decreases x a b : (a < n)%nat -> (b < n)%nat -> x < dist2 (hn a) (hn b) ->
    (cnt (dist2 (hn a) (hn b)) < cnt x)%nat.
  Proof.
    intros La Lb Lt. unfold cnt. apply filter_length_lt.
    - intros z. unfold longer. lia.
    - exists (a, b). split; [|unfold longer; cbn [fst snd]; lia].
      unfold pairs. apply in_prod; apply in_seq; lia.
  Qed.

  Lemma cnt_bound x : (cnt x <= n * n)%nat.
  Proof.
    unfold cnt.
    assert (Le : forall (l : list (nat * nat)), (length (filter (longer x) l) <= length l)%nat).
    { induction l as [|a t IHt]; cbn [filter length]; [lia|]. destruct (longer x a); cbn [length]; lia. }
    etransitivity; [apply Le|]. unfold pairs. rewrite prod_length, !seq_length. lia.
  Qed.

  (* ---------------------------------------------------------------- the loop *)
  Definition encl_z (ny nx d rn : Z) : Prop :=
    forall p, In p h -> (fst p * d - ny) * (fst p * d - ny) + (snd p * d - nx) * (snd p * d - nx) <= rn.

  Lemma diam_encl a b : (forall p, In p h -> dot3 a b p <= 0) ->
    encl_z (fst a + fst b) (snd a + snd b) 2 (dist2 a b).
  Proof. intros H p Ip. pose proof (diam_power a b p). specialize (H p Ip). lia. Qed.

  Lemma loop_ok : forall fuel s0 s1,
    (s0 < n)%nat -> (s1 < n)%nat -> s0 <> s1 -> Inv s0 s1 -> (cnt (dist2 (hn s0) (hn s1)) < fuel)%nat ->
    exists ny nx d rn, chrystal_loop fuel h s0 s1 = CCircle ny nx d rn /\ encl_z ny nx d rn.
  Proof.
    induction fuel as [|f IH]; intros s0 s1 L0 L1 N01 I M; [lia|].
    cbn [chrystal_loop]. fold (hn s0) (hn s1).
    pose proof (bv_spec s0 s1 L0 L1) as S.
    destruct (best_vertex h 0 s0 s1 (hn s0) (hn s1) None) as [[[k dv] Av]|] eqn:E; cbn [best_ok] in S.
    - destruct S as (Ck & Ed & Ea & Mx).
      destruct (dv <=? 0) eqn:Dv.
      + (* case 1: every angle is right or obtuse *)
        do 4 eexists. split; [reflexivity|]. apply diam_encl.
        intros p Ip. destruct (In_hn p Ip) as [j [Lj <-]].
        destruct (Nat.eq_dec j s0) as [->|J0]; [rewrite dot3_self_a; lia|].
        destruct (Nat.eq_dec j s1) as [->|J1]; [rewrite dot3_self_b; lia|].
        assert (Cj : cand s0 s1 j) by (unfold cand; lia).
        specialize (Mx j Lj Cj). unfold leq, sgnsq in Mx.
        pose proof (cand_Apos s0 s1 L0 L1 j Cj) as Pj. pose proof (cand_Apos s0 s1 L0 L1 k Ck) as Pk.
        rewrite <- Ea in Pk.
        assert (Z.sgn dv * (dv * dv) * Aof (hn s0) (hn s1) (hn j) <= 0) by nia.
        assert (Z.sgn (dot3 (hn s0) (hn s1) (hn j)) * (dot3 (hn s0) (hn s1) (hn j) * dot3 (hn s0) (hn s1) (hn j)) <= 0) by nia.
        nia.
      + fold (hn k).
        assert (DvP : 0 < dv) by lia.
        pose proof (I k dv Av E DvP) as Encl.
        destruct ((0 <=? dot3 (hn s1) (hn k) (hn s0)) && (0 <=? dot3 (hn s0) (hn k) (hn s1))) eqn:C2.
        * (* case 2: circumcircle *)
          unfold circum.
          pose proof (off_line s0 s1 k L0 L1 N01 Ck) as Nk.
          assert (ND : circ_D (hn s0) (hn s1) (hn k) <> 0) by (rewrite circ_D_ccross; lia).
          apply Z.eqb_neq in ND. rewrite ND.
          do 4 eexists. split; [reflexivity|].
          intros p Ip. pose proof (circum_power (hn s0) (hn s1) (hn k) p) as Pw.
          specialize (Encl p Ip). unfold inK in Encl. lia.
        * destruct (dot3 (hn s1) (hn k) (hn s0) <? 0) eqn:Ob.
          -- (* S0 obtuse: V becomes S0 *)
             apply IH; try lia; try exact (proj1 Ck); try (destruct Ck; lia).
             ++ apply Inv_sym. apply (Inv_step s1 s0 k L1 L0 ltac:(lia)).
                ** unfold cand in *. lia.
                ** intros p Ip. apply inK_flip. apply Encl. exact Ip.
                ** lia.
             ++ assert (G : dist2 (hn s1) (hn s0) < dist2 (hn s1) (hn k)) by (apply chord_grows; lia).
                assert (Sy : forall a b, dist2 a b = dist2 b a) by (intros; unfold dist2; ring).
                rewrite (Sy (hn s1) (hn s0)), (Sy (hn s1) (hn k)) in G.
                pose proof (cnt_decreases _ k s1 (proj1 Ck) L1 G). lia.
          -- (* S1 obtuse: V becomes S1 *)
             apply IH; try lia; try exact (proj1 Ck); try (destruct Ck; lia).
             ++ apply (Inv_step s0 s1 k L0 L1 N01 Ck Encl). lia.
             ++ assert (G : dist2 (hn s0) (hn s1) < dist2 (hn s0) (hn k)) by (apply chord_grows; lia).
                pose proof (cnt_decreases _ s0 k L0 (proj1 Ck) G). lia.
    - (* case 1a: no other vertex *)
      do 4 eexists. split; [reflexivity|]. apply diam_encl.
      intros p Ip. destruct (In_hn p Ip) as [j [Lj <-]].
      destruct (S j Lj Lj) as [-> | ->]; [rewrite dot3_self_a; lia|rewrite dot3_self_b; lia].
  Qed.
End Loop.
