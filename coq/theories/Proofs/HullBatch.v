(* C02 — the request walk of convex_hull_ijv: every sorted request gets the hull of exactly its
   own pixels (independence of other labels up to the buffer slack), absent labels get nothing. *)
From Coq Require Import ZArith List Bool Lia ZifyBool Sorted.
From Centro Require Import Base.Sx Model.Hull Spec.HullSpec.
Import ListNotations.
Open Scope Z_scope.

Definition sorted_v (l : list row) : Prop := StronglySorted (fun a b => r_v a <= r_v b) l.
Definition sel (l : Z) (rest : list row) : list row := filter (fun r => r_v r =? l) rest.

Lemma sel_none l rest : (forall x, In x rest -> r_v x <> l) -> sel l rest = [].
Proof.
  induction rest as [|r t IH]; intros H; cbn [sel filter]; auto.
  destruct (r_v r =? l) eqn:E.
  - exfalso. apply (H r); [left; auto | lia].
  - apply IH. intros x Hx. apply H. right. exact Hx.
Qed.

Lemma sorted_v_tail r t : sorted_v (r :: t) -> sorted_v t.
Proof. intros H. inversion H. assumption. Qed.
Lemma sorted_v_head r t x : sorted_v (r :: t) -> In x (r :: t) -> r_v r <= r_v x.
Proof.
  intros H [Hx|Hx]; [subst; lia|]. inversion H as [|a l HS HF]. subst.
  rewrite Forall_forall in HF. apply HF. exact Hx.
Qed.

Lemma skip_lt_spec l rest : sorted_v rest ->
  sorted_v (skip_lt l rest) /\ incl (skip_lt l rest) rest /\
  (forall x, In x (skip_lt l rest) -> l <= r_v x) /\
  (forall l', l <= l' -> sel l' (skip_lt l rest) = sel l' rest).
Proof.
  induction rest as [|r t IH]; intros HS; cbn [skip_lt].
  - repeat split; auto. { apply incl_refl. } intros x Hx; destruct Hx.
  - destruct (r_v r <? l) eqn:E.
    + destruct (IH (sorted_v_tail _ _ HS)) as [A [B [C D]]]. repeat split; auto.
      * intros x Hx. right. apply B. exact Hx.
      * intros l' Hl'. rewrite D by exact Hl'. cbn [sel filter].
        destruct (r_v r =? l') eqn:E2; [lia | reflexivity].
    + repeat split; auto. { apply incl_refl. }
      intros x Hx. pose proof (sorted_v_head _ _ _ HS Hx). lia.
Qed.

Lemma span_eq_spec l rest : sorted_v rest -> (forall x, In x rest -> l <= r_v x) ->
  fst (span_eq l rest) = sel l rest /\ sorted_v (snd (span_eq l rest)) /\
  incl (snd (span_eq l rest)) rest /\
  (forall l', l < l' -> sel l' (snd (span_eq l rest)) = sel l' rest).
Proof.
  induction rest as [|r t IH]; intros HS HL; cbn [span_eq].
  - cbn [fst snd]. split; [reflexivity|]. split; [constructor|]. split; [apply incl_refl|]. reflexivity.
  - destruct (r_v r =? l) eqn:E.
    + destruct (IH (sorted_v_tail _ _ HS)) as [A [B [C D]]].
      { intros x Hx. apply HL. right. exact Hx. }
      destruct (span_eq l t) as [a b]. cbn [fst snd] in *. repeat split; auto.
      * cbn [sel filter]. rewrite E. f_equal. exact A.
      * intros x Hx. right. apply C. exact Hx.
      * intros l' Hl'. rewrite D by exact Hl'. cbn [sel filter].
        destruct (r_v r =? l') eqn:E2; [lia | reflexivity].
    + cbn [fst snd]. repeat split; auto.
      * symmetry. apply sel_none. intros x Hx. pose proof (sorted_v_head _ _ _ HS Hx).
        assert (l <= r_v r) by (apply HL; left; reflexivity). lia.
      * apply incl_refl.
Qed.

Lemma nth_block_0 x bs : nth_block (x :: bs) 0 = snd (fst x).
Proof. reflexivity. Qed.
Lemma nth_block_S x bs k : nth_block (x :: bs) (S k) = nth_block bs k.
Proof. reflexivity. Qed.

Lemma hull_label_nil m s : hull_label m [] s = [].
Proof. reflexivity. Qed.

(* The k-th sorted request receives hull_label of exactly the rows carrying its label, whatever
   the other rows are; only the slack of the in-place buffer depends on them. *)
Lemma walk_blocks m ml : forall reqs rest pix out,
  sorted_v rest -> StronglySorted Z.lt reqs -> (forall x, In x rest -> r_v x <= ml) ->
  forall k, (k < length reqs)%nat ->
  exists slack, nth_block (walk m ml reqs rest pix out) k
                = hull_label m (map r_pt (sel (nth k reqs 0) rest)) slack.
Proof.
  induction reqs as [|l reqs IH]; intros rest pix out HS HR HM k Hk; [cbn in Hk; lia|].
  assert (HR' : StronglySorted Z.lt reqs) by (inversion HR; assumption).
  assert (Hlt : forall k', (k' < length reqs)%nat -> l < nth k' reqs 0).
  { intros k' Hk'. inversion HR as [|a r0 _ HF]. subst. rewrite Forall_forall in HF.
    apply HF. apply nth_In. exact Hk'. }
  cbn [walk].
  set (rest1 := if l <=? ml then skip_lt l rest else rest).
  assert (P1 : sorted_v rest1 /\ incl rest1 rest /\ (forall l', l <= l' -> sel l' rest1 = sel l' rest)
               /\ ((forall x, In x rest1 -> l <= r_v x) \/ (forall x, In x rest1 -> r_v x < l))).
  { unfold rest1. destruct (l <=? ml) eqn:E.
    - destruct (skip_lt_spec l rest HS) as [A [B [C D]]]. repeat split; auto.
    - repeat split; auto. { apply incl_refl. } right. intros x Hx. specialize (HM x Hx). lia. }
  destruct P1 as [S1 [I1 [F1 B1]]].
  assert (HM1 : forall x, In x rest1 -> r_v x <= ml) by (intros x Hx; apply HM; apply I1; exact Hx).
  generalize (pix + (zlen rest - zlen rest1)). intros pix1.
  destruct rest1 as [|r t] eqn:ER.
  - destruct k as [|k].
    + rewrite nth_block_0. cbn [fst snd nth]. exists 0.
      rewrite <- (F1 l) by lia. reflexivity.
    + rewrite nth_block_S. cbn [nth]. cbn [length] in Hk.
      destruct (IH [] pix1 out S1 HR' HM1 k ltac:(lia)) as [s Es]. exists s. rewrite Es.
      rewrite <- (F1 (nth k reqs 0)); [reflexivity|]. specialize (Hlt k ltac:(lia)). lia.
  - destruct (negb (l =? r_v r)) eqn:EN.
    + assert (Hnone : sel l (r :: t) = []).
      { apply sel_none. intros x Hx. destruct B1 as [B1|B1].
        - pose proof (sorted_v_head _ _ _ S1 Hx). specialize (B1 r ltac:(left; reflexivity)). lia.
        - specialize (B1 x Hx). lia. }
      destruct k as [|k].
      * rewrite nth_block_0. cbn [fst snd nth]. exists 0. rewrite <- (F1 l) by lia. rewrite Hnone. reflexivity.
      * rewrite nth_block_S. cbn [nth]. cbn [length] in Hk.
        destruct (IH (r :: t) pix1 out S1 HR' HM1 k ltac:(lia)) as [s Es]. exists s. rewrite Es.
        rewrite <- (F1 (nth k reqs 0)); [reflexivity|]. specialize (Hlt k ltac:(lia)). lia.
    + assert (B1' : forall x, In x (r :: t) -> l <= r_v x).
      { destruct B1 as [B1|B1]; auto. specialize (B1 r ltac:(left; reflexivity)). lia. }
      destruct (span_eq_spec l (r :: t) S1 B1') as [A [B [C D]]].
      destruct (span_eq l (r :: t)) as [blk rest2]. cbn [fst snd] in A, B, C, D.
      destruct k as [|k].
      * rewrite nth_block_0. cbn [fst snd nth]. eexists. rewrite A. rewrite (F1 l) by lia. reflexivity.
      * rewrite nth_block_S. cbn [nth]. cbn [length] in Hk.
        assert (HM2 : forall x, In x rest2 -> r_v x <= ml) by (intros x Hx; apply HM1; apply C; exact Hx).
        destruct (IH rest2 (pix1 + zlen blk) (out + zlen (hull_label m (map r_pt blk) (pix1 - out))) B HR' HM2 k ltac:(lia)) as [s Es].
        exists s. rewrite Es. specialize (Hlt k ltac:(lia)).
        rewrite D by lia. rewrite (F1 (nth k reqs 0)) by lia. reflexivity.
Qed.

(* ---------------------------------------------------------------- the walk with a non-negative slack *)
Lemma skip_lt_len l rest : zlen (skip_lt l rest) <= zlen rest.
Proof.
  unfold zlen. induction rest as [|r t IH]; cbn [skip_lt]; [lia|].
  destruct (r_v r <? l); cbn [length] in *; lia.
Qed.

Section WalkNonneg.
  Variables (m ml : Z) (Good : list pt -> Prop).
  (* premise: on good pixel lists the kernel's output fits into the label's own rows *)
  Hypothesis NoOv : forall pts slack, Good pts -> 0 <= slack ->
    zlen (hull_label m pts slack) <= slack + zlen pts.

  Lemma walk_blocks_nonneg : forall reqs rest pix out,
    sorted_v rest -> StronglySorted Z.lt reqs -> (forall x, In x rest -> r_v x <= ml) ->
    out <= pix ->
    (forall k, (k < length reqs)%nat -> Good (map r_pt (sel (nth k reqs 0) rest))) ->
    forall k, (k < length reqs)%nat ->
    exists slack, 0 <= slack /\
      nth_block (walk m ml reqs rest pix out) k = hull_label m (map r_pt (sel (nth k reqs 0) rest)) slack.
  Proof.
    induction reqs as [|l reqs IH]; intros rest pix out HS HR HM Hop HG k Hk; [cbn in Hk; lia|].
    assert (HR' : StronglySorted Z.lt reqs) by (inversion HR; assumption).
    assert (Hlt : forall k', (k' < length reqs)%nat -> l < nth k' reqs 0).
    { intros k' Hk'. inversion HR as [|a r0 _ HF]. subst. rewrite Forall_forall in HF.
      apply HF. apply nth_In. exact Hk'. }
    cbn [walk].
    set (rest1 := if l <=? ml then skip_lt l rest else rest).
    assert (P1 : sorted_v rest1 /\ incl rest1 rest /\ (forall l', l <= l' -> sel l' rest1 = sel l' rest)
                 /\ ((forall x, In x rest1 -> l <= r_v x) \/ (forall x, In x rest1 -> r_v x < l))
                 /\ zlen rest1 <= zlen rest).
    { unfold rest1. destruct (l <=? ml) eqn:E.
      - destruct (skip_lt_spec l rest HS) as [A [B [C D]]]. pose proof (skip_lt_len l rest). repeat split; auto.
      - repeat split; auto; try lia. { apply incl_refl. } right. intros x Hx. specialize (HM x Hx). lia. }
    destruct P1 as [S1 [I1 [F1 [B1 Len1]]]].
    assert (HM1 : forall x, In x rest1 -> r_v x <= ml) by (intros x Hx; apply HM; apply I1; exact Hx).
    assert (HG1 : forall k', (k' < length reqs)%nat -> Good (map r_pt (sel (nth k' reqs 0) rest1))).
    { intros k' Hk'. rewrite F1 by (specialize (Hlt k' Hk'); lia). apply (HG (S k')). cbn [length]. lia. }
    set (pix1 := pix + (zlen rest - zlen rest1)). assert (Hp1 : out <= pix1) by (unfold pix1; lia).
    clearbody pix1.
    destruct rest1 as [|r t] eqn:ER.
    - destruct k as [|k].
      + rewrite nth_block_0. cbn [fst snd nth]. exists 0. split; [lia|].
        rewrite <- (F1 l) by lia. reflexivity.
      + rewrite nth_block_S. cbn [nth]. cbn [length] in Hk.
        destruct (IH [] pix1 out S1 HR' HM1 Hp1 HG1 k ltac:(lia)) as [s [Hs Es]]. exists s. split; [exact Hs|]. rewrite Es.
        rewrite <- (F1 (nth k reqs 0)); [reflexivity|]. specialize (Hlt k ltac:(lia)). lia.
    - destruct (negb (l =? r_v r)) eqn:EN.
      + assert (Hnone : sel l (r :: t) = []).
        { apply sel_none. intros x Hx. destruct B1 as [B1|B1].
          - pose proof (sorted_v_head _ _ _ S1 Hx). specialize (B1 r ltac:(left; reflexivity)). lia.
          - specialize (B1 x Hx). lia. }
        destruct k as [|k].
        * rewrite nth_block_0. cbn [fst snd nth]. exists 0. split; [lia|]. rewrite <- (F1 l) by lia. rewrite Hnone. reflexivity.
        * rewrite nth_block_S. cbn [nth]. cbn [length] in Hk.
          destruct (IH (r :: t) pix1 out S1 HR' HM1 Hp1 HG1 k ltac:(lia)) as [s [Hs Es]]. exists s. split; [exact Hs|]. rewrite Es.
          rewrite <- (F1 (nth k reqs 0)); [reflexivity|]. specialize (Hlt k ltac:(lia)). lia.
      + assert (B1' : forall x, In x (r :: t) -> l <= r_v x).
        { destruct B1 as [B1|B1]; auto. specialize (B1 r ltac:(left; reflexivity)). lia. }
        destruct (span_eq_spec l (r :: t) S1 B1') as [A [B [C D]]].
        destruct (span_eq l (r :: t)) as [blk rest2]. cbn [fst snd] in A, B, C, D.
        assert (Gblk : Good (map r_pt blk)).
        { rewrite A. rewrite (F1 l) by lia. apply (HG 0%nat). cbn [length]. lia. }
        destruct k as [|k].
        * rewrite nth_block_0. cbn [fst snd nth]. exists (pix1 - out). split; [lia|]. rewrite A. rewrite (F1 l) by lia. reflexivity.
        * rewrite nth_block_S. cbn [nth]. cbn [length] in Hk.
          assert (HM2 : forall x, In x rest2 -> r_v x <= ml) by (intros x Hx; apply HM1; apply C; exact Hx).
          assert (HG2 : forall k', (k' < length reqs)%nat -> Good (map r_pt (sel (nth k' reqs 0) rest2))).
          { intros k' Hk'. rewrite D by (specialize (Hlt k' Hk'); lia). apply HG1. exact Hk'. }
          assert (Hop2 : out + zlen (hull_label m (map r_pt blk) (pix1 - out)) <= pix1 + zlen blk).
          { pose proof (NoOv (map r_pt blk) (pix1 - out) Gblk ltac:(lia)) as N.
            unfold zlen in N |- *. rewrite map_length in N. lia. }
          destruct (IH rest2 (pix1 + zlen blk) (out + zlen (hull_label m (map r_pt blk) (pix1 - out))) B HR' HM2 Hop2 HG2 k ltac:(lia)) as [s [Hs Es]].
          exists s. split; [exact Hs|]. rewrite Es. specialize (Hlt k ltac:(lia)).
          rewrite D by lia. rewrite (F1 (nth k reqs 0)) by lia. reflexivity.
  Qed.
End WalkNonneg.
