(* C18 — positions in a strictly increasing list are an order isomorphism inverted by nth
   (port of design/prototypes/Rank.v). *)
From Coq Require Import ZArith List Bool Lia Sorted.
Import ListNotations.
Local Open Scope Z_scope.

Fixpoint index_of (x : Z) (u : list Z) : nat :=
  match u with [] => O | y :: r => if x =? y then O else S (index_of x r) end.

Lemma index_nth x u : In x u -> nth (index_of x u) u 0 = x.
Proof.
  induction u as [|y r IH]; cbn [In index_of nth]; [tauto|]. intros [->|H].
  - rewrite Z.eqb_refl. reflexivity.
  - destruct (Z.eqb_spec x y); [subst; reflexivity|]. cbn [nth]. auto.
Qed.
Lemma index_lt_length x u : In x u -> (index_of x u < length u)%nat.
Proof.
  induction u as [|y r IH]; cbn [In index_of length]; [tauto|]. intros [->|H].
  - rewrite Z.eqb_refl. lia.
  - destruct (Z.eqb_spec x y); [lia|]. apply IH in H. lia.
Qed.

Theorem rank_iso u : StronglySorted Z.lt u -> forall x y, In x u -> In y u ->
  (x < y <-> (index_of x u < index_of y u)%nat).
Proof.
  induction 1 as [|a r SS IH Fa]; intros x y Hx Hy; [destruct Hx|].
  rewrite Forall_forall in Fa. cbn [index_of].
  destruct Hx as [<-|Hx], Hy as [<-|Hy].
  - rewrite Z.eqb_refl. lia.
  - rewrite Z.eqb_refl. specialize (Fa y Hy). destruct (Z.eqb_spec y a); [lia|]. split; [lia|intros; auto].
  - rewrite Z.eqb_refl. specialize (Fa x Hx). destruct (Z.eqb_spec x a); [lia|]. split; [lia|lia].
  - pose proof (Fa x Hx). pose proof (Fa y Hy).
    destruct (Z.eqb_spec x a); [lia|]. destruct (Z.eqb_spec y a); [lia|].
    rewrite (IH x y Hx Hy). lia.
Qed.
